//go:build verif

package peerset

// C30, second test of the engine: the PERIODIC allocation branch of listenActionAllocSlots (`<-ticker.C`), which the
// main test never runs (its handler uses a 1 h period). Here the Handler runs with a 1-5 ms period and TWO sets, so the
// real ticker fires all the time between and during the operations; the state invariants of the property are read under
// the PeersState lock after every operation and after every observed tick effect. The only work that is left for a tick
// (every operation allocates slots itself) is re-connecting a peer whose ban decayed: the harness bans a connected peer,
// moves latestTimeUpdate back (no real waiting) and then issues NO operation until the peer is connected again - that
// connection can only come from the ticker branch. Also: Handler.PeerReputation / Handler.Messages read back consistently.
//
// No verdict depends on time: a tick effect that is not observed within the polling budget is counted, nothing else.
// Operations that demote reserved peers (remres / setres, known finding C30-K1) are not part of these histories.

import (
	"context"
	"fmt"
	"io"
	"math"
	"sort"
	"testing"
	"time"

	"github.com/ChainSafe/gossamer/internal/log"
	"github.com/ChainSafe/gossamer/zz_verif/vcommon"
	"github.com/libp2p/go-libp2p/core/peer"
)

type v30tCfg struct {
	MaxIn    [2]uint32 `json:"max_in"`
	MaxOut   [2]uint32 `json:"max_out"`
	PeriodMs int       `json:"ticker_period_ms"`
	Sets     int       `json:"sets"`
}

type v30tSetSnap struct {
	state                        map[peer.ID]MembershipState
	numIn, numOut, maxIn, maxOut uint32
	noSlot                       map[peer.ID]bool
}

type v30tSnap struct {
	rep      map[peer.ID]Reputation
	reserved map[peer.ID]bool
	sets     []v30tSetSnap
}

type v30tSim struct {
	c     *vcommon.Case
	cfg   v30tCfg
	h     *Handler
	ps    *PeerSet
	ops   []string
	view  []map[peer.ID]Status // per set: last Connect/Accept not followed by Drop, from the messages
	nmsg  int
	dead  bool
	msgCh chan Message

	lastMsgs []string
	// shiftPending: the harness moved latestTimeUpdate back and the decay of those seconds may not have been
	// applied yet (the wait ended before a ticker-driven updateTime): the next operation applies it lazily, so
	// the reputations of the 'before' snapshot overstate the ban and are not usable for the banned-accepted verdict
	shiftPending bool
	lastBefore   []string
}

func v30tNew(c *vcommon.Case, cfg v30tCfg) (*v30tSim, error) {
	cs := &ConfigSet{}
	for i := 0; i < cfg.Sets; i++ {
		cs.Set = append(cs.Set, &config{maxInPeers: cfg.MaxIn[i], maxOutPeers: cfg.MaxOut[i], periodicAllocTime: time.Duration(cfg.PeriodMs) * time.Millisecond})
	}
	h, err := NewPeerSetHandler(cs)
	if err != nil {
		return nil, err
	}
	h.Start(context.Background())
	s := &v30tSim{c: c, cfg: cfg, h: h, ps: h.peerSet, msgCh: h.Messages()}
	for i := 0; i < cfg.Sets; i++ {
		s.view = append(s.view, map[peer.ID]Status{})
	}
	return s, nil
}

func (s *v30tSim) snap() *v30tSnap {
	sn := &v30tSnap{rep: map[peer.ID]Reputation{}, reserved: map[peer.ID]bool{}}
	st := s.ps.peerState
	st.RLock()
	for i := 0; i < s.cfg.Sets; i++ {
		ss := v30tSetSnap{state: map[peer.ID]MembershipState{}, noSlot: map[peer.ID]bool{},
			numIn: st.sets[i].numIn, numOut: st.sets[i].numOut, maxIn: st.sets[i].maxIn, maxOut: st.sets[i].maxOut}
		for p, n := range st.nodes {
			ss.state[p] = n.state[i]
			sn.rep[p] = n.reputation
		}
		for p := range st.sets[i].noSlotNodes {
			ss.noSlot[p] = true
		}
		sn.sets = append(sn.sets, ss)
	}
	st.RUnlock()
	s.ps.reservedLock.RLock()
	for p := range s.ps.reservedNode {
		sn.reserved[p] = true
	}
	s.ps.reservedLock.RUnlock()
	return sn
}

func (sn *v30tSnap) dump() []string {
	var out []string
	for i, ss := range sn.sets {
		line := fmt.Sprintf("set%d numIn=%d/%d numOut=%d/%d:", i, ss.numIn, ss.maxIn, ss.numOut, ss.maxOut)
		for _, p := range v30Peers {
			st, ok := ss.state[p]
			if !ok {
				continue
			}
			name := map[MembershipState]string{notMember: "notMember", ingoing: "IN", outgoing: "OUT", notConnected: "notConn"}[st]
			line += fmt.Sprintf(" %s:%s", v30Name(p), name)
			if ss.noSlot[p] {
				line += "[noslot]"
			}
		}
		out = append(out, line)
	}
	line := "reputations:"
	for _, p := range v30Peers {
		if r, ok := sn.rep[p]; ok {
			line += fmt.Sprintf(" %s=%d", v30Name(p), r)
			if sn.reserved[p] {
				line += "[reserved]"
			}
		}
	}
	return append(out, line)
}

func (s *v30tSim) viol(class, msg string, sn *v30tSnap, extra map[string]any) {
	s.dead = true
	w := map[string]any{"cfg": s.cfg, "ops": append([]string{}, s.ops...), "state": sn.dump(), "messages_of_last_op": s.lastMsgs, "state_before_last_op": s.lastBefore}
	for k, v := range extra {
		w[k] = v
	}
	s.c.Violation(class, msg, w)
}

// drain consumes what Handler.Messages() holds and replays it into the per-set message view.
func (s *v30tSim) drain() []Message {
	var out []Message
	for {
		select {
		case m, ok := <-s.msgCh:
			if !ok {
				return out
			}
			out = append(out, m)
			s.nmsg++
			set := int(m.setID)
			if set < len(s.view) {
				switch m.Status {
				case Connect, Accept:
					s.view[set][m.PeerID] = m.Status
				case Drop:
					delete(s.view[set], m.PeerID)
				}
			}
			s.c.Count("tick_msg_"+v30StatusName(m.Status), 1)
		default:
			return out
		}
	}
}

func (s *v30tSim) barrier() { <-s.h.SortedPeers(0) }

// check evaluates the state clauses of the property on one snapshot, per set.
func (s *v30tSim) check(when string, sn *v30tSnap) bool {
	for i, ss := range sn.sets {
		var in, out uint32
		for p, st := range ss.state {
			if !isPeerConnected(st) {
				continue
			}
			if !ss.noSlot[p] {
				if st == ingoing {
					in++
				} else {
					out++
				}
				if !sn.reserved[p] && sn.rep[p] < BannedThresholdValue && len(sn.sets) > 1 {
					// Two-set configurations cannot be built through the exported API (production uses one set). With two
					// sets a disconnect in ONE set costs the peer reputation (disconnectReputationChange) and can take it
					// below the threshold while its connection in the OTHER set stays up; that cross-set effect is outside
					// what the property describes for the node's peer set, so it is counted, not judged.
					s.c.Count("tick_banned_connected_in_two_set_config_not_judged", 1)
					continue
				}
				if !sn.reserved[p] && sn.rep[p] < BannedThresholdValue {
					s.c.Eval(1)
					s.viol("banned-connected", fmt.Sprintf("%s: set %d: non-reserved peer %s is connected with reputation %d below the ban threshold %d", when, i, v30Name(p), sn.rep[p], BannedThresholdValue), sn, nil)
					return false
				}
			}
		}
		s.c.Eval(3)
		if in != ss.numIn || out != ss.numOut {
			s.viol("counter-mismatch", fmt.Sprintf("%s: set %d: numIn=%d numOut=%d but %d inbound / %d outbound connected non-reserved peers", when, i, ss.numIn, ss.numOut, in, out), sn, nil)
			return false
		}
		if ss.numIn > ss.maxIn || ss.numOut > ss.maxOut {
			s.viol("slots-exceeded", fmt.Sprintf("%s: set %d: numIn=%d/%d numOut=%d/%d", when, i, ss.numIn, ss.maxIn, ss.numOut, ss.maxOut), sn, nil)
			return false
		}
		if ss.numOut == ss.maxOut && ss.maxOut > 0 {
			s.c.Count(fmt.Sprintf("tick_state_out_slots_full_set%d", i), 1)
		}
	}
	s.c.Count("tick_states_checked", 1)
	return true
}

// getters: Handler.PeerReputation agrees with the state read under the lock (a decay second may pass between the
// reads: then the two getter reads differ and nothing is decided).
func (s *v30tSim) checkGetters() {
	for _, p := range v30Peers {
		r1, e1 := s.h.PeerReputation(p)
		sn := s.snap()
		r2, e2 := s.h.PeerReputation(p)
		s.c.Eval(1)
		rep, known := sn.rep[p]
		switch {
		case (e1 == nil) != (e2 == nil) || r1 != r2:
			s.c.Count("tick_getter_reads_straddle_a_change", 1)
		case e1 != nil:
			if known {
				s.viol("getter", fmt.Sprintf("Handler.PeerReputation(%s) fails (%v) but the peer is known with reputation %d", v30Name(p), e1, rep), sn, nil)
				return
			}
			s.c.Count("tick_getter_unknown_peer_error", 1)
		default:
			if !known || rep != r1 {
				s.viol("getter", fmt.Sprintf("Handler.PeerReputation(%s) = %d but the peer state holds %d (known=%v)", v30Name(p), r1, rep, known), sn, nil)
				return
			}
			s.c.Count("tick_getter_reputation_equal", 1)
		}
	}
	if s.h.Messages() != s.ps.resultMsgCh {
		s.viol("getter", "Handler.Messages() is not the peer set's result channel", s.snap(), nil)
	}
}

// viewVsState: at a quiet moment the connections the messages established are the connected peers of the state.
// A tick may be half-way (state changed, message not yet sent), so this is retried and only counted.
func (s *v30tSim) viewVsState() {
	for try := 0; try < 20; try++ {
		s.barrier()
		s.drain()
		sn := s.snap()
		same := true
		for i, ss := range sn.sets {
			for p, st := range ss.state {
				_, inView := s.view[i][p]
				if isPeerConnected(st) != inView {
					same = false
				}
			}
			for p := range s.view[i] {
				if st, ok := ss.state[p]; !ok || !isPeerConnected(st) {
					same = false
				}
			}
		}
		if same {
			s.c.Count("tick_msg_view_equals_state", 1)
			return
		}
	}
	s.c.Count("tick_msg_view_differs_from_state_not_judged", 1)
}

func (s *v30tSim) op(desc string, f func()) bool {
	if s.dead {
		return false
	}
	s.ops = append(s.ops, desc)
	if len(s.ops) > 60 {
		s.ops = append(s.ops[:0], s.ops[20:]...)
	}
	before := s.snap()
	pendingShift := s.shiftPending
	s.shiftPending = false
	f()
	s.barrier()
	msgs := s.drain()
	after := s.snap()
	s.c.Count("tick_ops", 1)
	s.lastMsgs, s.lastBefore = nil, before.dump()
	for _, m := range msgs {
		s.lastMsgs = append(s.lastMsgs, fmt.Sprintf("%s(set%d, %s)", v30StatusName(m.Status), m.setID, v30Name(m.PeerID)))
	}
	// no Accept / Connect for a non-reserved peer that is banned with a margin of several decay seconds
	margin := int64(BannedThresholdValue) + int64(BannedThresholdValue)/10
	for _, m := range msgs {
		if m.Status != Connect && m.Status != Accept {
			continue
		}
		p := m.PeerID
		if before.reserved[p] || after.reserved[p] {
			continue
		}
		rb, okb := before.rep[p]
		ra, oka := after.rep[p]
		s.c.Eval(1)
		if pendingShift {
			s.c.Count("tick_banned_verdict_skipped_pending_clock_shift", 1)
			continue
		}
		if okb && oka && int64(rb) < margin && int64(ra) < margin {
			// NOT a verdict in this group: with a live ticker goroutine and lazily applied decay the reputation AT
			// EMISSION TIME is not observable from the before/after snapshots (a pending clock shift is applied inside
			// the operation, the peer may legitimately be re-connected and then banned again by the same report).
			// The sound, state-based clause "no connected non-reserved peer below the threshold" is asserted by check()
			// on every snapshot; the single-threaded groups keep the message-based verdict.
			s.c.Count("tick_connect_msg_for_peer_banned_before_and_after_not_judged", 1)
		}
	}
	return s.check("after "+desc, after)
}

// banDecayTick bans a connected non-reserved peer, moves the clock back and waits - WITHOUT issuing operations - until
// the ticker branch connected it again.
func (s *v30tSim) banDecayTick(r *vcommon.Rand) {
	sn := s.snap()
	var cands []peer.ID
	for _, p := range v30Peers {
		if sn.reserved[p] {
			continue
		}
		for i := range sn.sets {
			if sn.sets[i].state[p] == outgoing && !sn.sets[i].noSlot[p] {
				cands = append(cands, p)
				break
			}
		}
	}
	if len(cands) == 0 {
		return
	}
	p := vcommon.Pick(r, cands)
	var wasOut []int
	for i := range sn.sets {
		if sn.sets[i].state[p] == outgoing {
			wasOut = append(wasOut, i)
		}
	}
	if !s.op(fmt.Sprintf("report(MinInt32; %s)", v30Name(p)), func() {
		s.h.ReportPeer(newReputationChange(Reputation(math.MinInt32), "verif"), p)
	}) {
		return
	}
	sn = s.snap()
	for _, i := range wasOut {
		if isPeerConnected(sn.sets[i].state[p]) {
			return // check() has already judged it
		}
	}
	s.c.Count("tick_ban_dropped_connected_peer", 1)
	// every other candidate of the freed slots is irrelevant: only p is awaited
	k := r.Range(15, 90)
	s.ops = append(s.ops, fmt.Sprintf("clock -%ds; wait for the ticker (no operation)", k))
	s.ps.Lock()
	s.ps.latestTimeUpdate = time.Now().Add(-time.Duration(k)*time.Second - 500*time.Millisecond)
	s.ps.Unlock()
	s.shiftPending = true
	seen := map[int]bool{}
	for poll := 0; poll < 600 && len(seen) < len(wasOut); poll++ {
		time.Sleep(time.Duration(s.cfg.PeriodMs) * time.Millisecond / 2)
		s.drain()
		sn = s.snap()
		if !s.check("while waiting for the ticker", sn) {
			return
		}
		for _, i := range wasOut {
			if !seen[i] && isPeerConnected(sn.sets[i].state[p]) {
				seen[i] = true
				s.c.Count(fmt.Sprintf("tick_reconnected_after_ban_decay_set%d", i), 1)
				s.c.Count("tick_reconnected_after_ban_decay", 1)
				s.c.Eval(1)
				if sn.rep[p] < BannedThresholdValue {
					s.viol("banned-connected", fmt.Sprintf("the ticker connected %s in set %d with reputation %d below the threshold", v30Name(p), i, sn.rep[p]), sn, nil)
					return
				}
			}
		}
		// another peer may have taken the freed slot: then p legitimately stays out in that set
		for _, i := range wasOut {
			if !seen[i] && sn.sets[i].numOut >= sn.sets[i].maxOut {
				seen[i] = true
				s.c.Count("tick_slot_taken_by_other_peer", 1)
			}
		}
	}
	if len(seen) < len(wasOut) {
		s.c.Count("tick_effect_not_observed_in_budget", 1)
	}
	s.barrier()
	s.drain()
	s.check("after the ticker re-connected", s.snap())
}

func v30tRun(c *vcommon.Case, cfg v30tCfg, nops int) {
	r := c.R
	s, err := v30tNew(c, cfg)
	if err != nil {
		c.Inconclusive("cannot start the handler: " + err.Error())
		return
	}
	defer func() {
		done := make(chan struct{})
		go func() { s.h.Stop(); close(done) }()
		for {
			select {
			case <-done:
				return
			case _, ok := <-s.msgCh:
				if !ok {
					<-done
					return
				}
			}
		}
	}()
	pick := func() []peer.ID {
		n := 1
		if r.Chance(1, 3) {
			n = r.Range(2, 4)
		}
		var ids []peer.ID
		for _, i := range r.Perm(v30NPeers)[:n] {
			ids = append(ids, v30Peers[i])
		}
		return ids
	}
	names := func(ids []peer.ID) string {
		var n []string
		for _, p := range ids {
			n = append(n, v30Name(p))
		}
		sort.Strings(n)
		return fmt.Sprint(n)
	}
	reservedN := 0
	for i := 0; i < nops && !s.dead; i++ {
		set := r.Intn(cfg.Sets)
		ids := pick()
		switch k := r.Intn(20); {
		case k < 5:
			s.op(fmt.Sprintf("add(set%d; %s)", set, names(ids)), func() { s.h.AddPeer(set, ids...) })
		case k < 7:
			s.op(fmt.Sprintf("remove(set%d; %s)", set, names(ids)), func() { s.h.RemovePeer(set, ids...) })
		case k < 8:
			// reserved peers only in the single-set configuration (the only one NewConfigSet can build): with several
			// sets a reserved peer is a no-slot node of one set only, allocSlots of the other set fails on it and
			// reportPeer then returns before it has dropped the banned peer from the later sets (observed, see NOTES)
			if reservedN < 2 && cfg.Sets == 1 {
				reservedN++
				s.op(fmt.Sprintf("addres(set%d; %s)", set, names(ids[:1])), func() { s.h.AddReservedPeer(set, ids[:1]...) })
			}
		case k < 11:
			s.op(fmt.Sprintf("incoming(set%d; %s)", set, names(ids)), func() { s.h.Incoming(set, ids...) })
		case k < 13:
			s.op(fmt.Sprintf("disconnect(set%d; %s)", set, names(ids)), func() { s.h.DisconnectPeer(set, ids...) })
		case k < 16:
			v := vcommon.Pick(r, []int32{-1 << 20, 1 << 20, math.MinInt32, math.MaxInt32, int32(BannedThresholdValue), -(1 << 30), 1000, -1000})
			s.op(fmt.Sprintf("report(%d; %s)", v, names(ids)), func() { s.h.ReportPeer(newReputationChange(Reputation(v), "verif"), ids...) })
		case k < 19:
			s.banDecayTick(r)
		default:
			// let a few periods pass without any operation, then look again
			time.Sleep(time.Duration(cfg.PeriodMs*3) * time.Millisecond)
			s.drain()
			s.check("after idle ticker periods", s.snap())
			c.Count("tick_idle_periods", 1)
		}
		if i%10 == 9 && !s.dead {
			s.checkGetters()
		}
	}
	if !s.dead {
		s.checkGetters()
		s.viewVsState()
	}
	c.Distinct(fmt.Sprintf("tick|%v|%v|%d|%d", cfg.MaxIn, cfg.MaxOut, cfg.PeriodMs, cfg.Sets))
}

func TestVerifC30Tick(t *testing.T) {
	logger.Patch(log.SetWriter(io.Discard))
	r := vcommon.Start(t, "C30")
	defer r.Finish()
	r.Floor("tick_ops", 3000)
	r.Floor("tick_states_checked", 5000)
	r.Floor("tick_ban_dropped_connected_peer", 150)
	r.Floor("tick_reconnected_after_ban_decay", 150)
	r.Floor("tick_reconnected_after_ban_decay_set0", 60)
	r.Floor("tick_reconnected_after_ban_decay_set1", 40)
	r.Floor("tick_getter_reputation_equal", 1000)
	r.Floor("tick_getter_unknown_peer_error", 50)
	r.Floor("tick_msg_view_equals_state", 80)
	r.Floor("tick_msg_Connect", 500)
	r.Floor("tick_msg_Drop", 200)
	r.Floor("tick_idle_periods", 50)

	// fixed: the ban -> decay -> ticker re-connect scenario on one and on two sets
	r.Fixed("tick-fixed", 4, func(c *vcommon.Case) {
		cfg := v30tCfg{MaxIn: [2]uint32{1, 1}, MaxOut: [2]uint32{2, 1}, PeriodMs: 2, Sets: 1 + c.Idx%2}
		v30tRun(c, cfg, 30)
	})
	r.Cases("tick", r.Scale(120), func(c *vcommon.Case) {
		rr := c.R
		cfg := v30tCfg{PeriodMs: vcommon.Pick(rr, []int{1, 2, 5}), Sets: 2}
		if c.Idx%4 == 3 {
			cfg.Sets = 1
		}
		for i := 0; i < 2; i++ {
			cfg.MaxIn[i] = uint32(rr.Intn(4))
			cfg.MaxOut[i] = uint32(rr.Range(1, 3))
		}
		v30tRun(c, cfg, rr.Range(20, 60))
		if c.Idx < 4 {
			c.Sample(map[string]any{"cfg": cfg, "failed": c.Failed()})
		}
	})
}
