//go:build verif

package peerset

// C30 runtime monitor: drives the real PeerSet / PeersState single-threaded
// (directly, or through the Handler action queue with a barrier) and checks
// after EVERY operation, under the PeersState lock, the invariants the
// property names. See /verif/harness/peerset/NOTES.md.

import (
	"context"
	"fmt"
	"io"
	"math"
	"runtime"
	"runtime/debug"
	"strings"
	"sync"
	"testing"
	"time"

	"github.com/ChainSafe/gossamer/internal/log"
	"github.com/ChainSafe/gossamer/zz_verif/vcommon"
	"github.com/libp2p/go-libp2p/core/peer"
)

const v30NPeers = 6

var v30Peers = [v30NPeers]peer.ID{"verifP0", "verifP1", "verifP2", "verifP3", "verifP4", "verifP5"}

func v30Name(p peer.ID) string { return strings.TrimPrefix(string(p), "verif") }

// ---------------------------------------------------------------- operations

type v30Op struct {
	Kind  string `json:"op"`
	Peers []int  `json:"peers,omitempty"`
	Val   int32  `json:"val,omitempty"`
	K     int    `json:"k,omitempty"`
}

func (o v30Op) String() string {
	ps := make([]string, len(o.Peers))
	for i, p := range o.Peers {
		ps[i] = fmt.Sprintf("P%d", p)
	}
	switch o.Kind {
	case "report":
		return fmt.Sprintf("report(%d;%s)", o.Val, strings.Join(ps, ","))
	case "tick":
		return fmt.Sprintf("tick(%ds)", o.K)
	}
	return fmt.Sprintf("%s(%s)", o.Kind, strings.Join(ps, ","))
}

func (o v30Op) ids() []peer.ID {
	out := make([]peer.ID, len(o.Peers))
	for i, p := range o.Peers {
		out[i] = v30Peers[p]
	}
	return out
}

type v30Cfg struct {
	MaxIn        uint32 `json:"max_in"`
	MaxOut       uint32 `json:"max_out"`
	ReservedOnly bool   `json:"reserved_only"`
	Handler      bool   `json:"via_handler"`
}

// ---------------------------------------------------------------- snapshot

type v30Node struct {
	state MembershipState
	rep   Reputation
}

type v30Snap struct {
	nodes                        map[peer.ID]v30Node
	numIn, numOut, maxIn, maxOut uint32
	noSlot, reserved             map[peer.ID]bool
}

func (sn *v30Snap) rep(p peer.ID) int64 { return int64(sn.nodes[p].rep) } // absent node == reputation 0
func (sn *v30Snap) connected(p peer.ID) bool {
	n, ok := sn.nodes[p]
	return ok && isPeerConnected(n.state)
}
func (sn *v30Snap) exempt(p peer.ID) bool { return sn.reserved[p] || sn.noSlot[p] }

func (sn *v30Snap) dump() []string {
	var out []string
	for _, p := range v30Peers {
		n, ok := sn.nodes[p]
		if !ok {
			if sn.exempt(p) {
				out = append(out, v30Name(p)+":absent[R]")
			}
			continue
		}
		st := map[MembershipState]string{notMember: "notMember", ingoing: "IN", outgoing: "OUT", notConnected: "notConn"}[n.state]
		s := fmt.Sprintf("%s:%s rep=%d", v30Name(p), st, n.rep)
		if sn.reserved[p] {
			s += " [reserved]"
		}
		if sn.noSlot[p] {
			s += " [noslot]"
		}
		if n.rep < BannedThresholdValue {
			s += " [banned]"
		}
		out = append(out, s)
	}
	out = append(out, fmt.Sprintf("numIn=%d/%d numOut=%d/%d", sn.numIn, sn.maxIn, sn.numOut, sn.maxOut))
	return out
}

// ---------------------------------------------------------------- simulator

type v30Sim struct {
	cfg v30Cfg
	ps  *PeerSet
	h   *Handler
}

func v30New(cfg v30Cfg) (*v30Sim, error) {
	cs := NewConfigSet(cfg.MaxIn, cfg.MaxOut, cfg.ReservedOnly, time.Hour) // the periodic ticker never fires
	if cfg.Handler {
		h, err := NewPeerSetHandler(cs)
		if err != nil {
			return nil, err
		}
		h.Start(context.Background())
		return &v30Sim{cfg: cfg, ps: h.peerSet, h: h}, nil
	}
	ps, err := newPeerSet(cs)
	if err != nil {
		return nil, err
	}
	ps.resultMsgCh = make(chan Message, 4096)
	return &v30Sim{cfg: cfg, ps: ps}, nil
}

func (s *v30Sim) close() {
	if s.h != nil {
		s.h.Stop()
	}
}

// snap copies the observable state under the locks the code itself uses.
func (s *v30Sim) snap() *v30Snap {
	sn := &v30Snap{nodes: map[peer.ID]v30Node{}, noSlot: map[peer.ID]bool{}, reserved: map[peer.ID]bool{}}
	st := s.ps.peerState
	st.RLock()
	for p, n := range st.nodes {
		sn.nodes[p] = v30Node{state: n.state[0], rep: n.reputation}
	}
	sn.numIn, sn.numOut, sn.maxIn, sn.maxOut = st.sets[0].numIn, st.sets[0].numOut, st.sets[0].maxIn, st.sets[0].maxOut
	for p := range st.sets[0].noSlotNodes {
		sn.noSlot[p] = true
	}
	st.RUnlock()
	s.ps.reservedLock.RLock()
	for p := range s.ps.reservedNode {
		sn.reserved[p] = true
	}
	s.ps.reservedLock.RUnlock()
	return sn
}

// setClock makes the next updateTime() see exactly k elapsed seconds (no real
// waiting): secDiff = int64(now - latestTimeUpdate) with a 0.5 s margin on
// both sides against scheduling delays.
func (s *v30Sim) setClock(k int) {
	s.ps.Lock()
	now := time.Now()
	if k == 0 {
		s.ps.latestTimeUpdate = now.Add(500 * time.Millisecond)
	} else {
		s.ps.latestTimeUpdate = now.Add(-time.Duration(k)*time.Second - 500*time.Millisecond)
	}
	s.ps.Unlock()
}

func (s *v30Sim) call(op v30Op) error {
	ids := op.ids()
	if s.h != nil {
		switch op.Kind {
		case "add":
			s.h.AddPeer(0, ids...)
		case "remove":
			s.h.RemovePeer(0, ids...)
		case "addres":
			s.h.AddReservedPeer(0, ids...)
		case "remres":
			s.h.RemoveReservedPeer(0, ids...)
		case "setres":
			s.h.SetReservedPeer(0, ids...)
		case "report":
			s.h.ReportPeer(newReputationChange(Reputation(op.Val), "verif"), ids...)
		case "incoming":
			s.h.Incoming(0, ids...)
		case "disconnect", "refused":
			s.h.DisconnectPeer(0, ids...)
		case "tick":
			s.h.Incoming(0) // no peers: only updateTime() runs
		}
		<-s.h.SortedPeers(0) // barrier: actions are processed in order
		return nil
	}
	switch op.Kind {
	case "add":
		return s.ps.addPeer(0, ids)
	case "remove":
		return s.ps.removePeer(0, ids...)
	case "addres":
		return s.ps.addReservedPeers(0, ids...)
	case "remres":
		return s.ps.removeReservedPeers(0, ids...)
	case "setres":
		return s.ps.setReservedPeer(0, ids...)
	case "report":
		return s.ps.reportPeer(newReputationChange(Reputation(op.Val), "verif"), ids...)
	case "incoming":
		return s.ps.incoming(0, ids...)
	case "disconnect":
		return s.ps.disconnect(0, UnknownDrop, ids...)
	case "refused":
		return s.ps.disconnect(0, RefusedDrop, ids...)
	case "tick":
		return s.ps.allocSlots(0) // what the periodic ticker does
	}
	return fmt.Errorf("unknown op %q", op.Kind)
}

func (s *v30Sim) drain() []Message {
	var out []Message
	for {
		select {
		case m, ok := <-s.ps.resultMsgCh:
			if !ok {
				return out
			}
			out = append(out, m)
		default:
			return out
		}
	}
}

// ---------------------------------------------------------------- deadlock detection (state based)

func v30GoID() string {
	buf := make([]byte, 64)
	n := runtime.Stack(buf, false)
	f := strings.Fields(string(buf[:n]))
	if len(f) > 1 {
		return f[1]
	}
	return "?"
}

var (
	v30StuckMu  sync.Mutex
	v30StuckIDs = map[string]bool{}
)

// v30Blocked reports whether the goroutine executing the operation (gid in
// direct mode, the handler loop in handler mode) is parked acquiring a
// sync.Mutex / sync.RWMutex inside package peerset. The harness is the only
// user of this PeerSet, so such a goroutine can never be woken: deadlock.
func v30Blocked(gid string, handler bool) (bool, string) {
	buf := make([]byte, 1<<20)
	n := runtime.Stack(buf, true)
	v30StuckMu.Lock()
	defer v30StuckMu.Unlock()
	for _, blk := range strings.Split(string(buf[:n]), "\n\n") {
		if !strings.HasPrefix(blk, "goroutine ") {
			continue
		}
		f := strings.Fields(blk)
		id := f[1]
		if handler {
			if !strings.Contains(blk, "listenActionAllocSlots") || v30StuckIDs[id] {
				continue
			}
		} else if id != gid {
			continue
		}
		hdr := blk
		if i := strings.IndexByte(blk, '\n'); i >= 0 {
			hdr = blk[:i]
		}
		lockWait := strings.Contains(hdr, "sync.RWMutex") || strings.Contains(hdr, "sync.Mutex") || strings.Contains(hdr, "semacquire")
		if lockWait && strings.Contains(blk, "dot/peerset.(*Pe") {
			return true, id + "\n" + blk
		}
		if !handler {
			return false, blk
		}
	}
	return false, ""
}

type v30Res struct {
	err      error
	panicked any
	stack    string
}

// run executes one operation in its own goroutine. status: ok | deadlock | stuck.
func (s *v30Sim) run(op v30Op) (v30Res, string, string) {
	done := make(chan v30Res, 1)
	gidCh := make(chan string, 1)
	go func() {
		gidCh <- v30GoID()
		var r v30Res
		defer func() {
			if p := recover(); p != nil {
				r.panicked = p
				r.stack = string(debug.Stack())
			}
			done <- r
		}()
		r.err = s.call(op)
	}()
	gid := <-gidCh
	t := time.NewTimer(300 * time.Millisecond)
	select {
	case r := <-done:
		t.Stop()
		return r, "ok", ""
	case <-t.C:
	}
	streak, last := 0, ""
	for i := 0; i < 150; i++ { // <= 30 s; the verdict is taken from goroutine states, not from the time
		select {
		case r := <-done:
			return r, "ok", ""
		case <-time.After(200 * time.Millisecond):
		}
		blocked, blk := v30Blocked(gid, s.h != nil)
		last = blk
		if blocked {
			streak++
			if streak >= 2 {
				v30StuckMu.Lock()
				v30StuckIDs[strings.SplitN(blk, "\n", 2)[0]] = true
				v30StuckMu.Unlock()
				return v30Res{}, "deadlock", blk
			}
		} else {
			streak = 0
		}
	}
	return v30Res{}, "stuck", last
}

// ---------------------------------------------------------------- reference arithmetic

func v30Sat(x int64) int64 {
	if x > math.MaxInt32 {
		return math.MaxInt32
	}
	if x < math.MinInt32 {
		return math.MinInt32
	}
	return x
}

// v30TickModel: the documented decay (towards zero by 1/50, at least 1). Evidence only.
func v30TickModel(r int64, k int) int64 {
	for i := 0; i < k && r != 0; i++ {
		d := r / 50
		if d == 0 {
			if r < 0 {
				d = -1
			} else {
				d = 1
			}
		}
		r -= d
	}
	return r
}

// ---------------------------------------------------------------- per-operation monitor

type v30Scenario struct {
	Name string
	Cfg  v30Cfg
	Ops  []v30Op
}

type v30Runner struct {
	c     *vcommon.Case
	sim   *v30Sim
	cfg   v30Cfg
	trace []string
	// what the network was told: peer -> Connect (outbound) / Accept (inbound), removed by Drop
	told map[peer.ID]Status
	// known finding C30-K1: per direction (0 inbound, 1 outbound) the connected peers that lost their reserved
	// status while no regular slot of their direction was free and that explain the current excess over the maximum
	demoted [2]map[peer.ID]bool
	nv      int // violations recorded by this scenario (known-finding hits do not stop a scenario)
}

const v30K1 = "C30-K1"

func (rn *v30Runner) viol(class, msg string, w any) {
	rn.nv++
	rn.c.Violation(class, msg, w)
}

func (rn *v30Runner) known(msg string, w any) {
	if !rn.c.Run.IsOpen(v30K1) {
		rn.nv++ // Known() turns it into a plain violation
	}
	rn.c.Known(v30K1, msg, w)
}

func (rn *v30Runner) witness(i int, op v30Op, before, after *v30Snap, msgs []Message) map[string]any {
	w := map[string]any{"cfg": rn.cfg, "ops": append([]string(nil), rn.trace...), "op_index": i, "op": op.String()}
	if before != nil {
		w["before"] = before.dump()
	}
	if after != nil {
		w["after"] = after.dump()
	}
	if msgs != nil {
		ms := make([]string, len(msgs))
		for j, m := range msgs {
			ms[j] = fmt.Sprintf("%s %s", v30StatusName(m.Status), v30Name(m.PeerID))
		}
		w["messages"] = ms
	}
	return w
}

func v30StatusName(s Status) string {
	switch s {
	case Connect:
		return "Connect"
	case Drop:
		return "Drop"
	case Accept:
		return "Accept"
	case Reject:
		return "Reject"
	}
	return fmt.Sprintf("Status(%d)", s)
}

// step runs one operation and evaluates every invariant. It returns the new
// snapshot, or nil when the scenario cannot continue (deadlock / stuck / panic).
func (rn *v30Runner) step(i int, op v30Op, before *v30Snap) *v30Snap {
	c, s := rn.c, rn.sim
	rn.trace = append(rn.trace, op.String())
	c.Count("ops", 1)
	c.Count("op_"+op.Kind, 1)

	t0 := time.Now()
	k := 0
	if op.Kind == "tick" {
		k = op.K
	}
	s.setClock(k)
	res, status, detail := s.run(op)
	elapsed := time.Since(t0)
	switch status {
	case "deadlock":
		c.Eval(1)
		w := rn.witness(i, op, before, nil, nil)
		w["blocked_goroutine"] = detail
		rn.viol("deadlock", fmt.Sprintf("%s never returns: the executing goroutine is parked on a peerset lock that nobody can release", op), w)
		return nil
	case "stuck":
		c.Inconclusive(fmt.Sprintf("%s did not finish within 30 s and is not parked on a lock", op))
		return nil
	}
	if res.panicked != nil {
		w := rn.witness(i, op, before, nil, nil)
		w["stack"] = res.stack
		rn.viol("panic", fmt.Sprintf("%s panicked: %v", op, res.panicked), w)
		return nil
	}
	if res.err != nil {
		c.Count("op_returned_error", 1)
	}
	msgs := s.drain()
	after := s.snap()
	slow := elapsed > 300*time.Millisecond // an unplanned decay second may have slipped in: reputation equalities are skipped
	if slow {
		c.Count("slow_ops_rep_check_skipped", 1)
	}

	// (1) slot counters == number of connected slot-occupying (non-reserved) peers per direction
	var cntIn, cntOut uint32
	for p, n := range after.nodes {
		if after.noSlot[p] {
			continue
		}
		switch n.state {
		case ingoing:
			cntIn++
		case outgoing:
			cntOut++
		}
	}
	c.Eval(4)
	if after.numIn != cntIn || after.numOut != cntOut {
		rn.viol("counter-mismatch", fmt.Sprintf("after %s: numIn=%d numOut=%d but %d ingoing / %d outgoing slot-occupying peers are connected",
			op, after.numIn, after.numOut, cntIn, cntOut), rn.witness(i, op, before, after, msgs))
	}
	// (2) never above the configured maxima. The only tolerated excess is the one known finding C30-K1 explains:
	// connected peers demoted from reserved while their direction had no free slot (removeNoSlotNode counts them
	// unconditionally). The allowance is per direction, is created only by such a demotion, and shrinks with the excess.
	num, cnt := [2]uint32{after.numIn, after.numOut}, [2]uint32{cntIn, cntOut}
	maxv, bnum := [2]uint32{after.maxIn, after.maxOut}, [2]uint32{before.numIn, before.numOut}
	dirState, dirName := [2]MembershipState{ingoing, outgoing}, [2]string{"inbound", "outbound"}
	dropped, connectedNow := map[peer.ID]bool{}, map[peer.ID]bool{}
	for _, m := range msgs {
		switch m.Status {
		case Drop:
			dropped[m.PeerID] = true
		case Connect, Accept:
			connectedNow[m.PeerID] = true
		}
	}
	for d := 0; d < 2; d++ {
		for p := range rn.demoted[d] { // disconnected, dropped or reserved again: no longer explains anything
			if dropped[p] || after.exempt(p) || after.nodes[p].state != dirState[d] {
				delete(rn.demoted[d], p)
			}
		}
		var demotedNow []peer.ID // lost the reserved status in this operation and kept the connection
		for _, p := range v30Peers {
			if !before.noSlot[p] || after.noSlot[p] || dropped[p] || after.nodes[p].state != dirState[d] {
				continue
			}
			// connected before the op; or (setReservedPeer only: reservations and slot allocation come first, removals
			// last) connected by this very op while it still was reserved
			if before.nodes[p].state == dirState[d] || (op.Kind == "setres" && !before.connected(p) && connectedNow[p]) {
				demotedNow = append(demotedNow, p)
			}
		}
		excess := 0
		if num[d] > maxv[d] {
			excess = int(num[d] - maxv[d])
		}
		if cnt[d] > maxv[d] && int(cnt[d]-maxv[d]) > excess {
			excess = int(cnt[d] - maxv[d])
		}
		newMarked := 0
		if len(demotedNow) > 0 {
			if op.Kind == "remres" { // nothing but the demotion touches the counters: free slots are those before the op
				free := 0
				if bnum[d] < maxv[d] {
					free = int(maxv[d] - bnum[d])
				}
				newMarked = len(demotedNow) - free
			} else { // setres reserves (and allocates slots) first, then demotes: only the end state is observable
				newMarked = excess - len(rn.demoted[d])
			}
			if newMarked < 0 {
				newMarked = 0
			}
			if newMarked > len(demotedNow) {
				newMarked = len(demotedNow)
			}
			for _, p := range demotedNow[:newMarked] {
				rn.demoted[d][p] = true
			}
		}
		c.Eval(1)
		if excess > 0 {
			msg := fmt.Sprintf("after %s: %d (counter %d) %s slot-occupying connections > max=%d", op, cnt[d], num[d], dirName[d], maxv[d])
			switch {
			case num[d] == cnt[d] && excess <= len(rn.demoted[d]) && newMarked > 0:
				c.Count("k1_demotion_without_free_slot", 1)
				rn.known(msg+" (connected reserved peer demoted while no regular slot was free)", rn.witness(i, op, before, after, msgs))
			case num[d] == cnt[d] && excess <= len(rn.demoted[d]):
				c.Count("k1_excess_lingering_states", 1)
			default:
				rn.viol("slots-exceeded", fmt.Sprintf("%s; only %d of the excess is explained by demoted reserved peers", msg, len(rn.demoted[d])),
					rn.witness(i, op, before, after, msgs))
			}
		}
		for _, p := range v30Peers { // the allowance never outlives the excess
			if len(rn.demoted[d]) <= excess {
				break
			}
			delete(rn.demoted[d], p)
		}
	}
	if after.maxIn > 0 && cntIn == after.maxIn {
		c.Count("state_in_slots_full", 1)
	}
	if after.maxOut > 0 && cntOut == after.maxOut {
		c.Count("state_out_slots_full", 1)
	}
	// (3) no connected non-reserved peer below the ban threshold
	nBanned, nConn, nResConn := 0, 0, 0
	for _, p := range v30Peers {
		n, ok := after.nodes[p]
		if !ok {
			continue
		}
		if n.rep < BannedThresholdValue {
			nBanned++
		}
		if !isPeerConnected(n.state) {
			continue
		}
		nConn++
		if after.exempt(p) {
			nResConn++
			if n.rep < BannedThresholdValue {
				c.Count("reserved_banned_connected_not_judged", 1)
			}
			continue
		}
		c.Eval(1)
		if n.rep < BannedThresholdValue {
			rn.viol("banned-connected", fmt.Sprintf("after %s: non-reserved %s is connected with reputation %d < ban threshold %d",
				op, v30Name(p), n.rep, BannedThresholdValue), rn.witness(i, op, before, after, msgs))
		}
		if s.cfg.ReservedOnly {
			c.Count("reserved_only_nonreserved_connected_not_judged", 1)
		}
	}
	// (4) no Accept / Connect emitted for a non-reserved peer below the threshold. The
	// reputation at emission time lies between the values before and after the operation.
	for _, m := range msgs {
		c.Count("msg_"+v30StatusName(m.Status), 1)
		if m.Status != Accept && m.Status != Connect {
			continue
		}
		p := m.PeerID
		c.Eval(1)
		if before.exempt(p) || after.exempt(p) {
			continue
		}
		hi := before.rep(p)
		if a := after.rep(p); a > hi {
			hi = a
		}
		if hi < int64(BannedThresholdValue) {
			rn.viol("banned-accepted", fmt.Sprintf("%s emitted %s for non-reserved %s whose reputation (%d before, %d after) is below the ban threshold %d",
				op, v30StatusName(m.Status), v30Name(p), before.rep(p), after.rep(p), BannedThresholdValue), rn.witness(i, op, before, after, msgs))
		}
	}
	for _, m := range msgs {
		if m.Status == Reject && before.rep(m.PeerID) < int64(BannedThresholdValue) {
			c.Count("incoming_banned_rejected", 1)
		}
	}
	// (2b) no Accept / Connect for a non-reserved peer while the counter of its direction is >= max. lb is a LOWER bound of
	// the counter at emission time: value before the op, minus promotions of connected peers (assumed first), minus every
	// preceding Drop of a possibly slot-occupying peer, plus every preceding Connect/Accept of a certainly non-reserved peer.
	lb := [2]int{int(before.numIn), int(before.numOut)}
	for _, p := range v30Peers {
		if !before.noSlot[p] && after.noSlot[p] {
			switch before.nodes[p].state {
			case ingoing:
				lb[0]--
			case outgoing:
				lb[1]--
			}
		}
	}
	for _, m := range msgs {
		p := m.PeerID
		switch m.Status {
		case Connect, Accept:
			d := 1
			if m.Status == Accept {
				d = 0
			}
			if !before.exempt(p) && !after.exempt(p) {
				c.Eval(1)
				if lb[d] >= int(maxv[d]) {
					rn.viol("connect-while-full", fmt.Sprintf("%s emitted %s for non-reserved %s although at least %d %s slots of %d were occupied at that moment",
						op, v30StatusName(m.Status), v30Name(p), lb[d], dirName[d], maxv[d]), rn.witness(i, op, before, after, msgs))
				}
				lb[d]++
			}
			rn.told[p] = m.Status
		case Drop:
			if st, ok := rn.told[p]; ok && !(before.exempt(p) && after.exempt(p)) {
				if st == Accept {
					lb[0]--
				} else {
					lb[1]--
				}
			}
			delete(rn.told, p)
		}
	}
	// (2c) the maxima also hold on the connections the messages established (Connect/Accept not yet followed by Drop),
	// peers covered by C30-K1 excluded
	var toldIn, toldOut uint32
	differs := false
	for _, p := range v30Peers {
		st, isTold := rn.told[p]
		if isTold != after.connected(p) {
			differs = true
		}
		if !isTold || after.exempt(p) || rn.demoted[0][p] || rn.demoted[1][p] {
			continue
		}
		if st == Accept {
			toldIn++
		} else {
			toldOut++
		}
	}
	if differs {
		c.Count("message_view_differs_from_state_not_judged", 1)
	}
	c.Eval(2)
	if toldIn > after.maxIn || toldOut > after.maxOut {
		rn.viol("slots-exceeded-messages", fmt.Sprintf("after %s: messages established %d inbound (Accept) / %d outbound (Connect) non-reserved connections not yet dropped; maxima %d / %d",
			op, toldIn, toldOut, after.maxIn, after.maxOut), rn.witness(i, op, before, after, msgs))
	}

	// (5) a reported change applies, saturating, to EACH named peer
	switch op.Kind {
	case "report":
		if len(op.Peers) > 1 {
			c.Count("report_multi_peer", 1)
		}
		for idx, p := range op.ids() {
			_, known := before.nodes[p]
			if !known {
				c.Count("report_unknown_peer", 1)
			}
			raw := before.rep(p) + int64(op.Val)
			want := v30Sat(raw)
			if raw > math.MaxInt32 {
				c.Count("report_saturates_high", 1)
			}
			if raw < math.MinInt32 {
				c.Count("report_saturates_low", 1)
			}
			if before.rep(p) >= int64(BannedThresholdValue) && want < int64(BannedThresholdValue) {
				c.Count("report_crosses_ban_threshold", 1)
				if before.connected(p) {
					c.Count("report_bans_connected_peer", 1)
				}
			}
			if idx > 0 {
				c.Count("report_non_first_peer_checked", 1)
			}
			if slow {
				continue
			}
			c.Eval(1)
			got := after.rep(p)
			if got != want {
				class := "report-arith"
				if got == before.rep(p) {
					class = "report-not-applied"
				}
				rn.viol(class, fmt.Sprintf("report %d for %v: %s (position %d) has reputation %d, expected sat(%d%+d)=%d",
					op.Val, op.Peers, v30Name(p), idx, got, before.rep(p), op.Val, want), rn.witness(i, op, before, after, msgs))
			}
		}
	}
	// reputations outside the property's wording: evidence counters only
	if !slow {
		named := map[peer.ID]bool{}
		if op.Kind == "report" || op.Kind == "disconnect" || op.Kind == "refused" {
			for _, p := range op.ids() {
				named[p] = true
			}
		}
		for _, p := range v30Peers {
			b, a := before.rep(p), after.rep(p)
			switch {
			case op.Kind == "tick":
				if a != v30TickModel(b, op.K) {
					c.Count("tick_differs_from_documented_decay_not_judged", 1)
				}
				if b < int64(BannedThresholdValue) && a >= int64(BannedThresholdValue) {
					c.Count("tick_lifts_ban", 1)
				}
			case !named[p] && a != b:
				c.Count("unnamed_peer_reputation_changed_not_judged", 1)
			}
		}
	}
	if op.Kind == "remres" || op.Kind == "setres" {
		for _, p := range v30Peers {
			if before.reserved[p] && !after.reserved[p] && before.connected(p) {
				c.Count("demote_connected_reserved", 1)
				st := before.nodes[p].state
				if (st == ingoing && before.numIn >= before.maxIn) || (st == outgoing && before.numOut >= before.maxOut) {
					c.Count("demote_connected_reserved_slots_full", 1)
				}
			}
		}
	}
	if op.Kind == "addres" || op.Kind == "setres" {
		for _, p := range v30Peers {
			if !before.reserved[p] && after.reserved[p] && before.connected(p) {
				c.Count("promote_connected_to_reserved", 1)
			}
		}
	}
	c.Distinct(fmt.Sprintf("%d/%d/%v|in%d out%d conn%d resconn%d res%d banned%d known%d", s.cfg.MaxIn, s.cfg.MaxOut, s.cfg.ReservedOnly,
		after.numIn, after.numOut, nConn, nResConn, len(after.reserved), nBanned, len(after.nodes)))
	return after
}

// runScenario executes ops (fixed list, or generated on the fly from the observed state).
func v30RunScenario(c *vcommon.Case, r *vcommon.Rand, cfg v30Cfg, fixed []v30Op, nGen int) (violations int) {
	sim, err := v30New(cfg)
	if err != nil {
		c.Inconclusive("cannot build peer set: " + err.Error())
		return 0
	}
	defer sim.close()
	rn := &v30Runner{c: c, sim: sim, cfg: cfg, told: map[peer.ID]Status{}, demoted: [2]map[peer.ID]bool{{}, {}}}
	c.Count("scenarios", 1)
	if cfg.ReservedOnly {
		c.Count("scenarios_reserved_only", 1)
	}
	if cfg.MaxIn == 0 || cfg.MaxOut == 0 {
		c.Count("scenarios_with_zero_limit", 1)
	}
	if cfg.Handler {
		c.Count("scenarios_via_handler", 1)
	}
	sn := sim.snap()
	n := len(fixed)
	if fixed == nil {
		n = nGen
	}
	for i := 0; i < n; i++ {
		var op v30Op
		if fixed != nil {
			op = fixed[i]
		} else {
			op = v30Gen(r, cfg, sn)
		}
		sn = rn.step(i, op, sn)
		if sn == nil {
			return rn.nv
		}
		if rn.nv > 0 && fixed == nil {
			break // one witness per generated case is enough; state may be corrupted afterwards
		}
	}
	c.Sample(map[string]any{"cfg": cfg, "ops": len(rn.trace), "first_ops": rn.trace[:v30Min(len(rn.trace), 12)], "final": sn.dump()})
	return rn.nv
}

func v30Min(a, b int) int {
	if a < b {
		return a
	}
	return b
}

// ---------------------------------------------------------------- generator

var v30Values = []int32{
	int32(BadMessageValue), int32(BadProtocolValue), int32(TimeOutValue), int32(GossipSuccessValue), int32(DuplicateGossipValue),
	int32(GoodTransactionValue), int32(IncompleteHeaderValue), int32(BadJustificationValue), int32(BannedThresholdValue),
	math.MaxInt32, math.MaxInt32 - 1, 1 << 30, 1<<30 + 1<<29, math.MinInt32, math.MinInt32 + 1, -(1 << 30), -(1<<30 + 1<<29),
}

func v30Subset(r *vcommon.Rand, n int, prefer []int) []int {
	if n > v30NPeers {
		n = v30NPeers
	}
	seen := map[int]bool{}
	var out []int
	for len(out) < n {
		var p int
		if len(prefer) > 0 && r.Chance(3, 4) {
			p = vcommon.Pick(r, prefer)
		} else {
			p = r.Intn(v30NPeers)
		}
		if seen[p] {
			if len(prefer) > 0 && len(seen) >= len(prefer) {
				prefer = nil
			}
			continue
		}
		seen[p] = true
		out = append(out, p)
	}
	return out
}

func v30Gen(r *vcommon.Rand, cfg v30Cfg, sn *v30Snap) v30Op {
	var connected, known, unknown, reserved, banned []int
	for i, p := range v30Peers {
		n, ok := sn.nodes[p]
		if !ok || n.state == notMember {
			unknown = append(unknown, i)
		} else {
			known = append(known, i)
		}
		if ok && isPeerConnected(n.state) {
			connected = append(connected, i)
		}
		if sn.reserved[p] {
			reserved = append(reserved, i)
		}
		if ok && n.rep < BannedThresholdValue {
			banned = append(banned, i)
		}
	}
	x := r.Intn(100)
	switch {
	case x < 12:
		return v30Op{Kind: "add", Peers: v30Subset(r, r.Range(1, 3), unknown)}
	case x < 17:
		return v30Op{Kind: "remove", Peers: v30Subset(r, r.Range(1, 2), known)}
	case x < 23:
		return v30Op{Kind: "addres", Peers: v30Subset(r, r.Range(1, 2), nil)}
	case x < 30:
		return v30Op{Kind: "remres", Peers: v30Subset(r, r.Range(1, 2), reserved)}
	case x < 33:
		return v30Op{Kind: "setres", Peers: v30Subset(r, r.Range(0, 3), nil)}
	case x < 62:
		n := 1
		switch y := r.Intn(10); {
		case y < 3:
			n = 1
		case y < 6:
			n = 2
		case y < 8:
			n = 3
		default:
			n = r.Range(4, 6)
		}
		var prefer []int
		if r.Chance(1, 3) {
			prefer = connected
		} else if r.Chance(1, 4) {
			prefer = banned
		}
		peers := v30Subset(r, n, prefer)
		var v int32
		switch y := r.Intn(10); {
		case y < 3:
			v = int32(r.Range(1, 5000))
			if r.Bool() {
				v = -v
			}
		case y < 6:
			v = vcommon.Pick(r, v30Values)
		case y < 8: // land on threshold-1 / threshold / threshold+1 for one of the named peers
			tgt := v30Peers[vcommon.Pick(r, peers)]
			d := int64(BannedThresholdValue) + int64(r.Range(-1, 1)) - sn.rep(tgt)
			v = int32(v30Sat(d))
		case y < 9: // land next to the saturation bounds
			tgt := v30Peers[vcommon.Pick(r, peers)]
			if r.Bool() {
				v = int32(v30Sat(math.MaxInt32 + int64(r.Range(-1, 2)) - sn.rep(tgt)))
			} else {
				v = int32(v30Sat(math.MinInt32 + int64(r.Range(-2, 1)) - sn.rep(tgt)))
			}
		default:
			v = int32(uint32(r.Uint64()))
		}
		if v == 0 {
			v = 7
		}
		return v30Op{Kind: "report", Peers: peers, Val: v}
	case x < 76:
		return v30Op{Kind: "incoming", Peers: v30Subset(r, r.Range(1, 3), nil)}
	case x < 86:
		return v30Op{Kind: "disconnect", Peers: v30Subset(r, r.Range(1, 2), connected)}
	case x < 88:
		return v30Op{Kind: "refused", Peers: v30Subset(r, 1, connected)}
	default:
		return v30Op{Kind: "tick", K: vcommon.Pick(r, []int{1, 1, 2, 3, 5, 10, 11, 12, 30, 60, 200, 1200})}
	}
}

// ---------------------------------------------------------------- fixed regression corpus

func v30P(p ...int) []int { return p }

func v30Corpus() []v30Scenario {
	min, max := int32(math.MinInt32), int32(math.MaxInt32)
	var out []v30Scenario
	for _, h := range []bool{false, true} {
		sfx := ""
		if h {
			sfx = "/handler"
		}
		out = append(out,
			// reportPeer returned after the first peer that stays above the threshold
			v30Scenario{"report-applies-to-each-known-peer" + sfx, v30Cfg{2, 2, false, h}, []v30Op{
				{Kind: "add", Peers: v30P(0)}, {Kind: "add", Peers: v30P(1)}, {Kind: "add", Peers: v30P(2)},
				{Kind: "report", Peers: v30P(0, 1), Val: 7},
				{Kind: "report", Peers: v30P(2, 1, 0), Val: -4096},
				{Kind: "report", Peers: v30P(0, 1, 2), Val: max},
				{Kind: "report", Peers: v30P(2, 0, 1), Val: max},
			}},
			// addReputation -> insertPeer re-locked the PeersState mutex for an unknown peer
			v30Scenario{"report-unknown-peer" + sfx, v30Cfg{2, 2, false, h}, []v30Op{
				{Kind: "report", Peers: v30P(3), Val: 16},
				{Kind: "add", Peers: v30P(0)},
				{Kind: "report", Peers: v30P(0, 4, 5), Val: -1024},
				{Kind: "report", Peers: v30P(5, 2), Val: min},
				{Kind: "incoming", Peers: v30P(2, 5)},
				{Kind: "tick", K: 12},
				{Kind: "incoming", Peers: v30P(2, 5)},
			}},
			// demoting a connected reserved peer while all regular slots are taken (outbound)
			v30Scenario{"demote-reserved-out-slots-full" + sfx, v30Cfg{1, 1, false, h}, []v30Op{
				{Kind: "addres", Peers: v30P(0)}, {Kind: "add", Peers: v30P(1)},
				{Kind: "remres", Peers: v30P(0)},
				{Kind: "add", Peers: v30P(2)}, {Kind: "tick", K: 1},
				{Kind: "disconnect", Peers: v30P(1)}, {Kind: "tick", K: 1},
			}},
			// same, inbound
			v30Scenario{"demote-reserved-in-slots-full" + sfx, v30Cfg{1, 0, false, h}, []v30Op{
				{Kind: "incoming", Peers: v30P(0)}, {Kind: "addres", Peers: v30P(0)}, {Kind: "incoming", Peers: v30P(1)},
				{Kind: "remres", Peers: v30P(0)},
				{Kind: "incoming", Peers: v30P(2)},
				{Kind: "disconnect", Peers: v30P(1)}, {Kind: "incoming", Peers: v30P(2)}, {Kind: "incoming", Peers: v30P(3)},
			}},
			// demotion with free slots keeps the connection and occupies a slot
			v30Scenario{"demote-reserved-slots-free" + sfx, v30Cfg{2, 2, false, h}, []v30Op{
				{Kind: "addres", Peers: v30P(0, 1)}, {Kind: "add", Peers: v30P(2)},
				{Kind: "setres", Peers: v30P(1)}, {Kind: "add", Peers: v30P(3)}, {Kind: "remres", Peers: v30P(1)}, {Kind: "add", Peers: v30P(4)},
			}},
			// saturation at both ends, through several peers at once
			v30Scenario{"saturation" + sfx, v30Cfg{3, 3, false, h}, []v30Op{
				{Kind: "add", Peers: v30P(0, 1)}, {Kind: "add", Peers: v30P(1)},
				{Kind: "report", Peers: v30P(0, 1), Val: max - 1}, {Kind: "report", Peers: v30P(1, 0), Val: 1},
				{Kind: "report", Peers: v30P(0, 1), Val: 1}, {Kind: "report", Peers: v30P(0), Val: max},
				{Kind: "report", Peers: v30P(0, 1), Val: min}, {Kind: "report", Peers: v30P(1, 0), Val: min},
				{Kind: "report", Peers: v30P(0, 1), Val: min}, {Kind: "report", Peers: v30P(0, 1), Val: -1},
				{Kind: "report", Peers: v30P(0, 1), Val: max}, {Kind: "report", Peers: v30P(0, 1), Val: max}, {Kind: "report", Peers: v30P(0, 1), Val: max},
			}},
			// ban -> drop -> reject -> decay -> accept; the first of several peers drops below, the others do not
			v30Scenario{"ban-drop-reject-decay" + sfx, v30Cfg{2, 1, false, h}, []v30Op{
				{Kind: "add", Peers: v30P(0)}, {Kind: "incoming", Peers: v30P(1)}, {Kind: "incoming", Peers: v30P(2)},
				{Kind: "report", Peers: v30P(1, 2, 0), Val: int32(BannedThresholdValue)},
				{Kind: "report", Peers: v30P(1, 0), Val: -1},
				{Kind: "incoming", Peers: v30P(1)}, {Kind: "add", Peers: v30P(1)}, {Kind: "tick", K: 1}, {Kind: "incoming", Peers: v30P(1)},
				{Kind: "report", Peers: v30P(0, 2), Val: min}, {Kind: "incoming", Peers: v30P(0, 2, 3)},
				{Kind: "tick", K: 9}, {Kind: "incoming", Peers: v30P(0, 2)}, {Kind: "tick", K: 2}, {Kind: "incoming", Peers: v30P(0, 2)},
			}},
			// banning a connected peer frees a slot that allocSlots gives to a later peer of the same report
			v30Scenario{"ban-realloc-within-report" + sfx, v30Cfg{0, 1, false, h}, []v30Op{
				{Kind: "add", Peers: v30P(0)}, {Kind: "add", Peers: v30P(1)}, {Kind: "add", Peers: v30P(2)},
				{Kind: "report", Peers: v30P(0, 1, 2), Val: min},
				{Kind: "tick", K: 11}, {Kind: "report", Peers: v30P(2, 1, 0), Val: min},
			}},
			// reserved-only mode
			v30Scenario{"reserved-only" + sfx, v30Cfg{1, 1, true, h}, []v30Op{
				{Kind: "add", Peers: v30P(0)}, {Kind: "incoming", Peers: v30P(1)}, {Kind: "addres", Peers: v30P(2, 3)},
				{Kind: "incoming", Peers: v30P(2, 1)}, {Kind: "report", Peers: v30P(2, 3, 0), Val: min}, {Kind: "remres", Peers: v30P(3)},
				{Kind: "tick", K: 30}, {Kind: "setres", Peers: v30P(0, 1)}, {Kind: "setres", Peers: nil},
			}},
			// zero limits
			v30Scenario{"zero-limits" + sfx, v30Cfg{0, 0, false, h}, []v30Op{
				{Kind: "add", Peers: v30P(0, 1)}, {Kind: "incoming", Peers: v30P(2)}, {Kind: "addres", Peers: v30P(3)}, {Kind: "incoming", Peers: v30P(4)},
				{Kind: "remres", Peers: v30P(3)}, {Kind: "report", Peers: v30P(3, 0), Val: min}, {Kind: "refused", Peers: v30P(3)},
			}},
		)
	}
	return out
}

// ---------------------------------------------------------------- arithmetic oracle

func v30CheckArith(c *vcommon.Case, a, b int32) {
	c.Eval(2)
	c.Count("arith_pairs", 1)
	wa, ws := v30Sat(int64(a)+int64(b)), v30Sat(int64(a)-int64(b))
	if int64(a)+int64(b) != wa || int64(a)-int64(b) != ws {
		c.Count("arith_saturating_pairs", 1)
		c.Distinct(fmt.Sprintf("arith %d %d", a, b))
	}
	if got := Reputation(a).add(Reputation(b)); int64(got) != wa {
		c.Violation("arith-add", fmt.Sprintf("Reputation(%d).add(%d)=%d, saturating sum is %d", a, b, got, wa), map[string]any{"a": a, "b": b})
	}
	if got := Reputation(a).sub(Reputation(b)); int64(got) != ws {
		c.Violation("arith-sub", fmt.Sprintf("Reputation(%d).sub(%d)=%d, saturating difference is %d", a, b, got, ws), map[string]any{"a": a, "b": b})
	}
}

// ---------------------------------------------------------------- entry point

func TestVerifC30(t *testing.T) {
	logger.Patch(log.SetWriter(io.Discard))
	r := vcommon.Start(t, "C30")
	defer r.Finish()

	r.Floor("ops", 20000)
	r.Floor("report_multi_peer", 800)
	r.Floor("report_non_first_peer_checked", 1500)
	r.Floor("report_unknown_peer", 200)
	r.Floor("report_saturates_high", 100)
	r.Floor("report_saturates_low", 100)
	r.Floor("report_bans_connected_peer", 100)
	r.Floor("incoming_banned_rejected", 50)
	r.Floor("tick_lifts_ban", 50)
	r.Floor("state_in_slots_full", 500)
	r.Floor("state_out_slots_full", 500)
	r.Floor("demote_connected_reserved", 100)
	r.Floor("demote_connected_reserved_slots_full", 20)
	r.Floor("promote_connected_to_reserved", 50)
	r.Floor("scenarios_reserved_only", 20)
	r.Floor("scenarios_with_zero_limit", 20)
	r.Floor("scenarios_via_handler", 20)
	r.Floor("msg_Accept", 300)
	r.Floor("msg_Connect", 300)
	r.Floor("arith_saturating_pairs", 100)

	corpus := v30Corpus()
	r.Fixed("corpus", len(corpus), func(c *vcommon.Case) {
		sc := corpus[c.Idx]
		c.Count("corpus_scenarios", 1)
		v30RunScenario(c, nil, sc.Cfg, sc.Ops, 0)
	})

	bounds := []int32{math.MinInt32, math.MinInt32 + 1, math.MinInt32 + 2, -(1 << 30), int32(BannedThresholdValue), -256, -2, -1, 0, 1, 2, 50,
		1 << 30, math.MaxInt32 - 2, math.MaxInt32 - 1, math.MaxInt32}
	r.Fixed("arith", 1, func(c *vcommon.Case) {
		for _, a := range bounds {
			for _, b := range bounds {
				v30CheckArith(c, a, b)
			}
		}
	})
	r.Cases("arith-rand", r.Scale(40), func(c *vcommon.Case) {
		for i := 0; i < 50; i++ {
			a, b := int32(uint32(c.R.Uint64())), int32(uint32(c.R.Uint64()))
			if c.R.Chance(1, 3) {
				a = vcommon.Pick(c.R, bounds) + int32(c.R.Range(0, 3))*int32(c.R.Range(0, 1))
			}
			if c.R.Chance(1, 3) {
				b = vcommon.Pick(c.R, bounds)
			}
			v30CheckArith(c, a, b)
		}
	})

	gen := func(handler bool) func(c *vcommon.Case) {
		return func(c *vcommon.Case) {
			// gossamer iterates Go maps (which peer gets a free slot) and looks at the wall-clock second when
			// forgetting peers, so the same operations may take different paths: a replay repeats the case
			// (same PRNG stream, fresh peer set) until the violation shows again.
			base, attempts := c.R.Uint64(), 1
			if c.Run.OnlyCase != "" {
				attempts = 25
			}
			for a, nv := 0, 0; a < attempts && nv == 0; a++ {
				rr := vcommon.NewRand(base)
				cfg := v30Cfg{MaxIn: uint32(rr.Intn(4)), MaxOut: uint32(rr.Intn(4)), ReservedOnly: rr.Chance(1, 4), Handler: handler}
				nv = v30RunScenario(c, rr, cfg, nil, rr.Range(20, 300))
			}
		}
	}
	r.Cases("direct", r.Scale(600), gen(false))
	r.Cases("handler", r.Scale(150), gen(true))

}
