//go:build verif

package state

// C15 at the BlockState level: "Ancestry, lowest-common-ancestor, range and by-number queries agree with the parent
// links" for the queries production code (dot/sync block responses, dot/core reorg handling, lib/grandpa) really
// calls - BlockState.Range (retrieveRange / retrieveRangeFromDatabase), IsDescendantOf and GetAllDescendants with
// their database fallbacks, GetHashesByNumber, GetAllBlocksAtNumber, GetHashByNumber, LowestCommonAncestor, Leaves,
// RangeInMemory - which stitch the in-memory (unfinalised) half and the database (finalised) half together.
//
// Conventions of the code that are honoured, not asserted against (each has a counter):
//   Range(x,x) = [x] and IsDescendantOf(x,x) = true whatever x is (checked only for known x)
//   LowestCommonAncestor answers from the in-memory tree only: an argument finalised below the head gives an error
//   GetAllBlocksAtNumber ("unfinalised blocks") includes the finalised head at its own number
//   GetAllDescendants of a block nobody knows: an error, or a list holding at most the argument
//   IsDescendantOf with an argument nobody knows: an error or false, never true
//   GetHashByNumber above the head follows the chain of the block BestBlockHash returns (fork choice = C16)

import (
	"fmt"
	"testing"

	"github.com/ChainSafe/gossamer/dot/telemetry"
	"github.com/ChainSafe/gossamer/lib/common"
	"github.com/ChainSafe/gossamer/zz_verif/vcommon"
)

// argument classes
const (
	bsvArgFinal   = iota // finalised strictly below the head (database only)
	bsvArgHead           // the finalised head (database and root of the tree)
	bsvArgLive           // unfinalised (memory only)
	bsvArgGone           // abandoned / refused
	bsvArgUnknown        // never seen
	bsvArgClasses
)

var bsvArgNames = []string{"final", "head", "live", "gone", "unknown"}

type bsvArg struct {
	idx   int // model index or -1
	hash  common.Hash
	class int
}

// bsvView says how one BlockState instance sees the model blocks: the live instance, or an instance freshly opened
// over the same database (which only knows the finalised chain).
type bsvView struct {
	name  string
	bs    *BlockState
	fresh bool
}

func (w *bsvWorld) classOf(v *bsvView, i int) int {
	b := w.blocks[i]
	switch {
	case i == w.head:
		return bsvArgHead
	case b.status == bsvFinalised:
		return bsvArgFinal
	case b.status == bsvLive && !v.fresh:
		return bsvArgLive
	}
	return bsvArgGone
}

func (w *bsvWorld) args(v *bsvView) [][]bsvArg {
	by := make([][]bsvArg, bsvArgClasses)
	for i, b := range w.blocks {
		cl := w.classOf(v, i)
		by[cl] = append(by[cl], bsvArg{i, b.hash, cl})
	}
	for k := 0; k < 2; k++ {
		by[bsvArgUnknown] = append(by[bsvArgUnknown], bsvArg{-1, bsvUnknownHash(w.salt, 1_000_000+k), bsvArgUnknown})
	}
	return by
}

func bsvSamePath(got []common.Hash, w *bsvWorld, want []int) bool {
	if len(got) != len(want) {
		return false
	}
	for i := range got {
		if got[i] != w.blocks[want[i]].hash {
			return false
		}
	}
	return true
}

// sameSet compares a returned hash list with a model index set; duplicates are flagged.
func (w *bsvWorld) sameSet(got []common.Hash, want []int) (ok bool, why string) {
	seen := map[common.Hash]bool{}
	for _, h := range got {
		if seen[h] {
			return false, "hash " + w.name(h) + " listed twice"
		}
		seen[h] = true
	}
	wantSet := map[common.Hash]bool{}
	for _, x := range want {
		wantSet[w.blocks[x].hash] = true
	}
	for h := range wantSet {
		if !seen[h] {
			return false, "missing " + w.name(h)
		}
	}
	for h := range seen {
		if !wantSet[h] {
			return false, "extra " + w.name(h)
		}
	}
	return true, ""
}

type bsvChecker struct {
	c         *vcommon.Case
	w         *bsvWorld
	pairLimit int
}

func (k *bsvChecker) fail(v *bsvView, class, msg string) bool {
	k.c.Violation(class, "["+v.name+"] "+msg, k.w.witness(map[string]any{"view": v.name}))
	return false
}

// checkAll runs every query family against one view. false = a violation was recorded.
func (k *bsvChecker) checkAll(v *bsvView) bool {
	c, w := k.c, k.w
	by := w.args(v)
	var all []bsvArg
	for _, l := range by {
		all = append(all, l...)
	}
	c.Count("bs_query_sweeps_"+v.name, 1)

	// ---- ordered pairs
	type pair struct{ a, b bsvArg }
	var pairs []pair
	if len(all)*len(all) <= k.pairLimit {
		for _, a := range all {
			for _, b := range all {
				pairs = append(pairs, pair{a, b})
			}
		}
	} else {
		// class weights: the stitched halves (final x live) matter most, never-seen hashes least
		var nonEmpty []int
		for cl, l := range by {
			for k := 0; len(l) > 0 && k < []int{3, 1, 3, 2, 1}[cl]; k++ {
				nonEmpty = append(nonEmpty, cl)
			}
		}
		for i := 0; i < k.pairLimit; i++ {
			ca, cb := vcommon.Pick(c.R, nonEmpty), vcommon.Pick(c.R, nonEmpty)
			a, b := vcommon.Pick(c.R, by[ca]), vcommon.Pick(c.R, by[cb])
			if i%5 == 0 && b.idx >= 0 {
				// an ancestor pair on purpose: pick b, then a on its chain
				if ch := w.path(0, b.idx); len(ch) > 0 {
					x := ch[c.R.Intn(len(ch))]
					a = bsvArg{x, w.blocks[x].hash, w.classOf(v, x)}
				}
			}
			pairs = append(pairs, pair{a, b})
		}
	}
	for _, p := range pairs {
		if !k.checkPair(v, p.a, p.b) {
			return false
		}
	}

	// ---- single-argument queries
	for _, a := range all {
		if !k.checkDescendants(v, a) {
			return false
		}
	}

	// ---- leaves
	c.Eval(1)
	var wantLeaves []int
	if v.fresh {
		wantLeaves = []int{w.head}
	} else {
		wantLeaves = w.leaves()
	}
	if ok, why := w.sameSet(v.bs.Leaves(), wantLeaves); !ok {
		return k.fail(v, "bs-Leaves", fmt.Sprintf("Leaves() = %s, parent links give %s (%s)", w.names(v.bs.Leaves()), w.inames(wantLeaves), why))
	}

	// ---- by number
	return k.checkByNumber(v)
}

func (k *bsvChecker) checkPair(v *bsvView, a, b bsvArg) bool {
	c, w, bs := k.c, k.w, v.bs
	aKnown := a.class <= bsvArgLive
	bKnown := b.class <= bsvArgLive
	aTree := a.class == bsvArgHead || a.class == bsvArgLive
	bTree := b.class == bsvArgHead || b.class == bsvArgLive
	desc := fmt.Sprintf("%s(%s), %s(%s)", w.name(a.hash), bsvArgNames[a.class], w.name(b.hash), bsvArgNames[b.class])
	same := a.hash == b.hash
	var wp []int
	anc := false
	if aKnown && bKnown {
		wp = w.path(a.idx, b.idx)
		anc = wp != nil
	}
	c.Count("bs_pair_"+bsvArgNames[a.class]+"_"+bsvArgNames[b.class], 1)

	// -- Range
	c.Eval(1)
	got, err := bs.Range(a.hash, b.hash)
	switch {
	case same && !aKnown:
		c.Count("bs_range_same_hash_not_known", 1) // convention: [x] without any lookup
	case anc:
		switch {
		case a.class == bsvArgFinal && b.class == bsvArgLive:
			c.Count("bs_range_crossing_root", 1)
			if len(wp) >= 4 {
				c.Count("bs_range_crossing_root_long", 1)
			}
		case a.class == bsvArgHead && b.class == bsvArgLive:
			c.Count("bs_range_from_root", 1)
		case a.class == bsvArgFinal && b.class == bsvArgHead:
			c.Count("bs_range_db_to_root", 1)
		case a.class == bsvArgFinal && b.class == bsvArgFinal:
			c.Count("bs_range_db_only", 1)
		case a.class == bsvArgLive:
			c.Count("bs_range_memory_only", 1)
		}
		if err != nil || !bsvSamePath(got, w, wp) {
			return k.fail(v, "bs-Range", fmt.Sprintf("Range(%s) = %s, %v; parent links give %s", desc, w.names(got), err, w.inames(wp)))
		}
	default:
		switch {
		case !aKnown || !bKnown:
			c.Count("bs_range_gone_or_unknown_arg", 1)
		case w.blocks[a.idx].number > w.blocks[b.idx].number:
			c.Count("bs_range_start_above_end", 1)
		default:
			c.Count("bs_range_start_not_ancestor", 1)
		}
		if err == nil {
			return k.fail(v, "bs-Range-not-a-chain", fmt.Sprintf("Range(%s) = %s, nil although the start is not a known ancestor of the end: the result is not the parent-linked path",
				desc, w.names(got)))
		}
	}

	// -- RangeInMemory
	c.Eval(1)
	got, err = bs.RangeInMemory(a.hash, b.hash)
	if aTree && bTree && anc {
		if err != nil || !bsvSamePath(got, w, wp) {
			return k.fail(v, "bs-RangeInMemory", fmt.Sprintf("RangeInMemory(%s) = %s, %v; parent links give %s", desc, w.names(got), err, w.inames(wp)))
		}
	} else if err == nil {
		return k.fail(v, "bs-RangeInMemory", fmt.Sprintf("RangeInMemory(%s) = %s, nil although start..end is not a path inside the in-memory tree", desc, w.names(got)))
	}

	// -- IsDescendantOf
	c.Eval(1)
	is, err := bs.IsDescendantOf(a.hash, b.hash)
	switch {
	case same && !aKnown:
		c.Count("bs_isdesc_same_hash_not_known", 1)
	case aKnown && bKnown:
		if !(aTree && bTree) {
			c.Count("bs_isdesc_db_fallback", 1)
			if !anc {
				c.Count("bs_isdesc_db_fallback_false", 1)
			}
		}
		if err != nil || is != anc {
			return k.fail(v, "bs-IsDescendantOf", fmt.Sprintf("IsDescendantOf(%s) = %v, %v; parent links say %v", desc, is, err, anc))
		}
	default:
		c.Count("bs_isdesc_gone_or_unknown_arg", 1)
		if err != nil {
			c.Count("bs_isdesc_gone_or_unknown_error", 1)
		}
		if err == nil && is {
			return k.fail(v, "bs-IsDescendantOf-unknown-arg", fmt.Sprintf("IsDescendantOf(%s) = true, nil with an argument no node knows", desc))
		}
	}

	// -- LowestCommonAncestor
	c.Eval(1)
	l, err := bs.LowestCommonAncestor(a.hash, b.hash)
	switch {
	case aTree && bTree:
		wl := w.lca(a.idx, b.idx)
		if wl != a.idx && wl != b.idx {
			c.Count("bs_lca_proper_fork_pairs", 1)
		}
		if err != nil || l != w.blocks[wl].hash {
			return k.fail(v, "bs-LowestCommonAncestor", fmt.Sprintf("LowestCommonAncestor(%s) = %s, %v; parent links say b%d", desc, w.name(l), err, wl))
		}
	case aKnown && bKnown:
		if err != nil {
			c.Count("bs_lca_finalised_arg_error", 1) // convention: in-memory tree only
		} else if wl := w.lca(a.idx, b.idx); l != w.blocks[wl].hash {
			return k.fail(v, "bs-LowestCommonAncestor", fmt.Sprintf("LowestCommonAncestor(%s) = %s, nil; parent links say b%d", desc, w.name(l), wl))
		}
	default:
		if err == nil {
			return k.fail(v, "bs-LowestCommonAncestor-unknown-arg", fmt.Sprintf("LowestCommonAncestor(%s) = %s, nil with an argument no node knows", desc, w.name(l)))
		}
	}
	return true
}

func (k *bsvChecker) checkDescendants(v *bsvView, a bsvArg) bool {
	c, w := k.c, k.w
	c.Eval(1)
	got, err := v.bs.GetAllDescendants(a.hash)
	if a.class <= bsvArgLive {
		var want []int
		for i := range w.blocks {
			if cl := w.classOf(v, i); cl <= bsvArgLive && w.isAncOrEq(a.idx, i) {
				want = append(want, i)
			}
		}
		if a.class == bsvArgFinal {
			c.Count("bs_descendants_db_fallback", 1)
		}
		if err != nil {
			return k.fail(v, "bs-GetAllDescendants", fmt.Sprintf("GetAllDescendants(%s %s) = %v for a known block", w.name(a.hash), bsvArgNames[a.class], err))
		}
		if ok, why := w.sameSet(got, want); !ok {
			return k.fail(v, "bs-GetAllDescendants", fmt.Sprintf("GetAllDescendants(%s %s) = %s; parent links give %s (%s)", w.name(a.hash), bsvArgNames[a.class],
				w.names(got), w.inames(want), why))
		}
		return true
	}
	c.Count("bs_descendants_gone_or_unknown_arg", 1)
	if err != nil {
		return true
	}
	c.Count("bs_descendants_gone_or_unknown_no_error", 1)
	for _, h := range got {
		if h != a.hash {
			return k.fail(v, "bs-GetAllDescendants-unknown-arg", fmt.Sprintf("GetAllDescendants(%s %s) = %s, nil for a block no node knows", w.name(a.hash),
				bsvArgNames[a.class], w.names(got)))
		}
	}
	return true
}

func (k *bsvChecker) checkByNumber(v *bsvView) bool {
	c, w, bs := k.c, k.w, v.bs
	var top uint
	for _, b := range w.blocks {
		if b.number > top {
			top = b.number
		}
	}
	headNum := w.blocks[w.head].number
	best := bs.BestBlockHash()
	bestIdx, bestKnown := w.byHash[best]
	if bestKnown && w.classOf(v, bestIdx) > bsvArgLive {
		bestKnown = false
	}
	for num := uint(0); num <= top+1; num++ {
		var wantKnown, wantTree, gone []int
		for i, b := range w.blocks {
			if b.number != num {
				continue
			}
			switch cl := w.classOf(v, i); cl {
			case bsvArgFinal:
				wantKnown = append(wantKnown, i)
			case bsvArgHead, bsvArgLive:
				wantKnown = append(wantKnown, i)
				wantTree = append(wantTree, i)
			default:
				gone = append(gone, i)
			}
		}
		c.Eval(3)
		switch {
		case num < headNum:
			c.Count("bs_by_number_finalised", 1)
		case num == headNum:
			c.Count("bs_by_number_root", 1)
		case len(wantKnown) > 0:
			c.Count("bs_by_number_unfinalised", 1)
			if len(wantKnown) > 1 {
				c.Count("bs_by_number_multi", 1)
			}
		default:
			c.Count("bs_by_number_above_all", 1)
		}
		if !v.fresh && added(w, gone) {
			c.Count("bs_by_number_with_abandoned_blocks", 1)
		}
		got, err := bs.GetHashesByNumber(num)
		if err != nil {
			return k.fail(v, "bs-GetHashesByNumber", fmt.Sprintf("GetHashesByNumber(%d) = %v", num, err))
		}
		if ok, why := w.sameSet(got, wantKnown); !ok {
			return k.fail(v, "bs-GetHashesByNumber", fmt.Sprintf("GetHashesByNumber(%d) = %s; blocks with that number by the parent links: %s (%s)", num,
				w.names(got), w.inames(wantKnown), why))
		}
		got, err = bs.GetAllBlocksAtNumber(num)
		if err != nil {
			return k.fail(v, "bs-GetAllBlocksAtNumber", fmt.Sprintf("GetAllBlocksAtNumber(%d) = %v", num, err))
		}
		ok, why := w.sameSet(got, wantTree)
		if !ok && num == headNum && len(got) == 0 {
			c.Count("bs_all_blocks_at_root_number_without_root", 1) // "unfinalised blocks": the head itself is finalised
			ok = true
		}
		if !ok {
			return k.fail(v, "bs-GetAllBlocksAtNumber", fmt.Sprintf("GetAllBlocksAtNumber(%d) = %s; unfinalised blocks with that number by the parent links: %s (%s)", num,
				w.names(got), w.inames(wantTree), why))
		}
		// GetHashByNumber: finalised numbers from the database, the others along the best chain
		h, err := bs.GetHashByNumber(num)
		switch {
		case num <= headNum:
			x := w.path(0, w.head)[num]
			if err != nil || h != w.blocks[x].hash {
				return k.fail(v, "bs-GetHashByNumber", fmt.Sprintf("GetHashByNumber(%d) = %s, %v; the finalised chain has b%d there", num, w.name(h), err, x))
			}
		case !bestKnown:
			c.Count("bs_by_number_skipped_best_unknown", 1) // C16's business
		case num > w.blocks[bestIdx].number:
			if err == nil {
				return k.fail(v, "bs-GetHashByNumber", fmt.Sprintf("GetHashByNumber(%d) = %s, nil above the best block b%d #%d", num, w.name(h), bestIdx, w.blocks[bestIdx].number))
			}
		default:
			x := w.path(0, bestIdx)[num]
			if err != nil || h != w.blocks[x].hash {
				return k.fail(v, "bs-GetHashByNumber", fmt.Sprintf("GetHashByNumber(%d) = %s, %v; the chain of the best block b%d has b%d there", num, w.name(h), err, bestIdx, x))
			}
		}
	}
	return true
}

func added(w *bsvWorld, xs []int) bool {
	for _, x := range xs {
		if w.blocks[x].added {
			return true
		}
	}
	return false
}

// bsvC15After is the monitor run after every operation of a history.
func bsvC15After(c *vcommon.Case, w *bsvWorld, pairLimit int) func(kind string) bool {
	k := &bsvChecker{c: c, w: w, pairLimit: pairLimit}
	live := &bsvView{name: "live", bs: w.bs}
	return func(kind string) bool {
		if !k.checkAll(live) {
			return false
		}
		if kind == "fin" && w.head != 0 {
			// the same database seen by a node that restarts now: finalised chain only
			fresh, err := NewBlockState(w.db, NewTries(), telemetry.NewNoopMailer())
			if err != nil {
				c.Inconclusive("cannot reopen the database: " + err.Error())
				return false
			}
			if !k.checkAll(&bsvView{name: "reopened", bs: fresh, fresh: true}) {
				return false
			}
		}
		return true
	}
}

func bsvRunC15Script(c *vcommon.Case, script []bsvOp) {
	w, err := bsvNewWorld(uint64(c.Idx) + 1)
	if err != nil {
		c.Inconclusive("cannot build world: " + err.Error())
		return
	}
	defer w.close()
	after := bsvC15After(c, w, 1<<20)
	for _, op := range script {
		kind := "add"
		if op.Add {
			if _, ok := w.add(c, op.Parent, op.Mark, op.Arr); !ok {
				return
			}
		} else {
			kind = "fin"
			if _, ok := w.finalise(c, op.Target); !ok {
				return
			}
		}
		if !after(kind) {
			return
		}
	}
	c.Distinct("script:" + w.shape())
}

func bsvRunC15Random(c *vcommon.Case) {
	w, err := bsvNewWorld(c.R.Uint64()>>20 + 1)
	if err != nil {
		c.Inconclusive("cannot build world: " + err.Error())
		return
	}
	defer w.close()
	g := bsvGen{maxBlocks: c.R.Range(6, 22), nFin: c.R.Range(2, 6)}
	bsvRandomHistory(c, w, g, bsvC15After(c, w, 48))
	if c.Failed() {
		return
	}
	if w.head != 0 {
		c.Distinct(w.shape() + "|" + fmt.Sprint(w.head, len(w.indexesWith(bsvGone))))
	}
	c.Sample(map[string]any{"blocks": len(w.blocks), "head": w.head, "gone": len(w.indexesWith(bsvGone)), "last_ops": w.log[max(0, len(w.log)-5):]})
}

func bsvC15Corpus() [][]bsvOp {
	add := func(p int) bsvOp { return bsvOp{Add: true, Parent: p, Mark: p % 3, Arr: p % 3} }
	fin := func(t int) bsvOp { return bsvOp{Fin: true, Target: t} }
	return [][]bsvOp{
		// 0: chain b1..b6, finalise b3: ranges b1..b6 cross the root with two blocks on either side
		{add(0), add(1), add(2), add(3), add(4), add(5), fin(3), fin(5)},
		// 1: fork below the future root; the abandoned sibling b3 and its child b5 as arguments afterwards
		{add(0), add(1), add(1), add(2), add(3), add(4), fin(2), add(6), fin(4)},
		// 2: finalise step by step, forks at every level, stale / abandoned / unknown finalisation requests in between
		{add(0), add(0), add(1), add(1), add(3), add(3), fin(1), fin(2), fin(-2), fin(3), fin(0), add(5), add(6), fin(5), fin(1), add(7)},
		// 3: the root stays genesis: ranges with unknown / refused starts must not be served from the tree
		{add(0), add(1), add(1), add(2), fin(-2), fin(0)},
		// 4: two long competing chains, the shorter one wins finality
		{add(0), add(0), add(1), add(2), add(3), add(4), add(5), add(7), fin(2), add(6), fin(6)},
	}
}

func TestVerifC15State(t *testing.T) {
	r := vcommon.Start(t, "C15")
	defer r.Finish()
	r.Floor("bs_range_crossing_root", 800)
	r.Floor("bs_range_crossing_root_long", 200)
	r.Floor("bs_range_db_only", 300)
	r.Floor("bs_range_db_to_root", 300)
	r.Floor("bs_range_from_root", 300)
	r.Floor("bs_range_memory_only", 300)
	r.Floor("bs_range_gone_or_unknown_arg", 2000)
	r.Floor("bs_range_start_not_ancestor", 300)
	r.Floor("bs_range_start_above_end", 300)
	r.Floor("bs_isdesc_db_fallback", 1000)
	r.Floor("bs_isdesc_db_fallback_false", 300)
	r.Floor("bs_isdesc_gone_or_unknown_arg", 2000)
	r.Floor("bs_descendants_db_fallback", 500)
	r.Floor("bs_descendants_gone_or_unknown_arg", 1000)
	r.Floor("bs_by_number_finalised", 500)
	r.Floor("bs_by_number_unfinalised", 1000)
	r.Floor("bs_by_number_multi", 300)
	r.Floor("bs_by_number_with_abandoned_blocks", 200)
	r.Floor("bs_pair_gone_live", 100)
	r.Floor("bs_pair_live_gone", 100)
	r.Floor("bs_pair_final_gone", 100)
	r.Floor("bs_pair_unknown_live", 100)
	r.Floor("bs_lca_proper_fork_pairs", 200)
	r.Floor("bs_query_sweeps_reopened", 100)

	corpus := bsvC15Corpus()
	r.Fixed("bstate_corpus", len(corpus), func(c *vcommon.Case) { bsvRunC15Script(c, corpus[c.Idx]) })
	r.Cases("bstate_tree", r.Scale(240), func(c *vcommon.Case) { bsvRunC15Random(c) })
}
