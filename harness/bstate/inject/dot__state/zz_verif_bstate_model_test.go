//go:build verif

package state

// Engine bstate: the C15 / C16 oracles at the level production code uses - dot/state.BlockState over a real
// (in-memory pebble) database - instead of the bare lib/blocktree.BlockTree.
//
// Reference model: blocks with an explicit parent index and a status; every query is answered by walking parent
// links. Nothing is borrowed from lib/blocktree or dot/state (copied from the state engine's vTree and the blocktree
// engine's Tree under new identifiers).
//
//   finalised  on the finalised chain genesis .. head (head = last finalised block = root of the in-memory tree);
//              persisted in the database
//   live       accepted by AddBlock and a proper descendant of the head; in memory only
//   gone       abandoned by a finalisation, or refused by AddBlock (parent abandoned): must be unknown everywhere
//   (unknown)  hashes nobody ever saw

import (
	"bytes"
	"fmt"
	"io"
	"sort"
	"time"

	"github.com/ChainSafe/gossamer/dot/telemetry"
	"github.com/ChainSafe/gossamer/dot/types"
	"github.com/ChainSafe/gossamer/internal/database"
	"github.com/ChainSafe/gossamer/internal/log"
	"github.com/ChainSafe/gossamer/lib/common"
	"github.com/ChainSafe/gossamer/lib/crypto/sr25519"
	inmemory_trie "github.com/ChainSafe/gossamer/pkg/trie/inmemory"
	"github.com/ChainSafe/gossamer/zz_verif/vcommon"
)

func init() {
	// SetFinalisedHash logs an info line per call, Prune a warning; keep shard logs small
	log.Patch(log.SetWriter(io.Discard), log.SetLevel(log.Critical))
}

const (
	bsvFinalised = iota
	bsvLive
	bsvGone
)

const (
	bsvPrimary  = 0
	bsvSecPlain = 1
	bsvSecVRF   = 2
)

// three arrival instants only, so that arrival ties are the norm; the first two differ by one nanosecond
var bsvArrivalSet = []time.Time{
	time.Unix(1_700_000_000, 0),
	time.Unix(1_700_000_000, 1),
	time.Unix(1_700_000_001, 0),
}

// blocks with odd labels get the instant in another time zone (instants must be compared, not structs)
func bsvArrivalOf(arr, id int) time.Time {
	if id%2 == 1 {
		return bsvArrivalSet[arr].In(time.FixedZone("verif", 3600))
	}
	return bsvArrivalSet[arr].UTC()
}

type bsvBlock struct {
	idx     int
	label   int // content label (= idx unless the same tree is added in several orders)
	parent  int // -1 for genesis
	number  uint
	hash    common.Hash
	header  *types.Header
	mark    int
	primary bool
	arr     int
	arrival time.Time
	status  int
	added   bool // accepted by BlockState.AddBlock at some point
}

type bsvWorld struct {
	db     database.Database
	bs     *BlockState
	blocks []*bsvBlock
	byHash map[common.Hash]int
	head   int
	round  uint64
	setID  uint64
	salt   uint64
	ghosts int
	log    []string
}

// bsvDigest: first item = real SCALE-encoded BABE pre-runtime digest of the requested kind (what types.IsPrimary
// reads inside BlockTree.AddBlock); half of the blocks also carry a seal, as real blocks do.
func bsvDigest(mark, id int, number uint) (types.Digest, error) {
	var out [sr25519.VRFOutputLength]byte
	var proof [sr25519.VRFProofLength]byte
	out[0], proof[0] = byte(id), byte(id>>8)
	slot := uint64(1000 + number)
	auth := uint32(id % 5)
	var prd *types.PreRuntimeDigest
	var err error
	switch mark {
	case bsvPrimary:
		prd, err = types.NewBabePrimaryPreDigest(auth, slot, out, proof).ToPreRuntimeDigest()
	case bsvSecPlain:
		prd, err = types.NewBabeSecondaryPlainPreDigest(auth, slot).ToPreRuntimeDigest()
	default:
		prd, err = types.NewBabeSecondaryVRFPreDigest(auth, slot, out, proof).ToPreRuntimeDigest()
	}
	d := types.NewDigest()
	if err != nil {
		return d, err
	}
	if err := d.Add(*prd); err != nil {
		return d, err
	}
	if id%2 == 1 {
		if err := d.Add(types.SealDigest{ConsensusEngineID: types.BabeEngineID, Data: bytes.Repeat([]byte{byte(id)}, 64)}); err != nil {
			return d, err
		}
	}
	return d, nil
}

func bsvNewWorld(salt uint64) (*bsvWorld, error) {
	db, err := database.NewPebble("", true)
	if err != nil {
		return nil, err
	}
	tries := NewTries()
	gtr := inmemory_trie.NewEmptyTrie()
	if err := gtr.Put([]byte("verif-bstate-genesis"), []byte{byte(salt), byte(salt >> 8), byte(salt >> 16), 2}); err != nil {
		return nil, err
	}
	groot := gtr.MustHash()
	genesis := types.NewHeader(common.Hash{}, groot, common.Hash{}, 0, types.NewDigest())
	bs, err := NewBlockStateFromGenesis(db, tries, genesis, telemetry.NewNoopMailer())
	if err != nil {
		_ = db.Close()
		return nil, err
	}
	tries.SetTrie(gtr)
	w := &bsvWorld{db: db, bs: bs, byHash: map[common.Hash]int{}, salt: salt}
	w.blocks = []*bsvBlock{{idx: 0, parent: -1, number: 0, hash: genesis.Hash(), header: genesis, status: bsvFinalised, added: true}}
	w.byHash[genesis.Hash()] = 0
	return w, nil
}

func (w *bsvWorld) close() { _ = w.db.Close() }

func (w *bsvWorld) logf(f string, a ...any) { w.log = append(w.log, fmt.Sprintf(f, a...)) }

func (w *bsvWorld) name(h common.Hash) string {
	if i, ok := w.byHash[h]; ok {
		return fmt.Sprintf("b%d", i)
	}
	return "?" + h.Short()
}

func (w *bsvWorld) names(hs []common.Hash) string {
	out := make([]string, len(hs))
	for i, h := range hs {
		out[i] = w.name(h)
	}
	return "[" + joinStrings(out, " ") + "]"
}

func (w *bsvWorld) inames(xs []int) string {
	out := make([]string, len(xs))
	for i, x := range xs {
		out[i] = fmt.Sprintf("b%d", x)
	}
	return "[" + joinStrings(out, " ") + "]"
}

func joinStrings(xs []string, sep string) string {
	var b bytes.Buffer
	for i, x := range xs {
		if i > 0 {
			b.WriteString(sep)
		}
		b.WriteString(x)
	}
	return b.String()
}

func (w *bsvWorld) witness(extra map[string]any) map[string]any {
	names := []string{"finalised", "live", "gone"}
	st := make([]string, len(w.blocks))
	for i, b := range w.blocks {
		st[i] = fmt.Sprintf("b%d parent=b%d #%d %s mark=%c arrival=%d added=%v %s", i, b.parent, b.number, names[b.status], "PsV"[b.mark], b.arr, b.added, b.hash.Short())
	}
	m := map[string]any{"ops": w.log, "blocks": st, "head": fmt.Sprintf("b%d", w.head), "salt": w.salt}
	for k, v := range extra {
		m[k] = v
	}
	return m
}

// ---------------------------------------------------------------------------------------------------------------
// parent-link queries
// ---------------------------------------------------------------------------------------------------------------

// known: finalised or live (the blocks a node can still know about)
func (w *bsvWorld) known(i int) bool { return i >= 0 && w.blocks[i].status != bsvGone }

// inTree: member of the in-memory tree = the head and the live blocks
func (w *bsvWorld) inTree(i int) bool {
	return i >= 0 && (i == w.head || w.blocks[i].status == bsvLive)
}

// isAncOrEq reports whether a is b or an ancestor of b (walks b's parent links).
func (w *bsvWorld) isAncOrEq(a, b int) bool {
	for x := b; x >= 0; x = w.blocks[x].parent {
		if x == a {
			return true
		}
	}
	return false
}

// path returns a..b along parent links (a first), nil when a is not an ancestor-or-equal of b.
func (w *bsvWorld) path(a, b int) []int {
	var rev []int
	for x := b; x >= 0; x = w.blocks[x].parent {
		rev = append(rev, x)
		if x == a {
			for i, j := 0, len(rev)-1; i < j; i, j = i+1, j-1 {
				rev[i], rev[j] = rev[j], rev[i]
			}
			return rev
		}
	}
	return nil
}

func (w *bsvWorld) lca(a, b int) int {
	onA := map[int]bool{}
	for x := a; x >= 0; x = w.blocks[x].parent {
		onA[x] = true
	}
	for x := b; x >= 0; x = w.blocks[x].parent {
		if onA[x] {
			return x
		}
	}
	return -1
}

func (w *bsvWorld) indexesWith(st int) []int {
	var out []int
	for i, b := range w.blocks {
		if b.status == st {
			out = append(out, i)
		}
	}
	return out
}

// leaves of the in-memory tree: tree members that are nobody's (tree member's) parent
func (w *bsvWorld) leaves() []int {
	isParent := map[int]bool{}
	for i, b := range w.blocks {
		if b.status == bsvLive && w.inTree(i) {
			isParent[b.parent] = true
		}
	}
	var out []int
	for i := range w.blocks {
		if w.inTree(i) && !isParent[i] {
			out = append(out, i)
		}
	}
	return out
}

// primaryCount counts primary-slot blocks on the chain of b after the finalised head.
func (w *bsvWorld) primaryCount(b int) int {
	n := 0
	for x := b; x >= 0 && x != w.head; x = w.blocks[x].parent {
		if w.blocks[x].primary {
			n++
		}
	}
	return n
}

// better: fork-choice order of C16 - more primary blocks after the root, then greater height, then earlier
// arrival, then lower hash.
func (w *bsvWorld) better(a, b int) bool {
	pa, pb := w.primaryCount(a), w.primaryCount(b)
	if pa != pb {
		return pa > pb
	}
	ba, bb := w.blocks[a], w.blocks[b]
	if ba.number != bb.number {
		return ba.number > bb.number
	}
	if !ba.arrival.Equal(bb.arrival) {
		return ba.arrival.Before(bb.arrival)
	}
	return bytes.Compare(ba.hash[:], bb.hash[:]) < 0
}

type bsvTieInfo struct {
	leaves                          int
	tiePrimary, tieHeight, tieArriv bool
	notHighest                      bool
}

func (w *bsvWorld) best() (int, bsvTieInfo) {
	ls := w.leaves()
	best := -1
	for _, l := range ls {
		if best < 0 || w.better(l, best) {
			best = l
		}
	}
	info := bsvTieInfo{leaves: len(ls)}
	if best < 0 {
		return -1, info
	}
	pb := w.primaryCount(best)
	var c1, c2, c3 int
	var maxNum uint
	for _, l := range ls {
		if w.blocks[l].number > maxNum {
			maxNum = w.blocks[l].number
		}
		if w.primaryCount(l) != pb {
			continue
		}
		c1++
		if w.blocks[l].number != w.blocks[best].number {
			continue
		}
		c2++
		if w.blocks[l].arrival.Equal(w.blocks[best].arrival) {
			c3++
		}
	}
	info.tiePrimary, info.tieHeight, info.tieArriv = c1 > 1, c2 > 1, c3 > 1
	info.notHighest = w.blocks[best].number < maxNum
	return best, info
}

func (w *bsvWorld) shape() string {
	var b bytes.Buffer
	for _, x := range w.blocks {
		fmt.Fprintf(&b, "%d%c%d,", x.parent, "PsV"[x.mark], x.arr)
	}
	return b.String()
}

// ---------------------------------------------------------------------------------------------------------------
// operations on the real BlockState (+ model update)
// ---------------------------------------------------------------------------------------------------------------

type bsvOp struct {
	Add    bool `json:"add,omitempty"`
	Parent int  `json:"parent,omitempty"`
	Mark   int  `json:"mark,omitempty"`
	Arr    int  `json:"arr,omitempty"`
	Fin    bool `json:"fin,omitempty"`
	Target int  `json:"target,omitempty"` // model index; -2 = hash unknown to everybody
}

func (w *bsvWorld) mkBlock(p, id, mark int) (*types.Block, error) {
	pb := w.blocks[p]
	d, err := bsvDigest(mark, id, pb.number+1)
	if err != nil {
		return nil, err
	}
	h := &types.Header{
		ParentHash: pb.hash,
		Number:     pb.number + 1,
		StateRoot:  common.Hash{byte(id), byte(id >> 8), byte(w.salt), byte(w.salt >> 8), byte(w.salt >> 16), 0x5b},
		Digest:     d,
	}
	h.Hash()
	body := types.NewBody([]types.Extrinsic{[]byte{byte(id), byte(id >> 8), 0xEF}})
	return &types.Block{Header: *h, Body: *body}, nil
}

// add performs AddBlockWithArrivalTime below model block p. ok=false: the case must stop (recorded).
func (w *bsvWorld) add(c *vcommon.Case, p, mark, arr int) (idx int, ok bool) {
	return w.addLabelled(c, p, len(w.blocks), mark, arr)
}

// addLabelled: the block's content (hence its hash) and its arrival instant depend on the label only, not on the
// position in the insertion history.
func (w *bsvWorld) addLabelled(c *vcommon.Case, p, label, mark, arr int) (idx int, ok bool) {
	id := len(w.blocks)
	blk, err := w.mkBlock(p, label, mark)
	if err != nil {
		c.Inconclusive("cannot build block: " + err.Error())
		return -1, false
	}
	at := bsvArrivalOf(arr, label)
	err = w.bs.AddBlockWithArrivalTime(blk, at)
	nb := &bsvBlock{idx: id, label: label, parent: p, number: w.blocks[p].number + 1, hash: blk.Header.Hash(), header: &blk.Header, mark: mark,
		primary: mark == bsvPrimary, arr: arr, arrival: at, status: bsvGone}
	w.blocks = append(w.blocks, nb)
	w.byHash[nb.hash] = id
	w.logf("add b%d(label %d) on b%d %c arrival=%d -> err=%v", id, label, p, "PsV"[mark], arr, err)
	if w.inTree(p) {
		if err != nil {
			// acceptance of a well-formed block on a tree member is C15/C17 (blocktree / state engines) business
			c.Inconclusive(fmt.Sprintf("AddBlockWithArrivalTime on a tree member failed: %v", err))
			return id, false
		}
		nb.status, nb.added = bsvLive, true
		c.Count("bs_blocks_added", 1)
		return id, true
	}
	c.Count("bs_adds_below_gone_or_finalised_parent", 1)
	if err == nil {
		c.Inconclusive(fmt.Sprintf("AddBlockWithArrivalTime(b%d) below b%d, which is not in the tree, succeeded (C17's verdict)", id, p))
		return id, false
	}
	return id, true
}

// finalise performs SetFinalisedHash; the acceptance verdicts themselves are C17's, here they only steer the model.
func (w *bsvWorld) finalise(c *vcommon.Case, target int) (accepted, ok bool) {
	var hash common.Hash
	kind := "unknown"
	if target >= 0 {
		hash = w.blocks[target].hash
		switch {
		case w.blocks[target].status == bsvLive:
			kind = "descendant"
		case target == w.head:
			kind = "head_again"
		case w.blocks[target].status == bsvFinalised:
			kind = "stale"
		default:
			kind = "gone"
		}
	} else {
		w.ghosts++
		hash = bsvUnknownHash(w.salt, w.ghosts)
	}
	w.round++
	if c.R.Chance(1, 4) {
		w.setID++
	}
	err := w.bs.SetFinalisedHash(hash, w.round, w.setID)
	w.logf("finalise %s b%d (%s) round=%d set=%d -> err=%v", kind, target, hash.Short(), w.round, w.setID, err)
	c.Count("bs_fin_"+kind, 1)
	switch kind {
	case "descendant":
		if err != nil {
			c.Inconclusive(fmt.Sprintf("SetFinalisedHash(live b%d) failed: %v (C17's verdict)", target, err))
			return false, false
		}
		crossing := 0
		for i, b := range w.blocks {
			if b.status != bsvLive {
				continue
			}
			switch {
			case w.isAncOrEq(i, target):
				b.status = bsvFinalised
			case w.isAncOrEq(target, i):
			default:
				b.status = bsvGone
				crossing++
			}
		}
		w.head = target
		c.Count("bs_blocks_abandoned", crossing)
		return true, true
	case "head_again":
		return err == nil, true
	default:
		if err == nil {
			c.Inconclusive(fmt.Sprintf("SetFinalisedHash(%s b%d) succeeded (C17's verdict)", kind, target))
			return false, false
		}
		return false, true
	}
}

func bsvUnknownHash(salt uint64, n int) common.Hash {
	return common.Hash(vcommon.Blake256([]byte(fmt.Sprintf("verif:bstate-unknown:%d:%d", salt, n))))
}

func bsvSortedHashes(hs []common.Hash) []common.Hash {
	out := append([]common.Hash(nil), hs...)
	sort.Slice(out, func(i, j int) bool { return bytes.Compare(out[i][:], out[j][:]) < 0 })
	return out
}

// ---------------------------------------------------------------------------------------------------------------
// history generator shared by C15State and C16State
// ---------------------------------------------------------------------------------------------------------------

type bsvGen struct {
	maxBlocks, nFin int
	tieBias         bool // C16: marks / arrivals drawn so that ties are frequent
}

// bsvRandomHistory drives a random history and calls after(step kind) following every operation.
// after returns false to stop the case.
func bsvRandomHistory(c *vcommon.Case, w *bsvWorld, g bsvGen, after func(kind string) bool) {
	r := c.R
	burst, fins := 0, 0
	style := r.Intn(3) // 0 chains with forks, 1 hubs (wide sibling fans), 2 uniform
	for steps := 0; steps < 120 && fins < g.nFin; steps++ {
		added := len(w.blocks) - 1
		if burst == 0 && added < g.maxBlocks && r.Chance(3, 4) {
			burst = r.Range(1, 7)
		}
		if burst > 0 && added < g.maxBlocks {
			burst--
			tree := append([]int{w.head}, w.indexesWith(bsvLive)...)
			gone := w.indexesWith(bsvGone)
			var p int
			switch {
			case len(gone) > 0 && r.Chance(1, 14):
				p = vcommon.Pick(r, gone)
			case style == 0 && r.Chance(3, 5):
				p = tree[len(tree)-1]
			case style == 1 && r.Chance(3, 5):
				p = tree[r.Intn(min(len(tree), 3))]
			default:
				p = vcommon.Pick(r, tree)
			}
			mark, arr := r.Intn(3), r.Intn(3)
			if g.tieBias {
				// few primaries / one arrival instant for most blocks: siblings tie down to the hash
				if r.Chance(2, 3) {
					mark = 1 + r.Intn(2)
				}
				if r.Chance(1, 2) {
					arr = 0
				}
			}
			if _, ok := w.add(c, p, mark, arr); !ok {
				return
			}
			if !after("add") {
				return
			}
			continue
		}
		burst = 0
		fins++
		live := w.indexesWith(bsvLive)
		var stale []int
		for _, x := range w.indexesWith(bsvFinalised) {
			if x != w.head {
				stale = append(stale, x)
			}
		}
		gone := w.indexesWith(bsvGone)
		target := -2
		k := r.Intn(100)
		switch {
		case len(live) > 0 && k < 70:
			target = vcommon.Pick(r, live)
			if r.Chance(1, 2) { // shallow targets keep the tree alive
				for _, x := range r.Perm(len(live)) {
					if w.blocks[live[x]].number <= w.blocks[w.head].number+2 {
						target = live[x]
						break
					}
				}
			}
		case len(stale) > 0 && k < 78:
			target = vcommon.Pick(r, stale)
		case len(gone) > 0 && k < 88:
			target = vcommon.Pick(r, gone)
		case k < 94:
			target = w.head
		}
		if _, ok := w.finalise(c, target); !ok {
			return
		}
		if !after("fin") {
			return
		}
	}
}
