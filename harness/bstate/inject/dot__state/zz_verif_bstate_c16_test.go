//go:build verif

package state

// C16 at the BlockState level (the property's observe_at names BlockState.BestBlockHash): after every block import
// (AddBlockWithArrivalTime with deterministic arrival instants, ties included), every accepted or refused
// finalisation (SetFinalisedHash prunes the tree and moves the root the primaries are counted from) and every refused
// import, BestBlockHash must be the model's arg-max over the leaves of (primary blocks after the finalised head,
// height, earlier arrival, lower hash). BestBlockHeader / BestBlockNumber must describe that block. The same marked
// tree added in several parent-first orders on fresh BlockStates must give the same choice.

import (
	"fmt"
	"testing"

	"github.com/ChainSafe/gossamer/lib/common"
	"github.com/ChainSafe/gossamer/zz_verif/vcommon"
)

// bsvCheckBest is the C16 oracle. false = violation recorded.
func bsvCheckBest(c *vcommon.Case, w *bsvWorld, kind string) bool {
	got := w.bs.BestBlockHash()
	want, info := w.best()
	c.Eval(1)
	c.Count("bs_best_checks", 1)
	c.Count("bs_best_checks_after_"+kind, 1)
	if info.leaves > 1 {
		c.Count("bs_best_checks_forked", 1)
	}
	if info.tiePrimary {
		c.Count("bs_tie_on_primary_count", 1)
	}
	if info.tiePrimary && !info.tieHeight {
		c.Count("bs_tie_decided_by_height", 1)
	}
	if info.tieHeight && !info.tieArriv {
		c.Count("bs_tie_decided_by_arrival", 1)
	}
	if info.tieArriv {
		c.Count("bs_tie_decided_by_hash", 1)
	}
	if info.notHighest {
		c.Count("bs_best_is_not_highest_leaf", 1)
	}
	if w.head != 0 && info.leaves > 1 {
		c.Count("bs_best_checks_forked_after_finalisation", 1)
	}
	desc := func(i int) string {
		if i < 0 {
			return "not-a-known-block"
		}
		b := w.blocks[i]
		return fmt.Sprintf("b%d(primaries=%d height=%d arrival=+%dns %s)", i, w.primaryCount(i), b.number, b.arrival.Sub(bsvArrivalSet[0]).Nanoseconds(), b.hash.Short())
	}
	if want < 0 || got != w.blocks[want].hash {
		gi, ok := w.byHash[got]
		if !ok {
			gi = -1
		}
		class := "bs-best-wrong-leaf"
		isLeaf := false
		for _, l := range w.leaves() {
			if l == gi {
				isLeaf = true
			}
		}
		if !isLeaf {
			class = "bs-best-not-a-leaf"
		}
		c.Violation(class, fmt.Sprintf("BlockState.BestBlockHash() = %s after %s; model arg-max %s", desc(gi), kind, desc(want)),
			w.witness(map[string]any{"leaves": w.inames(w.leaves())}))
		return false
	}
	// the delegating accessors must describe the same block
	c.Eval(2)
	hd, err := w.bs.BestBlockHeader()
	if err != nil || hd.Hash() != got || hd.Number != w.blocks[want].number {
		c.Violation("bs-best-header", fmt.Sprintf("BestBlockHeader() err=%v does not describe the best block %s", err, desc(want)), w.witness(nil))
		return false
	}
	if n, err := w.bs.BestBlockNumber(); err != nil || n != w.blocks[want].number {
		c.Violation("bs-best-header", fmt.Sprintf("BestBlockNumber() = %d, %v; best block is %s", n, err, desc(want)), w.witness(nil))
		return false
	}
	return true
}

func bsvRunC16Random(c *vcommon.Case) {
	w, err := bsvNewWorld(c.R.Uint64()>>20 + 1)
	if err != nil {
		c.Inconclusive("cannot build world: " + err.Error())
		return
	}
	defer w.close()
	g := bsvGen{maxBlocks: c.R.Range(6, 24), nFin: c.R.Range(2, 7), tieBias: c.R.Chance(2, 3)}
	forked := false
	bsvRandomHistory(c, w, g, func(kind string) bool {
		if len(w.leaves()) > 1 {
			forked = true
		}
		return bsvCheckBest(c, w, kind)
	})
	if c.Failed() {
		return
	}
	if forked {
		c.Distinct(w.shape() + "|" + fmt.Sprint(w.head))
	}
	c.Sample(map[string]any{"blocks": len(w.blocks), "head": w.head, "best": w.name(w.bs.BestBlockHash()), "last_ops": w.log[max(0, len(w.log)-4):]})
}

// bsvRunC16Orders: one marked tree, several parent-first insertion orders, each on a fresh BlockState; then the same
// finalisation in every world.
func bsvRunC16Orders(c *vcommon.Case) {
	r := c.R
	n := r.Range(4, 14)
	pv := make([]int, n+1) // labels 1..n, parent label (0 = genesis)
	mark := make([]int, n+1)
	arr := make([]int, n+1)
	style := r.Intn(3)
	for i := 1; i <= n; i++ {
		switch {
		case style == 0 && r.Chance(1, 2):
			pv[i] = i - 1
		case style == 1 && r.Chance(1, 2):
			pv[i] = r.Intn(min(i, 2))
		default:
			pv[i] = r.Intn(i)
		}
		mark[i] = r.Intn(3)
		if r.Chance(1, 2) {
			mark[i] = 1 + r.Intn(2)
		}
		arr[i] = r.Intn(3)
		if r.Chance(1, 2) {
			arr[i] = 0
		}
	}
	finLabel := 1 + r.Intn(n)
	nOrders := 3
	var firstBest, firstBestAfter common.Hash
	var firstLog []string
	for o := 0; o < nOrders; o++ {
		// random parent-first order (order 0 = by label)
		order := make([]int, 0, n)
		if o == 0 {
			for i := 1; i <= n; i++ {
				order = append(order, i)
			}
		} else {
			done := map[int]bool{0: true}
			for len(order) < n {
				var ready []int
				for i := 1; i <= n; i++ {
					if !done[i] && done[pv[i]] {
						ready = append(ready, i)
					}
				}
				x := vcommon.Pick(r, ready)
				if o == 2 { // prefer late labels: far from the label order
					x = ready[len(ready)-1-r.Intn(min(len(ready), 2))]
				}
				done[x] = true
				order = append(order, x)
			}
		}
		w, err := bsvNewWorld(uint64(c.Idx)*4 + 7) // same salt for all orders: same genesis, same hashes
		if err != nil {
			c.Inconclusive("cannot build world: " + err.Error())
			return
		}
		idxOf := map[int]int{0: 0}
		okAll := true
		for _, l := range order {
			idx, ok := w.addLabelled(c, idxOf[pv[l]], l, mark[l], arr[l])
			if !ok {
				okAll = false
				break
			}
			idxOf[l] = idx
			if !bsvCheckBest(c, w, "add") {
				okAll = false
				break
			}
		}
		if !okAll {
			w.close()
			return
		}
		best := w.bs.BestBlockHash()
		c.Eval(1)
		c.Count("bs_order_runs", 1)
		if o == 0 {
			firstBest, firstLog = best, append([]string(nil), w.log...)
		} else if best != firstBest {
			c.Violation("bs-best-depends-on-order", fmt.Sprintf("same marked tree, insertion order %d: BestBlockHash = %s, label order gave %s", o, best.Short(), firstBest.Short()),
				w.witness(map[string]any{"label_order_ops": firstLog}))
			w.close()
			return
		}
		if _, ok := w.finalise(c, idxOf[finLabel]); !ok || !bsvCheckBest(c, w, "fin") {
			w.close()
			return
		}
		bestAfter := w.bs.BestBlockHash()
		c.Eval(1)
		if o == 0 {
			firstBestAfter = bestAfter
		} else if bestAfter != firstBestAfter {
			c.Violation("bs-best-depends-on-order", fmt.Sprintf("same marked tree, insertion order %d, after finalising label %d: BestBlockHash = %s, label order gave %s",
				o, finLabel, bestAfter.Short(), firstBestAfter.Short()), w.witness(map[string]any{"label_order_ops": firstLog}))
			w.close()
			return
		}
		if o == nOrders-1 {
			if len(w.leaves()) > 1 || w.head != 0 {
				c.Distinct("orders:" + fmt.Sprint(pv, mark, arr, finLabel))
			}
		}
		w.close()
	}
}

func bsvRunC16Script(c *vcommon.Case, script []bsvOp) {
	w, err := bsvNewWorld(uint64(c.Idx) + 101)
	if err != nil {
		c.Inconclusive("cannot build world: " + err.Error())
		return
	}
	defer w.close()
	for _, op := range script {
		kind := "add"
		if op.Add {
			if _, ok := w.add(c, op.Parent, op.Mark, op.Arr); !ok {
				return
			}
		} else {
			kind = "fin"
			if _, ok := w.finalise(c, op.Target); !ok {
				return
			}
		}
		if !bsvCheckBest(c, w, kind) {
			return
		}
	}
	c.Distinct("script:" + w.shape())
}

func bsvC16Corpus() [][]bsvOp {
	add := func(p, mark, arr int) bsvOp { return bsvOp{Add: true, Parent: p, Mark: mark, Arr: arr} }
	fin := func(t int) bsvOp { return bsvOp{Fin: true, Target: t} }
	const P, s, V = bsvPrimary, bsvSecPlain, bsvSecVRF
	return [][]bsvOp{
		// 0: two secondary siblings, same height, same instant: the lower hash wins
		{add(0, s, 0), add(1, s, 0), add(1, V, 0), add(1, s, 0)},
		// 1: arrival decides, the instants differ by one nanosecond; the later sibling is added first
		{add(0, P, 0), add(1, s, 1), add(1, s, 0), add(1, V, 2)},
		// 2: one primary beats a longer all-secondary chain (the best block is not the highest leaf)
		{add(0, s, 0), add(1, s, 0), add(2, s, 0), add(3, V, 0), add(1, P, 2)},
		// 3: the primaries of the finalised part stop counting: before fin the chain through b1(P),b2(P) leads; after finalising b2 both
		// children restart at 0 and the height decides, then a refused stale / unknown request changes nothing
		{add(0, P, 0), add(1, P, 0), add(2, s, 1), add(2, s, 0), add(4, s, 0), add(0, s, 0), add(6, P, 0), fin(2), fin(1), fin(-2), add(3, P, 0), add(7, P, 0)},
		// 4: the abandoned fork held the best block
		{add(0, s, 0), add(0, P, 0), add(2, P, 0), add(1, s, 0), fin(1), add(3, P, 0), add(4, V, 0), add(4, s, 0)},
		// 5: same primary count, greater height wins whatever the arrival
		{add(0, P, 0), add(0, P, 2), add(2, s, 2), add(1, s, 0), add(4, V, 2), fin(4), fin(4)},
	}
}

func TestVerifC16State(t *testing.T) {
	r := vcommon.Start(t, "C16")
	defer r.Finish()
	r.Floor("bs_best_checks", 4000)
	r.Floor("bs_best_checks_forked", 2000)
	r.Floor("bs_best_checks_after_fin", 500)
	r.Floor("bs_best_checks_forked_after_finalisation", 500)
	r.Floor("bs_tie_on_primary_count", 800)
	r.Floor("bs_tie_decided_by_height", 300)
	r.Floor("bs_tie_decided_by_arrival", 300)
	r.Floor("bs_tie_decided_by_hash", 300)
	r.Floor("bs_best_is_not_highest_leaf", 100)
	r.Floor("bs_order_runs", 300)

	corpus := bsvC16Corpus()
	r.Fixed("bstate_best_corpus", len(corpus), func(c *vcommon.Case) { bsvRunC16Script(c, corpus[c.Idx]) })
	r.Cases("bstate_best_tree", r.Scale(300), func(c *vcommon.Case) { bsvRunC16Random(c) })
	r.Cases("bstate_best_orders", r.Scale(150), func(c *vcommon.Case) { bsvRunC16Orders(c) })
}
