//go:build verif

// Package fg holds the reference model ("Tally") shared by the C19 and C20
// monitors: the GRANDPA paper definitions evaluated over an explicit block
// tree. Nothing in here is derived from gossamer's vote graph: weights are
// computed by brute force from the definition
//
//	weight(B, phase) = sum of the weights of the voters that either cast one
//	                   vote on B or a descendant of B, or equivocated
//
// so a wrong edge/merge/bitfield computation in the real code disagrees.
package fg

// Tree is an explicit block tree. Block 0 is the root (the round base);
// Parent[i] < i for every i > 0 and Parent[0] == -1.
type Tree struct {
	Parent []int
}

// N is the number of blocks.
func (t Tree) N() int { return len(t.Parent) }

// Depth is the distance of block b from the root.
func (t Tree) Depth(b int) int {
	d := 0
	for b > 0 {
		b = t.Parent[b]
		d++
	}
	return d
}

// IsAncOrEq reports whether a is b or an ancestor of b.
func (t Tree) IsAncOrEq(a, b int) bool {
	for b >= 0 {
		if b == a {
			return true
		}
		b = t.Parent[b]
	}
	return false
}

// Children lists the children of every block (ascending block index).
func (t Tree) Children() [][]int {
	ch := make([][]int, len(t.Parent))
	for i := 1; i < len(t.Parent); i++ {
		ch[t.Parent[i]] = append(ch[t.Parent[i]], i)
	}
	return ch
}

// Threshold is the supermajority weight: total - floor((total-1)/3).
func Threshold(total uint64) uint64 {
	if total == 0 {
		return 0
	}
	return total - (total-1)/3
}

// Phase indexes the two vote kinds.
const (
	Prevote   = 0
	Precommit = 1
)

// Tally is a vote multiset over a tree, reduced to what the definitions
// need: per voter and phase the set of DISTINCT votes seen (0, 1 or >= 2).
type Tally struct {
	T      Tree
	W      []uint64    // voter weights
	Total  uint64      // total weight of the voter set
	Thr    uint64      // Threshold(Total)
	Single [2][]int    // per phase, per voter: the target of the first distinct vote, -1 if none
	Equiv  [2][]bool   // per phase, per voter: two or more distinct votes seen
	seen   [2][]string // per phase, per voter: key of the first distinct vote
	ch     [][]int
	anc    [][]bool // anc[a][b]: a is b or an ancestor of b
}

// TreeInfo caches the child lists and the ancestor relation of a tree.
type TreeInfo struct {
	T   Tree
	ch  [][]int
	anc [][]bool
}

// NewTreeInfo precomputes the relations of t by following parent links.
func NewTreeInfo(t Tree) *TreeInfo {
	ti := &TreeInfo{T: t, ch: t.Children(), anc: make([][]bool, t.N())}
	for a := range ti.anc {
		ti.anc[a] = make([]bool, t.N())
	}
	for b := 0; b < t.N(); b++ {
		for a := b; a >= 0; a = t.Parent[a] {
			ti.anc[a][b] = true
		}
	}
	return ti
}

// NewTally creates an empty tally.
func NewTally(t Tree, w []uint64) *Tally { return NewTallyInfo(NewTreeInfo(t), w) }

// NewTallyInfo creates an empty tally over a tree whose relations are cached.
func NewTallyInfo(ti *TreeInfo, w []uint64) *Tally {
	ta := &Tally{T: ti.T, W: w, ch: ti.ch, anc: ti.anc}
	for _, x := range w {
		ta.Total += x
	}
	ta.Thr = Threshold(ta.Total)
	for p := 0; p < 2; p++ {
		ta.Single[p] = make([]int, len(w))
		ta.Equiv[p] = make([]bool, len(w))
		ta.seen[p] = make([]string, len(w))
		for i := range w {
			ta.Single[p][i] = -1
		}
	}
	return ta
}

// Add records one vote. key identifies the vote (target and signature): a
// second vote with the same key is a duplicate, with another key an
// equivocation. Which of an equivocator's votes was first does not matter.
func (ta *Tally) Add(phase, voter, target int, key string) {
	if ta.Single[phase][voter] < 0 {
		ta.Single[phase][voter] = target
		ta.seen[phase][voter] = key
		return
	}
	if ta.seen[phase][voter] != key {
		ta.Equiv[phase][voter] = true
	}
}

// Voted is the weight of the voters with at least one vote in the phase.
func (ta *Tally) Voted(phase int) uint64 {
	var s uint64
	for v, b := range ta.Single[phase] {
		if b >= 0 {
			s += ta.W[v]
		}
	}
	return s
}

// EquivWeight is the weight of the equivocators of the phase.
func (ta *Tally) EquivWeight(phase int) uint64 {
	var s uint64
	for v, e := range ta.Equiv[phase] {
		if e {
			s += ta.W[v]
		}
	}
	return s
}

// Weight is the vote weight of block b: voters whose vote is on b or a
// descendant of b, plus every equivocator.
func (ta *Tally) Weight(phase, b int) uint64 {
	var s uint64
	for v, tgt := range ta.Single[phase] {
		if tgt < 0 {
			continue
		}
		if ta.Equiv[phase][v] || ta.anc[b][tgt] {
			s += ta.W[v]
		}
	}
	return s
}

// Ghost walks down from the root always entering the child whose subtree has
// supermajority weight. It returns -1 when the root itself has no
// supermajority. ambiguous is set when some block on the way has two or more
// such children (only possible when the equivocators weigh more than
// total-threshold): the definition then does not single out one block.
func (ta *Tally) Ghost(phase int) (ghost int, ambiguous bool) { return ta.GhostFrom(phase, 0) }

// GhostFrom is Ghost for a round whose base is block root (every vote must be
// on root or a descendant of it).
func (ta *Tally) GhostFrom(phase, root int) (ghost int, ambiguous bool) {
	if ta.Weight(phase, root) < ta.Thr {
		return -1, false
	}
	cur := root
	for {
		next := -1
		for _, c := range ta.ch[cur] {
			if ta.Weight(phase, c) >= ta.Thr {
				if next >= 0 {
					return cur, true
				}
				next = c
			}
		}
		if next < 0 {
			return cur, false
		}
		cur = next
	}
}

// IsMaximalSupermajority reports whether b has supermajority weight and none
// of its children has (what any GHOST must satisfy, ambiguous or not).
func (ta *Tally) IsMaximalSupermajority(phase, b int) bool {
	if b < 0 || ta.Weight(phase, b) < ta.Thr {
		return false
	}
	for _, c := range ta.ch[b] {
		if ta.Weight(phase, c) >= ta.Thr {
			return false
		}
	}
	// every ancestor has at least the weight of b
	return true
}

func satSub(a, b uint64) uint64 {
	if a < b {
		return 0
	}
	return a - b
}

// PossibleToPrecommit: could block b still gather supermajority precommits,
// assuming every voter that has not precommitted yet votes for it and the
// voters that precommitted elsewhere equivocate as far as the tolerated
// equivocation weight (total - threshold, minus what already equivocated)
// allows. Same arithmetic as finality-grandpa's `possible_to_precommit`
// (saturating subtractions).
func (ta *Tally) PossibleToPrecommit(b int) bool {
	tolerated := ta.Total - ta.Thr
	additional := satSub(tolerated, ta.EquivWeight(Precommit))
	current := ta.Voted(Precommit)
	remaining := ta.Total - current
	pf := ta.Weight(Precommit, b)
	possibleEquiv := satSub(current, pf)
	if additional < possibleEquiv {
		possibleEquiv = additional
	}
	return pf+remaining+possibleEquiv >= ta.Thr
}

// Derived is the part of the round state that is a function of the prevote
// GHOST g and the precommits.
type Derived struct {
	Finalized   int // -1 = none
	Estimate    int // -1 = none
	Completable bool
}

// Derive computes finalized / estimate / completable for prevote-GHOST g
// (g = -1: no prevote supermajority yet).
//
//	finalized   = highest ancestor-or-equal of g with precommit supermajority
//	              (only once precommits reach the threshold at all)
//	estimate    = g while the precommits are below the threshold, afterwards the
//	              highest ancestor-or-equal of g that can still get a precommit supermajority
//	completable = precommits reached the threshold and (estimate is a strict ancestor
//	              of g, or estimate == g and no child of g can still get a supermajority)
func (ta *Tally) Derive(g int) Derived { return ta.derive(g, false) }

// DeriveReferenced is Derive with the children of g restricted to blocks that
// carry a first vote (of either phase) in their subtree. With at most
// total-threshold precommit equivocation weight both agree (an unreferenced
// block can never reach the threshold); beyond that the protocol's assumptions
// are broken and the two readings can differ.
func (ta *Tally) DeriveReferenced(g int) Derived { return ta.derive(g, true) }

// Referenced reports whether some voter's first vote (either phase) is on b
// or a descendant of b.
func (ta *Tally) Referenced(b int) bool {
	for ph := 0; ph < 2; ph++ {
		for _, tg := range ta.Single[ph] {
			if tg >= 0 && ta.anc[b][tg] {
				return true
			}
		}
	}
	return false
}

func (ta *Tally) derive(g int, referencedOnly bool) Derived {
	d := Derived{Finalized: -1, Estimate: -1}
	if g < 0 {
		return d
	}
	if ta.Voted(Precommit) < ta.Thr {
		d.Estimate = g
		return d
	}
	for b := g; b >= 0; b = ta.T.Parent[b] {
		if ta.Weight(Precommit, b) >= ta.Thr {
			d.Finalized = b
			break
		}
	}
	for b := g; b >= 0; b = ta.T.Parent[b] {
		if ta.PossibleToPrecommit(b) {
			d.Estimate = b
			break
		}
	}
	if d.Estimate < 0 {
		return d
	}
	if d.Estimate != g {
		d.Completable = true
		return d
	}
	d.Completable = true
	for _, c := range ta.ch[g] {
		if referencedOnly && !ta.Referenced(c) {
			continue
		}
		if ta.PossibleToPrecommit(c) {
			d.Completable = false
		}
	}
	return d
}

// SelfCheck replays the three scripted rounds of the repository's own
// round_test.go (same expectations as upstream finality-grandpa) against the
// model. A non-empty result means the model is wrong: the checks then report
// inconclusive instead of alarming.
func SelfCheck() []string {
	// C(0) - D(1) - E(2) - F(3) - FA(4) - FB(5) - FC(6)
	//                 \- EA(7) - EB(8) - EC(9) - ED(10)
	t := Tree{Parent: []int{-1, 0, 1, 2, 3, 4, 5, 2, 7, 8, 9}}
	const (
		C, D, E, F, FA, FB, FC, EA, EB, EC, ED = 0, 1, 2, 3, 4, 5, 6, 7, 8, 9, 10
		alice, bob, eve                        = 0, 1, 2
	)
	_ = D
	_ = FB
	_ = EB
	_ = EC
	var bad []string
	expect := func(name string, got, want int) {
		if got != want {
			bad = append(bad, name)
		}
	}
	w := []uint64{4, 7, 3}
	if Threshold(14) != 10 || Threshold(1) != 1 || Threshold(3) != 3 || Threshold(4) != 3 || Threshold(7) != 5 || Threshold(10) != 7 {
		bad = append(bad, "threshold")
	}

	// TestRound_EstimateIsValid
	ta := NewTally(t, w)
	ta.Add(Prevote, alice, FC, "a")
	ta.Add(Prevote, bob, ED, "b")
	g, amb := ta.Ghost(Prevote)
	expect("estimate-valid/ghost", g, E)
	d := ta.Derive(g)
	expect("estimate-valid/estimate", d.Estimate, E)
	if d.Completable || amb {
		bad = append(bad, "estimate-valid/completable")
	}
	ta.Add(Prevote, eve, F, "e")
	g, _ = ta.Ghost(Prevote)
	expect("estimate-valid/ghost2", g, E)
	expect("estimate-valid/estimate2", ta.Derive(g).Estimate, E)

	// TestRound_Finalisation
	ta = NewTally(t, w)
	ta.Add(Precommit, alice, FC, "a")
	ta.Add(Precommit, bob, ED, "b")
	g, _ = ta.Ghost(Prevote)
	expect("final/none", ta.Derive(g).Finalized, -1)
	ta.Add(Prevote, alice, FC, "a")
	ta.Add(Prevote, bob, ED, "b")
	ta.Add(Prevote, eve, EA, "e")
	g, _ = ta.Ghost(Prevote)
	expect("final/E", ta.Derive(g).Finalized, E)
	ta.Add(Precommit, eve, EA, "e")
	g, _ = ta.Ghost(Prevote)
	expect("final/EA", ta.Derive(g).Finalized, EA)

	// TestRound_EquivocateDoesNotDoubleCount
	ta = NewTally(t, w)
	ta.Add(Prevote, eve, FC, "1")
	g, _ = ta.Ghost(Prevote)
	expect("equiv/none1", g, -1)
	ta.Add(Prevote, eve, ED, "2")
	ta.Add(Prevote, eve, F, "3")
	g, _ = ta.Ghost(Prevote)
	expect("equiv/none2", g, -1)
	ta.Add(Prevote, bob, FA, "b")
	g, _ = ta.Ghost(Prevote)
	expect("equiv/FA", g, FA)

	// hand-computed: 4 unit voters (t=3, one tolerated equivocation), chain 0-1-2 and fork 0-3
	t2 := Tree{Parent: []int{-1, 0, 1, 0}}
	ta = NewTally(t2, []uint64{1, 1, 1, 1})
	for v, b := range []int{2, 2, 1, 3} {
		ta.Add(Prevote, v, b, "p")
	}
	g, _ = ta.Ghost(Prevote) // weight(1)=3, weight(2)=2
	expect("hand/ghost", g, 1)
	ta.Add(Precommit, 0, 1, "c")
	ta.Add(Precommit, 1, 1, "c")
	d = ta.Derive(g)
	expect("hand/estimate-below-thr", d.Estimate, 1)
	ta.Add(Precommit, 2, 3, "c") // 3 precommits: block1 has 2, one remaining voter => 3 possible
	d = ta.Derive(g)
	expect("hand/finalized", d.Finalized, 0)
	expect("hand/estimate", d.Estimate, 1)
	// child 2 of the ghost: pf=0, remaining 1, possible equivocations min(3,1)=1 => 2 < 3: impossible
	if !d.Completable {
		bad = append(bad, "hand/completable")
	}
	ta.Add(Precommit, 3, 3, "c") // block1: pf 2, remaining 0, equivocations min(2,1)=1 => 3: still possible
	d = ta.Derive(g)
	expect("hand/estimate2", d.Estimate, 1)
	ta2 := NewTally(t2, []uint64{1, 1, 1, 1})
	for v, b := range []int{2, 2, 1, 3} {
		ta2.Add(Prevote, v, b, "p")
	}
	for v, b := range []int{1, 3, 3, 3} { // block1: pf 1, remaining 0, +1 equivocation = 2 < 3
		ta2.Add(Precommit, v, b, "c")
	}
	d = ta2.Derive(1)
	expect("hand/estimate-root", d.Estimate, 0)
	expect("hand/finalized-root", d.Finalized, 0)
	if !d.Completable {
		bad = append(bad, "hand/completable2")
	}
	return bad
}
