//go:build verif

package grandpa

// C20 monitor: the real Round (importPrevote / importPrecommit / State /
// PrecommitGHOST) is driven with generated vote multisets in many import
// orders; after every import the observable round state is compared with the
// brute-force Tally model of zz_verif/fg over the explicit block tree.

import (
	"fmt"
	rtdebug "runtime/debug"
	"sort"
	"strconv"
	"strings"
	"testing"

	"github.com/ChainSafe/gossamer/zz_verif/fg"
	"github.com/ChainSafe/gossamer/zz_verif/vcommon"
	"golang.org/x/exp/constraints"
)

// ---------------------------------------------------------------- scenario

type vVote struct {
	Phase  int // fg.Prevote / fg.Precommit
	Voter  int // index into ids; -1 = not a member of the voter set
	Target int // block index
}

type vScen struct {
	tree    fg.Tree
	hashes  []string // block index -> hash (order of hashes is unrelated to the index)
	baseNum uint64
	ids     []string // voter index -> id (order of ids is unrelated to the index)
	weights []uint64
	votes   []vVote

	// derived, built once by prep()
	info   *fg.TreeInfo
	parent map[string]string
	index  map[string]int
	depth  []int
	iw     []IDWeight[string]
}

func (s *vScen) prep() {
	if s.info != nil {
		return
	}
	s.info = fg.NewTreeInfo(s.tree)
	s.parent, s.index = map[string]string{}, map[string]int{}
	s.depth = make([]int, len(s.hashes))
	for i, h := range s.hashes {
		s.index[h] = i
		s.depth[i] = s.tree.Depth(i)
		if i > 0 {
			s.parent[h] = s.hashes[s.tree.Parent[i]]
		}
	}
	for i, id := range s.ids {
		s.iw = append(s.iw, IDWeight[string]{ID: id, Weight: s.weights[i]})
	}
}

func (s *vScen) witness(order []int, upto int) map[string]any {
	var vs []string
	for k, i := range order {
		if k > upto {
			break
		}
		v := s.votes[i]
		ph := "prevote"
		if v.Phase == fg.Precommit {
			ph = "precommit"
		}
		id := "OUTSIDER"
		if v.Voter >= 0 {
			id = s.ids[v.Voter]
		}
		vs = append(vs, fmt.Sprintf("%s %s->%s(#%d)", ph, id, s.hashes[v.Target], v.Target))
	}
	return map[string]any{
		"parents": s.tree.Parent, "hashes": s.hashes, "base_number": s.baseNum,
		"voter_ids": s.ids, "weights": s.weights, "imports_in_order": vs,
	}
}

// vChain serves the explicit tree to the round.
type vChain[N constraints.Unsigned] struct {
	parent    map[string]string
	ancestryN int
}

func (c *vChain[N]) Ancestry(base, block string) ([]string, error) {
	c.ancestryN++
	if base == block {
		return nil, fmt.Errorf("block not descendent of base")
	}
	var out []string
	for {
		p, ok := c.parent[block]
		if !ok {
			return nil, fmt.Errorf("block not descendent of base")
		}
		if p == base {
			return out, nil
		}
		out = append(out, p)
		block = p
	}
}

func (c *vChain[N]) IsEqualOrDescendantOf(base, block string) bool {
	if base == block {
		return true
	}
	_, err := c.Ancestry(base, block)
	return err == nil
}

// ---------------------------------------------------------------- driver

type vObs struct {
	ghost, fin, est, pg int // block index, -1 = nil, -2 = not a block of the tree / wrong number
	completable         bool
}

type vRunOpt struct {
	everyStep bool // compare after every import (else only at the end)
	callPG    bool // call PrecommitGHOST at every comparison (it memoises)
}

func vSig(id string, target int) string { return id + "/" + strconv.Itoa(target) }

// vRun imports the votes of s in the given order into a fresh Round over
// number type N and compares with the model. Returns false after a mismatch.
func vRun[N constraints.Unsigned](c *vcommon.Case, s *vScen, order []int, opt vRunOpt) bool {
	s.prep()
	chain := &vChain[N]{parent: s.parent}
	index := s.index
	vs := NewVoterSet(s.iw)
	if vs == nil {
		c.Violation("voterset", "NewVoterSet returned nil for a non-empty set", s.witness(nil, -1))
		return false
	}
	round := NewRound[string, string, N, string](RoundParams[string, string, N]{
		RoundNumber: 1, Voters: *vs,
		Base: HashNumber[string, N]{Hash: s.hashes[0], Number: N(s.baseNum)},
	})
	ta := fg.NewTallyInfo(s.info, s.weights)
	if uint64(vs.Threshold()) != ta.Thr || uint64(vs.TotalWeight()) != ta.Total {
		c.Violation("threshold", fmt.Sprintf("voter set total=%d threshold=%d, definition total=%d threshold=%d",
			vs.TotalWeight(), vs.Threshold(), ta.Total, ta.Thr), s.witness(nil, -1))
		return false
	}
	conv := func(hn *HashNumber[string, N]) int {
		if hn == nil {
			return -1
		}
		b, ok := index[hn.Hash]
		if !ok || uint64(hn.Number) != s.baseNum+uint64(s.depth[b]) {
			return -2
		}
		return b
	}
	name := func(b int) string {
		switch {
		case b == -1:
			return "nil"
		case b < 0:
			return "<unknown block or wrong number>"
		}
		return fmt.Sprintf("%s(#%d)", s.hashes[b], b)
	}
	compare := func(step int) bool {
		st := round.State()
		obs := vObs{ghost: conv(st.PrevoteGHOST), fin: conv(st.Finalized), est: conv(st.Estimate),
			completable: st.Completable, pg: -1}
		if conv(round.Finalized()) != obs.fin || conv(round.Estimate()) != obs.est || round.Completable() != obs.completable {
			c.Violation("accessors", "State() disagrees with Finalized()/Estimate()/Completable()", s.witness(order, step))
			return false
		}
		fail := func(class, what string, got, want int) bool {
			w := s.witness(order, step)
			w["observed"] = map[string]any{"prevote_ghost": name(obs.ghost), "finalized": name(obs.fin),
				"estimate": name(obs.est), "completable": obs.completable, "precommit_ghost": name(obs.pg)}
			w["number_type"] = fmt.Sprintf("%T", N(0))
			w["threshold"] = ta.Thr
			c.Violation(class, fmt.Sprintf("after import %d: %s = %s, definition gives %s", step+1, what, name(got), name(want)), w)
			return false
		}
		g, amb := ta.Ghost(fg.Prevote)
		c.Eval(1)
		switch {
		case g >= 0 && ta.EquivWeight(fg.Prevote) >= ta.Thr:
			// the equivocators alone are a supermajority: every block (voted or not) qualifies and the
			// definition singles out no block; only require some block and derive the rest from it
			c.Count("degenerate_prevote_states", 1)
			if obs.ghost < 0 {
				return fail("prevote-ghost-degenerate", "prevote-GHOST", obs.ghost, g)
			}
			g = obs.ghost
		case amb:
			// more than total-threshold weight equivocated: several blocks qualify; any maximal one is a GHOST
			c.Count("ambiguous_prevote_ghost_states", 1)
			if !ta.IsMaximalSupermajority(fg.Prevote, obs.ghost) {
				return fail("prevote-ghost-ambiguous", "prevote-GHOST (not a maximal supermajority block)", obs.ghost, g)
			}
			g = obs.ghost
		case obs.ghost != g:
			return fail("prevote-ghost", "prevote-GHOST", obs.ghost, g)
		}
		d := ta.Derive(g)
		c.Eval(3)
		if obs.fin != d.Finalized {
			return fail("finalized", "finalized", obs.fin, d.Finalized)
		}
		if obs.est != d.Estimate {
			return fail("estimate", "estimate", obs.est, d.Estimate)
		}
		if dr := ta.DeriveReferenced(g); dr.Completable != d.Completable {
			// only with more than total-threshold precommit equivocation weight: an unvoted child of the
			// GHOST "could" still be precommitted; the definition is not meaningful there
			c.Count("completable_undecided_states", 1)
		} else if obs.completable != d.Completable {
			w := s.witness(order, step)
			w["prevote_ghost"], w["estimate"], w["finalized"] = name(obs.ghost), name(obs.est), name(obs.fin)
			w["threshold"] = ta.Thr
			c.Violation("completable", fmt.Sprintf("after import %d: completable = %v, definition gives %v",
				step+1, obs.completable, d.Completable), w)
			return false
		}
		if opt.callPG {
			obs.pg = conv(round.PrecommitGHOST())
			pg, amb2 := ta.Ghost(fg.Precommit)
			c.Eval(1)
			if pg >= 0 && ta.EquivWeight(fg.Precommit) >= ta.Thr {
				c.Count("degenerate_precommit_states", 1)
				if obs.pg < 0 {
					return fail("precommit-ghost-degenerate", "precommit-GHOST", obs.pg, pg)
				}
			} else if amb2 {
				c.Count("ambiguous_precommit_ghost_states", 1)
				if !ta.IsMaximalSupermajority(fg.Precommit, obs.pg) {
					return fail("precommit-ghost-ambiguous", "precommit-GHOST (not a maximal supermajority block)", obs.pg, pg)
				}
			} else if obs.pg != pg {
				return fail("precommit-ghost", "precommit-GHOST", obs.pg, pg)
			}
			if pg > 0 {
				c.Count("precommit_ghost_above_base", 1)
			}
		}
		// what was observed
		c.Count("states_compared", 1)
		if g > 0 {
			c.Count("prevote_ghost_above_base", 1)
			direct := false // only the first vote of a voter is inserted into the vote graph
			for ph := 0; ph < 2; ph++ {
				for _, tg := range ta.Single[ph] {
					if tg == g {
						direct = true
					}
				}
			}
			if !direct {
				c.Count("ghost_is_unvoted_merge_point", 1)
			}
		}
		if d.Finalized > 0 {
			c.Count("finalized_above_base", 1)
		}
		if d.Finalized >= 0 && d.Finalized != g {
			c.Count("finalized_below_ghost", 1)
		}
		if d.Estimate >= 0 && d.Estimate != g {
			c.Count("estimate_below_ghost", 1)
		}
		if d.Completable {
			c.Count("completable_true", 1)
			if d.Estimate == g {
				c.Count("completable_at_ghost", 1)
			}
		} else if g >= 0 && ta.Voted(fg.Precommit) >= ta.Thr {
			c.Count("not_completable_with_precommit_supermajority", 1)
		}
		if e := ta.EquivWeight(fg.Precommit); e > ta.Total-ta.Thr && g >= 0 && ta.Voted(fg.Precommit) >= ta.Thr {
			c.Count("states_with_excess_precommit_equivocation", 1)
		}
		return true
	}

	for k, i := range order {
		v := s.votes[i]
		id := "zz-outsider"
		if v.Voter >= 0 {
			id = s.ids[v.Voter]
		}
		h, num := s.hashes[v.Target], N(s.baseNum+uint64(s.depth[v.Target]))
		var valid, dup, equiv bool
		var err error
		if v.Phase == fg.Prevote {
			var ir *importResult[string, Prevote[string, N], string]
			ir, err = round.importPrevote(chain, Prevote[string, N]{TargetHash: h, TargetNumber: num}, id, vSig(id, v.Target))
			if ir != nil {
				valid, dup, equiv = ir.ValidVoter, ir.Duplicated, ir.Equivocation != nil
			}
		} else {
			var ir *importResult[string, Precommit[string, N], string]
			ir, err = round.importPrecommit(chain, Precommit[string, N]{TargetHash: h, TargetNumber: num}, id, vSig(id, v.Target))
			if ir != nil {
				valid, dup, equiv = ir.ValidVoter, ir.Duplicated, ir.Equivocation != nil
			}
		}
		if err != nil {
			c.Violation("import-error", fmt.Sprintf("import %d failed for a vote on a descendant of the base: %v", k+1, err), s.witness(order, k))
			return false
		}
		if valid != (v.Voter >= 0) {
			c.Violation("valid-voter", fmt.Sprintf("import %d: ValidVoter=%v for voter index %d", k+1, valid, v.Voter), s.witness(order, k))
			return false
		}
		if v.Voter >= 0 {
			ta.Add(v.Phase, v.Voter, v.Target, vSig(id, v.Target))
		} else {
			c.Count("votes_from_non_members", 1)
		}
		if dup {
			c.Count("duplicate_votes", 1)
		}
		if equiv {
			c.Count("equivocations_reported", 1)
		}
		if opt.everyStep || k == len(order)-1 {
			if !compare(k) {
				return false
			}
		}
	}
	if len(order) == 0 && !compare(-1) {
		return false
	}
	if chain.ancestryN > 0 {
		c.Count("chain_ancestry_calls", chain.ancestryN)
	}
	return true
}

func vRunN(c *vcommon.Case, s *vScen, order []int, opt vRunOpt, use32 bool) bool {
	if use32 {
		return vRun[uint32](c, s, order, opt)
	}
	return vRun[uint64](c, s, order, opt)
}

// ---------------------------------------------------------------- generators

var vHashAlphabet = "abcdefghijklmnopqrstuvwxyz"

func vNames(r *vcommon.Rand, n int, prefix string) []string {
	seen := map[string]bool{}
	out := make([]string, 0, n)
	for len(out) < n {
		l := r.Range(1, 3)
		b := make([]byte, l)
		for i := range b {
			b[i] = vHashAlphabet[r.Intn(len(vHashAlphabet))]
		}
		s := prefix + string(b)
		if !seen[s] {
			seen[s] = true
			out = append(out, s)
		}
	}
	return out
}

func vRandTree(r *vcommon.Rand, n int) fg.Tree {
	p := make([]int, n)
	p[0] = -1
	style := r.Intn(4)
	for i := 1; i < n; i++ {
		switch style {
		case 0: // uniform recursive tree
			p[i] = r.Intn(i)
		case 1: // long chains with few forks
			if r.Chance(3, 4) {
				p[i] = i - 1
			} else {
				p[i] = r.Intn(i)
			}
		case 2: // bushy near the root
			p[i] = r.Intn((i + 1) / 2)
		default: // two long branches from a common prefix
			if i >= 3 && r.Chance(1, 3) {
				p[i] = i - 2
			} else {
				p[i] = i - 1
			}
		}
	}
	return fg.Tree{Parent: p}
}

func vBaseNum(r *vcommon.Rand, use32 bool) uint64 {
	switch r.Intn(5) {
	case 0:
		return 0
	case 1:
		return 1
	case 2:
		return uint64(r.Range(2, 100000))
	case 3:
		if use32 {
			return 1<<32 - 1 - 20 - uint64(r.Intn(5))
		}
		return 1<<32 - uint64(r.Intn(12)) // numbers straddle 2^32
	default:
		if use32 {
			return 1<<31 - uint64(r.Intn(12))
		}
		return 1<<63 - uint64(r.Intn(12)) // numbers straddle 2^63
	}
}

// vRandVotes: every voter independently: no vote / one vote / duplicates /
// two or three distinct votes (equivocation), per phase.
func vRandVotes(r *vcommon.Rand, t fg.Tree, nv int, focus []int, pNone, pEquiv int) []vVote {
	var out []vVote
	pick := func() int {
		if len(focus) > 0 && r.Chance(3, 4) {
			return vcommon.Pick(r, focus)
		}
		return r.Intn(t.N())
	}
	for v := 0; v < nv; v++ {
		for ph := 0; ph < 2; ph++ {
			x := r.Intn(100)
			switch {
			case x < pNone:
			case x < pNone+pEquiv:
				k := r.Range(2, 3)
				for j := 0; j < k; j++ {
					out = append(out, vVote{ph, v, pick()})
				}
			default:
				tg := pick()
				out = append(out, vVote{ph, v, tg})
				if r.Chance(1, 6) {
					out = append(out, vVote{ph, v, tg}) // duplicate
				}
			}
		}
	}
	return out
}

func vShape(s *vScen) string {
	var sb strings.Builder
	fmt.Fprint(&sb, s.tree.Parent, "|", s.weights, "|")
	vs := make([]string, 0, len(s.votes))
	for _, v := range s.votes {
		vs = append(vs, fmt.Sprintf("%d.%d.%d", v.Phase, v.Voter, v.Target))
	}
	sort.Strings(vs)
	sb.WriteString(strings.Join(vs, ","))
	return sb.String()
}

func vSample(c *vcommon.Case, s *vScen) {
	ta := fg.NewTally(s.tree, s.weights)
	for _, v := range s.votes {
		if v.Voter >= 0 {
			ta.Add(v.Phase, v.Voter, v.Target, fmt.Sprint(v.Target))
		}
	}
	g, amb := ta.Ghost(fg.Prevote)
	d := ta.Derive(g)
	c.Sample(map[string]any{"parents": s.tree.Parent, "weights": s.weights, "threshold": ta.Thr, "votes": len(s.votes),
		"prevote_ghost": g, "ambiguous": amb, "finalized": d.Finalized, "estimate": d.Estimate, "completable": d.Completable})
}

// ---------------------------------------------------------------- exhaustive small scope

// all parent arrays with parent[i] < i
func vAllTrees(n int) []fg.Tree {
	var out []fg.Tree
	p := make([]int, n)
	p[0] = -1
	var rec func(i int)
	rec = func(i int) {
		if i == n {
			out = append(out, fg.Tree{Parent: append([]int(nil), p...)})
			return
		}
		for j := 0; j < i; j++ {
			p[i] = j
			rec(i + 1)
		}
	}
	rec(1)
	return out
}

// one voter's behaviour in one phase: no vote, one vote, or two distinct votes
type vOpt struct{ a, b int } // a=-1: none; b=-1: single

func vOpts(n int) []vOpt {
	out := []vOpt{{-1, -1}}
	for a := 0; a < n; a++ {
		out = append(out, vOpt{a, -1})
	}
	for a := 0; a < n; a++ {
		for b := a + 1; b < n; b++ {
			out = append(out, vOpt{a, b})
		}
	}
	return out
}

type vChunk struct {
	tree   fg.Tree
	voters int
	prefix []int // combined option index (prevote option * |opts| + precommit option) of the first voters, non-decreasing
}

// vExhChunks lists the chunks of an exhaustive scope: for every tree with
// `blocks` blocks and `voters` unit-weight voters, every multiset of voter
// behaviours (voters are interchangeable, so behaviours are enumerated as
// non-decreasing tuples); a chunk fixes the behaviour of voter 0.
func vExhChunks(blocks, voters int) []vChunk {
	var out []vChunk
	no := len(vOpts(blocks))
	for _, t := range vAllTrees(blocks) {
		for f := 0; f < no*no; f++ {
			out = append(out, vChunk{t, voters, []int{f}})
		}
	}
	return out
}

// vSampleChunk draws one chunk of a larger scope: random tree, random
// behaviours for the first voters, all behaviours of the last `free` voters.
func vSampleChunk(r *vcommon.Rand, blocks, voters, free int) vChunk {
	trees := vAllTrees(blocks)
	no := len(vOpts(blocks))
	ch := vChunk{tree: trees[r.Intn(len(trees))], voters: voters}
	for i := 0; i < voters-free; i++ {
		ch.prefix = append(ch.prefix, r.Intn(no*no))
	}
	sort.Ints(ch.prefix)
	return ch
}

func vRunChunk(c *vcommon.Case, ch vChunk, seed uint64) {
	n := ch.tree.N()
	opts := vOpts(n)
	no := len(opts) * len(opts)
	s := &vScen{tree: ch.tree, baseNum: uint64(c.Idx % 3)}
	// hash and id order vary with the chunk (the vote graph and the voter set are ordered by them)
	rr := vcommon.NewRand(seed ^ uint64(c.Idx)*0x9e3779b97f4a7c15)
	s.hashes = vNames(rr, n, "")
	s.ids = vNames(rr, ch.voters, "v")
	s.weights = make([]uint64, ch.voters)
	for i := range s.weights {
		s.weights[i] = 1
	}
	sel := make([]int, ch.voters)
	copy(sel, ch.prefix)
	var count int
	var rec func(i int) bool
	rec = func(i int) bool {
		if i == ch.voters {
			s.votes = s.votes[:0]
			for v, o := range sel {
				for ph, op := range [2]vOpt{opts[o/len(opts)], opts[o%len(opts)]} {
					if op.a >= 0 {
						s.votes = append(s.votes, vVote{ph, v, op.a})
					}
					if op.b >= 0 {
						s.votes = append(s.votes, vVote{ph, v, op.b})
					}
				}
			}
			count++
			var order []int
			if count%2 == 0 {
				order = rr.Perm(len(s.votes))
			} else {
				order = make([]int, len(s.votes))
				for k := range order {
					order[k] = k
				}
				if count%4 == 1 { // reversed: precommits before prevotes, second equivocation vote first
					for a, b := 0, len(order)-1; a < b; a, b = a+1, b-1 {
						order[a], order[b] = order[b], order[a]
					}
				}
			}
			c.Count("exhaustive_assignments", 1)
			return vRunN(c, s, order, vRunOpt{everyStep: count%3 == 0, callPG: true}, count%5 == 0)
		}
		for o := sel[i-1]; o < no; o++ {
			sel[i] = o
			if !rec(i + 1) {
				return false
			}
		}
		return true
	}
	rec(len(ch.prefix))
	c.Distinct(fmt.Sprint("exh", ch.tree.Parent, ch.voters, ch.prefix))
}

// ---------------------------------------------------------------- regression corpus

func vCorpus() []*vScen {
	unit := func(n int) []uint64 {
		w := make([]uint64, n)
		for i := range w {
			w[i] = 1
		}
		return w
	}
	ids := func(n int) []string {
		out := make([]string, n)
		for i := range out {
			out[i] = fmt.Sprintf("v%02d", i)
		}
		return out
	}
	var out []*vScen
	// 0: the three scripted rounds of round_test.go share this tree
	t := fg.Tree{Parent: []int{-1, 0, 1, 2, 3, 4, 5, 2, 7, 8, 9}}
	h := []string{"C", "D", "E", "F", "FA", "FB", "FC", "EA", "EB", "EC", "ED"}
	abe := []string{"Alice", "Bob", "Eve"}
	out = append(out, &vScen{tree: t, hashes: h, baseNum: 4, ids: abe, weights: []uint64{4, 7, 3},
		votes: []vVote{{0, 0, 6}, {0, 1, 10}, {0, 2, 3}}})
	out = append(out, &vScen{tree: t, hashes: h, baseNum: 4, ids: abe, weights: []uint64{4, 7, 3},
		votes: []vVote{{1, 0, 6}, {1, 1, 10}, {0, 0, 6}, {0, 1, 10}, {0, 2, 7}, {1, 2, 7}}})
	out = append(out, &vScen{tree: t, hashes: h, baseNum: 4, ids: abe, weights: []uint64{4, 7, 3},
		votes: []vVote{{0, 2, 6}, {0, 2, 10}, {0, 2, 3}, {0, 1, 4}}})
	// 3: precommit equivocation weight above the tolerated weight (7 unit voters, t=5, tolerated 2):
	// three equivocators + three votes on A; sibling B must not be "possible to precommit"
	t3 := fg.Tree{Parent: []int{-1, 0, 0}}
	var v3 []vVote
	for v := 0; v < 7; v++ {
		v3 = append(v3, vVote{0, v, 1})
	}
	for v := 0; v < 3; v++ {
		v3 = append(v3, vVote{1, v, 1}, vVote{1, v, 2})
	}
	for v := 3; v < 6; v++ {
		v3 = append(v3, vVote{1, v, 1})
	}
	out = append(out, &vScen{tree: t3, hashes: []string{"g", "A", "B"}, baseNum: 1, ids: ids(7), weights: unit(7), votes: v3})
	// 4: same with the prevote GHOST on the fork that cannot be precommitted any more:
	// estimate must fall back to the base
	var v4 []vVote
	for v := 0; v < 7; v++ {
		v4 = append(v4, vVote{0, v, 2})
	}
	v4 = append(v4, v3[7:]...)
	out = append(out, &vScen{tree: t3, hashes: []string{"g", "A", "B"}, baseNum: 1, ids: ids(7), weights: unit(7), votes: v4})
	// 5: GHOST is an unvoted merge point; 40 voters so that bit positions cross the 64-bit word
	t5 := fg.Tree{Parent: []int{-1, 0, 1, 2, 2, 3, 4}}
	var v5 []vVote
	for v := 0; v < 40; v++ {
		v5 = append(v5, vVote{0, v, 5 + v%2}, vVote{1, v, 5 + v%2})
	}
	out = append(out, &vScen{tree: t5, hashes: []string{"r", "m", "x", "q", "b", "z", "a"}, baseNum: 7, ids: ids(40), weights: unit(40), votes: v5})
	return out
}

// ---------------------------------------------------------------- test

func TestVerifC20(t *testing.T) {
	r := vcommon.Start(t, "C20")
	defer r.Finish()
	defer rtdebug.SetGCPercent(rtdebug.SetGCPercent(400)) // allocation-heavy, tiny live heap
	if bad := fg.SelfCheck(); len(bad) > 0 {
		r.Cases("selfcheck", 1, func(c *vcommon.Case) {
			c.Inconclusive("reference Tally failed its self-validation against the repository's scripted rounds: " + strings.Join(bad, ","))
		})
		return
	}
	r.Floor("states_compared", 20000)
	r.Floor("exhaustive_assignments", 10000)
	r.Floor("equivocations_reported", 1000)
	r.Floor("duplicate_votes", 100)
	r.Floor("prevote_ghost_above_base", 1000)
	r.Floor("ghost_is_unvoted_merge_point", 50)
	r.Floor("finalized_above_base", 300)
	r.Floor("finalized_below_ghost", 300)
	r.Floor("estimate_below_ghost", 300)
	r.Floor("completable_at_ghost", 100)
	r.Floor("not_completable_with_precommit_supermajority", 100)
	r.Floor("precommit_ghost_above_base", 300)
	r.Floor("states_with_excess_precommit_equivocation", 20)
	r.Floor("wide_voter_sets", 5)

	corpus := vCorpus()
	r.Fixed("corpus", len(corpus), func(c *vcommon.Case) {
		s := corpus[c.Idx]
		rr := vcommon.NewRand(uint64(c.Idx) + 77)
		id := make([]int, len(s.votes))
		for i := range id {
			id[i] = i
		}
		if len(s.ids) > 32 {
			c.Count("wide_voter_sets", 1)
		}
		ok := vRunN(c, s, id, vRunOpt{everyStep: true, callPG: true}, true) &&
			vRunN(c, s, id, vRunOpt{everyStep: true, callPG: false}, false)
		for k := 0; ok && k < 30; k++ {
			ok = vRunN(c, s, rr.Perm(len(s.votes)), vRunOpt{everyStep: k%2 == 0, callPG: k%3 != 0}, k%2 == 0)
		}
		c.Distinct(vShape(s))
		vSample(c, s)
	})

	// exhaustive small scopes (seed independent except for hash/id names and the shuffled orders)
	type scope struct{ blocks, voters, free int }
	scopes := []scope{{1, 4, 0}, {2, 4, 0}, {3, 3, 0}}
	sampled := []scope{{3, 4, 3}, {4, 3, 2}, {4, 4, 2}, {5, 3, 2}}
	if r.Thorough() {
		scopes = append(scopes, scope{3, 4, 0}, scope{4, 3, 0})
		sampled = []scope{{4, 4, 2}, {5, 3, 2}, {5, 4, 2}}
	}
	var chunks []vChunk
	for _, sc := range scopes {
		chunks = append(chunks, vExhChunks(sc.blocks, sc.voters)...)
	}
	r.Fixed("exhaustive", len(chunks), func(c *vcommon.Case) { vRunChunk(c, chunks[c.Idx], r.Seed) })
	// slices of the next larger scopes: random tree and first voters, all behaviours of the last voters
	r.Cases("exhslice", r.Scale(60), func(c *vcommon.Case) {
		sc := vcommon.Pick(c.R, sampled)
		vRunChunk(c, vSampleChunk(c.R, sc.blocks, sc.voters, sc.free), r.Seed)
	})

	// random weighted scenarios, 20 import orders each
	r.Cases("random", r.Scale(1500), func(c *vcommon.Case) {
		use32 := c.R.Bool()
		n := c.R.Range(1, 12)
		s := &vScen{tree: vRandTree(c.R, n), baseNum: vBaseNum(c.R, use32)}
		s.hashes = vNames(c.R, n, "")
		nv := c.R.Range(1, 7)
		s.ids = vNames(c.R, nv, "")
		for i := 0; i < nv; i++ {
			w := uint64(c.R.Range(1, 4))
			if c.R.Chance(1, 10) {
				w = uint64(c.R.Range(5, 40))
			}
			s.weights = append(s.weights, w)
		}
		var focus []int
		for i := 0; i < c.R.Range(0, 3); i++ {
			focus = append(focus, c.R.Intn(n))
		}
		s.votes = vRandVotes(c.R, s.tree, nv, focus, c.R.Range(0, 25), c.R.Range(0, 30))
		if c.R.Chance(1, 5) {
			s.votes = append(s.votes, vVote{c.R.Intn(2), -1, c.R.Intn(n)})
		}
		for k := 0; k < 20; k++ {
			if !vRunN(c, s, c.R.Perm(len(s.votes)), vRunOpt{everyStep: k%2 == 0, callPG: k%4 != 1}, use32) {
				break
			}
		}
		c.Distinct(vShape(s))
		vSample(c, s)
	})

	// wide voter sets: vote bits beyond the first 64-bit word of the bitfields
	r.Cases("wide", r.Scale(60), func(c *vcommon.Case) {
		use32 := c.R.Bool()
		n := c.R.Range(3, 12)
		s := &vScen{tree: vRandTree(c.R, n), baseNum: vBaseNum(c.R, use32)}
		s.hashes = vNames(c.R, n, "")
		nv := c.R.Range(33, 100)
		s.ids = vNames(c.R, nv, "")
		for i := 0; i < nv; i++ {
			s.weights = append(s.weights, uint64(c.R.Range(1, 2)))
		}
		focus := []int{c.R.Intn(n), c.R.Intn(n)}
		s.votes = vRandVotes(c.R, s.tree, nv, focus, c.R.Range(0, 15), c.R.Range(0, 12))
		c.Count("wide_voter_sets", 1)
		for k := 0; k < 4; k++ {
			if !vRunN(c, s, c.R.Perm(len(s.votes)), vRunOpt{everyStep: k == 0, callPG: k != 1}, use32) {
				break
			}
		}
		c.Distinct(vShape(s))
	})
}
