//go:build verif

// C19, scenario family "bushy": precommit-GHOST computation on trees with two or three levels of forking below a
// common stem and WEIGHTED voters, where the GHOST is (mostly) a merge point nobody voted for directly and the
// thresholds are only met by summing several sub-forks. Every scenario is verified for the true GHOST (must be
// accepted), its parent and each of its children (must be rejected), in all permutations of the precommits (<= 5
// precommits) or >= 40 random orders, with both number widths and with several block-hash assignments (the real
// vote graph keeps sibling blocks sorted by hash, so hash order decides which code path a precommit order takes).
// The oracle is the same brute-force Tally as for the other groups.
package fgjust

import (
	"fmt"
	"sort"

	"github.com/ChainSafe/gossamer/zz_verif/fg"
	"github.com/ChainSafe/gossamer/zz_verif/vcommon"
)

// genBushy returns the scenario and the block the generator aimed at as the GHOST.
func genBushy(r *vcommon.Rand) (*jScen, int) {
	s := &jScen{RootNum: rootNum(r), Round: uint64(r.Range(0, 5)), SetID: uint64(r.Range(0, 3))}
	if r.Chance(1, 10) {
		s.Only64 = true
		s.RootNum = []uint64{1<<32 - uint64(r.Intn(6)), 1<<63 - uint64(r.Intn(6)), 1<<40 + uint64(r.Intn(1<<20))}[r.Intn(3)]
	}
	// ---- tree: stem, then 2-3 consecutive heights with fan-out 2-3, a few tails
	stem := r.Range(1, 3)
	p := []int{-1}
	for i := 1; i < stem; i++ {
		p = append(p, i-1)
	}
	levels := 2
	if r.Chance(5, 6) {
		levels = 3
	}
	cur := []int{stem - 1}
	var byLevel [][]int
	for l := 0; l < levels; l++ {
		var next []int
		for _, x := range cur {
			f := r.Range(2, 3)
			if l > 0 && r.Chance(1, 7) {
				f = 1
			} else if l == levels-1 && l > 0 && r.Chance(1, 7) {
				f = 0
			}
			for k := 0; k < f; k++ {
				p = append(p, x)
				next = append(next, len(p)-1)
			}
		}
		byLevel = append(byLevel, next)
		cur = next
	}
	for _, lf := range cur {
		if r.Chance(1, 5) {
			p = append(p, lf)
			if r.Chance(1, 3) {
				p = append(p, len(p)-1)
			}
		}
	}
	s.Parents = p
	s.init()
	ch := s.tree.Children()

	// ---- voters: 4-7 keys, weights 1..3, sometimes listed several times
	nk := r.Range(4, 7)
	for k := 0; k < nk; k++ {
		s.Auth = append(s.Auth, jAuth{k, uint64(r.Range(1, 3))})
	}
	if r.Chance(1, 3) {
		for i := r.Range(1, 2); i > 0; i-- {
			s.Auth = append(s.Auth, jAuth{r.Intn(nk), uint64(r.Range(1, 2))})
		}
		pm := r.Perm(len(s.Auth))
		sh := make([]jAuth, len(s.Auth))
		for i, j := range pm {
			sh[i] = s.Auth[j]
		}
		s.Auth = sh
	}
	mw := s.memberWeights(false)

	// ---- the block aimed at: a block with forks below it (and, mostly, sibling forks beside it)
	G := stem - 1
	switch x := r.Intn(10); {
	case x < 7:
		G = vcommon.Pick(r, byLevel[0])
	case levels == 3 && x < 9 && len(byLevel[1]) > 0:
		G = vcommon.Pick(r, byLevel[1])
	}
	kids := ch[G]
	heavy := -1
	if len(kids) > 0 {
		heavy = vcommon.Pick(r, kids)
		for try := 0; try < 3 && len(ch[heavy]) < 2; try++ {
			heavy = vcommon.Pick(r, kids)
		}
	}
	var outside []int // blocks neither below G nor on the way to it
	for b := 0; b < s.tree.N(); b++ {
		if !s.tree.IsAncOrEq(G, b) && !s.tree.IsAncOrEq(b, G) {
			outside = append(outside, b)
		}
	}
	below := func(b int) int { return vcommon.Pick(r, s.subtree(b)) } // b itself, an inner block or a leaf below it

	// ---- precommits: a light voter on the stem (the round base), a few voters on other forks as long as the rest
	// still reaches the threshold below G, then as many voters as stay below the threshold on different sub-forks of
	// one child of G and the others below its other children: G reaches the threshold only as the sum of its forks
	thr := fg.Threshold(s.totalWeight())
	keys := r.Perm(nk)
	if !r.Chance(1, 4) {
		sort.SliceStable(keys, func(a, b int) bool { return mw[keys[a]] < mw[keys[b]] }) // lightest first
	}
	var left uint64
	for _, k := range keys {
		left += mw[k]
	}
	ki := 0
	if !r.Chance(1, 14) {
		s.PCs = append(s.PCs, jPC{keys[ki], r.Intn(stem), sigGood})
		left -= mw[keys[ki]]
		ki++
	}
	if len(outside) > 0 {
		for n := []int{0, 1, 1, 1, 2, 2}[r.Intn(6)]; n > 0 && ki < nk-2; n-- {
			if left-mw[keys[ki]] < thr && !r.Chance(1, 10) {
				break
			}
			s.PCs = append(s.PCs, jPC{keys[ki], vcommon.Pick(r, outside), sigGood})
			left -= mw[keys[ki]]
			ki++
		}
	}
	rest := append([]int(nil), keys[ki:]...)
	for i, j := range r.Perm(len(rest)) {
		if i < j {
			rest[i], rest[j] = rest[j], rest[i]
		}
	}
	var inHeavy uint64
	nextFork := r.Intn(4)
	for i, k := range rest {
		tg := G
		switch x := r.Intn(100); {
		case heavy < 0 || x >= 94:
			switch {
			case x >= 98:
				tg = r.Intn(s.tree.N())
			case x >= 96:
				continue // absent voter
			}
		case inHeavy+mw[k] < thr && i < len(rest)-1 && x < 85:
			// walk the sub-forks of the heavy child in turn so that several vote-nodes hang below it
			tg = heavy
			if hk := ch[heavy]; len(hk) > 0 && !r.Chance(1, 12) {
				tg = below(hk[nextFork%len(hk)])
				if r.Chance(2, 3) {
					nextFork++
				}
			}
			inHeavy += mw[k]
		default:
			o := vcommon.Pick(r, kids)
			for try := 0; try < 4 && o == heavy; try++ {
				o = vcommon.Pick(r, kids)
			}
			tg = below(o)
		}
		s.PCs = append(s.PCs, jPC{k, tg, sigGood})
	}
	if len(s.PCs) > 0 {
		switch r.Intn(24) {
		case 0: // equivocation
			s.PCs = append(s.PCs, jPC{vcommon.Pick(r, s.PCs).Key, r.Intn(s.tree.N()), sigGood})
		case 1: // exact duplicate
			s.PCs = append(s.PCs, vcommon.Pick(r, s.PCs))
		}
	}
	pm := r.Perm(len(s.PCs))
	sh := make([]jPC, len(s.PCs))
	for i, j := range pm {
		sh[i] = s.PCs[j]
	}
	s.PCs = sh
	s.Headers = s.exactHeaders()
	s.Target = G
	return s, G
}

// ghost is the reference precommit GHOST of the scenario (-1 with the reason when there is none or it is not unique).
func (s *jScen) ghost() (int, jVerdict) {
	sv := *s
	sv.NumOff = 0
	mw, tw := s.memberWeights(false), s.totalWeight()
	var v jVerdict
	for cand := 0; cand < s.tree.N(); cand++ {
		sv.Target = cand
		v = sv.commitVerdict(s.PCs, mw, tw)
		if v.ok {
			return cand, v
		}
		if v.reason != "ghost-is-not-the-target" {
			break
		}
	}
	return -1, v
}

func allPerms(n int) [][]int {
	var out [][]int
	cur := make([]int, 0, n)
	used := make([]bool, n)
	var rec func()
	rec = func() {
		if len(cur) == n {
			out = append(out, append([]int(nil), cur...))
			return
		}
		for i := 0; i < n; i++ {
			if !used[i] {
				used[i] = true
				cur = append(cur, i)
				rec()
				cur = cur[:len(cur)-1]
				used[i] = false
			}
		}
	}
	rec()
	return out
}

const bushyRandomOrders = 40

// checkBushy verifies scenario s for the true GHOST, its parent and its children (without a GHOST: for the block
// aimed at and its neighbours), per hash salt, in many precommit orders.
func checkBushy(c *vcommon.Case, s *jScen, aim int, salts []int, nJust int) {
	s.init()
	ch := s.tree.Children()
	mw := s.memberWeights(false)
	g, gv := s.ghost()

	// ---- shape of the scenario as the monitor sees it
	voteNodes := map[int]bool{}
	for _, pc := range s.PCs {
		if mw[pc.Key] > 0 {
			voteNodes[pc.Target] = true
		}
	}
	under := func(b int) (nodes int, weight uint64) { // vote-nodes in the subtree of b, weight of the voters there
		ks := map[int]bool{}
		for t := range voteNodes {
			if s.tree.IsAncOrEq(b, t) {
				nodes++
			}
		}
		for _, pc := range s.PCs {
			if mw[pc.Key] > 0 && s.tree.IsAncOrEq(b, pc.Target) && !ks[pc.Key] {
				ks[pc.Key] = true
				weight += mw[pc.Key]
			}
		}
		return
	}
	center := g
	if g < 0 {
		center = aim
		c.Count("bushy_scenarios_without_unique_ghost:"+gv.reason, 1)
	} else {
		c.Count("bushy_scenarios_with_ghost", 1)
		votedKids, maxNodes, shared := 0, 0, false
		for _, k := range ch[g] {
			n, w := under(k)
			if n > 0 {
				votedKids++
			}
			if n > maxNodes {
				maxNodes = n
			}
			if n >= 2 && w < fg.Threshold(s.totalWeight()) {
				shared = true // two vote-nodes share a child of the GHOST that is below the threshold on its own
			}
		}
		belowGhost, _ := under(g)
		switch {
		case voteNodes[g]:
			c.Count("bushy_ghost_voted_directly", 1)
		case votedKids < 2:
			c.Count("bushy_ghost_unvoted_single_branch", 1)
		default:
			c.Count("bushy_ghost_unvoted_merge_point", 1)
			if belowGhost >= 3 && shared {
				c.Count("bushy_ghost_unvoted_merge_point_3_votenodes_below_2_sharing_a_subthreshold_child", 1)
			}
			if maxNodes >= 3 {
				c.Count("bushy_ghost_unvoted_merge_point_3_votenodes_below_one_child", 1)
			}
			if g > 0 {
				all, _ := under(s.tree.Parent[g])
				own, _ := under(g)
				if voteNodes[s.tree.Parent[g]] {
					all--
				}
				if all > own { // a vote-node on a sibling fork of the GHOST
					c.Count("bushy_ghost_unvoted_merge_point_with_voted_sibling_fork", 1)
				}
			}
		}
		seen := map[int]bool{}
		for _, a := range s.Auth {
			if seen[a.Key] {
				c.Count("bushy_scenarios_with_ghost_and_repeated_voter", 1)
				break
			}
			seen[a.Key] = true
		}
		c.Distinct(fmt.Sprint(s.Parents, s.Auth, s.PCs))
	}

	// ---- targets
	targets := []int{center}
	if center > 0 {
		targets = append(targets, s.tree.Parent[center])
	}
	targets = append(targets, ch[center]...)

	// ---- orders
	var orders [][]int
	if n := len(s.PCs); n <= 5 {
		orders = allPerms(n)
		for i, j := range c.R.Perm(len(orders)) { // level B takes the first few: make them a random sample
			if i < j {
				orders[i], orders[j] = orders[j], orders[i]
			}
		}
		c.Count("bushy_scenarios_all_permutations", 1)
	} else {
		for i := 0; i < bushyRandomOrders; i++ {
			orders = append(orders, c.R.Perm(n))
		}
		orders = append(orders, identity(n), reversed(n), s.descending())
		c.Count("bushy_scenarios_40_random_orders", 1)
	}
	c.Count("bushy_precommit_orders_evaluated(scenario x hash assignment x target)", len(orders)*len(salts)*len(targets))
	c.Count("bushy_hash_assignments", len(salts))

	for _, salt := range salts {
		ghostAccepted := false
		for ti, t := range targets {
			sv := *s
			sv.Salt, sv.Target = salt, t
			// the signed-justification level is slow (SCALE decoding): nJust orders for the GHOST and for the children
			// that carry votes, one order for the parent and the children without votes
			nj := nJust
			if n, _ := under(t); ti > 0 && (n == 0 || t == s.tree.Parent[center]) && nj > 1 {
				nj = 1
			}
			cv, silent := checkScenOrders(c, &sv, orders, nj, "bushy_")
			if !silent {
				return
			}
			if g < 0 || cv.ambiguous {
				continue
			}
			switch {
			case ti == 0:
				ghostAccepted = cv.ok
				if !cv.ok { // the model contradicts itself
					c.Inconclusive("reference GHOST is not a valid commit target: " + cv.reason)
					return
				}
				c.Count("bushy_verdicts_true_ghost_accepted", 1)
			case t == s.tree.Parent[g]:
				c.Count("bushy_verdicts_parent_of_ghost_rejected", 1)
			default:
				if n, w := under(t); n > 0 && ghostAccepted {
					c.Count("bushy_verdict_pairs(true GHOST accepted, under-weight child rejected)", 1)
					if 2*w >= s.totalWeight() {
						c.Count("bushy_verdict_pairs_child_with_half_the_weight_or_more", 1)
					}
				} else {
					c.Count("bushy_verdicts_unvoted_child_rejected", 1)
				}
			}
		}
	}
}

// bushyCorpus: fixed scenarios of the family.
func bushyCorpus() []*jScen {
	w := []jAuth{{0, 1}, {1, 2}, {2, 2}, {3, 2}, {4, 1}}
	return []*jScen{
		// 0: 5 voters 1,2,2,2,1 (threshold 6 of 8).
		//   h1(0) - h2(1) - P(2) - P2(3)              <- voter 0 (1)
		//     ^        \
		//     |         `- Q(4) - R1(5) - S1(7)       <- voter 1 (2)
		//  voter 4 (1)        \       `-- S2(8)       <- voter 2 (2)
		//                      `- R2(6)               <- voter 3 (2)
		// Q carries 6: the GHOST, a merge point without a vote; R1 carries 4 and must be rejected.
		{Parents: []int{-1, 0, 1, 2, 1, 4, 4, 5, 5}, RootNum: 1, Auth: w, Round: 9, SetID: 2, Target: 4,
			PCs: []jPC{{0, 3, 0}, {1, 7, 0}, {2, 8, 0}, {3, 6, 0}, {4, 0, 0}}, Headers: []int{1, 2, 3, 4, 5, 6, 7, 8}},
		// 1: the same shape with the block indexes of the two forks at #3 exchanged (the heavy fork first)
		{Parents: []int{-1, 0, 1, 2, 2, 3, 3, 1, 7}, RootNum: 1, Auth: w, Round: 9, SetID: 2, Target: 2,
			PCs: []jPC{{0, 8, 0}, {1, 5, 0}, {2, 6, 0}, {3, 4, 0}, {4, 0, 0}}, Headers: []int{1, 2, 3, 4, 5, 6, 7, 8}},
		// 2: shape 0 around 2^31 with voter 1 listed twice (1+1)
		{Parents: []int{-1, 0, 1, 2, 1, 4, 4, 5, 5}, RootNum: 1<<31 - 3, Round: 1, SetID: 0, Target: 4,
			Auth: []jAuth{{0, 1}, {1, 1}, {2, 2}, {3, 2}, {4, 1}, {1, 1}},
			PCs:  []jPC{{4, 0, 0}, {3, 6, 0}, {2, 8, 0}, {1, 7, 0}, {0, 3, 0}}, Headers: []int{1, 2, 3, 4, 5, 6, 7, 8}},
		// 3: three forks at #3 and three below R1, 6 voters 1,2,1,2,1,2 (threshold 7 of 9): Q carries 7 (1+2+2 below R1, 2 on R2)
		//   0 - 1 - {2 - 3 | 4(Q) - {5(R1) - {7, 8, 9} | 6(R2)} | 10}
		{Parents: []int{-1, 0, 1, 2, 1, 4, 4, 5, 5, 5, 1}, RootNum: 70, Round: 2, SetID: 1, Target: 4,
			Auth: []jAuth{{0, 1}, {1, 2}, {2, 1}, {3, 2}, {4, 1}, {5, 2}},
			PCs:  []jPC{{0, 3, 0}, {4, 0, 0}, {2, 7, 0}, {1, 8, 0}, {3, 9, 0}, {5, 6, 0}}, Headers: []int{1, 2, 3, 4, 5, 6, 7, 8, 9}},
	}
}
