//go:build verif

// C19 monitor: generated GRANDPA commits / justifications (valid ones and
// single- or double-fault mutations of them) are pushed through the real
// finality-grandpa ValidateCommit and the real client justification
// verification (DecodeGrandpaJustificationVerifyFinalizes, Verify) in several
// precommit orders and with 32- and 64-bit block numbers; every verdict is
// compared with a verdict computed from the definitions over the explicit
// block tree (zz_verif/fg Tally), real ed25519 signatures and real headers.
package fgjust

import (
	"fmt"
	"math"
	"runtime/debug"
	"sort"
	"strings"
	"testing"

	cgrandpa "github.com/ChainSafe/gossamer/internal/client/consensus/grandpa"
	primitives "github.com/ChainSafe/gossamer/internal/primitives/consensus/grandpa"
	ced25519 "github.com/ChainSafe/gossamer/internal/primitives/core/ed25519"
	"github.com/ChainSafe/gossamer/internal/primitives/core/hash"
	"github.com/ChainSafe/gossamer/internal/primitives/runtime"
	"github.com/ChainSafe/gossamer/internal/primitives/runtime/generic"
	grandpa "github.com/ChainSafe/gossamer/pkg/finality-grandpa"
	"github.com/ChainSafe/gossamer/pkg/scale"
	"github.com/ChainSafe/gossamer/zz_verif/fg"
	"github.com/ChainSafe/gossamer/zz_verif/vcommon"
)

// ---------------------------------------------------------------- scenario

type jAuth struct {
	Key    int    `json:"key"`
	Weight uint64 `json:"weight"`
}

// signature faults
const (
	sigGood = iota
	sigWrongRound
	sigWrongSet
	sigOtherKey
	sigBitFlip
	sigOtherNumber
)

type jPC struct {
	Key    int `json:"key"`    // key index; a key without positive summed weight in the authority list is not a member
	Target int `json:"target"` // block index
	Bad    int `json:"bad"`    // signature fault (justification level only)
}

type jScen struct {
	Parents   []int   `json:"parents"`
	RootNum   uint64  `json:"root_number"`
	Auth      []jAuth `json:"authority_list"` // may list a key several times (weights are summed) or with weight 0
	PCs       []jPC   `json:"precommits"`
	Target    int     `json:"commit_target"`
	NumOff    int     `json:"commit_target_number_offset"` // 0 = the target's true number
	Headers   []int   `json:"ancestry_headers"`            // block indexes; -1-k = header k of a block outside the tree
	Round     uint64  `json:"round"`
	SetID     uint64  `json:"set_id"`
	OtherFin  bool    `json:"caller_expects_other_target"`
	Only64    bool    `json:"numbers_need_64_bits"`
	Mutations string  `json:"mutations"`
	Salt      int     `json:"hash_salt"` // varies the block hashes (and so their sort order) without changing the tree; 0 = the original names

	tree fg.Tree
	info *fg.TreeInfo
}

func (s *jScen) num(b int) uint64 { return s.RootNum + uint64(s.tree.Depth(b)) }

// summed weight per key
func (s *jScen) memberWeights(overwrite bool) map[int]uint64 {
	m := map[int]uint64{}
	for _, a := range s.Auth {
		if a.Weight == 0 {
			continue
		}
		if overwrite {
			m[a.Key] = a.Weight
		} else {
			m[a.Key] += a.Weight
		}
	}
	return m
}

func (s *jScen) totalWeight() uint64 {
	var t uint64
	for _, a := range s.Auth {
		t += a.Weight
	}
	return t
}

// ---------------------------------------------------------------- oracle

type jVerdict struct {
	ok        bool
	reason    string
	ambiguous bool // GHOST not unique (equivocators above the tolerated weight): no verdict is asserted
}

func (s *jScen) known() map[int]bool {
	k := map[int]bool{}
	for _, h := range s.Headers {
		if h >= 0 {
			k[h] = true
		}
	}
	return k
}

// route walks from block x up to base through supplied headers only. It
// returns the visited blocks (x included, base excluded).
func (s *jScen) route(known map[int]bool, base, x int) ([]int, bool) {
	var out []int
	for x != base {
		if x < 0 || !known[x] {
			return nil, false
		}
		out = append(out, x)
		x = s.tree.Parent[x]
	}
	return out, true
}

// commitVerdict: the definition of a valid commit over precommits pcs, with
// member weights mw (total weight tw): base = lowest precommit of a member,
// every member precommit descends from base (through supplied headers), the
// precommit-GHOST from base exists and is the commit target.
func (s *jScen) commitVerdict(pcs []jPC, mw map[int]uint64, tw uint64) jVerdict {
	known := s.known()
	var keys []int
	for k := range mw {
		keys = append(keys, k)
	}
	sort.Ints(keys)
	idx := map[int]int{}
	w := make([]uint64, len(keys))
	for i, k := range keys {
		idx[k] = i
		w[i] = mw[k]
	}
	base := -1
	for _, pc := range pcs {
		if _, m := idx[pc.Key]; !m {
			continue
		}
		if base < 0 || s.num(pc.Target) < s.num(base) {
			base = pc.Target
		}
	}
	if base < 0 {
		return jVerdict{reason: "no-precommit-from-a-member"}
	}
	ta := fg.NewTallyInfo(s.info, w)
	ta.Total, ta.Thr = tw, fg.Threshold(tw)
	for _, pc := range pcs {
		v, m := idx[pc.Key]
		if !m {
			continue
		}
		if _, ok := s.route(known, base, pc.Target); !ok {
			return jVerdict{reason: "precommit-not-connected-to-base"}
		}
		ta.Add(fg.Precommit, v, pc.Target, fmt.Sprint(pc.Target, "/", pc.Bad))
	}
	g, amb := ta.GhostFrom(fg.Precommit, base)
	if g < 0 {
		return jVerdict{reason: "no-supermajority"}
	}
	if amb || ta.EquivWeight(fg.Precommit) >= ta.Thr {
		return jVerdict{ambiguous: true, reason: "ghost-not-unique"}
	}
	if g != s.Target {
		return jVerdict{reason: "ghost-is-not-the-target"}
	}
	if s.NumOff != 0 {
		return jVerdict{reason: "wrong-target-number"}
	}
	return jVerdict{ok: true, reason: "valid"}
}

// justVerdict: commit valid, signatures valid, every precommit routed to the
// lowest one through the supplied headers, no header unused. strict = every
// listed precommit (also of non-members) must be signed and routed, as
// Substrate does; lenient = precommits of non-members and with bad signatures
// are simply not counted. Where the two readings differ the property text
// does not decide and no verdict is asserted.
func (s *jScen) justVerdict(strict bool, mw map[int]uint64, tw uint64) jVerdict {
	if s.OtherFin {
		return jVerdict{reason: "not-the-expected-target"}
	}
	pcs := s.PCs
	if !strict {
		pcs = nil
		for _, pc := range s.PCs {
			if mw[pc.Key] > 0 && pc.Bad == sigGood {
				pcs = append(pcs, pc)
			}
		}
	}
	cv := s.commitVerdict(pcs, mw, tw)
	if !cv.ok {
		return cv
	}
	base := -1
	for _, pc := range pcs {
		if pc.Bad != sigGood {
			return jVerdict{reason: "bad-signature"}
		}
		if base < 0 || s.num(pc.Target) < s.num(base) {
			base = pc.Target
		}
	}
	known := s.known()
	visited := map[int]bool{}
	for _, pc := range pcs {
		rt, ok := s.route(known, base, pc.Target)
		if !ok {
			return jVerdict{reason: "precommit-not-routed-to-base"}
		}
		for _, b := range rt {
			visited[b] = true
		}
	}
	for _, h := range s.Headers {
		if h < 0 || !visited[h] {
			return jVerdict{reason: "unused-header"}
		}
	}
	return jVerdict{ok: true, reason: "valid"}
}

// ---------------------------------------------------------------- level A: ValidateCommit

type sChain[N runtime.Number] struct {
	parent map[string]string // only for blocks whose header is supplied
}

func (c sChain[N]) Ancestry(base, block string) ([]string, error) {
	var out []string
	for block != base {
		p, ok := c.parent[block]
		if !ok {
			return nil, fmt.Errorf("not a descendant")
		}
		block = p
		out = append(out, p)
	}
	if len(out) > 0 {
		out = out[:len(out)-1]
	}
	return out, nil
}

func (c sChain[N]) IsEqualOrDescendantOf(base, block string) bool {
	_, err := c.Ancestry(base, block)
	return err == nil
}

// bname is the level-A "hash" of block b. The two-digit prefix decides the sort order of sibling blocks inside the
// vote graph; a non-zero salt reshuffles it.
func (s *jScen) bname(b int) string {
	x := (b*7 + 3) % 64
	if s.Salt != 0 {
		h := uint64(s.Salt)*0x9E3779B97F4A7C15 + uint64(b+1)*0xBF58476D1CE4E5B9
		h ^= h >> 29
		h *= 0x94D049BB133111EB
		h ^= h >> 32
		x = int(h % 100)
	}
	return fmt.Sprintf("blk%02d", x) + fmt.Sprint(b)
}
func kname(k int) string { return fmt.Sprintf("id%02d", (k*5+2)%16) + fmt.Sprint(k) }

func voterSetOf(s *jScen, authOrder []int) *grandpa.VoterSet[string] {
	var iw []grandpa.IDWeight[string]
	for _, i := range authOrder {
		a := s.Auth[i]
		iw = append(iw, grandpa.IDWeight[string]{ID: kname(a.Key), Weight: a.Weight})
	}
	return grandpa.NewVoterSet(iw)
}

func runCommit[N runtime.Number](s *jScen, order, authOrder []int) (valid bool, err error, nilSet bool) {
	vs := voterSetOf(s, authOrder)
	if vs == nil {
		return false, nil, true
	}
	ch := sChain[N]{parent: map[string]string{}}
	for _, h := range s.Headers {
		if h > 0 {
			ch.parent[s.bname(h)] = s.bname(s.tree.Parent[h])
		} else if h == 0 {
			ch.parent[s.bname(0)] = "parent-of-root"
		}
	}
	commit := grandpa.Commit[string, N, string, string]{
		TargetHash:   s.bname(s.Target),
		TargetNumber: N(int64(s.num(s.Target)) + int64(s.NumOff)),
	}
	for _, i := range order {
		pc := s.PCs[i]
		commit.Precommits = append(commit.Precommits, grandpa.SignedPrecommit[string, N, string, string]{
			Precommit: grandpa.Precommit[string, N]{TargetHash: s.bname(pc.Target), TargetNumber: N(s.num(pc.Target))},
			Signature: fmt.Sprintf("sig/%d/%d/%d", pc.Key, pc.Target, pc.Bad),
			ID:        kname(pc.Key),
		})
	}
	res, err := grandpa.ValidateCommit[string, N, string, string](commit, *vs, ch)
	return err == nil && res.Valid(), err, false
}

// ---------------------------------------------------------------- level B: justification

var jPairs = func() []ced25519.Pair {
	var out []ced25519.Pair
	for i := 0; i < 12; i++ {
		var seed [32]byte
		for j := range seed {
			seed[j] = byte(i*31 + j*7 + 1)
		}
		out = append(out, ced25519.NewPairFromSeed(seed))
	}
	return out
}()

func jPub(k int) ced25519.Public { return jPairs[k].Public().(ced25519.Public) }

type jBuilt[N runtime.Number] struct {
	hashes  []hash.H256
	headers []runtime.Header[N, hash.H256] // per block
	aliens  []runtime.Header[N, hash.H256]
	pcs     []grandpa.SignedPrecommit[hash.H256, N, primitives.AuthoritySignature, primitives.AuthorityID]
}

func h32(tag byte, i int) hash.H256 {
	b := make([]byte, 32)
	b[0], b[1], b[2] = tag, byte(i), byte(i>>8)
	b[31] = 0x5a
	return hash.H256(b)
}

func build[N runtime.Number](s *jScen) *jBuilt[N] {
	b := &jBuilt[N]{hashes: make([]hash.H256, s.tree.N()), headers: make([]runtime.Header[N, hash.H256], s.tree.N())}
	for i := 0; i < s.tree.N(); i++ {
		parent := h32(0xee, 0)
		if i > 0 {
			parent = b.hashes[s.tree.Parent[i]]
		}
		xr := []byte(h32(0xa1, i))
		xr[3], xr[4] = byte(s.Salt), byte(s.Salt>>8) // the salt changes this block's hash and every hash below it
		xroot := hash.H256(xr)
		hd := generic.NewHeader[N, hash.H256, runtime.BlakeTwo256](N(s.num(i)), xroot, h32(0xb2, i), parent, runtime.Digest{})
		b.headers[i] = hd
		b.hashes[i] = hd.Hash()
	}
	for k := 0; k < 3; k++ {
		b.aliens = append(b.aliens, generic.NewHeader[N, hash.H256, runtime.BlakeTwo256](N(s.RootNum+1), h32(0xc3, k), h32(0xd4, k), h32(0xef, k), runtime.Digest{}))
	}
	for _, pc := range s.PCs {
		p := grandpa.Precommit[hash.H256, N]{TargetHash: b.hashes[pc.Target], TargetNumber: N(s.num(pc.Target))}
		round, set, signer, signed := s.Round, s.SetID, pc.Key, p
		switch pc.Bad {
		case sigWrongRound:
			round++
		case sigWrongSet:
			set++
		case sigOtherKey:
			signer = (pc.Key + 1) % len(jPairs)
		case sigOtherNumber:
			signed.TargetNumber++
		}
		payload := primitives.NewLocalizedPayload(primitives.RoundNumber(round), primitives.SetID(set), grandpa.NewMessage(signed))
		sig := jPairs[signer].Sign(payload)
		if pc.Bad == sigBitFlip {
			sig[17] ^= 0x04
		}
		b.pcs = append(b.pcs, grandpa.SignedPrecommit[hash.H256, N, primitives.AuthoritySignature, primitives.AuthorityID]{
			Precommit: p, Signature: sig, ID: jPub(pc.Key),
		})
	}
	return b
}

func (b *jBuilt[N]) justification(s *jScen, order, hdrOrder []int) primitives.GrandpaJustification[hash.H256, N] {
	j := primitives.GrandpaJustification[hash.H256, N]{
		Round: s.Round,
		Commit: primitives.Commit[hash.H256, N]{
			TargetHash:   b.hashes[s.Target],
			TargetNumber: N(int64(s.num(s.Target)) + int64(s.NumOff)),
		},
		VoteAncestries: []runtime.Header[N, hash.H256]{},
	}
	for _, i := range order {
		j.Commit.Precommits = append(j.Commit.Precommits, b.pcs[i])
	}
	for _, i := range hdrOrder {
		h := s.Headers[i]
		if h >= 0 {
			j.VoteAncestries = append(j.VoteAncestries, b.headers[h])
		} else {
			j.VoteAncestries = append(j.VoteAncestries, b.aliens[(-1-h)%len(b.aliens)])
		}
	}
	return j
}

// runJust returns the verdicts of the two entry points: decode+verify-finalizes with a VoterSet, and
// Verify with an AuthorityList.
func runJust[N runtime.Number](s *jScen, b *jBuilt[N], order, hdrOrder, authOrder []int) (okDecode, okVerify bool, errs [2]error, nilSet bool) {
	j := b.justification(s, order, hdrOrder)
	enc, err := scale.Marshal(j)
	if err != nil {
		return false, false, [2]error{err, err}, false
	}
	var iw []grandpa.IDWeight[string]
	var auths primitives.AuthorityList
	for _, i := range authOrder {
		a := s.Auth[i]
		pub := jPub(a.Key)
		iw = append(iw, grandpa.IDWeight[string]{ID: string(pub[:]), Weight: a.Weight})
		auths = append(auths, primitives.AuthorityIDWeight{AuthorityID: pub, AuthorityWeight: primitives.AuthorityWeight(a.Weight)})
	}
	vs := grandpa.NewVoterSet(iw)
	if vs == nil {
		return false, false, errs, true
	}
	fin := cgrandpa.HashNumber[hash.H256, N]{Hash: j.Commit.TargetHash, Number: j.Commit.TargetNumber}
	if s.OtherFin {
		fin.Hash = b.hashes[(s.Target+1)%len(b.hashes)]
		if len(b.hashes) == 1 {
			fin.Number++
		}
	}
	_, e1 := cgrandpa.DecodeGrandpaJustificationVerifyFinalizes[hash.H256, N, runtime.BlakeTwo256](enc, fin, s.SetID, *vs)
	var e2 error
	dec, err := cgrandpa.DecodeJustification[hash.H256, N, runtime.BlakeTwo256](enc)
	if err != nil {
		e2 = err
	} else {
		e2 = dec.Verify(s.SetID, auths)
	}
	return e1 == nil, e2 == nil, [2]error{e1, e2}, false
}

// ---------------------------------------------------------------- generator

func randTree(r *vcommon.Rand, n int) fg.Tree {
	p := make([]int, n)
	p[0] = -1
	style := r.Intn(3)
	for i := 1; i < n; i++ {
		switch style {
		case 0:
			p[i] = r.Intn(i)
		case 1:
			if r.Chance(3, 4) {
				p[i] = i - 1
			} else {
				p[i] = r.Intn(i)
			}
		default:
			if i >= 3 && r.Chance(1, 3) {
				p[i] = i - 2
			} else {
				p[i] = i - 1
			}
		}
	}
	return fg.Tree{Parent: p}
}

func rootNum(r *vcommon.Rand) uint64 {
	switch r.Intn(6) {
	case 0:
		return uint64(r.Intn(3))
	case 1:
		return uint64(r.Range(3, 300))
	case 2:
		return uint64(r.Range(60000, 70000)) // compact-encoding mode boundary 2^14..2^16
	case 3:
		return 1<<31 - uint64(r.Intn(8)) // straddles the sign bit of a 32-bit difference
	case 4:
		return 1<<30 - uint64(r.Intn(8)) // straddles the 4-byte compact mode boundary
	default:
		return math.MaxUint32 - 12 - uint64(r.Intn(4))
	}
}

// exactHeaders: the headers of every block on a route from a precommit target to the lowest precommit.
func (s *jScen) exactHeaders() []int {
	base := -1
	for _, pc := range s.PCs {
		if base < 0 || s.num(pc.Target) < s.num(base) {
			base = pc.Target
		}
	}
	seen := map[int]bool{}
	var out []int
	for _, pc := range s.PCs {
		for x := pc.Target; x >= 0 && x != base; x = s.tree.Parent[x] {
			if s.tree.Depth(x) <= s.tree.Depth(base) {
				break // not a descendant of base: no finite route; leave it unconnected
			}
			if !seen[x] {
				seen[x] = true
				out = append(out, x)
			}
		}
	}
	return out
}

func (s *jScen) subtree(b int) []int {
	var out []int
	for x := 0; x < s.tree.N(); x++ {
		if s.tree.IsAncOrEq(b, x) {
			out = append(out, x)
		}
	}
	return out
}

func genScen(r *vcommon.Rand, maxBlocks, maxKeys int, mutate bool) *jScen {
	n := r.Range(1, maxBlocks)
	s := &jScen{tree: randTree(r, n), RootNum: rootNum(r), Round: uint64(r.Range(0, 5)), SetID: uint64(r.Range(0, 3))}
	if r.Chance(1, 6) { // numbers beyond 32 bits (only run with uint64): straddling 2^32, 2^63, or large
		s.Only64 = true
		switch r.Intn(3) {
		case 0:
			s.RootNum = 1<<32 - uint64(r.Intn(8))
		case 1:
			s.RootNum = 1<<63 - uint64(r.Intn(8))
		default:
			s.RootNum = 1<<40 + uint64(r.Intn(1<<20))
		}
	}
	s.Parents = s.tree.Parent
	s.info = fg.NewTreeInfo(s.tree)
	nk := r.Range(1, maxKeys)
	for k := 0; k < nk; k++ {
		w := uint64(r.Range(1, 3))
		if r.Chance(1, 14) {
			w = 0
		} else if r.Chance(1, 10) {
			w = uint64(r.Range(4, 12))
		}
		s.Auth = append(s.Auth, jAuth{k, w})
	}
	if r.Chance(2, 5) { // keys listed several times: partial weights
		for i := r.Range(1, 3); i > 0; i-- {
			s.Auth = append(s.Auth, jAuth{r.Intn(nk), uint64(r.Range(1, 4))})
		}
		p := r.Perm(len(s.Auth))
		sh := make([]jAuth, len(s.Auth))
		for i, j := range p {
			sh[i] = s.Auth[j]
		}
		s.Auth = sh
	}
	T := r.Intn(n)
	sub := s.subtree(T)
	pAbsent, pIn := r.Range(0, 30), r.Range(40, 100)
	for k := 0; k < nk; k++ {
		x := r.Intn(100)
		var tg int
		switch {
		case x < pAbsent:
			continue
		case x < pAbsent+pIn:
			tg = T
			if r.Bool() {
				tg = vcommon.Pick(r, sub)
			}
		default:
			tg = r.Intn(n)
		}
		s.PCs = append(s.PCs, jPC{k, tg, sigGood})
		if r.Chance(1, 14) { // equivocation
			s.PCs = append(s.PCs, jPC{k, r.Intn(n), sigGood})
		} else if r.Chance(1, 14) { // exact duplicate
			s.PCs = append(s.PCs, jPC{k, tg, sigGood})
		}
	}
	// commit target: the GHOST of what was generated if there is one
	s.Target = T
	s.Headers = s.exactHeaders()
	if v := s.commitVerdict(s.PCs, s.memberWeights(false), s.totalWeight()); v.reason == "ghost-is-not-the-target" || v.ok {
		mw := s.memberWeights(false)
		// recompute the ghost directly
		for cand := 0; cand < n; cand++ {
			s.Target = cand
			if s.commitVerdict(s.PCs, mw, s.totalWeight()).ok {
				break
			}
			s.Target = T
		}
	}
	if !mutate {
		return s
	}
	var muts []string
	nm := 0
	switch x := r.Intn(100); {
	case x < 35:
	case x < 85:
		nm = 1
	default:
		nm = 2
	}
	for ; nm > 0; nm-- {
		switch r.Intn(12) {
		case 0:
			if len(s.Headers) > 0 {
				i := r.Intn(len(s.Headers))
				s.Headers = append(s.Headers[:i:i], s.Headers[i+1:]...)
				muts = append(muts, "drop-header")
			}
		case 1:
			switch r.Intn(4) {
			case 0:
				s.Headers = append(s.Headers, -1-r.Intn(3))
				muts = append(muts, "extra-alien-header")
			case 1:
				b := r.Intn(n)
				s.Headers = append(s.Headers, b)
				muts = append(muts, "extra-or-repeated-header")
			default: // header of the lowest precommit itself
				base := -1
				for _, pc := range s.PCs {
					if base < 0 || s.num(pc.Target) < s.num(base) {
						base = pc.Target
					}
				}
				if base >= 0 {
					s.Headers = append(s.Headers, base)
					muts = append(muts, "extra-base-header")
				}
			}
		case 2:
			switch r.Intn(3) {
			case 0:
				if s.Target > 0 {
					s.Target = s.tree.Parent[s.Target]
				}
			case 1:
				if ch := s.info.T.Children()[s.Target]; len(ch) > 0 {
					s.Target = vcommon.Pick(r, ch)
				}
			default:
				s.Target = r.Intn(n)
			}
			muts = append(muts, "move-commit-target")
		case 3:
			s.NumOff = 1
			if r.Bool() && s.num(s.Target) > 0 {
				s.NumOff = -1
			}
			muts = append(muts, "wrong-target-number")
		case 4:
			if len(s.PCs) > 0 {
				i := r.Intn(len(s.PCs))
				bad := r.Range(1, 5)
				// exact duplicates must stay exact duplicates
				for j := range s.PCs {
					if s.PCs[j].Key == s.PCs[i].Key && s.PCs[j].Target == s.PCs[i].Target {
						s.PCs[j].Bad = bad
					}
				}
				muts = append(muts, "bad-signature")
			}
		case 5, 6:
			out := jPC{Key: nk + r.Intn(3), Target: r.Intn(n)}
			if len(s.Headers) > 0 && r.Bool() {
				out.Target = vcommon.Pick(r, s.Headers)
				if out.Target < 0 {
					out.Target = 0
				}
			}
			if r.Chance(1, 3) {
				out.Bad = r.Range(1, 5)
			}
			s.PCs = append(s.PCs, out)
			if r.Bool() {
				s.Headers = s.exactHeaders()
			}
			muts = append(muts, "non-member-precommit")
		case 7:
			if len(s.PCs) > 0 {
				i := r.Intn(len(s.PCs))
				s.PCs = append(s.PCs[:i:i], s.PCs[i+1:]...)
				if r.Bool() {
					s.Headers = s.exactHeaders()
				}
				muts = append(muts, "remove-precommit")
			}
		case 8:
			s.OtherFin = true
			muts = append(muts, "caller-expects-other-target")
		case 9:
			if len(s.PCs) > 0 { // a member precommits below everything else: the base moves
				k := s.PCs[r.Intn(len(s.PCs))].Key
				s.PCs = append(s.PCs, jPC{k + 0, 0, sigGood})
				if r.Bool() {
					s.Headers = s.exactHeaders()
				}
				muts = append(muts, "second-vote-on-root")
			}
		case 10:
			if len(s.Auth) > 0 { // weight moved into a repeated entry
				i := r.Intn(len(s.Auth))
				s.Auth = append(s.Auth, jAuth{s.Auth[i].Key, uint64(r.Range(1, 3))})
				muts = append(muts, "repeat-authority")
			}
		default:
			if len(s.Auth) > 1 {
				i := r.Intn(len(s.Auth))
				s.Auth[i].Weight = 0
				muts = append(muts, "zero-weight-authority")
			}
		}
	}
	s.Mutations = strings.Join(muts, ",")
	return s
}

func identity(n int) []int {
	p := make([]int, n)
	for i := range p {
		p[i] = i
	}
	return p
}

func reversed(n int) []int {
	p := make([]int, n)
	for i := range p {
		p[i] = n - 1 - i
	}
	return p
}

// byNumber orders precommit indexes by descending target number (the order that
// defeats a comparator which never returns a negative value).
func (s *jScen) descending() []int {
	p := identity(len(s.PCs))
	sort.SliceStable(p, func(a, b int) bool { return s.num(s.PCs[p[a]].Target) > s.num(s.PCs[p[b]].Target) })
	return p
}

// ---------------------------------------------------------------- checking one scenario

type jStats struct{ accepted, rejected int }

func (s *jScen) init() {
	if s.info == nil {
		s.tree = fg.Tree{Parent: s.Parents}
		s.info = fg.NewTreeInfo(s.tree)
	}
}

func checkScen(c *vcommon.Case, s *jScen, perms int, withJust bool) {
	s.init()
	orders := [][]int{identity(len(s.PCs)), reversed(len(s.PCs)), s.descending()}
	for i := 0; i < perms; i++ {
		orders = append(orders, c.R.Perm(len(s.PCs)))
	}
	nJust := 0
	if withJust {
		nJust = len(orders)
	}
	checkScenOrders(c, s, orders, nJust, "")
}

// checkScenOrders runs scenario s through ValidateCommit in every given precommit order (and through the
// justification entry points in the first nJust of them), with both number widths. Counters get the prefix pfx.
// It returns the level-A reference verdict and whether the monitor stayed silent.
func checkScenOrders(c *vcommon.Case, s *jScen, orders [][]int, nJust int, pfx string) (jVerdict, bool) {
	s.init()
	count := func(name string, n int) { c.Count(pfx+name, n) }
	mw, tw := s.memberWeights(false), s.totalWeight()
	if len(mw) == 0 {
		count("empty_voter_sets", 1)
	}
	cv := s.commitVerdict(s.PCs, mw, tw)
	// would a voter set that keeps only the last weight of a repeated key decide differently?
	if alt := s.commitVerdict(s.PCs, s.memberWeights(true), tw); !alt.ambiguous && !cv.ambiguous && alt.ok != cv.ok {
		count("summed_weights_decisive", 1)
	}
	distinctNumbers := map[uint64]bool{}
	for _, pc := range s.PCs {
		distinctNumbers[s.num(pc.Target)] = true
	}
	if len(distinctNumbers) > 1 {
		count("scenarios_with_precommits_at_several_heights", 1)
	}
	wit := func(level, width string, order []int, got, want any) map[string]any {
		return map[string]any{"scenario": s, "entry": level, "number_type": width, "precommit_order": order,
			"observed": got, "expected": want, "expected_reason": cv.reason, "threshold": fg.Threshold(tw), "total_weight": tw}
	}
	widths := []bool{true, false}
	if s.Only64 {
		widths = []bool{false}
		count("scenarios_numbers_beyond_32_bits", 1)
	}
	// ---- level A
	var first *bool
	for oi, order := range orders {
		authOrder := identity(len(s.Auth))
		if oi%2 == 1 {
			authOrder = c.R.Perm(len(s.Auth))
		}
		for _, w32 := range widths {
			var valid, nilSet bool
			var err error
			width := "uint64"
			if w32 {
				width = "uint32"
				valid, err, nilSet = runCommit[uint32](s, order, authOrder)
			} else {
				valid, err, nilSet = runCommit[uint64](s, order, authOrder)
			}
			if nilSet {
				if len(mw) != 0 {
					c.Violation("voterset-nil", "NewVoterSet returned nil for a set with positive weights", wit("NewVoterSet", width, order, nil, nil))
					return cv, false
				}
				continue
			}
			c.Eval(1)
			count("validate_commit_runs", 1)
			if w32 {
				count("validate_commit_runs_uint32", 1)
			}
			if cv.ambiguous {
				count("ghost_not_unique_runs", 1)
				continue
			}
			if first == nil {
				v := valid
				first = &v
			}
			if valid != cv.ok {
				cls := "commit-accepted-invalid"
				if cv.ok {
					cls = "commit-rejected-valid"
				}
				if *first != valid {
					cls += "+order-or-width-dependent"
				}
				c.Violation(cls, fmt.Sprintf("ValidateCommit[%s] valid=%v err=%v, definition: %v (%s)", width, valid, err, cv.ok, cv.reason),
					wit("ValidateCommit", width, order, valid, cv.ok))
				return cv, false
			}
		}
	}
	if cv.ambiguous {
		count("scenarios_ghost_not_unique", 1)
	} else if cv.ok {
		count("commits_valid", 1)
	} else {
		count("commit_invalid:"+cv.reason, 1)
	}
	if nJust <= 0 {
		return cv, true
	}
	if nJust > len(orders) {
		nJust = len(orders)
	}
	// ---- level B
	if s.Only64 && s.RootNum < 1<<56 {
		// header numbers in 2^32..2^56 need a 5..7-byte compact integer, which pkg/scale cannot decode
		// (property C11, not this one): such justifications are only checked at the ValidateCommit level
		count("justification_level_skipped_5to7_byte_compact_header_number", 1)
		return cv, true
	}
	strict, lenient := s.justVerdict(true, mw, tw), s.justVerdict(false, mw, tw)
	undecided := strict.ambiguous || lenient.ambiguous || strict.ok != lenient.ok
	var b32 *jBuilt[uint32]
	if !s.Only64 {
		b32 = build[uint32](s)
	}
	b64 := build[uint64](s)
	var firstJ *bool
	for oi, order := range orders[:nJust] {
		hdrOrder, authOrder := identity(len(s.Headers)), identity(len(s.Auth))
		if oi%2 == 1 {
			hdrOrder, authOrder = c.R.Perm(len(s.Headers)), c.R.Perm(len(s.Auth))
		}
		for _, w32 := range widths {
			var okD, okV, nilSet bool
			var errs [2]error
			width := "uint64"
			if w32 {
				width = "uint32"
				okD, okV, errs, nilSet = runJust[uint32](s, b32, order, hdrOrder, authOrder)
			} else {
				okD, okV, errs, nilSet = runJust[uint64](s, b64, order, hdrOrder, authOrder)
			}
			if nilSet {
				continue
			}
			c.Eval(2)
			count("justification_runs", 2)
			for ei, got := range []bool{okD, okV} {
				entry := []string{"DecodeGrandpaJustificationVerifyFinalizes", "GrandpaJustification.Verify"}[ei]
				want := strict.ok
				if ei == 1 && s.OtherFin {
					// Verify has no expected-target argument
					sv := *s
					sv.OtherFin = false
					a, bb := sv.justVerdict(true, mw, tw), sv.justVerdict(false, mw, tw)
					if a.ambiguous || bb.ambiguous || a.ok != bb.ok {
						continue
					}
					want = a.ok
				} else if undecided {
					// the reading of the property is open here, but order and width must still not matter
					if strict.ambiguous || lenient.ambiguous {
						continue
					}
					if firstJ == nil {
						v := got
						firstJ = &v
					} else if *firstJ != got {
						c.Violation("justification-order-or-width-dependent", fmt.Sprintf("%s[%s] accepted=%v but another order/width gave %v (err=%v)",
							entry, width, got, *firstJ, errs[ei]), wit(entry, width, order, got, *firstJ))
						return cv, false
					}
					continue
				}
				if got != want {
					cls := "justification-accepted-invalid"
					if want {
						cls = "justification-rejected-valid"
					}
					w := wit(entry, width, order, got, want)
					w["expected_reason"] = strict.reason
					w["error"] = fmt.Sprint(errs[ei])
					c.Violation(cls, fmt.Sprintf("%s[%s] accepted=%v (err=%v), definition: %v (%s)", entry, width, got, errs[ei], want, strict.reason), w)
					return cv, false
				}
			}
		}
	}
	switch {
	case strict.ambiguous || lenient.ambiguous:
	case undecided:
		count("justification_reading_open(non-member/bad-signature precommit not needed for supermajority)", 1)
	case strict.ok:
		count("justifications_valid", 1)
		if len(s.Headers) > 0 {
			count("justifications_valid_with_ancestry", 1)
		}
	default:
		count("justification_invalid:"+strict.reason, 1)
	}
	return cv, true
}

// ---------------------------------------------------------------- NewVoterSet

func checkVoterSet(c *vcommon.Case) {
	n := c.R.Range(1, 9)
	var iw []grandpa.IDWeight[string]
	sum := map[string]uint64{}
	var total uint64
	overflow := false
	for i := 0; i < n; i++ {
		id := kname(c.R.Intn(5))
		w := uint64(c.R.Range(0, 6))
		switch c.R.Intn(12) {
		case 0:
			w = 0
		case 1:
			w = math.MaxUint64 / uint64(c.R.Range(1, 3))
		}
		iw = append(iw, grandpa.IDWeight[string]{ID: id, Weight: w})
		if total+w < total {
			overflow = true
		}
		total += w
		sum[id] += w
	}
	for id, w := range sum {
		if w == 0 {
			delete(sum, id)
		}
	}
	vs := grandpa.NewVoterSet(iw)
	c.Eval(1)
	w := map[string]any{"weights": iw}
	if overflow || len(sum) == 0 {
		c.Count("voterset_invalid_inputs", 1)
		if vs != nil {
			c.Violation("voterset-accepts-invalid", "NewVoterSet accepted an empty or overflowing weight distribution", w)
		}
		return
	}
	if vs == nil {
		c.Violation("voterset-nil", "NewVoterSet returned nil for a valid distribution", w)
		return
	}
	repeated := len(sum) < func() int {
		k := 0
		for _, x := range iw {
			if x.Weight > 0 {
				k++
			}
		}
		return k
	}()
	if repeated {
		c.Count("voterset_repeated_ids", 1)
	}
	if uint64(vs.TotalWeight()) != total || uint64(vs.Threshold()) != fg.Threshold(total) || vs.Len() != len(sum) {
		c.Violation("voterset-total", fmt.Sprintf("total=%d threshold=%d len=%d, want %d %d %d", vs.TotalWeight(), vs.Threshold(), vs.Len(), total, fg.Threshold(total), len(sum)), w)
		return
	}
	var ids []string
	for id := range sum {
		ids = append(ids, id)
	}
	sort.Strings(ids)
	var got uint64
	for pos, id := range ids {
		info := vs.Get(id)
		if info == nil || uint64(info.Weight()) != sum[id] || info.Position() != uint(pos) {
			w["id"] = id
			c.Violation("voterset-weight", fmt.Sprintf("Get(%s)=%+v, want summed weight %d at position %d", id, info, sum[id], pos), w)
			return
		}
		got += uint64(info.Weight())
	}
	if got != total {
		c.Violation("voterset-sum", "member weights do not add up to the total weight", w)
	}
}

// ---------------------------------------------------------------- corpus

func corpus() []*jScen {
	chain := func(n int) []int {
		p := make([]int, n)
		for i := range p {
			p[i] = i - 1
		}
		return p
	}
	unit := func(n int) []jAuth {
		var a []jAuth
		for k := 0; k < n; k++ {
			a = append(a, jAuth{k, 1})
		}
		return a
	}
	return []*jScen{
		// 0: the repository's own example: 3 of 4 on a(#1), one of them on the child b(#2); header of b supplied
		{Parents: chain(2), RootNum: 1, Auth: unit(4), PCs: []jPC{{0, 0, 0}, {1, 0, 0}, {2, 1, 0}}, Target: 0, Headers: []int{1}, Round: 1, SetID: 2},
		// 1: same, precommits listed highest first (defeats a comparator that is never negative)
		{Parents: chain(3), RootNum: 1, Auth: unit(4), PCs: []jPC{{2, 2, 0}, {1, 1, 0}, {0, 0, 0}}, Target: 0, Headers: []int{1, 2}, Round: 1, SetID: 2},
		// 2: a key listed twice: weights 1+2 for key 0; key 0 and 1 reach 4 of 5 only when summed (threshold 4)
		{Parents: chain(2), RootNum: 7, Auth: []jAuth{{0, 1}, {1, 1}, {2, 1}, {0, 2}}, PCs: []jPC{{0, 1, 0}, {1, 1, 0}}, Target: 1, Headers: nil, Round: 3, SetID: 1},
		// 3: a key listed twice, last entry the smaller one: 2+1; overwriting gives key 0 weight 1 -> 2 of 4... summed 3+1=4 of 5
		{Parents: chain(2), RootNum: 7, Auth: []jAuth{{0, 2}, {1, 1}, {2, 1}, {0, 1}}, PCs: []jPC{{0, 1, 0}, {1, 1, 0}}, Target: 1, Headers: nil, Round: 3, SetID: 1},
		// 4: numbers around 2^31 (a 32-bit difference changes sign), descending order
		{Parents: chain(4), RootNum: 1<<31 - 2, Auth: unit(4), PCs: []jPC{{0, 3, 0}, {1, 2, 0}, {2, 0, 0}}, Target: 0, Headers: []int{1, 2, 3}, Round: 0, SetID: 0},
		// 5: one precommit short of the threshold (2 of 4)
		{Parents: chain(2), RootNum: 1, Auth: unit(4), PCs: []jPC{{0, 0, 0}, {1, 1, 0}}, Target: 0, Headers: []int{1}, Round: 1, SetID: 2},
		// 6: unused header of the base itself
		{Parents: chain(2), RootNum: 1, Auth: unit(4), PCs: []jPC{{0, 0, 0}, {1, 0, 0}, {2, 1, 0}}, Target: 0, Headers: []int{1, 0}, Round: 1, SetID: 2},
		// 7: signature for another set id
		{Parents: chain(2), RootNum: 1, Auth: unit(4), PCs: []jPC{{0, 0, 0}, {1, 0, 0}, {2, 1, sigWrongSet}}, Target: 0, Headers: []int{1}, Round: 1, SetID: 2},
		// 8: GHOST above the lowest precommit: target must be the GHOST, not the base
		{Parents: []int{-1, 0, 1, 1}, RootNum: 10, Auth: unit(4), PCs: []jPC{{0, 0, 0}, {1, 2, 0}, {2, 3, 0}, {3, 1, 0}}, Target: 1, Headers: []int{1, 2, 3}, Round: 1, SetID: 2},
		// 9: equivocator counted for the target
		{Parents: []int{-1, 0, 0}, RootNum: 10, Auth: unit(4), PCs: []jPC{{0, 1, 0}, {1, 1, 0}, {2, 2, 0}, {2, 0, 0}}, Target: 1, Headers: []int{1, 2}, Round: 1, SetID: 2},
		// 10: numbers straddling 2^32 (uint64 only), listed highest first
		{Parents: chain(4), RootNum: 1<<32 - 2, Only64: true, Auth: unit(4), PCs: []jPC{{0, 3, 0}, {1, 2, 0}, {2, 0, 0}}, Target: 0, Headers: []int{1, 2, 3}, Round: 0, SetID: 0},
	}
}

// ---------------------------------------------------------------- test

func TestVerifC19(t *testing.T) {
	r := vcommon.Start(t, "C19")
	defer r.Finish()
	defer debug.SetGCPercent(debug.SetGCPercent(400)) // many short-lived rounds and decoded justifications: collect less often
	if bad := fg.SelfCheck(); len(bad) > 0 {
		r.Cases("selfcheck", 1, func(c *vcommon.Case) {
			c.Inconclusive("reference Tally failed its self-validation: " + strings.Join(bad, ","))
		})
		return
	}
	r.Floor("commits_valid", 300)
	r.Floor("justifications_valid", 60)
	r.Floor("justifications_valid_with_ancestry", 30)
	r.Floor("validate_commit_runs_uint32", 2000)
	r.Floor("scenarios_with_precommits_at_several_heights", 300)
	r.Floor("summed_weights_decisive", 10)
	r.Floor("scenarios_numbers_beyond_32_bits", 100)
	r.Floor("voterset_repeated_ids", 100)
	r.Floor("commit_invalid:no-supermajority", 30)
	r.Floor("commit_invalid:ghost-is-not-the-target", 30)
	r.Floor("commit_invalid:precommit-not-connected-to-base", 30)
	r.Floor("justification_invalid:unused-header", 10)
	r.Floor("justification_invalid:bad-signature", 5)
	// family "bushy" (weighted GHOST on trees with several levels of forking)
	r.Floor("bushy_ghost_unvoted_merge_point_3_votenodes_below_2_sharing_a_subthreshold_child", 30)
	r.Floor("bushy_ghost_unvoted_merge_point_3_votenodes_below_one_child", 8)
	r.Floor("bushy_ghost_unvoted_merge_point_with_voted_sibling_fork", 30)
	r.Floor("bushy_scenarios_all_permutations", 30)
	r.Floor("bushy_scenarios_40_random_orders", 60)
	r.Floor("bushy_precommit_orders_evaluated(scenario x hash assignment x target)", 100000)
	r.Floor("bushy_verdict_pairs(true GHOST accepted, under-weight child rejected)", 600)
	r.Floor("bushy_validate_commit_runs_uint32", 100000)
	r.Floor("bushy_justifications_valid", 300)

	cp := corpus()
	r.Fixed("corpus", len(cp), func(c *vcommon.Case) {
		checkScen(c, cp[c.Idx], 6, true)
		c.Distinct(fmt.Sprint("corpus", c.Idx))
		c.Sample(map[string]any{"scenario": cp[c.Idx]})
	})
	bc := bushyCorpus()
	r.Fixed("bushycorpus", len(bc), func(c *vcommon.Case) {
		checkBushy(c, bc[c.Idx], bc[c.Idx].Target, []int{0, 1, 2, 3, 4, 5, 6, 7}, 6)
		c.Sample(map[string]any{"scenario": bc[c.Idx]})
	})
	r.Cases("voterset", r.Scale(2000), checkVoterSet)
	r.Cases("commit", r.Scale(2500), func(c *vcommon.Case) {
		s := genScen(c.R, 10, 8, true)
		checkScen(c, s, 4, false)
		c.Distinct(fmt.Sprint(s.Parents, s.Auth, s.PCs, s.Target, s.Headers))
	})
	r.Cases("justification", r.Scale(600), func(c *vcommon.Case) {
		s := genScen(c.R, 8, 6, true)
		checkScen(c, s, 2, true)
		c.Distinct(fmt.Sprint(s.Parents, s.Auth, s.PCs, s.Target, s.Headers, s.OtherFin))
		c.Sample(map[string]any{"scenario": s})
	})
	r.Cases("bushy", r.Scale(200), func(c *vcommon.Case) {
		s, aim := genBushy(c.R)
		salts := []int{0}
		for len(salts) < 4 {
			salts = append(salts, c.R.Range(1, 65535))
		}
		checkBushy(c, s, aim, salts, 2)
		if c.Idx%16 == 0 {
			c.Sample(map[string]any{"scenario": s, "aimed_at": aim})
		}
	})
}
