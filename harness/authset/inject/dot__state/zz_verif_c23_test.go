//go:build verif

package state

// C23 driver: real BlockState + GrandpaState + digest.BlockImportHandler are
// driven through generated block trees with scheduled / forced authority-set
// changes in the production call order
//
//	import:    BlockState.AddBlock -> BlockImportHandler.HandleDigests -> GrandpaState.ApplyForcedChanges   (dot/core handleBlock)
//	finalise:  BlockState.SetFinalisedHash -> GrandpaState.ApplyScheduledChanges                          (dot/digest handleBlockFinalisation)
//
// and compared after every step with the AuthSet model (zz_verif_c23_model_test.go).

import (
	"bytes"
	"encoding/json"
	"errors"
	"fmt"
	"os"
	"sort"
	"strings"
	"testing"

	"github.com/ChainSafe/gossamer/dot/digest"
	"github.com/ChainSafe/gossamer/dot/types"
	"github.com/ChainSafe/gossamer/internal/database"
	"github.com/ChainSafe/gossamer/internal/log"
	"github.com/ChainSafe/gossamer/lib/common"
	"github.com/ChainSafe/gossamer/pkg/scale"
	"github.com/ChainSafe/gossamer/zz_verif/vcommon"
)

type vNoTelemetry struct{}

func (vNoTelemetry) SendMessage(json.Marshaler) {}

// ---------------------------------------------------------------- scenario

type vOp struct {
	Kind string `json:"op"` // "import" | "finalise"
	Node int    `json:"node"`
}

type vScenario struct {
	Name  string  `json:"name,omitempty"`
	Nodes []vNode `json:"nodes"` // Nodes[0] is genesis
	Ops   []vOp   `json:"ops"`
}

func (s *vScenario) String() string {
	var sb strings.Builder
	for i, n := range s.Nodes {
		if i == 0 {
			continue
		}
		fmt.Fprintf(&sb, "%d<-%d", n.Parent, i)
		if n.Sched != nil {
			fmt.Fprintf(&sb, "S%d", n.Sched.Delay)
		}
		if n.Forced != nil {
			fmt.Fprintf(&sb, "F%dm%d", n.Forced.Delay, n.Forced.Median)
		}
		sb.WriteByte(' ')
	}
	sb.WriteByte('|')
	for _, o := range s.Ops {
		fmt.Fprintf(&sb, "%c%d ", o.Kind[0], o.Node)
	}
	return sb.String()
}

// vAuthsRaw is authority list number id: 1..3 voters, key bytes (id, i, 0xA5..), weight i+1.
func vAuthsRaw(id int) []types.GrandpaAuthoritiesRaw {
	n := 1 + id%3
	out := make([]types.GrandpaAuthoritiesRaw, n)
	for i := range out {
		for j := range out[i].Key {
			out[i].Key[j] = 0xA5
		}
		out[i].Key[0] = byte(id)
		out[i].Key[1] = byte(i)
		out[i].ID = uint64(i + 1)
	}
	return out
}

func vGrandpaDigest(val any) (types.ConsensusDigest, error) {
	d := types.NewGrandpaConsensusDigest()
	if err := d.SetValue(val); err != nil {
		return types.ConsensusDigest{}, err
	}
	enc, err := scale.Marshal(d)
	if err != nil {
		return types.ConsensusDigest{}, err
	}
	return types.ConsensusDigest{ConsensusEngineID: types.GrandpaEngineID, Data: enc}, nil
}

func vBuildHeaders(sc *vScenario, genesis *types.Header) ([]*types.Header, error) {
	hs := make([]*types.Header, len(sc.Nodes))
	hs[0] = genesis
	for i := 1; i < len(sc.Nodes); i++ {
		n := sc.Nodes[i]
		if n.Parent < 0 || n.Parent >= i {
			return nil, fmt.Errorf("node %d: parent %d not earlier", i, n.Parent)
		}
		if n.Number != sc.Nodes[n.Parent].Number+1 {
			return nil, fmt.Errorf("node %d: number %d, parent number %d", i, n.Number, sc.Nodes[n.Parent].Number)
		}
		dg := types.NewDigest()
		pre, err := types.NewBabeSecondaryPlainPreDigest(0, uint64(1000+i)).ToPreRuntimeDigest()
		if err != nil {
			return nil, err
		}
		if err := dg.Add(*pre); err != nil {
			return nil, err
		}
		var items []types.ConsensusDigest
		if n.Sched != nil {
			d, err := vGrandpaDigest(types.GrandpaScheduledChange{Auths: vAuthsRaw(n.Sched.Auths), Delay: n.Sched.Delay})
			if err != nil {
				return nil, err
			}
			items = append(items, d)
		}
		if n.Forced != nil {
			d, err := vGrandpaDigest(types.GrandpaForcedChange{BestFinalizedBlock: n.Forced.Median,
				Auths: vAuthsRaw(n.Forced.Auths), Delay: n.Forced.Delay})
			if err != nil {
				return nil, err
			}
			if n.ForcedFirst {
				items = append([]types.ConsensusDigest{d}, items...)
			} else {
				items = append(items, d)
			}
		}
		switch n.Noise { // GRANDPA digests that must not touch the authority set bookkeeping
		case 1:
			d, err := vGrandpaDigest(types.GrandpaPause{Delay: 2})
			if err != nil {
				return nil, err
			}
			items = append([]types.ConsensusDigest{d}, items...)
		case 2:
			d, err := vGrandpaDigest(types.GrandpaResume{Delay: 1})
			if err != nil {
				return nil, err
			}
			items = append(items, d)
		case 3:
			d, err := vGrandpaDigest(types.GrandpaOnDisabled{ID: 1})
			if err != nil {
				return nil, err
			}
			items = append(items, d)
		}
		for _, it := range items {
			if err := dg.Add(it); err != nil {
				return nil, err
			}
		}
		hs[i] = &types.Header{ParentHash: hs[n.Parent].Hash(), Number: n.Number, Digest: dg}
	}
	return hs, nil
}

// ---------------------------------------------------------------- environment (real gossamer objects)

type vEnv struct {
	db      database.Database
	bs      *BlockState
	gs      *GrandpaState
	imp     *digest.BlockImportHandler
	headers []*types.Header
	idx     map[common.Hash]int
}

func vNewEnv(sc *vScenario) (*vEnv, error) {
	dir, err := os.MkdirTemp(os.Getenv("VERIF_TMP"), "c23db")
	if err != nil {
		return nil, err
	}
	defer os.RemoveAll(dir)
	db, err := database.LoadDatabase(dir, true)
	if err != nil {
		return nil, err
	}
	genesis := &types.Header{Number: 0, StateRoot: testGenesisHeader.StateRoot, Digest: types.NewDigest()}
	bs, err := NewBlockStateFromGenesis(db, newTriesEmpty(), genesis, vNoTelemetry{})
	if err != nil {
		return nil, err
	}
	voters, err := types.NewGrandpaVotersFromAuthoritiesRaw(vAuthsRaw(0))
	if err != nil {
		return nil, err
	}
	gs, err := NewGrandpaStateFromGenesis(db, bs, voters, vNoTelemetry{})
	if err != nil {
		return nil, err
	}
	hs, err := vBuildHeaders(sc, genesis)
	if err != nil {
		return nil, err
	}
	e := &vEnv{db: db, bs: bs, gs: gs, imp: digest.NewBlockImportHandler(nil, gs), headers: hs, idx: map[common.Hash]int{}}
	for i, h := range hs {
		e.idx[h.Hash()] = i
	}
	return e, nil
}

func (e *vEnv) close() { _ = e.db.Close() }

// authsID recovers the authority-list id of a gossamer pending change, -1 when
// the list is not exactly vAuthsRaw(id).
func vAuthsID(as []types.Authority) int {
	if len(as) == 0 {
		return -1
	}
	id := int(as[0].Key.Encode()[0])
	want := vAuthsRaw(id)
	if len(want) != len(as) {
		return -1
	}
	for i := range as {
		if !bytes.Equal(as[i].Key.Encode(), want[i].Key[:]) || as[i].Weight != want[i].ID {
			return -1
		}
	}
	return id
}

// ---------------------------------------------------------------- the monitor

type vRun struct {
	c        *vcommon.Case
	sc       *vScenario
	t        *vTree
	e        *vEnv
	m        *authSet
	imported []bool
	dead     []bool // import rejected (the block does not exist for Substrate)
	// deadDep: rejected because an ANCESTOR's forced change, effective at this block, depends on an
	// unfinalised standard change, and the block announces no change itself. gossamer keeps such a block in its block tree, and the pending
	// bookkeeping on its chain is the model's, so NextGrandpaAuthorityChange is still comparable there
	// (the only place where a forced change with effective number <= best number is observable).
	deadDep []bool
	gFinal  int
	maxNum  uint
	step    int
	trace   []string
	applied int
	stop    bool
}

func (r *vRun) witness(extra map[string]any) map[string]any {
	w := map[string]any{"scenario": r.sc, "step": r.step, "trace": r.trace}
	for k, v := range extra {
		w[k] = v
	}
	return w
}

func (r *vRun) violation(class, msg string, extra map[string]any) {
	r.c.Violation(class, msg, r.witness(extra))
	r.stop = true
}

func (r *vRun) live(b int) bool { return b >= 0 && r.imported[b] && !r.dead[b] }

// gossamer's pending standard changes rendered like renderRoots; entries on
// blocks whose import was rejected are skipped (they do not exist for the model).
func (r *vRun) renderGossRoots() string {
	var rec func(n *pendingChangeNode) (string, bool)
	rec = func(n *pendingChangeNode) (string, bool) {
		b, ok := r.e.idx[n.change.announcingHeader.Hash()]
		if !ok {
			return "S@?", true
		}
		if r.dead[b] {
			return "", false
		}
		var ks []string
		for _, k := range n.nodes {
			if s, ok := rec(k); ok {
				ks = append(ks, s)
			}
		}
		sort.Strings(ks)
		return fmt.Sprintf("S@%d+%d/a%d[%s]", b, n.change.delay, vAuthsID(n.change.nextAuthorities), strings.Join(ks, ",")), true
	}
	var ks []string
	for _, root := range *r.e.gs.scheduledChangeRoots {
		if s, ok := rec(root); ok {
			ks = append(ks, s)
		}
	}
	sort.Strings(ks)
	return strings.Join(ks, " ")
}

type vGForced struct {
	canon int
	s     string
	eff   uint
	num   uint
}

func (r *vRun) gossForced() []vGForced {
	var out []vGForced
	for _, fc := range *r.e.gs.forcedChanges {
		b, ok := r.e.idx[fc.announcingHeader.Hash()]
		if !ok {
			out = append(out, vGForced{canon: -1, s: "F@?"})
			continue
		}
		if r.dead[b] {
			continue
		}
		out = append(out, vGForced{canon: b, eff: fc.effectiveNumber(), num: fc.announcingHeader.Number,
			s: fmt.Sprintf("F@%d+%d/a%d/m%d", b, fc.delay, vAuthsID(fc.nextAuthorities), fc.bestFinalizedNumber)})
	}
	return out
}

func (r *vRun) renderGossForced() string {
	var ks []string
	for _, f := range r.gossForced() {
		ks = append(ks, f.s)
	}
	sort.Strings(ks)
	return strings.Join(ks, " ")
}

// expectedNext: gossamer's documented query NextGrandpaAuthorityChange(best) evaluated
// on the MODEL's bookkeeping: among the pending standard roots and the pending forced
// changes announced on the chain of `best` whose effective number is <= best's number,
// the smallest effective number; none => ErrNoNextAuthorityChange. (Not a Substrate
// function; Substrate's current_limit likewise looks at roots only.)
func (r *vRun) expectedNext(b int) (uint, bool) {
	num := r.t.nodes[b].Number
	var next uint
	for _, root := range r.m.roots {
		if r.t.ancOrEq(root.ch.canon, b) && root.ch.eff() <= num {
			next = root.ch.eff()
			break
		}
	}
	for _, fc := range r.m.forced {
		if r.t.ancOrEq(fc.canon, b) && fc.eff() <= num {
			if fc.eff() < next || next == 0 {
				next = fc.eff()
			}
			break
		}
	}
	return next, next != 0
}

func vRenderOpt(c *mChange) string {
	if c == nil {
		return "none"
	}
	return renderChange(c)
}

func vVotersEqual(got []types.GrandpaVoter, id int) bool {
	want := vAuthsRaw(id)
	if len(got) != len(want) {
		return false
	}
	for i := range got {
		if !bytes.Equal(got[i].Key.Encode(), want[i].Key[:]) || got[i].ID != want[i].ID {
			return false
		}
	}
	return true
}

// compare checks every observable of the property against the model.
func (r *vRun) compare(where string) {
	c := r.c
	gs := r.e.gs
	c.Eval(1)
	cur, err := gs.GetCurrentSetID()
	if err != nil || cur != r.m.setID {
		r.violation("set_id", fmt.Sprintf("%s: GetCurrentSetID=%d err=%v, model %d", where, cur, err, r.m.setID),
			map[string]any{"model_roots": renderRoots(r.m.roots), "goss_roots": r.renderGossRoots(),
				"model_forced": renderForced(r.m.forced), "goss_forced": r.renderGossForced()})
		return
	}
	for id := uint64(0); id <= r.m.setID; id++ {
		c.Eval(1)
		got, err := gs.GetAuthorities(id)
		if err != nil || !vVotersEqual(got, r.m.auths[id]) {
			r.violation("authorities", fmt.Sprintf("%s: GetAuthorities(%d)=%v err=%v, model list a%d", where, id, got, err, r.m.auths[id]), nil)
			return
		}
	}
	if _, err := gs.GetAuthorities(r.m.setID + 1); err == nil {
		r.violation("extra_set", fmt.Sprintf("%s: authorities stored for set %d although the current set is %d", where, r.m.setID+1, r.m.setID), nil)
		return
	}
	c.Eval(2)
	if g, m := r.renderGossRoots(), renderRoots(r.m.roots); g != m {
		r.violation("pending_standard", fmt.Sprintf("%s: pending scheduled changes {%s}, model {%s}", where, g, m), nil)
		return
	}
	if g, m := r.renderGossForced(), renderForced(r.m.forced); g != m {
		r.violation("pending_forced", fmt.Sprintf("%s: pending forced changes {%s}, model {%s}", where, g, m), nil)
		return
	}
	gf := r.gossForced()
	for i := 1; i < len(gf); i++ {
		if gf[i-1].eff > gf[i].eff || (gf[i-1].eff == gf[i].eff && gf[i-1].num > gf[i].num) {
			c.Count("class_forced_list_not_ordered_by_effective_then_number", 1) // unobservable through the API; labelled only
			break
		}
	}
	// one forced change per fork (stated directly by the property)
	for i := range gf {
		for j := range gf {
			if i != j && gf[i].canon >= 0 && gf[j].canon >= 0 && r.t.isDescendentOf(gf[i].canon, gf[j].canon) {
				r.violation("two_forced_on_fork", fmt.Sprintf("%s: forced changes pending at %d and its descendant %d", where, gf[i].canon, gf[j].canon), nil)
				return
			}
		}
	}
	for b := range r.t.nodes {
		if !(r.live(b) || r.deadDep[b]) || !r.t.ancOrEq(r.gFinal, b) {
			continue
		}
		c.Eval(1)
		want, has := r.expectedNext(b)
		if r.deadDep[b] {
			c.Count("next_change_queried_on_block_refused_for_forced_dependency", 1)
		}
		got, err := gs.NextGrandpaAuthorityChange(r.e.headers[b].Hash(), r.t.nodes[b].Number)
		switch {
		case err != nil && !errors.Is(err, ErrNoNextAuthorityChange):
			r.violation("next_change_error", fmt.Sprintf("%s: NextGrandpaAuthorityChange(best=%d): %v", where, b, err), nil)
			return
		case has != (err == nil) || (has && got != want):
			r.violation("next_change", fmt.Sprintf("%s: NextGrandpaAuthorityChange(best=%d)=%d err=%v, model %d (has=%v)", where, b, got, err, want, has), nil)
			return
		}
		if has {
			c.Count("next_change_reported", 1)
		}
	}
	for n := uint(0); n <= r.maxNum+2; n++ {
		got, err := gs.GetSetIDByBlockNumber(n)
		want := r.m.setIDOf(n)
		if r.m.exact {
			c.Eval(1)
			c.Count("mapping_compared_exact", 1)
			if err != nil || got != want {
				r.violation("set_id_by_number", fmt.Sprintf("%s: GetSetIDByBlockNumber(%d)=%d err=%v, model %d (changes %v)", where, n, got, err, want, r.m.changes), nil)
				return
			}
		} else if err != nil || got != want {
			// out of the sound scope (finalisation jumped past an effective block, or a forced change):
			// gossamer records the effective number, Substrate the finalised / median number
			c.Count("class_mapping_differs_after_jump_or_forced", 1)
		} else {
			c.Count("class_mapping_agrees_after_jump_or_forced", 1)
		}
	}
}

func (r *vRun) doImport(b int) {
	c := r.c
	n := r.t.nodes[b]
	if r.imported[b] || !r.live(n.Parent) || !r.t.ancOrEq(r.gFinal, n.Parent) {
		c.Count("ops_skipped_not_importable", 1)
		return
	}
	hdr := r.e.headers[b]
	if err := r.e.bs.AddBlock(&types.Block{Header: *hdr, Body: *types.NewBody([]types.Extrinsic{})}); err != nil {
		c.Inconclusive(fmt.Sprintf("AddBlock(%d): %v", b, err))
		r.stop = true
		return
	}
	r.imported[b] = true
	if n.Number > r.maxNum {
		r.maxNum = n.Number
	}
	r.trace = append(r.trace, fmt.Sprintf("import %d (#%d)", b, n.Number))
	rootsBefore, gRootsBefore, gForcedBefore := len(r.m.roots), r.renderGossRoots(), r.renderGossForced()
	mApplied, mErr := r.m.importBlock(b)
	gErr := r.e.imp.HandleDigests(hdr)
	stage := "HandleDigests"
	if gErr == nil {
		stage = "ApplyForcedChanges"
		gErr = r.e.gs.ApplyForcedChanges(hdr)
	}
	c.Eval(1)
	c.Count("blocks_imported", 1)
	switch {
	case mErr != nil && gErr == nil:
		r.violation("import_accepted", fmt.Sprintf("import %d: model rejects (%v), gossamer accepted", b, mErr), nil)
		return
	case mErr == nil && gErr != nil:
		r.violation("import_rejected", fmt.Sprintf("import %d: gossamer %s failed: %v; model accepts", b, stage, gErr), nil)
		return
	case mErr != nil:
		ok := (errors.Is(mErr, errMMultiple) && errors.Is(gErr, errAlreadyHasForcedChange)) ||
			(errors.Is(mErr, errMDependency) && errors.Is(gErr, errPendingScheduledChanges))
		if !ok {
			r.violation("import_error_kind", fmt.Sprintf("import %d: model %v, gossamer %v", b, mErr, gErr), nil)
			return
		}
		if errors.Is(mErr, errMMultiple) {
			c.Count("forced_second_on_fork_rejected", 1)
		} else {
			c.Count("forced_dependency_unsatisfied", 1)
			// only when the refused block announces nothing itself: gossamer keeps the announcements of a
			// refused block as stale entries (a stale scheduled change can even be promoted to a root later)
			r.deadDep[b] = n.Forced == nil && n.Sched == nil
		}
		// the block does not exist for Substrate: nothing else may have changed for live blocks
		r.dead[b] = true
		if g := r.renderGossRoots(); g != gRootsBefore {
			r.violation("rejected_import_changed_state", fmt.Sprintf("import %d rejected but pending scheduled changes went {%s} -> {%s}", b, gRootsBefore, g), nil)
			return
		}
		if g := r.renderGossForced(); g != gForcedBefore {
			r.violation("rejected_import_changed_state", fmt.Sprintf("import %d rejected but pending forced changes went {%s} -> {%s}", b, gForcedBefore, g), nil)
			return
		}
	}
	if mApplied != nil {
		r.applied++
		c.Count("forced_applied", 1)
		if rootsBefore > 0 {
			c.Count("standard_cleared_by_forced", 1)
		}
		r.trace = append(r.trace, fmt.Sprintf("  model: forced change %s applied -> set %d", renderChange(mApplied), r.m.setID))
	}
	if n.Noise != 0 {
		c.Count("blocks_with_pause_resume_disabled_digest", 1)
	}
	if n.Forced != nil && n.Sched != nil && mErr == nil {
		c.Count("forced_and_scheduled_in_one_block", 1)
	}
	r.compare(fmt.Sprintf("after import %d", b))
}

func (r *vRun) doFinalise(f int) {
	c := r.c
	if !r.live(f) || !r.t.isDescendentOf(r.gFinal, f) {
		c.Count("ops_skipped_not_finalisable", 1)
		return
	}
	hdr := r.e.headers[f]
	number := r.t.nodes[f].Number
	if err := r.e.bs.SetFinalisedHash(hdr.Hash(), uint64(r.step+1), 0); err != nil {
		c.Inconclusive(fmt.Sprintf("SetFinalisedHash(%d): %v", f, err))
		r.stop = true
		return
	}
	jump := number - r.t.nodes[r.gFinal].Number
	r.gFinal = f
	r.trace = append(r.trace, fmt.Sprintf("finalise %d (#%d)", f, number))
	c.Count("blocks_finalised", 1)
	if jump > 1 {
		c.Count("finalisations_skipping_blocks", 1)
	}

	// classify what this finalisation meets (coverage of the corner cases the property names)
	for _, root := range r.m.roots {
		switch {
		case r.t.ancOrEq(root.ch.canon, f) && root.ch.eff() > number:
			c.Count("finalised_between_announcement_and_effective_block", 1)
		case !r.t.ancOrEq(root.ch.canon, f) && !r.t.isDescendentOf(f, root.ch.canon):
			c.Count("scheduled_on_abandoned_fork_discarded", 1)
		}
		if r.t.ancOrEq(root.ch.canon, f) && root.ch.eff() <= number {
			for _, k := range root.children {
				if r.t.ancOrEq(k.ch.canon, f) && k.ch.eff() > number {
					c.Count("root_applied_with_later_child_already_announced", 1)
				}
			}
		}
	}
	forcedBefore := append([]*mChange(nil), r.m.forced...)
	setBefore, rootsBefore, gRootsBefore := r.m.setID, renderRoots(r.m.roots), r.renderGossRoots()

	mApplied, treeChanged, mErr := r.m.applyStandard(f, number)
	gErr := r.e.gs.ApplyScheduledChanges(hdr)
	c.Eval(1)
	if mErr != nil {
		// Substrate refuses the finalisation altogether (changes must be finalised in order). gossamer
		// has already finalised the block in BlockState; the authority set must stay untouched.
		c.Count("unfinalized_ancestor_refused", 1)
		cur, _ := r.e.gs.GetCurrentSetID()
		if !errors.Is(gErr, errUnfinalizedAncestor) || cur != setBefore || r.renderGossRoots() != gRootsBefore {
			r.violation("unfinalized_ancestor", fmt.Sprintf("finalise %d skips a change that must be finalised first (model: %v); gossamer err=%v set id %d (was %d) pending {%s} (was {%s}, model {%s})",
				f, mErr, gErr, cur, setBefore, r.renderGossRoots(), gRootsBefore, rootsBefore), nil)
		}
		r.stop = true // the histories diverge by construction (Substrate did not finalise): end of case
		return
	}
	if gErr != nil {
		r.violation("finalise_error", fmt.Sprintf("finalise %d: ApplyScheduledChanges: %v; model: applied=%v", f, gErr, vRenderOpt(mApplied)), nil)
		return
	}
	if mApplied != nil {
		r.applied++
		if mApplied.eff() == number {
			c.Count("scheduled_applied_at_effective_block", 1)
		} else {
			c.Count("scheduled_applied_past_effective_block", 1)
		}
		if len(r.m.roots) > 0 {
			c.Count("scheduled_applied_children_promoted", 1)
		}
		r.trace = append(r.trace, fmt.Sprintf("  model: scheduled change %s applied -> set %d", renderChange(mApplied), r.m.setID))
	}

	// Forced changes across a finalisation, class by class:
	//  * announced on a proper descendant of the finalised block: Substrate keeps it in both branches
	//    (effective number > finalised number holds automatically)                          -> compared
	//  * announced on an abandoned fork: "changes on abandoned forks are discarded"           -> compared
	//    (Substrate drops it as soon as the fork tree changes; until then it is unreachable anyway)
	//  * announced at or below the finalised block on the finalised chain: Substrate keeps it while the
	//    standard-change tree is Unchanged and drops it when Changed; gossamer's documented convention
	//    (pruneChanges: "remove changes whose are not descendant of the hash", pinned by its own test)
	//    keeps the finalised block's own and drops those below.                                -> labelled class,
	//    the model follows gossamer
	gKept := map[int]bool{}
	for _, g := range r.gossForced() {
		gKept[g.canon] = true
	}
	var keep []*mChange
	for _, fc := range forcedBefore {
		switch {
		case r.t.isDescendentOf(f, fc.canon):
			keep = append(keep, fc)
			c.Count("forced_on_descendant_kept", 1)
		case r.t.ancOrEq(fc.canon, f):
			sub := r.m.substrateKeepsForced(fc, f, number, treeChanged)
			c.Count(fmt.Sprintf("class_forced_on_finalised_chain_substrate_keeps_%v_gossamer_keeps_%v", sub, gKept[fc.canon]), 1)
			if sub && !gKept[fc.canon] && fc.eff() > number {
				// the one sub-class where gossamer loses a forced change that Substrate would still enact:
				// announced below the finalised block, effective block not imported yet, fork tree Unchanged
				c.Count("class_forced_still_pending_below_finalised_block_dropped_by_gossamer", 1)
			}
			if gKept[fc.canon] {
				keep = append(keep, fc)
			}
		default:
			c.Count("forced_on_abandoned_fork_discarded", 1)
		}
	}
	r.m.forced = keep
	r.compare(fmt.Sprintf("after finalise %d", f))
}

func vRunScenario(c *vcommon.Case, sc *vScenario) {
	t := &vTree{nodes: sc.Nodes}
	e, err := vNewEnv(sc)
	if err != nil {
		c.Inconclusive("environment: " + err.Error())
		return
	}
	defer e.close()
	r := &vRun{c: c, sc: sc, t: t, e: e, m: newAuthSet(t), imported: make([]bool, len(sc.Nodes)), dead: make([]bool, len(sc.Nodes)),
		deadDep: make([]bool, len(sc.Nodes))}
	r.imported[0] = true
	r.compare("at genesis")
	for i, op := range sc.Ops {
		if r.stop {
			break
		}
		r.step = i
		if op.Node <= 0 || op.Node >= len(sc.Nodes) {
			continue
		}
		if op.Kind == "import" {
			r.doImport(op.Node)
		} else {
			r.doFinalise(op.Node)
		}
	}
	c.Count("scenarios", 1)
	// structural coverage
	forks, twoOnFork := 0, false
	kids := map[int]int{}
	for i := 1; i < len(sc.Nodes); i++ {
		kids[sc.Nodes[i].Parent]++
		if sc.Nodes[i].Sched != nil || sc.Nodes[i].Forced != nil {
			for j := 1; j < i; j++ {
				if (sc.Nodes[j].Sched != nil || sc.Nodes[j].Forced != nil) && t.isDescendentOf(j, i) {
					twoOnFork = true
				}
			}
		}
	}
	for _, k := range kids {
		if k > 1 {
			forks++
		}
	}
	if forks > 0 {
		c.Count("scenarios_with_competing_forks", 1)
	}
	if twoOnFork {
		c.Count("scenarios_with_two_changes_on_one_fork", 1)
	}
	if r.applied > 0 {
		c.Count("scenarios_with_applied_change", 1)
		c.Distinct(sc.String())
		c.Sample(map[string]any{"scenario": sc.String(), "trace": r.trace, "final_set_id": r.m.setID})
	}
}

// ---------------------------------------------------------------- generator

func vGenScenario(rnd *vcommon.Rand) *vScenario {
	n := rnd.Range(3, 12)
	sc := &vScenario{Nodes: []vNode{{Parent: -1}}}
	pSched, pForced := rnd.Range(15, 45), rnd.Range(0, 25)
	if rnd.Chance(1, 4) {
		pForced = 0
	}
	for i := 1; i <= n; i++ {
		p := i - 1
		if rnd.Chance(35, 100) {
			p = rnd.Intn(i)
		}
		nd := vNode{Parent: p, Number: sc.Nodes[p].Number + 1}
		if rnd.Chance(pSched, 100) {
			nd.Sched = &vAnn{Delay: uint32(rnd.Intn(5)), Auths: 1 + rnd.Intn(40)}
		}
		if rnd.Chance(pForced, 100) {
			nd.Forced = &vAnn{Delay: uint32(rnd.Intn(5)), Auths: 41 + rnd.Intn(40), Median: uint32(rnd.Intn(int(nd.Number) + 2))}
			nd.ForcedFirst = rnd.Bool()
		}
		if rnd.Chance(1, 8) {
			nd.Noise = rnd.Range(1, 3)
		}
		sc.Nodes = append(sc.Nodes, nd)
	}
	t := &vTree{nodes: sc.Nodes}
	imported := make([]bool, n+1)
	imported[0] = true
	fin := 0
	stepwise := rnd.Range(35, 95)
	for steps := 0; steps < 4*n+8; steps++ {
		var imps, fins []int
		for b := 1; b <= n; b++ {
			if !imported[b] && imported[sc.Nodes[b].Parent] && t.ancOrEq(fin, sc.Nodes[b].Parent) {
				imps = append(imps, b)
			}
			if imported[b] && t.isDescendentOf(fin, b) {
				fins = append(fins, b)
			}
		}
		if len(imps) == 0 && len(fins) == 0 {
			break
		}
		if len(imps) > 0 && (len(fins) == 0 || rnd.Chance(60, 100)) {
			b := imps[0]
			if rnd.Chance(1, 2) {
				b = vcommon.Pick(rnd, imps)
			}
			imported[b] = true
			sc.Ops = append(sc.Ops, vOp{"import", b})
			continue
		}
		if len(imps) == 0 && rnd.Chance(1, 5) {
			break
		}
		var next []int
		for _, b := range fins {
			if sc.Nodes[b].Number == sc.Nodes[fin].Number+1 {
				next = append(next, b)
			}
		}
		f := vcommon.Pick(rnd, fins)
		if len(next) > 0 && rnd.Chance(stepwise, 100) {
			f = vcommon.Pick(rnd, next)
		}
		fin = f
		sc.Ops = append(sc.Ops, vOp{"finalise", f})
	}
	return sc
}

// ---------------------------------------------------------------- fixed regression corpus

func vChain(n int) []vNode {
	ns := []vNode{{Parent: -1}}
	for i := 1; i <= n; i++ {
		ns = append(ns, vNode{Parent: i - 1, Number: uint(i)})
	}
	return ns
}

func vOps(spec string) []vOp {
	var ops []vOp
	for _, f := range strings.Fields(spec) {
		var k byte
		var n int
		fmt.Sscanf(f, "%c%d", &k, &n)
		if k == 'i' {
			ops = append(ops, vOp{"import", n})
		} else {
			ops = append(ops, vOp{"finalise", n})
		}
	}
	return ops
}

func vFixedCorpus() []*vScenario {
	var out []*vScenario
	add := func(name string, nodes []vNode, ops string) {
		out = append(out, &vScenario{Name: name, Nodes: nodes, Ops: vOps(ops)})
	}
	{ // defect 1 witness: change announced at #2 with delay 3 must survive the finalisation of #3 and apply at #5
		ns := vChain(6)
		ns[2].Sched = &vAnn{Delay: 3, Auths: 1}
		add("announce#2+3, finalise #3 then #5", ns, "i1 i2 i3 i4 i5 i6 f3 f5 f6")
		add("announce#2+3, finalise #2 (announcing block itself) then #4 #5", ns, "i1 i2 i3 f2 i4 i5 f4 f5")
		add("announce#2+3, finalise every block", ns, "i1 f1 i2 f2 i3 f3 i4 f4 i5 f5 i6 f6")
	}
	{ // defect 2 witness: root #1+0 is applicable at #3; its child #2+3 is not yet effective -> no UnfinalizedAncestor
		ns := vChain(6)
		ns[1].Sched = &vAnn{Delay: 0, Auths: 1}
		ns[2].Sched = &vAnn{Delay: 3, Auths: 2}
		add("root #1+0, child #2+3, finalise #3 directly, then #5", ns, "i1 i2 i3 i4 i5 f3 f5")
		add("root #1+0, child #2+0, finalise #3 directly (genuine unfinalized ancestor)", func() []vNode {
			m := vChain(4)
			m[1].Sched = &vAnn{Delay: 0, Auths: 1}
			m[2].Sched = &vAnn{Delay: 0, Auths: 2}
			return m
		}(), "i1 i2 i3 f3")
		add("root #1+0, child #2+3, finalise in order exactly at effective blocks", ns, "i1 f1 i2 i3 i4 i5 f2 f3 f4 f5 i6 f6")
	}
	{ // competing forks: a change on the abandoned fork is discarded, the one on the finalised fork applied
		ns := []vNode{{Parent: -1}, {Parent: 0, Number: 1}, {Parent: 1, Number: 2}, {Parent: 1, Number: 2}, {Parent: 2, Number: 3}, {Parent: 3, Number: 3}, {Parent: 4, Number: 4}}
		ns[2].Sched = &vAnn{Delay: 1, Auths: 1} // fork A: 2 -> 4 -> 6
		ns[3].Sched = &vAnn{Delay: 0, Auths: 2} // fork B: 3 -> 5
		add("forks A/B with changes, finalise A", ns, "i1 i2 i3 i4 i5 i6 f2 f4 f6")
		add("forks A/B with changes, finalise B", ns, "i1 i2 i3 i4 i5 f1 f3 f5")
		add("forks A/B with changes, finalise A tip directly past B's effective number", ns, "i1 i2 i3 i4 i5 i6 f4 f6")
	}
	{ // forced change applied on import of its effective block; pending standard changes are cleared
		ns := vChain(6)
		ns[1].Sched = &vAnn{Delay: 4, Auths: 1}
		ns[2].Forced = &vAnn{Delay: 1, Auths: 41, Median: 0}
		add("forced #2+1 applied at import of #3, clears standard #1+4", ns, "i1 i2 i3 i4 i5 f5")
		ns2 := vChain(5)
		ns2[1].Sched = &vAnn{Delay: 0, Auths: 1}
		ns2[2].Forced = &vAnn{Delay: 1, Auths: 41, Median: 1}
		add("forced #2+1 depends on unfinalised standard #1+0 (median 1): import of #3 refused", ns2, "i1 i2 i3")
		add("forced #2+1 after standard #1+0 was finalised", ns2, "i1 f1 i2 i3 i4 f4")
	}
	{ // one forced change per fork
		ns := vChain(5)
		ns[1].Forced = &vAnn{Delay: 4, Auths: 41, Median: 0}
		ns[2].Forced = &vAnn{Delay: 0, Auths: 42, Median: 0}
		add("second forced change on the same fork is refused", ns, "i1 i2 i3")
		fk := []vNode{{Parent: -1}, {Parent: 0, Number: 1}, {Parent: 0, Number: 1}, {Parent: 1, Number: 2}, {Parent: 2, Number: 2}}
		fk[1].Forced = &vAnn{Delay: 1, Auths: 41, Median: 0}
		fk[2].Forced = &vAnn{Delay: 1, Auths: 42, Median: 0}
		add("forced changes on two forks, each applied on its own fork's effective block", fk, "i1 i2 i3 i4")
	}
	{ // forced and scheduled digest in one block: the forced one wins
		ns := vChain(4)
		ns[1].Sched = &vAnn{Delay: 0, Auths: 1}
		ns[1].Forced = &vAnn{Delay: 1, Auths: 41, Median: 0}
		add("forced + scheduled digests in #1", ns, "i1 i2 i3 f3")
		ns[1].ForcedFirst = true
		add("forced + scheduled digests in #1 (forced first)", ns, "i1 i2 i3 f3")
	}
	{ // labelled class: forced change announced below a finalised block
		ns := vChain(6)
		ns[2].Forced = &vAnn{Delay: 3, Auths: 41, Median: 1}
		add("forced #2+3, finalise #3, import #5", ns, "i1 i2 i3 f3 i4 i5 i6")
		add("forced #2+3, finalise #2, import #5", ns, "i1 i2 f2 i3 i4 i5 i6")
	}
	{ // two exact changes on one fork: block number -> set id mapping
		ns := vChain(8)
		ns[1].Sched = &vAnn{Delay: 1, Auths: 1}
		ns[4].Sched = &vAnn{Delay: 2, Auths: 2}
		add("two scheduled changes finalised exactly at #2 and #6", ns, "i1 i2 f1 f2 i3 i4 i5 i6 f3 f4 f5 f6 i7 i8 f7 f8")
	}
	{ // harness regression: block #4 is refused (forced #2+2 depends on standard #1+2) and announces a scheduled
		// change itself; gossamer keeps that as a stale entry which is promoted to a root when #1+2 is enacted
		ns := vChain(4)
		ns[1].Sched = &vAnn{Delay: 2, Auths: 1}
		ns[2].Forced = &vAnn{Delay: 2, Auths: 41, Median: 3}
		ns[4].Sched = &vAnn{Delay: 0, Auths: 2}
		add("refused block announcing a scheduled change; its parent change enacted later", ns, "i1 i2 f1 i3 f2 i4 f3")
	}
	return out
}

// ---------------------------------------------------------------- test

func TestVerifC23(t *testing.T) {
	r := vcommon.Start(t, "C23")
	defer r.Finish()
	logger.Patch(log.SetLevel(log.Critical))

	r.Floor("scheduled_applied_at_effective_block", 150)
	r.Floor("scheduled_applied_past_effective_block", 25)
	r.Floor("forced_applied", 60)
	r.Floor("forced_second_on_fork_rejected", 20)
	r.Floor("forced_dependency_unsatisfied", 5)
	r.Floor("standard_cleared_by_forced", 15)
	r.Floor("scheduled_on_abandoned_fork_discarded", 40)
	r.Floor("forced_on_abandoned_fork_discarded", 5)
	r.Floor("finalised_between_announcement_and_effective_block", 100)
	r.Floor("root_applied_with_later_child_already_announced", 5)
	r.Floor("scenarios_with_two_changes_on_one_fork", 200)
	r.Floor("scenarios_with_competing_forks", 300)
	r.Floor("mapping_compared_exact", 2000)
	r.Floor("next_change_reported", 100)

	if err := vModelSelfCheck(); err != nil {
		r.Fixed("model-selfcheck", 1, func(c *vcommon.Case) { c.Inconclusive("AuthSet model self-validation failed: " + err.Error()) })
		return
	}
	r.Count("model_selfcheck_ok", 1)

	fixed := vFixedCorpus()
	r.Fixed("fixed", len(fixed), func(c *vcommon.Case) { vRunScenario(c, fixed[c.Idx]) })
	r.Cases("gen", r.Scale(1500), func(c *vcommon.Case) { vRunScenario(c, vGenScenario(c.R)) })
}
