//go:build verif

package babe

import (
	"errors"
	"time"

	"github.com/ChainSafe/gossamer/dot/types"
	"github.com/ChainSafe/gossamer/lib/crypto/sr25519"
	"github.com/ChainSafe/gossamer/pkg/scale"
)

// Exports for the `verifstack` verification engine (properties C24 / C26 / C27 at their production consumer):
// an external test package of dot/state builds sealed headers with the node's OWN claim and seal code and reads
// what VerificationManager.getVerifierInfo resolved for a header. Nothing here changes behaviour.

// VerifVSInfo mirrors verifierInfo.
type VerifVSInfo struct {
	Authorities    []types.AuthorityRaw
	Randomness     Randomness
	Threshold      *scale.Uint128
	SecondarySlots bool
	AllowedSlots   types.AllowedSlots
}

// VerifVSGetVerifierInfo is VerificationManager.getVerifierInfo.
func VerifVSGetVerifierInfo(m *VerificationManager, epoch uint64, h *types.Header) (*VerifVSInfo, error) {
	i, err := m.getVerifierInfo(epoch, h)
	if err != nil {
		return nil, err
	}
	return &VerifVSInfo{Authorities: i.authorities, Randomness: i.randomness, Threshold: i.threshold,
		SecondarySlots: i.secondarySlots, AllowedSlots: i.allowedSlots}, nil
}

// VerifVSThreshold is CalculateThreshold (already exported; kept here so the harness needs one import surface).
func VerifVSThreshold(c1, c2 uint64, n int) (*scale.Uint128, error) {
	return CalculateThreshold(c1, c2, n)
}

// VerifVSClaim runs the node's slot lottery (Service.buildEpochData + claimSlot) for the key pair under the given
// epoch data / configuration. (nil, nil): the key may not author that slot.
func VerifVSClaim(kp *sr25519.Keypair, epoch, slot uint64, raw *types.EpochDataRaw, cfg *types.ConfigData) (
	*types.PreRuntimeDigest, error) {
	svc := &Service{authority: true, keypair: kp}
	ed, err := svc.buildEpochData(raw, cfg)
	if err != nil {
		return nil, err
	}
	pre, err := claimSlot(epoch, slot, ed, kp)
	if err != nil {
		if errors.Is(err, errNotOurTurnToPropose) || errors.Is(err, errOverPrimarySlotThreshold) {
			return nil, nil
		}
		return nil, err
	}
	return pre, nil
}

// VerifVSSeal is BlockBuilder.buildBlockSeal over the (unsealed) header.
func VerifVSSeal(kp *sr25519.Keypair, unsealed *types.Header) (*types.SealDigest, error) {
	return (&BlockBuilder{keypair: kp}).buildBlockSeal(unsealed)
}

// VerifVSCurrentSlot is getCurrentSlot, the wall-clock slot source of the verifier.
func VerifVSCurrentSlot(slotDuration time.Duration) uint64 { return getCurrentSlot(slotDuration) }
