//go:build verif

package state_test

import (
	"fmt"
	"strings"
	"testing"
	"time"

	"github.com/ChainSafe/gossamer/dot/types"
	"github.com/ChainSafe/gossamer/lib/babe"
	"github.com/ChainSafe/gossamer/pkg/scale"
	"github.com/ChainSafe/gossamer/zz_verif/vcommon"
)

var vsVariants = []string{"all", "randomness", "authorities", "config", "config_absent", "count"}

type vsItem struct {
	epoch uint64
	ann   uint64 // epoch announced by this block (0 = none)
}

// vsRun builds one world (trunk, two competing forks announcing different data for epoch K+1) and verifies every
// block through ONE VerificationManager before importing it, with cross-fork / stale / twin / repeated probes.
func vsRun(c *vcommon.Case, spec vsSpec) {
	w, err := vsNewWorld(c, spec)
	if err != nil {
		c.Inconclusive("world: " + err.Error())
		return
	}
	defer func() { _ = w.db.Close() }()
	now := babe.VerifVSCurrentSlot(time.Duration(vsSlotDurationMs) * time.Millisecond)
	if now < 150 || now > 1000 {
		c.Inconclusive(fmt.Sprintf("precondition: wall-clock slot %d outside [150,1000] (slot duration constant needs an update)", now))
		return
	}
	r := w.r
	K := uint64(spec.K)
	w.divFrom = K + 1
	S0 := uint64(r.Range(10, 24))

	// ---- planned announcements
	annT := map[uint64]*vsAnn{}
	for e := uint64(1); e <= K; e++ {
		a := &vsAnn{ed: vsNewData(r, fmt.Sprintf("T%d", e), r.Range(2, 4))}
		if r.Chance(1, 2) {
			a.cd = vsDrawCfg(r)
		}
		annT[e] = a
	}
	inherited := w.gen.cd
	for e := uint64(1); e <= K; e++ {
		if annT[e].cd != nil {
			inherited = annT[e].cd
		}
	}
	annF := map[string]map[uint64]*vsAnn{"A": {}, "B": {}}
	var a1, b1 *vsAnn
	switch spec.Variant {
	case "all":
		a1 = &vsAnn{ed: vsNewData(r, "A1", r.Range(2, 4)), cd: vsDrawCfg(r)}
		b1 = &vsAnn{ed: vsNewData(r, "B1", r.Range(2, 4)), cd: vsDrawCfg(r)}
	case "randomness":
		a1 = &vsAnn{ed: vsNewData(r, "A1", r.Range(2, 4))}
		var rnd [32]byte
		copy(rnd[:], r.Bytes(32))
		b1 = &vsAnn{ed: vsDataFrom("B1", a1.ed.seeds, rnd)}
		if r.Bool() {
			cd := vsDrawCfg(r)
			a1.cd, b1.cd = cd, &types.ConfigData{C1: cd.C1, C2: cd.C2, SecondarySlots: cd.SecondarySlots}
		}
	case "authorities":
		a1 = &vsAnn{ed: vsNewData(r, "A1", r.Range(2, 4))}
		if r.Bool() {
			n := len(a1.ed.seeds)
			rot := make([][]byte, n)
			for i := range rot {
				rot[i] = a1.ed.seeds[(i+1)%n]
			}
			b1 = &vsAnn{ed: vsDataFrom("B1", rot, a1.ed.raw.Randomness)}
		} else {
			b1 = &vsAnn{ed: vsNewData(r, "B1", len(a1.ed.seeds))}
			b1.ed.raw.Randomness = a1.ed.raw.Randomness
		}
	case "config":
		a1 = &vsAnn{ed: vsNewData(r, "A1", r.Range(2, 4)), cd: &types.ConfigData{C1: 1, C2: 8, SecondarySlots: 1}}
		b1 = &vsAnn{ed: vsDataFrom("B1", a1.ed.seeds, a1.ed.raw.Randomness), cd: &types.ConfigData{C1: 1, C2: 8, SecondarySlots: 2}}
		if r.Bool() {
			a1.cd, b1.cd = b1.cd, a1.cd
		}
	case "config_absent":
		sec := byte(1)
		if inherited.SecondarySlots == 1 {
			sec = 2
		}
		a1 = &vsAnn{ed: vsNewData(r, "A1", r.Range(2, 4)), cd: &types.ConfigData{C1: 1, C2: 8, SecondarySlots: sec}}
		b1 = &vsAnn{ed: vsDataFrom("B1", a1.ed.seeds, a1.ed.raw.Randomness)}
		if r.Bool() {
			a1.cd, b1.cd = b1.cd, a1.cd
		}
	case "count":
		b1 = &vsAnn{ed: vsNewData(r, "B1", r.Range(3, 4))}
		a1 = &vsAnn{ed: vsDataFrom("A1", b1.ed.seeds[:len(b1.ed.seeds)-1], b1.ed.raw.Randomness)}
		if r.Bool() {
			a1.ed, b1.ed = b1.ed, a1.ed
			a1.ed.tag, b1.ed.tag = "A1", "B1"
		}
	default:
		c.Inconclusive("unknown variant " + spec.Variant)
		return
	}
	annF["A"][K+1], annF["B"][K+1] = a1, b1
	for _, f := range []string{"A", "B"} {
		if r.Chance(2, 3) {
			a := &vsAnn{ed: vsNewData(r, f+"2", r.Range(2, 3))}
			if r.Chance(1, 3) {
				a.cd = vsDrawCfg(r)
			}
			annF[f][K+2] = a
		}
	}
	other := map[string]string{"A": "B", "B": "A"}
	// eff: the data a node following fork f would use for data epoch de (only used to author CROSS blocks; the
	// oracle for a block's own data walks the parent links of the imported tree)
	eff := func(f string, de uint64) *vsAnn {
		out := &vsAnn{cd: w.gen.cd}
		switch {
		case de == 0:
			out.ed = w.gen.ed
		case annF[f][de] != nil:
			out.ed = annF[f][de].ed
		case annT[de] != nil:
			out.ed = annT[de].ed
		}
		for t := uint64(1); t <= de; t++ {
			if a := annT[t]; a != nil && a.cd != nil {
				out.cd = a.cd
			}
			if a := annF[f][t]; a != nil && a.cd != nil {
				out.cd = a.cd
			}
		}
		return out
	}

	// ---- slots: fork A uses even, fork B odd slot numbers (an honest block of one fork never shares (slot, signer)
	// with an honest block of the other); probes reuse the slot of their honest sibling - the (slot, signer) model decides
	cursor := map[string]uint64{"T": S0 - 1}
	nextSlot := func(f string, parent *vsBlock, e uint64) (uint64, bool) {
		lo := cursor[f] + 1
		if parent.number >= 1 {
			if s := parent.first + e*w.L; s > lo {
				lo = s
			}
		}
		if (f == "A" && lo%2 == 1) || (f == "B" && lo%2 == 0) {
			lo++
		}
		if parent.number >= 1 && lo >= parent.first+(e+1)*w.L {
			return 0, false
		}
		cursor[f] = lo
		return lo, true
	}

	kinds := map[string]bool{}
	stop := false
	probe := func(label, fork string, parent *vsBlock, slot, epoch uint64, by *vsAnn, own *vsData, ownCfg *types.ConfigData, counter string) {
		if by == nil || by.ed == nil || stop {
			return
		}
		cx, err := w.author(parent, slot, epoch, by.ed, by.cd, -1, nil)
		if err != nil {
			c.Inconclusive("authoring " + label + ": " + err.Error())
			stop = true
			return
		}
		if cx == nil {
			w.count(label+"_no_claim", 1)
			return
		}
		pre := vsAuthorised(cx, own, ownCfg)
		if !w.judge(label, fork, cx, cx.h) {
			stop = true
			return
		}
		switch pre {
		case 0:
			w.count(counter+"_rejections", 1)
			w.count(counter+"_rejections_"+cx.kind, 1)
		case 1:
			w.count(counter+"_coincident_accepts", 1)
		default:
			w.count(counter+"_undecided", 1)
		}
	}

	step := func(fork string, parent *vsBlock, it vsItem) *vsBlock {
		var x *vsHeader
		var ann *vsAnn
		if it.ann > 0 {
			if fork == "T" {
				ann = annT[it.ann]
			} else {
				ann = annF[fork][it.ann]
			}
		}
		var slot, epoch, de uint64
		var own *vsData
		var ownCfg *types.ConfigData
		for try := 0; try < 4 && x == nil; try++ {
			s, ok := nextSlot(fork, parent, it.epoch)
			if !ok {
				w.count("epoch_full", 1)
				return nil
			}
			slot = s
			_, _, epoch, de = w.place(parent, slot)
			own, ownCfg = w.edFor(parent.idx, de), w.cdFor(parent.idx, de)
			if own == nil {
				w.count("no_data_on_ancestry", 1)
				return nil
			}
			var err error
			if x, err = w.author(parent, slot, epoch, own, ownCfg, -1, ann); err != nil {
				c.Inconclusive("authoring: " + err.Error())
				stop = true
				return nil
			}
			if x == nil {
				w.count("no_author_for_slot", 1)
			}
		}
		if x == nil {
			return nil
		}
		w.checkInfo(fork, x)
		probes := func() {
			if fork != "T" && de >= w.divFrom {
				probe("cross", fork, parent, slot, epoch, eff(other[fork], de), own, ownCfg, "cross_fork")
			}
			if de >= 1 && r.Chance(1, 2) {
				if pd := w.edFor(parent.idx, de-1); pd != nil && pd != own {
					probe("prev_epoch_data", fork, parent, slot, epoch, &vsAnn{ed: pd, cd: w.cdFor(parent.idx, de-1)}, own, ownCfg, "prev_epoch")
				}
			}
		}
		crossFirst := r.Bool()
		if crossFirst {
			probes()
		}
		if stop || !w.judge("honest", fork, x, x.h) {
			stop = true
			return nil
		}
		kinds[x.kind] = true
		w.count("claim_"+x.kind, 1)
		w.count("blocks_verified_fork_"+fork, 1)
		if epoch >= w.divFrom {
			w.count("diverged_blocks_fork_"+fork, 1)
		}
		if r.Chance(1, 2) {
			if !w.judge("reverify_same_object", fork, x, x.h) {
				stop = true
				return nil
			}
			w.count("reverify_identical", 1)
		}
		if r.Chance(1, 3) {
			enc, err := scale.Marshal(*x.h)
			dec := types.NewEmptyHeader()
			if err == nil {
				err = scale.Unmarshal(enc, dec)
			}
			if err != nil {
				c.Inconclusive("header round trip: " + err.Error())
				stop = true
				return nil
			}
			if !w.judge("reverify_decoded_copy", fork, x, dec) {
				stop = true
				return nil
			}
			w.count("reverify_identical", 1)
			w.count("reverify_decoded_copy", 1)
		}
		if r.Intn(100) < spec.Twins {
			tw, err := w.author(parent, slot, epoch, own, ownCfg, x.idx, ann)
			if err != nil || tw == nil {
				c.Inconclusive(fmt.Sprintf("authoring twin: %v", err))
				stop = true
				return nil
			}
			n0 := len(w.rt.reported)
			if !w.judge("twin_same_author_same_slot", fork, tw, tw.h) {
				stop = true
				return nil
			}
			if len(w.rt.reported) == n0+1 {
				w.count("equivocation_pairs", 1)
				w.count("equivocation_pairs_"+x.kind, 1)
			}
			// the first header again: still no equivocation with itself
			if !w.judge("reverify_after_twin", fork, x, x.h) {
				stop = true
				return nil
			}
			w.count("reverify_after_twin", 1)
		}
		if !crossFirst {
			probes()
		}
		if stop {
			return nil
		}
		b, err := w.importBlock(fork, x, ann, it.ann)
		if err != nil {
			c.Inconclusive("import: " + err.Error())
			stop = true
			return nil
		}
		return b
	}

	// ---- trunk
	tip := w.blocks[0]
	if K >= 1 {
		plan := []vsItem{{0, 1}}
		if r.Bool() {
			plan = append(plan, vsItem{0, 0})
		}
		for e := uint64(1); e < K; e++ {
			plan = append(plan, vsItem{e, e + 1})
			if r.Chance(1, 3) {
				plan = append(plan, vsItem{e, 0})
			}
		}
		for _, it := range plan {
			b := step("T", tip, it)
			if stop {
				return
			}
			if b != nil {
				tip = b
			}
		}
		if tip.number == 0 || tip.epoch != K-1 {
			c.Count("vs_trunk_incomplete", 1)
			return
		}
	}
	// ---- forks
	tips := map[string]*vsBlock{"A": tip, "B": tip}
	lastK := map[string]*vsBlock{}
	cursor["A"], cursor["B"] = cursor["T"], cursor["T"]+uint64(r.Intn(4))
	plans := map[string][]vsItem{}
	for _, f := range []string{"A", "B"} {
		p := []vsItem{{K, K + 1}}
		if r.Bool() {
			p = append(p, vsItem{K, 0})
		}
		if annF[f][K+2] != nil {
			p = append(p, vsItem{K + 1, K + 2})
		} else {
			p = append(p, vsItem{K + 1, 0})
		}
		p = append(p, vsItem{K + 1, 0})
		if r.Chance(1, 3) {
			p = append(p, vsItem{K + 1, 0})
		}
		if annF[f][K+2] != nil && r.Bool() {
			p = append(p, vsItem{K + 2, 0})
		}
		plans[f] = p
	}
	for len(plans["A"])+len(plans["B"]) > 0 {
		f := "A"
		if len(plans["A"]) == 0 || (len(plans["B"]) > 0 && r.Bool()) {
			f = "B"
		}
		it := plans[f][0]
		plans[f] = plans[f][1:]
		b := step(f, tips[f], it)
		if stop {
			return
		}
		if b == nil {
			plans[f] = nil // epoch full / nothing announced: this fork ends here
			continue
		}
		w.order = append(w.order, f)
		tips[f] = b
		if b.epoch == K {
			lastK[f] = b
		}
	}
	// ---- skipped epochs: a child of the fork's last epoch-K block lands in epoch K+2 / K+3; the verifier must use
	// the data announced for K+1 on THAT fork (never imported: the re-keying on import is C26's skipped family)
	for _, f := range []string{"A", "B"} {
		p := lastK[f]
		if p == nil || p.number == 0 {
			continue
		}
		epoch := K + 2 + uint64(r.Intn(2))
		slot := p.first + epoch*w.L + uint64(r.Intn(int(w.L)))
		if (f == "A" && slot%2 == 1) || (f == "B" && slot%2 == 0) {
			slot ^= 1
		}
		_, _, epoch, de := w.place(p, slot)
		own, ownCfg := w.edFor(p.idx, de), w.cdFor(p.idx, de)
		if own == nil || de != K+1 {
			w.count("skip_probe_unplaced", 1)
			continue
		}
		x, err := w.author(p, slot, epoch, own, ownCfg, -1, nil)
		if err != nil || x == nil {
			w.count("skip_probe_no_claim", 1)
			continue
		}
		w.checkInfo(f, x)
		if !w.judge("skip_honest", f, x, x.h) {
			return
		}
		w.count("skip_probe_accepts", 1)
		probe("skip_cross", f, p, slot, epoch, eff(other[f], de), own, ownCfg, "skip_cross")
		if stop {
			return
		}
	}
	// ---- sweep: every imported fork block again, in PRNG order, on the same manager (headers now imported, best
	// block settled): identical headers, so no equivocation and the same verdict per own fork
	var forkBlocks []*vsBlock
	for _, b := range w.blocks {
		if (b.fork == "A" || b.fork == "B") && b.epoch >= w.divFrom {
			forkBlocks = append(forkBlocks, b)
		}
	}
	for _, i := range r.Perm(len(forkBlocks)) {
		b := forkBlocks[i]
		p := w.blocks[b.parent]
		_, _, _, de := w.place(p, b.slot)
		own := w.edFor(p.idx, de)
		idx, kind := vsIdxKind(b.header)
		x := &vsHeader{h: b.header, idx: idx, kind: kind, slot: b.slot, epoch: b.epoch, by: own, byCfg: w.cdFor(p.idx, de), parent: p}
		if !w.judge("sweep_reverify_imported", b.fork, x, b.header) {
			return
		}
		w.count("sweep_reverified", 1)
	}
	best := w.bs.BestBlockHash()
	for _, b := range w.blocks {
		if b.hash == best && b.fork != "T" && b.fork != "G" {
			w.count("best_block_on_fork_"+b.fork, 1)
		}
	}
	w.count("variant_"+spec.Variant, 1)
	w.count(fmt.Sprintf("fork_epoch_%d", K), 1)
	if K == 0 {
		w.count("forked_at_genesis", 1)
		if tips["A"].first != tips["B"].first {
			w.count("forked_at_genesis_different_first_slots", 1)
		}
	}
	ks := []string{}
	for _, k := range []string{"primary", "secondary_plain", "secondary_vrf"} {
		if kinds[k] {
			ks = append(ks, k)
		}
	}
	c.Distinct(fmt.Sprintf("%s|K=%d|L=%d|g=%d(%s)|A=%s|B=%s|%s|%s", spec.Variant, K, w.L, len(w.gen.ed.kps), vsCfgStr(w.gen.cd),
		vsAnnShape(a1), vsAnnShape(b1), strings.Join(w.order, ""), strings.Join(ks, ",")))
	c.Sample(map[string]any{"spec": spec, "epoch_length": w.L, "order": strings.Join(w.order, ""), "history": w.log})
}

func vsAnnShape(a *vsAnn) string { return fmt.Sprintf("%d:%s", len(a.ed.kps), vsCfgStr(a.cd)) }

func vsIdxKind(h *types.Header) (int, string) {
	v, err := h.Digest[0].Value()
	if err != nil {
		return 0, "?"
	}
	pre, ok := v.(types.PreRuntimeDigest)
	if !ok {
		return 0, "?"
	}
	d, err := types.DecodeBabePreDigest(pre.Data)
	if err != nil {
		return 0, "?"
	}
	switch t := d.(type) {
	case types.BabePrimaryPreDigest:
		return int(t.AuthorityIndex), "primary"
	case types.BabeSecondaryPlainPreDigest:
		return int(t.AuthorityIndex), "secondary_plain"
	case types.BabeSecondaryVRFPreDigest:
		return int(t.AuthorityIndex), "secondary_vrf"
	}
	return 0, "?"
}

func vsTest(t *testing.T, prop, group string, corpus, n, twins int, floors map[string]int) {
	r := vcommon.Start(t, prop)
	defer r.Finish()
	for k, v := range floors {
		r.Floor("vs_"+k, v)
	}
	r.Fixed(group+"_corpus", corpus, func(c *vcommon.Case) {
		vsRun(c, vsSpec{Seed: 0x5eed0000 + uint64(c.Idx), Variant: vsVariants[c.Idx%len(vsVariants)], K: (c.Idx/len(vsVariants) + c.Idx) % 3, Twins: twins})
	})
	r.Cases(group, r.Scale(n), func(c *vcommon.Case) {
		vsRun(c, vsSpec{Seed: c.R.Uint64(), Variant: vcommon.Pick(c.R, vsVariants), K: c.R.Intn(3), Twins: twins})
	})
}

// TestVerifC24Stack: C24 at the consumer - VerifyBlock over real states accepts exactly the blocks authorised by
// the data of their own fork.
func TestVerifC24Stack(t *testing.T) {
	vsTest(t, "C24", "vstack24", 12, 28, 40, map[string]int{
		"diverged_blocks_fork_A": 40, "diverged_blocks_fork_B": 40, "fork_switches": 60, "cross_fork_rejections": 40,
		"prev_epoch_rejections": 15, "equivocation_pairs": 25, "reverify_identical": 40, "claim_primary": 20, "claim_secondary_plain": 20,
		"claim_secondary_vrf": 20, "skip_probe_accepts": 15, "skip_cross_rejections": 8, "info_compared": 100,
	})
}

// TestVerifC26Stack: C26 at the consumer - the epoch data / configuration the manager resolves for a header is the
// one announced on that header's own ancestry, whatever was verified or imported before.
func TestVerifC26Stack(t *testing.T) {
	vsTest(t, "C26", "vstack26", 12, 28, 25, map[string]int{
		"diverged_blocks_fork_A": 40, "diverged_blocks_fork_B": 40, "fork_switches": 60, "cross_fork_rejections": 40,
		"info_compared_diverged_fork_A": 40, "info_compared_diverged_fork_B": 40, "sweep_reverified": 80, "skip_probe_accepts": 15,
		"skip_cross_rejections": 8, "forked_at_genesis": 4, "variant_config": 2, "variant_config_absent": 2, "variant_randomness": 2,
		"variant_authorities": 2, "variant_count": 2, "variant_all": 2, "announcements_imported": 100,
	})
}

// TestVerifC27Stack: C27 at the consumer - the slot table behind VerifyBlock reports exactly the second different
// header of one author in one slot, with both headers, and never a repeated identical header.
func TestVerifC27Stack(t *testing.T) {
	vsTest(t, "C27", "vstack27", 6, 18, 100, map[string]int{
		"equivocation_pairs": 80, "equivocation_pairs_primary": 8, "equivocation_pairs_secondary_plain": 8, "equivocation_pairs_secondary_vrf": 8,
		"reverify_identical": 40, "reverify_after_twin": 80, "sweep_reverified": 40, "equivocations_detected": 80,
	})
}
