//go:build verif

// Engine verifstack: the production consumer of EpochState.GetEpochDataRaw / GetConfigData / GetEpochForBlock and
// SlotState.CheckEquivocation - lib/babe VerificationManager.VerifyBlock -> getVerifierInfo -> newVerifier ->
// verifyAuthorshipRight - driven over a REAL BlockState + EpochState + SlotState on an in-memory database.
//
// External test package of dot/state (may import lib/babe). Sealed headers are produced with the node's own
// claim (Service.buildEpochData + claimSlot) and seal (BlockBuilder.buildBlockSeal) code through the shim
// inject/lib__babe/zz_verif_vstack_export.go. Ground truth = what the harness announced on each block's own
// ancestry (parent links only), the harness' own BLAKE2b model of the secondary author and a (slot, signer) table.
package state_test

import (
	"encoding/binary"
	"errors"
	"fmt"
	"math/big"
	"runtime/debug"
	"strings"
	"time"

	"github.com/ChainSafe/gossamer/dot/state"
	"github.com/ChainSafe/gossamer/dot/telemetry"
	"github.com/ChainSafe/gossamer/dot/types"
	"github.com/ChainSafe/gossamer/internal/database"
	"github.com/ChainSafe/gossamer/lib/babe"
	"github.com/ChainSafe/gossamer/lib/common"
	"github.com/ChainSafe/gossamer/lib/crypto/sr25519"
	"github.com/ChainSafe/gossamer/lib/runtime"
	"github.com/ChainSafe/gossamer/pkg/scale"
	"github.com/ChainSafe/gossamer/zz_verif/vcommon"
)

// One slot lasts 10^10 ms (~115 days): the verifier's wall-clock slot is a constant (179 in 2026) for the whole
// run and for months, every slot of a world lies in [10, 140] - not in the future, inside the 1000-slot window.
// No verdict and no generated value depends on the clock; the harness only checks the precondition.
const vsSlotDurationMs = 10_000_000_000

var vsBaseTime = time.Unix(1_700_000_000, 0)

type vsRuntime struct {
	runtime.Instance
	reported []types.BabeEquivocationProof
}

func (f *vsRuntime) BabeGenerateKeyOwnershipProof(uint64, [32]byte) (types.OpaqueKeyOwnershipProof, error) {
	return types.OpaqueKeyOwnershipProof{1, 2, 3}, nil
}

func (f *vsRuntime) BabeSubmitReportEquivocationUnsignedExtrinsic(p types.BabeEquivocationProof,
	_ types.OpaqueKeyOwnershipProof) error {
	f.reported = append(f.reported, p)
	return nil
}

func (f *vsRuntime) Stop() {}

// ---------------------------------------------------------------- data

type vsData struct {
	tag   string
	seeds [][]byte
	kps   []*sr25519.Keypair
	raw   *types.EpochDataRaw
}

func vsDataFrom(tag string, seeds [][]byte, rnd [32]byte) *vsData {
	d := &vsData{tag: tag, seeds: seeds, raw: &types.EpochDataRaw{Randomness: rnd}}
	for _, s := range seeds {
		kp, err := sr25519.NewKeypairFromSeed(s)
		if err != nil {
			panic(fmt.Sprintf("keypair: %v", err))
		}
		d.kps = append(d.kps, kp)
		d.raw.Authorities = append(d.raw.Authorities, *types.NewAuthority(kp.Public(), 1).ToRaw())
	}
	return d
}

func vsNewData(r *vcommon.Rand, tag string, n int) *vsData {
	seeds := make([][]byte, n)
	for i := range seeds {
		seeds[i] = r.Bytes(32)
	}
	var rnd [32]byte
	copy(rnd[:], r.Bytes(32))
	return vsDataFrom(tag, seeds, rnd)
}

func (d *vsData) describe() map[string]any {
	s := make([]string, len(d.seeds))
	for i := range s {
		s[i] = vcommon.Hex(d.seeds[i])
	}
	return map[string]any{"tag": d.tag, "authority_seeds": s, "randomness": vcommon.Hex(d.raw.Randomness[:])}
}

func vsCfgStr(c *types.ConfigData) string {
	if c == nil {
		return "-"
	}
	return fmt.Sprintf("%d/%d,sec=%d", c.C1, c.C2, c.SecondarySlots)
}

func vsDrawCfg(r *vcommon.Rand) *types.ConfigData {
	cs := [][2]uint64{{1, 4}, {1, 2}, {1, 8}, {3, 4}}
	c := vcommon.Pick(r, cs)
	sec := byte(r.Range(1, 2))
	if r.Chance(1, 6) {
		sec, c = 0, [2]uint64{1, 1} // primary only: c = 1 so that every slot has an author
	}
	return &types.ConfigData{C1: c[0], C2: c[1], SecondarySlots: sec}
}

// vsSecondaryAuthor: BE(BLAKE2b-256(randomness || LE64(slot))) mod n - the harness' own model.
func vsSecondaryAuthor(rnd [32]byte, slot uint64, n int) uint32 {
	buf := make([]byte, 40)
	copy(buf, rnd[:])
	binary.LittleEndian.PutUint64(buf[32:], slot)
	h := vcommon.Blake256(buf)
	return uint32(new(big.Int).Mod(new(big.Int).SetBytes(h[:]), big.NewInt(int64(n))).Uint64())
}

type vsAnn struct {
	ed *vsData
	cd *types.ConfigData
}

// ---------------------------------------------------------------- world

type vsSpec struct {
	Seed    uint64 `json:"world_seed"`
	Variant string `json:"variant"` // how the two forks' announcements for epoch K+1 differ
	K       int    `json:"fork_epoch"`
	Twins   int    `json:"twin_chance_pct"`
}

type vsBlock struct {
	idx, parent int
	fork        string // G, T, A, B
	number      uint
	slot, first uint64
	epoch       uint64
	header      *types.Header
	hash        common.Hash
	annEpoch    uint64
	ann         *vsAnn
}

type vsWorld struct {
	c    *vcommon.Case
	spec vsSpec
	r    *vcommon.Rand
	db   database.Database
	bs   *state.BlockState
	es   *state.EpochState
	ss   *state.SlotState
	mgr  *babe.VerificationManager
	rt   *vsRuntime

	L       uint64
	gen     *vsAnn
	blocks  []*vsBlock
	slotTab map[string]common.Hash
	log     []string // readable history for witnesses
	divFrom uint64   // first epoch whose data differs between the forks (K+1)
	last    string   // fork of the previous verification in a diverged epoch
	order   []string
	ext     uint64
}

func (w *vsWorld) count(name string, n int) { w.c.Count("vs_"+name, n) }

func (w *vsWorld) witness(extra map[string]any) map[string]any {
	m := map[string]any{"spec": w.spec, "epoch_length": w.L, "genesis": w.gen.ed.describe(), "genesis_config": vsCfgStr(w.gen.cd),
		"history": w.log}
	for k, v := range extra {
		m[k] = v
	}
	return m
}

func (w *vsWorld) chain(i int) []*vsBlock {
	var out []*vsBlock
	for ; i >= 0; i = w.blocks[i].parent {
		out = append(out, w.blocks[i])
	}
	return out
}

// edFor / cdFor: ground truth from parent links - what the ancestry of (a child of) block p announced.
func (w *vsWorld) edFor(p int, de uint64) *vsData {
	if de == 0 {
		return w.gen.ed
	}
	for _, b := range w.chain(p) {
		if b.ann != nil && b.annEpoch == de && b.ann.ed != nil {
			return b.ann.ed
		}
	}
	return nil
}

func (w *vsWorld) cdFor(p int, de uint64) *types.ConfigData {
	for t := de; t >= 1; t-- {
		for _, b := range w.chain(p) {
			if b.ann != nil && b.annEpoch == t && b.ann.cd != nil {
				return b.ann.cd
			}
		}
	}
	return w.gen.cd
}

// place computes number / first slot / epoch / data epoch of a header with parent p at slot (the model of
// GetEpochForBlock and of VerifyBlock's skipped-epoch rule).
func (w *vsWorld) place(p *vsBlock, slot uint64) (number uint, first, epoch, dataEpoch uint64) {
	number = p.number + 1
	if number == 1 {
		return 1, slot, 0, 0
	}
	first = p.first
	epoch = (slot - first) / w.L
	dataEpoch = epoch
	if epoch > p.epoch+1 {
		dataEpoch = p.epoch + 1
	}
	return
}

type vsHeader struct {
	h      *types.Header
	idx    int
	kind   string
	slot   uint64
	epoch  uint64
	by     *vsData
	byCfg  *types.ConfigData
	parent *vsBlock
}

func vsKind(pre *types.PreRuntimeDigest) string {
	d, err := types.DecodeBabePreDigest(pre.Data)
	if err != nil {
		return "undecodable"
	}
	switch d.(type) {
	case types.BabePrimaryPreDigest:
		return "primary"
	case types.BabeSecondaryPlainPreDigest:
		return "secondary_plain"
	case types.BabeSecondaryVRFPreDigest:
		return "secondary_vrf"
	}
	return "?"
}

// author builds a sealed header on parent p at slot with the production claim + seal code under (data, cfg).
// want >= 0 pins the authority; otherwise the first authority (from a drawn start) whose lottery yields a claim.
func (w *vsWorld) author(p *vsBlock, slot, epoch uint64, data *vsData, cfg *types.ConfigData, want int, ann *vsAnn) (*vsHeader, error) {
	n := len(data.kps)
	start := w.r.Intn(n)
	var pre *types.PreRuntimeDigest
	idx := -1
	for t := 0; t < n; t++ {
		i := (start + t) % n
		if want >= 0 {
			i = want
		}
		got, err := babe.VerifVSClaim(data.kps[i], epoch, slot, data.raw, cfg)
		if err != nil {
			return nil, fmt.Errorf("claim: %w", err)
		}
		if got != nil {
			pre, idx = got, i
			break
		}
		if want >= 0 {
			break
		}
	}
	if pre == nil {
		return nil, nil
	}
	digest := types.NewDigest()
	if err := digest.Add(*pre); err != nil {
		return nil, err
	}
	if ann != nil {
		addCons := func(v any) error {
			d := types.NewBabeConsensusDigest()
			if err := d.SetValue(v); err != nil {
				return err
			}
			enc, err := scale.Marshal(d)
			if err != nil {
				return err
			}
			return digest.Add(types.ConsensusDigest{ConsensusEngineID: types.BabeEngineID, Data: enc})
		}
		if ann.ed != nil {
			if err := addCons(types.NextEpochData{Authorities: ann.ed.raw.Authorities, Randomness: ann.ed.raw.Randomness}); err != nil {
				return nil, err
			}
		}
		if ann.cd != nil {
			v := types.NewVersionedNextConfigData()
			if err := v.SetValue(types.NextConfigDataV1{C1: ann.cd.C1, C2: ann.cd.C2, SecondarySlots: ann.cd.SecondarySlots}); err != nil {
				return nil, err
			}
			if err := addCons(v); err != nil {
				return nil, err
			}
		}
	}
	w.ext++
	var ext, root common.Hash
	binary.LittleEndian.PutUint64(ext[:], w.ext)
	binary.LittleEndian.PutUint64(root[:], w.spec.Seed)
	ext[31], root[31] = 0x24, 0x26
	h := types.NewHeader(p.hash, root, ext, p.number+1, digest)
	seal, err := babe.VerifVSSeal(data.kps[idx], h)
	if err != nil {
		return nil, err
	}
	if err = h.Digest.Add(*seal); err != nil {
		return nil, err
	}
	h = types.NewHeader(h.ParentHash, h.StateRoot, h.ExtrinsicsRoot, h.Number, h.Digest) // fresh hash cache
	return &vsHeader{h: h, idx: idx, kind: vsKind(pre), slot: slot, epoch: epoch, by: data, byCfg: cfg, parent: p}, nil
}

// authorised: is a header honestly claimed and sealed under (x.by, x.byCfg) authorised under (own, ownCfg)?
// +1 yes, 0 no, -1 not decidable by the model (primary claim against another threshold).
func vsAuthorised(x *vsHeader, own *vsData, ownCfg *types.ConfigData) int {
	n := len(own.kps)
	if x.idx >= n {
		return 0
	}
	if own.raw.Authorities[x.idx].Key != x.by.raw.Authorities[x.idx].Key {
		return 0 // VRF / seal made with another key (schnorrkel soundness trusted)
	}
	sameRnd := own.raw.Randomness == x.by.raw.Randomness
	switch x.kind {
	case "primary":
		if !sameRnd {
			return 0 // VRF proof over another transcript
		}
		if n == len(x.by.kps) && ownCfg.C1*x.byCfg.C2 == x.byCfg.C1*ownCfg.C2 {
			return 1
		}
		return -1
	case "secondary_vrf":
		if ownCfg.SecondarySlots != 2 || !sameRnd {
			return 0
		}
	case "secondary_plain":
		if ownCfg.SecondarySlots != 1 {
			return 0
		}
	default:
		return -1
	}
	if vsSecondaryAuthor(own.raw.Randomness, x.slot, n) == uint32(x.idx) {
		return 1
	}
	return 0
}

func (w *vsWorld) verify(h *types.Header) (err error, panicked string) {
	defer func() {
		if p := recover(); p != nil {
			panicked = fmt.Sprintf("%v\n%s", p, debug.Stack())
		}
	}()
	return w.mgr.VerifyBlock(h), ""
}

func vsErr(err error) string {
	if err == nil {
		return "accepted"
	}
	return "rejected: " + err.Error()
}

// judge verifies x through the shared manager and compares with the model. label names the probe.
// Returns whether the verdict agreed with the model.
func (w *vsWorld) judge(label, fork string, x *vsHeader, hdr *types.Header) bool {
	p := x.parent
	_, _, epoch, de := w.place(p, x.slot)
	own, ownCfg := w.edFor(p.idx, de), w.cdFor(p.idx, de)
	exp := 0
	if own != nil {
		exp = vsAuthorised(x, own, ownCfg)
	}
	line := fmt.Sprintf("%s fork=%s parent=b%d #%d slot=%d epoch=%d data_epoch=%d kind=%s idx=%d by=%s(%s) own=%s(%s)", label, fork, p.idx,
		p.number+1, x.slot, epoch, de, x.kind, x.idx, x.by.tag, vsCfgStr(x.byCfg), vsTag(own), vsCfgStr(ownCfg))
	if epoch >= w.divFrom || de >= w.divFrom {
		if w.last != "" && w.last != fork {
			w.count("fork_switches", 1)
		}
		w.last = fork
	}
	n0 := len(w.rt.reported)
	hash := hdr.Hash()
	err, panicked := w.verify(hdr)
	w.c.Eval(1)
	if panicked != "" {
		w.log = append(w.log, line+" => PANIC")
		w.c.Violation("panic", "VerifyBlock panicked", w.witness(map[string]any{"probe": line, "panic": panicked}))
		return false
	}
	w.log = append(w.log, line+" => "+vsErr(err))
	if hdr.Hash() != hash || len(hdr.Digest) != len(x.h.Digest) {
		w.c.Violation("header_mutated", "VerifyBlock left the header changed", w.witness(map[string]any{"probe": line}))
		return false
	}
	equivErr := errors.Is(err, babe.ErrProducerEquivocated)
	fail := func(class, msg string) bool {
		w.c.Violation(class, msg, w.witness(map[string]any{"probe": line, "verdict": vsErr(err), "header": vsHeaderHex(hdr)}))
		return false
	}
	switch exp {
	case 0:
		if err == nil || equivErr {
			return fail("false_accept", "a block not authorised by the epoch data / configuration of its OWN ancestry passed claim and seal verification")
		}
		if len(w.rt.reported) != n0 {
			return fail("equivocation_spurious", "an unauthorised block produced an equivocation report")
		}
		return true
	case -1:
		w.count("undecided_by_model", 1)
		if err == nil || equivErr {
			w.record(x, own, hash)
		}
		return true
	}
	key := w.slotKey(x, own)
	prev, had := w.slotTab[key]
	wantEquiv := had && prev != hash
	if !had {
		w.slotTab[key] = hash
	}
	switch {
	case wantEquiv && equivErr:
		if len(w.rt.reported) != n0+1 {
			return fail("equivocation_report", fmt.Sprintf("%d equivocation proofs handed to the runtime for one header", len(w.rt.reported)-n0))
		}
		pr := w.rt.reported[n0]
		if pr.Slot != x.slot || pr.Offender != own.raw.Authorities[x.idx].Key || pr.FirstHeader.Hash() != prev || pr.SecondHeader.Hash() != hash {
			return fail("equivocation_report", "the equivocation proof does not carry slot / offender / both headers")
		}
		w.count("equivocations_detected", 1)
		return true
	case wantEquiv && err == nil:
		return fail("equivocation_missed", "second different header by the same author in the same slot was accepted")
	case !wantEquiv && equivErr:
		return fail("equivocation_spurious", "ErrProducerEquivocated although this author had no other header recorded for the slot")
	case err != nil:
		return fail("false_reject", "a block authored and sealed per the epoch data / configuration announced on its own ancestry was rejected")
	}
	if len(w.rt.reported) != n0 {
		return fail("equivocation_spurious", "an accepted block produced an equivocation report")
	}
	return true
}

func vsTag(d *vsData) string {
	if d == nil {
		return "none"
	}
	return d.tag
}

func (w *vsWorld) slotKey(x *vsHeader, own *vsData) string {
	k := own.raw.Authorities[x.idx].Key
	return fmt.Sprintf("%d|%x", x.slot, k[:])
}

func (w *vsWorld) record(x *vsHeader, own *vsData, hash common.Hash) {
	if own == nil || x.idx >= len(own.kps) {
		return
	}
	if _, had := w.slotTab[w.slotKey(x, own)]; !had {
		w.slotTab[w.slotKey(x, own)] = hash
	}
}

func vsHeaderHex(h *types.Header) string {
	enc, err := scale.Marshal(*h)
	if err != nil {
		return "unencodable: " + err.Error()
	}
	return vcommon.Hex(enc)
}

// checkInfo compares what getVerifierInfo resolves for (data epoch, header) with the ancestry model.
func (w *vsWorld) checkInfo(fork string, x *vsHeader) {
	p := x.parent
	_, _, epoch, de := w.place(p, x.slot)
	own, ownCfg := w.edFor(p.idx, de), w.cdFor(p.idx, de)
	info, err := babe.VerifVSGetVerifierInfo(w.mgr, de, x.h)
	w.c.Eval(1)
	wit := func(msg string) map[string]any {
		return w.witness(map[string]any{"fork": fork, "parent": p.idx, "slot": x.slot, "epoch": epoch, "data_epoch": de, "detail": msg})
	}
	if own == nil {
		if err == nil {
			w.c.Violation("info_for_unannounced_epoch", "getVerifierInfo returned data for an epoch nothing on the ancestry announced", wit(""))
		}
		return
	}
	if err != nil {
		w.c.Violation("info_lookup_failed", "getVerifierInfo failed although the ancestry announced the epoch", wit(err.Error()))
		return
	}
	thr, terr := babe.VerifVSThreshold(ownCfg.C1, ownCfg.C2, len(own.kps))
	if terr != nil {
		w.c.Inconclusive("threshold: " + terr.Error())
		return
	}
	var bad []string
	if len(info.Authorities) != len(own.raw.Authorities) {
		bad = append(bad, fmt.Sprintf("%d authorities, ancestry announced %d", len(info.Authorities), len(own.raw.Authorities)))
	} else {
		for i := range info.Authorities {
			if info.Authorities[i] != own.raw.Authorities[i] {
				bad = append(bad, fmt.Sprintf("authority %d differs", i))
			}
		}
	}
	if info.Randomness != babe.Randomness(own.raw.Randomness) {
		bad = append(bad, "randomness "+vcommon.Hex(info.Randomness[:]))
	}
	if info.SecondarySlots != (ownCfg.SecondarySlots > 0) || byte(info.AllowedSlots) != ownCfg.SecondarySlots {
		bad = append(bad, fmt.Sprintf("secondary slots %v/%d, ancestry configuration %d", info.SecondarySlots, info.AllowedSlots, ownCfg.SecondarySlots))
	}
	if info.Threshold == nil || info.Threshold.Compare(thr) != 0 {
		bad = append(bad, fmt.Sprintf("threshold %v, expected %v for c=%d/%d n=%d", info.Threshold, thr, ownCfg.C1, ownCfg.C2, len(own.kps)))
	}
	if len(bad) > 0 {
		w.c.Violation("info_mismatch", "verifier info differs from what the block's own ancestry announced: "+strings.Join(bad, "; "),
			wit(fmt.Sprintf("own=%s(%s)", own.tag, vsCfgStr(ownCfg))))
		return
	}
	w.count("info_compared", 1)
	if de >= w.divFrom {
		w.count("info_compared_diverged_fork_"+fork, 1)
	}
}

func (w *vsWorld) importBlock(fork string, x *vsHeader, ann *vsAnn, annEpoch uint64) (*vsBlock, error) {
	number, first, epoch, _ := w.place(x.parent, x.slot)
	idx := len(w.blocks)
	err := w.bs.AddBlockWithArrivalTime(&types.Block{Header: *x.h, Body: types.Body{}}, vsBaseTime.Add(time.Duration(idx)*time.Second))
	if err != nil {
		return nil, fmt.Errorf("AddBlock: %w", err)
	}
	b := &vsBlock{idx: idx, parent: x.parent.idx, fork: fork, number: number, slot: x.slot, first: first, epoch: epoch, header: x.h,
		hash: x.h.Hash(), ann: ann, annEpoch: annEpoch}
	w.blocks = append(w.blocks, b)
	w.log = append(w.log, fmt.Sprintf("import b%d fork=%s parent=b%d #%d slot=%d epoch=%d announces(epoch %d)=%s", idx, fork, x.parent.idx, number,
		x.slot, epoch, annEpoch, vsAnnStr(ann)))
	// what block import does with the BABE consensus digests (dot/digest BlockImportHandler)
	for _, item := range x.h.Digest {
		v, err := item.Value()
		if err != nil {
			return nil, err
		}
		cd, ok := v.(types.ConsensusDigest)
		if !ok || cd.ConsensusEngineID != types.BabeEngineID {
			continue
		}
		d := types.NewBabeConsensusDigest()
		if err = scale.Unmarshal(cd.Data, &d); err != nil {
			return nil, fmt.Errorf("decoding own consensus digest: %w", err)
		}
		if err = w.es.HandleBABEDigest(x.h, d); err != nil {
			return nil, fmt.Errorf("HandleBABEDigest: %w", err)
		}
		w.count("announcements_imported", 1)
	}
	return b, nil
}

func vsAnnStr(a *vsAnn) string {
	if a == nil {
		return "-"
	}
	return vsTag(a.ed) + "(" + vsCfgStr(a.cd) + ")"
}

func vsNewWorld(c *vcommon.Case, spec vsSpec) (*vsWorld, error) {
	db, err := database.NewPebble("", true)
	if err != nil {
		return nil, err
	}
	w := &vsWorld{c: c, spec: spec, r: vcommon.NewRand(spec.Seed), db: db, rt: &vsRuntime{}, slotTab: map[string]common.Hash{}}
	r := w.r
	w.L = uint64(r.Range(8, 14))
	w.gen = &vsAnn{ed: vsNewData(r, "genesis", r.Range(2, 4)), cd: vsDrawCfg(r)}
	var root common.Hash
	binary.LittleEndian.PutUint64(root[:], spec.Seed)
	genesis := types.NewHeader(common.Hash{}, root, common.Hash{}, 0, types.NewDigest())
	if w.bs, err = state.NewBlockStateFromGenesis(db, state.NewTries(), genesis, telemetry.NewNoopMailer()); err != nil {
		_ = db.Close()
		return nil, err
	}
	cfg := &types.BabeConfiguration{SlotDuration: vsSlotDurationMs, EpochLength: w.L, C1: w.gen.cd.C1, C2: w.gen.cd.C2,
		SecondarySlots: w.gen.cd.SecondarySlots, GenesisAuthorities: w.gen.ed.raw.Authorities, Randomness: w.gen.ed.raw.Randomness}
	if w.es, err = state.NewEpochStateFromGenesis(db, w.bs, cfg); err != nil {
		_ = db.Close()
		return nil, err
	}
	w.ss = state.NewSlotState(db)
	w.bs.StoreRuntime(w.bs.GenesisHash(), w.rt)
	w.mgr = babe.NewVerificationManager(w.bs, w.ss, w.es)
	w.blocks = []*vsBlock{{idx: 0, parent: -1, fork: "G", header: genesis, hash: genesis.Hash()}}
	return w, nil
}
