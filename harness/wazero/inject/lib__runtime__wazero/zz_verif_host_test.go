//go:build verif

package wazero_runtime

import (
	"context"
	"fmt"
	"sync"

	"github.com/ChainSafe/gossamer/lib/runtime"
	"github.com/ChainSafe/gossamer/lib/runtime/allocator"
	"github.com/ChainSafe/gossamer/lib/runtime/storage"
	inmemory_trie "github.com/ChainSafe/gossamer/pkg/trie/inmemory"
	"github.com/tetratelabs/wazero"
	"github.com/tetratelabs/wazero/api"
)

// verifWasm is the hand-assembled binary of
//
//	(module (memory (export "memory") 20))
//
// i.e. the smallest guest that gives the host functions a linear memory to
// read their arguments from and write their results to.
var verifWasm = []byte{
	0x00, 0x61, 0x73, 0x6d, // \0asm
	0x01, 0x00, 0x00, 0x00, // version 1
	0x05, 0x03, 0x01, 0x00, 0x14, // memory section: 1 memory, no max, min 20 pages
	0x07, 0x0a, 0x01, 0x06, 'm', 'e', 'm', 'o', 'r', 'y', 0x02, 0x00, // export "memory" = memory 0
}

const verifHeapBase = 4096

// verifHost is one wazero runtime + one instantiated guest per test process.
type verifHost struct {
	rt  wazero.Runtime
	mod api.Module
}

var (
	verifHostOnce sync.Once
	verifHostVal  *verifHost
	verifHostErr  error
)

func getVerifHost() (*verifHost, error) {
	verifHostOnce.Do(func() {
		ctx := context.Background()
		rt := wazero.NewRuntimeWithConfig(ctx, wazero.NewRuntimeConfigInterpreter())
		mod, err := rt.Instantiate(ctx, verifWasm)
		if err != nil {
			verifHostErr = fmt.Errorf("instantiating the memory-only guest: %w", err)
			return
		}
		if mod.Memory() == nil {
			verifHostErr = fmt.Errorf("guest exports no memory")
			return
		}
		verifHostVal = &verifHost{rt: rt, mod: mod}
	})
	return verifHostVal, verifHostErr
}

// verifCall is the per-case calling environment of the host functions: the
// context value they look up, a fresh real allocator, a real TrieState.
type verifCall struct {
	h   *verifHost
	ctx context.Context
	rc  *runtime.Context
	ts  *storage.TrieState
}

func (h *verifHost) newCall() *verifCall {
	ts := storage.NewTrieState(inmemory_trie.NewEmptyTrie())
	rc := &runtime.Context{
		Storage:   ts,
		Allocator: allocator.NewFreeingBumpHeapAllocator(verifHeapBase),
	}
	return &verifCall{
		h:   h,
		rc:  rc,
		ts:  ts,
		ctx: context.WithValue(context.Background(), runtimeContextKey, rc),
	}
}

// put copies data into guest memory the way Instance.Exec does (through the
// runtime allocator) and returns the pointer-size span.
func (vc *verifCall) put(data []byte) (uint64, error) {
	mem := vc.h.mod.Memory()
	ptr, err := vc.rc.Allocator.Allocate(mem, uint32(len(data)))
	if err != nil {
		return 0, fmt.Errorf("allocating %d guest bytes: %w", len(data), err)
	}
	if !mem.Write(ptr, data) {
		return 0, fmt.Errorf("guest write of %d bytes at %d out of range", len(data), ptr)
	}
	return newPointerSize(ptr, uint32(len(data))), nil
}

// read32 reads the 32-byte result a host function left at ptr.
func (vc *verifCall) read32(ptr uint32) (out [32]byte, ok bool) {
	b, ok := vc.h.mod.Memory().Read(ptr, 32)
	if !ok {
		return out, false
	}
	copy(out[:], b)
	return out, true
}
