//go:build verif

package wazero_runtime

// Shared machinery of TestVerifC09Bind / TestVerifC10Bind: the BINDING layer
// of the host API (newRuntime in instance.go + the generic wrappers of
// types.go) is driven the way a runtime drives it — a wasm guest imports
// env.memory and env.ext_* and calls them — and every call is compared with
// the same Go host function called directly in a second, independent world.

import (
	"bytes"
	"context"
	"fmt"
	"sort"
	"strings"
	"sync"

	"github.com/ChainSafe/gossamer/internal/log"
	"github.com/ChainSafe/gossamer/lib/keystore"
	"github.com/ChainSafe/gossamer/lib/runtime"
	"github.com/ChainSafe/gossamer/lib/runtime/allocator"
	"github.com/ChainSafe/gossamer/lib/runtime/storage"
	inmemory_trie "github.com/ChainSafe/gossamer/pkg/trie/inmemory"
	"github.com/tetratelabs/wazero/api"
)

// ---------------------------------------------------------------- wasm assembler

func wU32(n uint32) []byte {
	var out []byte
	for {
		b := byte(n & 0x7f)
		n >>= 7
		if n != 0 {
			out = append(out, b|0x80)
			continue
		}
		return append(out, b)
	}
}

func wS32(v int32) []byte {
	var out []byte
	for {
		b := byte(v & 0x7f)
		v >>= 7
		if (v == 0 && b&0x40 == 0) || (v == -1 && b&0x40 != 0) {
			return append(out, b)
		}
		out = append(out, b|0x80)
	}
}

func wName(s string) []byte { return append(wU32(uint32(len(s))), s...) }

func wVec(items [][]byte) []byte {
	out := wU32(uint32(len(items)))
	for _, it := range items {
		out = append(out, it...)
	}
	return out
}

func wSection(id byte, body []byte) []byte {
	return append(append([]byte{id}, wU32(uint32(len(body)))...), body...)
}

// wValTypes: 'l' = i64, 'i' = i32.
func wValTypes(s string) []byte {
	out := wU32(uint32(len(s)))
	for _, ch := range s {
		if ch == 'l' {
			out = append(out, 0x7e)
		} else {
			out = append(out, 0x7f)
		}
	}
	return out
}

func bindSplitSig(sig string) (params, results string) {
	i := strings.IndexByte(sig, '>')
	return sig[:i], sig[i+1:]
}

// buildBindGuest assembles
//
//	(module
//	  (import "env" "memory" (memory 20))
//	  (import "env" "<name>" (func (type sig)))...
//	  (global (export "__heap_base") i32 (i32.const heapBase))
//	  (func (export "call_<name>") (type sig) local.get 0 .. local.get n-1  call $<name>)...)
//
// the shape of a real Substrate runtime blob as far as the host is concerned.
func buildBindGuest(names []string, sigs map[string]string, heapBase int32) []byte {
	typeIdx := map[string]int{}
	var types, imports, funcs, exports, code [][]byte
	imports = append(imports, append(append(wName("env"), wName("memory")...), 0x02, 0x00, 20))
	for _, n := range names {
		sig := sigs[n]
		if _, ok := typeIdx[sig]; !ok {
			typeIdx[sig] = len(types)
			p, r := bindSplitSig(sig)
			types = append(types, append(append([]byte{0x60}, wValTypes(p)...), wValTypes(r)...))
		}
		ti := wU32(uint32(typeIdx[sig]))
		imports = append(imports, append(append(append(wName("env"), wName(n)...), 0x00), ti...))
		funcs = append(funcs, ti)
	}
	exports = append(exports, append(append(wName("__heap_base"), 0x03), wU32(0)...))
	for i, n := range names {
		p, _ := bindSplitSig(sigs[n])
		exports = append(exports, append(append(wName("call_"+n), 0x00), wU32(uint32(len(names)+i))...))
		body := []byte{0x00}
		for k := range p {
			body = append(append(body, 0x20), wU32(uint32(k))...)
		}
		body = append(append(body, 0x10), wU32(uint32(i))...)
		body = append(body, 0x0b)
		code = append(code, append(wU32(uint32(len(body))), body...))
	}
	global := append(append([]byte{0x7f, 0x00, 0x41}, wS32(heapBase)...), 0x0b)

	out := []byte{0x00, 0x61, 0x73, 0x6d, 0x01, 0x00, 0x00, 0x00}
	if len(types) > 0 {
		out = append(out, wSection(1, wVec(types))...)
	}
	out = append(out, wSection(2, wVec(imports))...)
	if len(funcs) > 0 {
		out = append(out, wSection(3, wVec(funcs))...)
	}
	out = append(out, wSection(6, wVec([][]byte{global}))...)
	out = append(out, wSection(7, wVec(exports))...)
	if len(code) > 0 {
		out = append(out, wSection(10, wVec(code))...)
	}
	return out
}

// ---------------------------------------------------------------- independent signature table
//
// Written from the Polkadot Host API specification (appendix "Host API"), NOT
// from instance.go: 'l' = i64 (pointer-size span or u64), 'i' = i32 (pointer,
// u32 or bool). Names gossamer exports that are not in this table are counted
// (bind_export_untyped), never raised.
var bindSpecSigs = map[string]string{
	// storage
	"ext_storage_set_version_1":                  "ll>",
	"ext_storage_get_version_1":                  "l>l",
	"ext_storage_read_version_1":                 "lli>l",
	"ext_storage_clear_version_1":                "l>",
	"ext_storage_exists_version_1":               "l>i",
	"ext_storage_clear_prefix_version_1":         "l>",
	"ext_storage_clear_prefix_version_2":         "ll>l",
	"ext_storage_append_version_1":               "ll>",
	"ext_storage_root_version_1":                 ">l",
	"ext_storage_root_version_2":                 "i>l",
	"ext_storage_changes_root_version_1":         "l>l",
	"ext_storage_next_key_version_1":             "l>l",
	"ext_storage_start_transaction_version_1":    ">",
	"ext_storage_rollback_transaction_version_1": ">",
	"ext_storage_commit_transaction_version_1":   ">",
	// child storage
	"ext_default_child_storage_set_version_1":          "lll>",
	"ext_default_child_storage_get_version_1":          "ll>l",
	"ext_default_child_storage_read_version_1":         "llli>l",
	"ext_default_child_storage_clear_version_1":        "ll>",
	"ext_default_child_storage_storage_kill_version_1": "l>",
	"ext_default_child_storage_storage_kill_version_2": "ll>i",
	"ext_default_child_storage_storage_kill_version_3": "ll>l",
	"ext_default_child_storage_exists_version_1":       "ll>i",
	"ext_default_child_storage_clear_prefix_version_1": "ll>",
	"ext_default_child_storage_clear_prefix_version_2": "lll>l",
	"ext_default_child_storage_root_version_1":         "l>l",
	"ext_default_child_storage_root_version_2":         "li>l",
	"ext_default_child_storage_next_key_version_1":     "ll>l",
	// crypto
	"ext_crypto_ed25519_public_keys_version_1":                "i>l",
	"ext_crypto_ed25519_generate_version_1":                   "il>i",
	"ext_crypto_ed25519_sign_version_1":                       "iil>l",
	"ext_crypto_ed25519_verify_version_1":                     "ili>i",
	"ext_crypto_sr25519_public_keys_version_1":                "i>l",
	"ext_crypto_sr25519_generate_version_1":                   "il>i",
	"ext_crypto_sr25519_sign_version_1":                       "iil>l",
	"ext_crypto_sr25519_verify_version_1":                     "ili>i",
	"ext_crypto_sr25519_verify_version_2":                     "ili>i",
	"ext_crypto_ecdsa_generate_version_1":                     "il>i",
	"ext_crypto_ecdsa_verify_version_2":                       "ili>i",
	"ext_crypto_secp256k1_ecdsa_recover_version_1":            "ii>l",
	"ext_crypto_secp256k1_ecdsa_recover_version_2":            "ii>l",
	"ext_crypto_secp256k1_ecdsa_recover_compressed_version_1": "ii>l",
	"ext_crypto_secp256k1_ecdsa_recover_compressed_version_2": "ii>l",
	"ext_crypto_start_batch_verify_version_1":                 ">",
	"ext_crypto_finish_batch_verify_version_1":                ">i",
	// hashing
	"ext_hashing_keccak_256_version_1": "l>i",
	"ext_hashing_sha2_256_version_1":   "l>i",
	"ext_hashing_blake2_128_version_1": "l>i",
	"ext_hashing_blake2_256_version_1": "l>i",
	"ext_hashing_twox_64_version_1":    "l>i",
	"ext_hashing_twox_128_version_1":   "l>i",
	"ext_hashing_twox_256_version_1":   "l>i",
	// offchain
	"ext_offchain_is_validator_version_1":                  ">i",
	"ext_offchain_submit_transaction_version_1":            "l>l",
	"ext_offchain_network_state_version_1":                 ">l",
	"ext_offchain_timestamp_version_1":                     ">l",
	"ext_offchain_sleep_until_version_1":                   "l>",
	"ext_offchain_random_seed_version_1":                   ">i",
	"ext_offchain_local_storage_set_version_1":             "ill>",
	"ext_offchain_local_storage_clear_version_1":           "il>",
	"ext_offchain_local_storage_compare_and_set_version_1": "illl>i",
	"ext_offchain_local_storage_get_version_1":             "il>l",
	"ext_offchain_http_request_start_version_1":            "lll>l",
	"ext_offchain_http_request_add_header_version_1":       "ill>l",
	"ext_offchain_index_set_version_1":                     "ll>",
	"ext_offchain_index_clear_version_1":                   "l>",
	// trie
	"ext_trie_blake2_256_root_version_1":         "l>i",
	"ext_trie_blake2_256_root_version_2":         "li>i",
	"ext_trie_blake2_256_ordered_root_version_1": "l>i",
	"ext_trie_blake2_256_ordered_root_version_2": "li>i",
	"ext_trie_blake2_256_verify_proof_version_1": "illl>i",
	"ext_trie_blake2_256_verify_proof_version_2": "illli>i",
	// misc, allocator, logging
	"ext_misc_print_num_version_1":       "l>",
	"ext_misc_print_utf8_version_1":      "l>",
	"ext_misc_print_hex_version_1":       "l>",
	"ext_misc_runtime_version_version_1": "l>l",
	"ext_allocator_malloc_version_1":     "i>i",
	"ext_allocator_free_version_1":       "i>",
	"ext_logging_log_version_1":          "ill>",
	"ext_logging_max_level_version_1":    ">i",
}

func bindDefSig(d api.FunctionDefinition) string {
	enc := func(ts []api.ValueType) string {
		var sb strings.Builder
		for _, t := range ts {
			switch t {
			case api.ValueTypeI32:
				sb.WriteByte('i')
			case api.ValueTypeI64:
				sb.WriteByte('l')
			default:
				sb.WriteString(fmt.Sprintf("?%x", t))
			}
		}
		return sb.String()
	}
	return enc(d.ParamTypes()) + ">" + enc(d.ResultTypes())
}

// ---------------------------------------------------------------- direct calls (world B)
//
// One explicit closure per host function: the argument order and the integer
// conversions are spelled out here independently of types.go.
type bindDirectFn func(ctx context.Context, m api.Module, a []uint64) uint64

func u32(v uint64) uint32 { return uint32(v) }

var bindDirect = map[string]bindDirectFn{
	"ext_storage_set_version_1": func(c context.Context, m api.Module, a []uint64) uint64 {
		ext_storage_set_version_1(c, m, a[0], a[1])
		return 0
	},
	"ext_storage_get_version_1": func(c context.Context, m api.Module, a []uint64) uint64 {
		return ext_storage_get_version_1(c, m, a[0])
	},
	"ext_storage_read_version_1": func(c context.Context, m api.Module, a []uint64) uint64 {
		return ext_storage_read_version_1(c, m, a[0], a[1], u32(a[2]))
	},
	"ext_storage_clear_version_1": func(c context.Context, m api.Module, a []uint64) uint64 {
		ext_storage_clear_version_1(c, m, a[0])
		return 0
	},
	"ext_storage_exists_version_1": func(c context.Context, m api.Module, a []uint64) uint64 {
		return uint64(ext_storage_exists_version_1(c, m, a[0]))
	},
	"ext_storage_clear_prefix_version_1": func(c context.Context, m api.Module, a []uint64) uint64 {
		ext_storage_clear_prefix_version_1(c, m, a[0])
		return 0
	},
	"ext_storage_clear_prefix_version_2": func(c context.Context, m api.Module, a []uint64) uint64 {
		return ext_storage_clear_prefix_version_2(c, m, a[0], a[1])
	},
	"ext_storage_append_version_1": func(c context.Context, m api.Module, a []uint64) uint64 {
		ext_storage_append_version_1(c, m, a[0], a[1])
		return 0
	},
	"ext_storage_root_version_1": func(c context.Context, m api.Module, a []uint64) uint64 {
		return ext_storage_root_version_1(c, m)
	},
	"ext_storage_root_version_2": func(c context.Context, m api.Module, a []uint64) uint64 {
		return ext_storage_root_version_2(c, m, u32(a[0]))
	},
	"ext_storage_changes_root_version_1": func(c context.Context, m api.Module, a []uint64) uint64 {
		return ext_storage_changes_root_version_1(c, m, a[0])
	},
	"ext_storage_next_key_version_1": func(c context.Context, m api.Module, a []uint64) uint64 {
		return ext_storage_next_key_version_1(c, m, a[0])
	},
	"ext_storage_start_transaction_version_1": func(c context.Context, m api.Module, a []uint64) uint64 {
		ext_storage_start_transaction_version_1(c, m)
		return 0
	},
	"ext_storage_rollback_transaction_version_1": func(c context.Context, m api.Module, a []uint64) uint64 {
		ext_storage_rollback_transaction_version_1(c, m)
		return 0
	},
	"ext_storage_commit_transaction_version_1": func(c context.Context, m api.Module, a []uint64) uint64 {
		ext_storage_commit_transaction_version_1(c, m)
		return 0
	},
	"ext_default_child_storage_set_version_1": func(c context.Context, m api.Module, a []uint64) uint64 {
		ext_default_child_storage_set_version_1(c, m, a[0], a[1], a[2])
		return 0
	},
	"ext_default_child_storage_get_version_1": func(c context.Context, m api.Module, a []uint64) uint64 {
		return ext_default_child_storage_get_version_1(c, m, a[0], a[1])
	},
	"ext_default_child_storage_read_version_1": func(c context.Context, m api.Module, a []uint64) uint64 {
		return ext_default_child_storage_read_version_1(c, m, a[0], a[1], a[2], u32(a[3]))
	},
	"ext_default_child_storage_clear_version_1": func(c context.Context, m api.Module, a []uint64) uint64 {
		ext_default_child_storage_clear_version_1(c, m, a[0], a[1])
		return 0
	},
	"ext_default_child_storage_storage_kill_version_1": func(c context.Context, m api.Module, a []uint64) uint64 {
		ext_default_child_storage_storage_kill_version_1(c, m, a[0])
		return 0
	},
	"ext_default_child_storage_storage_kill_version_2": func(c context.Context, m api.Module, a []uint64) uint64 {
		return uint64(ext_default_child_storage_storage_kill_version_2(c, m, a[0], a[1]))
	},
	"ext_default_child_storage_storage_kill_version_3": func(c context.Context, m api.Module, a []uint64) uint64 {
		return ext_default_child_storage_storage_kill_version_3(c, m, a[0], a[1])
	},
	"ext_default_child_storage_exists_version_1": func(c context.Context, m api.Module, a []uint64) uint64 {
		return uint64(ext_default_child_storage_exists_version_1(c, m, a[0], a[1]))
	},
	"ext_default_child_storage_clear_prefix_version_1": func(c context.Context, m api.Module, a []uint64) uint64 {
		ext_default_child_storage_clear_prefix_version_1(c, m, a[0], a[1])
		return 0
	},
	"ext_default_child_storage_clear_prefix_version_2": func(c context.Context, m api.Module, a []uint64) uint64 {
		return ext_default_child_storage_clear_prefix_version_2(c, m, a[0], a[1], a[2])
	},
	"ext_default_child_storage_root_version_1": func(c context.Context, m api.Module, a []uint64) uint64 {
		return ext_default_child_storage_root_version_1(c, m, a[0])
	},
	"ext_default_child_storage_root_version_2": func(c context.Context, m api.Module, a []uint64) uint64 {
		return ext_default_child_storage_root_version_2(c, m, a[0], u32(a[1]))
	},
	"ext_default_child_storage_next_key_version_1": func(c context.Context, m api.Module, a []uint64) uint64 {
		return ext_default_child_storage_next_key_version_1(c, m, a[0], a[1])
	},
	"ext_hashing_keccak_256_version_1": func(c context.Context, m api.Module, a []uint64) uint64 {
		return uint64(ext_hashing_keccak_256_version_1(c, m, a[0]))
	},
	"ext_hashing_sha2_256_version_1": func(c context.Context, m api.Module, a []uint64) uint64 {
		return uint64(ext_hashing_sha2_256_version_1(c, m, a[0]))
	},
	"ext_hashing_blake2_128_version_1": func(c context.Context, m api.Module, a []uint64) uint64 {
		return uint64(ext_hashing_blake2_128_version_1(c, m, a[0]))
	},
	"ext_hashing_blake2_256_version_1": func(c context.Context, m api.Module, a []uint64) uint64 {
		return uint64(ext_hashing_blake2_256_version_1(c, m, a[0]))
	},
	"ext_hashing_twox_64_version_1": func(c context.Context, m api.Module, a []uint64) uint64 {
		return uint64(ext_hashing_twox_64_version_1(c, m, a[0]))
	},
	"ext_hashing_twox_128_version_1": func(c context.Context, m api.Module, a []uint64) uint64 {
		return uint64(ext_hashing_twox_128_version_1(c, m, a[0]))
	},
	"ext_hashing_twox_256_version_1": func(c context.Context, m api.Module, a []uint64) uint64 {
		return uint64(ext_hashing_twox_256_version_1(c, m, a[0]))
	},
	"ext_trie_blake2_256_root_version_1": func(c context.Context, m api.Module, a []uint64) uint64 {
		return uint64(ext_trie_blake2_256_root_version_1(c, m, a[0]))
	},
	"ext_trie_blake2_256_root_version_2": func(c context.Context, m api.Module, a []uint64) uint64 {
		return uint64(ext_trie_blake2_256_root_version_2(c, m, a[0], u32(a[1])))
	},
	"ext_trie_blake2_256_ordered_root_version_1": func(c context.Context, m api.Module, a []uint64) uint64 {
		return uint64(ext_trie_blake2_256_ordered_root_version_1(c, m, a[0]))
	},
	"ext_trie_blake2_256_ordered_root_version_2": func(c context.Context, m api.Module, a []uint64) uint64 {
		return uint64(ext_trie_blake2_256_ordered_root_version_2(c, m, a[0], u32(a[1])))
	},
	"ext_trie_blake2_256_verify_proof_version_1": func(c context.Context, m api.Module, a []uint64) uint64 {
		return uint64(ext_trie_blake2_256_verify_proof_version_1(c, m, u32(a[0]), a[1], a[2], a[3]))
	},
	"ext_trie_blake2_256_verify_proof_version_2": func(c context.Context, m api.Module, a []uint64) uint64 {
		return uint64(ext_trie_blake2_256_verify_proof_version_2(c, m, u32(a[0]), a[1], a[2], a[3], u32(a[4])))
	},
	"ext_misc_print_num_version_1": func(c context.Context, m api.Module, a []uint64) uint64 {
		ext_misc_print_num_version_1(c, m, a[0])
		return 0
	},
	"ext_misc_print_utf8_version_1": func(c context.Context, m api.Module, a []uint64) uint64 {
		ext_misc_print_utf8_version_1(c, m, a[0])
		return 0
	},
	"ext_misc_print_hex_version_1": func(c context.Context, m api.Module, a []uint64) uint64 {
		ext_misc_print_hex_version_1(c, m, a[0])
		return 0
	},
	"ext_misc_runtime_version_version_1": func(c context.Context, m api.Module, a []uint64) uint64 {
		return ext_misc_runtime_version_version_1(c, m, a[0])
	},
	"ext_allocator_malloc_version_1": func(c context.Context, m api.Module, a []uint64) uint64 {
		return uint64(ext_allocator_malloc_version_1(c, m, u32(a[0])))
	},
	"ext_allocator_free_version_1": func(c context.Context, m api.Module, a []uint64) uint64 {
		ext_allocator_free_version_1(c, m, u32(a[0]))
		return 0
	},
	"ext_logging_log_version_1": func(c context.Context, m api.Module, a []uint64) uint64 {
		ext_logging_log_version_1(c, m, int32(u32(a[0])), a[1], a[2])
		return 0
	},
	"ext_crypto_ed25519_verify_version_1": func(c context.Context, m api.Module, a []uint64) uint64 {
		return uint64(ext_crypto_ed25519_verify_version_1(c, m, u32(a[0]), a[1], u32(a[2])))
	},
	"ext_crypto_sr25519_verify_version_1": func(c context.Context, m api.Module, a []uint64) uint64 {
		return uint64(ext_crypto_sr25519_verify_version_1(c, m, u32(a[0]), a[1], u32(a[2])))
	},
	"ext_crypto_sr25519_verify_version_2": func(c context.Context, m api.Module, a []uint64) uint64 {
		return uint64(ext_crypto_sr25519_verify_version_2(c, m, u32(a[0]), a[1], u32(a[2])))
	},
	"ext_crypto_start_batch_verify_version_1": func(c context.Context, m api.Module, a []uint64) uint64 {
		ext_crypto_start_batch_verify_version_1(c, m)
		return 0
	},
	"ext_crypto_finish_batch_verify_version_1": func(c context.Context, m api.Module, a []uint64) uint64 {
		return uint64(ext_crypto_finish_batch_verify_version_1(c, m))
	},
	"ext_offchain_is_validator_version_1": func(c context.Context, m api.Module, a []uint64) uint64 {
		return uint64(ext_offchain_is_validator_version_1(c, m))
	},
}

// bindResKind: how the result of a host function is read back.
// "" nothing, "v" raw integer, "s" pointer-size span, "pN" pointer to N bytes.
var bindResKind = map[string]string{
	"ext_storage_get_version_1": "s", "ext_storage_read_version_1": "s", "ext_storage_exists_version_1": "v",
	"ext_storage_clear_prefix_version_2": "s", "ext_storage_root_version_1": "s", "ext_storage_root_version_2": "s",
	"ext_storage_changes_root_version_1": "s", "ext_storage_next_key_version_1": "s",
	"ext_default_child_storage_get_version_1": "s", "ext_default_child_storage_read_version_1": "s",
	"ext_default_child_storage_storage_kill_version_2": "v", "ext_default_child_storage_storage_kill_version_3": "s",
	"ext_default_child_storage_exists_version_1": "v", "ext_default_child_storage_clear_prefix_version_2": "s",
	"ext_default_child_storage_root_version_1": "s", "ext_default_child_storage_root_version_2": "s",
	"ext_default_child_storage_next_key_version_1": "s",
	"ext_hashing_keccak_256_version_1":             "p32", "ext_hashing_sha2_256_version_1": "p32",
	"ext_hashing_blake2_128_version_1": "p16", "ext_hashing_blake2_256_version_1": "p32",
	"ext_hashing_twox_64_version_1": "p8", "ext_hashing_twox_128_version_1": "p16", "ext_hashing_twox_256_version_1": "p32",
	"ext_trie_blake2_256_root_version_1": "p32", "ext_trie_blake2_256_root_version_2": "p32",
	"ext_trie_blake2_256_ordered_root_version_1": "p32", "ext_trie_blake2_256_ordered_root_version_2": "p32",
	"ext_trie_blake2_256_verify_proof_version_1": "v", "ext_trie_blake2_256_verify_proof_version_2": "v",
	"ext_misc_runtime_version_version_1": "s", "ext_allocator_malloc_version_1": "v",
	"ext_crypto_ed25519_verify_version_1": "v", "ext_crypto_sr25519_verify_version_1": "v",
	"ext_crypto_sr25519_verify_version_2": "v", "ext_crypto_finish_batch_verify_version_1": "v",
	"ext_offchain_is_validator_version_1": "v",
}

// ---------------------------------------------------------------- the production-built host + guest

const bindHeapBase = verifHeapBase

type bindHost struct {
	inst       *Instance
	env        api.Module
	guest      api.Module
	heapBase   uint32
	exports    map[string]string // every function export of env -> observed signature
	imported   []string          // names the guest imports (observed == specified signature)
	mismatch   map[string]string // name -> "observed vs specified"
	missing    []string          // specified, not exported
	untyped    []string          // exported, not in the table
	guestBytes int
}

var (
	bindHostOnce sync.Once
	bindHostVal  *bindHost
	bindHostErr  error
)

func bindNewInstance(code []byte) (*Instance, error) {
	return NewInstance(code, Config{
		LogLvl:         log.Critical,
		Keystore:       keystore.NewGlobalKeystore(),
		DefaultVersion: &runtime.Version{},
	})
}

// getBindHost builds the "env" host module through the production constructor
// NewInstance -> newRuntime. A first instance with a guest that imports only
// env.memory is used to list what env exports; the real guest then imports
// every export whose observed signature equals the specified one (an import
// with another signature would make instantiation fail as a whole).
func getBindHost() (*bindHost, error) {
	bindHostOnce.Do(func() {
		h := &bindHost{exports: map[string]string{}, mismatch: map[string]string{}}
		probe, err := bindNewInstance(buildBindGuest(nil, nil, bindHeapBase))
		if err != nil {
			bindHostErr = fmt.Errorf("NewInstance(probe guest): %w", err)
			return
		}
		penv := probe.Runtime.Module("env")
		if penv == nil {
			bindHostErr = fmt.Errorf("runtime has no module \"env\"")
			return
		}
		for name, d := range penv.ExportedFunctionDefinitions() {
			h.exports[name] = bindDefSig(d)
		}
		probe.Stop()
		for name, obs := range h.exports {
			spec, ok := bindSpecSigs[name]
			switch {
			case !ok:
				h.untyped = append(h.untyped, name)
			case spec != obs:
				h.mismatch[name] = fmt.Sprintf("exported as (%s), Host API says (%s)", obs, spec)
			default:
				h.imported = append(h.imported, name)
			}
		}
		for name := range bindSpecSigs {
			if _, ok := h.exports[name]; !ok {
				h.missing = append(h.missing, name)
			}
		}
		sort.Strings(h.imported)
		sort.Strings(h.untyped)
		sort.Strings(h.missing)

		code := buildBindGuest(h.imported, bindSpecSigs, bindHeapBase)
		h.guestBytes = len(code)
		inst, err := bindNewInstance(code)
		if err != nil {
			bindHostErr = fmt.Errorf("NewInstance(forwarding guest, %d imports): %w", len(h.imported), err)
			return
		}
		h.inst = inst
		h.guest = inst.Module
		h.env = inst.Runtime.Module("env")
		g := h.guest.ExportedGlobal("__heap_base")
		if g == nil || h.guest.Memory() == nil || h.env == nil {
			bindHostErr = fmt.Errorf("guest lacks __heap_base / memory / env")
			return
		}
		h.heapBase = api.DecodeU32(g.Get())
		bindHostVal = h
	})
	return bindHostVal, bindHostErr
}

// ---------------------------------------------------------------- worlds

type bindWorld struct {
	tag  string
	mod  api.Module
	ctx  context.Context
	rc   *runtime.Context
	ts   *storage.TrieState
	call func(fn string, args []uint64) (uint64, string)
}

func bindPanicText(r any) string {
	s := fmt.Sprint(r)
	if i := strings.IndexByte(s, '\n'); i >= 0 {
		s = s[:i]
	}
	return s
}

// worldA: calls go guest -> env import -> production binding -> Go function,
// set up like Instance.Exec does (fresh allocator at __heap_base, runtime
// context in the call's context.Context).
func (h *bindHost) worldA() *bindWorld {
	ts := storage.NewTrieState(inmemory_trie.NewEmptyTrie())
	rc := *h.inst.Context
	rc.Storage = ts
	rc.Allocator = allocator.NewFreeingBumpHeapAllocator(h.heapBase)
	w := &bindWorld{tag: "guest", mod: h.guest, rc: &rc, ts: ts}
	w.ctx = context.WithValue(context.Background(), runtimeContextKey, &rc)
	w.call = func(fn string, args []uint64) (uint64, string) {
		f := h.guest.ExportedFunction("call_" + fn)
		if f == nil {
			return 0, "no-forwarder"
		}
		res, err := f.Call(w.ctx, args...)
		if err != nil {
			return 0, "trap: " + bindPanicText(err)
		}
		_, results := bindSplitSig(bindSpecSigs[fn])
		if len(res) != len(results) {
			return 0, fmt.Sprintf("result-count %d", len(res))
		}
		if len(res) == 0 {
			return 0, ""
		}
		if results == "i" {
			// an i32 result occupies the low half of the 64-bit slot; wazero leaves the high half undefined
			return uint64(api.DecodeU32(res[0])), ""
		}
		return res[0], ""
	}
	return w
}

// worldB: the same Go functions called directly on the memory-only guest of
// zz_verif_host_test.go (own wazero runtime, own memory).
func bindWorldB(vh *verifHost, tmpl *runtime.Context) *bindWorld {
	ts := storage.NewTrieState(inmemory_trie.NewEmptyTrie())
	rc := *tmpl
	rc.Storage = ts
	rc.Allocator = allocator.NewFreeingBumpHeapAllocator(bindHeapBase)
	w := &bindWorld{tag: "direct", mod: vh.mod, rc: &rc, ts: ts}
	w.ctx = context.WithValue(context.Background(), runtimeContextKey, &rc)
	w.call = func(fn string, args []uint64) (res uint64, fail string) {
		d := bindDirect[fn]
		if d == nil {
			return 0, "no-direct"
		}
		defer func() {
			if r := recover(); r != nil {
				res, fail = 0, "trap: "+bindPanicText(r)
			}
		}()
		return d(w.ctx, vh.mod, args), ""
	}
	return w
}

// ---------------------------------------------------------------- operations

// bindArg kinds: 's' span holding data, 'p' i32 pointer to data, 'o' span of an
// output buffer of len(data) bytes (pre-filled with data), 'v' raw value,
// 'm' the pointer a previous malloc op (index val) returned.
type bindArg struct {
	kind byte
	data []byte
	val  uint64
}

type bindOp struct {
	fn   string
	args []bindArg
}

func aS(b []byte) bindArg { return bindArg{kind: 's', data: b} }
func aP(b []byte) bindArg { return bindArg{kind: 'p', data: b} }
func aO(b []byte) bindArg { return bindArg{kind: 'o', data: b} }
func aV(v uint64) bindArg { return bindArg{kind: 'v', val: v} }
func aM(i int) bindArg    { return bindArg{kind: 'm', val: uint64(i)} }

type bindOutcome struct {
	fail string   // "" or trap text
	raw  uint64   // raw result
	data []byte   // bytes behind the result (span / fixed pointer)
	outs [][]byte // contents of 'o' buffers after the call
	bad  string   // could not read the result
}

func (w *bindWorld) putBytes(data []byte) (uint32, error) {
	mem := w.mod.Memory()
	ptr, err := w.rc.Allocator.Allocate(mem, uint32(len(data)))
	if err != nil {
		return 0, err
	}
	if !mem.Write(ptr, data) {
		return 0, fmt.Errorf("guest write of %d bytes at %d out of range", len(data), ptr)
	}
	return ptr, nil
}

// exec runs one op; mallocs holds the pointers earlier malloc ops returned in this world.
func (w *bindWorld) exec(op bindOp, mallocs map[int]uint64, opIdx int) (out bindOutcome, err error) {
	args := make([]uint64, len(op.args))
	type ob struct {
		ptr uint32
		n   uint32
	}
	var obs []ob
	for i, a := range op.args {
		switch a.kind {
		case 'v':
			args[i] = a.val
		case 'm':
			args[i] = mallocs[int(a.val)]
		default:
			ptr, e := w.putBytes(a.data)
			if e != nil {
				return out, e
			}
			switch a.kind {
			case 'p':
				args[i] = uint64(ptr)
			default:
				args[i] = newPointerSize(ptr, uint32(len(a.data)))
			}
			if a.kind == 'o' {
				obs = append(obs, ob{ptr, uint32(len(a.data))})
			}
		}
	}
	out.raw, out.fail = w.call(op.fn, args)
	if out.fail != "" {
		return out, nil
	}
	mem := w.mod.Memory()
	for _, o := range obs {
		b, ok := mem.Read(o.ptr, uint64(o.n))
		if !ok {
			out.bad = "out buffer unreadable"
			return out, nil
		}
		out.outs = append(out.outs, append([]byte{}, b...))
	}
	switch k := bindResKind[op.fn]; {
	case k == "s":
		ptr, size := splitPointerSize(out.raw)
		if size > 1<<22 {
			out.bad = fmt.Sprintf("span size %d", size)
			return out, nil
		}
		b, ok := mem.Read(ptr, size)
		if !ok {
			out.bad = fmt.Sprintf("span %d+%d unreadable", ptr, size)
			return out, nil
		}
		out.data = append([]byte{}, b...)
	case strings.HasPrefix(k, "p"):
		n := uint32(32)
		fmt.Sscanf(k[1:], "%d", &n)
		if out.raw == 0 {
			out.data = nil // failure convention of the trie-root functions
			return out, nil
		}
		if out.raw > 0xffffffff {
			out.bad = fmt.Sprintf("i32 result %#x", out.raw)
			return out, nil
		}
		b, ok := mem.Read(uint32(out.raw), uint64(n))
		if !ok {
			out.bad = fmt.Sprintf("pointer %d unreadable", out.raw)
			return out, nil
		}
		out.data = append([]byte{}, b...)
	}
	if op.fn == "ext_allocator_malloc_version_1" {
		mallocs[opIdx] = out.raw
	}
	return out, nil
}

func bindOpWitness(op bindOp) map[string]any {
	var as []string
	for _, a := range op.args {
		switch a.kind {
		case 'v':
			as = append(as, fmt.Sprintf("%d", a.val))
		case 'm':
			as = append(as, fmt.Sprintf("malloc#%d", a.val))
		default:
			d := a.data
			suffix := ""
			if len(d) > 96 {
				d, suffix = d[:96], fmt.Sprintf("..(%d bytes)", len(a.data))
			}
			as = append(as, fmt.Sprintf("%c:0x%x%s", a.kind, d, suffix))
		}
	}
	return map[string]any{"fn": op.fn, "args": as}
}

func bindOutcomeText(o bindOutcome) string {
	if o.fail != "" {
		return o.fail
	}
	if o.bad != "" {
		return "unreadable result: " + o.bad
	}
	s := fmt.Sprintf("raw=%#x data=0x%x", o.raw, o.data)
	for _, b := range o.outs {
		s += fmt.Sprintf(" out=0x%x", b)
	}
	return s
}

// bindSameOutcome: the two worlds agree on what the caller can observe. Raw
// pointers are not compared (only what they point to), raw integers are.
func bindSameOutcome(fn string, a, b bindOutcome) bool {
	if (a.fail != "") != (b.fail != "") {
		return false
	}
	if a.fail != "" {
		return true
	}
	if a.bad != "" || b.bad != "" {
		return a.bad == "" && b.bad == ""
	}
	if bindResKind[fn] == "v" && fn != "ext_allocator_malloc_version_1" && a.raw != b.raw {
		return false
	}
	if strings.HasPrefix(bindResKind[fn], "p") && (a.raw == 0) != (b.raw == 0) {
		return false
	}
	if !bytes.Equal(a.data, b.data) || len(a.outs) != len(b.outs) {
		return false
	}
	for i := range a.outs {
		if !bytes.Equal(a.outs[i], b.outs[i]) {
			return false
		}
	}
	return true
}

func bindSameEntries(a, b map[string][]byte) (string, bool) {
	for k, v := range a {
		w, ok := b[k]
		if !ok {
			return fmt.Sprintf("key 0x%x = 0x%x only behind the binding", k, v), false
		}
		if !bytes.Equal(v, w) {
			return fmt.Sprintf("key 0x%x: 0x%x behind the binding, 0x%x direct", k, v, w), false
		}
	}
	for k, w := range b {
		if _, ok := a[k]; !ok {
			return fmt.Sprintf("key 0x%x = 0x%x only in the direct world", k, w), false
		}
	}
	return "", true
}
