//go:build verif

package wazero_runtime

// C10 — host trie-root functions compute spec roots.
//
// Monitor: ext_trie_blake2_256_root_version_1/2 and
// ext_trie_blake2_256_ordered_root_version_1/2 are called for real (guest
// memory of a wazero module, real allocator); the 32 bytes found at the
// returned pointer are compared with vcommon.SpecRoot over
//
//	root:          the entries de-duplicated with the last occurrence winning
//	               (sp_io::trie::blake2_256_root -> trie_root collects into a BTreeMap)
//	ordered root:  Compact<u32>(i).encode() -> value_i
//
// for state version 0 / 1. Version bytes outside {0,1} and input that a strict
// SCALE decoder (written here from parity-scale-codec's rules) rejects must
// give the failure return 0.

import (
	"fmt"
	"testing"

	"github.com/ChainSafe/gossamer/zz_verif/vcommon"
)

const c10MaxDeclared = 1 << 24 // see c10Run: larger declared lengths are not sent to the decoder

// refDecodeByteVecs strictly decodes Vec<Vec<u8>> (pairs=false) or
// Vec<(Vec<u8>,Vec<u8>)> (pairs=true). maxDeclared is the largest inner
// length prefix met, including the one that made decoding fail.
func refDecodeByteVecs(data []byte, pairs bool) (items [][]byte, consumed int, maxDeclared uint32, why string) {
	n, plen, w := refCompactU32(data)
	if w != "ok" {
		return nil, 0, 0, "count:" + w
	}
	pos := plen
	total := uint64(n)
	if pairs {
		total *= 2
	}
	for i := uint64(0); i < total; i++ {
		l, pl, w := refCompactU32(data[pos:])
		if w != "ok" {
			return nil, 0, maxDeclared, "len:" + w
		}
		if l > maxDeclared {
			maxDeclared = l
		}
		pos += pl
		if uint64(len(data)-pos) < uint64(l) {
			return nil, 0, maxDeclared, "bytes:truncated"
		}
		items = append(items, data[pos:pos+int(l)])
		pos += int(l)
	}
	return items, pos, maxDeclared, "ok"
}

// refDecodeLenientK1 is the strict decoder with exactly the deviation of known
// finding C10-K1 (= C12-K1 of pkg/scale decodeBytes) switched on: a byte
// string whose declared length runs past the end of the input while at least
// one of its bytes is present is accepted, cut to the bytes present. Everything
// else is strict. Since such a string swallows the rest of the input, decoding
// only succeeds when it is the last string of the list. cut reports whether the
// deviation was used.
func refDecodeLenientK1(data []byte, pairs bool) (items [][]byte, cut bool, ok bool) {
	n, plen, w := refCompactU32(data)
	if w != "ok" {
		return nil, false, false
	}
	pos := plen
	total := uint64(n)
	if pairs {
		total *= 2
	}
	for i := uint64(0); i < total; i++ {
		l, pl, w := refCompactU32(data[pos:])
		if w != "ok" {
			return nil, cut, false
		}
		pos += pl
		rest := len(data) - pos
		if uint64(rest) < uint64(l) {
			if rest < 1 {
				return nil, cut, false
			}
			cut = true
			l = uint32(rest)
		}
		items = append(items, data[pos:pos+int(l)])
		pos += int(l)
	}
	return items, cut, true
}

// c10BuildMap is the map whose spec root the host function has to return.
func c10BuildMap(items [][]byte, ordered bool) *vcommon.OrdMap {
	m := vcommon.NewOrdMap()
	if ordered {
		for i, v := range items {
			m.Put(vcommon.CompactLen(uint64(i)), v)
		}
		return m
	}
	for i := 0; i+1 < len(items); i += 2 {
		m.Put(items[i], items[i+1])
	}
	return m
}

type c10Input struct {
	Ordered bool
	UseV1Fn bool   // call ..._version_1 (no version argument; state version 0)
	Version uint32 // argument of ..._version_2
	Data    []byte
	Note    string
}

func c10EncodeVecs(items [][]byte, pairs bool) []byte {
	n := len(items)
	if pairs {
		n /= 2
	}
	out := vcommon.CompactLen(uint64(n))
	for _, it := range items {
		out = append(out, vcommon.ScaleBytes(it)...)
	}
	return out
}

func c10Value(r *vcommon.Rand) []byte {
	switch x := r.Intn(20); {
	case x < 2:
		return []byte{}
	case x < 6:
		return r.Bytes(r.Range(1, 8))
	case x < 8:
		return r.Bytes(31)
	case x < 11:
		return r.Bytes(32)
	case x < 14:
		return r.Bytes(33)
	case x < 18:
		return r.Bytes(r.Range(9, 100))
	case x < 19:
		return r.Bytes(r.Range(200, 1200))
	default:
		return []byte{0x00}
	}
}

func c10Count(r *vcommon.Rand) int {
	switch x := r.Intn(20); {
	case x == 0:
		return 0
	case x == 1:
		return 1
	case x < 8:
		return r.Range(2, 10)
	case x < 13:
		return r.Range(11, 63)
	case x < 16:
		return r.Range(64, 67)
	default:
		return r.Range(68, 300)
	}
}

// c10Keys returns n keys (duplicates intended) in one of several shapes.
func c10Keys(r *vcommon.Rand, n int) (keys [][]byte, style string) {
	st := r.Intn(6)
	var base []byte
	if st == 3 {
		base = r.Bytes(r.Range(30, 70)) // long shared prefix: partial keys beyond 63 nibbles
	}
	pool := [][]byte{}
	for i := 0; i < n; i++ {
		var k []byte
		switch st {
		case 0: // dense small alphabet
			k = make([]byte, r.Range(0, 3))
			for j := range k {
				k[j] = vcommon.Pick(r, []byte{0x00, 0x01, 0x10, 0x11, 0xf0, 0xff})
			}
			style = "dense"
		case 1: // hash-like
			k = r.Bytes(32)
			style = "hash32"
		case 2: // chains: keys that are prefixes of each other
			if len(pool) > 0 && r.Chance(2, 3) {
				p := vcommon.Pick(r, pool)
				k = append(append([]byte{}, p...), r.Bytes(r.Range(0, 2))...)
			} else {
				k = r.Bytes(r.Range(0, 4))
			}
			style = "chains"
		case 3:
			k = append(append([]byte{}, base...), r.Bytes(r.Range(0, 3))...)
			if r.Chance(1, 6) {
				k = k[:r.Range(0, len(k))]
			}
			style = "longprefix"
		case 4: // module-prefixed storage keys
			k = append([]byte{0x26, 0xaa, 0x39, 0x4e, byte(r.Intn(3))}, r.Bytes(r.Range(0, 6))...)
			style = "prefixed"
		default:
			k = r.Bytes(r.Range(0, 40))
			style = "random"
		}
		if len(pool) > 0 && r.Chance(1, 6) {
			k = vcommon.Pick(r, pool) // duplicate key
		}
		pool = append(pool, k)
		keys = append(keys, k)
	}
	return keys, style
}

func c10Version(r *vcommon.Rand) uint32 {
	switch x := r.Intn(20); {
	case x < 8:
		return 0
	case x < 15:
		return 1
	case x < 17:
		return vcommon.Pick(r, []uint32{2, 3, 4, 127, 128, 129, 254, 255})
	default:
		return uint32(r.Range(2, 255))
	}
}

// c10Malform damages a valid encoding; the oracle re-decodes the result, the
// returned label is only a hint for the evidence.
func c10Malform(r *vcommon.Rand, data []byte, pairs bool) ([]byte, string) {
	d := append([]byte{}, data...)
	switch r.Intn(9) {
	case 0:
		if len(d) > 0 {
			return d[:r.Intn(len(d))], "truncated"
		}
		return d, "truncated"
	case 1:
		return append(d, r.Bytes(r.Range(1, 9))...), "trailing"
	case 2: // count raised
		n, plen, _ := refCompactU32(d)
		return append(vcommon.CompactLen(uint64(n)+uint64(r.Range(1, 3))), d[plen:]...), "count+"
	case 3: // count lowered
		n, plen, _ := refCompactU32(d)
		if n == 0 {
			return d, "count-"
		}
		return append(vcommon.CompactLen(uint64(r.Intn(int(n)))), d[plen:]...), "count-"
	case 4: // non-canonical count
		n, plen, _ := refCompactU32(d)
		ms := c09Modes(uint64(n))
		if len(ms) > 1 {
			mk := ms[1+r.Intn(len(ms)-1)]
			if mk[0] == 3 && mk[1] > 8 {
				mk[1] = 5
			}
			enc, _ := c09Enc(uint64(n), mk[0], mk[1])
			return append(enc, d[plen:]...), "noncanonical-count"
		}
		return d, "noncanonical-count"
	case 5: // non-canonical first inner length
		n, plen, _ := refCompactU32(d)
		if n == 0 {
			return append(d, 0x01, 0x00), "trailing"
		}
		l, pl, _ := refCompactU32(d[plen:])
		ms := c09Modes(uint64(l))
		if len(ms) > 1 {
			mk := ms[1]
			enc, _ := c09Enc(uint64(l), mk[0], mk[1])
			out := append(append([]byte{}, d[:plen]...), enc...)
			return append(out, d[plen+pl:]...), "noncanonical-len"
		}
		return d, "noncanonical-len"
	case 6: // last inner length larger than what is left
		items, _, _, _ := refDecodeByteVecs(d, pairs)
		if len(items) == 0 {
			return append(d, 0x08, 0xaa), "overlong-len"
		}
		last := items[len(items)-1]
		head := d[:len(d)-len(last)-len(vcommon.CompactLen(uint64(len(last))))]
		out := append(append([]byte{}, head...), vcommon.CompactLen(uint64(len(last)+r.Range(1, 70000)))...)
		return append(out, last...), "overlong-len"
	case 7:
		if len(d) > 0 {
			d[r.Intn(len(d))] ^= byte(1 << uint(r.Intn(8)))
		}
		return d, "bitflip"
	default:
		g := r.Bytes(r.Range(0, 40))
		if len(g) > 0 && r.Bool() {
			g[0] = byte(r.Intn(6) << 2)
		}
		return g, "garbage"
	}
}

func c10Gen(r *vcommon.Rand) c10Input {
	in := c10Input{Ordered: r.Bool(), Version: c10Version(r)}
	if r.Chance(1, 7) {
		in.UseV1Fn = true
	}
	n := c10Count(r)
	var items [][]byte
	if in.Ordered {
		for i := 0; i < n; i++ {
			items = append(items, c10Value(r))
		}
		in.Note = fmt.Sprintf("ordered n=%d", n)
	} else {
		keys, style := c10Keys(r, n)
		for _, k := range keys {
			items = append(items, k, c10Value(r))
		}
		in.Note = fmt.Sprintf("%s n=%d", style, n)
	}
	in.Data = c10EncodeVecs(items, !in.Ordered)
	if r.Chance(1, 4) {
		var lbl string
		in.Data, lbl = c10Malform(r, in.Data, !in.Ordered)
		in.Note += " " + lbl
	}
	if r.Chance(1, 40) { // the wasm-level argument is a u32: values beyond a byte are observed, not judged
		in.Version = vcommon.Pick(r, []uint32{256, 257, 511, 0x10000, 0xffffff00, 0xffffff01, 0xffffffff})
		in.UseV1Fn = false
	}
	return in
}

func c10NBucket(n int) string {
	switch {
	case n == 0:
		return "0"
	case n == 1:
		return "1"
	case n <= 10:
		return "2-10"
	case n <= 63:
		return "11-63"
	case n <= 67:
		return "64-67"
	default:
		return "68+"
	}
}

func c10Run(c *vcommon.Case, in c10Input) {
	h, err := getVerifHost()
	if err != nil {
		c.Inconclusive("host: " + err.Error())
		return
	}
	items, consumed, maxDecl, why := refDecodeByteVecs(in.Data, !in.Ordered)
	if maxDecl > c10MaxDeclared {
		// pkg/scale allocates the declared length before reading (C12's subject);
		// such inputs are left to C12 so that this check cannot exhaust the machine
		c.Count("skipped_declared_length_over_16MiB", 1)
		return
	}
	version := in.Version
	if in.UseV1Fn {
		version = 0
	}
	wit := map[string]any{
		"ordered": in.Ordered, "version_1_fn": in.UseV1Fn, "version": in.Version, "data": vcommon.Hex(in.Data),
		"decode": why, "generator": in.Note,
	}
	if len(in.Data) > 600 {
		wit["data"] = vcommon.Hex(in.Data[:600]) + fmt.Sprintf("…(%d bytes; replay regenerates them)", len(in.Data))
	}

	// expected result
	var want [32]byte
	wantFail := ""
	m := vcommon.NewOrdMap()
	sig := ""
	switch {
	case why != "ok":
		wantFail = "undecodable input (" + why + ")"
		c.Count("input_undecodable", 1)
		c.Count("input_undecodable_"+why, 1)
	default:
		if consumed < len(in.Data) {
			c.Count("input_with_trailing_bytes", 1)
		}
		dups, emptyVals, hashed, maxNib := 0, 0, 0, 0
		if in.Ordered {
			for i, v := range items {
				m.Put(vcommon.CompactLen(uint64(i)), v)
			}
			if len(items) > 64 {
				c.Count("ordered_index_beyond_64", 1)
			}
		} else {
			for i := 0; i+1 < len(items); i += 2 {
				if _, ok := m.Get(items[i]); ok {
					dups++
				}
				m.Put(items[i], items[i+1])
				if 2*len(items[i]) > maxNib {
					maxNib = 2 * len(items[i])
				}
				if len(items[i]) == 0 {
					c.Count("empty_key", 1)
				}
			}
		}
		_, vals := m.Entries()
		lens := map[int]int{}
		for _, v := range vals {
			switch {
			case len(v) == 0:
				emptyVals++
			case len(v) > 32:
				hashed++
			}
			lens[len(v)]++
		}
		c.Count("entries", m.Len())
		c.Count("duplicate_keys", dups)
		c.Count("empty_values", emptyVals)
		c.Count("values_len_31", lens[31])
		c.Count("values_len_32", lens[32])
		c.Count("values_len_33", lens[33])
		if version == 1 {
			c.Count("values_hashed_under_v1", hashed)
		}
		if maxNib > 63 {
			c.Count("key_longer_than_63_nibbles", 1)
		}
		sig = fmt.Sprintf("%s|d%v|e%v|31:%v|32:%v|33:%v|h%v|n63:%v", c10NBucket(m.Len()), dups > 0, emptyVals > 0,
			lens[31] > 0, lens[32] > 0, lens[33] > 0, hashed > 0, maxNib > 63)
		switch {
		case in.Version > 255:
			c.Count("version_beyond_u8", 1)
		case version > 1:
			wantFail = fmt.Sprintf("unknown state version %d", version)
			c.Count("version_unknown", 1)
		default:
			want = vcommon.SpecRoot(m, int(version))
			c.Count(fmt.Sprintf("version_%d", version), 1)
		}
	}
	if why != "ok" && version > 1 && version <= 255 {
		c.Count("version_unknown", 1)
	}

	// the real call
	vc := h.newCall()
	span, err := vc.put(in.Data)
	if err != nil {
		c.Inconclusive("guest memory: " + err.Error())
		return
	}
	var ret uint32
	var fn string
	switch {
	case in.Ordered && in.UseV1Fn:
		fn = "ext_trie_blake2_256_ordered_root_version_1"
		ret = ext_trie_blake2_256_ordered_root_version_1(vc.ctx, h.mod, span)
	case in.Ordered:
		fn = "ext_trie_blake2_256_ordered_root_version_2"
		ret = ext_trie_blake2_256_ordered_root_version_2(vc.ctx, h.mod, span, in.Version)
	case in.UseV1Fn:
		fn = "ext_trie_blake2_256_root_version_1"
		ret = ext_trie_blake2_256_root_version_1(vc.ctx, h.mod, span)
	default:
		fn = "ext_trie_blake2_256_root_version_2"
		ret = ext_trie_blake2_256_root_version_2(vc.ctx, h.mod, span, in.Version)
	}
	wit["fn"] = fn
	c.Count("calls_"+fn, 1)
	var got [32]byte
	gotOK := false
	if ret != 0 {
		got, gotOK = vc.read32(ret)
		if !gotOK {
			c.Violation("bad-pointer", fmt.Sprintf("%s returned pointer %d with no 32 readable bytes", fn, ret), wit)
			return
		}
		wit["got"] = vcommon.Hex(got[:])
	} else {
		wit["got"] = "0 (failure)"
	}

	if in.Version > 255 && !in.UseV1Fn {
		// property quantifies over 0..255; record what happens beyond
		if ret == 0 {
			c.Count("version_beyond_u8_failed", 1)
		} else {
			c.Count("version_beyond_u8_returned_root", 1)
		}
		return
	}
	c.Eval(1)
	c.Distinct(fmt.Sprintf("%s|v%d|%s|%s", fn, min(version, 2), why, sig))
	switch {
	case wantFail != "":
		wit["want"] = "0 (failure): " + wantFail
		switch {
		case ret == 0:
			c.Count("result_failure_as_required", 1)
		case why == "ok":
			c.Violation("accepted-unknown-version", fmt.Sprintf("%s returned root %x, must fail: %s", fn, got, wantFail), wit)
		default:
			// Known finding C10-K1 (deviation oracle): the strict decoder fails, the
			// decoder with exactly the K1 deviation succeeds by cutting the last byte
			// string, the version is known and the root is the spec root of the
			// leniently decoded entries. Anything else stays a violation.
			if litems, cut, lok := refDecodeLenientK1(in.Data, !in.Ordered); lok && cut && version <= 1 {
				lroot := vcommon.SpecRoot(c10BuildMap(litems, in.Ordered), int(version))
				if got == lroot {
					wit["lenient_entries"] = len(litems)
					c.Count("known_C10_K1_last_string_cut", 1)
					c.Known("C10-K1", fmt.Sprintf("%s returned the root %x of the list with its last byte string cut to the bytes present instead of failing (%s)",
						fn, got, wantFail), wit)
					return
				}
				wit["lenient_root"] = vcommon.Hex(lroot[:])
			}
			c.Violation("accepted-undecodable", fmt.Sprintf("%s returned root %x, must fail: %s", fn, got, wantFail), wit)
		}
	case ret == 0:
		wit["want"] = vcommon.Hex(want[:])
		if consumed < len(in.Data) {
			// SCALE `decode` ignores bytes after the value; a stricter node-side decoder is not what C10 forbids
			c.Count("trailing_bytes_rejected", 1)
			return
		}
		c.Violation("failed-valid", fmt.Sprintf("%s failed on decodable input with state version %d; spec root %x", fn, version, want), wit)
	case got != want:
		wit["want"] = vcommon.Hex(want[:])
		c.Violation("root-mismatch", fmt.Sprintf("%s(version %d) wrote %x, spec root is %x (%d entries)", fn, version, got, want, m.Len()), wit)
	default:
		c.Count("result_root_equal", 1)
		c.Sample(map[string]any{"fn": fn, "version": version, "entries": m.Len(), "root": vcommon.Hex(got[:]), "generator": in.Note})
	}
}

func c10Fixed() (out []c10Input) {
	b := func(s ...byte) []byte { return s }
	v32, v33 := make([]byte, 32), make([]byte, 33)
	for i := range v33 {
		v33[i] = byte(i + 1)
	}
	copy(v32, v33)
	pairs := func(kv ...[]byte) []byte { return c10EncodeVecs(kv, true) }
	vals := func(n int, f func(i int) []byte) []byte {
		var it [][]byte
		for i := 0; i < n; i++ {
			it = append(it, f(i))
		}
		return c10EncodeVecs(it, false)
	}
	small := func(i int) []byte { return []byte{byte(i), byte(i >> 8)} }
	datasets := []struct {
		ordered bool
		data    []byte
		note    string
	}{
		{false, pairs(), "empty list"},
		{false, pairs(b(0xaa), b(0xbb)), "one leaf"},
		{false, pairs(b(0x10), b(1), b(0x20), b(2)), "two leaves"},
		{false, pairs(b(0x10), b(1), b(0x10), b(2)), "duplicate key, last wins"},
		{false, pairs(b(0x10), b(2), b(0x10), b(1)), "duplicate key, last wins (reverse)"},
		{false, pairs(b(0x10), b(1), b(0x10), b()), "duplicate key, last value empty"},
		{false, pairs(b(), b(7), b(0x10), b()), "empty key, empty value"},
		{false, pairs(b(0x01), v32, b(0x02), v33, b(0x01, 0x02), v33[:31]), "values of 32/33/31 bytes"},
		{false, pairs(b(0x01), v33, b(0x01, 0x23), v33, b(0x01, 0x24), v32), "branch with 33-byte value"},
		{true, vals(0, small), "ordered empty"},
		{true, vals(1, small), "ordered 1"},
		{true, vals(64, small), "ordered 64 (indices 0..63, one-byte keys)"},
		{true, vals(65, small), "ordered 65 (index 64 has a two-byte key)"},
		{true, vals(300, small), "ordered 300"},
		{true, vals(70, func(i int) []byte { return v33[:31+i%3] }), "ordered 70 with 31/32/33-byte values"},
		{true, vals(3, func(i int) []byte { return nil }), "ordered, empty values"},
		// undecodable
		{false, b(), "no bytes at all"},
		{false, b(0x04), "count 1, no item"},
		{false, b(0x04, 0x04, 0xaa), "count 1, value missing"},
		{false, b(0x04, 0x04, 0xaa, 0x08, 0xbb), "value declares 2 bytes, 1 present (was zero-filled before the pkg/scale fix)"},
		{false, b(0x04, 0x08, 0xaa), "key declares 2 bytes, 1 present"},
		{false, b(0x01, 0x00), "count 0 in two-byte mode"},
		{false, b(0x05, 0x00, 0x04, 0xaa, 0x04, 0xbb), "count 1 in two-byte mode"},
		{false, b(0x04, 0x05, 0x00, 0xaa, 0x04, 0xbb), "key length 1 in two-byte mode"},
		{false, b(0x02), "count cut inside four-byte mode"},
		{false, b(0x07, 0x01, 0x00, 0x00, 0x00, 0x00, 0x04, 0xaa, 0x04, 0xbb), "count in five-byte big-int mode"},
		{true, b(0x04), "ordered: count 1, no value"},
		{true, b(0x08, 0x04, 0xaa), "ordered: count 2, one value"},
		{true, b(0x04, 0x08, 0xaa), "ordered: value declares 2 bytes, 1 present"},
		{true, b(0x01, 0x00), "ordered: count 0 in two-byte mode"},
		{true, b(0x04, 0x05, 0x00, 0xaa), "ordered: value length 1 in two-byte mode"},
		// decodable with bytes left over
		{false, b(0x00, 0xff), "empty list + trailing byte"},
		{true, b(0x04, 0x04, 0xaa, 0xff), "ordered: one value + trailing byte"},
	}
	for _, d := range datasets {
		for _, v := range []uint32{0, 1} {
			out = append(out, c10Input{Ordered: d.ordered, Version: v, Data: d.data, Note: d.note})
		}
		out = append(out, c10Input{Ordered: d.ordered, UseV1Fn: true, Data: d.data, Note: d.note})
	}
	for _, v := range []uint32{2, 3, 127, 128, 254, 255} {
		out = append(out, c10Input{Ordered: false, Version: v, Data: datasets[2].data, Note: "unknown version"})
		out = append(out, c10Input{Ordered: true, Version: v, Data: datasets[11].data, Note: "unknown version"})
	}
	return out
}

func TestVerifC10(t *testing.T) {
	r := vcommon.Start(t, "C10")
	defer r.Finish()
	r.Floor("result_root_equal", 800)
	r.Floor("result_failure_as_required", 300)
	r.Floor("version_unknown", 150)
	r.Floor("input_undecodable", 150)
	r.Floor("duplicate_keys", 200)
	r.Floor("empty_values", 200)
	r.Floor("values_len_32", 200)
	r.Floor("values_len_33", 200)
	r.Floor("values_hashed_under_v1", 200)
	r.Floor("ordered_index_beyond_64", 50)
	r.Floor("key_longer_than_63_nibbles", 20)
	r.Floor("calls_ext_trie_blake2_256_root_version_1", 30)
	r.Floor("calls_ext_trie_blake2_256_root_version_2", 300)
	r.Floor("calls_ext_trie_blake2_256_ordered_root_version_1", 30)
	r.Floor("calls_ext_trie_blake2_256_ordered_root_version_2", 300)

	selfErr := vcommon.SpecSelfCheck()
	if selfErr == nil {
		selfErr = c09SelfCheck() // refCompactU32 is shared
	}
	fixed := c10Fixed()
	r.Fixed("corpus", len(fixed), func(c *vcommon.Case) {
		if selfErr != nil {
			c.Inconclusive(selfErr.Error())
			return
		}
		c10Run(c, fixed[c.Idx])
	})
	r.Cases("gen", r.Scale(3000), func(c *vcommon.Case) {
		if selfErr != nil {
			c.Inconclusive(selfErr.Error())
			return
		}
		c10Run(c, c10Gen(c.R))
	})
}
