//go:build verif

package wazero_runtime

// TestVerifC09Bind: ext_storage_append_version_1 and the storage / child
// storage / allocator host functions reached through the production binding
// (guest import -> env export built by newRuntime -> wrapper of types.go),
// compared op by op with the direct call, and with refAppend + an ordered-map
// model of the main storage for the modelled op set.

import (
	"bytes"
	"encoding/binary"
	"fmt"
	"testing"

	"github.com/ChainSafe/gossamer/zz_verif/vcommon"
)

var c09BindAlphabet = []byte{0x11, 0x12, 0x21, 0x2f, 0x35}

func c09BindKey(r *vcommon.Rand) []byte {
	n := r.Range(1, 3)
	k := make([]byte, n)
	for i := range k {
		k[i] = vcommon.Pick(r, c09BindAlphabet)
	}
	return k
}

func c09BindValue(r *vcommon.Rand) []byte {
	return r.Bytes(vcommon.Pick(r, []int{1, 2, 5, 31, 32, 33, 40}))
}

// c09BindOld: stored values that make the append interesting (see C09).
func c09BindOld(r *vcommon.Rand) []byte {
	switch r.Intn(9) {
	case 0:
		return append([]byte{0xfc}, r.Bytes(63)...) // 63 one-byte items: the prefix grows to two bytes
	case 1:
		return []byte{0x05, 0x00, 0xaa} // non-canonical 1 in two-byte mode
	case 2:
		return []byte{0x02, 0x00} // cut four-byte mode
	case 3:
		return []byte{0x03, 0xff, 0xff, 0xff, 0xff, 0xaa} // u32::MAX
	case 4:
		return []byte{0x07, 0x00, 0x00, 0x00, 0x00, 0x01, 0xaa} // 2^32 in big-int mode
	case 5:
		return append([]byte{0x08}, r.Bytes(2)...) // 2 items
	case 6:
		return []byte{0x00} // empty list
	default:
		return c09BindValue(r)
	}
}

func scaleOptBytes(v []byte, present bool) []byte {
	if !present {
		return []byte{0}
	}
	return append([]byte{1}, vcommon.ScaleBytes(v)...)
}

func scaleOptU32(n uint32, present bool) []byte {
	if !present {
		return []byte{0}
	}
	var b [4]byte
	binary.LittleEndian.PutUint32(b[:], n)
	return append([]byte{1}, b[:]...)
}

func c09BindChildKey(name byte) []byte {
	return append([]byte(":child_storage:default:"), 'c', name)
}

func c09BindLimit(r *vcommon.Rand) []byte {
	if r.Chance(1, 3) {
		return scaleOptU32(0, false)
	}
	return scaleOptU32(uint32(r.Range(1, 4)), true)
}

func c09BindRun(c *vcommon.Case, modelled bool) {
	_, wa, wb, ok := bindWorlds(c)
	if !ok {
		return
	}
	r := c.R
	model := vcommon.NewOrdMap()
	var txs []*vcommon.OrdMap
	var ops []bindOp
	type expect struct {
		kind string // "", "get", "exists", "next", "read"
		want []byte
		out  []byte
		raw  uint64
	}
	var exps []expect
	mallocs := []int{}
	add := func(op bindOp, e expect) {
		ops = append(ops, op)
		exps = append(exps, e)
	}
	n := r.Range(10, 40)
	pool := [][]byte{c09BindKey(r), c09BindKey(r), c09BindKey(r), c09BindKey(r)}
	for i := 0; i < n; i++ {
		k := c09BindKey(r)
		if r.Chance(3, 4) { // few hot keys: appends meet earlier appends and seeded values
			k = vcommon.Pick(r, pool)
		}
		top := 14
		if !modelled {
			top = 30
		}
		switch x := r.Intn(top); {
		case x < 2:
			v := c09BindValue(r)
			if r.Chance(1, 3) {
				v = c09BindOld(r)
			}
			add(bindOp{fn: "ext_storage_set_version_1", args: []bindArg{aS(k), aS(v)}}, expect{})
			model.Put(k, v)
		case x < 6:
			item := c09Item(r)
			add(bindOp{fn: "ext_storage_append_version_1", args: []bindArg{aS(k), aS(item)}}, expect{})
			old, _ := model.Get(k)
			nv, how := refAppend(old, item)
			model.Put(k, nv)
			c.Count("bind_append_"+how, 1)
			if how != "inc" {
				c.Count("bind_append_reset_total", 1)
			}
		case x < 7:
			old, ok := model.Get(k)
			add(bindOp{fn: "ext_storage_get_version_1", args: []bindArg{aS(k)}}, expect{kind: "get", want: scaleOptBytes(old, ok)})
		case x < 8:
			_, ok := model.Get(k)
			e := expect{kind: "exists"}
			if ok {
				e.raw = 1
			}
			add(bindOp{fn: "ext_storage_exists_version_1", args: []bindArg{aS(k)}}, e)
		case x < 9:
			add(bindOp{fn: "ext_storage_clear_version_1", args: []bindArg{aS(k)}}, expect{})
			model.Delete(k)
		case x < 10:
			p := k[:r.Range(1, len(k))]
			add(bindOp{fn: "ext_storage_clear_prefix_version_1", args: []bindArg{aS(p)}}, expect{})
			model.ClearPrefix(p)
		case x < 11:
			buf := bytes.Repeat([]byte{0xee}, r.Range(0, 12))
			off := uint32(r.Intn(8))
			e := expect{kind: "read"}
			if old, ok := model.Get(k); ok {
				data := old[min(int(off), len(old)):]
				e.out = append([]byte{}, buf...)
				copy(e.out, data)
				var b [4]byte
				binary.LittleEndian.PutUint32(b[:], uint32(len(data)))
				e.want = append([]byte{1}, b[:]...)
			} else {
				e.out, e.want = buf, []byte{0}
			}
			add(bindOp{fn: "ext_storage_read_version_1", args: []bindArg{aS(k), aO(buf), aV(uint64(off))}}, e)
		case x < 12:
			nk, ok := model.NextKey(k)
			add(bindOp{fn: "ext_storage_next_key_version_1", args: []bindArg{aS(k)}}, expect{kind: "next", want: scaleOptBytes(nk, ok)})
		case x < 13:
			switch {
			case len(txs) < 3 && (len(txs) == 0 || r.Bool()):
				add(bindOp{fn: "ext_storage_start_transaction_version_1"}, expect{})
				txs = append(txs, model.Clone())
			case r.Bool():
				add(bindOp{fn: "ext_storage_commit_transaction_version_1"}, expect{})
				txs = txs[:len(txs)-1]
			default:
				add(bindOp{fn: "ext_storage_rollback_transaction_version_1"}, expect{})
				model = txs[len(txs)-1]
				txs = txs[:len(txs)-1]
			}
		case x < 14:
			if len(mallocs) > 0 && r.Bool() {
				j := r.Intn(len(mallocs))
				add(bindOp{fn: "ext_allocator_free_version_1", args: []bindArg{aM(mallocs[j])}}, expect{})
				mallocs = append(mallocs[:j], mallocs[j+1:]...)
			} else {
				mallocs = append(mallocs, len(ops))
				add(bindOp{fn: "ext_allocator_malloc_version_1", args: []bindArg{aV(uint64(r.Range(1, 3000)))}}, expect{})
			}
		// ---- differential only (no model) from here
		case x < 16:
			add(bindOp{fn: "ext_storage_clear_prefix_version_2", args: []bindArg{aS(k[:1]), aS(c09BindLimit(r))}}, expect{})
		case x < 17:
			switch r.Intn(3) {
			case 0:
				add(bindOp{fn: "ext_storage_root_version_1"}, expect{})
			case 1:
				add(bindOp{fn: "ext_storage_root_version_2", args: []bindArg{aV(uint64(r.Intn(2)))}}, expect{})
			default:
				add(bindOp{fn: "ext_storage_changes_root_version_1", args: []bindArg{aS(r.Bytes(32))}}, expect{})
			}
			txs = nil // Root() commits
		default:
			name := byte('a' + r.Intn(3))
			ck := c09BindChildKey(name)
			ik := append([]byte{0x70 | (name & 0x0f), name}, c09BindKey(r)...)
			lim := c09BindLimit(r)
			switch x - 17 {
			case 0, 1, 2, 3:
				add(bindOp{fn: "ext_default_child_storage_set_version_1", args: []bindArg{aS(ck), aS(ik), aS(c09BindValue(r))}}, expect{})
			case 4:
				add(bindOp{fn: "ext_default_child_storage_get_version_1", args: []bindArg{aS(ck), aS(ik)}}, expect{})
			case 5:
				add(bindOp{fn: "ext_default_child_storage_read_version_1",
					args: []bindArg{aS(ck), aS(ik), aO(bytes.Repeat([]byte{0xee}, r.Range(0, 12))), aV(uint64(r.Intn(6)))}}, expect{})
			case 6:
				add(bindOp{fn: "ext_default_child_storage_clear_version_1", args: []bindArg{aS(ck), aS(ik)}}, expect{})
			case 7:
				add(bindOp{fn: "ext_default_child_storage_exists_version_1", args: []bindArg{aS(ck), aS(ik)}}, expect{})
			case 8:
				if r.Bool() {
					add(bindOp{fn: "ext_default_child_storage_clear_prefix_version_1", args: []bindArg{aS(ck), aS(ik[:2])}}, expect{})
				} else {
					add(bindOp{fn: "ext_default_child_storage_clear_prefix_version_2", args: []bindArg{aS(ck), aS(ik[:2]), aS(lim)}}, expect{})
				}
			case 9:
				if r.Bool() {
					add(bindOp{fn: "ext_default_child_storage_root_version_1", args: []bindArg{aS(ck)}}, expect{})
				} else {
					add(bindOp{fn: "ext_default_child_storage_root_version_2", args: []bindArg{aS(ck), aV(uint64(r.Intn(2)))}}, expect{})
				}
			case 10:
				add(bindOp{fn: "ext_default_child_storage_next_key_version_1", args: []bindArg{aS(ck), aS(ik)}}, expect{})
			default:
				switch r.Intn(3) {
				case 0:
					add(bindOp{fn: "ext_default_child_storage_storage_kill_version_1", args: []bindArg{aS(ck)}}, expect{})
				case 1:
					add(bindOp{fn: "ext_default_child_storage_storage_kill_version_2", args: []bindArg{aS(ck), aS(lim)}}, expect{})
				default:
					add(bindOp{fn: "ext_default_child_storage_storage_kill_version_3", args: []bindArg{aS(ck), aS(lim)}}, expect{})
				}
			}
		}
	}
	for range txs {
		add(bindOp{fn: "ext_storage_commit_transaction_version_1"}, expect{})
	}

	outs, ok := bindDiff(c, wa, wb, ops)
	if !ok {
		return
	}
	if modelled {
		c.Count("bind_cases_modelled", 1)
	} else {
		c.Count("bind_cases_differential_only", 1)
	}
	// the two storages ended up identical
	if msg, same := bindSameEntries(wa.ts.TrieEntries(), wb.ts.TrieEntries()); !same {
		var all []any
		for _, op := range ops {
			all = append(all, bindOpWitness(op))
		}
		c.Violation("binding-state", "after the same calls the storage behind the binding differs from the directly driven one: "+msg,
			map[string]any{"ops": all})
		return
	}
	c.Eval(1)
	c.Count("bind_final_state_equal", 1)
	traps := 0
	for _, o := range outs {
		if o.fail != "" {
			traps++
		}
	}
	c.Distinct(fmt.Sprintf("m%v|n%d|traps%d|keys%d", modelled, len(ops)/8, min(traps, 3), min(len(wa.ts.TrieEntries()), 12)))
	if !modelled {
		return
	}
	if traps > 0 {
		c.Count("bind_modelled_case_with_trap", 1)
		return
	}
	// modelled op set: returned values and final storage against the reference
	for i, e := range exps {
		o := outs[i]
		switch e.kind {
		case "get":
			c.Eval(1)
			if !bytes.Equal(o.data, e.want) {
				c.Violation("binding-model:get", "ext_storage_get through the binding returns another value than the model holds",
					map[string]any{"op": bindOpWitness(ops[i]), "op_index": i, "got": vcommon.Hex(o.data), "want": vcommon.Hex(e.want)})
				return
			}
			c.Count("bind_oracle_get_equal", 1)
		case "exists":
			c.Eval(1)
			if o.raw != e.raw {
				c.Violation("binding-model:exists", "ext_storage_exists through the binding disagrees with the model",
					map[string]any{"op": bindOpWitness(ops[i]), "op_index": i, "got": o.raw, "want": e.raw})
				return
			}
			c.Count("bind_oracle_exists_equal", 1)
		case "read", "next": // semantics are C08's subject: counted, the differential check above decides
			if bytes.Equal(o.data, e.want) && (e.kind == "next" || (len(o.outs) == 1 && bytes.Equal(o.outs[0], e.out))) {
				c.Count("bind_model_"+e.kind+"_agree", 1)
			} else {
				c.Count("bind_model_"+e.kind+"_differs", 1)
			}
		}
	}
	ks, vs := model.Entries()
	want := map[string][]byte{}
	for i := range ks {
		want[string(ks[i])] = vs[i]
	}
	c.Eval(1)
	if msg, same := bindSameEntries(wa.ts.TrieEntries(), want); !same {
		var all []any
		for _, op := range ops {
			all = append(all, bindOpWitness(op))
		}
		c.Violation("binding-model:state", "storage behind the binding differs from the reference model (refAppend / ordered map; 'direct' = model): "+msg,
			map[string]any{"ops": all})
		return
	}
	c.Count("bind_oracle_final_state_equal", 1)
	c.Sample(map[string]any{"ops": len(ops), "keys": len(want), "first_op": bindOpWitness(ops[0])})
}

// c09BindWitness: the C09 defect witnesses and prefix growth, one append each, through the binding.
func c09BindWitness(c *vcommon.Case, old, item []byte) {
	_, wa, wb, ok := bindWorlds(c)
	if !ok {
		return
	}
	key := []byte{0x11, 0x35}
	var ops []bindOp
	if old != nil {
		ops = append(ops, bindOp{fn: "ext_storage_set_version_1", args: []bindArg{aS(key), aS(old)}})
	}
	ops = append(ops, bindOp{fn: "ext_storage_append_version_1", args: []bindArg{aS(key), aS(item)}},
		bindOp{fn: "ext_storage_get_version_1", args: []bindArg{aS(key)}})
	outs, ok := bindDiff(c, wa, wb, ops)
	if !ok {
		return
	}
	want, how := refAppend(old, item)
	got := outs[len(outs)-1].data
	c.Eval(1)
	if !bytes.Equal(got, scaleOptBytes(want, true)) {
		c.Violation("binding-append", "append through the binding differs from Substrate ("+how+")", map[string]any{
			"old": vcommon.Hex(old), "item": vcommon.Hex(item), "got_option": vcommon.Hex(got), "want_value": vcommon.Hex(want)})
		return
	}
	c.Count("bind_oracle_append_equal", 1)
	c.Distinct("w|" + how)
}

func TestVerifC09Bind(t *testing.T) {
	r := vcommon.Start(t, "C09")
	defer r.Finish()
	if err := c09SelfCheck(); err != nil {
		r.Cases("bind-selfcheck", 1, func(c *vcommon.Case) { c.Inconclusive("reference self-check: " + err.Error()) })
		return
	}
	for fn, need := range map[string]int{
		"ext_storage_append_version_1": 800, "ext_storage_set_version_1": 300, "ext_storage_get_version_1": 150,
		"ext_storage_clear_version_1": 100, "ext_storage_exists_version_1": 100, "ext_storage_clear_prefix_version_1": 100,
		"ext_storage_clear_prefix_version_2": 40, "ext_storage_read_version_1": 100, "ext_storage_next_key_version_1": 100,
		"ext_storage_root_version_1": 5, "ext_storage_root_version_2": 5, "ext_storage_changes_root_version_1": 5,
		"ext_storage_start_transaction_version_1": 50, "ext_storage_commit_transaction_version_1": 30,
		"ext_storage_rollback_transaction_version_1": 10,
		"ext_allocator_malloc_version_1":             50, "ext_allocator_free_version_1": 15,
		"ext_default_child_storage_set_version_1": 80, "ext_default_child_storage_get_version_1": 15,
		"ext_default_child_storage_read_version_1": 15, "ext_default_child_storage_clear_version_1": 15,
		"ext_default_child_storage_exists_version_1": 15, "ext_default_child_storage_clear_prefix_version_1": 5,
		"ext_default_child_storage_clear_prefix_version_2": 5, "ext_default_child_storage_root_version_1": 5,
		"ext_default_child_storage_root_version_2": 5, "ext_default_child_storage_next_key_version_1": 15,
		"ext_default_child_storage_storage_kill_version_1": 3, "ext_default_child_storage_storage_kill_version_2": 3,
		"ext_default_child_storage_storage_kill_version_3": 3,
	} {
		r.Floor("bind_call_"+fn, need)
	}
	r.Floor("bind_final_state_equal", 300)
	r.Floor("bind_oracle_final_state_equal", 150)
	r.Floor("bind_oracle_get_equal", 100)
	r.Floor("bind_oracle_exists_equal", 60)
	r.Floor("bind_oracle_append_equal", 10)
	r.Floor("bind_append_inc", 300)
	r.Floor("bind_append_reset_total", 100)

	type w struct{ old, item []byte }
	ws := []w{
		{nil, []byte{0xbb}}, {[]byte{}, []byte{0xbb}}, {[]byte{0x00}, []byte{0xbb}},
		{[]byte{0x03, 0xff, 0xff, 0xff, 0xff, 0xaa}, []byte{0xbb}},
		{[]byte{0x07, 0x00, 0x00, 0x00, 0x00, 0x01, 0xaa}, []byte{0xbb}},
		{[]byte{0x05, 0x00, 0xaa}, []byte{0xbb}}, {[]byte{0x02, 0x00}, []byte{0xbb}},
		{[]byte{0x01, 0x00, 0x11, 0x22, 0x33}, []byte{0xbb}},
		{append([]byte{0xfc}, bytes.Repeat([]byte{0x11}, 63)...), []byte{0x01}},
		{[]byte{0x08, 0x01, 0x02}, []byte{0x03, 0x04}}, {[]byte{0x04, 0xaa}, []byte{}},
	}
	r.Fixed("bind-append-witness", len(ws), func(c *vcommon.Case) { c09BindWitness(c, ws[c.Idx].old, ws[c.Idx].item) })
	r.Cases("bind-storage", r.Scale(450), func(c *vcommon.Case) { c09BindRun(c, c.Idx%3 != 2) })
}
