//go:build verif

package wazero_runtime

// TestVerifC10Bind: the trie-root / hashing / misc host functions reached
// through the production binding (guest import -> env export built by
// newRuntime -> generic wrapper of types.go -> Go function), compared with the
// direct call and, for a sample, with the reference oracles of C10.

import (
	"bytes"
	"fmt"
	"testing"

	"github.com/ChainSafe/gossamer/lib/crypto/ed25519"
	"github.com/ChainSafe/gossamer/lib/crypto/sr25519"
	"github.com/ChainSafe/gossamer/zz_verif/vcommon"
)

// bindDiff executes ops in both worlds and raises on the first disagreement.
// It returns the outcomes of the guest world.
func bindDiff(c *vcommon.Case, wa, wb *bindWorld, ops []bindOp) ([]bindOutcome, bool) {
	ma, mb := map[int]uint64{}, map[int]uint64{}
	var outs []bindOutcome
	for i, op := range ops {
		oa, err := wa.exec(op, ma, i)
		if err != nil {
			c.Inconclusive("guest world: " + err.Error())
			return outs, false
		}
		ob, err := wb.exec(op, mb, i)
		if err != nil {
			c.Inconclusive("direct world: " + err.Error())
			return outs, false
		}
		c.Eval(1)
		c.Count("bind_call_"+op.fn, 1)
		if oa.fail != "" && ob.fail != "" {
			c.Count("bind_both_trap", 1)
		}
		if !bindSameOutcome(op.fn, oa, ob) {
			w := bindOpWitness(op)
			w["op_index"] = i
			w["through_binding"] = bindOutcomeText(oa)
			w["direct"] = bindOutcomeText(ob)
			var prev []any
			for _, p := range ops[:i] {
				prev = append(prev, bindOpWitness(p))
			}
			if len(prev) <= 40 {
				w["earlier_ops"] = prev
			}
			c.Violation("binding-differs:"+op.fn,
				"calling the export through a guest import gives another outcome than the Go host function of that name", w)
			return outs, false
		}
		if op.fn == "ext_allocator_malloc_version_1" && oa.fail == "" {
			if ma[i] == mb[i] {
				c.Count("bind_malloc_same_pointer", 1)
			} else {
				c.Count("bind_malloc_other_pointer", 1)
			}
		}
		outs = append(outs, oa)
	}
	return outs, true
}

func bindWorlds(c *vcommon.Case) (*bindHost, *bindWorld, *bindWorld, bool) {
	h, err := getBindHost()
	if err != nil {
		c.Inconclusive("bind host: " + err.Error())
		return nil, nil, nil, false
	}
	vh, err := getVerifHost()
	if err != nil {
		c.Inconclusive("host: " + err.Error())
		return nil, nil, nil, false
	}
	return h, h.worldA(), bindWorldB(vh, h.inst.Context), true
}

func c10BindTrie(c *vcommon.Case, in c10Input) {
	_, wa, wb, ok := bindWorlds(c)
	if !ok {
		return
	}
	items, _, maxDecl, why := refDecodeByteVecs(in.Data, !in.Ordered)
	if maxDecl > c10MaxDeclared {
		c.Count("bind_skipped_declared_length_over_16MiB", 1)
		return
	}
	fn := "ext_trie_blake2_256_root_version_"
	if in.Ordered {
		fn = "ext_trie_blake2_256_ordered_root_version_"
	}
	version := in.Version
	var op bindOp
	if in.UseV1Fn {
		version = 0
		op = bindOp{fn: fn + "1", args: []bindArg{aS(in.Data)}}
	} else {
		op = bindOp{fn: fn + "2", args: []bindArg{aS(in.Data), aV(uint64(in.Version))}}
	}
	outs, ok := bindDiff(c, wa, wb, []bindOp{op})
	if !ok {
		return
	}
	c.Distinct(fmt.Sprintf("%s|%s|v%d|n%s", op.fn, why, min(version, 2), c10NBucket(len(items))))
	o := outs[0]
	if o.fail != "" || o.bad != "" {
		c.Count("bind_trie_trap_or_unreadable", 1)
		return
	}
	// sampled agreement with the C10 reference (decodable, known version)
	if why == "ok" && version <= 1 {
		want := vcommon.SpecRoot(c10BuildMap(items, in.Ordered), int(version))
		if o.raw != 0 && bytes.Equal(o.data, want[:]) {
			c.Count("bind_oracle_root_equal", 1)
			if len(items) > 0 {
				c.Count("bind_oracle_root_equal_nonempty", 1)
			}
		} else {
			c.Violation("binding-root:"+op.fn, "root returned through the binding differs from the specification root", map[string]any{
				"fn": op.fn, "version": in.Version, "data": vcommon.Hex(in.Data), "got": bindOutcomeText(o), "want": vcommon.Hex(want[:]),
			})
		}
	} else if o.raw == 0 {
		c.Count("bind_trie_failure_returned", 1)
	}
	c.Sample(map[string]any{"fn": op.fn, "generator": in.Note, "decode": why, "through_binding": bindOutcomeText(o)})
}

var bindHashFns = []string{
	"ext_hashing_keccak_256_version_1", "ext_hashing_sha2_256_version_1", "ext_hashing_blake2_128_version_1",
	"ext_hashing_blake2_256_version_1", "ext_hashing_twox_64_version_1", "ext_hashing_twox_128_version_1",
	"ext_hashing_twox_256_version_1",
}

func c10BindMisc(c *vcommon.Case) {
	_, wa, wb, ok := bindWorlds(c)
	if !ok {
		return
	}
	r := c.R
	var ops []bindOp
	var datas [][]byte
	n := r.Range(4, 14)
	for i := 0; i < n; i++ {
		d := r.Bytes(vcommon.Pick(r, []int{0, 1, 7, 31, 32, 33, 64, 200, 1000}))
		switch k := r.Intn(20); {
		case k < 10:
			ops = append(ops, bindOp{fn: vcommon.Pick(r, bindHashFns), args: []bindArg{aS(d)}})
		case k < 12:
			ops = append(ops, bindOp{fn: "ext_allocator_malloc_version_1", args: []bindArg{aV(uint64(r.Range(1, 5000)))}})
		case k < 13:
			ops = append(ops, bindOp{fn: "ext_misc_print_hex_version_1", args: []bindArg{aS(d)}})
		case k < 14:
			ops = append(ops, bindOp{fn: "ext_misc_print_utf8_version_1", args: []bindArg{aS([]byte("verif " + vcommon.Hex(d)))}})
		case k < 15:
			ops = append(ops, bindOp{fn: "ext_misc_print_num_version_1", args: []bindArg{aV(r.Uint64())}})
		case k < 16:
			// expensive: gossamer builds a whole wazero runtime (host module included) before it looks at the blob
			// (driven by the fixed group bind-rtversion instead)
			ops = append(ops, bindOp{fn: vcommon.Pick(r, bindHashFns), args: []bindArg{aS(d)}})
		case k < 17:
			ops = append(ops, bindOp{fn: "ext_logging_log_version_1",
				args: []bindArg{aV(uint64(r.Intn(5))), aS([]byte("verif-target")), aS([]byte("msg " + vcommon.Hex(d)))}})
		case k < 18:
			// proof verification with a garbage proof: both worlds must refuse alike
			root := r.Bytes(32)
			if r.Bool() {
				ops = append(ops, bindOp{fn: "ext_trie_blake2_256_verify_proof_version_1",
					args: []bindArg{aP(root), aS(c10EncodeVecs([][]byte{d}, false)), aS(r.Bytes(4)), aS(r.Bytes(3))}})
			} else {
				ops = append(ops, bindOp{fn: "ext_trie_blake2_256_verify_proof_version_2",
					args: []bindArg{aP(root), aS(c10EncodeVecs([][]byte{d}, false)), aS(r.Bytes(4)), aS(r.Bytes(3)), aV(uint64(r.Intn(2)))}})
			}
		case k < 19:
			ops = append(ops, bindOp{fn: vcommon.Pick(r, []string{"ext_crypto_start_batch_verify_version_1",
				"ext_offchain_is_validator_version_1"})})
		default:
			// a genuine signature, optionally damaged: the three pointer/span
			// arguments are all distinguishable, the expected verdict is known
			msg := append([]byte("verif-msg-"), d...)
			var sig, pub []byte
			fn := "ext_crypto_ed25519_verify_version_1"
			if r.Bool() {
				kp, err := ed25519.NewKeypairFromSeed(r.Bytes(32))
				if err != nil {
					c.Inconclusive("ed25519 keypair: " + err.Error())
					return
				}
				sig, _ = kp.Sign(msg)
				pub = kp.Public().Encode()
			} else {
				fn = vcommon.Pick(r, []string{"ext_crypto_sr25519_verify_version_1", "ext_crypto_sr25519_verify_version_2"})
				kp, err := sr25519.NewKeypairFromSeed(r.Bytes(32))
				if err != nil {
					c.Inconclusive("sr25519 keypair: " + err.Error())
					return
				}
				sig, _ = kp.Sign(msg)
				pub = kp.Public().Encode()
			}
			if len(sig) != 64 || len(pub) != 32 {
				c.Inconclusive("unexpected key/signature size")
				return
			}
			good := r.Chance(2, 3)
			if !good {
				msg = append(msg, 'x')
			}
			ops = append(ops, bindOp{fn: fn, args: []bindArg{aP(sig), aS(msg), aP(pub)}})
			if good {
				d = []byte{1}
			} else {
				d = []byte{0}
			}
		}
		datas = append(datas, d)
	}
	outs, ok := bindDiff(c, wa, wb, ops)
	if !ok {
		return
	}
	sig := ""
	for i, o := range outs {
		fn := ops[i].fn
		sig += fn[4:10]
		if o.fail != "" || o.bad != "" {
			continue
		}
		switch fn {
		case "ext_hashing_blake2_256_version_1":
			want := vcommon.Blake256(datas[i])
			if !bytes.Equal(o.data, want[:]) {
				c.Violation("binding-hash:"+fn, "blake2_256 returned through the binding differs from the reference", map[string]any{
					"data": vcommon.Hex(datas[i]), "got": bindOutcomeText(o), "want": vcommon.Hex(want[:])})
			} else {
				c.Count("bind_oracle_blake2_256_equal", 1)
			}
		case "ext_crypto_sr25519_verify_version_1":
			// gossamer's deprecated-verification entry point answers 1 by design: differential only
			c.Count("bind_sr25519_v1_differential_only", 1)
		case "ext_crypto_ed25519_verify_version_1", "ext_crypto_sr25519_verify_version_2":
			if o.raw != uint64(datas[i][0]) {
				c.Violation("binding-verify:"+fn, "signature verdict through the binding differs from the expected one", map[string]any{
					"op": bindOpWitness(ops[i]), "got": o.raw, "want": datas[i][0]})
			} else {
				c.Count(fmt.Sprintf("bind_oracle_sig_verdict_%d", datas[i][0]), 1)
			}
		case "ext_allocator_malloc_version_1":
			size := uint32(ops[i].args[0].val)
			if o.raw < uint64(bindHeapBase) || o.raw > 0xffffffff || !wa.mod.Memory().Write(uint32(o.raw), make([]byte, size)) {
				c.Violation("binding-malloc", "malloc through the binding returned an unusable pointer", map[string]any{
					"size": size, "returned": o.raw})
			} else {
				c.Count("bind_oracle_malloc_usable", 1)
			}
		}
	}
	c.Distinct(sig)
}

func c10BindSignatures(c *vcommon.Case) {
	h, err := getBindHost()
	if err != nil {
		c.Inconclusive("bind host: " + err.Error())
		return
	}
	// what the instantiated env module of the forwarding runtime exports
	defs := h.env.ExportedFunctionDefinitions()
	for name, d := range defs {
		c.Eval(1)
		c.Count("bind_export_seen", 1)
		obs := bindDefSig(d)
		spec, ok := bindSpecSigs[name]
		switch {
		case !ok:
			c.Count("bind_export_untyped", 1)
		case spec != obs:
			c.Violation("export-signature:"+name, "the env export has other parameter/result types than the Host API function of that name",
				map[string]any{"export": name, "observed": obs, "host_api": spec, "legend": "l=i64 i=i32 params>results"})
		default:
			c.Count("bind_export_signature_ok", 1)
		}
		if d.ModuleName() != "env" {
			c.Violation("export-module", "export is not in module env", map[string]any{"export": name, "module": d.ModuleName()})
		}
	}
	if len(defs) != len(h.exports) {
		c.Violation("export-set", "two runtimes built by NewInstance export different function sets",
			map[string]any{"first": len(h.exports), "second": len(defs)})
	}
	c.Count("bind_export_specified_but_missing", len(h.missing))
	c.Count("bind_guest_imports", len(h.imported))
	if h.env.ExportedMemory("memory") == nil {
		c.Violation("export-memory", "env does not export the linear memory \"memory\"", nil)
	} else if pages := h.env.ExportedMemory("memory").Size() / 65536; uint64(pages) < uint64(MemoryMinPages) {
		c.Violation("export-memory", "env.memory is smaller than MemoryMinPages", map[string]any{"pages": pages})
	} else {
		c.Count("bind_env_memory_ok", 1)
	}
	if h.guest.Memory() == nil || h.guest.Memory().Size() != h.env.ExportedMemory("memory").Size() {
		c.Violation("guest-memory", "the guest does not run on env.memory", nil)
	}
	// every forwarder the guest needs is there, with the forwarded signature
	for _, n := range h.imported {
		f := h.guest.ExportedFunction("call_" + n)
		if f == nil {
			c.Inconclusive("forwarder missing for " + n)
			return
		}
		if got := bindDefSig(f.Definition()); got != bindSpecSigs[n] {
			c.Inconclusive("forwarder " + n + " has signature " + got)
			return
		}
	}
	c.Sample(map[string]any{"exports": len(defs), "untyped": h.untyped, "specified_missing": h.missing,
		"guest_wasm_bytes": h.guestBytes, "guest_imports": len(h.imported), "heap_base": h.heapBase})
}

func TestVerifC10Bind(t *testing.T) {
	r := vcommon.Start(t, "C10")
	defer r.Finish()
	if err := vcommon.SpecSelfCheck(); err != nil {
		r.Cases("bind-selfcheck", 1, func(c *vcommon.Case) { c.Inconclusive("spec self-check: " + err.Error()) })
		return
	}
	r.Floor("bind_export_signature_ok", 75)
	r.Floor("bind_env_memory_ok", 1)
	for _, fn := range []string{"ext_trie_blake2_256_root_version_1", "ext_trie_blake2_256_root_version_2",
		"ext_trie_blake2_256_ordered_root_version_1", "ext_trie_blake2_256_ordered_root_version_2"} {
		r.Floor("bind_call_"+fn, 40)
	}
	for _, fn := range bindHashFns {
		r.Floor("bind_call_"+fn, 40)
	}
	for _, fn := range []string{"ext_allocator_malloc_version_1", "ext_misc_print_hex_version_1", "ext_misc_print_utf8_version_1",
		"ext_misc_print_num_version_1", "ext_logging_log_version_1",
		"ext_trie_blake2_256_verify_proof_version_1", "ext_trie_blake2_256_verify_proof_version_2",
		"ext_crypto_ed25519_verify_version_1", "ext_crypto_sr25519_verify_version_1", "ext_crypto_sr25519_verify_version_2"} {
		r.Floor("bind_call_"+fn, 8)
	}
	r.Floor("bind_call_ext_misc_runtime_version_version_1", 4)
	r.Floor("bind_oracle_root_equal_nonempty", 200)
	r.Floor("bind_trie_failure_returned", 40)
	r.Floor("bind_oracle_blake2_256_equal", 40)
	r.Floor("bind_oracle_sig_verdict_1", 8)
	r.Floor("bind_oracle_sig_verdict_0", 4)
	r.Floor("bind_oracle_malloc_usable", 20)

	r.Fixed("bind-sig", 1, c10BindSignatures)
	corpus := c10Fixed()
	r.Fixed("bind-trie-corpus", len(corpus), func(c *vcommon.Case) { c10BindTrie(c, corpus[c.Idx]) })
	r.Cases("bind-trie", r.Scale(700), func(c *vcommon.Case) {
		in := c10Gen(c.R)
		if c.R.Chance(1, 3) { // the version_1 entry points need their own volume here
			in.UseV1Fn = true
		}
		c10BindTrie(c, in)
	})
	r.Cases("bind-misc", r.Scale(400), c10BindMisc)
	// ext_misc_runtime_version: each call makes gossamer build a complete runtime (135 MB memory) before it rejects the
	// blob, so it gets four fixed cases only (the answer for a non-runtime blob is None in both worlds)
	blobs := [][]byte{{}, {0x00, 0x61, 0x73, 0x6d, 0x01, 0x00, 0x00, 0x00}, []byte("not a runtime"), verifWasm}
	r.Fixed("bind-rtversion", len(blobs), func(c *vcommon.Case) {
		_, wa, wb, ok := bindWorlds(c)
		if !ok {
			return
		}
		if outs, ok := bindDiff(c, wa, wb, []bindOp{{fn: "ext_misc_runtime_version_version_1", args: []bindArg{aS(blobs[c.Idx])}}}); ok {
			c.Distinct("rtversion|" + bindOutcomeText(outs[0]))
		}
	})
}
