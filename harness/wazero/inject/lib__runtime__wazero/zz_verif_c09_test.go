//go:build verif

package wazero_runtime

// C09 — storage append follows Substrate semantics.
//
// Monitor: every append performed by the real storageAppend /
// ext_storage_append_version_1 on a real TrieState is compared with
// refAppend, a reference written from Substrate's
// `sp_io::storage::append` -> `StorageAppend::append` ->
// `Vec::<EncodeOpaqueValue>::append_or_new`:
//
//	extract_length_data(old):  len = Compact::<u32>::decode(old)?      (canonical, <= 5 bytes)
//	                           new_len = len.checked_add(1)?
//	ok  -> compact(new_len) ++ old[compact_len(len)..] ++ item
//	err -> vec![item].encode() = 0x04 ++ item
//
// The reference shares no code with gossamer (own compact decoder; encoder
// from vcommon).

import (
	"bytes"
	"encoding/binary"
	"fmt"
	"testing"

	"github.com/ChainSafe/gossamer/zz_verif/vcommon"
)

// refCompactU32 decodes a Compact<u32> at the start of b with
// parity-scale-codec's rules: the value must be encoded in the smallest mode
// ("out of range" otherwise) and big-integer mode may only carry 4 bytes.
// why is one of ok, empty, truncated, noncanonical, wide.
func refCompactU32(b []byte) (n uint32, plen int, why string) {
	if len(b) == 0 {
		return 0, 0, "empty"
	}
	switch b[0] & 3 {
	case 0:
		return uint32(b[0] >> 2), 1, "ok"
	case 1:
		if len(b) < 2 {
			return 0, 0, "truncated"
		}
		v := uint32(binary.LittleEndian.Uint16(b[:2])) >> 2
		if v <= 0x3f {
			return 0, 0, "noncanonical"
		}
		return v, 2, "ok"
	case 2:
		if len(b) < 4 {
			return 0, 0, "truncated"
		}
		v := binary.LittleEndian.Uint32(b[:4]) >> 2
		if v <= 0x3fff {
			return 0, 0, "noncanonical"
		}
		return v, 4, "ok"
	default:
		if b[0]>>2 != 0 {
			// more than four value bytes: not a Compact<u32> whatever follows
			return 0, 0, "wide"
		}
		if len(b) < 5 {
			return 0, 0, "truncated"
		}
		v := binary.LittleEndian.Uint32(b[1:5])
		if v <= 0x3fffffff {
			return 0, 0, "noncanonical"
		}
		return v, 5, "ok"
	}
}

// refAppend is the Substrate result of appending item to the stored value old
// (nil/empty = absent or empty). how is "inc" or "reset:<reason>".
func refAppend(old, item []byte) (out []byte, how string) {
	n, plen, why := refCompactU32(old)
	if why == "ok" && n == 0xffffffff {
		why = "u32max"
	}
	if why != "ok" {
		return append([]byte{4}, item...), "reset:" + why
	}
	out = append(out, vcommon.CompactLen(uint64(n)+1)...)
	out = append(out, old[plen:]...)
	out = append(out, item...)
	return out, "inc"
}

// c09SelfCheck validates the reference against hand-computed Substrate
// results, so a broken oracle is reported as inconclusive, not as a violation.
func c09SelfCheck() error {
	h := func(s ...byte) []byte { return s }
	tests := []struct{ old, item, want []byte }{
		{nil, h(0xaa), h(0x04, 0xaa)},
		{h(), h(), h(0x04)},
		{h(0x04, 0xaa), h(0xbb), h(0x08, 0xaa, 0xbb)},
		{h(0x00), h(0xbb), h(0x04, 0xbb)},
		{h(0xfc, 0x11), h(0x22), h(0x01, 0x01, 0x11, 0x22)},                                           // 63 -> 64
		{h(0xfd, 0xff, 0x11), h(0x22), h(0x02, 0x00, 0x01, 0x00, 0x11, 0x22)},                         // 2^14-1 -> 2^14
		{h(0xfe, 0xff, 0xff, 0xff), h(0x22), h(0x03, 0x00, 0x00, 0x00, 0x40, 0x22)},                   // 2^30-1 -> 2^30
		{h(0x03, 0x00, 0x00, 0x00, 0x40, 0x11), h(0x22), h(0x03, 0x01, 0x00, 0x00, 0x40, 0x11, 0x22)}, // 2^30 -> 2^30+1
		{h(0x03, 0xfe, 0xff, 0xff, 0xff), h(0x22), h(0x03, 0xff, 0xff, 0xff, 0xff, 0x22)},             // u32::MAX-1 -> u32::MAX
		{h(0x03, 0xff, 0xff, 0xff, 0xff, 0x11), h(0x22), h(0x04, 0x22)},                               // u32::MAX: checked_add fails
		{h(0x07, 0x00, 0x00, 0x00, 0x00, 0x01, 0x11), h(0x22), h(0x04, 0x22)},                         // 2^32 in 5-byte mode
		{h(0x05, 0x00, 0xaa), h(0xbb), h(0x04, 0xbb)},                                                 // 1 in two-byte mode
		{h(0x02, 0x00), h(0xbb), h(0x04, 0xbb)},                                                       // truncated four-byte mode
		{h(0x06, 0x00, 0x00, 0x00, 0xaa), h(0xbb), h(0x04, 0xbb)},                                     // 1 in four-byte mode
		{h(0x03, 0x01, 0x00, 0x00, 0x00, 0xaa), h(0xbb), h(0x04, 0xbb)},                               // 1 in big-int mode
		{h(0x03, 0xff, 0xff, 0xff, 0x3f), h(0xbb), h(0x04, 0xbb)},                                     // 2^30-1 in big-int mode
		{h(0x03, 0x00, 0x00), h(0xbb), h(0x04, 0xbb)},                                                 // truncated big-int mode
		{h(0x01), h(0xbb), h(0x04, 0xbb)},                                                             // truncated two-byte mode
		{h(0x01, 0x01), h(0xbb), h(0x05, 0x01, 0xbb)},                                                 // 64 -> 65
	}
	for i, tc := range tests {
		got, _ := refAppend(tc.old, tc.item)
		if !bytes.Equal(got, tc.want) {
			return fmt.Errorf("refAppend self-check %d: old=%x item=%x got %x want %x", i, tc.old, tc.item, got, tc.want)
		}
	}
	for _, v := range []uint64{0, 63, 64, 16383, 16384, 1<<30 - 1, 1 << 30, 1<<32 - 1} {
		n, plen, why := refCompactU32(vcommon.CompactLen(v))
		if why != "ok" || uint64(n) != v || plen != len(vcommon.CompactLen(v)) {
			return fmt.Errorf("compact self-check %d: n=%d plen=%d why=%s", v, n, plen, why)
		}
	}
	return nil
}

// c09Scenario is one sequence of appends to one key.
type c09Scenario struct {
	Absent  bool     // key never written
	Old     []byte   // initial stored value (if !Absent)
	Items   [][]byte // appended one after the other
	ViaExt  bool     // through ext_storage_append_version_1 (guest memory) instead of storageAppend
	TxAt    int      // -1: none; 0: transaction opened before seeding; 1: between seeding and the first append
	Key     []byte
	GenNote string // what the generator meant to build (label only; the oracle classifies by itself)
}

// c09Enc encodes v in the given compact mode (0,1,2 or 3 with k value bytes);
// ok=false when v does not fit that mode.
func c09Enc(v uint64, mode, k int) ([]byte, bool) {
	switch mode {
	case 0:
		if v >= 1<<6 {
			return nil, false
		}
		return []byte{byte(v << 2)}, true
	case 1:
		if v >= 1<<14 {
			return nil, false
		}
		x := uint16(v<<2 | 1)
		return []byte{byte(x), byte(x >> 8)}, true
	case 2:
		if v >= 1<<30 {
			return nil, false
		}
		x := uint32(v<<2 | 2)
		return []byte{byte(x), byte(x >> 8), byte(x >> 16), byte(x >> 24)}, true
	default:
		if k < 4 || k > 67 {
			return nil, false
		}
		if k < 8 && v >= 1<<(8*uint(k)) {
			return nil, false
		}
		out := make([]byte, 1+k)
		out[0] = byte((k-4)<<2 | 3)
		for i := 0; i < k && i < 8; i++ {
			out[1+i] = byte(v >> (8 * uint(i)))
		}
		return out, true
	}
}

var c09Boundaries = []uint64{
	0, 1, 2, 3, 62, 63, 64, 65, 255, 256, 1<<14 - 2, 1<<14 - 1, 1 << 14, 1<<14 + 1, 1<<16 - 1, 1 << 16,
	1<<30 - 2, 1<<30 - 1, 1 << 30, 1<<30 + 1, 1 << 31, 1<<32 - 2, 1<<32 - 1,
	1 << 32, 1<<32 + 1, 1 << 40, 1<<56 - 1, 1 << 56, 1<<63 - 1, 1 << 63, 1<<64 - 1,
}

// c09Modes lists every (mode,k) that can hold v, smallest first.
func c09Modes(v uint64) (out [][2]int) {
	for m := 0; m < 3; m++ {
		if _, ok := c09Enc(v, m, 0); ok {
			out = append(out, [2]int{m, 0})
		}
	}
	for _, k := range []int{4, 5, 6, 7, 8, 9, 16, 67} {
		if _, ok := c09Enc(v, 3, k); ok {
			out = append(out, [2]int{3, k})
		}
	}
	return out
}

// c09Fixed is the seed-independent corpus: every boundary value in every mode
// that can hold it, whole and cut at every byte, with three item shapes; plus
// the minimal witnesses of the defects found on the pinned tree.
func c09Fixed() (out []c09Scenario) {
	key := []byte("verif:c09")
	items := [][]byte{{}, {0xbb}, bytes.Repeat([]byte{0xc3}, 33)}
	add := func(s c09Scenario) {
		if s.Key == nil {
			s.Key = key
		}
		out = append(out, s)
	}
	// witnesses of the defects reproduced on the pinned tree (DESIGN §9, C09)
	w := [][]byte{
		{0x03, 0xff, 0xff, 0xff, 0xff, 0xaa},       // u32::MAX -> must reset, was 2^32 in 5-byte mode
		{0x07, 0x00, 0x00, 0x00, 0x00, 0x01, 0xaa}, // 2^32 -> must reset, was incremented
		{0x05, 0x00, 0xaa},                         // non-canonical 1 -> must reset, was 08 00 aa bb
		{0x02, 0x00},                               // truncated -> must reset, was 04 00 bb
	}
	for i, o := range w {
		add(c09Scenario{Old: o, Items: [][]byte{{0xbb}}, TxAt: -1, GenNote: fmt.Sprintf("witness%d", i)})
		add(c09Scenario{Old: o, Items: [][]byte{{0xbb}}, TxAt: 1, ViaExt: true, GenNote: fmt.Sprintf("witness%d-ext-tx", i)})
	}
	add(c09Scenario{Absent: true, Items: [][]byte{{0xaa}, {0xbb}}, TxAt: -1, GenNote: "absent"})
	add(c09Scenario{Absent: true, Items: [][]byte{{0xaa}, {0xbb}}, TxAt: 0, ViaExt: true, GenNote: "absent-ext-tx"})
	add(c09Scenario{Old: []byte{}, Items: [][]byte{{}, {}}, TxAt: -1, GenNote: "empty"})
	for _, v := range c09Boundaries {
		for _, mk := range c09Modes(v) {
			enc, _ := c09Enc(v, mk[0], mk[1])
			tail := []byte{0x11, 0x22, 0x33}
			for ii, it := range items {
				add(c09Scenario{Old: append(append([]byte{}, enc...), tail...), Items: [][]byte{it, {0x01}}, TxAt: -1,
					ViaExt: ii == 1, GenNote: fmt.Sprintf("v=%d mode=%d k=%d", v, mk[0], mk[1])})
			}
			add(c09Scenario{Old: enc, Items: [][]byte{{0xbb}}, TxAt: -1, GenNote: fmt.Sprintf("v=%d mode=%d k=%d notail", v, mk[0], mk[1])})
			for cut := 1; cut < len(enc); cut++ {
				if len(enc) > 10 && cut > 6 && cut < len(enc)-2 {
					continue
				}
				add(c09Scenario{Old: enc[:cut], Items: [][]byte{{0xbb}}, TxAt: -1,
					GenNote: fmt.Sprintf("v=%d mode=%d k=%d cut=%d", v, mk[0], mk[1], cut)})
			}
		}
	}
	// a list grown from nothing across the 63 -> 64 prefix growth
	var many [][]byte
	for i := 0; i < 70; i++ {
		many = append(many, []byte{byte(i), byte(i >> 1)})
	}
	add(c09Scenario{Absent: true, Items: many, TxAt: -1, GenNote: "grow-0-70"})
	add(c09Scenario{Absent: true, Items: many, TxAt: 0, ViaExt: true, GenNote: "grow-0-70-ext-tx"})
	return out
}

func c09Item(r *vcommon.Rand) []byte {
	switch r.Intn(8) {
	case 0:
		return []byte{}
	case 1:
		return []byte{byte(r.Uint64())}
	case 2: // looks like a compact prefix itself
		v := vcommon.Pick(r, c09Boundaries)
		ms := c09Modes(v)
		mk := vcommon.Pick(r, ms)
		e, _ := c09Enc(v, mk[0], mk[1])
		return e
	case 3:
		return r.Bytes(r.Range(100, 3000))
	case 4:
		return bytes.Repeat([]byte{0}, r.Range(1, 8))
	default:
		return r.Bytes(r.Range(1, 40))
	}
}

func c09Gen(r *vcommon.Rand) c09Scenario {
	s := c09Scenario{TxAt: -1, Key: append([]byte("c09:"), r.Bytes(r.Range(0, 12))...)}
	if r.Chance(1, 3) {
		s.ViaExt = true
	}
	if r.Chance(1, 4) {
		s.TxAt = r.Intn(2)
	}
	nItems := 1
	switch r.Intn(10) {
	case 0, 1:
		nItems = r.Range(2, 5)
	case 2:
		nItems = r.Range(60, 80)
	}
	pickV := func() uint64 {
		switch r.Intn(6) {
		case 0:
			return uint64(r.Intn(70))
		case 1:
			return r.Uint64() >> uint(r.Intn(64))
		case 2: // just below a boundary so that a few appends cross it
			b := vcommon.Pick(r, []uint64{64, 1 << 14, 1 << 30, 1 << 32})
			return b - uint64(r.Range(1, 4))
		default:
			return vcommon.Pick(r, c09Boundaries)
		}
	}
	switch c := r.Intn(20); {
	case c == 0:
		s.Absent, s.GenNote = true, "absent"
	case c == 1:
		s.Old, s.GenNote = []byte{}, "empty"
	case c < 8: // canonical prefix (smallest mode) + tail
		v := pickV()
		mk := c09Modes(v)[0]
		enc, _ := c09Enc(v, mk[0], mk[1])
		s.Old = append(enc, r.Bytes(r.Range(0, 48))...)
		s.GenNote = fmt.Sprintf("smallest v=%d", v)
	case c < 13: // any wider mode
		v := pickV()
		ms := c09Modes(v)
		mk := ms[r.Intn(len(ms))]
		enc, _ := c09Enc(v, mk[0], mk[1])
		s.Old = append(enc, r.Bytes(r.Range(0, 24))...)
		s.GenNote = fmt.Sprintf("v=%d mode=%d k=%d", v, mk[0], mk[1])
	case c < 16: // truncated prefix
		v := pickV()
		ms := c09Modes(v)
		mk := ms[r.Intn(len(ms))]
		enc, _ := c09Enc(v, mk[0], mk[1])
		if len(enc) > 1 {
			enc = enc[:r.Range(1, len(enc)-1)]
		}
		s.Old = enc
		s.GenNote = fmt.Sprintf("cut v=%d mode=%d k=%d at %d", v, mk[0], mk[1], len(enc))
	case c < 18: // big-int mode with arbitrary payload
		k := r.Range(4, 67)
		enc := append([]byte{byte((k-4)<<2 | 3)}, r.Bytes(k)...)
		if r.Bool() {
			enc[len(enc)-1] = 0 // trailing zero byte (non-minimal big int)
		}
		if r.Chance(1, 4) {
			enc = enc[:r.Range(1, len(enc))]
		}
		s.Old = append(enc, r.Bytes(r.Range(0, 8))...)
		s.GenNote = fmt.Sprintf("bigint k=%d", k)
	default:
		s.Old = r.Bytes(r.Range(1, 80))
		s.GenNote = "garbage"
	}
	for i := 0; i < nItems; i++ {
		if nItems > 10 {
			s.Items = append(s.Items, r.Bytes(r.Range(0, 3)))
		} else {
			s.Items = append(s.Items, c09Item(r))
		}
	}
	return s
}

func c09Bucket(n int) string {
	switch {
	case n == 0:
		return "0"
	case n == 1:
		return "1"
	case n <= 40:
		return "short"
	default:
		return "long"
	}
}

func c09Run(c *vcommon.Case, s c09Scenario) {
	h, err := getVerifHost()
	if err != nil {
		c.Inconclusive("host: " + err.Error())
		return
	}
	vc := h.newCall()
	ts := vc.ts
	// the sentinel differs from every test key in its first nibble, so the
	// trie under test is a root branch with an empty partial key
	sentinelKey, sentinelVal := []byte{0xf0, 0x0d}, []byte("sentinel")
	if err := ts.Put(sentinelKey, sentinelVal); err != nil {
		c.Inconclusive("seeding sentinel: " + err.Error())
		return
	}
	if s.TxAt == 0 {
		ts.StartTransaction()
		c.Count("in_transaction", 1)
	}
	var model []byte
	if !s.Absent {
		if err := ts.Put(s.Key, s.Old); err != nil {
			c.Inconclusive("seeding old value: " + err.Error())
			return
		}
		model = append([]byte{}, s.Old...)
		if got := ts.Get(s.Key); !bytes.Equal(got, model) {
			// storage itself does not hand back what was stored: not C09's business
			c.Inconclusive(fmt.Sprintf("storage returned %x for seeded %x", got, model))
			return
		}
	}
	if s.TxAt == 1 {
		ts.StartTransaction()
		c.Count("in_transaction", 1)
	}
	if s.ViaExt {
		c.Count("scenario_via_ext_storage_append_version_1", 1)
	} else {
		c.Count("scenario_via_storageAppend", 1)
	}
	for step, item := range s.Items {
		_, plen, why := refCompactU32(model)
		want, how := refAppend(model, item)
		wit := map[string]any{
			"key": vcommon.Hex(s.Key), "old": vcommon.Hex(model), "old_absent": s.Absent && step == 0,
			"item": vcommon.Hex(item), "step": step, "via_ext": s.ViaExt, "tx_at": s.TxAt,
			"want": vcommon.Hex(want), "oracle": how, "generator": s.GenNote,
		}
		itemCopy := append([]byte{}, item...)
		if s.ViaExt {
			keySpan, err1 := vc.put(s.Key)
			valSpan, err2 := vc.put(item)
			if err1 != nil || err2 != nil {
				c.Inconclusive(fmt.Sprintf("guest memory: %v %v", err1, err2))
				return
			}
			ext_storage_append_version_1(vc.ctx, h.mod, keySpan, valSpan)
		} else {
			if err := storageAppend(ts, s.Key, itemCopy); err != nil {
				wit["err"] = err.Error()
				c.Violation("append-error", "storageAppend returned an error where Substrate appends or resets: "+err.Error(), wit)
			}
		}
		got := ts.Get(s.Key)
		c.Eval(1)
		// what was observed
		switch {
		case s.Absent && step == 0:
			c.Count("old_absent", 1)
		case len(model) == 0:
			c.Count("old_empty", 1)
		default:
			c.Count("old_"+why, 1)
		}
		if why == "ok" {
			c.Count(fmt.Sprintf("old_canonical_%dbyte_prefix", plen), 1)
			if len(want)-len(item)-(len(model)-plen) > plen {
				c.Count("prefix_grew", 1)
			}
		}
		if how == "inc" {
			c.Count("expect_incremented", 1)
		} else {
			c.Count("expect_reset", 1)
			if how == "reset:u32max" {
				c.Count("old_u32max", 1)
			}
		}
		if len(item) == 0 {
			c.Count("item_empty", 1)
		}
		first := byte(0)
		if len(model) > 0 {
			first = model[0]
		}
		c.Distinct(fmt.Sprintf("%s|%d|%02x|%s|%s|%v|%d", how, plen, first&3, c09Bucket(len(model)), c09Bucket(len(item)), s.ViaExt, s.TxAt))
		if !bytes.Equal(got, want) {
			wit["got"] = vcommon.Hex(got)
			c.Violation("append-bytes", fmt.Sprintf("after append of %x to %x storage holds %x, Substrate gives %x (%s)",
				item, model, got, want, how), wit)
			model = append([]byte{}, got...) // continue from what the node really holds
		} else {
			model = want
		}
		if step == 0 {
			c.Sample(map[string]any{"old": wit["old"], "old_absent": wit["old_absent"], "item": vcommon.Hex(item),
				"stored": vcommon.Hex(got), "oracle": how, "via_ext": s.ViaExt})
		}
		if !bytes.Equal(itemCopy, item) {
			c.Violation("item-mutated", "storageAppend modified the caller's item buffer", wit)
		}
	}
	if s.TxAt >= 0 {
		ts.CommitTransaction()
	}
	// after commit / without a transaction the trie itself must hold the value
	if got := ts.Trie().Get(s.Key); !bytes.Equal(got, model) {
		c.Violation("trie-value", fmt.Sprintf("trie holds %x for the key, storage view said %x", got, model),
			map[string]any{"key": vcommon.Hex(s.Key), "generator": s.GenNote})
	}
	if got := ts.Get(sentinelKey); !bytes.Equal(got, sentinelVal) {
		c.Violation("foreign-key", fmt.Sprintf("append to %x changed another key: sentinel now %x", s.Key, got),
			map[string]any{"key": vcommon.Hex(s.Key), "generator": s.GenNote})
	}
}

func TestVerifC09(t *testing.T) {
	r := vcommon.Start(t, "C09")
	defer r.Finish()
	r.Floor("old_absent", 3)
	r.Floor("old_empty", 3)
	r.Floor("old_noncanonical", 60)
	r.Floor("old_truncated", 60)
	r.Floor("old_wide", 40)
	r.Floor("old_u32max", 3)
	r.Floor("old_canonical_1byte_prefix", 50)
	r.Floor("old_canonical_2byte_prefix", 20)
	r.Floor("old_canonical_4byte_prefix", 20)
	r.Floor("old_canonical_5byte_prefix", 20)
	r.Floor("prefix_grew", 8)
	r.Floor("expect_incremented", 300)
	r.Floor("expect_reset", 300)
	r.Floor("scenario_via_ext_storage_append_version_1", 50)
	r.Floor("in_transaction", 20)

	selfErr := c09SelfCheck()
	fixed := c09Fixed()
	r.Fixed("corpus", len(fixed), func(c *vcommon.Case) {
		if selfErr != nil {
			c.Inconclusive(selfErr.Error())
			return
		}
		c09Run(c, fixed[c.Idx])
	})
	r.Cases("gen", r.Scale(4000), func(c *vcommon.Case) {
		if selfErr != nil {
			c.Inconclusive(selfErr.Error())
			return
		}
		c09Run(c, c09Gen(c.R))
	})
}
