//go:build verif

package rpckeys

import (
	"bytes"
	"fmt"

	"github.com/ChainSafe/gossamer/dot/types"
	"github.com/ChainSafe/gossamer/lib/common"
	rtstorage "github.com/ChainSafe/gossamer/lib/runtime/storage"
	"github.com/ChainSafe/gossamer/pkg/trie"
	"github.com/ChainSafe/gossamer/pkg/trie/inmemory"
	"github.com/ChainSafe/gossamer/zz_verif/vcommon"
)

// Multi-block sequences on ONE StateModule / storage state: a chain and a fork of blocks, each with its own
// state; listings are interleaved with block imports, addressed by explicit block hash or with the block omitted
// (= the best block at that moment). The expected answer is always the model of the state the request denotes
// when it is made.

type blockSpec struct {
	Parent int // index into Blocks; -1 = on top of genesis (empty state)
	Puts   [][2][]byte
	Dels   [][]byte
}

const (
	stImport = iota
	stList
)

type chainStep struct {
	Kind   int
	Block  int // import: block to import; list: block addressed explicitly, -1 = block parameter omitted (head)
	Prefix int
}

type chainScn struct {
	Version  int
	Prefixes [][]byte
	Blocks   []blockSpec
	Steps    []chainStep
}

func (s *chainScn) witness() map[string]any {
	bl := make([]string, len(s.Blocks))
	for i, b := range s.Blocks {
		var puts, dels []string
		for _, p := range b.Puts {
			puts = append(puts, hx(p[0])+"="+hv(p[1]))
		}
		for _, d := range b.Dels {
			dels = append(dels, hx(d))
		}
		bl[i] = fmt.Sprintf("block %d: parent %d puts %v deletes %v", i, b.Parent, puts, dels)
	}
	st := make([]string, len(s.Steps))
	for i, x := range s.Steps {
		switch {
		case x.Kind == stImport:
			st[i] = fmt.Sprintf("import %d", x.Block)
		case x.Block < 0:
			st[i] = fmt.Sprintf("list head %s", hx(s.Prefixes[x.Prefix]))
		default:
			st[i] = fmt.Sprintf("list block %d %s", x.Block, hx(s.Prefixes[x.Prefix]))
		}
	}
	return map[string]any{"trie_version": s.Version, "blocks": bl, "steps": st}
}

// derive generates the changes of a child block: keys added AND removed under the probed prefixes.
//
// tog are the keys whose value alternates between non-empty and EMPTY from block to block (non-empty -> empty ->
// non-empty along a chain): in 3/4 of the child blocks each of them is put with the opposite kind of value
// (re-created when an ancestor deleted it).
func derive(r *vcommon.Rand, parent *vcommon.OrdMap, prefixes [][]byte, al []byte, tog [][]byte) (blockSpec, *vcommon.OrdMap) {
	var b blockSpec
	m := parent.Clone()
	for i, n := 0, r.Range(1, 3); i < n; i++ {
		p := vcommon.Pick(r, prefixes)
		if r.Chance(1, 6) {
			p = []byte{vcommon.Pick(r, al)}
		}
		k := append(append([]byte{}, p...), genKey(r, al, 3)...)
		v := genValE(r, 1, 5)
		b.Puts = append(b.Puts, [2][]byte{k, v})
		m.Put(k, v)
	}
	for _, k := range tog {
		if !r.Chance(3, 4) {
			continue
		}
		v := genVal(r)
		if old, ok := m.Get(k); ok && len(old) > 0 {
			v = genValE(r, 1, 1)
		}
		b.Puts = append(b.Puts, [2][]byte{append([]byte{}, k...), v})
		m.Put(k, v)
	}
	for i, n := 0, r.Range(1, 2); i < n; i++ {
		var cand [][]byte
		for _, p := range prefixes {
			cand = append(cand, m.KeysWithPrefix(p)...)
		}
		if len(cand) == 0 {
			break
		}
		k := append([]byte{}, vcommon.Pick(r, cand)...)
		b.Dels = append(b.Dels, k)
		m.Delete(k)
	}
	if m.Len() > 0 && r.Chance(1, 3) { // overwrite a value: "values current"
		k := append([]byte{}, vcommon.Pick(r, m.Keys())...)
		v := genValE(r, 1, 5)
		b.Puts = append(b.Puts, [2][]byte{k, v})
		m.Put(k, v)
	}
	return b, m
}

func genChain(r *vcommon.Rand) *chainScn {
	s := &chainScn{}
	if r.Chance(1, 4) {
		s.Version = 1
	}
	al := vcommon.Pick(r, alphabets)
	perm := r.Perm(len(al))
	P, Q := []byte{al[perm[0]]}, []byte{al[perm[1]]}
	if r.Chance(1, 3) {
		P = append(P, vcommon.Pick(r, al))
	}
	s.Prefixes = [][]byte{P, Q}
	if r.Chance(1, 4) {
		s.Prefixes = append(s.Prefixes, []byte{})
	}
	np := len(s.Prefixes)
	probe := [][]byte{P, Q}
	models := []*vcommon.OrdMap{}
	// block 0
	b0 := blockSpec{Parent: -1}
	m0 := vcommon.NewOrdMap()
	for i, n := 0, r.Range(3, 8); i < n; i++ {
		p := vcommon.Pick(r, probe)
		if r.Chance(1, 5) {
			p = []byte{vcommon.Pick(r, al)}
		}
		k := append(append([]byte{}, p...), genKey(r, al, 3)...)
		v := genValE(r, 1, 5)
		b0.Puts = append(b0.Puts, [2][]byte{k, v})
		m0.Put(k, v)
	}
	// the alternating keys: one on a BRANCH node (P itself or P+x, with a longer key below it) and, half of the time,
	// a leaf under Q; they start non-empty or empty
	var tog [][]byte
	t1 := append([]byte{}, P...)
	if r.Chance(2, 3) {
		t1 = append(t1, vcommon.Pick(r, al))
	}
	below := append(append([]byte{}, t1...), vcommon.Pick(r, al))
	tog = append(tog, t1)
	if r.Bool() {
		tog = append(tog, append(append([]byte{}, Q...), 0x77, vcommon.Pick(r, al)))
	}
	for _, k := range append([][]byte{below}, tog...) {
		v := genVal(r)
		if !bytes.Equal(k, below) && r.Chance(1, 3) {
			v = genValE(r, 1, 1)
		}
		b0.Puts = append(b0.Puts, [2][]byte{k, v})
		m0.Put(k, v)
	}
	s.Blocks = append(s.Blocks, b0)
	models = append(models, m0)
	list := func(block, prefix int) {
		s.Steps = append(s.Steps, chainStep{Kind: stList, Block: block, Prefix: prefix})
	}
	imp := func(block int) { s.Steps = append(s.Steps, chainStep{Kind: stImport, Block: block}) }
	x := 0 // the prefix listed at the head right before and right after every import
	around := func(block int) {
		if r.Chance(1, 3) {
			list(-1, r.Intn(np))
		}
		if r.Chance(1, 4) {
			x = r.Intn(np)
		}
		list(-1, x)
		imp(block)
		list(-1, x)
		for i, n := 0, r.Range(0, 3); i < n; i++ {
			switch r.Intn(4) {
			case 0:
				list(-1, r.Intn(np))
			case 1: // an already imported block, explicitly
				list(r.Intn(block+1), r.Intn(np))
			case 2: // alternate two prefixes at the head
				list(-1, (x+1)%np)
				list(-1, x)
			case 3:
				list(r.Intn(block+1), x)
				list(-1, x)
			}
		}
	}
	imp(0)
	list(-1, x)
	n := r.Range(2, 5)
	for i := 1; i < n; i++ {
		b, m := derive(r, models[i-1], probe, al, tog)
		b.Parent = i - 1
		s.Blocks = append(s.Blocks, b)
		models = append(models, m)
		around(i)
	}
	if r.Chance(3, 4) { // a fork that overtakes the main chain
		a := r.Intn(n - 1)
		length := (n - 1 - a) + 1
		if length > 4 {
			length = 4
		}
		parent := a
		for j := 0; j < length; j++ {
			b, m := derive(r, models[parent], probe, al, tog)
			b.Parent = parent
			s.Blocks = append(s.Blocks, b)
			models = append(models, m)
			parent = len(s.Blocks) - 1
			around(parent)
		}
	}
	// older blocks again, explicitly, after the newer ones were listed; then the head twice
	last := len(s.Blocks) - 1
	list(0, 0)
	list(r.Intn(last+1), r.Intn(np))
	list(-1, 0)
	list(r.Intn(last+1), 0)
	list(-1, 0)
	return s
}

func fixedChains() []*chainScn {
	v := []byte{0x01}
	kv := func(k string) [2][]byte { return [2][]byte{b(k), v} }
	return []*chainScn{
		// W2 (seeded defect missed by the single-state workload): list a prefix at the head, import a new best block that
		// adds and removes keys under it, list the same prefix at the head again with nothing in between.
		{Prefixes: [][]byte{b("ab"), b("cd")},
			Blocks: []blockSpec{
				{Parent: -1, Puts: [][2][]byte{kv("abaa"), kv("abbb"), kv("cd01"), kv("20")}},
				{Parent: 0, Puts: [][2][]byte{kv("abcc"), {b("abbb"), {0x02}}}, Dels: [][]byte{b("abaa")}},
				{Parent: 1, Puts: [][2][]byte{kv("cd02")}, Dels: [][]byte{b("abcc"), b("cd01")}},
				{Parent: 0, Puts: [][2][]byte{kv("abff")}, Dels: [][]byte{b("abbb")}}, // fork of block 0
				{Parent: 3, Puts: [][2][]byte{kv("abee")}},
				{Parent: 4, Puts: [][2][]byte{kv("cd03")}, Dels: [][]byte{b("abff")}}, // overtakes
			},
			Steps: []chainStep{{stImport, 0, 0}, {stList, -1, 0}, {stImport, 1, 0}, {stList, -1, 0}, {stList, 0, 0}, {stList, -1, 0},
				{stList, -1, 1}, {stImport, 2, 0}, {stList, -1, 1}, {stList, -1, 0}, {stList, 1, 0}, {stList, 0, 1},
				{stList, -1, 0}, {stImport, 3, 0}, {stList, -1, 0}, {stList, 3, 0}, {stImport, 4, 0}, {stList, -1, 0}, {stList, 4, 0},
				{stList, -1, 0}, {stImport, 5, 0}, {stList, -1, 0}, {stList, 2, 0}, {stList, -1, 1}, {stList, 0, 0}, {stList, -1, 0}}},
		// same with a prefix ending in a zero nibble (C38-K1 has to stay attributable across blocks)
		{Prefixes: [][]byte{b("10"), b("1f")},
			Blocks: []blockSpec{
				{Parent: -1, Puts: [][2][]byte{kv("10"), kv("1000"), kv("1f")}},
				{Parent: 0, Puts: [][2][]byte{kv("10ff"), kv("11")}, Dels: [][]byte{b("1000")}},
				{Parent: 1, Dels: [][]byte{b("1f"), b("10")}},
			},
			Steps: []chainStep{{stImport, 0, 0}, {stList, -1, 0}, {stImport, 1, 0}, {stList, -1, 0}, {stList, -1, 1}, {stImport, 2, 0},
				{stList, -1, 1}, {stList, -1, 0}, {stList, 0, 0}, {stList, 1, 1}, {stList, -1, 0}}},
		// W3 (seeded defect missed while no state held an empty value): "present with an empty value" against "absent".
		// ab (a branch node: abaa, abbb below it) and cd01 (a leaf) go non-empty -> empty -> non-empty over blocks 0..2;
		// on the fork (blocks 3, 4, 5 from block 0) ab is DELETED where the main chain has it empty, then re-created
		// empty, and abbb is emptied and deleted. Prefix 2 is the empty prefix (GetPairs takes the Entries path).
		{Prefixes: [][]byte{b("ab"), b("cd"), {}},
			Blocks: []blockSpec{
				{Parent: -1, Puts: [][2][]byte{kv("ab"), kv("abaa"), kv("abbb"), kv("cd01"), kv("cd02"), {b("20"), {}}}},
				{Parent: 0, Puts: [][2][]byte{{b("ab"), {}}, {b("cd01"), nil}}},
				{Parent: 1, Puts: [][2][]byte{{b("ab"), {0x05}}, {b("cd01"), {0x06}}, {b("abaa"), {}}}},
				{Parent: 0, Puts: [][2][]byte{{b("abbb"), {}}}, Dels: [][]byte{b("ab")}}, // fork of block 0
				{Parent: 3, Puts: [][2][]byte{{b("ab"), {}}, {b("cd"), {}}}, Dels: [][]byte{b("abbb")}},
				{Parent: 4, Puts: [][2][]byte{{b("abbb"), {0x09}}, {b("cd03"), {}}}, Dels: [][]byte{b("cd")}}, // overtakes
			},
			Steps: []chainStep{{stImport, 0, 0}, {stList, -1, 0}, {stList, -1, 2}, {stImport, 1, 0}, {stList, -1, 0}, {stList, -1, 1}, {stList, -1, 2},
				{stList, 0, 0}, {stList, -1, 0}, {stImport, 2, 0}, {stList, -1, 0}, {stList, -1, 1}, {stList, 1, 0}, {stList, 1, 1}, {stList, -1, 2},
				{stList, -1, 0}, {stImport, 3, 0}, {stList, -1, 0}, {stList, 3, 0}, {stList, 1, 0}, {stList, 3, 2}, {stImport, 4, 0}, {stList, 4, 0},
				{stList, 4, 1}, {stList, -1, 0}, {stImport, 5, 0}, {stList, -1, 0}, {stList, -1, 1}, {stList, -1, 2}, {stList, 4, 1}, {stList, 1, 1},
				{stList, 0, 2}, {stList, -1, 0}}},
	}
}

type rtBlock struct {
	hash   common.Hash
	number uint
	m      *vcommon.OrdMap
	tr     *inmemory.InMemoryTrie
	parent *rtBlock
}

// valueHistory classifies, for the keys of blk's state under the prefix (and those its parent block had there), how
// the value moved between "absent", "empty" and "non-empty" along blk's ancestry.
type valueHistory struct {
	nonEmptyEmptyNonEmpty bool // grandparent non-empty, parent empty, here non-empty
	emptied               bool // parent non-empty, here empty
	filled                bool // parent empty, here non-empty
	emptyThenDeleted      bool // parent held the key with an empty value, here it is absent
	deletedThenEmpty      bool // grandparent held it, parent did not, here it exists with an empty value
}

func historyOf(blk *rtBlock, prefix []byte) (h valueHistory) {
	p := blk.parent
	if p == nil {
		return h
	}
	for _, key := range blk.m.KeysWithPrefix(prefix) {
		v, _ := blk.m.Get(key)
		pv, inP := p.m.Get(key)
		switch {
		case inP && len(pv) > 0 && len(v) == 0:
			h.emptied = true
		case inP && len(pv) == 0 && len(v) > 0:
			h.filled = true
			if p.parent != nil {
				if gv, ok := p.parent.m.Get(key); ok && len(gv) > 0 {
					h.nonEmptyEmptyNonEmpty = true
				}
			}
		case !inP && len(v) == 0 && p.parent != nil:
			if _, ok := p.parent.m.Get(key); ok {
				h.deletedThenEmpty = true
			}
		}
	}
	for _, key := range p.m.KeysWithPrefix(prefix) {
		if pv, _ := p.m.Get(key); len(pv) == 0 {
			if _, ok := blk.m.Get(key); !ok {
				h.emptyThenDeleted = true
			}
		}
	}
	return h
}

// importBlock stores the trie and adds a block carrying it on top of parent.
func (e *env) importBlock(tr *inmemory.InMemoryTrie, parent common.Hash, number uint, slot uint64) (common.Hash, error) {
	root, err := tr.Hash()
	if err != nil {
		return common.Hash{}, err
	}
	if err := e.cached.StoreTrie(rtstorage.NewTrieState(tr), nil); err != nil {
		return common.Hash{}, err
	}
	digest := types.NewDigest()
	prd, err := types.NewBabeSecondaryPlainPreDigest(0, slot).ToPreRuntimeDigest()
	if err != nil {
		return common.Hash{}, err
	}
	if err := digest.Add(*prd); err != nil {
		return common.Hash{}, err
	}
	blk := &types.Block{
		Header: types.Header{ParentHash: parent, Number: number, StateRoot: root, Digest: digest},
		Body:   *types.NewBody([]types.Extrinsic{[]byte{}}),
	}
	if err := e.bs.AddBlock(blk); err != nil {
		return common.Hash{}, err
	}
	return blk.Header.Hash(), nil
}

type lastListing struct {
	valid  bool
	head   bool
	prefix int
	at     common.Hash // best block when it was made
	result string      // expected keys of that listing
}

func runChain(c *vcommon.Case, s *chainScn) {
	e, err := newEnv()
	if err != nil {
		c.Inconclusive("cannot build chain state: " + err.Error())
		return
	}
	defer e.cleanup()
	var log []string
	k := &checker{c: c, e: e, gen: "multi-block sequence"}
	var denoted *vcommon.OrdMap
	k.witf = func() map[string]any {
		w := s.witness()
		w["executed"] = append([]string{}, log...)
		if denoted != nil {
			ks, vs := denoted.Entries()
			en := make([]string, len(ks))
			for i := range ks {
				en[i] = hx(ks[i]) + "=" + hx(vs[i])
			}
			w["entries"] = en
		}
		return w
	}
	genesis := e.bs.BestBlockHash()
	blocks := make([]*rtBlock, len(s.Blocks))
	byHash := map[common.Hash]int{}
	last := map[string]*lastListing{"cached": {}, "fromDB": {}}
	maxListedNumber := uint(0)
	best := genesis
	for si, st := range s.Steps {
		if k.bad {
			return
		}
		if st.Kind == stImport {
			spec := s.Blocks[st.Block]
			var (
				pm     = vcommon.NewOrdMap()
				ptr    = inmemory.NewEmptyTrie()
				phash  = genesis
				number = uint(1)
				prt    *rtBlock
			)
			if s.Version == 1 {
				ptr.SetVersion(trie.V1)
			}
			if spec.Parent >= 0 {
				pb := blocks[spec.Parent]
				if pb == nil {
					c.Inconclusive("scenario imports a block before its parent")
					return
				}
				pm, ptr, phash, number, prt = pb.m, pb.tr.Snapshot(), pb.hash, pb.number+1, pb
			}
			m := pm.Clone()
			tr := ptr
			for _, p := range spec.Puts {
				m.Put(p[0], p[1])
				if err := tr.Put(p[0], p[1]); err != nil {
					c.Inconclusive("trie Put failed: " + err.Error())
					return
				}
			}
			for _, d := range spec.Dels {
				m.Delete(d)
				if err := tr.Delete(d); err != nil {
					c.Inconclusive("trie Delete failed: " + err.Error())
					return
				}
			}
			if !holds(tr, m) { // trie Delete / snapshot defects are C02/C03's subject: build the state with Put only
				c.Count("chain_state_rebuilt_because_trie_delete_or_snapshot_misbehaved", 1)
				tr = inmemory.NewEmptyTrie()
				if s.Version == 1 {
					tr.SetVersion(trie.V1)
				}
				ks, vs := m.Entries()
				for i := range ks {
					if err := tr.Put(ks[i], vs[i]); err != nil {
						c.Inconclusive("trie Put failed: " + err.Error())
						return
					}
				}
				if !holds(tr, m) {
					c.Inconclusive("the trie does not hold the entries that were put into it, or a key put with an empty value does not exist in it (see C02)")
					return
				}
			}
			h, err := e.importBlock(tr, phash, number, uint64(1000+si))
			if err != nil {
				c.Inconclusive("cannot import block: " + err.Error())
				return
			}
			blocks[st.Block] = &rtBlock{hash: h, number: number, m: m, tr: tr, parent: prt}
			byHash[h] = st.Block
			nb := e.bs.BestBlockHash()
			log = append(log, fmt.Sprintf("import block %d (number %d, parent %d) -> best is block %d", st.Block, number, spec.Parent, byHash[nb]))
			c.Count("chain_blocks_imported", 1)
			if nb != best {
				c.Count("chain_best_block_changes", 1)
				if phash != best {
					c.Count("chain_reorgs_to_fork", 1)
				}
			}
			best = nb
			continue
		}
		// a listing
		prefix := s.Prefixes[st.Prefix]
		var (
			addr *common.Hash
			blk  *rtBlock
		)
		head := st.Block < 0
		if head {
			bi, ok := byHash[e.bs.BestBlockHash()]
			if !ok {
				c.Inconclusive("best block is not one of the imported blocks")
				return
			}
			blk = blocks[bi]
		} else {
			blk = blocks[st.Block]
			if blk == nil {
				c.Inconclusive("scenario lists a block before importing it")
				return
			}
			h := blk.hash
			addr = &h
		}
		denoted = blk.m
		want := hexKeys(blk.m.KeysWithPrefix(prefix))
		dev := hexKeys(devKeysWithPrefix(blk.m, prefix))
		wantS := fmt.Sprint(want)
		log = append(log, fmt.Sprintf("list prefix %s at %s (block %d, number %d): want %v", hx(prefix),
			map[bool]string{true: "head (block omitted)", false: "explicit hash"}[head], byHash[blk.hash], blk.number, want))
		if len(log) > 40 {
			log = log[len(log)-40:]
		}
		if !head && blk.hash != best {
			c.Count("chain_explicit_listings_of_non_head_blocks", 1)
			if blk.number < maxListedNumber {
				c.Count("chain_older_block_relisted_after_newer", 1)
			}
		}
		if blk.number > maxListedNumber {
			maxListedNumber = blk.number
		}
		ei := emptyIn(blk.m, prefix)
		vh := historyOf(blk, prefix)
		for _, path := range []string{"cached", "fromDB"} {
			ll := last[path]
			if head && ll.valid && ll.head && ll.prefix == st.Prefix && ll.at != best {
				c.Count("chain_head_relisted_same_prefix_across_best_block_change", 1)
				if ll.result != wantS {
					c.Count("chain_head_relisted_same_prefix_with_changed_result", 1)
				}
			}
			if ll.valid && ll.prefix != st.Prefix {
				c.Count("chain_prefix_alternations", 1)
			}
			*ll = lastListing{valid: true, head: head, prefix: st.Prefix, at: best, result: wantS}
			sm := e.mods[path]
			form := hx(prefix)
			sizes := []int{c.R.Range(1, 2), len(want) + 1}
			if len(want) > 3 && c.R.Bool() {
				sizes = append(sizes, c.R.Range(3, len(want)))
			}
			for _, q := range sizes {
				if !k.paged(path, sm, prefix, form, q, addr, want, dev, blk.m.Len()) {
					return
				}
			}
			if !k.pairs(path, sm, prefix, &form, addr, blk.m) {
				return
			}
			c.Count("chain_listings", 1)
			for name, on := range map[string]bool{
				"chain_listings_with_empty_valued_key":                                                ei.n > 0,
				"chain_listings_with_empty_value_on_branch_node":                                      ei.onBranch > 0,
				"chain_listings_with_key_nonempty_then_empty_then_nonempty_across_blocks":             vh.nonEmptyEmptyNonEmpty,
				"chain_listings_with_key_emptied_since_parent_block":                                  vh.emptied,
				"chain_listings_with_empty_valued_key_given_a_value_since_parent_block":               vh.filled,
				"chain_listings_where_parent_block_held_key_with_empty_value_now_deleted":             vh.emptyThenDeleted,
				"chain_listings_with_empty_valued_key_that_was_deleted_in_parent_block_and_recreated": vh.deletedThenEmpty,
			} {
				if on {
					c.Count(name, 1)
				}
			}
		}
	}
	nfork := 0
	for i, b := range s.Blocks {
		if b.Parent >= 0 && b.Parent != i-1 {
			nfork++
		}
	}
	sigKeys := bytes.Buffer{}
	for _, b := range s.Blocks {
		for _, p := range b.Puts {
			sigKeys.Write(p[0])
			sigKeys.WriteByte('|')
		}
	}
	c.Distinct(fmt.Sprintf("chain|v%d|b%d|f%d|s%d|%x", s.Version, len(s.Blocks), nfork, len(s.Steps), sigKeys.Bytes()))
	if c.Idx < 2 {
		c.Sample(map[string]any{"chain": s.witness()["blocks"], "executed": log})
	}
}
