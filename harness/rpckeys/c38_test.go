//go:build verif

package rpckeys

import (
	"bytes"
	"encoding/hex"
	"encoding/json"
	"fmt"
	"os"
	"sort"
	"strings"
	"testing"

	"github.com/ChainSafe/gossamer/dot/rpc/modules"
	"github.com/ChainSafe/gossamer/dot/state"
	"github.com/ChainSafe/gossamer/dot/types"
	"github.com/ChainSafe/gossamer/internal/database"
	"github.com/ChainSafe/gossamer/lib/common"
	rtstorage "github.com/ChainSafe/gossamer/lib/runtime/storage"
	"github.com/ChainSafe/gossamer/pkg/trie"
	"github.com/ChainSafe/gossamer/pkg/trie/inmemory"
	"github.com/ChainSafe/gossamer/zz_verif/vcommon"
)

type noTelemetry struct{}

func (noTelemetry) SendMessage(json.Marshaler) {}

// env is one real chain state: database, block state, and two storage states
// over the same database: one sharing the trie cache (serves from memory) and
// one with its own empty cache (loads every trie from the database).
type env struct {
	db      database.Database
	bs      *state.BlockState
	cached  *state.InmemoryStorageState
	fromDB  *state.InmemoryStorageState
	mods    map[string]*modules.StateModule
	cleanup func()
}

func newEnv() (*env, error) {
	base := os.Getenv("VERIF_TMP")
	if base == "" {
		base = os.TempDir()
	}
	dir, err := os.MkdirTemp(base, "c38-")
	if err != nil {
		return nil, err
	}
	db, err := database.LoadDatabase(dir, true)
	if err != nil {
		return nil, err
	}
	tries := state.NewTries()
	tries.SetEmptyTrie()
	gh := types.NewHeader(common.Hash{}, trie.EmptyHash, trie.EmptyHash, 0, types.NewDigest())
	bs, err := state.NewBlockStateFromGenesis(db, tries, gh, noTelemetry{})
	if err != nil {
		return nil, err
	}
	cached, err := state.NewStorageState(db, bs, tries)
	if err != nil {
		return nil, err
	}
	fromDB, err := state.NewStorageState(db, bs, state.NewTries())
	if err != nil {
		return nil, err
	}
	e := &env{db: db, bs: bs, cached: cached, fromDB: fromDB, mods: map[string]*modules.StateModule{
		"cached": modules.NewStateModule(nil, cached, nil, nil),
		"fromDB": modules.NewStateModule(nil, fromDB, nil, nil),
	}}
	e.cleanup = func() { _ = db.Close(); _ = os.RemoveAll(dir) }
	return e, nil
}

// commit stores the trie and makes it the state of a new best block.
func (e *env) commit(tr *inmemory.InMemoryTrie) (common.Hash, common.Hash, error) {
	ts := rtstorage.NewTrieState(tr)
	root, err := tr.Hash()
	if err != nil {
		return common.Hash{}, common.Hash{}, err
	}
	if err := e.cached.StoreTrie(ts, nil); err != nil {
		return common.Hash{}, common.Hash{}, err
	}
	best, err := e.bs.BestBlockHeader()
	if err != nil {
		return common.Hash{}, common.Hash{}, err
	}
	digest := types.NewDigest()
	prd, err := types.NewBabeSecondaryPlainPreDigest(0, uint64(best.Number)+1).ToPreRuntimeDigest()
	if err != nil {
		return common.Hash{}, common.Hash{}, err
	}
	if err := digest.Add(*prd); err != nil {
		return common.Hash{}, common.Hash{}, err
	}
	b := &types.Block{
		Header: types.Header{ParentHash: best.Hash(), Number: best.Number + 1, StateRoot: root, Digest: digest},
		Body:   *types.NewBody([]types.Extrinsic{[]byte{}}),
	}
	if err := e.bs.AddBlock(b); err != nil {
		return common.Hash{}, common.Hash{}, err
	}
	return b.Header.Hash(), root, nil
}

func hx(b []byte) string { return "0x" + hex.EncodeToString(b) }

// hv renders a value that is PUT: Put(k, nil) and Put(k, []byte{}) both store the key with an empty value.
func hv(v []byte) string {
	if v == nil {
		return "nil(put as nil, stored as the empty value)"
	}
	return hx(v)
}

func hexKeys(ks [][]byte) []string {
	out := make([]string, len(ks))
	for i, k := range ks {
		out[i] = hx(k)
	}
	return out
}

type scenario struct {
	Version  int
	Keys     [][]byte
	Vals     [][]byte
	Puts     [][2][]byte // second generation
	Dels     [][]byte
	Prefixes [][]byte
	AllSizes bool
}

func (s *scenario) witness() map[string]any {
	kv := make([]string, len(s.Keys))
	for i := range s.Keys {
		kv[i] = hx(s.Keys[i]) + "=" + hv(s.Vals[i])
	}
	puts := make([]string, len(s.Puts))
	for i := range s.Puts {
		puts[i] = hx(s.Puts[i][0]) + "=" + hv(s.Puts[i][1])
	}
	return map[string]any{"trie_version": s.Version, "entries": kv, "gen2_puts": puts, "gen2_deletes": hexKeys(s.Dels)}
}

var alphabets = [][]byte{
	{0x00, 0x01, 0x0f, 0x10, 0x11, 0x1f, 0xf0, 0xff},
	{0x10, 0x11, 0x1f, 0x12},
	{0x00, 0x10, 0x01},
	{0xa0, 0xab, 0xaf, 0xb0, 0x0a},
	{0x12, 0x34, 0x5a, 0x50, 0x35},
}

func genKey(r *vcommon.Rand, al []byte, maxLen int) []byte {
	n := r.Range(0, maxLen)
	if r.Chance(1, 12) {
		n = 0
	}
	k := make([]byte, n)
	for i := range k {
		k[i] = vcommon.Pick(r, al)
		if r.Chance(1, 25) {
			k[i] = byte(r.Intn(256))
		}
	}
	return k
}

func genVal(r *vcommon.Rand) []byte {
	switch r.Intn(6) {
	case 0:
		return r.Bytes(vcommon.Pick(r, []int{31, 32, 33, 40, 64}))
	case 1:
		return []byte{byte(r.Intn(256))}
	default:
		return r.Bytes(r.Range(1, 12))
	}
}

// genValE is genVal with EMPTY values (num/den of the draws): the key exists and its value has length 0. One in four
// of them is put as nil, which the trie documents to store as the empty value ("nil means there is no value").
func genValE(r *vcommon.Rand, num, den int) []byte {
	if r.Chance(num, den) {
		if r.Chance(1, 4) {
			return nil
		}
		return []byte{}
	}
	return genVal(r)
}

// emptyInfo: how many keys under a prefix exist with an empty value, and how many of those sit on a branch node
// (the key is a proper prefix of another key of the state).
type emptyInfo struct{ n, onBranch int }

func emptyIn(m *vcommon.OrdMap, p []byte) (e emptyInfo) {
	ks, vs := m.Entries()
	for i := range ks {
		if len(vs[i]) != 0 || !bytes.HasPrefix(ks[i], p) {
			continue
		}
		e.n++
		if i+1 < len(ks) && bytes.HasPrefix(ks[i+1], ks[i]) {
			e.onBranch++
		}
	}
	return e
}

// holds decides whether the trie really is the state the model describes: the same entries, and every model key --
// those with an empty value included -- EXISTS (Get returns non-nil; nil is the trie's "no value").
func holds(tr *inmemory.InMemoryTrie, m *vcommon.OrdMap) bool {
	if !m.EqualMap(tr.Entries()) {
		return false
	}
	for _, k := range m.Keys() {
		if tr.Get(k) == nil {
			return false
		}
	}
	return true
}

func genScenario(r *vcommon.Rand) *scenario {
	s := &scenario{Version: 0}
	if r.Chance(1, 4) {
		s.Version = 1
	}
	al := vcommon.Pick(r, alphabets)
	var n int
	switch r.Intn(10) {
	case 0:
		n = r.Range(0, 2)
	case 1, 2, 3, 4, 5:
		n = r.Range(3, 12)
	case 6, 7, 8:
		n = r.Range(13, 28)
	default:
		n = r.Range(29, 48)
	}
	maxLen := r.Range(2, 6)
	m := vcommon.NewOrdMap()
	for tries := 0; m.Len() < n && tries < 6*n+10; tries++ {
		var k []byte
		if m.Len() > 0 && r.Chance(1, 3) { // extend or cut an existing key: keys that are prefixes of other keys
			base := vcommon.Pick(r, m.Keys())
			if r.Bool() && len(base) > 0 {
				k = append([]byte{}, base[:r.Intn(len(base))]...)
			} else {
				k = append(append([]byte{}, base...), genKey(r, al, 2)...)
			}
		} else {
			k = genKey(r, al, maxLen)
		}
		if _, ok := m.Get(k); !ok {
			m.Put(k, genValE(r, 1, 6))
		}
	}
	ks, vs := m.Entries()
	for i := range ks {
		s.Keys = append(s.Keys, append([]byte{}, ks[i]...))
		s.Vals = append(s.Vals, append([]byte{}, vs[i]...))
		// an empty value on a branch node: the key is a proper prefix of the next key
		if i+1 < len(ks) && bytes.HasPrefix(ks[i+1], ks[i]) && r.Chance(1, 3) {
			s.Vals[i] = []byte{}
		}
		if len(s.Vals[i]) == 0 && r.Chance(1, 4) {
			s.Vals[i] = nil // put as nil = stored as the empty value
		}
	}
	// second generation: overwrite some values, delete some keys, add some keys
	for i := 0; i < r.Range(1, 5); i++ {
		switch {
		case len(s.Keys) > 0 && r.Chance(1, 4): // empty -> non-empty, non-empty -> empty
			j := r.Intn(len(s.Keys))
			if len(s.Vals[j]) == 0 {
				s.Puts = append(s.Puts, [2][]byte{s.Keys[j], genVal(r)})
			} else {
				s.Puts = append(s.Puts, [2][]byte{s.Keys[j], genValE(r, 1, 1)})
			}
		case len(s.Keys) > 0 && r.Chance(1, 3):
			s.Puts = append(s.Puts, [2][]byte{vcommon.Pick(r, s.Keys), genValE(r, 1, 6)})
		case len(s.Keys) > 0 && r.Chance(1, 2):
			s.Dels = append(s.Dels, vcommon.Pick(r, s.Keys))
		default:
			s.Puts = append(s.Puts, [2][]byte{genKey(r, al, maxLen), genValE(r, 1, 6)})
		}
	}
	// prefixes
	seen := map[string]bool{}
	add := func(p []byte) {
		if len(s.Prefixes) < 18 && !seen[string(p)] {
			seen[string(p)] = true
			s.Prefixes = append(s.Prefixes, append([]byte{}, p...))
		}
	}
	add(nil)
	for i := 0; i < 4 && len(s.Keys) > 0; i++ {
		k := vcommon.Pick(r, s.Keys)
		if len(k) == 0 {
			continue
		}
		// ending in a zero nibble: the last byte of a key prefix with its low nibble cleared
		cut := r.Range(1, len(k))
		p := append([]byte{}, k[:cut]...)
		p[cut-1] &= 0xf0
		add(p)
	}
	// an empty-valued key as the prefix, and the prefix one byte shorter (the key is listed with its siblings)
	var emptyKeys [][]byte
	for i := range s.Keys {
		if len(s.Vals[i]) == 0 && len(s.Keys[i]) > 0 {
			emptyKeys = append(emptyKeys, s.Keys[i])
		}
	}
	for i := 0; i < 2 && len(emptyKeys) > 0; i++ {
		k := vcommon.Pick(r, emptyKeys)
		add(k)
		if len(k) > 1 {
			add(k[:len(k)-1])
		}
	}
	for i := 0; i < 3 && len(s.Keys) > 0; i++ {
		k := vcommon.Pick(r, s.Keys)
		add(k) // equal to a key
		if len(k) > 0 {
			add(k[:r.Intn(len(k))]) // proper prefix
		}
		if r.Bool() {
			add(append(append([]byte{}, k...), 0x00)) // one zero byte past a key
		} else {
			add(append(append([]byte{}, k...), vcommon.Pick(r, al)))
		}
	}
	add([]byte{0x10})
	add([]byte{0x00})
	add([]byte{vcommon.Pick(r, al)})
	add([]byte{vcommon.Pick(r, al), vcommon.Pick(r, al) & 0xf0})
	add(genKey(r, al, maxLen+2))
	s.AllSizes = true
	return s
}

type checker struct {
	c   *vcommon.Case
	s   *scenario
	e   *env
	gen string
	bad bool // an unexplained violation was recorded (known-finding hits do not stop the case)
	// witf, when set, replaces the scenario witness (multi-block sequences)
	witf func() map[string]any
}

func (k *checker) baseWitness() map[string]any {
	if k.witf != nil {
		return k.witf()
	}
	return k.s.witness()
}

func (k *checker) viol(class, msg string, extra map[string]any) {
	w := k.baseWitness()
	w["generation"] = k.gen
	k.bad = true
	for a, b := range extra {
		w[a] = b
	}
	k.c.Violation(class, msg, w)
}

// zeroNibbleCorner reports whether prefix p ends in a zero nibble and the
// model holds a key that agrees with p up to the last high nibble but has a
// different low nibble there (or is shorter): the keys a nibble-trimming
// implementation would wrongly include.
func zeroNibbleCorner(m *vcommon.OrdMap, p []byte) bool {
	if len(p) == 0 || p[len(p)-1]&0x0f != 0 {
		return false
	}
	head, hi := p[:len(p)-1], p[len(p)-1]>>4
	for _, key := range m.Keys() {
		if len(key) >= len(p) && bytes.HasPrefix(key, head) && key[len(p)-1]>>4 == hi && key[len(p)-1]&0x0f != 0 {
			return true
		}
	}
	return false
}

// knownID is the open finding inherited from the trie (C02-K1 there): GetKeysWithPrefix, like ClearPrefix,
// drops ONE trailing zero nibble of the prefix and then matches on nibbles (the repository's own tests pin
// that behaviour for ClearPrefix, so it is not repaired).
const knownID = "C38-K1"

func nibbles(b []byte) []byte {
	out := make([]byte, 0, 2*len(b))
	for _, x := range b {
		out = append(out, x>>4, x&0x0f)
	}
	return out
}

// devKeysWithPrefix is the specification with exactly the C38-K1 deviation switched on.
func devKeysWithPrefix(m *vcommon.OrdMap, p []byte) [][]byte {
	if len(p) == 0 || p[len(p)-1]&0x0f != 0 {
		return m.KeysWithPrefix(p)
	}
	pn := nibbles(p)
	pn = pn[:len(pn)-1]
	var out [][]byte
	for _, key := range m.Keys() {
		if bytes.HasPrefix(nibbles(key), pn) {
			out = append(out, key)
		}
	}
	return out
}

// paged enumerates with GetKeysPaged and returns the concatenation of the pages.
func (k *checker) paged(path string, sm *modules.StateModule, prefix []byte, prefixStr string, q int, block *common.Hash, want, dev []string, total int) bool {
	c := k.c
	var got []string
	after := ""
	pages := 0
	for {
		var res modules.StateStorageKeysResponse
		req := &modules.StateStorageKeyRequest{Prefix: prefixStr, Qty: uint32(q), AfterKey: after, Block: block}
		err := sm.GetKeysPaged(nil, req, &res)
		pages++
		c.Count("pages_requested", 1)
		if err != nil {
			k.viol("paged-error", fmt.Sprintf("[%s] GetKeysPaged(prefix=%q qty=%d after=%q block=%v) failed: %v", path, prefixStr, q, after, block != nil, err),
				map[string]any{"prefix": hx(prefix), "qty": q, "after": after, "path": path, "explicit_block": block != nil})
			return false
		}
		if len(res) > q {
			k.viol("page-exceeds-qty", fmt.Sprintf("[%s] GetKeysPaged(prefix=%q qty=%d after=%q) returned %d keys", path, prefixStr, q, after, len(res)),
				map[string]any{"prefix": hx(prefix), "qty": q, "after": after, "page": []string(res), "path": path})
			return false
		}
		got = append(got, res...)
		if len(res) < q {
			break
		}
		after = res[len(res)-1]
		if pages > total+4 {
			k.viol("paged-no-progress", fmt.Sprintf("[%s] GetKeysPaged(prefix=%q qty=%d) still returns full pages after %d requests for %d matching keys", path, prefixStr, q, pages, len(want)),
				map[string]any{"prefix": hx(prefix), "qty": q, "got": got, "want": want, "path": path})
			return false
		}
	}
	c.Eval(1)
	if pages > 1 {
		c.Count("multi_page_enumerations", 1)
	}
	if strings.Join(got, ",") != strings.Join(want, ",") && strings.Join(got, ",") == strings.Join(dev, ",") {
		c.Count("known_zero_nibble_prefix_enumerations", 1)
		c.Known(knownID, fmt.Sprintf("[%s] GetKeysPaged prefix=%s qty=%d enumerated %v, want %v: the trailing zero nibble of the prefix was ignored (%s)", path, hx(prefix), q, got, want, diff(got, want)),
			map[string]any{"prefix": hx(prefix), "qty": q, "got": got, "want": want, "entries": k.baseWitness()["entries"]})
		return true
	}
	if len(got) != len(want) || strings.Join(got, ",") != strings.Join(want, ",") {
		k.viol("paged-enumeration", fmt.Sprintf("[%s] GetKeysPaged prefix=%s qty=%d block=%v enumerated %v, want %v (%s)", path, hx(prefix), q, block != nil, got, want, diff(got, want)),
			map[string]any{"prefix": hx(prefix), "qty": q, "got": got, "want": want, "path": path, "explicit_block": block != nil})
		return false
	}
	return true
}

func diff(got, want []string) string {
	w := map[string]int{}
	for _, x := range want {
		w[x]++
	}
	g := map[string]int{}
	for _, x := range got {
		g[x]++
	}
	var extra, missing, dup []string
	for x, n := range g {
		if w[x] == 0 {
			extra = append(extra, x)
		} else if n > 1 {
			dup = append(dup, x)
		}
	}
	for x := range w {
		if g[x] == 0 {
			missing = append(missing, x)
		}
	}
	sort.Strings(extra)
	sort.Strings(missing)
	sort.Strings(dup)
	s := fmt.Sprintf("extra=%v missing=%v repeated=%v", extra, missing, dup)
	if len(extra)+len(missing)+len(dup) == 0 {
		s += " order differs"
	}
	return s
}

func (k *checker) pairs(path string, sm *modules.StateModule, prefix []byte, prefixStr *string, bhash *common.Hash, m *vcommon.OrdMap) bool {
	c := k.c
	var res modules.StatePairResponse
	err := sm.GetPairs(nil, &modules.StatePairRequest{Prefix: prefixStr, Bhash: bhash}, &res)
	c.Eval(1)
	c.Count("pairs_requests", 1)
	ps := "<nil>"
	if prefixStr != nil {
		ps = *prefixStr
	}
	ex := map[string]any{"prefix": hx(prefix), "prefix_string": ps, "path": path, "explicit_block": bhash != nil}
	if err != nil {
		k.viol("pairs-error", fmt.Sprintf("[%s] GetPairs(prefix=%q) failed: %v", path, ps, err), ex)
		return false
	}
	got := map[string]string{}
	for _, it := range res {
		kv, ok := it.([]string)
		if !ok || len(kv) != 2 {
			ex["item"] = fmt.Sprintf("%#v", it)
			k.viol("pairs-shape", fmt.Sprintf("[%s] GetPairs(prefix=%q) returned an item that is not a [key,value] pair", path, ps), ex)
			return false
		}
		if _, dup := got[kv[0]]; dup {
			ex["key"] = kv[0]
			k.viol("pairs-duplicate", fmt.Sprintf("[%s] GetPairs(prefix=%q) lists key %s twice", path, ps, kv[0]), ex)
			return false
		}
		got[kv[0]] = kv[1]
	}
	want := map[string]string{}
	for _, key := range m.KeysWithPrefix(prefix) {
		v, _ := m.Get(key)
		want[hx(key)] = hx(v)
	}
	wantDev := map[string]string{}
	for _, key := range devKeysWithPrefix(m, prefix) {
		v, _ := m.Get(key)
		wantDev[hx(key)] = hx(v)
	}
	if !sameMap(got, want) && sameMap(got, wantDev) {
		c.Count("known_zero_nibble_prefix_pair_listings", 1)
		c.Known(knownID, fmt.Sprintf("[%s] GetPairs(prefix=%q) lists %d pairs, want %d: the trailing zero nibble of the prefix was ignored", path, ps, len(got), len(want)),
			map[string]any{"prefix": hx(prefix), "got": got, "want": want})
		return true
	}
	var bad []string
	for key, v := range want {
		if gv, ok := got[key]; !ok {
			bad = append(bad, "missing "+key)
		} else if gv != v {
			bad = append(bad, fmt.Sprintf("%s has value %s want %s", key, gv, v))
		}
	}
	for key := range got {
		if _, ok := want[key]; !ok {
			bad = append(bad, "extra "+key)
		}
	}
	if len(bad) > 0 {
		sort.Strings(bad)
		ex["got"] = got
		ex["want"] = want
		k.viol("pairs-listing", fmt.Sprintf("[%s] GetPairs(prefix=%q block=%v): %s", path, ps, bhash != nil, strings.Join(bad, "; ")), ex)
		return false
	}
	if len(want) > 0 {
		c.Count("pairs_nonempty_listings", 1)
	}
	// the listing held keys that EXIST with an empty value (expected, and found, as [key, "0x"])
	if ei := emptyIn(m, prefix); ei.n > 0 {
		which := "pairs_nonempty_prefix"
		if len(prefix) == 0 {
			which = "pairs_empty_prefix"
		}
		c.Count(which+"_listings_with_empty_valued_key", 1)
		if ei.onBranch > 0 {
			c.Count(which+"_listings_with_empty_value_on_branch_node", 1)
		}
		if ei.n == len(want) {
			c.Count(which+"_listings_of_empty_valued_keys_only", 1)
		}
	}
	return true
}

func sameMap(a, b map[string]string) bool {
	if len(a) != len(b) {
		return false
	}
	for k, v := range a {
		if w, ok := b[k]; !ok || w != v {
			return false
		}
	}
	return true
}

func pageSizes(r *vcommon.Rand, m int, all bool) []int {
	if all || m <= 6 {
		out := make([]int, 0, m+1)
		for q := 1; q <= m+1; q++ {
			out = append(out, q)
		}
		return out
	}
	set := map[int]bool{1: true, 2: true, m - 1: true, m: true, m + 1: true, r.Range(3, m): true}
	var out []int
	for q := range set {
		if q >= 1 {
			out = append(out, q)
		}
	}
	sort.Ints(out)
	return out
}

// checkState decides one generation: all prefixes, both storage paths.
func (k *checker) checkState(m *vcommon.OrdMap, block *common.Hash) {
	c := k.c
	for _, p := range k.s.Prefixes {
		want := hexKeys(m.KeysWithPrefix(p))
		dev := hexKeys(devKeysWithPrefix(m, p))
		corner := zeroNibbleCorner(m, p)
		if corner {
			c.Count("prefixes_ending_in_zero_nibble_with_sibling_low_nibbles", 1)
		}
		if len(p) > 0 && p[len(p)-1]&0x0f == 0 {
			c.Count("prefixes_ending_in_zero_nibble", 1)
		}
		if len(p) == 0 {
			c.Count("prefix_empty", 1)
		}
		if v, ok := m.Get(p); ok {
			c.Count("prefix_equals_a_key", 1)
			if len(v) == 0 {
				c.Count("prefix_equals_an_empty_valued_key", 1)
			}
		}
		ei := emptyIn(m, p)
		if len(want) == 0 {
			c.Count("prefix_matching_nothing", 1)
		}
		c.Count("prefixes_checked", 1)
		for _, path := range []string{"cached", "fromDB"} {
			sm := k.e.mods[path]
			forms := []string{hx(p)}
			if len(p) == 0 {
				forms = []string{"", "0x"}
			}
			for fi, form := range forms {
				for _, q := range pageSizes(c.R, len(want), k.s.AllSizes && path == "cached" && fi == 0) {
					if !k.paged(path, sm, p, form, q, block, want, dev, m.Len()) {
						return
					}
					if ei.n > 0 {
						c.Count("paged_enumerations_with_empty_valued_key", 1)
						if ei.onBranch > 0 {
							c.Count("paged_enumerations_with_empty_value_on_branch_node", 1)
						}
					}
				}
				f := form
				if !k.pairs(path, sm, p, &f, block, m) {
					return
				}
			}
			if len(p) == 0 {
				if !k.pairs(path, sm, p, nil, block, m) {
					return
				}
			}
		}
	}
}

func buildTrie(s *scenario) (*inmemory.InMemoryTrie, *vcommon.OrdMap, error) {
	tr := inmemory.NewEmptyTrie()
	if s.Version == 1 {
		tr.SetVersion(trie.V1)
	}
	m := vcommon.NewOrdMap()
	for i := range s.Keys {
		if err := tr.Put(s.Keys[i], s.Vals[i]); err != nil {
			return nil, nil, err
		}
		m.Put(s.Keys[i], s.Vals[i])
	}
	return tr, m, nil
}

func runScenario(c *vcommon.Case, s *scenario) {
	e, err := newEnv()
	if err != nil {
		c.Inconclusive("cannot build chain state: " + err.Error())
		return
	}
	defer e.cleanup()
	tr, m1, err := buildTrie(s)
	if err != nil {
		c.Inconclusive("trie Put failed: " + err.Error())
		return
	}
	if !holds(tr, m1) {
		c.Inconclusive("the trie does not hold the entries that were put into it, or a key put with an empty value does not exist in it (state construction failed; see C02/C03)")
		return
	}
	h1, _, err := e.commit(tr)
	if err != nil {
		c.Inconclusive("cannot commit state: " + err.Error())
		return
	}
	k := &checker{c: c, s: s, e: e, gen: "1 (best block)"}
	k.checkState(m1, nil)
	if k.bad {
		return
	}
	// second generation on top: the listing has to follow the best block
	tr2 := tr.Snapshot()
	m2 := m1.Clone()
	for _, p := range s.Puts {
		if err := tr2.Put(p[0], p[1]); err != nil {
			c.Inconclusive("trie Put failed: " + err.Error())
			return
		}
		m2.Put(p[0], p[1])
	}
	for _, d := range s.Dels {
		if err := tr2.Delete(d); err != nil {
			c.Inconclusive("trie Delete failed: " + err.Error())
			return
		}
		m2.Delete(d)
	}
	if !holds(tr2, m2) {
		// Delete / copy-on-write defects of the trie are C02/C03's business: C38 only needs *a* second state.
		// Rebuild it with Put only, so that the listing is judged on a state that really holds the model's entries.
		c.Count("gen2_rebuilt_because_trie_delete_or_snapshot_misbehaved", 1)
		tr2 = inmemory.NewEmptyTrie()
		if s.Version == 1 {
			tr2.SetVersion(trie.V1)
		}
		ks, vs := m2.Entries()
		for i := range ks {
			if err := tr2.Put(ks[i], vs[i]); err != nil {
				c.Inconclusive("trie Put failed: " + err.Error())
				return
			}
		}
	}
	if !holds(tr2, m2) || !holds(tr, m1) {
		c.Inconclusive("the trie does not hold the entries that were put into it (state construction failed; see C02/C03)")
		return
	}
	if _, _, err := e.commit(tr2); err != nil {
		c.Inconclusive("cannot commit state: " + err.Error())
		return
	}
	k.gen = "2 (best block after puts/deletes)"
	k.checkState(m2, nil)
	if k.bad {
		return
	}
	c.Count("states_checked", 2)
	// the older state, addressed by its block hash
	k.gen = "1 (by block hash, no longer best)"
	saved := s.Prefixes
	if len(s.Prefixes) > 5 {
		s.Prefixes = s.Prefixes[:5]
	}
	all := s.AllSizes
	s.AllSizes = false
	k.checkState(m1, &h1)
	s.Prefixes, s.AllSizes = saved, all
	if k.bad {
		return
	}
	c.Count("states_checked_by_block_hash", 1)
	shape := 0
	if _, ok := m1.Get(nil); ok {
		shape |= 1
		c.Count("states_with_empty_key", 1)
	}
	for _, p := range s.Prefixes {
		if zeroNibbleCorner(m1, p) {
			shape |= 2
		}
	}
	ks := m1.Keys()
	for i := 1; i < len(ks); i++ {
		if bytes.HasPrefix(ks[i], ks[i-1]) {
			shape |= 4
			c.Count("states_with_key_that_prefixes_another", 1)
			break
		}
	}
	for _, m := range []*vcommon.OrdMap{m1, m2} {
		if ei := emptyIn(m, nil); ei.n > 0 {
			shape |= 8
			c.Count("states_with_empty_valued_key", 1)
			if ei.onBranch > 0 {
				shape |= 16
				c.Count("states_with_empty_value_on_branch_node", 1)
			}
			if ei.n == m.Len() {
				c.Count("states_with_empty_values_only", 1)
			}
		}
	}
	for _, key := range ks { // the same key in both generations: value emptied / filled / deleted while empty
		v1, _ := m1.Get(key)
		v2, in2 := m2.Get(key)
		switch {
		case len(v1) == 0 && !in2:
			c.Count("gen2_deleted_an_empty_valued_key", 1)
		case len(v1) == 0 && len(v2) > 0:
			c.Count("gen2_gave_an_empty_valued_key_a_value", 1)
		case len(v1) > 0 && in2 && len(v2) == 0:
			c.Count("gen2_emptied_the_value_of_a_key", 1)
		}
	}
	for i := range s.Vals {
		if s.Vals[i] == nil {
			c.Count("keys_put_with_nil_value_stored_as_empty", 1)
		}
	}
	c.Distinct(fmt.Sprintf("v%d|n%d|shape%d|%s", s.Version, m1.Len(), shape, strings.Join(hexKeys(ks), ",")))
}

func b(s string) []byte {
	out, err := hex.DecodeString(s)
	if err != nil {
		panic(err)
	}
	return out
}

func fixedScenarios() []*scenario {
	mk := func(version int, keys []string, prefixes []string, puts [][2]string, dels []string) *scenario {
		s := &scenario{Version: version, AllSizes: true}
		sort.Strings(keys)
		for i, k := range keys {
			s.Keys = append(s.Keys, b(k))
			s.Vals = append(s.Vals, []byte{byte(i + 1), 0xaa})
		}
		for _, p := range prefixes {
			s.Prefixes = append(s.Prefixes, b(p))
		}
		for _, p := range puts {
			s.Puts = append(s.Puts, [2][]byte{b(p[0]), b(p[1])})
		}
		for _, d := range dels {
			s.Dels = append(s.Dels, b(d))
		}
		return s
	}
	// empty sets the value of the given keys to the empty value (the key EXISTS; it is rendered [key, "0x"])
	empty := func(s *scenario, keys ...string) *scenario {
		for _, k := range keys {
			found := false
			for i := range s.Keys {
				if bytes.Equal(s.Keys[i], b(k)) {
					s.Vals[i], found = []byte{}, true
				}
			}
			if !found {
				panic("fixed scenario: no key " + k)
			}
		}
		return s
	}
	long := bytes.Repeat([]byte{0x77}, 40)
	s9 := empty(mk(1, []string{"ab", "abcd", "abce", "cd", "cd01"}, []string{"ab", "", "abcd", "cd", "abce"},
		[][2]string{{"abcd", ""}, {"ab", hex.EncodeToString(long)}}, nil), "ab", "abce")
	s9.Vals[1] = long
	s5 := mk(1, []string{"10", "1f", "1000", "01"}, []string{"", "10", "1f", "01"}, [][2]string{{"1f", hex.EncodeToString(long)}}, nil)
	s5.Vals[0] = long
	return []*scenario{
		// W1 (defect inherited from the trie, fixed on fix-trie): prefix 0x10 listed key 0x1f as well, because the
		// trailing zero nibble of the prefix was trimmed before the descent.
		mk(0, []string{"10", "1f", "1000", "10ff", "11", "20"}, []string{"10", "", "1f", "1000", "20", "00"}, [][2]string{{"1f", "01"}}, []string{"11"}),
		mk(0, []string{"1f"}, []string{"10", "1f", "", "1e"}, nil, []string{"1f"}),
		mk(0, []string{"ab10", "ab1f", "ab", "ab0f"}, []string{"ab10", "ab", "ab00", "a0", "ab1f00"}, [][2]string{{"ab11", "05"}}, nil),
		// the empty key, and keys that are prefixes of each other
		mk(0, []string{"", "00", "0000", "000000", "01"}, []string{"", "00", "0000", "000000", "00000000", "01", "0100"}, [][2]string{{"", "09"}}, []string{"0000"}),
		mk(0, nil, []string{"", "00", "10"}, [][2]string{{"10", "01"}}, nil),
		s5,
		mk(0, []string{"f0", "ff", "f000", "0f", "00"}, []string{"f0", "00", "f000", "ff", ""}, nil, []string{"f0"}),
		// W3 (seeded defect missed while no state held an empty value: GetPairs with a non-empty prefix dropped keys
		// whose value is empty, taking "length 0" for "removed"). Empty value on a branch node (ab, cd, the empty
		// key), on leaves (abce, cd01, ef); generation 2 fills ab, empties abcd, deletes abce and puts a new empty key.
		empty(mk(0, []string{"", "ab", "abcd", "abce", "cd", "cd01", "ef", "20"}, []string{"ab", "abce", "cd", "ef", "", "abcd", "a0", "cd01", "20"},
			[][2]string{{"ab", "07"}, {"abcd", ""}, {"ee", ""}}, []string{"abce"}), "", "ab", "abce", "cd", "cd01", "ef"),
		// every value empty, under a prefix ending in a zero nibble (C38-K1 has to stay attributable: the deviation
		// oracle carries the empty values too)
		empty(mk(0, []string{"10", "1000", "10ff", "11", "1f"}, []string{"10", "1f", "", "1000", "11"},
			[][2]string{{"1f", "01"}, {"12", ""}}, []string{"11"}), "10", "1000", "10ff", "11", "1f"),
		// V1: empty values next to a hashed (> 32 byte) value; the branch value goes empty -> hashed, a leaf hashed -> empty
		s9,
	}
}

func TestVerifC38(t *testing.T) {
	r := vcommon.Start(t, "C38")
	defer r.Finish()
	r.Floor("states_checked", 300)
	r.Floor("states_checked_by_block_hash", 100)
	r.Floor("prefixes_checked", 5000)
	r.Floor("prefixes_ending_in_zero_nibble", 1000)
	r.Floor("prefixes_ending_in_zero_nibble_with_sibling_low_nibbles", 150)
	r.Floor("prefix_empty", 300)
	r.Floor("prefix_equals_a_key", 500)
	r.Floor("prefix_matching_nothing", 300)
	r.Floor("multi_page_enumerations", 5000)
	r.Floor("pairs_nonempty_listings", 2000)
	r.Floor("states_with_empty_key", 10)
	r.Floor("states_with_key_that_prefixes_another", 100)
	// keys that exist with an EMPTY value ([key, "0x"] in GetPairs; listed by GetKeysPaged)
	r.Floor("states_with_empty_valued_key", 200)
	r.Floor("states_with_empty_value_on_branch_node", 200)
	r.Floor("paged_enumerations_with_empty_valued_key", 15000)
	r.Floor("paged_enumerations_with_empty_value_on_branch_node", 10000)
	r.Floor("pairs_empty_prefix_listings_with_empty_valued_key", 2000)
	r.Floor("pairs_nonempty_prefix_listings_with_empty_valued_key", 3000)
	r.Floor("pairs_nonempty_prefix_listings_with_empty_value_on_branch_node", 1500)
	r.Floor("pairs_empty_prefix_listings_with_empty_value_on_branch_node", 1500)
	r.Floor("prefix_equals_an_empty_valued_key", 700)
	r.Floor("gen2_emptied_the_value_of_a_key", 50)
	r.Floor("gen2_gave_an_empty_valued_key_a_value", 40)
	r.Floor("gen2_deleted_an_empty_valued_key", 15)

	fx := fixedScenarios()
	r.Fixed("fixed", len(fx), func(c *vcommon.Case) {
		runScenario(c, fx[c.Idx])
		c.Sample(map[string]any{"fixed": c.Idx, "keys": hexKeys(fx[c.Idx].Keys), "prefixes": hexKeys(fx[c.Idx].Prefixes), "failed": c.Failed()})
	})
	r.Floor("chain_head_relisted_same_prefix_across_best_block_change", 600)
	r.Floor("chain_head_relisted_same_prefix_with_changed_result", 300)
	r.Floor("chain_explicit_listings_of_non_head_blocks", 600)
	r.Floor("chain_older_block_relisted_after_newer", 200)
	r.Floor("chain_reorgs_to_fork", 40)
	r.Floor("chain_blocks_imported", 500)
	r.Floor("chain_listings_with_empty_valued_key", 1500)
	r.Floor("chain_listings_with_empty_value_on_branch_node", 800)
	r.Floor("chain_listings_with_key_nonempty_then_empty_then_nonempty_across_blocks", 200)
	r.Floor("chain_listings_with_key_emptied_since_parent_block", 600)
	r.Floor("chain_listings_where_parent_block_held_key_with_empty_value_now_deleted", 250)
	fc := fixedChains()
	r.Fixed("fixedchain", len(fc), func(c *vcommon.Case) { runChain(c, fc[c.Idx]) })
	r.Cases("chain", r.Scale(160), func(c *vcommon.Case) {
		runChain(c, genChain(c.R))
	})
	r.Cases("rand", r.Scale(400), func(c *vcommon.Case) {
		s := genScenario(c.R)
		runScenario(c, s)
		if c.Idx < 8 {
			c.Sample(map[string]any{"trie_version": s.Version, "keys": hexKeys(s.Keys), "prefixes": hexKeys(s.Prefixes), "failed": c.Failed()})
		}
	})
}
