//go:build verif

package grandpa

import "github.com/ChainSafe/gossamer/dot/network"

// VerifDecodeMessage exposes the unexported gossip decoder (network.go decodeMessage)
// to the external verification harness. Compiled only with -tags verif.
func VerifDecodeMessage(cm *network.ConsensusMessage) (GrandpaMessage, error) {
	return decodeMessage(cm)
}
