//go:build verif

package network_test

// C33 — network message decoders withstand arbitrary peer input.
//
// Monitor: every decoder call is wrapped by `probe`, which observes
//   - panics (recovered, with the input and the stack as witness),
//   - bytes allocated (runtime.MemStats.TotalAlloc delta) against allocBudget(len),
//   - CPU time of the process (getrusage) against cpuBudget(len),
//   - for a successful decode m: Decode(Encode(m)) must succeed and equal m.
// Fatal errors (out of memory, stack overflow) and hangs kill the child; the
// driver attributes them to the running case (classes crash / hang).

import (
	"bytes"
	"fmt"
	"math/bits"
	"os"
	"reflect"
	"runtime"
	"runtime/debug"
	"strconv"
	"syscall"
	"testing"

	"github.com/ChainSafe/gossamer/dot/network"
	"github.com/ChainSafe/gossamer/dot/network/messages"
	"github.com/ChainSafe/gossamer/dot/types"
	cgrandpa "github.com/ChainSafe/gossamer/internal/client/consensus/grandpa"
	"github.com/ChainSafe/gossamer/internal/primitives/core/hash"
	pruntime "github.com/ChainSafe/gossamer/internal/primitives/runtime"
	"github.com/ChainSafe/gossamer/lib/grandpa"
	"github.com/ChainSafe/gossamer/pkg/scale"
	"github.com/ChainSafe/gossamer/zz_verif/vcommon"
	"github.com/ChainSafe/gossamer/zz_verif/wire"
)

// ---------------------------------------------------------------- budgets (logical, never wall-clock)

// allocBudget: memory proportional to the input length. The reflective SCALE
// decoder legitimately spends up to ~320 bytes per input byte on vectors of
// one-byte elements (measured on the "dense" corpus: 131072 empty extrinsics
// cost 317 B per input byte; see NOTES.md); the slope leaves a 3x margin over
// that and is still 3 orders of magnitude below what a length prefix can claim
// (2^20 .. 2^64 from a message of a few hundred bytes).
const (
	allocSlope = 1024
	allocConst = 1 << 20
)

func allocBudget(n int) uint64 { return uint64(allocSlope*n + allocConst) }

// cpuBudget in microseconds: 1 s + 100 us per input byte (normal cost is well below 1 us per byte).
func cpuBudget(n int) int64 { return 1_000_000 + 100*int64(n) }

func cpuMicros() int64 {
	var ru syscall.Rusage
	_ = syscall.Getrusage(syscall.RUSAGE_SELF, &ru)
	return (ru.Utime.Sec+ru.Stime.Sec)*1_000_000 + int64(ru.Utime.Usec) + int64(ru.Stime.Usec)
}

// ---------------------------------------------------------------- structural equality (nil slice == empty slice)

func eqv(a, b reflect.Value) bool {
	if a.IsValid() != b.IsValid() {
		return false
	}
	if !a.IsValid() {
		return true
	}
	if a.Type() != b.Type() {
		return false
	}
	switch a.Kind() {
	case reflect.Slice:
		if a.Len() != b.Len() {
			return false
		}
		if a.Type().Elem().Kind() == reflect.Uint8 && a.CanInterface() {
			return bytes.Equal(a.Bytes(), b.Bytes())
		}
		for i := 0; i < a.Len(); i++ {
			if !eqv(a.Index(i), b.Index(i)) {
				return false
			}
		}
		return true
	case reflect.Array:
		for i := 0; i < a.Len(); i++ {
			if !eqv(a.Index(i), b.Index(i)) {
				return false
			}
		}
		return true
	case reflect.Struct:
		for i := 0; i < a.NumField(); i++ {
			if a.Type().Field(i).Name == "hash" && a.Type() == reflect.TypeOf(types.Header{}) {
				continue
			}
			if !eqv(a.Field(i), b.Field(i)) {
				return false
			}
		}
		return true
	case reflect.Ptr, reflect.Interface:
		if a.IsNil() || b.IsNil() {
			return a.IsNil() == b.IsNil()
		}
		return eqv(a.Elem(), b.Elem())
	case reflect.Bool:
		return a.Bool() == b.Bool()
	case reflect.Int, reflect.Int8, reflect.Int16, reflect.Int32, reflect.Int64:
		return a.Int() == b.Int()
	case reflect.Uint, reflect.Uint8, reflect.Uint16, reflect.Uint32, reflect.Uint64, reflect.Uintptr:
		return a.Uint() == b.Uint()
	case reflect.String:
		return a.String() == b.String()
	}
	panic("eqv: unsupported kind " + a.Kind().String())
}

// ---------------------------------------------------------------- decoders under observation

type decoder struct {
	name   string
	pb     bool                         // protobuf framing (varint lengths) instead of SCALE
	decode func(in []byte) (any, error) // the real decoder
	encode func(m any) ([]byte, error)  // nil: the message type has no encoder
	valid  func(r *vcommon.Rand) []byte // reference encoding of a generated valid message
	dense  func(n int) []byte           // a valid message of about n bytes made of minimal elements (worst alloc ratio)
}

func scaleVec(items ...[]byte) []byte {
	out := wire.Compact(uint64(len(items)))
	for _, it := range items {
		out = append(out, it...)
	}
	return out
}

func rep(n int, item []byte) []byte {
	out := wire.Compact(uint64(n))
	for i := 0; i < n; i++ {
		out = append(out, item...)
	}
	return out
}

func cat(parts ...[]byte) []byte {
	out := []byte{}
	for _, p := range parts {
		out = append(out, p...)
	}
	return out
}

func genKeys(r *vcommon.Rand) []byte {
	var items [][]byte
	for i, n := 0, r.Intn(5); i < n; i++ {
		items = append(items, wire.Bytes(wire.GenData(r, false)))
	}
	return scaleVec(items...)
}

func optHash(r *vcommon.Rand) []byte {
	if r.Bool() {
		return []byte{0}
	}
	return cat([]byte{1}, r.Bytes(32))
}

func genLightRequest(r *vcommon.Rand) []byte {
	d := func() []byte { return wire.Bytes(wire.GenData(r, false)) }
	storageKey := []byte{0}
	if r.Bool() {
		storageKey = cat([]byte{1}, d())
	}
	return cat(
		d(), d(), d(), // call: block, method, data
		d(), genKeys(r), // read: block, keys
		d(),                  // header: block
		d(), d(), genKeys(r), // read child: block, storage key, keys
		optHash(r), optHash(r), d(), d(), storageKey) // changes
}

func genLightResponse(r *vcommon.Rand) []byte {
	d := func() []byte { return wire.Bytes(wire.GenData(r, false)) }
	var hdrs [][]byte
	for i, n := 0, r.Intn(4); i < n; i++ {
		if r.Chance(1, 4) {
			hdrs = append(hdrs, []byte{0})
		} else {
			hdrs = append(hdrs, cat([]byte{1}, wire.GenHeader(r, true).Ref()))
		}
	}
	var roots [][]byte
	for i, n := 0, r.Intn(4); i < n; i++ {
		var pairs [][]byte
		for j, m := 0, r.Intn(4); j < m; j++ {
			pairs = append(pairs, cat(d(), d()))
		}
		roots = append(roots, scaleVec(pairs...))
	}
	return cat(d(), d(), scaleVec(hdrs...), d(), genKeys(r), scaleVec(roots...), d())
}

func genStateRequest(r *vcommon.Rand) []byte {
	out := []byte{}
	if r.Chance(7, 8) {
		out = append(out, wire.PbBytes(1, r.Bytes(32))...)
	}
	for i, n := 0, r.Intn(4); i < n; i++ {
		out = append(out, wire.PbBytes(2, wire.GenData(r, false))...)
	}
	if r.Bool() {
		out = append(out, wire.PbUint(3, 1)...)
	}
	return out
}

func genStateResponse(r *vcommon.Rand) []byte {
	out := []byte{}
	for i, n := 0, r.Intn(4); i < n; i++ {
		e := wire.PbBytes(1, r.Bytes(32))
		for j, m := 0, r.Intn(5); j < m; j++ {
			e = append(e, wire.PbBytes(2, cat(wire.PbBytes(1, wire.GenData(r, false)), wire.PbBytes(2, wire.GenData(r, false))))...)
		}
		if r.Bool() {
			e = append(e, wire.PbUint(3, 1)...)
		}
		out = append(out, wire.PbBytes(1, e)...)
	}
	if r.Bool() {
		out = append(out, wire.PbBytes(2, wire.GenData(r, true))...)
	}
	return out
}

func header0() []byte { return wire.Header{}.Ref() }

func decoders() []decoder {
	type encoder interface{ Encode() ([]byte, error) }
	viaEncode := func(m any) ([]byte, error) { return m.(encoder).Encode() }
	return []decoder{
		{name: "block_announce",
			decode: func(in []byte) (any, error) { return network.VerifDecodeBlockAnnounceMessage(in) },
			encode: viaEncode,
			valid:  func(r *vcommon.Rand) []byte { return wire.GenAnnounce(r, true).Ref() },
			dense: func(n int) []byte { // n RuntimeEnvironmentUpdated items of one byte each
				h := header0()
				return cat(h[:len(h)-1], rep(n, []byte{8}), []byte{1})
			}},
		{name: "block_announce_handshake",
			decode: func(in []byte) (any, error) { return network.VerifDecodeBlockAnnounceHandshake(in) },
			encode: viaEncode,
			valid:  func(r *vcommon.Rand) []byte { return wire.GenHandshake(r).Ref() }},
		{name: "transaction",
			decode: func(in []byte) (any, error) { return network.VerifDecodeTransactionMessage(in) },
			encode: viaEncode,
			valid:  func(r *vcommon.Rand) []byte { return wire.GenBody(r).Ref() },
			dense:  func(n int) []byte { return rep(n, []byte{0}) }},
		{name: "block_request", pb: true,
			decode: func(in []byte) (any, error) { return network.VerifDecodeSyncMessage(in, "", true) },
			encode: viaEncode,
			valid:  func(r *vcommon.Rand) []byte { return wire.GenBlockRequest(r).Ref() }},
		{name: "block_response", pb: true,
			decode: func(in []byte) (any, error) {
				m := new(messages.BlockResponseMessage)
				return m, m.Decode(in)
			},
			encode: viaEncode,
			valid:  func(r *vcommon.Rand) []byte { return wire.GenBlockResponse(r, true).Ref() },
			dense: func(n int) []byte { // n/3 blocks with an empty hash field only; then one block with n/3 empty extrinsics
				out := []byte{}
				for i := 0; i < n/6; i++ {
					out = append(out, wire.PbBytes(1, wire.PbBytes(1, nil))...)
				}
				b := wire.PbBytes(1, make([]byte, 32))
				for i := 0; i < n/6; i++ {
					b = append(b, wire.PbBytes(3, []byte{0})...)
				}
				return append(out, wire.PbBytes(1, b)...)
			}},
		{name: "state_request", pb: true,
			decode: func(in []byte) (any, error) {
				m := new(messages.StateRequest)
				return m, m.Decode(in)
			},
			encode: viaEncode,
			valid:  genStateRequest,
			dense: func(n int) []byte {
				out := []byte{}
				for i := 0; i < n/2; i++ {
					out = append(out, wire.PbBytes(2, nil)...)
				}
				return out
			}},
		{name: "state_response", pb: true,
			decode: func(in []byte) (any, error) {
				m := new(messages.StateResponse)
				return m, m.Decode(in)
			},
			valid: genStateResponse,
			dense: func(n int) []byte {
				out := []byte{}
				for i := 0; i < n/2; i++ {
					out = append(out, wire.PbBytes(1, nil)...)
				}
				return out
			}},
		{name: "light_request",
			decode: func(in []byte) (any, error) { return network.VerifNewLightRequestFromBytes(in) },
			encode: viaEncode,
			valid:  genLightRequest,
			dense: func(n int) []byte {
				e := []byte{0}
				return cat(e, e, e, e, rep(n, e), e, e, e, e, e, e, e, e, e)
			}},
		{name: "light_response",
			decode: func(in []byte) (any, error) { return network.VerifNewLightResponseFromBytes(in) },
			encode: viaEncode,
			valid:  genLightResponse,
			dense: func(n int) []byte { // n absent headers
				e := []byte{0}
				return cat(e, e, rep(n, e), e, e, e, e)
			}},
		{name: "warp_proof_request",
			decode: func(in []byte) (any, error) { return network.VerifDecodeWarpSyncMessage(in, "", true) },
			encode: viaEncode,
			valid:  func(r *vcommon.Rand) []byte { return r.Bytes(32) }},
		{name: "grandpa_message",
			decode: func(in []byte) (any, error) {
				cm := new(network.ConsensusMessage)
				if err := cm.Decode(in); err != nil {
					return nil, err
				}
				return grandpa.VerifDecodeMessage(cm)
			},
			encode: func(m any) ([]byte, error) {
				cm, err := m.(grandpa.GrandpaMessage).ToConsensusMessage()
				if err != nil {
					return nil, err
				}
				return cm.Encode()
			},
			valid: func(r *vcommon.Rand) []byte { return wire.GenGossip(r, r.Intn(5)).Ref() },
			dense: func(n int) []byte { // commit with n/36 precommits and no auth data
				return cat([]byte{1}, make([]byte, 16+36), rep(n/36, make([]byte, 36)), []byte{0})
			}},
		// the notifications decoder of the GRANDPA protocol (lib/grandpa Service.decodeMessage): the wrapper
		// is what createNotificationsMessageHandler caches, hands to the handler and gossips on
		{name: "consensus_message",
			decode: func(in []byte) (any, error) {
				cm := new(network.ConsensusMessage)
				return cm, cm.Decode(in)
			},
			encode: viaEncode,
			valid:  func(r *vcommon.Rand) []byte { return wire.GenGossip(r, r.Intn(5)).Ref() }},
		{name: "grandpa_handshake",
			decode: func(in []byte) (any, error) {
				hs := new(grandpa.GrandpaHandshake)
				return hs, hs.Decode(in)
			},
			encode: viaEncode,
			valid:  func(r *vcommon.Rand) []byte { return []byte{vcommon.Pick(r, []byte{1, 2, 4, 0})} }},
		{name: "body",
			decode: func(in []byte) (any, error) { return types.NewBodyFromBytes(in) },
			encode: func(m any) ([]byte, error) { return scale.Marshal(*(m.(*types.Body))) },
			valid:  func(r *vcommon.Rand) []byte { return wire.GenBody(r).Ref() },
			dense:  func(n int) []byte { return rep(n, []byte{0}) }},
		{name: "justification",
			decode: func(in []byte) (any, error) {
				return cgrandpa.DecodeJustification[hash.H256, uint32, pruntime.BlakeTwo256](in)
			},
			valid: func(r *vcommon.Rand) []byte { return wire.GenJustification(r, false).RefFull(false) },
			dense: func(n int) []byte {
				return cat(make([]byte, 8+36), rep(n/132, make([]byte, 132)), []byte{0})
			}},
	}
}

// ---------------------------------------------------------------- probe

var lastInput *os.File

// accepted counts successful decodes of this process (fingerprints only).
var accepted int

// lastAlloc is the allocation observed by the most recent probe (evidence only).
var lastAlloc uint64

func noteInput(name string, in []byte) {
	if lastInput == nil {
		return
	}
	s := name + " " + wire.Hx(in) + "\n"
	_ = lastInput.Truncate(0)
	_, _ = lastInput.WriteAt([]byte(s), 0)
}

type outcome struct {
	msg   any
	err   error
	alloc uint64
	cpu   int64
	pan   any
	stack string
}

func runDecode(d *decoder, in []byte) (o outcome) {
	var m0, m1 runtime.MemStats
	runtime.ReadMemStats(&m0)
	c0 := cpuMicros()
	func() {
		defer func() {
			if p := recover(); p != nil {
				o.pan = p
				o.stack = string(debug.Stack())
				if len(o.stack) > 5000 {
					o.stack = o.stack[:5000]
				}
			}
		}()
		o.msg, o.err = d.decode(in)
	}()
	o.cpu = cpuMicros() - c0
	runtime.ReadMemStats(&m1)
	o.alloc = m1.TotalAlloc - m0.TotalAlloc
	return o
}

func witness(d *decoder, mode string, in []byte) map[string]any {
	w := map[string]any{"decoder": d.name, "mode": mode, "len": len(in)}
	if len(in) <= 4096 {
		w["input"] = wire.Hx(in)
	} else {
		w["input_head"] = wire.Hx(in[:256])
	}
	return w
}

// probe decodes one input under observation and applies every oracle of C33.
func probe(c *vcommon.Case, d *decoder, mode string, in []byte) (ok bool) {
	noteInput(d.name, in)
	c.Eval(1)
	c.Count("decodes", 1)
	c.Count("decodes:"+d.name, 1)
	// the decoder is given a slice of the receive buffer, as in Service.readStream; `in` stays the
	// caller's untouched copy (witness). The message held from the previous decode has now seen the
	// next message arrive in its buffer.
	buf := receive(in)
	nextReceived(c)
	o := runDecode(d, buf)
	if o.pan != nil {
		w := witness(d, mode, in)
		w["stack"] = o.stack
		c.Violation("panic", fmt.Sprintf("%s panicked on %d input bytes: %v", d.name, len(in), o.pan), w)
		return false
	}
	if o.alloc > allocBudget(len(in)) {
		// measure again to rule out allocation by an unrelated goroutine
		if o2 := runDecode(d, buf); o2.pan == nil && o2.alloc < o.alloc {
			o.alloc = o2.alloc
		}
	}
	c.Eval(2)
	lastAlloc = o.alloc
	switch ratio := o.alloc / uint64(len(in)+1); {
	case ratio <= 64:
		c.Count("alloc_per_byte_le_64", 1)
	case ratio <= 256:
		c.Count("alloc_per_byte_le_256", 1)
	default:
		c.Count("alloc_per_byte_gt_256", 1)
	}
	if o.alloc > allocBudget(len(in)) {
		w := witness(d, mode, in)
		w["allocated"], w["budget"] = o.alloc, allocBudget(len(in))
		c.Violation("alloc", fmt.Sprintf("%s allocated %d bytes for %d input bytes (budget %d)", d.name, o.alloc, len(in),
			allocBudget(len(in))), w)
	}
	if o.cpu > cpuBudget(len(in)) {
		w := witness(d, mode, in)
		w["cpu_us"], w["budget_us"] = o.cpu, cpuBudget(len(in))
		c.Violation("cpu", fmt.Sprintf("%s used %d us of CPU for %d input bytes (budget %d)", d.name, o.cpu, len(in),
			cpuBudget(len(in))), w)
	}
	if o.err != nil {
		c.Count("rejected", 1)
		return false
	}
	accepted++
	c.Count("accepted", 1)
	c.Count("accepted:"+mode, 1)
	// rendering an accepted message is outside the property: observed, never refuting
	if len(in) <= 2048 {
		func() {
			defer func() {
				if p := recover(); p != nil {
					c.Count("string_panics:"+d.name, 1)
				}
			}()
			if st, isStringer := o.msg.(fmt.Stringer); isStringer {
				_ = st.String() // called directly: fmt would swallow a panicking String method
				c.Count("rendered", 1)
			}
		}()
	}
	if d.encode == nil {
		hold(c, d, mode, in, o.msg, nil)
		return true
	}
	// round trip of the successfully decoded message
	c.Eval(1)
	var enc []byte
	var m2 any
	var err error
	stage := "encode"
	func() {
		defer func() {
			if p := recover(); p != nil {
				err = fmt.Errorf("panic: %v", p)
			}
		}()
		enc, err = d.encode(o.msg)
		if err != nil {
			return
		}
		stage = "decode"
		m2, err = d.decode(enc)
	}()
	if err != nil {
		w := witness(d, mode, in)
		w["decoded"], w["reencoded"] = fmt.Sprintf("%+v", o.msg), wire.Hx(enc)
		c.Violation("roundtrip", fmt.Sprintf("%s accepted the input but %s of the decoded message failed: %v", d.name, stage, err), w)
		if stage == "encode" {
			enc = nil
		}
		hold(c, d, mode, in, o.msg, enc)
		return true
	}
	if !eqv(reflect.ValueOf(o.msg), reflect.ValueOf(m2)) {
		w := witness(d, mode, in)
		w["decoded"], w["reencoded"], w["decoded_again"] = fmt.Sprintf("%+v", o.msg), wire.Hx(enc), fmt.Sprintf("%+v", m2)
		c.Violation("roundtrip", fmt.Sprintf("%s: Decode(Encode(m)) != m for the accepted message", d.name), w)
	}
	c.Count("roundtrips", 1)
	// the message is now held while its receive buffer is written to and reused
	hold(c, d, mode, in, o.msg, enc)
	return true
}

// ---------------------------------------------------------------- mutations

var scaleInflations = [][]byte{
	{0xfe, 0xff, 0xff, 0xff},                               // 2^30-1
	{0x03, 0x00, 0x00, 0x00, 0x40},                         // 2^30
	{0x03, 0xff, 0xff, 0xff, 0xff},                         // 2^32-1
	{0x13, 0xff, 0xff, 0xff, 0xff, 0xff, 0xff, 0xff, 0x7f}, // 2^63-1
	{0x02, 0x00, 0x40, 0x00},                               // 2^20
	{0x01, 0x01},                                           // 64
}

var pbInflations = [][]byte{
	{0x80, 0x80, 0x80, 0x80, 0x04},                               // 2^30
	{0xff, 0xff, 0xff, 0xff, 0x0f},                               // 2^32-1
	{0xff, 0xff, 0xff, 0xff, 0xff, 0xff, 0xff, 0xff, 0x7f},       // 2^63-1
	{0xff, 0xff, 0xff, 0xff, 0xff, 0xff, 0xff, 0xff, 0xff, 0x01}, // 2^64-1
	{0x80, 0x80, 0x40},                                           // 2^20
}

// prefixWidth is the width of the length prefix that starts at in[p].
func prefixWidth(d *decoder, in []byte, p int) int {
	w := 1
	if d.pb {
		for p+w <= len(in) && in[p+w-1]&0x80 != 0 && w < 10 {
			w++
		}
	} else {
		switch in[p] & 3 {
		case 1:
			w = 2
		case 2:
			w = 4
		case 3:
			w = 5 + int(in[p]>>2)
		}
	}
	if p+w > len(in) {
		w = len(in) - p
	}
	return w
}

func splice(in []byte, p, w int, repl []byte) []byte {
	out := make([]byte, 0, len(in)+len(repl))
	out = append(out, in[:p]...)
	out = append(out, repl...)
	return append(out, in[p+w:]...)
}

func shortValid(c *vcommon.Case, d *decoder, max int) []byte {
	v := d.valid(c.R)
	for i := 0; i < 20 && len(v) > max; i++ {
		v = d.valid(c.R)
	}
	if len(v) > max {
		v = v[:max]
	}
	return v
}

// pbMutate changes one field of a protobuf message consistently (the framing stays
// well-formed): payload shortened / extended / emptied, field renumbered, varint replaced,
// field dropped or duplicated; nested messages are mutated recursively.
func pbMutate(r *vcommon.Rand, in []byte, depth int) []byte {
	fs, err := wire.PbParse(in)
	if err != nil || len(fs) == 0 {
		return in
	}
	i := r.Intn(len(fs))
	f := &fs[i]
	switch {
	case f.Wt == 2 && depth < 2 && len(f.Data) > 0 && r.Chance(1, 3):
		f.Data = pbMutate(r, f.Data, depth+1)
	case r.Chance(1, 8):
		fs = append(fs[:i], fs[i+1:]...)
	case r.Chance(1, 8):
		fs = append(fs, fs[i])
	case f.Wt == 2:
		switch r.Intn(5) {
		case 0:
			f.Data = f.Data[:r.Intn(len(f.Data)+1)]
		case 1:
			f.Data = append(append([]byte{}, f.Data...), r.Bytes(r.Range(1, 8))...)
		case 2:
			f.Data = nil
		case 3:
			f.Num = r.Range(1, 8)
		default:
			f.Wt, f.Val = 0, uint64(len(f.Data))
		}
	default:
		f.Val = vcommon.Pick(r, []uint64{0, 1, 2, 1 << 31, 1<<32 - 1, 1 << 32, 1 << 63, f.Val + 1})
	}
	return wire.PbSerialize(fs)
}

const nModes = 7

var modeNames = [nModes]string{"valid", "bitflip", "truncate", "inflate_length", "inflate_count", "random", "splice"}

func runMode(c *vcommon.Case, d *decoder, mode int) {
	name := modeNames[mode]
	c.Count("mode:"+name, 1)
	switch mode {
	case 0: // valid messages: must not exceed the budgets either; round trip
		for i := 0; i < 8; i++ {
			v := d.valid(c.R)
			if probe(c, d, name, v) {
				c.Count("valid_accepted", 1)
				c.Count("valid_accepted:"+d.name, 1)
			} else {
				c.Count("valid_rejected:"+d.name, 1)
			}
		}
	case 1: // bit flips
		v := d.valid(c.R)
		for i := 0; i < 48 && len(v) > 0; i++ {
			m := append([]byte{}, v...)
			for k, n := 0, c.R.Range(1, 3); k < n; k++ {
				m[c.R.Intn(len(m))] ^= 1 << uint(c.R.Intn(8))
			}
			probe(c, d, name, m)
		}
	case 2: // truncation at every length
		v := shortValid(c, d, 600)
		for l := 0; l < len(v); l++ {
			probe(c, d, name, v[:l])
		}
		c.Count("truncation_sweeps", 1)
	case 3: // a length prefix inflated to 2^30 .. 2^64-1 at every byte position
		v := shortValid(c, d, 300)
		infl := scaleInflations[:4]
		if d.pb {
			infl = pbInflations[:4]
		}
		for p := 0; p < len(v); p++ {
			w := prefixWidth(d, v, p)
			for _, x := range infl {
				probe(c, d, name, splice(v, p, w, x))
			}
		}
		c.Count("inflation_sweeps", 1)
	case 4: // element counts inflated moderately (elements remain, claimed count larger)
		v := shortValid(c, d, 300)
		for p := 0; p < len(v); p++ {
			w := prefixWidth(d, v, p)
			var xs [][]byte
			if d.pb {
				xs = [][]byte{pbInflations[4], {v[p] + 1}, {0xe8, 0x07}}
			} else {
				xs = [][]byte{scaleInflations[4], scaleInflations[5], {v[p] + 4}, wire.Compact(1000), wire.Compact(1 << 14)}
			}
			for _, x := range xs {
				probe(c, d, name, splice(v, p, w, x))
			}
		}
		c.Count("count_sweeps", 1)
	case 5: // random strings
		for i := 0; i < 48; i++ {
			var n int
			switch c.R.Intn(4) {
			case 0:
				n = c.R.Range(0, 8)
			case 1:
				n = c.R.Range(0, 64)
			default:
				n = c.R.Range(0, 700)
			}
			m := c.R.Bytes(n)
			if n > 0 && c.R.Bool() { // small leading bytes reach deeper than uniform noise
				m[0] = byte(c.R.Intn(12))
			}
			if c.R.Chance(1, 4) { // sparse: mostly zero bytes (zero = empty vector / absent option / index 0)
				for j := range m {
					if !c.R.Chance(1, 8) {
						m[j] = 0
					}
				}
			}
			probe(c, d, name, m)
		}
	case 6: // structure-aware splices: duplicate / delete / insert chunks, concatenate two valid messages
		a, b := d.valid(c.R), d.valid(c.R)
		for i := 0; i < 32 && len(a) > 0; i++ {
			p := c.R.Intn(len(a))
			q := p + c.R.Intn(len(a)-p)
			var m []byte
			if d.pb && i%2 == 0 {
				probe(c, d, name, pbMutate(c.R, a, 0))
				c.Count("pb_field_mutants", 1)
				continue
			}
			switch c.R.Intn(5) {
			case 0:
				m = cat(a[:q], a[p:]) // duplicate a[p:q]
			case 1:
				m = cat(a[:p], a[q:]) // delete a[p:q]
			case 2:
				m = cat(a[:p], c.R.Bytes(c.R.Range(1, 9)), a[p:])
			case 3:
				m = cat(a[:p], b)
			default:
				m = cat(a, b[:c.R.Intn(len(b)+1)]) // trailing data
			}
			probe(c, d, name, m)
		}
	}
}

// ---------------------------------------------------------------- fixed corpus

type fixedCase struct {
	dec  string
	note string
	in   []byte
}

func fixedCorpus() []fixedCase {
	h := header0()
	hNoDigest := h[:len(h)-1]
	var fc []fixedCase
	add := func(dec, note string, in []byte) { fc = append(fc, fixedCase{dec, note, in}) }
	// SCALE byte vectors that claim far more than they carry
	add("transaction", "one extrinsic claiming 2^30-1 bytes", cat([]byte{4}, scaleInflations[0]))
	add("transaction", "one extrinsic claiming 2^32-1 bytes", cat([]byte{4}, scaleInflations[2]))
	add("transaction", "2^30-1 extrinsics claimed, none present", scaleInflations[0])
	add("transaction", "2^20 extrinsics claimed, 3 bytes present", cat(scaleInflations[4], []byte{0, 0, 0}))
	add("transaction", "empty input", nil)
	add("body", "one extrinsic claiming 2^30-1 bytes", cat([]byte{4}, scaleInflations[0]))
	add("body", "2^30-1 extrinsics claimed", scaleInflations[0])
	add("body", "count 2^63-1", scaleInflations[3])
	add("block_announce", "digest count 2^30-1", cat(hNoDigest, scaleInflations[0]))
	add("block_announce", "digest count 2^20, one item", cat(hNoDigest, scaleInflations[4], []byte{8}))
	add("block_announce", "pre-runtime item claiming 2^32-1 bytes", cat(hNoDigest, []byte{4, 6, 'B', 'A', 'B', 'E'}, scaleInflations[2]))
	add("block_announce", "Other item (index 0)", cat(hNoDigest, []byte{4, 0, 8, 0xde, 0xad}, []byte{1}))
	add("block_announce", "unknown digest index 1", cat(hNoDigest, []byte{4, 1}))
	add("block_announce", "header only, best flag missing", h)
	add("block_announce", "number 2^32 as 8-byte compact (leading zero bytes)", cat(make([]byte, 32),
		[]byte{0x13, 0, 0, 0, 0, 1, 0, 0, 0}, make([]byte, 64), []byte{0, 1}))
	add("block_announce", "number 2^32 canonical 5-byte compact", cat(make([]byte, 32), []byte{0x07, 0, 0, 0, 0, 1}, make([]byte, 64), []byte{0, 1}))
	add("block_announce", "number 2^64-1", cat(make([]byte, 32), []byte{0x13, 255, 255, 255, 255, 255, 255, 255, 255}, make([]byte, 64), []byte{0, 1}))
	add("block_announce", "number with compact length beyond 8 bytes", cat(make([]byte, 32), []byte{0x33}, make([]byte, 16), make([]byte, 64), []byte{0, 1}))
	add("block_announce", "best flag 2", cat(h, []byte{2}))
	add("block_announce_handshake", "one byte short", make([]byte, 68))
	add("block_announce_handshake", "empty", nil)
	add("grandpa_message", "empty", nil)
	add("grandpa_message", "index only", []byte{1})
	add("grandpa_message", "unknown index 5", []byte{5, 0, 0})
	add("grandpa_message", "neighbour version 0", cat([]byte{2, 0}, make([]byte, 20)))
	add("grandpa_message", "commit: 2^30-1 precommits claimed", cat([]byte{1}, make([]byte, 16+36), scaleInflations[0]))
	add("grandpa_message", "commit: 2^20 precommits claimed, one present", cat([]byte{1}, make([]byte, 16+36), scaleInflations[4], make([]byte, 36)))
	add("grandpa_message", "catch-up response: 2^32-1 prevotes claimed", cat([]byte{4}, make([]byte, 16), scaleInflations[2]))
	// C33-K1 (fixed): the wrapper kept the receive buffer's slice; its witness and a vote message held across reuse
	add("consensus_message", "one byte 00", []byte{0})
	add("consensus_message", "empty", nil)
	add("consensus_message", "vote message", cat([]byte{0}, make([]byte, 16), []byte{1}, make([]byte, 36+64+32)))
	add("light_request", "empty", nil)
	add("light_request", "method claiming 2^30 bytes", cat([]byte{0}, scaleInflations[1]))
	add("light_response", "header vector 2^30-1", cat([]byte{0, 0}, scaleInflations[0]))
	add("light_response", "option byte 2", cat([]byte{0, 0, 4, 2}))
	add("warp_proof_request", "31 bytes", make([]byte, 31))
	add("justification", "empty", nil)
	add("justification", "2^30-1 precommits", cat(make([]byte, 8+36), scaleInflations[0]))
	add("justification", "one ancestry header with a digest item", cat(make([]byte, 8+36), []byte{0, 4}, hNoDigest, []byte{4, 8}))
	add("justification", "2^20 ancestry headers claimed", cat(make([]byte, 8+36), []byte{0}, scaleInflations[4]))
	// protobuf
	add("block_request", "empty", nil)
	add("block_request", "number with 3 bytes", wire.PbBytes(3, []byte{1, 2, 3}))
	add("block_request", "hash with 5 bytes", wire.PbBytes(2, []byte{1, 2, 3, 4, 5}))
	add("block_request", "hash with 40 bytes", wire.PbBytes(2, make([]byte, 40)))
	add("block_request", "direction 2^31", cat(wire.PbBytes(3, make([]byte, 4)), wire.PbUint(5, 1<<31)))
	add("block_request", "length 2^30 claimed", cat([]byte{0x12}, pbInflations[0]))
	add("block_request", "group start", []byte{0x0b})
	add("block_response", "empty", nil)
	add("block_response", "block with no fields", wire.PbBytes(1, nil))
	add("block_response", "body entry claiming 2^30-1 bytes", wire.PbBytes(1, cat(wire.PbBytes(1, make([]byte, 32)), wire.PbBytes(3, scaleInflations[0]))))
	add("block_response", "body entry claiming 2^32-1 bytes", wire.PbBytes(1, cat(wire.PbBytes(1, make([]byte, 32)), wire.PbBytes(3, scaleInflations[2]))))
	add("block_response", "empty body entry", wire.PbBytes(1, cat(wire.PbBytes(1, make([]byte, 32)), wire.PbBytes(3, nil))))
	add("block_response", "header with digest count 2^30-1", wire.PbBytes(1, cat(wire.PbBytes(1, make([]byte, 32)), wire.PbBytes(2, cat(hNoDigest, scaleInflations[0])))))
	add("block_response", "truncated header", wire.PbBytes(1, cat(wire.PbBytes(1, make([]byte, 32)), wire.PbBytes(2, h[:50]))))
	add("block_response", "length 2^32-1 claimed", cat([]byte{0x0a}, pbInflations[1]))
	add("block_response", "is_empty_justification with justification", wire.PbBytes(1, cat(wire.PbBytes(6, []byte{1}), wire.PbUint(7, 1))))
	add("state_request", "no start keys", wire.PbBytes(1, make([]byte, 32)))
	add("state_request", "block with 33 bytes", wire.PbBytes(1, make([]byte, 33)))
	add("state_response", "entry length 2^63-1", cat([]byte{0x0a}, pbInflations[2]))
	return fc
}

// ---------------------------------------------------------------- driver

func TestVerifC33(t *testing.T) {
	r := vcommon.Start(t, "C33")
	defer r.Finish()
	debug.SetGCPercent(100)
	if dir := os.Getenv("VERIF_TMP"); dir != "" {
		f, err := os.Create(dir + "/c33-last-input-shard" + strconv.Itoa(r.Shard) + ".txt")
		if err == nil {
			lastInput = f
			defer f.Close()
		}
	}
	ds := decoders()
	byName := map[string]*decoder{}
	for i := range ds {
		byName[ds[i].name] = &ds[i]
		r.Floor("decodes:"+ds[i].name, 500)
		r.Floor("valid_accepted:"+ds[i].name, 20)
	}
	r.Floor("truncation_sweeps", 30)
	r.Floor("inflation_sweeps", 30)
	r.Floor("count_sweeps", 30)
	r.Floor("roundtrips", 2000)
	r.Floor("rejected", 20000)
	r.Floor("dense_messages", 8)
	r.Floor("pb_field_mutants", 200)
	// buffer reuse: every decoder's accepted messages re-checked after the receive buffer was filled
	// with 0xFF and after the next message arrived in it; messages with a non-empty byte-slice field
	// among them (for the decoders whose message type has such fields); writes to decoded fields
	for i := range ds {
		r.Floor("recheck_ff:"+ds[i].name, 50)
		r.Floor("recheck_next:"+ds[i].name, 50)
	}
	for _, name := range []string{"block_announce", "transaction", "block_response", "state_request", "state_response",
		"light_request", "light_response", "consensus_message", "body", "justification"} {
		r.Floor("rechecked_with_bytes:"+name, 40)
	}
	r.Floor("rechecked_with_bytes", 5000)
	r.Floor("field_writes", 5000)

	fc := fixedCorpus()
	r.Fixed("corpus", len(fc), func(c *vcommon.Case) {
		f := fc[c.Idx]
		beginCase()
		defer flushHeld(c)
		ok := probe(c, byName[f.dec], "corpus", f.in)
		c.Distinct("corpus|" + f.dec + "|" + f.note)
		c.Sample(map[string]any{"decoder": f.dec, "input": f.note, "accepted": ok})
	})

	// linearity on large inputs made of minimal elements (the worst legitimate allocation ratio)
	var dense []*decoder
	for i := range ds {
		if ds[i].dense != nil {
			dense = append(dense, &ds[i])
		}
	}
	sizes := []int{1 << 10, 1 << 14, 1 << 17}
	if r.Thorough() {
		sizes = append(sizes, 1<<20)
	}
	r.Fixed("dense", len(dense)*len(sizes), func(c *vcommon.Case) {
		d, n := dense[c.Idx/len(sizes)], sizes[c.Idx%len(sizes)]
		beginCase()
		defer flushHeld(c)
		in := d.dense(n)
		ok := probe(c, d, "dense", in)
		c.Count("dense_messages", 1)
		c.Count(fmt.Sprintf("dense_alloc_per_byte:%s:%d", d.name, n), int(lastAlloc/uint64(len(in))))
		if ok {
			c.Count("dense_accepted", 1)
		}
		c.Distinct(fmt.Sprintf("dense|%s|%d", d.name, n))
		// truncated in the middle and one byte short
		probe(c, d, "dense", in[:len(in)/2])
		probe(c, d, "dense", in[:len(in)-1])
	})

	n := r.Scale(len(ds) * nModes * 10)
	r.Cases("mut", n, func(c *vcommon.Case) {
		d := &ds[c.Idx%len(ds)]
		mode := (c.Idx / len(ds)) % nModes
		before := accepted
		beginCase()
		runMode(c, d, mode)
		flushHeld(c)
		// fingerprint: decoder, mutation mode, how many mutants were accepted (log2 bucket)
		c.Distinct(fmt.Sprintf("%s|%s|%d", d.name, modeNames[mode], bits.Len(uint(accepted-before))))
	})

	// the length-prefixed framing every one of these messages arrives in (zz_verif_c33_framing_test.go)
	framingGroups(r)

	// the combined notifications decoder that picks handshake / message decoder per peer state
	// (zz_verif_c33_createdec_test.go)
	createDecoderGroups(r)
}
