//go:build verif

package network_test

// C33, second half of "successfully decoded messages re-encode to equal messages":
// the decoded message must be a value of its own. In production every decoder is
// handed a slice of ONE receive buffer (Service.readStream / readHandshake: a 64 KiB
// buffer from s.bufPool, RequestResponseProtocol.receiveResponse: rrp.responseBuf)
// that the next message of the stream overwrites while the previous message may
// still be held (gossip goroutines, batch channels, queued announces). The monitor
// therefore decodes every input out of such a buffer (rx), and for every accepted
// message m
//   - writes to the byte-slice fields of m (in place and into their spare capacity,
//     which is what append does) and requires the buffer and the sibling fields to
//     be unchanged,
//   - overwrites the whole buffer with 0xFF, and later with the next message that
//     is received, and requires Encode(m), a deep snapshot of m and the round trip
//     Decode(Encode(m)) == m to be what they were before.

import (
	"bytes"
	"encoding/binary"
	"fmt"
	"math"
	"reflect"
	"sort"

	"github.com/ChainSafe/gossamer/dot/network"
	"github.com/ChainSafe/gossamer/dot/types"
	"github.com/ChainSafe/gossamer/zz_verif/vcommon"
	"github.com/ChainSafe/gossamer/zz_verif/wire"
)

// ---------------------------------------------------------------- the receive buffer

const (
	rxPoolSize = 64 * 1024 // dot/network maxMessageSize: size of the buffers in Service.bufPool
	rxSentinel = 0x5a      // stale bytes behind the current message
)

// rx is the receive buffer of this process; like the pooled buffer it is kept
// between messages and grows (append) when a longer message arrives.
var rx = make([]byte, rxPoolSize)

// rxStale and rxOnes are as long as rx: the sentinel and the 0xFF fill (copied with memmove).
var rxStale, rxOnes []byte

func fillTemplates() {
	for len(rxStale) < len(rx) {
		rxStale, rxOnes = append(rxStale, rxSentinel), append(rxOnes, 0xff)
	}
}

// beginCase: cases are independent of each other, each starts with a fresh 64 KiB buffer and nothing held.
func beginCase() {
	pending = nil
	if len(rx) != rxPoolSize {
		rx = make([]byte, rxPoolSize)
	}
}

// receive copies the message into the receive buffer the way readStream does and
// returns the slice the decoder is given: rx[:n], capacity up to the end of the buffer.
func receive(in []byte) []byte {
	if len(in) > len(rx) {
		rx = append(rx, make([]byte, len(in)-len(rx))...)
		rx = rx[:len(rx):len(rx)]
	}
	fillTemplates()
	n := copy(rx, in)
	copy(rx[n:], rxStale)
	return rx[:n]
}

// overwrite fills the whole receive buffer with 0xFF.
func overwrite() { copy(rx, rxOnes) }

// rxIntact reports the first offset at which the receive buffer no longer holds
// the message followed by the sentinel (-1: intact).
func rxIntact(in []byte) int {
	if bytes.Equal(rx[:len(in)], in) && bytes.Equal(rx[len(in):], rxStale[len(in):len(rx)]) {
		return -1
	}
	for i := range rx {
		if i < len(in) && rx[i] != in[i] || i >= len(in) && rx[i] != rxSentinel {
			return i
		}
	}
	return -1
}

// ---------------------------------------------------------------- deep snapshot and byte-slice fields

var headerType = reflect.TypeOf(types.Header{})

// snapshot serialises everything reachable from v (pointers and interfaces are
// followed, nil slice == empty slice, the lazily cached types.Header.hash is
// skipped): two snapshots are equal iff the message holds the same value.
func snapshot(v reflect.Value, out []byte, depth int) []byte {
	if depth > 64 {
		return append(out, '!')
	}
	if !v.IsValid() {
		return append(out, 'z')
	}
	switch v.Kind() {
	case reflect.Slice:
		out = binary.AppendUvarint(append(out, 's'), uint64(v.Len()))
		if v.Type().Elem().Kind() == reflect.Uint8 {
			return append(out, v.Bytes()...)
		}
		for i := 0; i < v.Len(); i++ {
			out = snapshot(v.Index(i), out, depth+1)
		}
		return out
	case reflect.Array:
		out = append(out, 'a')
		if v.Type().Elem().Kind() == reflect.Uint8 {
			for i := 0; i < v.Len(); i++ {
				out = append(out, byte(v.Index(i).Uint()))
			}
			return out
		}
		for i := 0; i < v.Len(); i++ {
			out = snapshot(v.Index(i), out, depth+1)
		}
		return out
	case reflect.Struct:
		out = append(out, '{')
		for i := 0; i < v.NumField(); i++ {
			if v.Type() == headerType && v.Type().Field(i).Name == "hash" {
				continue
			}
			out = snapshot(v.Field(i), out, depth+1)
		}
		return append(out, '}')
	case reflect.Ptr:
		if v.IsNil() {
			return append(out, 'n')
		}
		return snapshot(v.Elem(), append(out, '*'), depth+1)
	case reflect.Interface:
		if v.IsNil() {
			return append(out, 'n')
		}
		out = append(append(out, 'i'), v.Elem().Type().String()...)
		return snapshot(v.Elem(), append(out, ':'), depth+1)
	case reflect.Map:
		var entries []string
		for it := v.MapRange(); it.Next(); {
			e := snapshot(it.Key(), nil, depth+1)
			e = snapshot(it.Value(), append(e, '='), depth+1)
			entries = append(entries, string(e))
		}
		sort.Strings(entries)
		out = binary.AppendUvarint(append(out, 'm'), uint64(len(entries)))
		for _, e := range entries {
			out = append(out, e...)
		}
		return out
	case reflect.Bool:
		if v.Bool() {
			return append(out, 'T')
		}
		return append(out, 'F')
	case reflect.Int, reflect.Int8, reflect.Int16, reflect.Int32, reflect.Int64:
		return binary.AppendVarint(append(out, 'd'), v.Int())
	case reflect.Uint, reflect.Uint8, reflect.Uint16, reflect.Uint32, reflect.Uint64, reflect.Uintptr:
		return binary.AppendUvarint(append(out, 'u'), v.Uint())
	case reflect.Float32, reflect.Float64:
		return binary.AppendUvarint(append(out, 'f'), math.Float64bits(v.Float()))
	case reflect.String:
		s := v.String()
		return append(binary.AppendUvarint(append(out, '"'), uint64(len(s))), s...)
	}
	return append(out, '?', byte(v.Kind())) // chan, func, unsafe pointer: no content
}

// byteField is one byte-slice field of a decoded message; b shares its memory.
type byteField struct {
	path string
	b    []byte
}

// byteFields lists the byte slices (with capacity) reachable from v. Values held
// in interfaces are copies of the struct, but their slices still share the backing array.
func byteFields(v reflect.Value, path string, out []byteField, depth int) []byteField {
	if depth > 64 || !v.IsValid() {
		return out
	}
	switch v.Kind() {
	case reflect.Slice:
		if v.Type().Elem().Kind() == reflect.Uint8 {
			if v.Cap() > 0 {
				out = append(out, byteField{path, v.Bytes()})
			}
			return out
		}
		if !holdsSlices(v.Type().Elem(), 0) {
			return out
		}
		for i := 0; i < v.Len(); i++ {
			out = byteFields(v.Index(i), fmt.Sprintf("%s[%d]", path, i), out, depth+1)
		}
	case reflect.Array:
		if !holdsSlices(v.Type().Elem(), 0) {
			return out
		}
		for i := 0; i < v.Len(); i++ {
			out = byteFields(v.Index(i), fmt.Sprintf("%s[%d]", path, i), out, depth+1)
		}
	case reflect.Struct:
		for i := 0; i < v.NumField(); i++ {
			out = byteFields(v.Field(i), path+"."+v.Type().Field(i).Name, out, depth+1)
		}
	case reflect.Ptr, reflect.Interface:
		if !v.IsNil() {
			out = byteFields(v.Elem(), path, out, depth+1)
		}
	case reflect.Map:
		for it := v.MapRange(); it.Next(); {
			out = byteFields(it.Value(), path+"[map]", out, depth+1)
		}
	}
	return out
}

// holdsSlices: can a value of type t reach a byte slice at all (prunes vectors of votes / numbers).
func holdsSlices(t reflect.Type, depth int) bool {
	if depth > 8 {
		return true
	}
	switch t.Kind() {
	case reflect.Slice:
		return t.Elem().Kind() == reflect.Uint8 || holdsSlices(t.Elem(), depth+1)
	case reflect.Array:
		return holdsSlices(t.Elem(), depth+1)
	case reflect.Ptr, reflect.Interface, reflect.Map:
		return true
	case reflect.Struct:
		for i := 0; i < t.NumField(); i++ {
			if holdsSlices(t.Field(i).Type, depth+1) {
				return true
			}
		}
	}
	return false
}

// inRx reports whether the slice's memory (up to its capacity) lies inside the receive buffer.
func inRx(b []byte) bool {
	if cap(b) == 0 {
		return false
	}
	base := reflect.ValueOf(rx).Pointer()
	p := reflect.ValueOf(b).Pointer()
	return p >= base && p < base+uintptr(cap(rx))
}

func fieldsInRx(fs []byteField) []string {
	var out []string
	for _, f := range fs {
		if inRx(f.b) && len(out) < 8 {
			out = append(out, fmt.Sprintf("%s (len %d cap %d, offset %d of the buffer)", f.path, len(f.b), cap(f.b),
				reflect.ValueOf(f.b).Pointer()-reflect.ValueOf(rx).Pointer()))
		}
	}
	return out
}

// ---------------------------------------------------------------- the held message

// held is an accepted message that its receiver still holds while the buffer is reused.
type held struct {
	d      *decoder
	mode   string
	in     []byte // the input it was decoded from (the caller's copy, never the buffer)
	msg    any
	enc    []byte // private copy of Encode(msg) taken before anything was overwritten (nil: no encoder / encode failed)
	snap   []byte // snapshot(msg) taken at the same time
	fields []byteField
}

// pending is the message decoded by the previous probe of this case; it is
// re-checked once the next message has been received into the buffer.
var pending *held

// isConsensusWrapperAlias recognises the defect recorded as fixed C33-K1:
// network.ConsensusMessage.Decode stored the input slice itself (`cm.Data = in`).
// It only labels the witness; the refutation is a plain violation.
func isConsensusWrapperAlias(h *held) bool {
	cm, ok := h.msg.(*network.ConsensusMessage)
	if !ok || h.d.name != "consensus_message" || cap(cm.Data) == 0 {
		return false
	}
	return len(cm.Data) == len(h.in) && reflect.ValueOf(cm.Data).Pointer() == reflect.ValueOf(rx).Pointer()
}

func (h *held) report(c *vcommon.Case, what string, extra map[string]any) {
	w := witness(h.d, h.mode, h.in)
	for k, v := range extra {
		w[k] = v
	}
	w["fields_in_receive_buffer"] = fieldsInRx(h.fields)
	if h.enc != nil && len(h.enc) <= 4096 {
		w["encoded_before"] = wire.Hx(h.enc)
	}
	msg := fmt.Sprintf("%s: the decoded message shares memory with the receive buffer it was decoded from: %s", h.d.name, what)
	if isConsensusWrapperAlias(h) {
		w["regression_of"] = "C33-K1 (fixed): ConsensusMessage.Decode keeps the caller's slice"
	}
	c.Violation("aliases-input", msg, w)
}

// poke writes to byte-slice fields of the held message while the buffer still
// holds its input: every byte inverted in place, the spare capacity filled (what an
// append by the holder does). Neither the buffer nor any other field may change.
// The field contents are restored afterwards. Returns false after a report.
func (h *held) poke(c *vcommon.Case) bool {
	fs := h.fields
	if len(fs) == 0 {
		return true
	}
	orig := make([][]byte, len(fs))
	for i, f := range fs {
		orig[i] = append([]byte(nil), f.b...)
	}
	// at most 6 fields per message: first, last, evenly spaced between
	picks := []int{}
	if len(fs) <= 6 {
		for i := range fs {
			picks = append(picks, i)
		}
	} else {
		for k := 0; k < 6; k++ {
			picks = append(picks, k*(len(fs)-1)/5)
		}
	}
	ok := true
	for _, k := range picks {
		b := fs[k].b
		for i := range b {
			b[i] ^= 0xff
		}
		spare := b[len(b):cap(b)]
		for i := range spare {
			spare[i] = 0xee
		}
		c.Count("field_writes", 1)
		if len(spare) > 0 {
			c.Count("field_writes_with_spare_capacity", 1)
		}
		c.Eval(1)
		if at := rxIntact(h.in); at >= 0 {
			h.report(c, fmt.Sprintf("writing to field %s of the message (len %d cap %d) changed the receive buffer at offset %d",
				fs[k].path, len(b), cap(b), at), map[string]any{"written_field": fs[k].path})
			ok = false
		}
		for j := 0; ok && j < len(fs); j++ {
			if j == k || bytes.Equal(fs[j].b, orig[j]) {
				continue
			}
			if len(b) > 0 && len(fs[j].b) == len(b) && &fs[j].b[0] == &b[0] {
				c.Count("same_slice_referenced_twice", 1) // one value reachable on two paths
				continue
			}
			h.report(c, fmt.Sprintf("writing to field %s (len %d cap %d) changed the sibling field %s", fs[k].path, len(b), cap(b),
				fs[j].path), map[string]any{"written_field": fs[k].path, "changed_field": fs[j].path})
			ok = false
		}
		for i := range b {
			b[i] ^= 0xff
		}
		if !ok {
			// put the input back so that the following checks see the message as decoded
			copy(rx, h.in)
			return false
		}
	}
	return true
}

// recheck requires the held message to be what it was when it was decoded.
// full: also Decode(Encode(m)) == m, the round-trip oracle of probe.
func (h *held) recheck(c *vcommon.Case, variant string, full bool) bool {
	c.Eval(1)
	c.Count("rechecked_after_overwrite", 1)
	c.Count("recheck_"+variant+":"+h.d.name, 1)
	if variant == "ff" {
		for _, f := range h.fields {
			if len(f.b) > 0 {
				c.Count("rechecked_with_bytes", 1)
				c.Count("rechecked_with_bytes:"+h.d.name, 1)
				break
			}
		}
	}
	how := map[string]string{"ff": "the receive buffer was filled with 0xFF",
		"next": "the next message was received into the same buffer"}[variant]
	if s := snapshot(reflect.ValueOf(h.msg), nil, 0); !bytes.Equal(s, h.snap) {
		h.report(c, "its value changed when "+how, map[string]any{"variant": variant, "decoded_now": clip(fmt.Sprintf("%+v", h.msg))})
		return false
	}
	if h.enc == nil {
		return true
	}
	var enc []byte
	var m2 any
	var err error
	stage := "encode"
	func() {
		defer func() {
			if p := recover(); p != nil {
				err = fmt.Errorf("panic: %v", p)
			}
		}()
		enc, err = h.d.encode(h.msg)
		if err != nil || !full {
			return
		}
		stage = "decode"
		m2, err = h.d.decode(enc)
	}()
	if err != nil {
		h.report(c, fmt.Sprintf("%s of the held message failed after %s: %v", stage, how, err), map[string]any{"variant": variant})
		return false
	}
	if !bytes.Equal(enc, h.enc) {
		h.report(c, "it no longer re-encodes to the same bytes after "+how, map[string]any{"variant": variant, "encoded_now": clip(wire.Hx(enc))})
		return false
	}
	if full && !eqv(reflect.ValueOf(h.msg), reflect.ValueOf(m2)) {
		h.report(c, "Decode(Encode(m)) != m after "+how, map[string]any{"variant": variant})
		return false
	}
	return true
}

func clip(s string) string {
	if len(s) > 2000 {
		return s[:2000] + "..."
	}
	return s
}

// hold is called by probe for every accepted message, the buffer still holding the
// input. enc is Encode(msg) as returned by the encoder (nil if there is none).
func hold(c *vcommon.Case, d *decoder, mode string, in []byte, msg any, enc []byte) {
	h := &held{d: d, mode: mode, in: in, msg: msg}
	if enc != nil {
		h.enc = append([]byte{}, enc...) // the encoder may hand out the message's own memory
	}
	h.snap = snapshot(reflect.ValueOf(msg), nil, 0)
	h.fields = byteFields(reflect.ValueOf(msg), "m", nil, 0)
	c.Count("held", 1)
	if len(h.fields) > 0 {
		c.Count("held_with_byte_fields", 1)
	}
	if len(fieldsInRx(h.fields)) > 0 {
		c.Count("messages_pointing_into_receive_buffer:"+d.name, 1) // diagnostic; the behaviour below decides
	}
	if !h.poke(c) {
		return
	}
	overwrite()
	if !h.recheck(c, "ff", true) {
		return
	}
	pending = h
}

// nextReceived is called by probe after the next message was copied into the buffer.
func nextReceived(c *vcommon.Case) {
	if pending == nil {
		return
	}
	h := pending
	pending = nil
	h.recheck(c, "next", false)
}

// flushHeld ends a case: the last held message sees one more message of its own
// protocol arrive (cases are independent, nothing is carried over).
func flushHeld(c *vcommon.Case) {
	if pending == nil {
		return
	}
	h := pending
	pending = nil
	receive(h.d.valid(c.R))
	h.recheck(c, "next", false)
}
