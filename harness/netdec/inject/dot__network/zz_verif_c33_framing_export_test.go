//go:build verif

package network

// Exports for the framing part of the C33 monitor (zz_verif_c33_framing_test.go, package
// network_test): the package-level length-prefixed reader and its three production callers,
// reachable without a libp2p host. Test-only, compiled only with -tags verif.

import (
	"context"
	"sync"

	"github.com/ChainSafe/gossamer/dot/network/messages"
	"github.com/ChainSafe/gossamer/dot/peerset"
	"github.com/ChainSafe/gossamer/internal/log"
	libp2phost "github.com/libp2p/go-libp2p/core/host"
	"github.com/libp2p/go-libp2p/core/metrics"
	libp2pnetwork "github.com/libp2p/go-libp2p/core/network"
	"github.com/libp2p/go-libp2p/core/peer"
)

// VerifReadStream is the framing reader every peer byte goes through.
var VerifReadStream = readStream

// VerifPoolBufSize is the size of the pooled receive buffers (Service.bufPool).
const VerifPoolBufSize = maxMessageSize

// VerifFramingLimits: the maxSize values production passes to readStream.
func VerifFramingLimits() map[string]uint64 {
	return map[string]uint64{
		"block_announce": maxBlockAnnounceNotificationSize,
		"transactions":   maxTransactionsNotificationSize,
		"grandpa":        MaxGrandpaNotificationSize,
		"sync":           MaxBlockResponseSize,
	}
}

// VerifQuietLogger silences the per-frame warnings of readStream (they would dominate the shard log).
func VerifQuietLogger() { logger.Patch(log.SetLevel(log.Critical)) }

// verifPeerSet counts peer reports; every other PeerSetHandler method is unused by the driven code.
type verifPeerSet struct {
	PeerSetHandler
	mu      sync.Mutex
	reports int
}

func (p *verifPeerSet) ReportPeer(peerset.ReputationChange, ...peer.ID) {
	p.mu.Lock()
	p.reports++
	p.mu.Unlock()
}

type verifP2PHost struct{ libp2phost.Host }

func (verifP2PHost) ID() peer.ID { return peer.ID("verif-local") }

// VerifFramingService is a Service with exactly the parts Service.readStream, readHandshake and
// RequestResponseProtocol.receiveResponse touch: the 64 KiB buffer pool of NewService, a stream
// manager, an (empty) notifications protocol table and a host whose peer set handler counts reports.
type VerifFramingService struct {
	svc *Service
	ps  *verifPeerSet
}

func VerifNewFramingService() *VerifFramingService {
	ps := &verifPeerSet{}
	bufPool := &sync.Pool{
		New: func() interface{} { // as in NewService
			b := make([]byte, maxMessageSize)
			return &b
		},
	}
	s := &Service{
		ctx:                    context.Background(),
		bufPool:                bufPool,
		streamManager:          newStreamManager(context.Background()),
		notificationsProtocols: make(map[MessageType]*notificationsProtocol),
		host: &host{
			p2pHost: verifP2PHost{},
			cm:      &ConnManager{peerSetHandler: ps},
			bwc:     metrics.NewBandwidthCounter(),
		},
	}
	return &VerifFramingService{svc: s, ps: ps}
}

// Reports returns how many times the driven code reported the peer.
func (f *VerifFramingService) Reports() int {
	f.ps.mu.Lock()
	defer f.ps.mu.Unlock()
	return f.ps.reports
}

// ReadLoop is Service.readStream (inbound.go): the receive loop of every inbound stream.
func (f *VerifFramingService) ReadLoop(stream libp2pnetwork.Stream,
	decoder func([]byte, peer.ID, bool) (messages.P2PMessage, error),
	handler func(libp2pnetwork.Stream, messages.P2PMessage) error, maxSize uint64) {
	f.svc.readStream(stream, decoder, handler, maxSize)
}

// ReadHandshake is Service.readHandshake (notifications.go): one frame, decoded, delivered on a channel.
func (f *VerifFramingService) ReadHandshake(stream libp2pnetwork.Stream, decoder HandshakeDecoder,
	maxSize uint64) (hs Handshake, err error, delivered bool) {
	r, ok := <-f.svc.readHandshake(stream, decoder, maxSize)
	if !ok || r == nil {
		return nil, nil, false
	}
	return r.hs, r.err, true
}

// VerifRRP is a request-response protocol built by the production constructor
// Service.GetRequestResponseProtocol (response buffer of maxResponseSize bytes, kept across calls).
type VerifRRP struct{ rrp *RequestResponseProtocol }

func (f *VerifFramingService) NewRRP(maxResponseSize uint64) *VerifRRP {
	return &VerifRRP{rrp: f.svc.GetRequestResponseProtocol("/verif", 0, maxResponseSize)}
}

// ReceiveResponse is RequestResponseProtocol.receiveResponse: one frame read into the response buffer, decoded into msg.
func (p *VerifRRP) ReceiveResponse(stream libp2pnetwork.Stream, msg messages.P2PMessage) error {
	return p.rrp.receiveResponse(stream, msg)
}

// BufLen is the length of the protocol's retained response buffer.
func (p *VerifRRP) BufLen() int { return len(p.rrp.responseBuf) }
