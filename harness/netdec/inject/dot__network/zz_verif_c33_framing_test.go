//go:build verif

package network_test

// C33, framing part — every peer byte passes through the length-prefixed reader before any
// decoder sees it: package-level readStream + ReadLEB128ToUint64 (dot/network/utils.go), called by
// Service.readStream (inbound.go, the receive loop of every inbound stream), Service.readHandshake
// (notifications.go) and RequestResponseProtocol.receiveResponse (request_response.go).
//
// Monitor: the REAL reader is fed by a fake libp2p stream holding crafted frames
// (LEB128 length prefix ‖ payload) and is called exactly as production calls it (pointer to a pooled
// 64 KiB buffer, the protocol's maxSize). Observed per call:
//   - panic (recovered; in readHandshake's goroutine it kills the child: driver class crash),
//   - MemStats.TotalAlloc delta against a budget proportional to min(declared, maxSize) + the bytes
//     the peer actually supplied: allocation must not follow an absurd declared length,
//   - process CPU against the existing cpuBudget,
//   - the result against an independent model of the framing (own LEB128 parser): an honest frame
//     yields exactly its payload, a zero-length frame yields (0, nil) (documented: "msg length of 0
//     is allowed"), a declared length above maxSize / an over-long or truncated prefix / a stream
//     that ends before the declared length yields an error.
// Counted, never refuting: what happens to an honest frame when the transport delivers bytes of
// the NEXT frame in the same Read (readStream offers the whole rest of its buffer to Read), the
// 10th LEB128 byte carrying bits beyond 2^64, non-canonical (zero-padded) prefixes.

import (
	"bytes"
	"errors"
	"fmt"
	"io"
	"math/bits"
	"os"
	"reflect"
	"runtime"
	"runtime/debug"
	"strings"
	"time"

	"github.com/ChainSafe/gossamer/dot/network"
	"github.com/ChainSafe/gossamer/dot/network/messages"
	"github.com/ChainSafe/gossamer/zz_verif/vcommon"
	"github.com/ChainSafe/gossamer/zz_verif/wire"
	libp2pnetwork "github.com/libp2p/go-libp2p/core/network"
	"github.com/libp2p/go-libp2p/core/peer"
	"github.com/libp2p/go-libp2p/core/protocol"
)

// ---------------------------------------------------------------- reference LEB128 (independent of network.Uint64ToLEB128)

func lebEnc(v uint64) []byte {
	out := []byte{}
	for v >= 0x80 {
		out = append(out, byte(v)|0x80)
		v >>= 7
	}
	return append(out, byte(v))
}

// lebPad is the non-canonical encoding of v in n bytes (zero groups appended).
func lebPad(v uint64, n int) []byte {
	out := lebEnc(v)
	if n <= len(out) {
		return out
	}
	out[len(out)-1] |= 0x80
	for len(out) < n-1 {
		out = append(out, 0x80)
	}
	return append(out, 0x00)
}

const (
	lebOK        = iota
	lebTruncated // the bytes end before a terminal group
	lebOverlong  // ten groups, all with the continuation bit: no uint64 needs an eleventh
)

type lebInfo struct {
	value    uint64 // modulo 2^64
	n        int    // prefix bytes a reader consumes
	status   int
	overflow bool // the tenth group has bits beyond 2^64 (reading is ambiguous)
	padded   bool // non-canonical: a multi-byte prefix ending in a zero group
}

func lebParse(b []byte) lebInfo {
	li := lebInfo{}
	for i := 0; i < len(b) && i < 10; i++ {
		g := uint64(b[i] & 0x7f)
		if i == 9 && g > 1 {
			li.overflow = true
		}
		li.value |= g << (7 * uint(i))
		li.n = i + 1
		if b[i]&0x80 == 0 {
			li.padded = i > 0 && b[i] == 0
			return li
		}
	}
	if len(b) >= 10 {
		li.status = lebOverlong
	} else {
		li.status = lebTruncated
	}
	return li
}

// ---------------------------------------------------------------- fake libp2p stream

const (
	polWhole  = iota // a Read returns what is left of the current segment (one sender write per prefix / payload)
	polByte          // one byte per Read
	polChunk         // random chunks, never across a segment boundary
	polGreedy        // whatever is buffered, ACROSS segment boundaries (a multiplexer that coalesced the writes)
	nPolicies
)

var policyNames = [nPolicies]string{"whole", "byte", "chunk", "greedy"}

type fakeConn struct{ libp2pnetwork.Conn }

func (fakeConn) RemotePeer() peer.ID { return peer.ID("verif-remote-peer") }

// fakeStream implements what the framing code uses of libp2pnetwork.Stream; any other method
// would dereference the nil embedded interface (none is called on the unchanged tree).
type fakeStream struct {
	libp2pnetwork.Stream
	segs          [][]byte
	seg, off      int
	policy        int
	r             *vcommon.Rand
	chunkMax      int
	reads         int
	delivered     int
	emptyReads    int
	maxWindow     int
	windowPastSeg int // Reads that offered more room than the current segment has left
	resets        int
	closes        int
}

func newFakeStream(r *vcommon.Rand, policy int, segs ...[]byte) *fakeStream {
	s := &fakeStream{policy: policy, r: r, chunkMax: 1 + r.Intn(4096)}
	for _, g := range segs {
		if len(g) > 0 {
			s.segs = append(s.segs, g)
		}
	}
	return s
}

func (s *fakeStream) Read(p []byte) (int, error) {
	s.reads++
	if len(p) > s.maxWindow {
		s.maxWindow = len(p)
	}
	if len(p) == 0 {
		// io.Reader allows (0, nil) here; a reader looping on it would never end, so after a logical
		// number of steps the stream fails instead (no wall clock involved).
		s.emptyReads++
		if s.emptyReads > 1000 {
			return 0, io.ErrNoProgress
		}
		return 0, nil
	}
	if s.seg >= len(s.segs) {
		return 0, io.EOF
	}
	rest := s.segs[s.seg][s.off:]
	if len(p) > len(rest) {
		s.windowPastSeg++
	}
	want := len(p)
	switch s.policy {
	case polByte:
		want = 1
	case polChunk:
		if k := 1 + s.r.Intn(s.chunkMax); k < want {
			want = k
		}
	}
	n := 0
	for n < want && s.seg < len(s.segs) {
		rest = s.segs[s.seg][s.off:]
		k := copy(p[n:want], rest)
		n += k
		s.off += k
		if s.off == len(s.segs[s.seg]) {
			s.seg, s.off = s.seg+1, 0
			if s.policy != polGreedy {
				break
			}
		}
	}
	s.delivered += n
	return n, nil
}

func (s *fakeStream) Write(p []byte) (int, error)      { return len(p), nil }
func (s *fakeStream) Close() error                     { s.closes++; return nil }
func (s *fakeStream) CloseRead() error                 { return nil }
func (s *fakeStream) CloseWrite() error                { return nil }
func (s *fakeStream) Reset() error                     { s.resets++; return nil }
func (s *fakeStream) SetDeadline(time.Time) error      { return nil }
func (s *fakeStream) SetReadDeadline(time.Time) error  { return nil }
func (s *fakeStream) SetWriteDeadline(time.Time) error { return nil }
func (s *fakeStream) ID() string                       { return "verif-stream" }
func (s *fakeStream) Protocol() protocol.ID            { return "/verif/framing/1" }
func (s *fakeStream) SetProtocol(protocol.ID) error    { return nil }
func (s *fakeStream) Conn() libp2pnetwork.Conn         { return fakeConn{} }
func (s *fakeStream) Stat() libp2pnetwork.Stats {
	return libp2pnetwork.Stats{Direction: libp2pnetwork.DirInbound}
}
func (s *fakeStream) Scope() libp2pnetwork.StreamScope { return nil }
func (s *fakeStream) remaining() (n int) {
	for i := s.seg; i < len(s.segs); i++ {
		n += len(s.segs[i])
	}
	return n - s.off
}

// ---------------------------------------------------------------- frames and the model of their outcome

type frame struct {
	class   string
	prefix  []byte // LEB128 length prefix as sent (possibly truncated / over-long / non-canonical)
	payload []byte // the bytes supplied after it (fewer than declared for a short stream)
	fillN   int    // fixed corpus only: payload of fillN bytes generated when the case runs
}

const (
	wantPayload = iota // (len(payload), nil), buffer[:n] == payload
	wantEmpty          // (0, nil)
	wantError
	wantEither // ambiguous reading of the prefix: safety oracles only
)

func expect(fr frame, maxSize uint64) (want int, li lebInfo) {
	li = lebParse(fr.prefix)
	switch {
	case li.status != lebOK:
		return wantError, li
	case li.overflow:
		return wantEither, li
	case li.value == 0:
		return wantEmpty, li
	case li.value > maxSize:
		return wantError, li
	case uint64(len(fr.payload)) < li.value:
		return wantError, li
	}
	return wantPayload, li
}

// framingAllocBudget: bytes the reader may allocate for one frame. Growing the pooled buffer for an
// honest frame of L > 64 KiB bytes costs one new array of L bytes rounded up to a size class (measured
// 1.0 .. 1.25 L, counters framing_grow_alloc_per_byte_x10:*); 4x leaves a 3x margin. The declared
// length counts only up to maxSize: what the check is after is an allocation that follows the
// peer's number instead of the protocol's limit.
func framingAllocBudget(fr frame, maxSize uint64) uint64 {
	li := lebParse(fr.prefix)
	capped := uint64(0)
	if li.status == lebOK {
		capped = li.value
		if capped > maxSize {
			capped = maxSize
		}
	}
	return 4*capped + 4*uint64(len(fr.payload)) + 256<<10
}

func pow2(k uint) uint64 { return uint64(1) << k }

func fill(r *vcommon.Rand, n int) []byte {
	if n <= 4096 {
		return r.Bytes(n)
	}
	// a long payload: random head, then a position-dependent pattern (cheap, still detects shifts)
	out := make([]byte, n)
	copy(out, r.Bytes(64))
	x := byte(r.Intn(256))
	for i := 64; i < n; i++ {
		out[i] = x + byte(i) + byte(i>>8)*3 + byte(i>>16)*7
	}
	return out
}

func framingWitness(entry string, fr frame, maxSize uint64, policy int, extra map[string]any) map[string]any {
	li := lebParse(fr.prefix)
	w := map[string]any{"entry": entry, "class": fr.class, "prefix": wire.Hx(fr.prefix), "declared": li.value,
		"prefix_status": [...]string{"ok", "truncated", "over-long"}[li.status], "supplied": len(fr.payload),
		"max_size": maxSize, "delivery": policyNames[policy]}
	if len(fr.payload) <= 256 {
		w["payload"] = wire.Hx(fr.payload)
	} else {
		w["payload_head"] = wire.Hx(fr.payload[:64])
	}
	for k, v := range extra {
		w[k] = v
	}
	return w
}

type measure struct {
	alloc uint64
	cpu   int64
	pan   any
	stack string
}

func measured(f func()) (m measure) {
	var m0, m1 runtime.MemStats
	runtime.ReadMemStats(&m0)
	c0 := cpuMicros()
	func() {
		defer func() {
			if p := recover(); p != nil {
				m.pan = p
				m.stack = string(debug.Stack())
				if len(m.stack) > 5000 {
					m.stack = m.stack[:5000]
				}
			}
		}()
		f()
	}()
	m.cpu = cpuMicros() - c0
	runtime.ReadMemStats(&m1)
	m.alloc = m1.TotalAlloc - m0.TotalAlloc
	if m.alloc > 32<<20 {
		debug.FreeOSMemory() // give a large (possibly absurd) allocation back before the next case
	}
	return m
}

// safety applies the oracles that hold for every frame whatever its meaning: panic, allocation, CPU.
func safety(c *vcommon.Case, entry string, m measure, budget uint64, supplied int, w func(map[string]any) map[string]any) (ok bool) {
	c.Eval(3)
	if m.pan != nil {
		c.Violation("panic", fmt.Sprintf("%s panicked: %v", entry, m.pan), w(map[string]any{"stack": m.stack}))
		return false
	}
	if m.alloc > budget {
		c.Violation("alloc", fmt.Sprintf("%s allocated %d bytes for %d supplied bytes (budget %d)", entry, m.alloc, supplied, budget),
			w(map[string]any{"allocated": m.alloc, "budget": budget}))
	}
	// CPU: the decoders' budget for the supplied bytes, plus 1 us per byte the reader may legitimately
	// allocate (a 16 MiB buffer for an admissible 16 MiB claim costs page faults: 0.13 us/byte measured
	// on the loaded machine)
	cpuB := cpuBudget(supplied) + int64(budget/4)
	if m.cpu > cpuB {
		c.Violation("cpu", fmt.Sprintf("%s used %d us of CPU for %d supplied bytes (budget %d)", entry, m.cpu, supplied, cpuB),
			w(map[string]any{"cpu_us": m.cpu, "budget_us": cpuB}))
	}
	return true
}

func countFrame(c *vcommon.Case, entry string, fr frame, want int, li lebInfo) {
	c.Count("framing_frames", 1)
	c.Count("framing:"+entry, 1)
	c.Count("framing_class:"+fr.class, 1)
	if li.padded {
		c.Count("framing_noncanonical_prefix", 1)
	}
	if li.overflow && li.status == lebOK {
		c.Count("framing_prefix_overflow_bits", 1)
	}
	c.Count("framing_want:"+[...]string{"payload", "empty", "error", "either"}[want], 1)
}

// ---------------------------------------------------------------- entry point 1: readStream itself

// probeFrame reads ONE frame with the package-level readStream out of a stream that holds the frame
// and then `next` (bytes of a following frame; empty: the stream ends). bufLen is the length of the
// pooled buffer at the time of the call (64 KiB, or more when an earlier message grew it).
func probeFrame(c *vcommon.Case, fr frame, maxSize uint64, policy int, next []byte, bufLen int) {
	const entry = "readStream"
	want, li := expect(fr, maxSize)
	countFrame(c, entry, fr, want, li)
	noteInput("framing:"+entry+":"+fr.class, fr.prefix)
	buf := bytes.Repeat([]byte{0xa5}, bufLen)
	bp := &buf
	st := newFakeStream(c.R, policy, fr.prefix, fr.payload, next)
	wit := func(extra map[string]any) map[string]any {
		extra["buffer_len"] = bufLen
		extra["next_frame_bytes"] = len(next)
		return framingWitness(entry, fr, maxSize, policy, extra)
	}
	var n int
	var err error
	run := func() { n, err = network.VerifReadStream(st, bp, maxSize) }
	m := measured(run)
	budget := framingAllocBudget(fr, maxSize)
	if m.pan == nil && m.alloc > budget && m.alloc < 8<<20 {
		// small excess: measure again to rule out an unrelated goroutine (a real excess is reproducible)
		buf = bytes.Repeat([]byte{0xa5}, bufLen)
		st = newFakeStream(c.R, policy, fr.prefix, fr.payload, next)
		if m2 := measured(run); m2.pan == nil && m2.alloc < m.alloc {
			m = m2
		}
	}
	if st.windowPastSeg > 0 {
		c.Count("framing_read_window_past_frame", 1)
	}
	if uint64(len(fr.payload)) > uint64(bufLen) && want == wantPayload {
		c.Count("framing_buffer_grown", 1)
		c.Count(fmt.Sprintf("framing_grow_alloc_per_byte_x10:%d", bits.Len(uint(len(fr.payload)))), int(10*m.alloc/uint64(len(fr.payload))))
		c.Count(fmt.Sprintf("framing_grow_frames:%d", bits.Len(uint(len(fr.payload)))), 1)
	}
	if !safety(c, entry, m, budget, len(fr.prefix)+len(fr.payload), wit) {
		return
	}
	c.Eval(1)
	res := map[string]any{"n": n, "err": fmt.Sprint(err)}
	if bp == nil || *bp == nil {
		c.Violation("framing", "readStream left a nil buffer behind", wit(res))
		return
	}
	if err == nil && (n < 0 || n > len(*bp)) {
		c.Violation("framing", fmt.Sprintf("readStream returned n=%d outside its buffer of %d bytes", n, len(*bp)), wit(res))
		return
	}
	switch want {
	case wantError:
		if err == nil {
			what := "a frame whose prefix is " + [...]string{"", "truncated", "over-long"}[li.status]
			switch {
			case li.status != lebOK:
			case li.value > maxSize:
				what = fmt.Sprintf("a frame declaring %d bytes, above the maximum %d", li.value, maxSize)
			default:
				what = fmt.Sprintf("a frame declaring %d bytes of which the stream supplied %d before it ended", li.value, len(fr.payload))
			}
			c.Violation("framing", "readStream accepted "+what, wit(res))
			return
		}
		c.Count("framing_rejected", 1)
		if li.status == lebOK && li.value > maxSize {
			c.Count("framing_oversize_rejected", 1)
		}
	case wantEmpty:
		if err != nil || n != 0 {
			c.Violation("framing", "a zero-length frame (documented as allowed) was not returned as (0, nil)", wit(res))
			return
		}
		c.Count("framing_empty_delivered", 1)
	case wantPayload:
		crossing := policy == polGreedy && len(next) > 0
		if crossing && err != nil {
			// the transport handed bytes of the next frame to the Read that readStream issued with the
			// whole rest of its buffer: an error is still "a message or an error" (counted)
			c.Count("framing_overread_next_frame", 1)
			return
		}
		if err != nil {
			if errors.Is(err, network.ErrGreaterThanMaxSize) {
				c.Violation("framing", fmt.Sprintf("an honest frame of %d bytes was rejected as greater than the maximum %d", li.value, maxSize), wit(res))
			} else {
				c.Violation("framing", "an honest frame was not delivered", wit(res))
			}
			return
		}
		if uint64(n) != li.value || !bytes.Equal((*bp)[:n], fr.payload) {
			res["got_head"] = wire.Hx(head((*bp)[:n], 64))
			c.Violation("framing", "an honest frame was delivered with a different payload", wit(res))
			return
		}
		if !crossing && st.delivered != len(fr.prefix)+len(fr.payload) {
			res["consumed"] = st.delivered
			c.Violation("framing", "readStream consumed bytes beyond the frame it returned", wit(res))
			return
		}
		c.Count("framing_honest_delivered", 1)
		if li.value == maxSize {
			c.Count("framing_at_max_delivered", 1)
		}
	case wantEither:
		c.Count("framing_ambiguous_prefix", 1)
		if err == nil {
			c.Count("framing_ambiguous_prefix_accepted", 1)
		}
	}
}

func head(b []byte, n int) []byte {
	if len(b) > n {
		return b[:n]
	}
	return b
}

// ---------------------------------------------------------------- entry point 2: Service.readStream (receive loop)

type stubMsg struct{ b []byte }

func (m *stubMsg) String() string          { return "stub" }
func (m *stubMsg) Encode() ([]byte, error) { return m.b, nil }
func (m *stubMsg) Decode(in []byte) error  { m.b = append([]byte(nil), in...); return nil }

var framingSvc *network.VerifFramingService

func svc() *network.VerifFramingService {
	if framingSvc == nil {
		framingSvc = network.VerifNewFramingService()
	}
	return framingSvc
}

// probeLoop drives the receive loop over a stream holding `frames` back to back. A payload whose first
// byte is 0xEE is "undecodable" (the decoder stub returns an error: the loop must go on to the next
// frame); handlerFailAt is the index of the delivered message on which the handler fails (-1: never).
func probeLoop(c *vcommon.Case, frames []frame, maxSize uint64, policy int, handlerFailAt int) {
	const entry = "Service.readStream"
	var data []byte
	for _, fr := range frames {
		want, li := expect(fr, maxSize)
		countFrame(c, entry, fr, want, li)
		data = append(data, fr.prefix...)
		data = append(data, fr.payload...)
	}
	supplied := len(data)
	noteInput("framing:"+entry, frames[len(frames)-1].prefix)
	// model: what the decoder must be shown, in order. A stream is bytes, not frames: the model
	// re-parses the concatenation (a frame cut short swallows what follows it), and the fake
	// stream's delivery segments follow the model's frame boundaries.
	payloads, segs, budget, exact := modelStream(data, maxSize)
	st := newFakeStream(c.R, policy, segs...)
	var wantSeen [][]byte
	handled := 0
	for _, p := range payloads {
		wantSeen = append(wantSeen, p)
		if len(p) > 0 && p[0] == 0xee {
			continue // decoder error: the loop continues
		}
		if handled == handlerFailAt {
			exact = true // the loop ends here whatever follows
			break
		}
		handled++
	}
	var seen [][]byte
	copied := 0
	nHandled := 0
	decoder := func(b []byte, _ peer.ID, _ bool) (messages.P2PMessage, error) {
		cp := append([]byte(nil), b...)
		copied += len(b) + 64
		seen = append(seen, cp)
		if len(b) > 0 && b[0] == 0xee {
			return nil, errors.New("verif: undecodable")
		}
		return &stubMsg{}, nil
	}
	handler := func(libp2pnetwork.Stream, messages.P2PMessage) error {
		nHandled++
		if nHandled-1 == handlerFailAt {
			return errors.New("verif: handler failed")
		}
		return nil
	}
	m := measured(func() { svc().ReadLoop(st, decoder, handler, maxSize) })
	m.alloc -= min64(m.alloc, uint64(copied)+uint64(48*len(seen))) // the stub's own copies
	wit := func(extra map[string]any) map[string]any {
		shown := frames[len(frames)-1] // the first frame that is not honest, if any
		for _, fr := range frames {
			if w, _ := expect(fr, maxSize); w == wantError || w == wantEither {
				shown = fr
				break
			}
		}
		extra["frames"] = describeFrames(frames)
		return framingWitness(entry, shown, maxSize, policy, extra)
	}
	if !safety(c, entry, m, budget, supplied, wit) {
		return
	}
	c.Eval(1)
	c.Count("framing_loop_runs", 1)
	c.Count("framing_loop_messages_seen", len(seen))
	if st.resets > 0 {
		c.Count("framing_loop_reset_on_return", 1)
	}
	res := map[string]any{"decoder_saw": len(seen), "model_expects": len(wantSeen)}
	for i := range seen {
		if i >= len(wantSeen) {
			if exact {
				res["extra_head"] = wire.Hx(head(seen[i], 64))
				c.Violation("framing", fmt.Sprintf("the receive loop handed the decoder a message (%d bytes) that no frame of the stream carries", len(seen[i])), wit(res))
				return
			}
			break
		}
		if !bytes.Equal(seen[i], wantSeen[i]) {
			res["index"], res["got_head"], res["want_head"] = i, wire.Hx(head(seen[i], 64)), wire.Hx(head(wantSeen[i], 64))
			c.Violation("framing", fmt.Sprintf("message %d handed to the decoder differs from the payload of frame %d", i, i), wit(res))
			return
		}
	}
	if len(seen) < len(wantSeen) {
		if policy == polGreedy {
			c.Count("framing_loop_overread_dropped", 1) // see probeFrame: next frame's bytes in the same Read
			return
		}
		c.Violation("framing", fmt.Sprintf("the receive loop delivered %d of the %d honest frames that precede the first bad one", len(seen), len(wantSeen)), wit(res))
		return
	}
	c.Count("framing_loop_exact", 1)
}

// modelStream splits the bytes of a stream into the payloads a correct reader delivers before the
// first frame it must refuse (or the end of the stream), the delivery segments (prefix, payload,
// prefix, ... , rest) and the allocation budget of reading it. exact=false: it stopped at a prefix
// whose reading is ambiguous (bits beyond 2^64), so more deliveries may follow.
func modelStream(data []byte, maxSize uint64) (payloads, segs [][]byte, budget uint64, exact bool) {
	budget = 256 << 10
	pos := 0
	for pos < len(data) {
		// 4 KiB per frame for the loop's own bookkeeping (stream manager, bandwidth counter, trace arguments)
		budget += 4 << 10
		li := lebParse(data[pos:])
		if li.status != lebOK {
			return payloads, append(segs, data[pos:]), budget, true
		}
		if li.overflow {
			return payloads, append(segs, data[pos:]), budget + 4*uint64(len(data)-pos), false
		}
		segs = append(segs, data[pos:pos+li.n])
		pos += li.n
		if li.value > maxSize {
			return payloads, append(segs, data[pos:]), budget, true
		}
		budget += 4 * li.value // see framingAllocBudget
		if li.value > uint64(len(data)-pos) {
			return payloads, append(segs, data[pos:]), budget + 4*uint64(len(data)-pos), true
		}
		budget += 4 * li.value
		segs = append(segs, data[pos:pos+int(li.value)])
		payloads = append(payloads, data[pos:pos+int(li.value)])
		pos += int(li.value)
	}
	return payloads, segs, budget, true
}

func min64(a, b uint64) uint64 {
	if a < b {
		return a
	}
	return b
}

func describeFrames(frames []frame) string {
	var sb strings.Builder
	for i, fr := range frames {
		if i > 0 {
			sb.WriteString(" | ")
		}
		if i >= 12 {
			fmt.Fprintf(&sb, "... %d more", len(frames)-i)
			break
		}
		fmt.Fprintf(&sb, "%s prefix=%s supplied=%d", fr.class, wire.Hx(fr.prefix), len(fr.payload))
	}
	return sb.String()
}

// ---------------------------------------------------------------- entry point 3: readHandshake

func probeHandshake(c *vcommon.Case, fr frame, maxSize uint64, policy int) {
	const entry = "readHandshake"
	want, li := expect(fr, maxSize)
	countFrame(c, entry, fr, want, li)
	noteInput("framing:"+entry+":"+fr.class, fr.prefix)
	st := newFakeStream(c.R, policy, fr.prefix, fr.payload)
	var hs network.Handshake
	var err error
	var delivered bool
	m := measured(func() {
		hs, err, delivered = svc().ReadHandshake(st, network.VerifDecodeBlockAnnounceHandshake, maxSize)
	})
	wit := func(extra map[string]any) map[string]any { return framingWitness(entry, fr, maxSize, policy, extra) }
	budget := framingAllocBudget(fr, maxSize) + allocBudget(len(fr.payload))
	if !safety(c, entry, m, budget, len(fr.prefix)+len(fr.payload), wit) {
		return
	}
	c.Eval(1)
	res := map[string]any{"err": fmt.Sprint(err), "delivered": delivered}
	if !delivered {
		c.Violation("framing", "readHandshake closed its channel without a handshake or an error", wit(res))
		return
	}
	switch want {
	case wantError:
		if err == nil {
			c.Violation("framing", "readHandshake accepted a frame that is over-sized, cut short or has a bad length prefix", wit(res))
			return
		}
		c.Count("framing_rejected", 1)
		c.Count("framing_handshake_rejected", 1)
	case wantPayload, wantEmpty:
		p := fr.payload
		if want == wantEmpty {
			p = nil
		}
		ref, refErr := network.VerifDecodeBlockAnnounceHandshake(append([]byte(nil), p...))
		if errors.Is(err, network.ErrGreaterThanMaxSize) {
			c.Violation("framing", "an honest handshake frame was rejected as greater than the maximum", wit(res))
			return
		}
		if (err == nil) != (refErr == nil) {
			res["direct_decode_err"] = fmt.Sprint(refErr)
			c.Violation("framing", "readHandshake and the handshake decoder applied to the frame's payload disagree", wit(res))
			return
		}
		if err == nil {
			if !eqv(reflect.ValueOf(hs), reflect.ValueOf(ref)) {
				res["got"], res["direct_decode"] = fmt.Sprintf("%+v", hs), fmt.Sprintf("%+v", ref)
				c.Violation("framing", "readHandshake delivered a handshake different from the one in the frame", wit(res))
				return
			}
			c.Count("framing_handshake_delivered", 1)
		} else {
			c.Count("framing_handshake_undecodable", 1)
		}
	case wantEither:
		c.Count("framing_ambiguous_prefix", 1)
	}
}

// ---------------------------------------------------------------- entry point 4: RequestResponseProtocol.receiveResponse

var rrps = map[uint64]*network.VerifRRP{}

// rrpFor returns the protocol for a maximum response size, built by the production constructor (its
// response buffer has maxResponseSize bytes and is kept across responses, as in production).
func rrpFor(maxSize uint64) *network.VerifRRP {
	if p, ok := rrps[maxSize]; ok {
		return p
	}
	p := svc().NewRRP(maxSize)
	rrps[maxSize] = p
	return p
}

func probeResponse(c *vcommon.Case, fr frame, maxSize uint64, policy int) {
	const entry = "receiveResponse"
	want, li := expect(fr, maxSize)
	countFrame(c, entry, fr, want, li)
	noteInput("framing:"+entry+":"+fr.class, fr.prefix)
	p := rrpFor(maxSize) // outside the measurement: allocating the response buffer is start-up cost
	st := newFakeStream(c.R, policy, fr.prefix, fr.payload)
	msg := new(messages.BlockResponseMessage)
	var err error
	m := measured(func() { err = p.ReceiveResponse(st, msg) })
	wit := func(extra map[string]any) map[string]any { return framingWitness(entry, fr, maxSize, policy, extra) }
	// the response buffer already has maxResponseSize bytes: nothing has to grow for any admissible frame
	budget := 4*uint64(len(fr.payload)) + 256<<10 + allocBudget(len(fr.payload))
	if !safety(c, entry, m, budget, len(fr.prefix)+len(fr.payload), wit) {
		return
	}
	c.Eval(1)
	res := map[string]any{"err": fmt.Sprint(err)}
	if uint64(p.BufLen()) != maxSize {
		res["response_buffer_len"] = p.BufLen()
		c.Violation("framing", "the protocol's retained response buffer changed size", wit(res))
		return
	}
	switch want {
	case wantError:
		if err == nil {
			c.Violation("framing", "receiveResponse accepted a frame that is over-sized, cut short or has a bad length prefix", wit(res))
			return
		}
		c.Count("framing_rejected", 1)
		c.Count("framing_response_rejected", 1)
	case wantEmpty:
		if err == nil {
			c.Count("framing_response_empty_accepted", 1)
		} else {
			c.Count("framing_response_empty_rejected", 1) // ErrReceivedEmptyMessage
		}
	case wantPayload:
		if errors.Is(err, network.ErrGreaterThanMaxSize) {
			c.Violation("framing", "an honest response frame was rejected as greater than the maximum", wit(res))
			return
		}
		ref := new(messages.BlockResponseMessage)
		refErr := ref.Decode(append([]byte(nil), fr.payload...))
		if (err == nil) != (refErr == nil) {
			res["direct_decode_err"] = fmt.Sprint(refErr)
			c.Violation("framing", "receiveResponse and the response decoder applied to the frame's payload disagree", wit(res))
			return
		}
		if err == nil {
			if !eqv(reflect.ValueOf(msg), reflect.ValueOf(ref)) {
				c.Violation("framing", "receiveResponse decoded a response different from the one in the frame", wit(res))
				return
			}
			c.Count("framing_response_delivered", 1)
		} else {
			c.Count("framing_response_undecodable", 1)
		}
	case wantEither:
		c.Count("framing_ambiguous_prefix", 1)
	}
}

// ---------------------------------------------------------------- frame generators

var productionMax = []uint64{1 << 20, 1 << 20, 1 << 20, 16 << 20} // block announce, GRANDPA, (handshakes) ; transactions / sync / light / warp

// syntheticMax: limits around the pooled buffer size and tiny ones (readStream takes the limit as a
// parameter; these make the boundary cases cheap).
var syntheticMax = []uint64{1, 2, 127, 128, 1000, 16383, 16384, 65535, 65536, 65537, 100000, 300000}

var frameClasses = []string{
	"honest", "honest", "honest", "honest_pool_edge", "honest_grow", "zero", "one", "at_max", "max_plus_1",
	"oversize_near", "oversize_mid", "huge", "negative_as_int", "overlong_prefix", "truncated_prefix",
	"short_stream", "short_stream", "padded_prefix", "prefix_overflow_bits",
}

// genFrame builds a frame of the class for the limit. cheap: keep the supplied bytes small (used by the
// entry points that decode the payload as well).
func genFrame(r *vcommon.Rand, class string, maxSize uint64, cheap bool) frame {
	fr := frame{class: class}
	capLen := func(n uint64) int { // a payload length that is admissible
		if n > maxSize {
			n = maxSize
		}
		return int(n)
	}
	switch class {
	case "honest":
		n := capLen(uint64(r.Intn(2000)) + 1)
		fr.payload = fill(r, n)
		fr.prefix = lebEnc(uint64(n))
	case "honest_pool_edge": // around the 64 KiB pooled buffer and the LEB128 width changes
		edges := []uint64{127, 128, 16383, 16384, 65535, 65536, 65537, 65536 + uint64(r.Intn(64))}
		n := capLen(vcommon.Pick(r, edges))
		fr.payload = fill(r, n)
		fr.prefix = lebEnc(uint64(n))
	case "honest_grow": // larger than the pooled buffer
		hi := uint64(400_000)
		if !cheap && r.Chance(1, 8) {
			hi = maxSize
		}
		n := capLen(65537 + uint64(r.Intn(int(hi))))
		fr.payload = fill(r, n)
		fr.prefix = lebEnc(uint64(n))
	case "zero":
		fr.prefix = []byte{0}
	case "one":
		fr.payload = fill(r, 1)
		fr.prefix = []byte{1}
	case "at_max":
		fr.payload = fill(r, int(maxSize))
		fr.prefix = lebEnc(maxSize)
	case "max_plus_1": // the whole payload is supplied: a missing limit shows as an accepted message
		fr.payload = fill(r, int(maxSize)+1)
		fr.prefix = lebEnc(maxSize + 1)
	case "oversize_near":
		fr.prefix = lebEnc(maxSize + 1 + uint64(r.Intn(4096)))
		fr.payload = fill(r, r.Intn(300))
	case "oversize_mid": // 2x .. 128 MiB: absurd, yet cheap to observe if it IS allocated
		d := maxSize*2 + uint64(r.Intn(1<<20))
		if r.Bool() || d > 128<<20 {
			d = maxSize + 1 + uint64(r.Intn(128<<20-int(min64(maxSize, 64<<20))))
		}
		fr.prefix = lebEnc(d)
		fr.payload = fill(r, r.Intn(300))
	case "huge": // 2^33 .. 2^63-1: positive as int, beyond any memory
		k := uint(33 + r.Intn(30))
		d := pow2(k)
		switch r.Intn(3) {
		case 0:
			d--
		case 1:
			d += uint64(r.Intn(1 << 20))
		}
		fr.prefix = lebEnc(d)
		fr.payload = fill(r, r.Intn(300))
	case "negative_as_int": // >= 2^63: int(length) is negative
		d := pow2(63) + r.Uint64()>>1
		switch r.Intn(4) {
		case 0:
			d = pow2(63)
		case 1:
			d = ^uint64(0)
		case 2:
			d = ^uint64(0) - uint64(r.Intn(70000))
		}
		fr.prefix = lebEnc(d)
		fr.payload = fill(r, r.Intn(300))
	case "overlong_prefix": // >= 10 continuation bytes, maybe a terminal byte after them
		n := 10 + r.Intn(8)
		fr.prefix = bytes.Repeat([]byte{0x80 | byte(r.Intn(128))}, n)
		if r.Bool() {
			for i := range fr.prefix {
				fr.prefix[i] = 0x80 | byte(r.Intn(128))
			}
		}
		if r.Bool() {
			fr.prefix = append(fr.prefix, byte(r.Intn(128)))
		}
	case "truncated_prefix": // the stream ends inside the prefix (or before it)
		full := lebEnc(pow2(uint(7*(1+r.Intn(8)))) + uint64(r.Intn(100)))
		fr.prefix = full[:r.Intn(len(full))]
	case "short_stream": // admissible declared length, the stream ends before it
		d := uint64(2 + r.Intn(3000))
		if !cheap && r.Chance(1, 4) {
			d = 65537 + uint64(r.Intn(200_000))
		}
		if d > maxSize {
			d = maxSize
		}
		if d < 1 {
			d = 1
		}
		have := 0
		if d > 1 {
			have = r.Intn(int(d))
			if r.Chance(1, 3) {
				have = int(d) - 1
			}
		}
		fr.prefix = lebEnc(d)
		fr.payload = fill(r, have)
	case "padded_prefix": // non-canonical: the same number in more bytes
		n := capLen(uint64(r.Intn(300)))
		fr.payload = fill(r, n)
		fr.prefix = lebPad(uint64(n), len(lebEnc(uint64(n)))+1+r.Intn(9-len(lebEnc(uint64(n)))))
	case "prefix_overflow_bits": // ten bytes, the last one terminal but with bits beyond 2^64
		fr.prefix = bytes.Repeat([]byte{0x80}, 9)
		for i := range fr.prefix {
			if r.Chance(1, 3) {
				fr.prefix[i] = 0x80 | byte(r.Intn(128))
			}
		}
		fr.prefix = append(fr.prefix, byte(2+r.Intn(126)))
		fr.payload = fill(r, r.Intn(64))
	default:
		panic("genFrame: unknown class " + class)
	}
	return fr
}

func pickMax(r *vcommon.Rand) uint64 {
	if r.Chance(3, 10) {
		return vcommon.Pick(r, syntheticMax)
	}
	return vcommon.Pick(r, productionMax)
}

// ---------------------------------------------------------------- fixed corpus

type framingFixed struct {
	entry   string // readStream | loop | handshake | response
	note    string
	fr      frame
	maxSize uint64
	policy  int
	next    []byte
	bufLen  int
}

func framingCorpus() []framingFixed {
	r := vcommon.NewRand(33)
	var out []framingFixed
	add := func(entry, note string, fr frame, maxSize uint64, policy int) {
		fr.class = "corpus:" + note
		out = append(out, framingFixed{entry: entry, note: note, fr: fr, maxSize: maxSize, policy: policy, bufLen: network.VerifPoolBufSize})
	}
	declared := func(d uint64, supplied int) frame { return frame{prefix: lebEnc(d), fillN: supplied} }
	for _, max := range []uint64{1 << 20, 16 << 20} {
		tag := fmt.Sprintf(" (max %d MiB)", max>>20)
		add("readStream", "honest 100 bytes"+tag, declared(100, 100), max, polWhole)
		add("readStream", "honest 100 bytes, one byte per read"+tag, declared(100, 100), max, polByte)
		add("readStream", "prefix 0"+tag, declared(0, 0), max, polWhole)
		add("readStream", "prefix 1"+tag, declared(1, 1), max, polWhole)
		add("readStream", "exactly the pooled buffer"+tag, declared(65536, 65536), max, polWhole)
		add("readStream", "pooled buffer + 1"+tag, declared(65537, 65537), max, polChunk)
		add("readStream", "exactly max"+tag, declared(max, int(max)), max, polWhole)
		add("readStream", "max+1, fully supplied"+tag, declared(max+1, int(max)+1), max, polWhole)
		add("readStream", "max+1, nothing supplied"+tag, declared(max+1, 0), max, polWhole)
		add("readStream", "declares 64 MiB, supplies 10 bytes"+tag, declared(64<<20, 10), max, polWhole)
		add("readStream", "declares 2^63"+tag, declared(pow2(63), 10), max, polWhole)
		add("readStream", "declares 2^64-1"+tag, declared(^uint64(0), 10), max, polWhole)
		add("readStream", "declares 2^64-65536"+tag, declared(^uint64(0)-65535, 10), max, polWhole)
		add("readStream", "declares 2^62"+tag, declared(pow2(62), 10), max, polWhole)
		add("readStream", "declares 2^40"+tag, declared(pow2(40), 10), max, polWhole)
		add("readStream", "over-long prefix: 11 x ff"+tag, frame{prefix: bytes.Repeat([]byte{0xff}, 11)}, max, polWhole)
		add("readStream", "over-long prefix: 10 x 80 then 01"+tag, frame{prefix: append(bytes.Repeat([]byte{0x80}, 10), 1)}, max, polWhole)
		add("readStream", "never-terminated prefix: 64 x 80"+tag, frame{prefix: bytes.Repeat([]byte{0x80}, 64)}, max, polByte)
		add("readStream", "empty stream"+tag, frame{}, max, polWhole)
		add("readStream", "truncated prefix 80"+tag, frame{prefix: []byte{0x80}}, max, polWhole)
		add("readStream", "truncated prefix ff ff ff"+tag, frame{prefix: []byte{0xff, 0xff, 0xff}}, max, polWhole)
		add("readStream", "short stream: 100 declared, 99 supplied"+tag, declared(100, 99), max, polWhole)
		add("readStream", "short stream: 100000 declared, 1 supplied"+tag, declared(100000, 1), max, polWhole)
		add("readStream", "short stream: max declared, 0 supplied"+tag, declared(max, 0), max, polWhole)
		add("readStream", "padded prefix 81 80 00 = 1"+tag, frame{prefix: []byte{0x81, 0x80, 0x00}, payload: []byte{7}}, max, polWhole)
		add("readStream", "ten-byte prefix with bits beyond 2^64"+tag, frame{prefix: append(bytes.Repeat([]byte{0x80}, 9), 0x02)}, max, polWhole)
	}
	// the multi-GiB claims once each (1 MiB limit): if they ARE allocated the case costs GiBs, hence only here
	add("readStream", "declares 2^31-1", declared(pow2(31)-1, 10), 1<<20, polWhole)
	add("readStream", "declares 2^31", declared(pow2(31), 10), 1<<20, polWhole)
	add("readStream", "declares 2^32", declared(pow2(32), 10), 1<<20, polWhole)
	// a buffer an earlier message has grown
	out = append(out, framingFixed{entry: "readStream", note: "honest 70000 bytes into a buffer grown to 200000",
		fr: frame{class: "corpus:grown buffer", prefix: lebEnc(70000), payload: fill(r, 70000)}, maxSize: 1 << 20, policy: polChunk, bufLen: 200000})
	// the next frame's bytes are already there
	nxt := append(lebEnc(3), 1, 2, 3)
	out = append(out, framingFixed{entry: "readStream", note: "honest frame followed by another, separate reads",
		fr: frame{class: "corpus:pipelined", prefix: lebEnc(50), payload: fill(r, 50)}, maxSize: 1 << 20, policy: polWhole, next: nxt, bufLen: network.VerifPoolBufSize})
	out = append(out, framingFixed{entry: "readStream", note: "honest frame followed by another, coalesced reads",
		fr: frame{class: "corpus:pipelined coalesced", prefix: lebEnc(50), payload: fill(r, 50)}, maxSize: 1 << 20, policy: polGreedy, next: nxt, bufLen: network.VerifPoolBufSize})
	// callers
	hsBytes := wire.GenHandshake(r).Ref()
	add("handshake", "valid block announce handshake", frame{prefix: lebEnc(uint64(len(hsBytes))), payload: hsBytes}, 1<<20, polWhole)
	add("handshake", "valid handshake, byte reads", frame{prefix: lebEnc(uint64(len(hsBytes))), payload: hsBytes}, 1<<20, polByte)
	add("handshake", "handshake cut short", frame{prefix: lebEnc(uint64(len(hsBytes))), payload: hsBytes[:len(hsBytes)-1]}, 1<<20, polWhole)
	add("handshake", "handshake frame of max+1", declared(1<<20+1, 1<<20+1), 1<<20, polWhole)
	add("handshake", "handshake declares 64 MiB", declared(64<<20, 5), 1<<20, polWhole)
	add("handshake", "zero-length handshake", declared(0, 0), 1<<20, polWhole)
	brBytes := wire.GenBlockResponse(r, true).Ref()
	add("response", "valid block response", frame{prefix: lebEnc(uint64(len(brBytes))), payload: brBytes}, 16<<20, polWhole)
	add("response", "valid block response, chunked", frame{prefix: lebEnc(uint64(len(brBytes))), payload: brBytes}, 16<<20, polChunk)
	add("response", "response cut short", frame{prefix: lebEnc(uint64(len(brBytes)) + 1), payload: brBytes}, 16<<20, polWhole)
	add("response", "response declares 16 MiB + 1", declared(16<<20+1, 9), 16<<20, polWhole)
	add("response", "response declares 128 MiB", declared(128<<20, 9), 16<<20, polWhole)
	add("response", "response declares 2^63", declared(pow2(63), 9), 16<<20, polWhole)
	add("response", "response declares 2^64-1", declared(^uint64(0), 9), 16<<20, polWhole)
	add("response", "zero-length response", declared(0, 0), 16<<20, polWhole)
	add("response", "response of exactly max (small protocol)", declared(4096, 4096), 4096, polWhole)
	add("response", "response of max+1 (small protocol)", declared(4097, 4097), 4096, polWhole)
	add("loop", "loop: frame declares 64 MiB", declared(64<<20, 5), 1<<20, polWhole)
	add("loop", "loop: frame declares 2^63", declared(pow2(63), 5), 1<<20, polWhole)
	add("loop", "loop: frame declares 2^64-1", declared(^uint64(0), 5), 16<<20, polWhole)
	add("loop", "loop: frame of max+1 fully supplied", declared(1<<20+1, 1<<20+1), 1<<20, polWhole)
	add("loop", "loop: over-long prefix", frame{prefix: bytes.Repeat([]byte{0xff}, 12)}, 1<<20, polWhole)
	// the goroutine of readHandshake cannot be recovered from: a panic there ends the child (class crash). Last.
	add("handshake", "handshake declares 2^63", declared(pow2(63), 5), 1<<20, polWhole)
	return out
}

// ---------------------------------------------------------------- registration

func framingGroups(r *vcommon.Run) {
	network.VerifQuietLogger()
	for _, cl := range []string{"honest", "honest_pool_edge", "honest_grow", "zero", "one", "at_max", "max_plus_1", "oversize_near",
		"oversize_mid", "huge", "negative_as_int", "overlong_prefix", "truncated_prefix", "short_stream", "padded_prefix",
		"prefix_overflow_bits"} {
		r.Floor("framing_class:"+cl, 40)
	}
	// claims of 2^31-1, 2^31, 2^32 only in the fixed corpus: a tree that DOES allocate them pays GiBs per case
	r.Floor("framing_class:corpus:declares 2^31-1", 1)
	r.Floor("framing_class:corpus:declares 2^31", 1)
	r.Floor("framing_class:corpus:declares 2^32", 1)
	r.Floor("framing:readStream", 1500)
	r.Floor("framing:Service.readStream", 600)
	r.Floor("framing:readHandshake", 200)
	r.Floor("framing:receiveResponse", 200)
	r.Floor("framing_honest_delivered", 500)
	r.Floor("framing_at_max_delivered", 30)
	r.Floor("framing_empty_delivered", 30)
	r.Floor("framing_buffer_grown", 40)
	r.Floor("framing_rejected", 800)
	r.Floor("framing_oversize_rejected", 300)
	r.Floor("framing_loop_exact", 100)
	r.Floor("framing_handshake_delivered", 20)
	r.Floor("framing_handshake_rejected", 50)
	r.Floor("framing_response_delivered", 20)
	r.Floor("framing_response_rejected", 50)

	fc := framingCorpus()
	r.Fixed("framing-corpus", len(fc), func(c *vcommon.Case) {
		t0 := cpuMicros()
		defer func() { c.Count("framing_corpus_cpu_ms", int((cpuMicros()-t0)/1000)) }() // evidence only
		f := fc[c.Idx]
		if f.fr.fillN > 0 {
			f.fr.payload = fill(c.R, f.fr.fillN)
		}
		switch f.entry {
		case "readStream":
			probeFrame(c, f.fr, f.maxSize, f.policy, f.next, f.bufLen)
		case "handshake":
			probeHandshake(c, f.fr, f.maxSize, f.policy)
		case "response":
			probeResponse(c, f.fr, f.maxSize, f.policy)
		case "loop":
			honest := frame{class: "honest", prefix: lebEnc(40), payload: fill(c.R, 40)}
			probeLoop(c, []frame{honest, honest, f.fr, honest}, f.maxSize, f.policy, -1)
		}
		c.Distinct("framing-corpus|" + f.entry + "|" + f.note)
		c.Sample(map[string]any{"entry": f.entry, "frame": f.note, "prefix": wire.Hx(f.fr.prefix), "supplied": len(f.fr.payload),
			"max_size": f.maxSize, "delivery": policyNames[f.policy]})
	})

	r.Cases("framing", r.Scale(200), func(c *vcommon.Case) {
		t00 := cpuMicros()
		defer func() { c.Count("framing_cpu_ms", int((cpuMicros()-t00)/1000)) }() // evidence only
		for k := 0; k < 24; k++ {
			t0 := cpuMicros()
			framingStep(c)
			if d := cpuMicros() - t0; d > 200_000 && os.Getenv("VERIF_C33_TIMING") != "" { // diagnostic only
				fmt.Fprintf(os.Stderr, "slow framing step %s/%d: %d us\n", c.ID, k, d)
			}
		}
	})
}

// framingStep: one random frame (or, for the receive loop, one random stream of frames) at one entry point.
func framingStep(c *vcommon.Case) {
	r := c.R
	policy := r.Intn(nPolicies)
	class := vcommon.Pick(r, frameClasses)
	switch e := r.Intn(17); {
	case e < 10:
		maxSize := pickMax(r)
		if (class == "at_max" || class == "max_plus_1") && maxSize == 16<<20 && !r.Chance(1, 4) {
			maxSize = 1 << 20
		}
		fr := genFrame(r, class, maxSize, false)
		bufLen := network.VerifPoolBufSize
		if r.Chance(1, 10) {
			bufLen += 1 + r.Intn(256<<10) // grown by an earlier message
		}
		var next []byte
		if w, _ := expect(fr, maxSize); w == wantPayload && r.Chance(1, 3) {
			nf := genFrame(r, "honest", maxSize, true)
			next = append(append([]byte(nil), nf.prefix...), nf.payload...)
		} else if policy == polGreedy {
			policy = polWhole // nothing follows: coalescing is vacuous, keep the strict consumption check
		}
		probeFrame(c, fr, maxSize, policy, next, bufLen)
		c.Distinct(fmt.Sprintf("framing|readStream|%s|%s|%d|%v", class, policyNames[policy], bits.Len64(maxSize), bufLen > network.VerifPoolBufSize))
	case e < 13:
		maxSize := vcommon.Pick(r, productionMax)
		if r.Chance(1, 4) {
			maxSize = vcommon.Pick(r, syntheticMax[4:])
		}
		var frames []frame
		n := 1 + r.Intn(10)
		for i := 0; i < n; i++ {
			hc := vcommon.Pick(r, []string{"honest", "honest", "honest", "honest_pool_edge", "honest_grow", "zero", "one", "padded_prefix"})
			fr := genFrame(r, hc, maxSize, true)
			if len(fr.payload) > 0 && r.Chance(1, 8) {
				fr.payload[0] = 0xee // undecodable: the loop goes on
			} else if len(fr.payload) > 0 && fr.payload[0] == 0xee {
				fr.payload[0] = 0
			}
			frames = append(frames, fr)
		}
		tail := ""
		if r.Chance(2, 3) {
			tail = class
			if tail == "at_max" || tail == "max_plus_1" {
				if maxSize > 1<<20 {
					maxSize = 1 << 20
				}
			}
			fr := genFrame(r, class, maxSize, true)
			if len(fr.payload) > 0 && fr.payload[0] == 0xee {
				fr.payload[0] = 0
			}
			frames = append(frames, fr)
			if r.Bool() {
				frames = append(frames, genFrame(r, "honest", maxSize, true))
			}
		}
		failAt := -1
		if r.Chance(1, 5) {
			failAt = r.Intn(n)
		}
		probeLoop(c, frames, maxSize, policy, failAt)
		c.Distinct(fmt.Sprintf("framing|loop|%s|%s|%d|%d", tail, policyNames[policy], bits.Len(uint(n)), failAt >= 0))
	case e < 15:
		maxSize := uint64(1 << 20) // block announce / GRANDPA handshakes
		if r.Chance(1, 4) {
			maxSize = 16 << 20 // transactions
		}
		fr := genFrame(r, class, maxSize, true)
		if class == "honest" || class == "padded_prefix" {
			hs := wire.GenHandshake(r).Ref()
			if r.Chance(1, 4) && len(hs) > 1 {
				hs = hs[:r.Intn(len(hs))] // an honest frame carrying an undecodable handshake
			}
			fr.payload = hs
			if class == "honest" {
				fr.prefix = lebEnc(uint64(len(hs)))
			} else {
				fr.prefix = lebPad(uint64(len(hs)), 2+r.Intn(4))
			}
		}
		if policy == polGreedy {
			policy = polWhole
		}
		probeHandshake(c, fr, maxSize, policy)
		c.Distinct(fmt.Sprintf("framing|handshake|%s|%s|%d", class, policyNames[policy], bits.Len64(maxSize)))
	default:
		maxSize := uint64(16 << 20) // MaxBlockResponseSize
		if r.Chance(1, 3) || class == "at_max" || class == "max_plus_1" {
			maxSize = vcommon.Pick(r, []uint64{4096, 70000, 1 << 20})
		}
		fr := genFrame(r, class, maxSize, true)
		if class == "honest" || class == "padded_prefix" {
			br := wire.GenBlockResponse(r, true).Ref()
			if uint64(len(br)) <= maxSize {
				fr.payload = br
				if class == "honest" {
					fr.prefix = lebEnc(uint64(len(br)))
				} else {
					fr.prefix = lebPad(uint64(len(br)), 4+r.Intn(4))
				}
			}
		}
		if policy == polGreedy {
			policy = polWhole
		}
		probeResponse(c, fr, maxSize, policy)
		c.Distinct(fmt.Sprintf("framing|response|%s|%s|%d", class, policyNames[policy], bits.Len64(maxSize)))
	}
}
