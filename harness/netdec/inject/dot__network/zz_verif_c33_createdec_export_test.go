//go:build verif

package network

// Exports for the createDecoder part of the C33 monitor (zz_verif_c33_createdec_test.go, package
// network_test): the combined notifications decoder RegisterNotificationsProtocol hands to
// Service.readStream, over a production notificationsProtocol + peersData whose per-peer handshake
// state the harness sets through the production setters. Test-only, compiled only with -tags verif.

import (
	"github.com/ChainSafe/gossamer/dot/network/messages"
	"github.com/libp2p/go-libp2p/core/peer"
)

// Per-peer, per-direction handshake states production can be in.
const (
	VerifHsNone        = iota // no handshakeData entry for the peer
	VerifHsNotReceived        // entry stored, handshake not received yet (sendHandshake stores the stream first)
	VerifHsReceived           // handshake received and validated (handleHandshake / sendData)
	VerifHsReceivedBad        // handshake received, not validated
	VerifHsStates
)

// VerifNotifDecoder is createDecoder's result together with the protocol record it reads.
type VerifNotifDecoder struct {
	np  *notificationsProtocol
	hs  HandshakeDecoder
	msg MessageDecoder
	dec messageDecoder
}

// VerifNewNotifDecoder builds the combined decoder as RegisterNotificationsProtocol does. kind
// "block_announce" / "transactions" use the decoders NewService registers; any other kind uses the
// decoders given (the GRANDPA service's).
func VerifNewNotifDecoder(kind string, hs HandshakeDecoder, msg MessageDecoder) *VerifNotifDecoder {
	maxSize := uint64(MaxGrandpaNotificationSize)
	switch kind {
	case "block_announce":
		hs, msg, maxSize = decodeBlockAnnounceHandshake, decodeBlockAnnounceMessage, maxBlockAnnounceNotificationSize
	case "transactions":
		hs, msg, maxSize = decodeTransactionHandshake, decodeTransactionMessage, maxTransactionsNotificationSize
	}
	np := newNotificationsProtocol("/verif/"+"createdec", nil, hs, nil, maxSize)
	return &VerifNotifDecoder{np: np, hs: hs, msg: msg, dec: createDecoder(np, hs, msg)}
}

// SetPeerState puts the peer's handshake data of one direction into the given state with the
// production setters.
func (v *VerifNotifDecoder) SetPeerState(p peer.ID, inbound bool, st int) {
	var hd *handshakeData
	switch st {
	case VerifHsNotReceived:
		hd = newHandshakeData(false, false, nil)
	case VerifHsReceived:
		hd = newHandshakeData(true, true, nil)
	case VerifHsReceivedBad:
		hd = newHandshakeData(true, false, nil)
	}
	switch {
	case hd == nil && inbound:
		v.np.peersData.deleteInboundHandshakeData(p)
	case hd == nil:
		v.np.peersData.deleteOutboundHandshakeData(p)
	case inbound:
		v.np.peersData.setInboundHandshakeData(p, hd)
	default:
		v.np.peersData.setOutboundHandshakeData(p, hd)
	}
}

// Decode is the combined decoder (what Service.readStream calls per frame).
func (v *VerifNotifDecoder) Decode(in []byte, p peer.ID, inbound bool) (messages.P2PMessage, error) {
	return v.dec(in, p, inbound)
}

// Direct calls one of the two decoders the protocol was registered with.
func (v *VerifNotifDecoder) Direct(handshake bool, in []byte) (messages.P2PMessage, error) {
	if handshake {
		return v.hs(in)
	}
	return v.msg(in)
}
