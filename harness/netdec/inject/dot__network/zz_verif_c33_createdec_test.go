//go:build verif

package network_test

// C33 — the combined notifications decoder (dot/network/notifications.go createDecoder).
//
// Every frame of a notifications sub-protocol reaches its decoder through the closure createDecoder
// returns: it looks the sending peer up in the protocol's peersData (inbound or outbound table) and
// uses the HANDSHAKE decoder while no handshake has been received from that peer in that direction,
// the MESSAGE decoder afterwards. The harness builds that closure as RegisterNotificationsProtocol
// does (block announces, transactions, GRANDPA), puts peers into the states production has (no entry,
// entry without a received handshake, received + validated, received + not validated; inbound and
// outbound table) with the production setters, and runs the closure under the same `probe` monitor
// and the same valid + mutated inputs as the bare decoders: no panic, allocation / CPU budgets, an
// accepted handshake / message re-encodes and re-decodes (through the closure, same state) equal,
// receive-buffer reuse model. On top: the decoder the closure used must be the one the peer state
// dictates — the result has that decoder's type, and on sampled inputs error-ness and value equal a
// direct call of that decoder; the other direction's table and other peers do not influence it.
// What happens when handshake bytes arrive after the handshake (or message bytes before it) is the
// documented "assume" behaviour: decoded by the other decoder or rejected — counted, never refuted.

import (
	"fmt"
	"reflect"

	"github.com/ChainSafe/gossamer/dot/network"
	"github.com/ChainSafe/gossamer/lib/grandpa"
	"github.com/ChainSafe/gossamer/zz_verif/vcommon"
	"github.com/ChainSafe/gossamer/zz_verif/wire"
	"github.com/libp2p/go-libp2p/core/peer"
)

var cdProtos = []string{"block_announce", "transactions", "grandpa"}

var cdStateNames = [network.VerifHsStates]string{"none", "not_received", "received", "received_unvalidated"}

var cdPeers = []peer.ID{"verif-peer-a", "verif-peer-b", "verif-peer-c"}

func cdDir(inbound bool) string {
	if inbound {
		return "in"
	}
	return "out"
}

// cdGen: reference encodings of a valid handshake / message of the protocol.
func cdGen(proto string, handshake bool) func(r *vcommon.Rand) []byte {
	switch {
	case proto == "block_announce" && handshake:
		return func(r *vcommon.Rand) []byte { return wire.GenHandshake(r).Ref() }
	case proto == "block_announce":
		return func(r *vcommon.Rand) []byte { return wire.GenAnnounce(r, true).Ref() }
	case proto == "transactions" && handshake:
		// the transactions handshake is a role byte on the wire (Substrate); the decoder ignores its input
		return func(r *vcommon.Rand) []byte {
			if r.Chance(1, 4) {
				return r.Bytes(r.Intn(40))
			}
			return []byte{vcommon.Pick(r, []byte{1, 2, 4})}
		}
	case proto == "transactions":
		return func(r *vcommon.Rand) []byte { return wire.GenBody(r).Ref() }
	case handshake:
		return func(r *vcommon.Rand) []byte { return []byte{vcommon.Pick(r, []byte{1, 2, 4, 0})} }
	default:
		return func(r *vcommon.Rand) []byte { return wire.GenGossip(r, r.Intn(5)).Ref() }
	}
}

type cdSlot struct {
	p       peer.ID
	inbound bool
}

// cdWorld: one production decoder closure + the harness' model of its peersData.
type cdWorld struct {
	proto   string
	v       *network.VerifNotifDecoder
	model   map[cdSlot]int
	hsType  reflect.Type
	msgType reflect.Type
	// filled by the decode wrapper, reported by the case body
	wrong []string
}

func newCdWorld(proto string) *cdWorld {
	w := &cdWorld{proto: proto, model: map[cdSlot]int{}}
	w.v = network.VerifNewNotifDecoder(proto,
		func(in []byte) (network.Handshake, error) {
			hs := new(grandpa.GrandpaHandshake)
			err := hs.Decode(in)
			return hs, err
		},
		func(in []byte) (network.NotificationsMessage, error) {
			msg := new(network.ConsensusMessage)
			err := msg.Decode(in)
			return msg, err
		})
	r := vcommon.NewRand(1)
	for _, hs := range []bool{true, false} {
		for i := 0; i < 50; i++ {
			m, err := w.v.Direct(hs, cdGen(proto, hs)(r))
			if err != nil {
				continue
			}
			if hs {
				w.hsType = reflect.TypeOf(m)
			} else {
				w.msgType = reflect.TypeOf(m)
			}
			break
		}
	}
	return w
}

func (w *cdWorld) set(s cdSlot, st int) {
	w.model[s] = st
	w.v.SetPeerState(s.p, s.inbound, st)
}

// expectHandshake: the model of createDecoder's documented choice.
func (w *cdWorld) expectHandshake(s cdSlot) bool {
	st := w.model[s]
	return st == network.VerifHsNone || st == network.VerifHsNotReceived
}

// decoderFor is the closure seen as one of the monitor's decoders: frames of kind `offered` from the
// peer of slot s. The wrapper checks the TYPE of every accepted result against the peer state.
func (w *cdWorld) decoderFor(c *vcommon.Case, s cdSlot, offeredHS bool) *decoder {
	type encoder interface{ Encode() ([]byte, error) }
	kind := map[bool]string{true: "hs", false: "msg"}
	return &decoder{
		name: "createdec:" + w.proto + ":" + kind[offeredHS] + "_bytes",
		decode: func(in []byte) (any, error) {
			m, err := w.v.Decode(in, s.p, s.inbound)
			wantHS := w.expectHandshake(s)
			c.Count("createdec_decodes", 1)
			cross := ""
			switch {
			case offeredHS && !wantHS:
				cross = "createdec_cross:hs_bytes_after_handshake"
			case !offeredHS && wantHS:
				cross = "createdec_cross:msg_bytes_before_handshake"
			}
			if err != nil {
				if cross != "" {
					c.Count(cross+":rejected", 1)
					c.Count("createdec_cross_offers", 1)
				}
				return nil, err
			}
			if cross != "" {
				c.Count(cross+":accepted_by_other_decoder", 1)
				c.Count("createdec_cross_offers", 1)
			}
			want := w.msgType
			if wantHS {
				want = w.hsType
				c.Count("createdec_chose_handshake", 1)
			} else {
				c.Count("createdec_chose_message", 1)
			}
			if got := reflect.TypeOf(m); got != want && len(w.wrong) < 3 {
				w.wrong = append(w.wrong, fmt.Sprintf("peer %s %s state %s: result type %v, the state dictates %v (input %s)",
					s.p, cdDir(s.inbound), cdStateNames[w.model[s]], got, want, wire.Hx(in)))
			}
			return m, nil
		},
		encode: func(m any) ([]byte, error) { return m.(encoder).Encode() },
		valid:  cdGen(w.proto, offeredHS),
	}
}

func (w *cdWorld) witness(s cdSlot, in []byte) map[string]any {
	states := map[string]string{}
	for k, st := range w.model {
		states[string(k.p)+"/"+cdDir(k.inbound)] = cdStateNames[st]
	}
	return map[string]any{"protocol": w.proto, "peer": string(s.p), "inbound": s.inbound, "states": states, "input": wire.Hx(in)}
}

func (w *cdWorld) reportWrong(c *vcommon.Case, s cdSlot) {
	for _, m := range w.wrong {
		c.Violation("decoder-choice", "createDecoder used the wrong decoder: "+m, w.witness(s, nil))
	}
	w.wrong = nil
}

// diff: the closure's answer for slot s must be the answer of the decoder the state dictates.
func (w *cdWorld) diff(c *vcommon.Case, s cdSlot, in []byte) {
	c.Eval(1)
	c.Count("createdec_diff_checks", 1)
	wantHS := w.expectHandshake(s)
	m1, e1 := w.v.Decode(append([]byte{}, in...), s.p, s.inbound)
	m2, e2 := w.v.Direct(wantHS, append([]byte{}, in...))
	which := map[bool]string{true: "handshake", false: "message"}[wantHS]
	if (e1 == nil) != (e2 == nil) {
		c.Violation("decoder-choice", fmt.Sprintf("%s peer %s %s in state %s: combined decoder err=%v, the %s decoder err=%v",
			w.proto, s.p, cdDir(s.inbound), cdStateNames[w.model[s]], e1, which, e2), w.witness(s, in))
		return
	}
	if e1 != nil {
		c.Count("createdec_diff_both_reject", 1)
		return
	}
	c.Count("createdec_diff_both_accept", 1)
	if reflect.TypeOf(m1) != reflect.TypeOf(m2) || !eqv(reflect.ValueOf(m1), reflect.ValueOf(m2)) {
		c.Violation("decoder-choice", fmt.Sprintf("%s peer %s %s in state %s: combined decoder gave %T %+v, the %s decoder %T %+v",
			w.proto, s.p, cdDir(s.inbound), cdStateNames[w.model[s]], m1, m1, which, m2, m2), w.witness(s, in))
	}
}

// sampleInputs: valid encodings of both kinds and a few mutants of each.
func cdSampleInputs(r *vcommon.Rand, proto string, n int) [][]byte {
	var out [][]byte
	for i := 0; i < n; i++ {
		v := cdGen(proto, r.Bool())(r)
		switch r.Intn(4) {
		case 0:
			if len(v) > 0 {
				v = append([]byte{}, v...)
				v[r.Intn(len(v))] ^= 1 << uint(r.Intn(8))
			}
		case 1:
			v = v[:r.Intn(len(v)+1)]
		}
		out = append(out, v)
	}
	return out
}

func createDecoderGroups(r *vcommon.Run) {
	r.Floor("createdec_decodes", 5000)
	r.Floor("createdec_chose_handshake", 500)
	r.Floor("createdec_chose_message", 500)
	r.Floor("createdec_diff_checks", 2000)
	r.Floor("createdec_diff_both_accept", 300)
	r.Floor("createdec_diff_both_reject", 100)
	r.Floor("createdec_cross_offers", 500)
	r.Floor("createdec_transitions", 100)
	r.Floor("createdec_isolation_checks", 300)
	for _, st := range cdStateNames {
		r.Floor("createdec_state:"+st, 20)
	}
	r.Floor("createdec_dir:in", 40)
	r.Floor("createdec_dir:out", 40)
	for _, p := range cdProtos {
		r.Floor("createdec_proto:"+p, 40)
		r.Floor("createdec_roundtrip_handshake:"+p, 20)
		r.Floor("createdec_roundtrip_message:"+p, 20)
	}

	// every (protocol, direction, state, offered kind) once, on a fresh protocol record holding only that entry
	nFixed := len(cdProtos) * 2 * network.VerifHsStates * 2
	r.Fixed("createdec-corpus", nFixed, func(c *vcommon.Case) {
		i := c.Idx
		proto := cdProtos[i%3]
		i /= 3
		inbound := i%2 == 0
		i /= 2
		st := i % network.VerifHsStates
		offeredHS := i/network.VerifHsStates == 0
		w := newCdWorld(proto)
		s := cdSlot{cdPeers[0], inbound}
		w.set(s, st)
		cdCount(c, w, s)
		d := w.decoderFor(c, s, offeredHS)
		beginCase()
		rr := vcommon.NewRand(uint64(c.Idx) + 7)
		for k := 0; k < 4; k++ {
			in := d.valid(rr)
			ok := probe(c, d, "corpus", in)
			cdRoundtrip(c, w, s, ok)
			w.diff(c, s, in)
		}
		flushHeld(c)
		w.reportWrong(c, s)
		// the other table of the same peer and another peer hold nothing: handshake decoder
		for _, o := range []cdSlot{{cdPeers[0], !inbound}, {cdPeers[1], inbound}, {cdPeers[1], !inbound}} {
			for _, in := range cdSampleInputs(rr, proto, 4) {
				w.diff(c, o, in)
				c.Count("createdec_isolation_checks", 1)
			}
		}
		c.Distinct(fmt.Sprintf("createdec-corpus|%s|%s|%s|%v", proto, cdDir(inbound), cdStateNames[st], offeredHS))
		c.Sample(map[string]any{"protocol": proto, "direction": cdDir(inbound), "state": cdStateNames[st],
			"offered_handshake_bytes": offeredHS, "handshake_decoder_expected": w.expectHandshake(s)})
	})

	r.Cases("createdec", r.Scale(len(cdProtos)*nModes*network.VerifHsStates*2), func(c *vcommon.Case) {
		i := c.Idx
		proto := cdProtos[i%3]
		i /= 3
		mode := i % nModes
		i /= nModes
		st := i % network.VerifHsStates
		offeredHS := (i/network.VerifHsStates)%2 == 0
		w := newCdWorld(proto)
		// all six (peer, direction) slots get a state; the target slot gets the case's
		for _, p := range cdPeers {
			for _, in := range []bool{true, false} {
				w.set(cdSlot{p, in}, c.R.Intn(network.VerifHsStates))
			}
		}
		s := cdSlot{vcommon.Pick(c.R, cdPeers), c.R.Bool()}
		w.set(s, st)
		cdCount(c, w, s)
		d := w.decoderFor(c, s, offeredHS)
		before := accepted
		beginCase()
		runMode(c, d, mode)
		flushHeld(c)
		w.reportWrong(c, s)
		for _, in := range cdSampleInputs(c.R, proto, 12) {
			w.diff(c, s, in)
		}
		// the peer moves on (handshake arrives / stream closed and its entry deleted / re-opened) while
		// other slots change too; the SAME closure must follow
		for k, n := 0, c.R.Range(2, 4); k < n; k++ {
			was := w.expectHandshake(s)
			nst := c.R.Intn(network.VerifHsStates)
			w.set(s, nst)
			o := cdSlot{vcommon.Pick(c.R, cdPeers), c.R.Bool()}
			if o != s {
				w.set(o, c.R.Intn(network.VerifHsStates))
			}
			c.Count("createdec_transitions", 1)
			if was != w.expectHandshake(s) {
				c.Count("createdec_transitions_changing_decoder", 1)
			}
			cdCount(c, w, s)
			for j := 0; j < 3; j++ {
				ok := probe(c, d, "after_transition", d.valid(c.R))
				cdRoundtrip(c, w, s, ok)
			}
			flushHeld(c)
			w.reportWrong(c, s)
			for _, in := range cdSampleInputs(c.R, proto, 6) {
				w.diff(c, s, in)
			}
			// every other slot answers by its own state
			for _, p := range cdPeers {
				for _, inb := range []bool{true, false} {
					if q := (cdSlot{p, inb}); q != s {
						w.diff(c, q, cdSampleInputs(c.R, proto, 1)[0])
						c.Count("createdec_isolation_checks", 1)
					}
				}
			}
		}
		c.Distinct(fmt.Sprintf("createdec|%s|%s|%s|%s|%v|%d", proto, modeNames[mode], cdDir(s.inbound), cdStateNames[st],
			offeredHS, bitsLen(accepted-before)))
	})
}

func bitsLen(n int) int {
	l := 0
	for ; n > 0; n >>= 1 {
		l++
	}
	return l
}

func cdCount(c *vcommon.Case, w *cdWorld, s cdSlot) {
	c.Count("createdec_state:"+cdStateNames[w.model[s]], 1)
	c.Count("createdec_dir:"+cdDir(s.inbound), 1)
	c.Count("createdec_proto:"+w.proto, 1)
}

// cdRoundtrip counts accepted (hence round-tripped by probe) results per decoder the state selected.
func cdRoundtrip(c *vcommon.Case, w *cdWorld, s cdSlot, ok bool) {
	if !ok {
		return
	}
	if w.expectHandshake(s) {
		c.Count("createdec_roundtrip_handshake:"+w.proto, 1)
	} else {
		c.Count("createdec_roundtrip_message:"+w.proto, 1)
	}
}
