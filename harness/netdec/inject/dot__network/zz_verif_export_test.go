//go:build verif

package network

// Exports of the unexported peer-input decoders for the external test package
// network_test (zz_verif_c33_test.go). Test-only, compiled only with -tags verif.
var (
	VerifDecodeBlockAnnounceMessage   = decodeBlockAnnounceMessage
	VerifDecodeBlockAnnounceHandshake = decodeBlockAnnounceHandshake
	VerifDecodeTransactionMessage     = decodeTransactionMessage
	VerifDecodeTransactionHandshake   = decodeTransactionHandshake
	VerifDecodeSyncMessage            = decodeSyncMessage
	VerifDecodeWarpSyncMessage        = decodeWarpSyncMessage
	VerifNewLightRequestFromBytes     = newLightRequestFromBytes
	VerifNewLightResponseFromBytes    = newLightResponseFromBytes
)
