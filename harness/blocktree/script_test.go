//go:build verif

package blocktree_test

// History scripts, header construction and the monitors that compare the real
// lib/blocktree.BlockTree with the Tree model after every operation.

import (
	"bytes"
	"errors"
	"fmt"
	"io"
	"sort"
	"strings"
	"time"

	"github.com/ChainSafe/gossamer/dot/types"
	"github.com/ChainSafe/gossamer/internal/log"
	"github.com/ChainSafe/gossamer/lib/blocktree"
	"github.com/ChainSafe/gossamer/lib/common"
	"github.com/ChainSafe/gossamer/lib/crypto/sr25519"
	"github.com/ChainSafe/gossamer/zz_verif/vcommon"
)

func init() {
	// Prune logs a warning per call ("no runtimes in the mapping"); keep shard logs small.
	log.Patch(log.SetWriter(io.Discard), log.SetLevel(log.Critical))
}

// three arrival instants only, so that arrival ties are the norm; the first two
// differ by one nanosecond (a comparison at second granularity would tie them)
var arrivalSet = []time.Time{
	time.Unix(1_700_000_000, 0),
	time.Unix(1_700_000_000, 1),
	time.Unix(1_700_000_001, 0),
}

// arrivalOf returns the arrival instant number arr; blocks with odd labels get
// it in another time zone: the same instant with a different representation
// (instants must be compared, not time.Time structs).
func arrivalOf(arr, id int) time.Time {
	if id%2 == 1 {
		return arrivalSet[arr].In(time.FixedZone("verif", 3600))
	}
	return arrivalSet[arr].UTC()
}

const (
	markPrimary  = 0
	markSecPlain = 1
	markSecVRF   = 2
)

type op struct {
	Op     string `json:"op"`            // add | prune | bad
	ID     int    `json:"id"`            // add: label of the new block; prune: label of the finalised block
	Parent int    `json:"parent"`        // add: label of the parent block (0 = initial root)
	Mark   int    `json:"mark"`          // 0 primary, 1 secondary plain, 2 secondary VRF
	Arr    int    `json:"arr"`           // index into arrivalSet
	Bad    string `json:"bad,omitempty"` // kind of request that must be refused
}

type hist struct {
	RootNumber uint `json:"root_number"`
	Ops        []op `json:"ops"`
}

func (h *hist) String() string {
	var sb strings.Builder
	fmt.Fprintf(&sb, "root#%d:", h.RootNumber)
	for _, o := range h.Ops {
		switch o.Op {
		case "add":
			fmt.Fprintf(&sb, " +%d<%d%c%d", o.ID, o.Parent, "PsV"[o.Mark], o.Arr)
		case "prune":
			fmt.Fprintf(&sb, " F%d", o.ID)
		default:
			fmt.Fprintf(&sb, " !%s(%d,%d)", o.Bad, o.ID, o.Parent)
		}
	}
	return sb.String()
}

// babeDigest builds a header digest whose first item is a real BABE
// pre-runtime digest of the requested kind (that is what types.IsPrimary reads).
func babeDigest(mark int, id int, number uint) types.Digest {
	var out [sr25519.VRFOutputLength]byte
	var proof [sr25519.VRFProofLength]byte
	out[0], proof[0] = byte(id), byte(id>>8)
	slot := uint64(1000 + number)
	auth := uint32(id % 5)
	var prd *types.PreRuntimeDigest
	var err error
	switch mark {
	case markPrimary:
		prd, err = types.NewBabePrimaryPreDigest(auth, slot, out, proof).ToPreRuntimeDigest()
	case markSecPlain:
		prd, err = types.NewBabeSecondaryPlainPreDigest(auth, slot).ToPreRuntimeDigest()
	default:
		prd, err = types.NewBabeSecondaryVRFPreDigest(auth, slot, out, proof).ToPreRuntimeDigest()
	}
	if err != nil {
		panic(err)
	}
	d := types.NewDigest()
	if err := d.Add(*prd); err != nil {
		panic(err)
	}
	if id%2 == 1 { // a seal after the pre-digest, as on real blocks
		if err := d.Add(types.SealDigest{ConsensusEngineID: types.BabeEngineID, Data: bytes.Repeat([]byte{byte(id)}, 64)}); err != nil {
			panic(err)
		}
	}
	return d
}

func mkHeader(parent common.Hash, number uint, id int, mark int) *types.Header {
	h := &types.Header{
		ParentHash: parent,
		Number:     number,
		StateRoot:  common.Hash{byte(id), byte(id >> 8), byte(id >> 16), 0x5a},
		Digest:     babeDigest(mark, id, number),
	}
	h.Hash()
	return h
}

// badDigestKinds are the additions that pass the parent / duplicate / number
// checks of AddBlock and must be refused by the slot-type check alone.
var badDigestKinds = []string{"no-digest", "first-digest-not-preruntime", "malformed-predigest"}

// mkBadDigestHeader builds a child of parent whose digest types.IsPrimary refuses.
func mkBadDigestHeader(kind string, parent common.Hash, number uint, id int) *types.Header {
	d := types.NewDigest()
	switch kind {
	case "no-digest":
	case "first-digest-not-preruntime":
		// a seal first, the (valid, primary) BABE pre-digest only second
		if err := d.Add(types.SealDigest{ConsensusEngineID: types.BabeEngineID, Data: bytes.Repeat([]byte{byte(id)}, 64)}); err != nil {
			panic(err)
		}
		good := babeDigest(markPrimary, id-id%2, number) // even label: no seal appended
		d = append(d, good...)
	case "malformed-predigest":
		data := []byte{0x09, 0xff, byte(id)} // no such BABE pre-digest variant
		if id%2 == 1 {
			data = []byte{0x00}
		}
		if err := d.Add(types.PreRuntimeDigest{ConsensusEngineID: types.BabeEngineID, Data: data}); err != nil {
			panic(err)
		}
	default:
		panic("generator error: bad digest kind " + kind)
	}
	h := &types.Header{
		ParentHash: parent,
		Number:     number,
		StateRoot:  common.Hash{byte(id), byte(id >> 8), byte(id >> 16), 0xbd},
		Digest:     d,
	}
	h.Hash()
	return h
}

type env struct {
	c    *vcommon.Case
	h    *hist
	bt   *blocktree.BlockTree
	m    *Tree
	byID map[int]*mBlock
	hdr  map[int]*types.Header
	dead []*mBlock
	step int

	structural bool // C15 oracle
	forkChoice bool // C16 oracle
	checkAdds  bool // run the oracles after add operations too (always after prune / bad)
	pairBudget int  // max ordered pairs per structural check (0 = all)
	viol       int
	refused    int // additions refused so far in this history
	lastBest   common.Hash
	probeCopy  bool   // also look at DeepCopy().BestBlockHash() (observation counter only, see NOTES.md)
	note       string // context added to witnesses (e.g. which insertion order of which tree)
}

func newEnv(c *vcommon.Case, rootNumber uint) *env {
	h := &hist{RootNumber: rootNumber}
	e := &env{c: c, h: h, byID: map[int]*mBlock{}, hdr: map[int]*types.Header{}, checkAdds: true}
	var root *types.Header
	if h.RootNumber == 0 {
		root = &types.Header{Number: 0, StateRoot: common.Hash{0xee}, Digest: types.NewDigest()}
	} else {
		root = mkHeader(common.Hash{0xaa, 0xbb}, h.RootNumber, 0, markPrimary)
	}
	e.hdr[0] = root
	rb := &mBlock{id: 0, hash: root.Hash(), number: h.RootNumber, primary: h.RootNumber != 0}
	e.byID[0] = rb
	e.m = newTree(rb)
	e.bt = blocktree.NewBlockTreeFromRoot(root)
	return e
}

func (e *env) name(h common.Hash) string {
	for id, b := range e.byID {
		if b.hash == h {
			return fmt.Sprintf("#%d", id)
		}
	}
	return "?" + h.Short()
}

// idOf returns the label of a live block (the root's label if h is not in the model).
func (e *env) idOf(h common.Hash) int {
	if b := e.m.get(h); b != nil {
		return b.id
	}
	return e.m.root.id
}

func (e *env) names(hs []common.Hash) string {
	out := make([]string, len(hs))
	for i, h := range hs {
		out[i] = e.name(h)
	}
	sort.Strings(out)
	return strings.Join(out, ",")
}

func (e *env) mnames(bs []*mBlock) string {
	hs := make([]common.Hash, len(bs))
	for i, b := range bs {
		hs[i] = b.hash
	}
	return e.names(hs)
}

func (e *env) violation(class, msg string) {
	e.viol++
	if e.viol > 6 { // one broken history explains itself with its first few refutations
		return
	}
	w := map[string]any{"history": e.h.String(), "hist": e.h, "step": e.step}
	if e.step < len(e.h.Ops) {
		w["op"] = e.h.Ops[e.step]
	}
	if e.note != "" {
		w["note"] = e.note
	}
	e.c.Violation(class, fmt.Sprintf("step %d: %s", e.step, msg), w)
}

// sameSet compares a hash list returned by the implementation with model blocks.
func (e *env) sameSet(class, what string, got []common.Hash, want []*mBlock) bool {
	e.c.Eval(1)
	seen := map[common.Hash]int{}
	for _, h := range got {
		seen[h]++
	}
	ok := len(seen) == len(want)
	for _, b := range want {
		if seen[b.hash] == 0 {
			ok = false
		}
	}
	if !ok {
		e.violation(class, fmt.Sprintf("%s = {%s}, model {%s}", what, e.names(got), e.mnames(want)))
		return false
	}
	if len(got) != len(seen) {
		e.violation(class+"-duplicate", fmt.Sprintf("%s lists a block more than once: %s", what, e.names(got)))
		return false
	}
	return true
}

func samePath(got []common.Hash, want []*mBlock) bool {
	if len(got) != len(want) {
		return false
	}
	for i := range got {
		if got[i] != want[i].hash {
			return false
		}
	}
	return true
}

func (e *env) mpathStr(bs []*mBlock) string {
	out := make([]string, len(bs))
	for i, b := range bs {
		out[i] = fmt.Sprintf("#%d", b.id)
	}
	return "[" + strings.Join(out, " ") + "]"
}

func (e *env) pathStr(hs []common.Hash) string {
	out := make([]string, len(hs))
	for i, h := range hs {
		out[i] = e.name(h)
	}
	return "[" + strings.Join(out, " ") + "]"
}

// exec appends one operation to the history, applies it to the real tree and
// to the model, and runs the oracles.
func (e *env) exec(o op) {
	if e.viol > 6 {
		return
	}
	e.h.Ops = append(e.h.Ops, o)
	e.step = len(e.h.Ops) - 1
	switch o.Op {
	case "add":
		e.doAdd(o)
		if e.checkAdds {
			e.observe()
		}
	case "prune":
		e.doPrune(o)
		e.observe()
	default:
		e.doBad(o)
		e.observe()
	}
}

// run executes a list of operations.
func (e *env) run(ops []op) {
	for _, o := range ops {
		e.exec(o)
	}
}

func (e *env) observe() {
	if e.structural {
		e.checkStructure()
	}
	if e.forkChoice {
		e.checkBest()
	}
}

func (e *env) doAdd(o op) {
	p := e.byID[o.Parent]
	if p == nil || e.m.get(p.hash) != p {
		panic(fmt.Sprintf("generator error: parent %d not live at step %d", o.Parent, e.step))
	}
	hd := mkHeader(p.hash, p.number+1, o.ID, o.Mark)
	b := &mBlock{id: o.ID, hash: hd.Hash(), parent: p, number: p.number + 1, primary: o.Mark == markPrimary,
		arrival: arrivalOf(o.Arr, o.ID), seq: e.step}
	if old := e.byID[o.ID]; old != nil {
		panic(fmt.Sprintf("generator error: label %d reused", o.ID))
	}
	e.c.Eval(1)
	if err := e.bt.AddBlock(hd, b.arrival); err != nil {
		e.violation("add-refused", fmt.Sprintf("AddBlock(#%d child of live #%d, mark %d) = %v", o.ID, o.Parent, o.Mark, err))
		return
	}
	e.byID[o.ID], e.hdr[o.ID] = b, hd
	e.m.add(b)
	e.c.Count("adds", 1)
	e.c.Count([]string{"adds_primary", "adds_secondary_plain", "adds_secondary_vrf"}[o.Mark], 1)
}

// adjacentPrunedSiblings counts parents that have two consecutive (in insertion
// order) children both outside the finalised chain/subtree: the exact shape in
// which removing a child while iterating the sibling list goes wrong.
func (e *env) adjacentPrunedSiblings(f *mBlock, pruned []*mBlock) (adjacent, afterPruned, maxFan int) {
	isPruned := map[*mBlock]bool{}
	for _, b := range pruned {
		isPruned[b] = true
	}
	kids := map[*mBlock][]*mBlock{}
	for _, b := range e.m.live {
		if b != e.m.root {
			kids[b.parent] = append(kids[b.parent], b)
		}
	}
	for _, ks := range kids {
		sort.Slice(ks, func(i, j int) bool { return ks[i].seq < ks[j].seq })
		for _, k := range ks {
			if isPruned[k] && len(ks) > maxFan {
				maxFan = len(ks)
			}
		}
		for i := 1; i < len(ks); i++ {
			if isPruned[ks[i-1]] && isPruned[ks[i]] {
				adjacent++
			}
			if isPruned[ks[i-1]] && !isPruned[ks[i]] {
				afterPruned++ // the kept (ancestor / finalised) child follows a pruned sibling
			}
		}
	}
	return adjacent, afterPruned, maxFan
}

func (e *env) doPrune(o op) {
	f := e.byID[o.ID]
	if f == nil || e.m.get(f.hash) != f {
		panic(fmt.Sprintf("generator error: prune target %d not live at step %d", o.ID, e.step))
	}
	oldLive := e.m.sorted()
	wasRoot := f == e.m.root
	var want []*mBlock
	if !wasRoot {
		// coverage accounting needs the pre-finalisation tree
		tmp := &Tree{root: e.m.root, live: e.m.live}
		var pr []*mBlock
		for _, x := range oldLive {
			if !tmp.isAncestor(x, f) && !tmp.isAncestor(f, x) {
				pr = append(pr, x)
			}
		}
		adj, after, fan := e.adjacentPrunedSiblings(f, pr)
		e.c.Count("prune_adjacent_pruned_siblings", adj)
		e.c.Count("prune_kept_child_after_pruned_sibling", after)
		if fan >= 8 {
			e.c.Count("prunes_in_sibling_fan_of_8_or_more", 1)
		}
		if d := len(tmp.chain(f)) - 1; d >= 4 {
			e.c.Count("prunes_of_block_4_or_more_below_root", 1)
		}
		want = e.m.finalise(f)
	}
	got := e.bt.Prune(f.hash)
	e.c.Count("prunes", 1)
	if e.refused > 0 {
		e.c.Count("prunes_after_refused_add", 1)
	}
	e.c.Count("pruned_blocks", len(want))
	if len(want) == 0 {
		e.c.Count("prunes_nothing_to_prune", 1)
	}
	if e.structural {
		e.sameSet("Prune", fmt.Sprintf("Prune(#%d)", f.id), got, want)
	}
	for _, x := range oldLive {
		if e.m.get(x.hash) == nil {
			e.dead = append(e.dead, x)
		}
	}
}

// snapshot is the cheap part of the observable state, taken around every
// addition that must be refused (the full comparison with the model follows in observe).
func (e *env) snapshot() string {
	all := e.bt.GetAllBlocks()
	ls := e.bt.Leaves()
	return fmt.Sprintf("blocks{%s} leaves{%s} best %s", e.names(all), e.names(ls), e.name(e.bt.BestBlockHash()))
}

// refusedAdd calls AddBlock with a header that must be refused and checks that
// the refusal left no trace: an addition that returned an error is not an added block.
func (e *env) refusedAdd(what string, hd *types.Header, label int, wantErr error) {
	before := e.snapshot()
	err := e.bt.AddBlock(hd, arrivalSet[0])
	e.c.Eval(2)
	switch {
	case err == nil:
		e.violation("bad-add-accepted", fmt.Sprintf("AddBlock %s returned nil", what))
	case wantErr != nil && !errors.Is(err, wantErr):
		e.violation("bad-add-accepted", fmt.Sprintf("AddBlock %s = %v, want %v", what, err, wantErr))
	}
	if _, known := e.byID[label]; !known && err != nil {
		// remember the refused block: it must stay unknown to every query and to later Prunes
		rb := &mBlock{id: label, hash: hd.Hash(), number: hd.Number}
		e.byID[label] = rb
		e.dead = append(e.dead, rb)
		e.refused++
		e.c.Count("refused_blocks_tracked", 1)
	}
	if after := e.snapshot(); err != nil && after != before {
		e.violation("refused-add-changed-tree", fmt.Sprintf("AddBlock %s returned %q but the tree changed: before %s; after %s", what, err, before, after))
	}
	if err != nil {
		e.c.Count("refused_adds", 1)
	}
}

func (e *env) doBad(o op) {
	e.c.Count("bad_"+o.Bad, 1)
	e.c.Eval(1)
	switch o.Bad {
	case "no-digest", "first-digest-not-preruntime", "malformed-predigest":
		p := e.byID[o.Parent]
		if p == nil || e.m.get(p.hash) != p {
			panic(fmt.Sprintf("generator error: parent %d of refused add not live at step %d", o.Parent, e.step))
		}
		isLeaf := true
		for _, x := range e.m.live {
			if x != e.m.root && x.parent == p {
				isLeaf = false
			}
		}
		if isLeaf {
			e.c.Count("refused_adds_below_leaf", 1)
		}
		hd := mkBadDigestHeader(o.Bad, p.hash, p.number+1, 100000+o.ID)
		e.refusedAdd(fmt.Sprintf("of a %s header below live #%d", o.Bad, o.Parent), hd, 100000+o.ID, nil)
	case "unknown-parent":
		hd := mkHeader(common.Hash{0xde, 0xad, byte(o.ID)}, e.m.root.number+1, 100000+o.ID, o.Mark)
		e.refusedAdd("with unknown parent", hd, 100000+o.ID, blocktree.ErrParentNotFound)
	case "dead-parent":
		p := e.byID[o.Parent]
		hd := mkHeader(p.hash, p.number+1, 100000+o.ID, o.Mark)
		e.refusedAdd(fmt.Sprintf("below #%d (no longer in the tree)", o.Parent), hd, 100000+o.ID, blocktree.ErrParentNotFound)
	case "duplicate":
		cp := *e.hdr[o.ID] // the very same header again
		e.refusedAdd(fmt.Sprintf("of existing #%d", o.ID), &cp, o.ID, blocktree.ErrBlockExists)
	case "wrong-number":
		p := e.byID[o.Parent]
		num := p.number + 2
		if o.ID%2 == 1 {
			num = p.number // same number as the parent
		}
		hd := mkHeader(p.hash, num, 100000+o.ID, o.Mark)
		e.refusedAdd(fmt.Sprintf("below #%d with number %d (parent has %d)", o.Parent, num, p.number), hd, 100000+o.ID, nil)
	case "prune-unknown":
		if got := e.bt.Prune(common.Hash{0xde, 0xad, byte(o.ID)}); len(got) != 0 {
			e.violation("Prune", fmt.Sprintf("Prune(unknown hash) reported %s", e.names(got)))
		}
	case "prune-dead":
		if got := e.bt.Prune(e.byID[o.ID].hash); len(got) != 0 {
			e.violation("Prune", fmt.Sprintf("Prune(#%d, no longer in the tree) reported %s", o.ID, e.names(got)))
		}
	case "prune-root":
		if got := e.bt.Prune(e.m.root.hash); len(got) != 0 {
			e.violation("Prune", fmt.Sprintf("Prune(current root) reported %s", e.names(got)))
		}
	default:
		panic("generator error: bad kind " + o.Bad)
	}
}

// checkBest is the C16 oracle: BestBlockHash is the model's arg-max leaf.
func (e *env) checkBest() {
	got := e.bt.BestBlockHash()
	e.lastBest = got
	want, info := e.m.best()
	e.c.Eval(1)
	e.c.Count("best_checks", 1)
	if info.leaves == 1 {
		e.c.Count("best_single_leaf", 1)
	}
	if info.tiePrimary {
		e.c.Count("tie_on_primary_count", 1)
	}
	if info.tieHeight {
		e.c.Count("tie_on_primary_and_height", 1)
	}
	if info.tieArrival {
		e.c.Count("tie_decided_by_hash", 1)
	}
	if info.tieHeight && !info.tieArrival {
		e.c.Count("tie_decided_by_arrival", 1)
	}
	if info.tiePrimary && !info.tieHeight {
		e.c.Count("tie_decided_by_height", 1)
	}
	if info.notHighest {
		e.c.Count("best_is_not_highest_leaf", 1)
	}
	if e.probeCopy && e.step%4 == 0 {
		// DeepCopy is not used by production code and is outside C16; counted, never a verdict
		e.c.Count("deepcopy_probes", 1)
		if e.bt.DeepCopy().BestBlockHash() != got {
			e.c.Count("deepcopy_best_differs_from_original", 1)
		}
	}
	if got == want.hash {
		return
	}
	gb := e.m.get(got)
	desc := func(b *mBlock) string {
		if b == nil {
			return "not-in-tree"
		}
		return fmt.Sprintf("#%d(primaries=%d height=%d arrival=+%dns)", b.id, e.m.primaryCount(b), b.number, b.arrival.Sub(arrivalSet[0]).Nanoseconds())
	}
	isLeaf := false
	for _, l := range e.m.leaves() {
		if l == gb {
			isLeaf = true
		}
	}
	class := "best-wrong-leaf"
	if !isLeaf {
		class = "best-not-a-leaf"
	}
	e.violation(class, fmt.Sprintf("BestBlockHash = %s %s, model arg-max %s", e.name(got), desc(gb), desc(want)))
}

// checkStructure is the C15 oracle: every query of the BlockTree against the model.
func (e *env) checkStructure() {
	c, m, bt := e.c, e.m, e.bt
	live := m.sorted()
	c.Count("structure_checks", 1)
	if len(live) > 1 && len(m.leaves()) > 1 {
		c.Count("structure_checks_forked", 1)
	}

	e.sameSet("GetAllBlocks", "GetAllBlocks()", bt.GetAllBlocks(), live)
	e.sameSet("Leaves", "Leaves()", bt.Leaves(), m.leaves())

	for _, a := range live {
		d, err := bt.GetAllDescendants(a.hash)
		if err != nil {
			c.Eval(1)
			e.violation("GetAllDescendants", fmt.Sprintf("GetAllDescendants(#%d) = %v for a block of the tree", a.id, err))
			continue
		}
		e.sameSet("GetAllDescendants", fmt.Sprintf("GetAllDescendants(#%d)", a.id), d, m.descendants(a))
		c.Eval(1)
		if at, err := bt.GetArrivalTime(a.hash); a != m.root && (err != nil || !at.Equal(a.arrival)) {
			e.violation("GetArrivalTime", fmt.Sprintf("GetArrivalTime(#%d) = %v, %v", a.id, at, err))
		}
	}

	// ordered pairs
	type pair struct{ a, b *mBlock }
	var pairs []pair
	n := len(live)
	if e.pairBudget == 0 || n*n <= e.pairBudget {
		for _, a := range live {
			for _, b := range live {
				pairs = append(pairs, pair{a, b})
			}
		}
	} else {
		for i := 0; i < e.pairBudget; i++ {
			pairs = append(pairs, pair{live[c.R.Intn(n)], live[c.R.Intn(n)]})
		}
	}
	for _, p := range pairs {
		a, b := p.a, p.b
		anc := m.isAncestor(a, b)
		c.Eval(4)
		if is, err := bt.IsDescendantOf(a.hash, b.hash); err != nil || is != anc {
			e.violation("IsDescendantOf", fmt.Sprintf("IsDescendantOf(#%d, #%d) = %v, %v; parent links say %v", a.id, b.id, is, err, anc))
		}
		wl := m.lca(a, b)
		if l, err := bt.LowestCommonAncestor(a.hash, b.hash); err != nil || l != wl.hash {
			e.violation("LowestCommonAncestor", fmt.Sprintf("LowestCommonAncestor(#%d, #%d) = %s, %v; parent links say #%d", a.id, b.id, e.name(l), err, wl.id))
		}
		if wl != a && wl != b {
			c.Count("lca_proper_fork_pairs", 1)
		}
		wp := m.path(a, b)
		for _, q := range []struct {
			name string
			fn   func(common.Hash, common.Hash) ([]common.Hash, error)
		}{{"RangeInMemory", bt.RangeInMemory}, {"Range", bt.Range}} {
			got, err := q.fn(a.hash, b.hash)
			switch {
			case wp != nil:
				c.Count("range_ancestor_pairs", 1)
				if err != nil || !samePath(got, wp) {
					e.violation(q.name, fmt.Sprintf("%s(#%d, #%d) = %s, %v; parent links give %s", q.name, a.id, b.id, e.pathStr(got), err, e.mpathStr(wp)))
				}
			case a.number > b.number:
				c.Count("range_start_above_end", 1)
				if err == nil {
					e.violation(q.name, fmt.Sprintf("%s(#%d, #%d) = %s although start is higher than end", q.name, a.id, b.id, e.pathStr(got)))
				}
			default:
				// start is in the tree, not above the end, but on another fork: there is
				// no chain from start to end, so any list returned contradicts the parent links
				c.Count("range_start_not_ancestor", 1)
				if err == nil {
					e.violation(q.name+"-not-a-chain", fmt.Sprintf("%s(#%d, #%d) = %s, nil: #%d is not an ancestor of #%d, the result is not a chain of parent links",
						q.name, a.id, b.id, e.pathStr(got), a.id, b.id))
				}
			}
		}
	}

	// by-number queries
	best := bt.BestBlockHash()
	bm := m.get(best)
	lo := m.root.number
	if lo > 0 {
		lo--
	}
	top := m.maxNumber()
	for num := lo; num <= top+1; num++ {
		want := m.atNumber(num)
		if len(want) > 1 {
			c.Count("by_number_multi", 1)
		}
		if bm != nil && num > bm.number && len(want) > 0 {
			c.Count("by_number_above_best_chain_head", 1)
		}
		e.sameSet("GetHashesAtNumber", fmt.Sprintf("GetHashesAtNumber(%d)", num), bt.GetHashesAtNumber(num), want)
		if bm == nil {
			c.Count("by_number_skipped_best_unknown", 1) // C16's business
			continue
		}
		c.Eval(1)
		got, err := bt.GetHashByNumber(num)
		switch {
		case num < m.root.number:
			if !errors.Is(err, blocktree.ErrNumLowerThanRoot) {
				e.violation("GetHashByNumber", fmt.Sprintf("GetHashByNumber(%d) below root %d = %s, %v", num, m.root.number, e.name(got), err))
			}
		case num > bm.number:
			if !errors.Is(err, blocktree.ErrNumGreaterThanHighest) {
				e.violation("GetHashByNumber", fmt.Sprintf("GetHashByNumber(%d) above best head %d = %s, %v", num, bm.number, e.name(got), err))
			}
		default:
			var w *mBlock
			for _, x := range m.chain(bm) {
				if x.number == num {
					w = x
				}
			}
			if err != nil || w == nil || got != w.hash {
				e.violation("GetHashByNumber", fmt.Sprintf("GetHashByNumber(%d) = %s, %v; the chain of the best block %s has #%d there", num, e.name(got), err, e.name(best), w.id))
			}
		}
	}

	// blocks that left the tree must be unknown to every query
	if nd := len(e.dead); nd > 0 {
		leaf := m.leaves()[0]
		for k := 0; k < 3 && k < nd; k++ {
			d := e.dead[nd-1] // the block that left (or was refused) most recently, then two rotating ones
			if k > 0 {
				d = e.dead[(e.step+k*7)%nd]
			}
			c.Count("dead_block_probes", 1)
			c.Eval(6)
			if got, err := bt.GetAllDescendants(d.hash); err == nil {
				e.violation("dead-block-known", fmt.Sprintf("GetAllDescendants(#%d) = {%s} for a block that is not in the tree", d.id, e.names(got)))
			}
			if is, err := bt.IsDescendantOf(m.root.hash, d.hash); err == nil {
				e.violation("dead-block-known", fmt.Sprintf("IsDescendantOf(root, #%d) = %v, nil for a block that is not in the tree", d.id, is))
			}
			if l, err := bt.LowestCommonAncestor(d.hash, leaf.hash); err == nil {
				e.violation("dead-block-known", fmt.Sprintf("LowestCommonAncestor(#%d, leaf) = %s for a block that is not in the tree", d.id, e.name(l)))
			}
			if got, err := bt.RangeInMemory(d.hash, leaf.hash); err == nil {
				e.violation("dead-block-known", fmt.Sprintf("RangeInMemory(#%d, leaf) = %s for a block that is not in the tree", d.id, e.pathStr(got)))
			}
			if got, err := bt.Range(leaf.hash, d.hash); err == nil {
				e.violation("dead-block-known", fmt.Sprintf("Range(leaf, #%d) = %s for an end block that left the tree", d.id, e.pathStr(got)))
			}
			// documented convention of Range: unknown start => from the root
			if got, err := bt.Range(d.hash, leaf.hash); err != nil || !samePath(got, m.path(m.root, leaf)) {
				e.violation("Range", fmt.Sprintf("Range(#%d not in tree, #%d) = %s, %v; documented: root..end = %s", d.id, leaf.id, e.pathStr(got), err, e.mpathStr(m.path(m.root, leaf))))
			}
		}
	}
}

// ---------------------------------------------------------------- shapes

// parentVectors returns every p[1..n-1] with p[i] < i: each is a rooted tree
// together with a parent-first insertion order (labels = insertion times), and
// every (tree, parent-first order, sibling order) arises exactly this way.
func parentVectors(n int) [][]int {
	var out [][]int
	cur := make([]int, n)
	var rec func(i int)
	rec = func(i int) {
		if i == n {
			out = append(out, append([]int(nil), cur...))
			return
		}
		for p := 0; p < i; p++ {
			cur[i] = p
			rec(i + 1)
		}
	}
	if n >= 1 {
		rec(1)
	}
	return out
}

// canon is the AHU canonical form of the unordered rooted tree given by pv.
func canon(pv []int) string {
	kids := make([][]int, len(pv))
	for i := 1; i < len(pv); i++ {
		kids[pv[i]] = append(kids[pv[i]], i)
	}
	var enc func(v int) string
	enc = func(v int) string {
		var parts []string
		for _, k := range kids[v] {
			parts = append(parts, enc(k))
		}
		sort.Strings(parts)
		return "(" + strings.Join(parts, "") + ")"
	}
	return enc(0)
}

// shapes returns one parent vector per unordered rooted tree with n nodes.
func shapes(n int) [][]int {
	seen := map[string]bool{}
	var out [][]int
	for _, pv := range parentVectors(n) {
		k := canon(pv)
		if !seen[k] {
			seen[k] = true
			out = append(out, pv)
		}
	}
	return out
}

// linearExtensions enumerates every parent-first order of the nodes 1..n-1 of pv
// (stops after max orders when max > 0).
func linearExtensions(pv []int, max int) [][]int {
	n := len(pv)
	var out [][]int
	done := make([]bool, n)
	done[0] = true
	cur := make([]int, 0, n)
	var rec func()
	rec = func() {
		if max > 0 && len(out) >= max {
			return
		}
		if len(cur) == n-1 {
			out = append(out, append([]int(nil), cur...))
			return
		}
		for v := 1; v < n; v++ {
			if !done[v] && done[pv[v]] {
				done[v] = true
				cur = append(cur, v)
				rec()
				cur = cur[:len(cur)-1]
				done[v] = false
			}
		}
	}
	rec()
	return out
}

// randomExtension draws one parent-first order.
func randomExtension(r *vcommon.Rand, pv []int) []int {
	n := len(pv)
	done := make([]bool, n)
	done[0] = true
	out := make([]int, 0, n-1)
	for len(out) < n-1 {
		var avail []int
		for v := 1; v < n; v++ {
			if !done[v] && done[pv[v]] {
				avail = append(avail, v)
			}
		}
		v := avail[r.Intn(len(avail))]
		done[v] = true
		out = append(out, v)
	}
	return out
}

// randomTree draws a parent vector with n nodes; style steers towards wide
// sibling fans, deep chains or uniform attachment.
func randomTree(r *vcommon.Rand, n int) []int {
	pv := make([]int, n)
	style := r.Intn(4)
	hubs := []int{0}
	for i := 1; i < n; i++ {
		switch {
		case style == 0 || (style == 3 && r.Chance(1, 2)): // fans around a few hubs
			if r.Chance(1, 6) {
				hubs = append(hubs, r.Intn(i))
			}
			pv[i] = hubs[r.Intn(len(hubs))]
		case style == 1: // long chains with occasional forks
			if r.Chance(3, 4) {
				pv[i] = i - 1
			} else {
				pv[i] = r.Intn(i)
			}
		default:
			pv[i] = r.Intn(i)
		}
	}
	return pv
}

func addOps(pv []int, order []int, mark, arr []int) []op {
	ops := make([]op, 0, len(order))
	for _, v := range order {
		ops = append(ops, op{Op: "add", ID: v, Parent: pv[v], Mark: mark[v], Arr: arr[v]})
	}
	return ops
}

func identityOrder(n int) []int {
	o := make([]int, 0, n)
	for i := 1; i < n; i++ {
		o = append(o, i)
	}
	return o
}

// strictDescendants of f in pv.
func strictDescendants(pv []int, f int) []int {
	var out []int
	for v := 1; v < len(pv); v++ {
		for x := v; x != 0; x = pv[x] {
			if pv[x] == f {
				out = append(out, v)
				break
			}
		}
	}
	return out
}
