//go:build verif

package blocktree_test

import (
	"fmt"
	"sort"
	"testing"

	"github.com/ChainSafe/gossamer/lib/common"
	"github.com/ChainSafe/gossamer/zz_verif/vcommon"
)

func c16Corpus() []namedHist {
	P, S, V := markPrimary, markSecPlain, markSecVRF
	return []namedHist{
		// more primaries beats a longer secondary-only fork
		{"primaries-beat-height", 0, []op{add(1, 0, P, 2), add(2, 1, P, 2), add(3, 0, S, 0), add(4, 3, V, 0), add(5, 4, S, 0), add(6, 5, V, 0)}},
		// same primary count: the higher leaf wins although it arrived later
		{"height-breaks-primary-tie", 0, []op{add(1, 0, P, 0), add(2, 0, P, 2), add(3, 2, S, 2)}},
		// same primary count and height: the earlier arrival wins
		{"arrival-breaks-height-tie", 0, []op{add(1, 0, P, 1), add(2, 0, P, 0), add(3, 0, P, 2)}},
		{"arrival-breaks-height-tie-reversed", 0, []op{add(3, 0, P, 2), add(2, 0, P, 0), add(1, 0, P, 1)}},
		// everything equal: the lower hash wins, whatever the insertion order
		{"hash-breaks-full-tie", 0, []op{add(1, 0, P, 1), add(2, 0, P, 1), add(3, 0, P, 1), add(4, 0, P, 1)}},
		{"hash-breaks-full-tie-reversed", 0, []op{add(4, 0, P, 1), add(3, 0, P, 1), add(2, 0, P, 1), add(1, 0, P, 1)}},
		{"all-secondary", 9, []op{add(1, 0, S, 1), add(2, 0, V, 1), add(3, 1, S, 0), add(4, 2, V, 0)}},
		// primaries on the finalised chain stop counting for nobody in particular; the choice after
		// a finalisation is made among the surviving leaves only
		{"choice-after-finalisation", 0, []op{add(1, 0, P, 0), add(2, 1, P, 0), add(3, 2, P, 0), add(4, 0, S, 0), add(5, 4, S, 0),
			add(6, 5, S, 1), add(7, 5, S, 0), fin(5), add(8, 6, P, 2), add(9, 7, S, 0), add(10, 9, S, 0)}},
		// a refused block (valid parent and number, no usable BABE pre-digest) below the best leaf must not become best
		{"refused-block-must-not-become-best", 0, []op{add(1, 0, P, 0), add(2, 1, P, 0), add(3, 0, S, 0), bad("no-digest", 70, 2),
			bad("first-digest-not-preruntime", 71, 2), bad("malformed-predigest", 72, 3), bad("no-digest", 73, 0), add(4, 3, S, 1), bad("malformed-predigest", 74, 4),
			fin(3), bad("no-digest", 75, 4), add(5, 4, P, 0)}},
		{"root-only", 0, []op{bad("prune-root", 0, 0)}},
		{"chain-then-finalise-tip", 0, []op{add(1, 0, P, 0), add(2, 1, S, 0), fin(2)}},
	}
}

func c16Floors(r *vcommon.Run) {
	r.Floor("best_checks", 5000)
	r.Floor("tie_on_primary_count", 1000)
	r.Floor("tie_decided_by_height", 300)
	r.Floor("tie_decided_by_arrival", 300)
	r.Floor("tie_decided_by_hash", 300)
	r.Floor("best_is_not_highest_leaf", 300)
	r.Floor("insertion_orders", 1000)
	r.Floor("trees_with_several_orders", 100)
	r.Floor("best_checks_after_finalisation", 300)
	r.Floor("refused_adds", 500)
	r.Floor("refused_adds_below_leaf", 200)
}

// marked tree: shape + per-node mark and arrival; the block hashes depend on
// these only, never on the insertion order
type markedTree struct {
	pv        []int
	mark, arr []int
	root      uint
}

func (mt *markedTree) key() string { return fmt.Sprint(canonMarked(mt), mt.root) }

// canonMarked: canonical form of the marked unordered tree (for Distinct).
func canonMarked(mt *markedTree) string {
	kids := make([][]int, len(mt.pv))
	for i := 1; i < len(mt.pv); i++ {
		kids[mt.pv[i]] = append(kids[mt.pv[i]], i)
	}
	var enc func(v int) string
	enc = func(v int) string {
		var parts []string
		for _, k := range kids[v] {
			parts = append(parts, enc(k))
		}
		sort.Strings(parts)
		s := "("
		if v != 0 {
			s += fmt.Sprintf("%d%d", mt.mark[v], mt.arr[v])
		}
		for _, p := range parts {
			s += p
		}
		return s + ")"
	}
	return enc(0)
}

// checkOrders adds the marked tree in each of the given parent-first orders on
// a fresh BlockTree; BestBlockHash is compared with the model after every
// addition, and the final choice must be the same for all orders. For the
// first pruneOrders orders every node is then finalised (on a fresh tree) and
// the choice re-checked, also after further additions.
func checkOrders(c *vcommon.Case, mt *markedTree, orders [][]int, pruneOrders int) {
	n := len(mt.pv)
	var first common.Hash
	var firstOrder []int
	if len(orders) > 1 {
		c.Count("trees_with_several_orders", 1)
	}
	for oi, ord := range orders {
		adds := addOps(mt.pv, ord, mt.mark, mt.arr)
		e := newEnv(c, mt.root)
		e.forkChoice = true
		e.probeCopy = oi == 0 && n > 8
		e.note = fmt.Sprintf("insertion order %d of %d", oi+1, len(orders))
		e.run(adds)
		c.Count("insertion_orders", 1)
		if e.viol > 0 {
			return
		}
		if oi < 2 {
			// additions that must be refused: below the current best leaf (a trace would outgrow it) and elsewhere
			best := e.lastBest
			for i, kind := range badDigestKinds {
				e.exec(bad(kind, n+20+i, e.idOf(best)))
				e.exec(bad(kind, n+30+i, (oi+i)%n))
			}
			if e.viol > 0 {
				return
			}
			if e.lastBest != best {
				e.violation("refused-add-changed-best", "refused additions changed BestBlockHash")
				return
			}
		}
		if oi == 0 {
			first, firstOrder = e.lastBest, ord
		} else {
			c.Eval(1)
			if e.lastBest != first {
				e.violation("order-dependent", fmt.Sprintf("same blocks, insertion order %v chooses %s, insertion order %v chose %s",
					ord, e.name(e.lastBest), firstOrder, e.name(first)))
				return
			}
		}
		if oi >= pruneOrders || n < 2 {
			continue
		}
		for f := 1; f < n; f++ {
			e := newEnv(c, mt.root)
			e.forkChoice, e.checkAdds = true, false
			e.note = fmt.Sprintf("insertion order %d of %d, then finalise #%d", oi+1, len(orders), f)
			e.run(adds)
			e.exec(fin(f))
			c.Count("best_checks_after_finalisation", 1)
			e.checkAdds = true
			// new blocks after the finalisation: one below the new root, one below a surviving leaf
			e.exec(bad(badDigestKinds[(f+oi)%3], n+40, e.idOf(e.lastBest)))
			e.exec(add(n, f, (f+oi)%3, (f+2*oi)%3))
			c.Count("best_checks_after_finalisation", 1)
			ls := e.m.leaves()
			l := ls[(f+oi)%len(ls)]
			e.exec(add(n+1, l.id, (f+oi+1)%3, (oi)%3))
			c.Count("best_checks_after_finalisation", 1)
			if e.viol > 0 {
				return
			}
		}
	}
}

type exhItem struct {
	pv      []int
	from    int // first assignment index (exhaustive part) or -1 for sampled assignments
	count   int
	sampled bool
}

func c16ExhItems(thorough bool) []exhItem {
	var items []exhItem
	pow9 := func(k int) int {
		p := 1
		for i := 0; i < k; i++ {
			p *= 9
		}
		return p
	}
	// n <= 4: every assignment of (mark, arrival) in {P,s,V} x {0,1,2} to every non-root node
	for n := 2; n <= 4; n++ {
		for _, pv := range shapes(n) {
			total := pow9(n - 1)
			for from := 0; from < total; from += 243 {
				cnt := 243
				if from+cnt > total {
					cnt = total - from
				}
				items = append(items, exhItem{pv: pv, from: from, count: cnt})
			}
		}
	}
	// n = 5, 6 (7 in the thorough tier): sampled assignments, every insertion order
	for _, pv := range shapes(5) {
		for k := 0; k < 4; k++ {
			items = append(items, exhItem{pv: pv, count: 12, sampled: true})
		}
	}
	for _, pv := range shapes(6) {
		for k := 0; k < 3; k++ {
			items = append(items, exhItem{pv: pv, count: 6, sampled: true})
		}
	}
	if thorough {
		for _, pv := range shapes(7) {
			for k := 0; k < 4; k++ {
				items = append(items, exhItem{pv: pv, count: 5, sampled: true})
			}
		}
	}
	return items
}

func sampleMarks(r *vcommon.Rand, n int) (mark, arr []int) {
	mark, arr = make([]int, n), make([]int, n)
	mm, am := r.Intn(4), r.Intn(3)
	for i := 1; i < n; i++ {
		switch mm {
		case 0:
			mark[i] = r.Intn(3)
		case 1:
			mark[i] = markPrimary
		case 2:
			mark[i] = 1 + r.Intn(2)
		default:
			if r.Chance(1, 4) {
				mark[i] = markPrimary
			} else {
				mark[i] = 1 + r.Intn(2)
			}
		}
		switch am {
		case 0:
			arr[i] = r.Intn(3)
		case 1:
			arr[i] = 1
		default:
			arr[i] = r.Intn(2)
		}
	}
	return mark, arr
}

func exhC16(c *vcommon.Case, it exhItem) {
	n := len(it.pv)
	orders := linearExtensions(it.pv, 0)
	for k := 0; k < it.count; k++ {
		mt := &markedTree{pv: it.pv, root: uint(3 * (k % 2))}
		if it.sampled {
			mt.mark, mt.arr = sampleMarks(c.R, n)
		} else {
			mt.mark, mt.arr = make([]int, n), make([]int, n)
			a := it.from + k
			for i := 1; i < n; i++ {
				d := a % 9
				a /= 9
				mt.mark[i], mt.arr[i] = d%3, d/3
			}
		}
		c.Distinct(mt.key())
		checkOrders(c, mt, orders, 4)
		if c.Failed() {
			return
		}
	}
	c.Sample(map[string]any{"tree": fmt.Sprint(it.pv), "insertion_orders": len(orders), "assignments": it.count, "exhaustive_assignments": !it.sampled})
}

func randC16(c *vcommon.Case, nOrders int) {
	n := c.R.Range(8, 40)
	pv := randomTree(c.R, n)
	mt := &markedTree{pv: pv, root: vcommon.Pick(c.R, []uint{0, 0, 1, 1000})}
	mt.mark, mt.arr = sampleMarks(c.R, n)
	orders := make([][]int, 0, nOrders)
	orders = append(orders, identityOrder(n))
	for len(orders) < nOrders {
		orders = append(orders, randomExtension(c.R, pv))
	}
	c.Distinct(mt.key())
	checkOrders(c, mt, orders, 1)
	if c.Idx < 6 {
		e := newEnv(c, mt.root)
		e.checkAdds = false
		e.run(addOps(pv, orders[0], mt.mark, mt.arr))
		b, info := e.m.best()
		c.Sample(map[string]any{"history": e.h.String(), "orders": len(orders), "leaves": info.leaves, "best": fmt.Sprintf("#%d", b.id),
			"best_primaries": info.primaryBest, "best_height": b.number, "tie_primary": info.tiePrimary, "tie_height": info.tieHeight, "tie_arrival": info.tieArrival})
	}
}

func TestVerifC16(t *testing.T) {
	r := vcommon.Start(t, "C16")
	defer r.Finish()
	c16Floors(r)

	corpus := c16Corpus()
	r.Fixed("corpus", len(corpus), func(c *vcommon.Case) {
		nh := corpus[c.Idx]
		e := newEnv(c, nh.root)
		e.forkChoice, e.probeCopy = true, true
		e.note = nh.name
		e.run(nh.ops)
		c.Distinct("corpus:" + nh.name)
		b, _ := e.m.best()
		c.Sample(map[string]any{"name": nh.name, "history": e.h.String(), "best": fmt.Sprintf("#%d", b.id)})
	})

	items := c16ExhItems(r.Thorough())
	r.Fixed("exh", len(items), func(c *vcommon.Case) { exhC16(c, items[c.Idx]) })

	nOrders := 8
	if r.Thorough() {
		nOrders = 50
	}
	cases := 250
	if r.Thorough() {
		cases = 100 // x scale, 50 orders each
	}
	r.Cases("rand", r.Scale(cases), func(c *vcommon.Case) { randC16(c, nOrders) })
}
