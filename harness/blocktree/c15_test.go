//go:build verif

package blocktree_test

import (
	"fmt"
	"testing"

	"github.com/ChainSafe/gossamer/zz_verif/vcommon"
)

type namedHist struct {
	name string
	root uint
	ops  []op
}

func add(id, parent, mark, arr int) op {
	return op{Op: "add", ID: id, Parent: parent, Mark: mark, Arr: arr}
}
func fin(id int) op { return op{Op: "prune", ID: id} }
func bad(kind string, id, parent int) op {
	return op{Op: "bad", Bad: kind, ID: id, Parent: parent}
}

// c15Corpus: minimal witnesses of every defect found so far plus the corner
// cases the property names (sibling order while pruning, deep and wide forks).
func c15Corpus() []namedHist {
	P, S, V := markPrimary, markSecPlain, markSecVRF
	return []namedHist{
		// node.prune skipped the sibling after each pruned child: children [1,2,3], finalise 3 => only 1 reported
		{"prune-last-of-three-siblings", 0, []op{add(1, 0, P, 0), add(2, 0, P, 0), add(3, 0, P, 0), fin(3)}},
		{"prune-last-of-four-siblings", 5, []op{add(1, 0, P, 0), add(2, 0, S, 1), add(3, 0, V, 2), add(4, 0, P, 0), fin(4)}},
		{"prune-middle-of-three-siblings", 0, []op{add(1, 0, P, 0), add(2, 0, P, 0), add(3, 0, P, 0), fin(2)}},
		{"prune-first-of-three-siblings", 0, []op{add(1, 0, P, 0), add(2, 0, P, 0), add(3, 0, P, 0), fin(1)}},
		// a pruned block with three children: second child skipped, third reported twice
		{"prune-fork-with-three-children", 0, []op{add(1, 0, P, 0), add(2, 0, P, 0), add(3, 1, P, 0), add(4, 1, S, 1), add(5, 1, V, 2), fin(2)}},
		// forks hanging off every ancestor of the finalised block
		{"prune-deep-with-forks-at-every-level", 0, []op{add(1, 0, P, 0), add(2, 1, P, 0), add(3, 2, P, 0),
			add(4, 0, S, 0), add(5, 0, S, 1), add(6, 1, S, 0), add(7, 1, S, 1), add(8, 2, S, 0), add(9, 2, S, 1),
			add(10, 4, P, 2), add(11, 6, P, 2), fin(3)}},
		{"prune-forks-before-and-after-kept-child", 7, []op{add(1, 0, S, 0), add(2, 0, S, 0), add(3, 0, P, 1), add(4, 0, S, 0), add(5, 0, S, 0),
			add(6, 3, P, 0), add(7, 1, P, 0), add(8, 5, P, 0), fin(3), add(9, 6, P, 1), fin(6)}},
		// two finalisations in a row, requests that must be refused in between
		{"finalise-twice-and-refusals", 0, []op{add(1, 0, P, 0), add(2, 0, S, 0), add(3, 1, P, 1), add(4, 1, S, 1), add(5, 2, P, 2),
			fin(1), bad("dead-parent", 50, 2), bad("dead-parent", 51, 0), bad("prune-dead", 5, 0), bad("duplicate", 3, 0),
			bad("wrong-number", 52, 3), bad("unknown-parent", 53, 0), bad("prune-root", 0, 0), bad("prune-unknown", 54, 0),
			add(6, 3, S, 0), add(7, 4, P, 0), fin(3)}},
		// additions refused by the slot-type check alone (valid parent, number, new hash) must leave no trace:
		// below a leaf (would replace it in Leaves / become best), below an inner block, below the root
		{"refused-additions-leave-no-trace", 0, []op{add(1, 0, P, 0), add(2, 1, S, 0), add(3, 0, S, 1),
			bad("no-digest", 60, 2), bad("first-digest-not-preruntime", 61, 2), bad("malformed-predigest", 62, 3), bad("malformed-predigest", 63, 1),
			bad("no-digest", 64, 0), bad("wrong-number", 65, 2), bad("wrong-number", 66, 2), add(4, 2, P, 0), bad("first-digest-not-preruntime", 67, 4),
			fin(1), bad("no-digest", 68, 1), add(5, 4, V, 2), fin(4)}},
		// best chain (2 primaries, height 2) is shorter than a secondary-only fork of height 4:
		// blocks at numbers 3 and 4 exist and GetHashesAtNumber must list them
		{"by-number-above-best-chain-head", 0, []op{add(1, 0, P, 0), add(2, 1, P, 0), add(3, 0, S, 0), add(4, 3, S, 0), add(5, 4, V, 0), add(6, 5, S, 0)}},
		// start on another fork than end: there is no chain start..end
		{"range-start-on-another-fork", 0, []op{add(1, 0, P, 0), add(2, 1, P, 0), add(3, 0, S, 0), add(4, 3, S, 0)}},
		{"single-chain", 1000, []op{add(1, 0, P, 0), add(2, 1, S, 0), add(3, 2, V, 0), add(4, 3, P, 0), fin(2), fin(4)}},
		{"wide-fan", 0, []op{add(1, 0, P, 0), add(2, 0, P, 0), add(3, 0, P, 0), add(4, 0, P, 0), add(5, 0, P, 0), add(6, 0, P, 0), add(7, 0, P, 0),
			add(8, 0, P, 0), add(9, 4, P, 0), fin(4)}},
	}
}

func c15Floors(r *vcommon.Run) {
	r.Floor("prunes", 500)
	r.Floor("pruned_blocks", 1000)
	r.Floor("prune_adjacent_pruned_siblings", 300)
	r.Floor("prune_kept_child_after_pruned_sibling", 200)
	r.Floor("structure_checks_forked", 1000)
	r.Floor("lca_proper_fork_pairs", 2000)
	r.Floor("range_ancestor_pairs", 2000)
	r.Floor("range_start_not_ancestor", 1000)
	r.Floor("range_start_above_end", 1000)
	r.Floor("by_number_multi", 1000)
	r.Floor("by_number_above_best_chain_head", 100)
	r.Floor("dead_block_probes", 300)
	r.Floor("bad_dead-parent", 50)
	r.Floor("bad_duplicate", 50)
	r.Floor("bad_wrong-number", 50)
	r.Floor("bad_unknown-parent", 50)
	r.Floor("bad_no-digest", 50)
	r.Floor("bad_first-digest-not-preruntime", 50)
	r.Floor("bad_malformed-predigest", 50)
	r.Floor("refused_adds_below_leaf", 50)
	r.Floor("refused_blocks_tracked", 200)
	r.Floor("prunes_after_refused_add", 50)
	r.Floor("prunes_in_sibling_fan_of_8_or_more", 10)
	r.Floor("prunes_of_block_4_or_more_below_root", 20)
}

// exhC15 drives one (tree, parent-first insertion order) pair given as a parent
// vector: queries after every addition, then finalisation of every node, of
// every (node, descendant) pair, and additions / refusals after a finalisation.
func exhC15(c *vcommon.Case, pv []int, deep bool) {
	n := len(pv)
	mark, arr := make([]int, n), make([]int, n)
	for i := range mark {
		mark[i], arr[i] = c.R.Intn(3), c.R.Intn(3)
	}
	root := vcommon.Pick(c.R, []uint{0, 0, 3})
	adds := addOps(pv, identityOrder(n), mark, arr)
	c.Distinct(fmt.Sprint("build", pv))

	e := newEnv(c, root)
	e.structural = true
	e.run(adds)
	if e.viol > 0 {
		return
	}
	// additions that must be refused, on the complete tree: below a leaf, below any block
	for i, kind := range badDigestKinds {
		ls := e.m.leaves()
		e.exec(bad(kind, n+20+i, ls[c.R.Intn(len(ls))].id))
		e.exec(bad(kind, n+30+i, c.R.Intn(n)))
	}
	e.exec(bad("wrong-number", n+40, c.R.Intn(n)))
	e.exec(bad("wrong-number", n+41, c.R.Intn(n)))
	if n == 1 {
		e.exec(bad("prune-root", 0, 0))
		e.exec(bad("prune-unknown", 1, 0))
		return
	}
	for f := 1; f < n; f++ {
		c.Distinct(fmt.Sprint("fin", pv, f))
		e := newEnv(c, root)
		e.structural, e.checkAdds = true, false
		e.run(adds)
		// refused additions on both sides of the coming finalisation: Prune must not report them,
		// and they must not survive below the new root
		e.exec(bad(badDigestKinds[f%3], n+50, c.R.Intn(n)))
		e.exec(bad(badDigestKinds[(f+1)%3], n+51, f))
		e.exec(fin(f))
		if f == 1 && n <= 6 {
			c.Sample(map[string]any{"history": e.h.String(), "blocks_after": e.mnames(e.m.sorted()), "leaves_after": e.mnames(e.m.leaves())})
		}
		if !deep {
			continue
		}
		desc := strictDescendants(pv, f)
		for _, g := range desc {
			c.Distinct(fmt.Sprint("fin2", pv, f, g))
			e := newEnv(c, root)
			e.structural, e.checkAdds = true, false
			e.run(adds)
			e.exec(fin(f))
			e.exec(fin(g))
		}
		// life after a finalisation
		e = newEnv(c, root)
		e.structural, e.checkAdds = true, false
		e.run(adds)
		e.exec(fin(f))
		e.checkAdds = true
		if len(e.dead) > 0 {
			d := e.dead[c.R.Intn(len(e.dead))]
			e.exec(bad("dead-parent", n+10, d.id))
			e.exec(bad("prune-dead", d.id, 0))
		}
		surv := e.m.sorted()
		p := surv[c.R.Intn(len(surv))]
		e.exec(add(n, p.id, c.R.Intn(3), c.R.Intn(3)))
		e.exec(add(n+1, f, c.R.Intn(3), c.R.Intn(3)))
		e.exec(bad("duplicate", n, 0))
		e.exec(bad(badDigestKinds[(f+2)%3], n+13, n+1))
		e.exec(bad("wrong-number", n+11, p.id))
		e.exec(bad("unknown-parent", n+12, 0))
		e.exec(fin(n + 1))
	}
}

// randC15 is a random history: additions with wide sibling fans and deep
// chains, finalisations, and requests that must be refused, interleaved.
func randC15(c *vcommon.Case) {
	root := vcommon.Pick(c.R, []uint{0, 0, 1, 7, 1000})
	e := newEnv(c, root)
	e.structural = true
	e.pairBudget = 120
	target := c.R.Range(6, 40)
	style := c.R.Intn(5) // 0 hubs, 1 chains, 2 uniform, 3 mixed, 4 one wide fan below the root first
	markMode := c.R.Intn(3)
	hubs := []int{0}
	next := 1
	depth := func(b *mBlock) int { return len(e.m.chain(b)) - 1 }
	badSeq := 5000
	badLabel := func() int { badSeq++; return badSeq }
	for adds := 0; adds < target && e.viol == 0; {
		live := e.m.sorted()
		switch x := c.R.Intn(100); {
		case x < 80:
			var p *mBlock
			switch {
			case style == 4 && adds < target/2 && c.R.Chance(4, 5):
				p = e.m.root
			case style == 0 || (style == 3 && c.R.Chance(1, 2)):
				// wide fans: attach to one of a few hubs
				var liveHubs []*mBlock
				for _, h := range hubs {
					if b := e.byID[h]; e.m.get(b.hash) == b {
						liveHubs = append(liveHubs, b)
					}
				}
				if len(liveHubs) == 0 || c.R.Chance(1, 6) {
					p = live[c.R.Intn(len(live))]
					hubs = append(hubs, p.id)
				} else {
					p = liveHubs[c.R.Intn(len(liveHubs))]
				}
			case style == 1 && c.R.Chance(3, 4):
				ls := e.m.leaves()
				p = ls[c.R.Intn(len(ls))]
			default:
				p = live[c.R.Intn(len(live))]
			}
			mk := c.R.Intn(3)
			if markMode == 1 && c.R.Chance(3, 4) {
				mk = 1 + c.R.Intn(2) // mostly secondary: long secondary forks outgrow the best chain
			}
			e.exec(add(next, p.id, mk, c.R.Intn(3)))
			next++
			adds++
		case x < 86:
			if len(live) < 2 {
				continue
			}
			f := live[c.R.Intn(len(live))]
			// prefer shallow targets so that the tree survives several finalisations
			for depth(f) > 2 && c.R.Chance(3, 4) {
				f = f.parent
			}
			if f == e.m.root {
				e.exec(bad("prune-root", 0, 0))
				continue
			}
			sizeBefore := len(live)
			e.exec(fin(f.id))
			if sizeBefore >= 10 {
				c.Count("prunes_of_trees_with_10_or_more_blocks", 1)
			}
			c.Distinct(fmt.Sprintf("rand-prune:%s", e.h.String()))
		default:
			switch k := c.R.Intn(10); {
			case k >= 6:
				// refused by the slot-type check alone; half of them below a leaf
				p := live[c.R.Intn(len(live))]
				if c.R.Bool() {
					ls := e.m.leaves()
					p = ls[c.R.Intn(len(ls))]
				}
				e.exec(bad(badDigestKinds[c.R.Intn(3)], badLabel(), p.id))
			case k == 0 && len(e.dead) > 0:
				e.exec(bad("dead-parent", badLabel(), e.dead[c.R.Intn(len(e.dead))].id))
			case k == 1 && len(e.dead) > 0:
				e.exec(bad("prune-dead", e.dead[c.R.Intn(len(e.dead))].id, 0))
			case k == 2 && len(live) > 1:
				b := live[c.R.Intn(len(live))]
				if b != e.m.root {
					e.exec(bad("duplicate", b.id, 0))
				}
			case k == 3:
				e.exec(bad("wrong-number", badLabel(), live[c.R.Intn(len(live))].id))
			case k == 4:
				e.exec(bad("unknown-parent", badLabel(), 0))
			default:
				e.exec(bad("prune-unknown", next, 0))
			}
		}
	}
	if c.Idx < 8 {
		c.Sample(map[string]any{"history": e.h.String(), "blocks_at_end": len(e.m.live), "leaves_at_end": len(e.m.leaves()), "left_the_tree": len(e.dead)})
	}
}

func TestVerifC15(t *testing.T) {
	r := vcommon.Start(t, "C15")
	defer r.Finish()
	c15Floors(r)

	corpus := c15Corpus()
	r.Fixed("corpus", len(corpus), func(c *vcommon.Case) {
		nh := corpus[c.Idx]
		e := newEnv(c, nh.root)
		e.structural = true
		e.note = nh.name
		e.run(nh.ops)
		c.Distinct("corpus:" + nh.name)
		c.Sample(map[string]any{"name": nh.name, "history": e.h.String(), "blocks_after": e.mnames(e.m.sorted()), "leaves_after": e.mnames(e.m.leaves())})
	})

	// every rooted tree with up to 6 nodes in every parent-first insertion order
	var pvs [][]int
	for n := 1; n <= 6; n++ {
		pvs = append(pvs, parentVectors(n)...)
	}
	r.Fixed("exh", len(pvs), func(c *vcommon.Case) { exhC15(c, pvs[c.Idx], true) })
	if r.Thorough() {
		pv7 := parentVectors(7)
		r.Fixed("exh7", len(pv7), func(c *vcommon.Case) { exhC15(c, pv7[c.Idx], true) })
		pv8 := parentVectors(8)
		r.Fixed("exh8", len(pv8), func(c *vcommon.Case) { exhC15(c, pv8[c.Idx], false) })
	}

	r.Cases("rand", r.Scale(400), randC15)
}
