//go:build verif

package blocktree_test

// Reference model "Tree": an explicit block tree made of parent links only.
// Everything here is written from the text of properties C15 / C16, not from
// lib/blocktree: no children slices, no leaf map, no recursion over children.
// Every query is answered by walking parent links of the live set.

import (
	"bytes"
	"sort"
	"time"

	"github.com/ChainSafe/gossamer/lib/common"
)

type mBlock struct {
	id      int // label chosen by the generator (0 = initial root)
	hash    common.Hash
	parent  *mBlock
	number  uint
	primary bool
	arrival time.Time
	seq     int // position in the insertion history (diagnostics only)
}

// Tree is the model state: the last finalised block and the set of added
// blocks that descend from it.
type Tree struct {
	root *mBlock
	live map[common.Hash]*mBlock
}

func newTree(root *mBlock) *Tree {
	return &Tree{root: root, live: map[common.Hash]*mBlock{root.hash: root}}
}

func (t *Tree) get(h common.Hash) *mBlock { return t.live[h] }

// add inserts b below its parent; the caller guarantees the parent is live.
func (t *Tree) add(b *mBlock) { t.live[b.hash] = b }

// chain returns b, parent(b), ..., root (the finalised root ends every chain).
func (t *Tree) chain(b *mBlock) []*mBlock {
	var out []*mBlock
	for x := b; x != nil; x = x.parent {
		out = append(out, x)
		if x == t.root {
			break
		}
	}
	return out
}

// isAncestor reports whether a is b or an ancestor of b.
func (t *Tree) isAncestor(a, b *mBlock) bool {
	for _, x := range t.chain(b) {
		if x == a {
			return true
		}
	}
	return false
}

func (t *Tree) lca(a, b *mBlock) *mBlock {
	onA := map[*mBlock]bool{}
	for _, x := range t.chain(a) {
		onA[x] = true
	}
	for _, x := range t.chain(b) {
		if onA[x] {
			return x
		}
	}
	return nil
}

// sorted returns the live blocks in a deterministic order (by hash).
func (t *Tree) sorted() []*mBlock {
	out := make([]*mBlock, 0, len(t.live))
	for _, b := range t.live {
		out = append(out, b)
	}
	sort.Slice(out, func(i, j int) bool { return bytes.Compare(out[i].hash[:], out[j].hash[:]) < 0 })
	return out
}

// leaves are the live blocks that are nobody's parent.
func (t *Tree) leaves() []*mBlock {
	isParent := map[*mBlock]bool{}
	for _, b := range t.live {
		if b != t.root && b.parent != nil {
			isParent[b.parent] = true
		}
	}
	var out []*mBlock
	for _, b := range t.sorted() {
		if !isParent[b] {
			out = append(out, b)
		}
	}
	return out
}

// path returns a..b along parent links (a first) or nil when a is not an ancestor of b.
func (t *Tree) path(a, b *mBlock) []*mBlock {
	ch := t.chain(b)
	for i, x := range ch {
		if x == a {
			out := make([]*mBlock, 0, i+1)
			for j := i; j >= 0; j-- {
				out = append(out, ch[j])
			}
			return out
		}
	}
	return nil
}

func (t *Tree) atNumber(n uint) []*mBlock {
	var out []*mBlock
	for _, b := range t.sorted() {
		if b.number == n {
			out = append(out, b)
		}
	}
	return out
}

func (t *Tree) descendants(a *mBlock) []*mBlock {
	var out []*mBlock
	for _, b := range t.sorted() {
		if t.isAncestor(a, b) {
			out = append(out, b)
		}
	}
	return out
}

func (t *Tree) maxNumber() uint {
	m := t.root.number
	for _, b := range t.live {
		if b.number > m {
			m = b.number
		}
	}
	return m
}

// finalise makes f the root. It returns the blocks that are neither ancestors
// nor descendants of f (the ones a finalisation must report as pruned). The
// strict ancestors of f leave the tree too (they are finalised), unreported.
func (t *Tree) finalise(f *mBlock) (pruned []*mBlock) {
	keep := map[common.Hash]*mBlock{}
	for _, x := range t.sorted() {
		switch {
		case t.isAncestor(f, x):
			keep[x.hash] = x
		case t.isAncestor(x, f):
			// finalised ancestor: leaves the in-memory tree, not "pruned"
		default:
			pruned = append(pruned, x)
		}
	}
	t.root = f
	t.live = keep
	return pruned
}

// primaryCount counts primary-slot blocks on the chain of b after the finalised root.
func (t *Tree) primaryCount(b *mBlock) int {
	n := 0
	for _, x := range t.chain(b) {
		if x != t.root && x.primary {
			n++
		}
	}
	return n
}

// better reports whether leaf a beats leaf b under the fork-choice order of C16:
// more primary blocks after the root, then greater height, then earlier
// arrival, then lower hash.
func (t *Tree) better(a, b *mBlock) bool {
	pa, pb := t.primaryCount(a), t.primaryCount(b)
	if pa != pb {
		return pa > pb
	}
	if a.number != b.number {
		return a.number > b.number
	}
	if !a.arrival.Equal(b.arrival) {
		return a.arrival.Before(b.arrival)
	}
	return bytes.Compare(a.hash[:], b.hash[:]) < 0
}

type tieInfo struct {
	leaves      int
	tiePrimary  bool // >1 leaf shares the top primary count
	tieHeight   bool // >1 of those share the top height
	tieArrival  bool // >1 of those share the earliest arrival: the hash decides
	notHighest  bool // the best leaf is not a highest leaf
	primaryBest int
}

// best is the arg-max over the leaves, together with which tie-breakers were needed.
func (t *Tree) best() (*mBlock, tieInfo) {
	ls := t.leaves()
	var best *mBlock
	for _, l := range ls {
		if best == nil || t.better(l, best) {
			best = l
		}
	}
	info := tieInfo{leaves: len(ls)}
	if best == nil {
		return nil, info
	}
	info.primaryBest = t.primaryCount(best)
	var c1, c2, c3 int
	for _, l := range ls {
		if t.primaryCount(l) != info.primaryBest {
			continue
		}
		c1++
		if l.number != best.number {
			continue
		}
		c2++
		if l.arrival.Equal(best.arrival) {
			c3++
		}
	}
	info.tiePrimary, info.tieHeight, info.tieArrival = c1 > 1, c2 > 1, c3 > 1
	info.notHighest = best.number < t.maxNumber()
	return best, info
}
