//go:build verif

package core

// C23 at the dot/core entry point (engine `authcore`, second binary of property C23).
//
// The authset engine (package dot/state) calls AddBlock / HandleDigests /
// ApplyForcedChanges itself, in the order it read in dot/core. Here the blocks go
// through the REAL core.Service (HandleBlockImport / HandleBlockProduced ->
// handleBlock) wired to a real state.BlockState, a real state.GrandpaState and the
// real digest.BlockImportHandler, so the call order inside handleBlock is inside
// the monitored loop. Only what C23 does not talk about is faked: storage state
// (StoreTrie is a counter), epoch state, network, telemetry and the runtime
// instance (generated gomock MockInstance answering GetCodeHash only).
//
//	import:    Service.HandleBlockImport | Service.HandleBlockProduced  (-> handleBlock)
//	finalise:  BlockState.SetFinalisedHash -> GrandpaState.ApplyScheduledChanges
//	           (production caller: dot/digest Handler.handleBlockFinalisation, fed by the
//	           finalised-block notifier of SetFinalisedHash; driven here synchronously in the
//	           deterministic order "block tree pruned first", exactly as authset does)
//
// After every step the public queries are compared with the AuthSet model
// (zz_verif_c23core_model_test.go, a copy of authset's model): current set id,
// authorities of every set, NextGrandpaAuthorityChange for every known block,
// and - only in authset's sound scope - GetSetIDByBlockNumber.

import (
	"bytes"
	"encoding/json"
	"errors"
	"fmt"
	"os"
	"strings"
	"sync"
	"testing"

	"github.com/ChainSafe/gossamer/dot/digest"
	"github.com/ChainSafe/gossamer/dot/network"
	"github.com/ChainSafe/gossamer/dot/peerset"
	"github.com/ChainSafe/gossamer/dot/state"
	"github.com/ChainSafe/gossamer/dot/types"
	"github.com/ChainSafe/gossamer/internal/database"
	"github.com/ChainSafe/gossamer/internal/log"
	"github.com/ChainSafe/gossamer/lib/common"
	rtstorage "github.com/ChainSafe/gossamer/lib/runtime/storage"
	"github.com/ChainSafe/gossamer/pkg/scale"
	"github.com/ChainSafe/gossamer/pkg/trie"
	inmemory_trie "github.com/ChainSafe/gossamer/pkg/trie/inmemory"
	"github.com/ChainSafe/gossamer/zz_verif/vcommon"
	"github.com/libp2p/go-libp2p/core/peer"
	"go.uber.org/mock/gomock"
)

// ---------------------------------------------------------------- fakes for what C23 does not talk about

type vcTelemetry struct{}

func (vcTelemetry) SendMessage(json.Marshaler) {}

// vcStorage: handleBlock stores the state trie first; the fake counts the calls,
// which is the harness' evidence that a block really went through handleBlock.
type vcStorage struct {
	sync.Mutex
	stored int
}

var errVcNotUsed = errors.New("verif: storage state is a fake")

func (s *vcStorage) TrieState(*common.Hash) (*rtstorage.TrieState, error) { return nil, errVcNotUsed }
func (s *vcStorage) StoreTrie(*rtstorage.TrieState, *types.Header) error {
	s.stored++
	return nil
}
func (s *vcStorage) GetStateRootFromBlock(*common.Hash) (*common.Hash, error) {
	return nil, errVcNotUsed
}
func (s *vcStorage) GenerateTrieProof(common.Hash, [][]byte) ([][]byte, error) {
	return nil, errVcNotUsed
}

type vcEpoch struct{}

func (vcEpoch) GetEpochForBlock(*types.Header) (uint64, error) { return 0, nil }
func (vcEpoch) UpdateSkippedEpochDefinitions(uint64, uint64, *types.Header) error {
	return nil
}

type vcNet struct{ gossiped int }

func (n *vcNet) GossipMessage(network.NotificationsMessage)   { n.gossiped++ }
func (n *vcNet) IsSynced() bool                               { return true }
func (n *vcNet) ReportPeer(peerset.ReputationChange, peer.ID) {}

// vcMockFailure: an unexpected call on the gomock runtime instance is a harness
// matter (inconclusive), never a verdict.
type vcMockFailure string

type vcReporter struct{}

func (vcReporter) Errorf(format string, args ...any) {
	panic(vcMockFailure(fmt.Sprintf(format, args...)))
}
func (vcReporter) Fatalf(format string, args ...any) {
	panic(vcMockFailure(fmt.Sprintf(format, args...)))
}

// ---------------------------------------------------------------- scenario

const (
	vcViaImport         = 0 // Service.HandleBlockImport(block, state, announce=false)
	vcViaImportAnnounce = 1 // Service.HandleBlockImport(block, state, announce=true)
	vcViaProduced       = 2 // Service.HandleBlockProduced(block, state)
)

type vcOp struct {
	Kind string `json:"op"` // "import" | "finalise"
	Node int    `json:"node"`
	Via  int    `json:"via,omitempty"` // import only: which exported entry point leads to handleBlock
}

type vcScenario struct {
	Name  string  `json:"name,omitempty"`
	Nodes []vNode `json:"nodes"` // Nodes[0] is genesis
	Ops   []vcOp  `json:"ops"`
}

func (s *vcScenario) String() string {
	var sb strings.Builder
	for i, n := range s.Nodes {
		if i == 0 {
			continue
		}
		fmt.Fprintf(&sb, "%d<-%d", n.Parent, i)
		if n.Sched != nil {
			fmt.Fprintf(&sb, "S%d", n.Sched.Delay)
		}
		if n.Forced != nil {
			fmt.Fprintf(&sb, "F%dm%d", n.Forced.Delay, n.Forced.Median)
			if n.ForcedFirst {
				sb.WriteByte('f')
			}
		}
		sb.WriteByte(' ')
	}
	sb.WriteByte('|')
	for _, o := range s.Ops {
		if o.Kind == "import" {
			fmt.Fprintf(&sb, "i%d/%d ", o.Node, o.Via)
		} else {
			fmt.Fprintf(&sb, "f%d ", o.Node)
		}
	}
	return sb.String()
}

// vcAuthsRaw is authority list number id: 1..3 voters, key bytes (id, i, 0xA5..), weight i+1.
func vcAuthsRaw(id int) []types.GrandpaAuthoritiesRaw {
	n := 1 + id%3
	out := make([]types.GrandpaAuthoritiesRaw, n)
	for i := range out {
		for j := range out[i].Key {
			out[i].Key[j] = 0xA5
		}
		out[i].Key[0] = byte(id)
		out[i].Key[1] = byte(i)
		out[i].ID = uint64(i + 1)
	}
	return out
}

func vcGrandpaDigest(val any) (types.ConsensusDigest, error) {
	d := types.NewGrandpaConsensusDigest()
	if err := d.SetValue(val); err != nil {
		return types.ConsensusDigest{}, err
	}
	enc, err := scale.Marshal(d)
	if err != nil {
		return types.ConsensusDigest{}, err
	}
	return types.ConsensusDigest{ConsensusEngineID: types.GrandpaEngineID, Data: enc}, nil
}

func vcBuildHeaders(sc *vcScenario, genesis *types.Header) ([]*types.Header, error) {
	hs := make([]*types.Header, len(sc.Nodes))
	hs[0] = genesis
	for i := 1; i < len(sc.Nodes); i++ {
		n := sc.Nodes[i]
		if n.Parent < 0 || n.Parent >= i {
			return nil, fmt.Errorf("node %d: parent %d not earlier", i, n.Parent)
		}
		if n.Number != sc.Nodes[n.Parent].Number+1 {
			return nil, fmt.Errorf("node %d: number %d, parent number %d", i, n.Number, sc.Nodes[n.Parent].Number)
		}
		dg := types.NewDigest()
		pre, err := types.NewBabeSecondaryPlainPreDigest(0, uint64(1000+i)).ToPreRuntimeDigest()
		if err != nil {
			return nil, err
		}
		if err := dg.Add(*pre); err != nil {
			return nil, err
		}
		var items []types.ConsensusDigest
		if n.Sched != nil {
			d, err := vcGrandpaDigest(types.GrandpaScheduledChange{Auths: vcAuthsRaw(n.Sched.Auths), Delay: n.Sched.Delay})
			if err != nil {
				return nil, err
			}
			items = append(items, d)
		}
		if n.Forced != nil {
			d, err := vcGrandpaDigest(types.GrandpaForcedChange{BestFinalizedBlock: n.Forced.Median,
				Auths: vcAuthsRaw(n.Forced.Auths), Delay: n.Forced.Delay})
			if err != nil {
				return nil, err
			}
			if n.ForcedFirst {
				items = append([]types.ConsensusDigest{d}, items...)
			} else {
				items = append(items, d)
			}
		}
		switch n.Noise { // GRANDPA digests that must not touch the authority set bookkeeping
		case 1:
			d, err := vcGrandpaDigest(types.GrandpaPause{Delay: 2})
			if err != nil {
				return nil, err
			}
			items = append([]types.ConsensusDigest{d}, items...)
		case 2:
			d, err := vcGrandpaDigest(types.GrandpaResume{Delay: 1})
			if err != nil {
				return nil, err
			}
			items = append(items, d)
		case 3:
			d, err := vcGrandpaDigest(types.GrandpaOnDisabled{ID: 1})
			if err != nil {
				return nil, err
			}
			items = append(items, d)
		}
		for _, it := range items {
			if err := dg.Add(it); err != nil {
				return nil, err
			}
		}
		hs[i] = &types.Header{ParentHash: hs[n.Parent].Hash(), Number: n.Number, StateRoot: trie.EmptyHash, Digest: dg}
	}
	return hs, nil
}

// ---------------------------------------------------------------- environment (real gossamer objects)

type vcEnv struct {
	db      database.Database
	bs      *state.BlockState
	gs      *state.GrandpaState
	svc     *Service
	st      *vcStorage
	net     *vcNet
	headers []*types.Header
}

func vcNewEnv(sc *vcScenario) (*vcEnv, error) {
	dir, err := os.MkdirTemp(os.Getenv("VERIF_TMP"), "c23core")
	if err != nil {
		return nil, err
	}
	defer os.RemoveAll(dir)
	db, err := database.LoadDatabase(dir, true)
	if err != nil {
		return nil, err
	}
	genesis := &types.Header{Number: 0, StateRoot: trie.EmptyHash, Digest: types.NewDigest()}
	bs, err := state.NewBlockStateFromGenesis(db, state.NewTries(), genesis, vcTelemetry{})
	if err != nil {
		return nil, err
	}
	voters, err := types.NewGrandpaVotersFromAuthoritiesRaw(vcAuthsRaw(0))
	if err != nil {
		return nil, err
	}
	gs, err := state.NewGrandpaStateFromGenesis(db, bs, voters, vcTelemetry{})
	if err != nil {
		return nil, err
	}
	hs, err := vcBuildHeaders(sc, genesis)
	if err != nil {
		return nil, err
	}
	// one runtime instance for the whole tree: its code hash equals the code hash of the (empty) state
	// every block carries, so BlockState.HandleRuntimeChanges sees "no runtime change"
	emptyCodeHash, err := rtstorage.NewTrieState(inmemory_trie.NewEmptyTrie()).LoadCodeHash()
	if err != nil {
		return nil, err
	}
	rt := NewMockInstance(gomock.NewController(vcReporter{}))
	rt.EXPECT().GetCodeHash().Return(emptyCodeHash).AnyTimes()
	rt.EXPECT().Stop().AnyTimes()
	bs.StoreRuntime(genesis.Hash(), rt)

	st, net := &vcStorage{}, &vcNet{}
	svc, err := NewService(&Config{
		LogLvl:        log.Critical,
		BlockState:    bs,
		StorageState:  st,
		GrandpaState:  gs,
		EpochState:    vcEpoch{},
		Network:       net,
		OnBlockImport: digest.NewBlockImportHandler(nil, gs),
	})
	if err != nil {
		return nil, err
	}
	return &vcEnv{db: db, bs: bs, gs: gs, svc: svc, st: st, net: net, headers: hs}, nil
}

func (e *vcEnv) close() {
	_ = e.svc.Stop() // cancels the context: pending "blockAddCh <- block" goroutines of handleBlock return
	_ = e.db.Close()
}

// ---------------------------------------------------------------- the monitor

type vcCleared struct {
	canon int
	eff   uint
}

type vcRun struct {
	c        *vcommon.Case
	sc       *vcScenario
	t        *vTree
	e        *vcEnv
	m        *authSet
	imported []bool
	dead     []bool // import refused (the block does not exist for Substrate)
	// deadDep: refused because an ANCESTOR's forced change, effective at this block, depends on an
	// unfinalised standard change, and the block announces no change itself (see authset NOTES)
	deadDep []bool
	// scheduled changes announced by the effective block of a forced change (cleared together with the old set)
	cleared []vcCleared
	gFinal  int
	maxNum  uint
	step    int
	trace   []string
	applied int
	stop    bool
}

func (r *vcRun) witness(extra map[string]any) map[string]any {
	w := map[string]any{"scenario": r.sc, "scenario_short": r.sc.String(), "step": r.step, "trace": r.trace,
		"model_roots": renderRoots(r.m.roots), "model_forced": renderForced(r.m.forced), "model_set_id": r.m.setID}
	for k, v := range extra {
		w[k] = v
	}
	return w
}

func (r *vcRun) violation(class, msg string, extra map[string]any) {
	r.c.Violation(class, msg, r.witness(extra))
	r.stop = true
}

func (r *vcRun) live(b int) bool { return b >= 0 && r.imported[b] && !r.dead[b] }

// expectedNext: gossamer's documented query NextGrandpaAuthorityChange(best) evaluated
// on the MODEL's bookkeeping (same definition as in the authset engine).
func (r *vcRun) expectedNext(b int) (uint, bool) {
	num := r.t.nodes[b].Number
	var next uint
	for _, root := range r.m.roots {
		if r.t.ancOrEq(root.ch.canon, b) && root.ch.eff() <= num {
			next = root.ch.eff()
			break
		}
	}
	for _, fc := range r.m.forced {
		if r.t.ancOrEq(fc.canon, b) && fc.eff() <= num {
			if fc.eff() < next || next == 0 {
				next = fc.eff()
			}
			break
		}
	}
	return next, next != 0
}

func vcRenderOpt(c *mChange) string {
	if c == nil {
		return "none"
	}
	return renderChange(c)
}

func vcVotersEqual(got []types.GrandpaVoter, id int) bool {
	want := vcAuthsRaw(id)
	if len(got) != len(want) {
		return false
	}
	for i := range got {
		if !bytes.Equal(got[i].Key.Encode(), want[i].Key[:]) || got[i].ID != want[i].ID {
			return false
		}
	}
	return true
}

// compare checks the public observables of the property against the model
// (authset's comparisons minus the in-package view of the pending collections).
func (r *vcRun) compare(where string) {
	c := r.c
	gs := r.e.gs
	c.Eval(1)
	cur, err := gs.GetCurrentSetID()
	if err != nil || cur != r.m.setID {
		r.violation("set_id", fmt.Sprintf("%s: GetCurrentSetID=%d err=%v, model %d", where, cur, err, r.m.setID), nil)
		return
	}
	for id := uint64(0); id <= r.m.setID; id++ {
		c.Eval(1)
		got, err := gs.GetAuthorities(id)
		if err != nil || !vcVotersEqual(got, r.m.auths[id]) {
			r.violation("authorities", fmt.Sprintf("%s: GetAuthorities(%d)=%v err=%v, model list a%d", where, id, got, err, r.m.auths[id]), nil)
			return
		}
	}
	if _, err := gs.GetAuthorities(r.m.setID + 1); err == nil {
		r.violation("extra_set", fmt.Sprintf("%s: authorities stored for set %d although the current set is %d", where, r.m.setID+1, r.m.setID), nil)
		return
	}
	for b := range r.t.nodes {
		if !(r.live(b) || r.deadDep[b]) || !r.t.ancOrEq(r.gFinal, b) {
			continue
		}
		c.Eval(1)
		want, has := r.expectedNext(b)
		got, err := gs.NextGrandpaAuthorityChange(r.e.headers[b].Hash(), r.t.nodes[b].Number)
		switch {
		case err != nil && !errors.Is(err, state.ErrNoNextAuthorityChange):
			r.violation("next_change_error", fmt.Sprintf("%s: NextGrandpaAuthorityChange(best=%d): %v", where, b, err), nil)
			return
		case has != (err == nil) || (has && got != want):
			r.violation("next_change", fmt.Sprintf("%s: NextGrandpaAuthorityChange(best=%d)=%d err=%v, model %d (has=%v)", where, b, got, err, want, has), nil)
			return
		}
		if has {
			c.Count("core_next_change_reported", 1)
		}
	}
	for n := uint(0); n <= r.maxNum+2; n++ {
		got, err := gs.GetSetIDByBlockNumber(n)
		want := r.m.setIDOf(n)
		if r.m.exact {
			c.Eval(1)
			c.Count("core_mapping_compared_exact", 1)
			if err != nil || got != want {
				r.violation("set_id_by_number", fmt.Sprintf("%s: GetSetIDByBlockNumber(%d)=%d err=%v, model %d (changes %v)", where, n, got, err, want, r.m.changes), nil)
				return
			}
		} else if err != nil || got != want {
			// out of the sound scope (DESIGN §4 C23): finalisation jumped past an effective block, or a forced change
			c.Count("core_class_mapping_differs_after_jump_or_forced", 1)
		} else {
			c.Count("core_class_mapping_agrees_after_jump_or_forced", 1)
		}
	}
}

func (r *vcRun) doImport(b, via int) {
	c := r.c
	n := r.t.nodes[b]
	if r.imported[b] || !r.live(n.Parent) || !r.t.ancOrEq(r.gFinal, n.Parent) {
		c.Count("core_ops_skipped_not_importable", 1)
		return
	}
	hdr := r.e.headers[b]
	block := &types.Block{Header: *hdr, Body: *types.NewBody([]types.Extrinsic{})}
	ts := rtstorage.NewTrieState(inmemory_trie.NewEmptyTrie())
	r.imported[b] = true
	if n.Number > r.maxNum {
		r.maxNum = n.Number
	}
	r.trace = append(r.trace, fmt.Sprintf("import %d (#%d) via %d", b, n.Number, via))
	rootsBefore := len(r.m.roots)
	mApplied, mErr := r.m.importBlock(b)

	storedBefore, gossipedBefore := r.e.st.stored, r.e.net.gossiped
	var gErr error
	switch via {
	case vcViaProduced:
		gErr = r.e.svc.HandleBlockProduced(block, ts)
	case vcViaImportAnnounce:
		gErr = r.e.svc.HandleBlockImport(block, ts, true)
	default:
		gErr = r.e.svc.HandleBlockImport(block, ts, false)
	}
	if r.e.st.stored != storedBefore+1 {
		c.Inconclusive(fmt.Sprintf("import %d: handleBlock was not traversed (StoreTrie calls %d -> %d)", b, storedBefore, r.e.st.stored))
		r.stop = true
		return
	}
	c.Eval(1)
	c.Count("core_blocks_through_handleBlock", 1)
	c.Count(fmt.Sprintf("core_blocks_via_entry_%d", via), 1)
	if r.e.net.gossiped != gossipedBefore {
		c.Count("core_block_announces_gossiped", 1)
	}
	switch {
	case mErr != nil && gErr == nil:
		r.violation("import_accepted", fmt.Sprintf("import %d: model rejects (%v), core.Service accepted the block", b, mErr), nil)
		return
	case mErr == nil && gErr != nil:
		r.violation("import_rejected", fmt.Sprintf("import %d: core.Service failed: %v; model accepts", b, gErr), nil)
		return
	case mErr != nil:
		// the sentinels are unexported in dot/state: errAlreadyHasForcedChange / errPendingScheduledChanges
		ok := (errors.Is(mErr, errMMultiple) && strings.Contains(gErr.Error(), "already has a forced change")) ||
			(errors.Is(mErr, errMDependency) && strings.Contains(gErr.Error(), "pending scheduled changes needs to be applied"))
		if !ok {
			r.violation("import_error_kind", fmt.Sprintf("import %d: model %v, gossamer %v", b, mErr, gErr), nil)
			return
		}
		if errors.Is(mErr, errMMultiple) {
			c.Count("core_forced_second_on_fork_rejected", 1)
		} else {
			c.Count("core_forced_dependency_unsatisfied", 1)
			r.deadDep[b] = n.Forced == nil && n.Sched == nil
		}
		r.dead[b] = true
		r.trace = append(r.trace, fmt.Sprintf("  refused by both: %v", mErr))
	}
	if mApplied != nil {
		r.applied++
		c.Count("core_forced_applied", 1)
		if mApplied.canon == b {
			c.Count("core_forced_delay0_applied_at_announcing_block", 1)
		}
		if rootsBefore > 0 {
			c.Count("core_standard_cleared_by_forced", 1)
		}
		if n.Sched != nil && n.Forced == nil {
			// the effective block of a forced change announces a scheduled change itself: Substrate registers
			// it (add_pending_change) before apply_forced_changes starts the new set with empty collections
			c.Count("core_effective_block_of_forced_announces_own_scheduled_change", 1)
			r.cleared = append(r.cleared, vcCleared{b, n.Number + uint(n.Sched.Delay)})
		}
		r.trace = append(r.trace, fmt.Sprintf("  model: forced change %s applied -> set %d", renderChange(mApplied), r.m.setID))
	}
	if n.Forced != nil && n.Sched != nil && mErr == nil {
		c.Count("core_two_grandpa_change_digests_in_one_header", 1)
	}
	for _, cl := range r.cleared {
		if mErr == nil && r.t.ancOrEq(cl.canon, b) && n.Number >= cl.eff {
			c.Count("core_next_change_queried_at_or_past_effective_number_of_cleared_change", 1)
		}
	}
	r.compare(fmt.Sprintf("after import %d", b))
}

func (r *vcRun) doFinalise(f int) {
	c := r.c
	if !r.live(f) || !r.t.isDescendentOf(r.gFinal, f) {
		c.Count("core_ops_skipped_not_finalisable", 1)
		return
	}
	hdr := r.e.headers[f]
	number := r.t.nodes[f].Number
	if err := r.e.bs.SetFinalisedHash(hdr.Hash(), uint64(r.step+1), 0); err != nil {
		c.Inconclusive(fmt.Sprintf("SetFinalisedHash(%d): %v", f, err))
		r.stop = true
		return
	}
	jump := number - r.t.nodes[r.gFinal].Number
	r.gFinal = f
	r.trace = append(r.trace, fmt.Sprintf("finalise %d (#%d)", f, number))
	c.Count("core_blocks_finalised", 1)
	if jump > 1 {
		c.Count("core_finalisations_skipping_blocks", 1)
	}
	for _, cl := range r.cleared {
		if r.t.ancOrEq(cl.canon, f) && cl.eff <= number {
			c.Count("core_finalised_at_or_past_effective_number_of_cleared_change", 1)
		}
	}
	forcedBefore := append([]*mChange(nil), r.m.forced...)
	setBefore := r.m.setID

	mApplied, _, mErr := r.m.applyStandard(f, number)
	gErr := r.e.gs.ApplyScheduledChanges(hdr)
	c.Eval(1)
	if mErr != nil {
		// Substrate refuses the finalisation altogether (changes must be finalised in order); the
		// authority set must stay untouched. The histories diverge by construction: end of case.
		c.Count("core_unfinalized_ancestor_refused", 1)
		cur, _ := r.e.gs.GetCurrentSetID()
		if gErr == nil || !strings.Contains(gErr.Error(), "unfinalized ancestor") || cur != setBefore {
			r.violation("unfinalized_ancestor", fmt.Sprintf("finalise %d skips a change that must be finalised first (model: %v); gossamer err=%v set id %d (was %d)",
				f, mErr, gErr, cur, setBefore), nil)
		}
		r.stop = true
		return
	}
	if gErr != nil {
		r.violation("finalise_error", fmt.Sprintf("finalise %d: ApplyScheduledChanges: %v; model: applied=%v", f, gErr, vcRenderOpt(mApplied)), nil)
		return
	}
	if mApplied != nil {
		r.applied++
		c.Count("core_scheduled_applied", 1)
		r.trace = append(r.trace, fmt.Sprintf("  model: scheduled change %s applied -> set %d", renderChange(mApplied), r.m.setID))
	}
	// Forced changes across a finalisation (authset NOTES, "scoped out"): on a proper descendant of the
	// finalised block kept, on an abandoned fork discarded; announced AT or BELOW the finalised block the
	// model follows gossamer's documented pruneChanges convention ("remove changes which are not descendant
	// of the hash": the finalised block's own change stays, those below go) - the in-package engine reads
	// the kept set from gossamer, here the convention itself is applied.
	var keep []*mChange
	for _, fc := range forcedBefore {
		switch {
		case r.t.isDescendentOf(f, fc.canon):
			keep = append(keep, fc)
			c.Count("core_forced_on_descendant_kept", 1)
		case fc.canon == f:
			keep = append(keep, fc)
			c.Count("core_class_forced_announced_by_finalised_block_kept_gossamer_convention", 1)
		case r.t.isDescendentOf(fc.canon, f):
			c.Count("core_class_forced_below_finalised_block_dropped_gossamer_convention", 1)
		default:
			c.Count("core_forced_on_abandoned_fork_discarded", 1)
		}
	}
	r.m.forced = keep
	r.compare(fmt.Sprintf("after finalise %d", f))
}

func vcRunScenario(c *vcommon.Case, sc *vcScenario) {
	defer func() {
		if p := recover(); p != nil {
			if mf, ok := p.(vcMockFailure); ok {
				c.Inconclusive("runtime-instance mock: " + string(mf))
				return
			}
			panic(p)
		}
	}()
	t := &vTree{nodes: sc.Nodes}
	e, err := vcNewEnv(sc)
	if err != nil {
		c.Inconclusive("environment: " + err.Error())
		return
	}
	defer e.close()
	r := &vcRun{c: c, sc: sc, t: t, e: e, m: newAuthSet(t), imported: make([]bool, len(sc.Nodes)), dead: make([]bool, len(sc.Nodes)),
		deadDep: make([]bool, len(sc.Nodes))}
	r.imported[0] = true
	r.compare("at genesis")
	for i, op := range sc.Ops {
		if r.stop {
			break
		}
		r.step = i
		if op.Node <= 0 || op.Node >= len(sc.Nodes) {
			continue
		}
		if op.Kind == "import" {
			r.doImport(op.Node, op.Via)
		} else {
			r.doFinalise(op.Node)
		}
	}
	c.Count("core_scenarios", 1)
	kids := map[int]int{}
	for i := 1; i < len(sc.Nodes); i++ {
		kids[sc.Nodes[i].Parent]++
	}
	for _, k := range kids {
		if k > 1 {
			c.Count("core_scenarios_with_competing_forks", 1)
			break
		}
	}
	if r.applied > 0 {
		c.Count("core_scenarios_with_applied_change", 1)
		c.Distinct(sc.String())
		c.Sample(map[string]any{"scenario": sc.String(), "trace": r.trace, "final_set_id": r.m.setID})
	}
}

// ---------------------------------------------------------------- generator

func vcGenScenario(rnd *vcommon.Rand) *vcScenario {
	n := rnd.Range(3, 10)
	sc := &vcScenario{Nodes: []vNode{{Parent: -1}}}
	pSched, pForced := rnd.Range(15, 45), rnd.Range(8, 35)
	if rnd.Chance(1, 8) {
		pForced = 0
	}
	for i := 1; i <= n; i++ {
		p := i - 1
		if rnd.Chance(30, 100) {
			p = rnd.Intn(i)
		}
		nd := vNode{Parent: p, Number: sc.Nodes[p].Number + 1}
		// is this block the effective block of a forced change announced by an ancestor?
		effOfForced := false
		for a := p; a > 0; a = sc.Nodes[a].Parent {
			if f := sc.Nodes[a].Forced; f != nil && sc.Nodes[a].Number+uint(f.Delay) == nd.Number {
				effOfForced = true
			}
		}
		ps, pf := pSched, pForced
		if effOfForced {
			ps, pf = 60, pForced/4
		}
		if rnd.Chance(ps, 100) {
			nd.Sched = &vAnn{Delay: uint32(rnd.Intn(4)), Auths: 1 + rnd.Intn(40)}
		}
		if rnd.Chance(pf, 100) {
			nd.Forced = &vAnn{Delay: uint32(rnd.Intn(4)), Auths: 41 + rnd.Intn(40)}
			if rnd.Bool() {
				nd.Forced.Median = uint32(rnd.Intn(int(nd.Number) + 2))
			}
			nd.ForcedFirst = rnd.Bool()
		}
		if rnd.Chance(1, 10) {
			nd.Noise = rnd.Range(1, 3)
		}
		sc.Nodes = append(sc.Nodes, nd)
	}
	t := &vTree{nodes: sc.Nodes}
	imported := make([]bool, n+1)
	imported[0] = true
	fin := 0
	stepwise := rnd.Range(35, 95)
	for steps := 0; steps < 4*n+8; steps++ {
		var imps, fins []int
		for b := 1; b <= n; b++ {
			if !imported[b] && imported[sc.Nodes[b].Parent] && t.ancOrEq(fin, sc.Nodes[b].Parent) {
				imps = append(imps, b)
			}
			if imported[b] && t.isDescendentOf(fin, b) {
				fins = append(fins, b)
			}
		}
		if len(imps) == 0 && len(fins) == 0 {
			break
		}
		if len(imps) > 0 && (len(fins) == 0 || rnd.Chance(65, 100)) {
			b := imps[0]
			if rnd.Chance(1, 2) {
				b = vcommon.Pick(rnd, imps)
			}
			imported[b] = true
			sc.Ops = append(sc.Ops, vcOp{Kind: "import", Node: b, Via: rnd.Intn(3)})
			continue
		}
		if len(imps) == 0 && rnd.Chance(1, 6) {
			break
		}
		var next []int
		for _, b := range fins {
			if sc.Nodes[b].Number == sc.Nodes[fin].Number+1 {
				next = append(next, b)
			}
		}
		f := vcommon.Pick(rnd, fins)
		if len(next) > 0 && rnd.Chance(stepwise, 100) {
			f = vcommon.Pick(rnd, next)
		}
		fin = f
		sc.Ops = append(sc.Ops, vcOp{Kind: "finalise", Node: f})
	}
	return sc
}

// ---------------------------------------------------------------- fixed regression corpus

func vcChain(n int) []vNode {
	ns := []vNode{{Parent: -1}}
	for i := 1; i <= n; i++ {
		ns = append(ns, vNode{Parent: i - 1, Number: uint(i)})
	}
	return ns
}

// vcOps: "i3" import node 3 via HandleBlockImport, "a3" HandleBlockImport+announce, "p3" HandleBlockProduced, "f3" finalise.
func vcOps(spec string) []vcOp {
	var ops []vcOp
	for _, f := range strings.Fields(spec) {
		var k byte
		var n int
		fmt.Sscanf(f, "%c%d", &k, &n)
		switch k {
		case 'i':
			ops = append(ops, vcOp{Kind: "import", Node: n, Via: vcViaImport})
		case 'a':
			ops = append(ops, vcOp{Kind: "import", Node: n, Via: vcViaImportAnnounce})
		case 'p':
			ops = append(ops, vcOp{Kind: "import", Node: n, Via: vcViaProduced})
		default:
			ops = append(ops, vcOp{Kind: "finalise", Node: n})
		}
	}
	return ops
}

func vcFixedCorpus() []*vcScenario {
	var out []*vcScenario
	add := func(name string, nodes []vNode, ops string) {
		out = append(out, &vcScenario{Name: name, Nodes: nodes, Ops: vcOps(ops)})
	}
	{ // witness 1 of the missed seeded change (ApplyForcedChanges before HandleDigests): a forced change with delay 0
		// is effective at its announcing block and must be enacted by the import of that very block
		ns := vcChain(4)
		ns[2].Forced = &vAnn{Delay: 0, Auths: 41, Median: 0}
		add("forced #2+0 enacted by the import of #2", ns, "i1 i2 i3 i4 f4")
		add("forced #2+0 enacted by the import of #2 (produced blocks)", ns, "p1 p2 p3 f1 f2 f3")
		ns2 := vcChain(3)
		ns2[1].Forced = &vAnn{Delay: 0, Auths: 42, Median: 0}
		ns2[1].Sched = &vAnn{Delay: 1, Auths: 1}
		add("forced #1+0 next to a scheduled digest in the same header", ns2, "a1 a2 a3 f3")
	}
	{ // witness 2: the effective block (#2) of forced #1+1 announces a scheduled change itself; Substrate registers it
		// before the forced change starts the new set with empty pending collections, so it never bumps the set id
		ns := vcChain(4)
		ns[1].Forced = &vAnn{Delay: 1, Auths: 41, Median: 0}
		ns[2].Sched = &vAnn{Delay: 1, Auths: 1}
		add("effective block #2 of forced #1+1 announces scheduled #2+1; finalise #3", ns, "i1 i2 i3 f3 i4 f4")
		add("effective block #2 of forced #1+1 announces scheduled #2+1; finalise block by block", ns, "i1 i2 f1 f2 i3 f3 i4 f4")
		ns0 := vcChain(3)
		ns0[1].Forced = &vAnn{Delay: 1, Auths: 41, Median: 0}
		ns0[2].Sched = &vAnn{Delay: 0, Auths: 2}
		add("effective block #2 of forced #1+1 announces scheduled #2+0", ns0, "p1 p2 p3 f2 f3")
	}
	{ // forced change applied on import of its effective block; pending standard changes are cleared
		ns := vcChain(6)
		ns[1].Sched = &vAnn{Delay: 4, Auths: 1}
		ns[2].Forced = &vAnn{Delay: 1, Auths: 41, Median: 0}
		add("forced #2+1 applied at import of #3, clears standard #1+4", ns, "i1 i2 i3 i4 i5 f5")
		ns2 := vcChain(5)
		ns2[1].Sched = &vAnn{Delay: 0, Auths: 1}
		ns2[2].Forced = &vAnn{Delay: 1, Auths: 41, Median: 1}
		add("forced #2+1 depends on unfinalised standard #1+0 (median 1): import of #3 refused", ns2, "i1 i2 i3")
		add("forced #2+1 after standard #1+0 was finalised", ns2, "i1 f1 i2 i3 i4 f4")
		ns3 := vcChain(3)
		ns3[1].Sched = &vAnn{Delay: 0, Auths: 1}
		ns3[2].Forced = &vAnn{Delay: 0, Auths: 41, Median: 1}
		add("forced #2+0 depends on unfinalised standard #1+0 (median 1): import of #2 refused", ns3, "i1 i2")
		add("forced #2+0 after standard #1+0 was finalised", ns3, "i1 f1 i2 i3 f3")
	}
	{ // one forced change per fork
		ns := vcChain(5)
		ns[1].Forced = &vAnn{Delay: 3, Auths: 41, Median: 0}
		ns[2].Forced = &vAnn{Delay: 0, Auths: 42, Median: 0}
		add("second forced change (delay 0) on the same fork is refused", ns, "i1 i2 i3")
		fk := []vNode{{Parent: -1}, {Parent: 0, Number: 1}, {Parent: 0, Number: 1}, {Parent: 1, Number: 2}, {Parent: 2, Number: 2}}
		fk[1].Forced = &vAnn{Delay: 1, Auths: 41, Median: 0}
		fk[2].Forced = &vAnn{Delay: 1, Auths: 42, Median: 0}
		add("forced changes on two forks, each applied on its own fork's effective block", fk, "i1 i2 i3 i4")
		fk0 := []vNode{{Parent: -1}, {Parent: 0, Number: 1}, {Parent: 1, Number: 2}, {Parent: 1, Number: 2}, {Parent: 2, Number: 3}, {Parent: 3, Number: 3}}
		fk0[2].Forced = &vAnn{Delay: 0, Auths: 41, Median: 0}
		fk0[3].Sched = &vAnn{Delay: 1, Auths: 1}
		add("fork A forced #2+0, fork B scheduled #2+1: finalise B", fk0, "i1 i3 i2 i5 i4 f1 f3 f5")
	}
	{ // forced and scheduled digest in one block: the forced one wins (both digest orders)
		ns := vcChain(4)
		ns[1].Sched = &vAnn{Delay: 0, Auths: 1}
		ns[1].Forced = &vAnn{Delay: 1, Auths: 41, Median: 0}
		add("forced + scheduled digests in #1", ns, "i1 i2 i3 f3")
		ms := vcChain(4)
		ms[1].Sched = &vAnn{Delay: 0, Auths: 1}
		ms[1].Forced = &vAnn{Delay: 1, Auths: 41, Median: 0}
		ms[1].ForcedFirst = true
		add("forced + scheduled digests in #1 (forced first)", ms, "i1 i2 i3 f3")
	}
	{ // plain scheduled changes through handleBlock: exact mapping scope
		ns := vcChain(8)
		ns[1].Sched = &vAnn{Delay: 1, Auths: 1}
		ns[4].Sched = &vAnn{Delay: 2, Auths: 2}
		add("two scheduled changes finalised exactly at #2 and #6", ns, "i1 a2 f1 f2 p3 i4 i5 i6 f3 f4 f5 f6 i7 i8 f7 f8")
		fk := []vNode{{Parent: -1}, {Parent: 0, Number: 1}, {Parent: 1, Number: 2}, {Parent: 1, Number: 2}, {Parent: 2, Number: 3}, {Parent: 3, Number: 3}, {Parent: 4, Number: 4}}
		fk[2].Sched = &vAnn{Delay: 1, Auths: 1}
		fk[3].Sched = &vAnn{Delay: 0, Auths: 2}
		add("forks A/B with scheduled changes, finalise A", fk, "i1 i2 i3 i4 i5 i6 f2 f4 f6")
	}
	return out
}

// ---------------------------------------------------------------- test

func TestVerifC23Core(t *testing.T) {
	r := vcommon.Start(t, "C23")
	defer r.Finish()
	log.Patch(log.SetLevel(log.Critical)) // global logger: propagates to the loggers of dot/state, dot/digest, dot/core

	// counters are summed over all binaries of the property: every name of this engine starts with core_
	r.Floor("core_blocks_through_handleBlock", 4000)
	r.Floor("core_forced_applied", 200)
	r.Floor("core_forced_delay0_applied_at_announcing_block", 60)
	r.Floor("core_effective_block_of_forced_announces_own_scheduled_change", 40)
	r.Floor("core_finalised_at_or_past_effective_number_of_cleared_change", 15)
	r.Floor("core_next_change_queried_at_or_past_effective_number_of_cleared_change", 30)
	r.Floor("core_standard_cleared_by_forced", 30)
	r.Floor("core_two_grandpa_change_digests_in_one_header", 40)
	r.Floor("core_scheduled_applied", 150)
	r.Floor("core_forced_second_on_fork_rejected", 20)
	r.Floor("core_scenarios_with_competing_forks", 300)
	r.Floor("core_next_change_reported", 100)

	if err := vModelSelfCheck(); err != nil {
		r.Fixed("core-model-selfcheck", 1, func(c *vcommon.Case) { c.Inconclusive("AuthSet model self-validation failed: " + err.Error()) })
		return
	}
	r.Count("core_model_selfcheck_ok", 1)

	fixed := vcFixedCorpus()
	r.Fixed("core-corpus", len(fixed), func(c *vcommon.Case) { vcRunScenario(c, fixed[c.Idx]) })
	r.Cases("core", r.Scale(1200), func(c *vcommon.Case) { vcRunScenario(c, vcGenScenario(c.R)) })
}
