//go:build verif

package vcommon

import (
	"bytes"
	"encoding/hex"
	"fmt"

	"golang.org/x/crypto/blake2b"
)

// SpecTrie: the Polkadot/Substrate state-trie root, written from the
// specification (Polkadot spec §2.4, sp-trie NodeCodec / LayoutV0 / LayoutV1).
// It shares no code with gossamer's pkg/trie.
//
//	header:   01 leaf | 10 branch | 11 branch+value | 001 leaf hashed value | 0001 branch hashed value
//	          partial-key length in the remaining 6/6/6/5/4 bits, saturated value followed by
//	          continuation bytes (255 ... rest)
//	partial:  nibbles packed two per byte; an odd count puts the first nibble alone in the first byte
//	branch:   header | partial | u16 LE child bitmap | value | children
//	value:    compact(len) | bytes          (V0 always, V1 iff len <= 32)
//	          BLAKE2b-256(bytes), 32 raw bytes (V1 and len > 32)
//	child:    compact(len(ref)) | ref  where ref = encoding if len(encoding) < 32 else BLAKE2b-256(encoding)
//	root:     BLAKE2b-256(encoding of the root node); the empty trie's root node encodes as 0x00

// Blake256 is BLAKE2b-256 (x/crypto; independent of lib/common).
func Blake256(b []byte) [32]byte { return blake2b.Sum256(b) }

// KeyToNibbles splits bytes into high/low nibbles.
func KeyToNibbles(k []byte) []byte {
	n := make([]byte, 0, 2*len(k))
	for _, b := range k {
		n = append(n, b>>4, b&15)
	}
	return n
}

// CompactLen is the SCALE compact encoding of a length / unsigned integer < 2^62.
func CompactLen(n uint64) []byte {
	switch {
	case n < 1<<6:
		return []byte{byte(n << 2)}
	case n < 1<<14:
		v := n<<2 | 1
		return []byte{byte(v), byte(v >> 8)}
	case n < 1<<30:
		v := n<<2 | 2
		return []byte{byte(v), byte(v >> 8), byte(v >> 16), byte(v >> 24)}
	default:
		var le []byte
		for x := n; x > 0; x >>= 8 {
			le = append(le, byte(x))
		}
		for len(le) < 4 {
			le = append(le, 0)
		}
		return append([]byte{byte((len(le)-4)<<2 | 3)}, le...)
	}
}

// ScaleBytes is compact(len) | bytes.
func ScaleBytes(b []byte) []byte { return append(CompactLen(uint64(len(b))), b...) }

// SpecHeader encodes a node header: variant in the top bits, lenBits low bits for the length.
func SpecHeader(variant byte, lenBits uint, n int) []byte {
	max := (1 << lenBits) - 1
	if n < max {
		return []byte{variant | byte(n)}
	}
	out := []byte{variant | byte(max)}
	n -= max
	for n >= 255 {
		out = append(out, 255)
		n -= 255
	}
	return append(out, byte(n))
}

// SpecPartial packs nibbles.
func SpecPartial(nib []byte) []byte {
	var out []byte
	i := 0
	if len(nib)%2 == 1 {
		out = append(out, nib[0])
		i = 1
	}
	for ; i < len(nib); i += 2 {
		out = append(out, nib[i]<<4|nib[i+1])
	}
	return out
}

type specEntry struct {
	nib []byte
	val []byte
}

// SpecNodes collects every node encoding reachable from the root, keyed by
// hex(BLAKE2b-256(encoding)); inlined nodes (< 32 bytes) appear only inside
// their parent. Useful for proof oracles.
type SpecNodes map[string][]byte

func specValue(val []byte, version int) (hashed bool, enc []byte) {
	if version == 1 && len(val) > 32 {
		h := Blake256(val)
		return true, h[:]
	}
	return false, ScaleBytes(val)
}

func specBuild(es []specEntry, depth, version int, nodes SpecNodes) []byte {
	if len(es) == 0 {
		return []byte{0}
	}
	if len(es) == 1 {
		nib := es[0].nib[depth:]
		hashed, v := specValue(es[0].val, version)
		var enc []byte
		if hashed {
			enc = SpecHeader(0x20, 5, len(nib))
		} else {
			enc = SpecHeader(0x40, 6, len(nib))
		}
		enc = append(enc, SpecPartial(nib)...)
		return append(enc, v...)
	}
	// common prefix (from depth) of first and last suffices: entries are sorted
	a, b := es[0].nib, es[len(es)-1].nib
	l := depth
	for l < len(a) && l < len(b) && a[l] == b[l] {
		l++
	}
	partial := a[depth:l]
	rest := es
	var hasVal, hashed bool
	var v []byte
	if len(es[0].nib) == l {
		hasVal = true
		hashed, v = specValue(es[0].val, version)
		rest = es[1:]
	}
	var bitmap uint16
	var children []byte
	for i := 0; i < len(rest); {
		nb := rest[i].nib[l]
		j := i
		for j < len(rest) && rest[j].nib[l] == nb {
			j++
		}
		cenc := specBuild(rest[i:j], l+1, version, nodes)
		bitmap |= 1 << nb
		if len(cenc) < 32 {
			children = append(children, ScaleBytes(cenc)...)
		} else {
			h := Blake256(cenc)
			if nodes != nil {
				nodes[hex.EncodeToString(h[:])] = cenc
			}
			children = append(children, ScaleBytes(h[:])...)
		}
		i = j
	}
	var enc []byte
	switch {
	case !hasVal:
		enc = SpecHeader(0x80, 6, len(partial))
	case hashed:
		enc = SpecHeader(0x10, 4, len(partial))
	default:
		enc = SpecHeader(0xC0, 6, len(partial))
	}
	enc = append(enc, SpecPartial(partial)...)
	enc = append(enc, byte(bitmap), byte(bitmap>>8))
	if hasVal {
		enc = append(enc, v...)
	}
	return append(enc, children...)
}

// SpecRootNodes returns the spec root of the map under state version 0 or 1,
// the root node encoding and (if wanted) every hashed node encoding.
func SpecRootNodes(m *OrdMap, version int, collect bool) (root [32]byte, rootEnc []byte, nodes SpecNodes) {
	ks, vs := m.Entries()
	es := make([]specEntry, len(ks))
	for i := range ks {
		es[i] = specEntry{KeyToNibbles(ks[i]), vs[i]}
	}
	if collect {
		nodes = SpecNodes{}
	}
	rootEnc = specBuild(es, 0, version, nodes)
	root = Blake256(rootEnc)
	if collect {
		nodes[hex.EncodeToString(root[:])] = rootEnc
	}
	return root, rootEnc, nodes
}

// SpecRoot returns the spec root of the map under state version 0 or 1.
func SpecRoot(m *OrdMap, version int) [32]byte {
	r, _, _ := SpecRootNodes(m, version, false)
	return r
}

// SpecSelfCheck validates the reference against constants that are
// independent of gossamer: the spec's empty root and roots published in
// Substrate's own trie tests (sp-trie `trie_root` examples).
func SpecSelfCheck() error {
	want := "03170a2e7597b7b7e3d84c05391d139a62b157e78786d8c082f29dcf4c111314"
	for v := 0; v < 2; v++ {
		got := SpecRoot(NewOrdMap(), v)
		if hex.EncodeToString(got[:]) != want {
			return fmt.Errorf("spec self-check: empty root v%d = %x", v, got)
		}
	}
	// single leaf: key 0xaa value 0xbb  ->  header 0x42, partial aa, value 04 bb
	m := NewOrdMap()
	m.Put([]byte{0xaa}, []byte{0xbb})
	_, enc, _ := SpecRootNodes(m, 0, false)
	if !bytes.Equal(enc, []byte{0x42, 0xaa, 0x04, 0xbb}) {
		return fmt.Errorf("spec self-check: leaf encoding %x", enc)
	}
	// two leaves under a branch with empty partial key:
	// keys 0x10,0x20 -> branch header 0x80, bitmap bits 1,2 = 0x06 0x00, children inline
	m = NewOrdMap()
	m.Put([]byte{0x10}, []byte{1})
	m.Put([]byte{0x20}, []byte{2})
	_, enc, _ = SpecRootNodes(m, 0, false)
	exp := []byte{0x80, 0x06, 0x00, 0x10, 0x41, 0x00, 0x04, 0x01, 0x10, 0x41, 0x00, 0x04, 0x02}
	if !bytes.Equal(enc, exp) {
		return fmt.Errorf("spec self-check: branch encoding %x", enc)
	}
	// header continuation: 63 -> 7f 00 ; 318 -> 7f ff 00 ; 62 -> 7e
	if !bytes.Equal(SpecHeader(0x40, 6, 63), []byte{0x7f, 0}) ||
		!bytes.Equal(SpecHeader(0x40, 6, 318), []byte{0x7f, 0xff, 0}) ||
		!bytes.Equal(SpecHeader(0x40, 6, 62), []byte{0x7e}) ||
		!bytes.Equal(SpecHeader(0x10, 4, 15), []byte{0x1f, 0}) ||
		!bytes.Equal(SpecHeader(0x20, 5, 31), []byte{0x3f, 0}) {
		return fmt.Errorf("spec self-check: header continuation")
	}
	return nil
}
