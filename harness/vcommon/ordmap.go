//go:build verif

package vcommon

import (
	"bytes"
	"sort"
)

// OrdMap is the reference ordered map over byte-string keys (sorted slice).
// Written from the property text only; it shares no code with gossamer.
type OrdMap struct {
	keys [][]byte
	vals [][]byte
}

// NewOrdMap returns an empty map.
func NewOrdMap() *OrdMap { return &OrdMap{} }

func (m *OrdMap) find(k []byte) (int, bool) {
	i := sort.Search(len(m.keys), func(i int) bool { return bytes.Compare(m.keys[i], k) >= 0 })
	return i, i < len(m.keys) && bytes.Equal(m.keys[i], k)
}

// Len returns the number of keys.
func (m *OrdMap) Len() int { return len(m.keys) }

// Put inserts or overwrites.
func (m *OrdMap) Put(k, v []byte) {
	k = append([]byte{}, k...)
	v = append([]byte{}, v...)
	i, ok := m.find(k)
	if ok {
		m.vals[i] = v
		return
	}
	m.keys = append(m.keys, nil)
	m.vals = append(m.vals, nil)
	copy(m.keys[i+1:], m.keys[i:])
	copy(m.vals[i+1:], m.vals[i:])
	m.keys[i], m.vals[i] = k, v
}

// Get returns the value and presence.
func (m *OrdMap) Get(k []byte) ([]byte, bool) {
	i, ok := m.find(k)
	if !ok {
		return nil, false
	}
	return m.vals[i], true
}

// Delete removes a key, reporting whether it was present.
func (m *OrdMap) Delete(k []byte) bool {
	i, ok := m.find(k)
	if !ok {
		return false
	}
	m.keys = append(m.keys[:i], m.keys[i+1:]...)
	m.vals = append(m.vals[:i], m.vals[i+1:]...)
	return true
}

// NextKey returns the smallest key strictly greater than k.
func (m *OrdMap) NextKey(k []byte) ([]byte, bool) {
	i := sort.Search(len(m.keys), func(i int) bool { return bytes.Compare(m.keys[i], k) > 0 })
	if i == len(m.keys) {
		return nil, false
	}
	return m.keys[i], true
}

// KeysWithPrefix returns matching keys in ascending order (byte-wise prefix).
func (m *OrdMap) KeysWithPrefix(p []byte) [][]byte {
	var out [][]byte
	for _, k := range m.keys {
		if bytes.HasPrefix(k, p) {
			out = append(out, k)
		}
	}
	return out
}

// ClearPrefix removes every key with the prefix and returns how many.
func (m *OrdMap) ClearPrefix(p []byte) int {
	ks := m.KeysWithPrefix(p)
	for _, k := range ks {
		m.Delete(k)
	}
	return len(ks)
}

// ClearPrefixLimit removes the lexicographically smallest matching keys, at
// most limit of them; returns the number removed and whether none remain.
func (m *OrdMap) ClearPrefixLimit(p []byte, limit int) (int, bool) {
	ks := m.KeysWithPrefix(p)
	n := 0
	for _, k := range ks {
		if n >= limit {
			break
		}
		m.Delete(k)
		n++
	}
	return n, n == len(ks)
}

// Keys returns all keys ascending (shared backing; do not modify).
func (m *OrdMap) Keys() [][]byte { return m.keys }

// Entries returns the key/value pairs in ascending key order.
func (m *OrdMap) Entries() (ks, vs [][]byte) { return m.keys, m.vals }

// Clone deep-copies the map.
func (m *OrdMap) Clone() *OrdMap {
	n := &OrdMap{keys: make([][]byte, len(m.keys)), vals: make([][]byte, len(m.vals))}
	for i := range m.keys {
		n.keys[i] = append([]byte{}, m.keys[i]...)
		n.vals[i] = append([]byte{}, m.vals[i]...)
	}
	return n
}

// Equal compares with a Go map keyed by string(key).
func (m *OrdMap) EqualMap(o map[string][]byte) bool {
	if len(o) != len(m.keys) {
		return false
	}
	for i, k := range m.keys {
		v, ok := o[string(k)]
		if !ok || !bytes.Equal(v, m.vals[i]) {
			return false
		}
	}
	return true
}
