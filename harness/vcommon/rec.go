//go:build verif

// Package vcommon is the shared runtime-monitoring plumbing of /verif:
// deterministic PRNG, per-case recorder (JSONL event log read by ./check),
// known-finding switch, and small reference models.
//
// Protocol (one JSON object per line on the file named by VERIF_OUT):
//
//	{"t":"b","c":"<group>/<idx>"}                    case begins (written before it runs)
//	{"t":"viol","c":..,"class":..,"msg":..,"w":..}   oracle refuted the property
//	{"t":"known","c":..,"id":..,"msg":..,"w":..}     refutation explained by an OPEN known finding
//	{"t":"inc","c":..,"reason":..}                   inconclusive (never folded into ok/violation)
//	{"t":"sum", ...}                                 end-of-shard summary (absence => the child died)
package vcommon

import (
	"encoding/json"
	"fmt"
	"hash/fnv"
	"os"
	"runtime/debug"
	"sort"
	"strconv"
	"strings"
	"sync"
	"testing"
	"time"
)

// Run is one shard of one check.
type Run struct {
	Prop     string
	Seed     uint64
	Tier     string
	Shard    int
	Shards   int
	ScaleF   int
	OnlyCase string

	t  *testing.T
	mu sync.Mutex

	out      *os.File
	counters map[string]int64
	floors   map[string]int64
	distinct map[uint64]struct{}
	samples  []any
	evals    int64
	cases    int64
	open     map[string]bool
	nviol    int
	nknown   map[string]int
	ninc     int
	start    time.Time
}

func envInt(name string, def int) int {
	if s := os.Getenv(name); s != "" {
		if v, err := strconv.Atoi(s); err == nil {
			return v
		}
	}
	return def
}

// Start opens the recorder for property prop. It never fails the test on
// its own: verdicts are taken by ./check from the event log.
func Start(t *testing.T, prop string) *Run {
	r := &Run{
		Prop: prop, t: t,
		Tier:     os.Getenv("VERIF_TIER"),
		Shard:    envInt("VERIF_SHARD", 0),
		Shards:   envInt("VERIF_SHARDS", 1),
		ScaleF:   envInt("VERIF_SCALE", 1),
		OnlyCase: os.Getenv("VERIF_ONLY_CASE"),
		counters: map[string]int64{},
		floors:   map[string]int64{},
		distinct: map[uint64]struct{}{},
		open:     map[string]bool{},
		nknown:   map[string]int{},
		start:    time.Now(),
	}
	if r.Tier == "" {
		r.Tier = "quick"
	}
	if s := os.Getenv("VERIF_SEED"); s != "" {
		if v, err := strconv.ParseInt(s, 10, 64); err == nil {
			r.Seed = uint64(v)
		} else if u, err := strconv.ParseUint(s, 10, 64); err == nil {
			r.Seed = u
		}
	} else {
		r.Seed = 20260921
	}
	if r.Shards < 1 {
		r.Shards = 1
	}
	if r.ScaleF < 1 {
		r.ScaleF = 1
	}
	if p := os.Getenv("VERIF_OUT"); p != "" {
		f, err := os.OpenFile(p, os.O_CREATE|os.O_WRONLY|os.O_APPEND, 0o644)
		if err != nil {
			t.Fatalf("vcommon: cannot open VERIF_OUT: %v", err)
		}
		r.out = f
	} else {
		r.out = os.Stdout
	}
	if p := os.Getenv("VERIF_KNOWN"); p != "" {
		if b, err := os.ReadFile(p); err == nil {
			var kf struct {
				Findings []struct {
					ID     string `json:"id"`
					Status string `json:"status"`
				} `json:"findings"`
			}
			if json.Unmarshal(b, &kf) == nil {
				for _, f := range kf.Findings {
					if f.Status == "open" {
						r.open[f.ID] = true
					}
				}
			}
		}
	}
	return r
}

// Scale multiplies a quick-tier case count by the tier's scale factor.
func (r *Run) Scale(n int) int { return n * r.ScaleF }

// Thorough reports whether the thorough tier is running.
func (r *Run) Thorough() bool { return r.Tier == "thorough" }

// IsOpen reports whether known finding id is listed as open.
func (r *Run) IsOpen(id string) bool { return r.open[id] }

func (r *Run) emit(m map[string]any) {
	b, err := json.Marshal(m)
	if err != nil {
		b, _ = json.Marshal(map[string]any{"t": m["t"], "c": m["c"], "class": m["class"], "id": m["id"],
			"msg": fmt.Sprint(m["msg"]), "w": fmt.Sprintf("%+v", m["w"])})
	}
	b = append(b, '\n')
	r.mu.Lock()
	_, _ = r.out.Write(b)
	r.mu.Unlock()
}

// Case is one generated (or fixed) scenario with its own PRNG.
type Case struct {
	Run   *Run
	ID    string
	Idx   int
	R     *Rand
	viol  int
	known int
}

func caseSeed(seed uint64, prop, group string, idx int) uint64 {
	h := fnv.New64a()
	fmt.Fprintf(h, "%d|%s|%s|%d", seed, prop, group, idx)
	return h.Sum64()
}

func (r *Run) runCase(group string, idx int, seed uint64, fn func(c *Case)) {
	id := group + "/" + strconv.Itoa(idx)
	if r.OnlyCase != "" && r.OnlyCase != id {
		return
	}
	c := &Case{Run: r, ID: id, Idx: idx, R: NewRand(caseSeed(seed, r.Prop, group, idx))}
	r.emit(map[string]any{"t": "b", "c": id})
	r.mu.Lock()
	r.cases++
	r.mu.Unlock()
	func() {
		defer func() {
			if p := recover(); p != nil {
				st := string(debug.Stack())
				if len(st) > 6000 {
					st = st[:6000]
				}
				c.Violation("panic", fmt.Sprint(p), map[string]any{"stack": st})
			}
		}()
		fn(c)
	}()
}

// Cases runs the cases of a seeded group: indexes [0,n) that belong to this
// shard. Case i is a pure function of (VERIF_SEED, property, group, i), so a
// replay re-executes exactly one case.
func (r *Run) Cases(group string, n int, fn func(c *Case)) {
	for i := 0; i < n; i++ {
		if i%r.Shards != r.Shard && r.OnlyCase == "" {
			continue
		}
		r.runCase(group, i, r.Seed, fn)
	}
}

// Fixed runs the cases of a seed-independent group (regression corpus).
func (r *Run) Fixed(group string, n int, fn func(c *Case)) {
	for i := 0; i < n; i++ {
		if i%r.Shards != r.Shard && r.OnlyCase == "" {
			continue
		}
		r.runCase(group, i, 0, fn)
	}
}

// Violation records that the oracle refuted the property on this case.
func (c *Case) Violation(class, msg string, witness any) {
	r := c.Run
	r.mu.Lock()
	r.nviol++
	n := r.nviol
	r.mu.Unlock()
	c.viol++
	if n > 200 { // keep logs bounded; the count is still reported
		return
	}
	r.emit(map[string]any{"t": "viol", "c": c.ID, "class": class, "msg": msg, "w": witness})
}

// Known records a refutation that the harness' predicate attributes to the
// known finding id. If id is not listed as open in known_findings.json (never
// listed, or recorded as fixed) the refutation is a plain violation.
func (c *Case) Known(id, msg string, witness any) {
	r := c.Run
	if !r.open[id] {
		c.Violation("unlisted:"+id, msg, witness)
		return
	}
	r.mu.Lock()
	r.nknown[id]++
	n := r.nknown[id]
	r.mu.Unlock()
	c.known++
	if n > 3 {
		return
	}
	r.emit(map[string]any{"t": "known", "c": c.ID, "id": id, "msg": msg, "w": witness})
}

// Failed reports whether this case already recorded a violation or known hit.
func (c *Case) Failed() bool { return c.viol+c.known > 0 }

// Inconclusive records that the case could not be decided.
func (c *Case) Inconclusive(reason string) {
	r := c.Run
	r.mu.Lock()
	r.ninc++
	n := r.ninc
	r.mu.Unlock()
	if n > 50 {
		return
	}
	r.emit(map[string]any{"t": "inc", "c": c.ID, "reason": reason})
}

// Count adds n to a named observation counter (what the monitor saw).
func (c *Case) Count(name string, n int) { c.Run.Count(name, n) }

// Count adds n to a named observation counter.
func (r *Run) Count(name string, n int) {
	r.mu.Lock()
	r.counters[name] += int64(n)
	r.mu.Unlock()
}

// Eval counts oracle decisions.
func (c *Case) Eval(n int) {
	c.Run.mu.Lock()
	c.Run.evals += int64(n)
	c.Run.mu.Unlock()
}

// Distinct registers the structural fingerprint of a non-trivial case.
func (c *Case) Distinct(key string) {
	h := fnv.New64a()
	_, _ = h.Write([]byte(key))
	v := h.Sum64()
	r := c.Run
	r.mu.Lock()
	if len(r.distinct) < 400000 {
		r.distinct[v] = struct{}{}
	}
	r.mu.Unlock()
}

// Sample keeps a few concrete cases for the evidence file.
func (c *Case) Sample(v any) {
	r := c.Run
	r.mu.Lock()
	if len(r.samples) < 4 {
		r.samples = append(r.samples, map[string]any{"case": c.ID, "observed": v})
	}
	r.mu.Unlock()
}

// Floor declares a coverage floor: the named counter, summed over all shards,
// must reach need, otherwise the run is inconclusive (it observed too little).
func (r *Run) Floor(name string, need int) {
	r.mu.Lock()
	r.floors[name] = int64(need)
	r.mu.Unlock()
}

// Finish writes the shard summary. Must be the last call.
func (r *Run) Finish() {
	r.mu.Lock()
	d := make([]string, 0, len(r.distinct))
	for k := range r.distinct {
		d = append(d, strconv.FormatUint(k, 36))
	}
	sort.Strings(d)
	sum := map[string]any{
		"t": "sum", "prop": r.Prop, "shard": r.Shard, "shards": r.Shards, "seed": r.Seed, "tier": r.Tier,
		"cases": r.cases, "evals": r.evals, "counters": r.counters, "floors": r.floors,
		"distinct": d, "samples": r.samples, "viol": r.nviol, "known": r.nknown, "inc": r.ninc,
		"wall_s": time.Since(r.start).Seconds(),
	}
	r.mu.Unlock()
	r.emit(sum)
	if r.out != os.Stdout {
		_ = r.out.Sync()
	}
}

// Hex renders bytes for witnesses.
func Hex(b []byte) string {
	if b == nil {
		return "nil"
	}
	const d = "0123456789abcdef"
	var sb strings.Builder
	sb.WriteString("0x")
	for _, x := range b {
		sb.WriteByte(d[x>>4])
		sb.WriteByte(d[x&15])
	}
	return sb.String()
}
