//go:build verif

package vcommon

// Rand is a small deterministic PRNG (splitmix64-seeded xoshiro256**), owned
// by the harness so that case generation never depends on math/rand versions.
type Rand struct{ s [4]uint64 }

func splitmix(x *uint64) uint64 {
	*x += 0x9e3779b97f4a7c15
	z := *x
	z = (z ^ (z >> 30)) * 0xbf58476d1ce4e5b9
	z = (z ^ (z >> 27)) * 0x94d049bb133111eb
	return z ^ (z >> 31)
}

// NewRand seeds a generator.
func NewRand(seed uint64) *Rand {
	r := &Rand{}
	for i := range r.s {
		r.s[i] = splitmix(&seed)
	}
	return r
}

func rotl(x uint64, k uint) uint64 { return (x << k) | (x >> (64 - k)) }

// Uint64 returns the next value.
func (r *Rand) Uint64() uint64 {
	s := &r.s
	res := rotl(s[1]*5, 7) * 9
	t := s[1] << 17
	s[2] ^= s[0]
	s[3] ^= s[1]
	s[1] ^= s[2]
	s[0] ^= s[3]
	s[2] ^= t
	s[3] = rotl(s[3], 45)
	return res
}

// Intn returns a value in [0,n); n<=0 yields 0.
func (r *Rand) Intn(n int) int {
	if n <= 0 {
		return 0
	}
	return int(r.Uint64() % uint64(n))
}

// Range returns a value in [lo,hi].
func (r *Rand) Range(lo, hi int) int {
	if hi <= lo {
		return lo
	}
	return lo + r.Intn(hi-lo+1)
}

// Bool returns a fair coin.
func (r *Rand) Bool() bool { return r.Uint64()&1 == 1 }

// Chance returns true with probability num/den.
func (r *Rand) Chance(num, den int) bool { return r.Intn(den) < num }

// Bytes returns n pseudo-random bytes.
func (r *Rand) Bytes(n int) []byte {
	b := make([]byte, n)
	for i := 0; i < n; i += 8 {
		v := r.Uint64()
		for j := 0; j < 8 && i+j < n; j++ {
			b[i+j] = byte(v >> (8 * j))
		}
	}
	return b
}

// Perm returns a permutation of [0,n).
func (r *Rand) Perm(n int) []int {
	p := make([]int, n)
	for i := range p {
		p[i] = i
	}
	for i := n - 1; i > 0; i-- {
		j := r.Intn(i + 1)
		p[i], p[j] = p[j], p[i]
	}
	return p
}

// Pick returns one element of xs.
func Pick[T any](r *Rand, xs []T) T { return xs[r.Intn(len(xs))] }

// Fork derives an independent generator.
func (r *Rand) Fork() *Rand { return NewRand(r.Uint64()) }
