//go:build verif

package conc

// C34, notifier variant: the same workloads and oracles as c34_test.go, but the
// TransactionState has 1-3 registered status channels, as it has in production as
// soon as a websocket client subscribed with author_submitAndWatchExtrinsic
// (dot/rpc/subscription/websocket.go -> GetStatusNotifierChannel; the listener
// goroutine of listeners.go frees and then closes the channel when it ends).
// With a listener every Push / AddToPool takes notifierLock, fans out to one
// goroutine per matching channel and waits for them (dot/state/transaction.go).
//
// Listener kinds:
//   drained          a consumer goroutine receives until the clients joined, then Free + close (production order)
//   slow             the channel is pre-filled by the harness up to capacity-2, the consumer yields/sleeps between
//                    two receives: the buffer is full most of the time
//   full-undrained   pre-filled to capacity, nobody reads while the clients run (a subscriber that stopped reading)
//   freed-in-flight  the consumer receives k statuses, then calls FreeStatusNotifierChannel and closes the channel
//                    while the clients are still pushing
//
// Oracles: those of the plain variant (porcupine vs SeqPQ, yielded-twice, drain order, race detector, recovered
// panics; a send on a channel closed after Free kills the process => driver class crash) plus "no operation blocks
// for ever", decided from goroutine states (hang.go). Deliveries are only COUNTED (the property does not state them).

import (
	"fmt"
	"runtime"
	"sort"
	"strings"
	"sync"
	"sync/atomic"
	"time"

	"github.com/anishathalye/porcupine"

	"github.com/ChainSafe/gossamer/dot/state"
	"github.com/ChainSafe/gossamer/lib/transaction"
	"github.com/ChainSafe/gossamer/zz_verif/vcommon"
)

// notifyMarker is what the harness pre-fills a channel with; the code under test never produces it.
const notifyMarker = transaction.Status(-77)

type lsnKind uint8

const (
	lsnDrain lsnKind = iota
	lsnSlow
	lsnFull
	lsnFree
)

var lsnKindName = [...]string{"drained", "slow", "full_undrained", "freed_in_flight"}

type lsnSpec struct {
	Kind  lsnKind
	ID    uint32 // the transaction (extrinsic) the channel is registered for
	After int    // freed-in-flight: statuses received before the free
	Spin  int    // scheduler yields before the free / between two receives of a slow consumer
}

type notifySpec struct{ lsn []lsnSpec }

func (n *notifySpec) sig() string {
	var sb strings.Builder
	sb.WriteString("notify")
	for _, l := range n.lsn {
		fmt.Fprintf(&sb, ":%s/%d", lsnKindName[l.Kind][:2], l.After)
	}
	sb.WriteByte('|')
	return sb.String()
}

type lsn struct {
	lsnSpec
	ch         chan transaction.Status
	gid        string
	done       chan struct{}
	got        []transaction.Status // statuses sent by the code under test
	prefilled  int
	markers    int
	beforeFree int
	freedEarly bool
	freeCall   int64
	freeRet    int64
}

func (l *lsn) recv(s transaction.Status) {
	if s == notifyMarker {
		l.markers++
	} else {
		l.got = append(l.got, s)
	}
}

func (l *lsn) drainRest() {
	for {
		select {
		case s, ok := <-l.ch:
			if !ok {
				return
			}
			l.recv(s)
		default:
			return
		}
	}
}

type listeners struct {
	ts    *state.TransactionState
	l     []*lsn
	stop  chan struct{}
	start chan struct{}
	gids  []string
}

// startListeners registers the channels, pre-fills the slow/full ones and starts the consumers. The freeing
// consumer waits for ls.start, which runClientsWatched closes when it releases the clients.
func startListeners(ts *state.TransactionState, spec *notifySpec, clk *atomic.Int64, timed bool) *listeners {
	ls := &listeners{ts: ts, stop: make(chan struct{}), start: make(chan struct{})}
	var ready sync.WaitGroup
	for _, sp := range spec.lsn {
		l := &lsn{lsnSpec: sp, ch: ts.GetStatusNotifierChannel(extOf(sp.ID)), done: make(chan struct{})}
		ls.l = append(ls.l, l)
		fill := 0
		switch sp.Kind {
		case lsnFull:
			fill = cap(l.ch)
		case lsnSlow:
			fill = cap(l.ch) - 2
		}
		for i := 0; i < fill; i++ { // never blocks, whatever the capacity of the channel is
			select {
			case l.ch <- notifyMarker:
				l.prefilled++
			default:
			}
		}
		if sp.Kind == lsnFull {
			continue // nobody reads; released by finish()
		}
		ready.Add(1)
		go func() {
			defer close(l.done)
			l.gid = goID()
			ready.Done()
			release := func() { // what ExtrinsicSubmitListener.Listen defers: free, then close
				ts.FreeStatusNotifierChannel(l.ch)
				l.drainRest()
				close(l.ch)
			}
			if l.Kind == lsnFree {
				select {
				case <-ls.start:
				case <-ls.stop:
					release()
					return
				}
				for n := 0; n < l.After; n++ {
					select {
					case s := <-l.ch:
						l.recv(s)
					case <-ls.stop:
						release()
						return
					}
				}
				l.beforeFree = len(l.got)
				for i := 0; i < l.Spin; i++ {
					runtime.Gosched()
				}
				if timed {
					l.freeCall = clk.Add(1)
				}
				ts.FreeStatusNotifierChannel(l.ch)
				if timed {
					l.freeRet = clk.Add(1)
				}
				l.freedEarly = true
				l.drainRest()
				close(l.ch)
				return
			}
			for n := 0; ; n++ {
				select {
				case s := <-l.ch:
					l.recv(s)
					if l.Kind == lsnSlow {
						for i := 0; i < l.Spin; i++ {
							runtime.Gosched()
						}
						if n%3 == 0 {
							time.Sleep(30 * time.Microsecond)
						}
					}
				case <-ls.stop:
					release()
					return
				}
			}
		}()
	}
	ready.Wait()
	for _, l := range ls.l {
		if l.gid != "" {
			ls.gids = append(ls.gids, l.gid)
		}
	}
	return ls
}

func (ls *listeners) watch() *hangWatch {
	return &hangWatch{start: ls.start, consumers: func() []string { return ls.gids }}
}

// finish judges the hang monitor's outcome and ends the consumers. false: the case is over (verdict recorded).
func (ls *listeners) finish(c *vcommon.Case, name string, h history, witness func() map[string]any) bool {
	if h.Sampled {
		c.Count("notify_hangmon_sampled_runs", 1)
	}
	if h.Deadlock != "" {
		close(ls.stop) // the consumers that still can will leave; the parked ones leak
		w := witness()
		w["parked_goroutines"] = strings.Split(h.Deadlock, "; ")
		w["stacks"] = h.Stacks
		w["listeners"] = ls.describe()
		c.Count("notify_hangmon_deadlocks", 1)
		c.Violation("deadlock", name+": an operation never returns: every unfinished client and every goroutine inside dot/state / lib/transaction is "+
			"parked on a lock, a WaitGroup or a channel send on two consecutive stack samples, and no status-channel consumer can drain any more (exited, "+
			"idle on an empty channel, or itself parked on notifierLock): "+h.Deadlock, w)
		return false
	}
	close(ls.stop)
	if h.Hung {
		return true // reported INCONCLUSIVE by the caller; consumers are not waited for
	}
	t := time.NewTimer(joinTimeout)
	defer t.Stop()
	for _, l := range ls.l {
		if l.Kind == lsnFull {
			ls.ts.FreeStatusNotifierChannel(l.ch)
			l.drainRest()
			close(l.ch)
			continue
		}
		select {
		case <-l.done:
		case <-t.C:
			c.Inconclusive(name + ": a status-channel consumer did not finish after the clients joined")
			return false
		}
	}
	return true
}

func (ls *listeners) describe() []string {
	var out []string
	for _, l := range ls.l {
		out = append(out, fmt.Sprintf("%s listener on tx %x (free after %d statuses)", lsnKindName[l.Kind], l.ID, l.After))
	}
	return out
}

// account records what the listeners saw. calls[id] = Push/AddToPool calls for tx id (each of them notifies, also a
// refused duplicate push); want = the status these calls announce. Nothing here is a violation: the property is
// about the queue, deliveries are evidence that the fan-out path really ran.
func (ls *listeners) account(c *vcommon.Case, calls map[uint32]int, totalCalls int, want transaction.Status, timed bool, clientOps []porcupine.Operation) {
	c.Count("notify_push_calls_with_listener_registered", totalCalls)
	var firstCall, lastRet int64 = 1 << 62, 0
	for _, o := range clientOps {
		if in, ok := o.Input.(pqIn); ok && in.Kind == pqPush {
			if o.Call < firstCall {
				firstCall = o.Call
			}
			if o.Return > lastRet {
				lastRet = o.Return
			}
		}
	}
	for _, l := range ls.l {
		k := lsnKindName[l.Kind]
		n := calls[l.ID]
		c.Count("notify_listeners_"+k, 1)
		c.Count("notify_push_calls_to_listened_tx", n)
		c.Count("notify_statuses_delivered", len(l.got))
		c.Count("notify_statuses_delivered_"+k, len(l.got))
		if l.markers != l.prefilled {
			c.Count("notify_harness_marker_mismatch", 1)
		}
		for _, s := range l.got {
			if s != want {
				c.Count("notify_unexpected_status_value", 1)
			}
		}
		if len(l.got) > n {
			c.Count("notify_overdelivered", 1)
		}
		switch l.Kind {
		case lsnDrain:
			if len(l.got) != n {
				c.Count("notify_drained_listener_missed_statuses", n-len(l.got))
			}
		case lsnFull:
			c.Count("notify_dropped_on_full_channel", n-len(l.got))
		case lsnSlow:
			c.Count("notify_dropped_on_slow_channel", n-len(l.got))
		case lsnFree:
			if !l.freedEarly {
				c.Count("notify_free_only_after_join", 1)
				break
			}
			c.Count("notify_frees_before_join", 1)
			if timed {
				if l.freeCall > firstCall && l.freeRet < lastRet {
					c.Count("notify_free_during_push_workload", 1)
				}
				for _, o := range clientOps {
					if in, ok := o.Input.(pqIn); ok && in.Kind == pqPush && o.Call < l.freeRet && l.freeCall < o.Return {
						c.Count("notify_free_overlaps_a_push_call", 1)
						break
					}
				}
			} else if l.beforeFree >= 1 && len(l.got) < n {
				// no clock in this workload: a notification arrived before the free (a push had begun) and at
				// least one push of this tx was not delivered any more (it came after the free)
				c.Count("notify_free_during_push_workload", 1)
			}
		}
	}
}

// ---------------------------------------------------------------------------
// plans

var notifyProfiles = [][]lsnKind{
	{lsnDrain}, {lsnFree}, {lsnFree}, {lsnDrain, lsnFree}, {lsnSlow, lsnFree}, {lsnFull, lsnFree}, {lsnDrain, lsnFull, lsnFree},
	{lsnFull}, {lsnSlow}, {lsnFree, lsnFree, lsnDrain}, {lsnDrain, lsnDrain}, {lsnSlow, lsnFull, lsnDrain},
}

// genNotifyPlan is genPQPlan on TransactionState plus listeners on the most pushed transactions; every client gets
// one or two of its pushes redirected to a listened transaction, so that notifications come from several clients
// (cross-client duplicate pushes: refused by the queue, still announced).
func genNotifyPlan(r *vcommon.Rand, maxTotal int, search bool) pqPlan {
	p := genPQPlan(r, maxTotal, search)
	p.kind = 1
	freq := map[uint32]int{}
	var order []uint32
	for _, prog := range p.progs {
		for _, in := range prog {
			if in.Kind == pqPush {
				if freq[in.ID] == 0 {
					order = append(order, in.ID)
				}
				freq[in.ID]++
			}
		}
	}
	if len(order) == 0 {
		p.progs[0][0] = pqIn{Kind: pqPush, ID: 1<<16 | 1, Prio: 1}
		order, freq = []uint32{1<<16 | 1}, map[uint32]int{1<<16 | 1: 1}
	}
	sort.SliceStable(order, func(i, j int) bool { return freq[order[i]] > freq[order[j]] })
	kinds := vcommon.Pick(r, notifyProfiles)
	spec := &notifySpec{}
	for i, k := range kinds {
		id := order[i%len(order)]
		if r.Chance(1, 4) {
			id = order[0] // several channels for one extrinsic
		}
		after := r.Intn(3)
		if !search && after == 0 {
			after = 1 // clock-free workload: "free while pushes are in flight" is only observable through a delivery
		}
		spec.lsn = append(spec.lsn, lsnSpec{Kind: k, ID: id, After: after, Spin: r.Intn(40)})
	}
	for ci := range p.progs {
		for n := r.Range(1, 2); n > 0; n-- {
			var pushes []int
			for i, in := range p.progs[ci] {
				if in.Kind == pqPush {
					pushes = append(pushes, i)
				}
			}
			if len(pushes) == 0 {
				break
			}
			p.progs[ci][vcommon.Pick(r, pushes)].ID = vcommon.Pick(r, spec.lsn).ID
		}
	}
	p.notify = spec
	return p
}

// notifyCorpus: seed-independent plans, one per listener behaviour; even index timed, odd index clock-free.
func notifyCorpus(idx int) (pqPlan, bool) {
	const A, B = uint32(0xa0001), uint32(0xa0002)
	clients := 4
	p := pqPlan{kind: 1, yield: []int{0, 50}[idx/2%2], procs: []int{0, 4, 2, 8}[idx/2%4]}
	timed := idx%2 == 0
	rounds := 3
	if !timed {
		rounds = 10
	}
	for ci := 0; ci < clients; ci++ {
		var prog []pqIn
		for i := 0; i < rounds; i++ {
			own := uint32(ci+1)<<16 | uint32(i+1)
			switch ci % 2 {
			case 0:
				prog = append(prog, pqIn{Kind: pqPush, ID: A, Prio: 5}, pqIn{Kind: pqPush, ID: own, Prio: uint64(i % 2)}, pqIn{Kind: pqPop})
			default:
				prog = append(prog, pqIn{Kind: pqPush, ID: B, Prio: 5}, pqIn{Kind: pqRemove, ID: A}, pqIn{Kind: pqPush, ID: A, Prio: 7})
			}
		}
		if timed {
			prog = prog[:boundPer(clients, len(prog), 64, true)]
		}
		p.progs = append(p.progs, prog)
	}
	specs := [][]lsnSpec{
		{{Kind: lsnDrain, ID: A}},
		{{Kind: lsnFree, ID: A, After: 1, Spin: 5}},
		{{Kind: lsnFree, ID: A, After: 1}, {Kind: lsnFree, ID: B, After: 2, Spin: 20}},
		{{Kind: lsnFull, ID: A}, {Kind: lsnDrain, ID: A}},
		{{Kind: lsnSlow, ID: A, Spin: 10}, {Kind: lsnFree, ID: B, After: 1}},
		{{Kind: lsnDrain, ID: A}, {Kind: lsnFull, ID: B}, {Kind: lsnFree, ID: A, After: 2, Spin: 3}},
	}
	p.notify = &notifySpec{lsn: specs[(idx/2)%len(specs)]}
	return p, timed
}

const notifyCorpusLen = 12

// poolNotifyWorkload: AddToPool (status Future) from several clients with listeners registered, next to pool reads
// and removals; clock-free (race detector), hang monitor, pool content postcondition.
func poolNotifyWorkload(c *vcommon.Case) {
	ts := state.NewTransactionState(noTelemetry{})
	clients := c.R.Range(3, 6)
	n := c.R.Range(16, 48)
	const shared = uint32(0xb0001)
	kinds := vcommon.Pick(c.R, [][]lsnKind{{lsnDrain, lsnFree}, {lsnFree}, {lsnFull, lsnFree}, {lsnSlow, lsnDrain}, {lsnDrain, lsnFree, lsnFree}})
	spec := &notifySpec{}
	for _, k := range kinds {
		spec.lsn = append(spec.lsn, lsnSpec{Kind: k, ID: shared, After: c.R.Range(1, 3), Spin: c.R.Intn(30)})
	}
	var clk atomic.Int64
	ls := startListeners(ts, spec, &clk, false)
	progs := make([][]step, clients)
	calls := map[uint32]int{}
	total := 0
	want := map[uint32]bool{shared: true}
	for g := 0; g < clients; g++ {
		for i := 0; i < n; i++ {
			id := uint32(g+1)<<16 | uint32(i+1)
			switch (i + g) % 4 {
			case 0:
				want[id] = true
				total++
				progs[g] = append(progs[g], func() (interface{}, interface{}) { ts.AddToPool(vtOf(id, 1)); return nil, false })
			case 1:
				calls[shared]++
				total++
				progs[g] = append(progs[g], func() (interface{}, interface{}) { ts.AddToPool(vtOf(shared, 2)); return nil, false })
			case 2:
				progs[g] = append(progs[g], func() (interface{}, interface{}) {
					bad := false
					for _, vt := range ts.Pending() {
						bad = bad || vt == nil
					}
					for _, vt := range ts.PendingInPool() {
						bad = bad || vt == nil
					}
					_ = ts.Exists(extOf(shared))
					return nil, bad
				})
			default:
				if i >= 3 {
					delete(want, id-3)
				}
				progs[g] = append(progs[g], func() (interface{}, interface{}) {
					ts.RemoveExtrinsicFromPool(extOf(id - 3))
					ts.RemoveExtrinsic(extOf(id - 2))
					return nil, false
				})
			}
		}
	}
	h := runClientsWatched(progs, &clk, false, ls.watch())
	if !ls.finish(c, "state.TransactionState(pool)", h, func() map[string]any {
		return map[string]any{"workload": fmt.Sprintf("%d clients x %d ops: AddToPool(own tx) / AddToPool(tx %x) / Pending+PendingInPool+Exists / RemoveExtrinsic[FromPool]", clients, n, shared)}
	}) {
		return
	}
	if h.Hung {
		c.Inconclusive("pool workload with listeners: clients still running")
		return
	}
	for _, pmsg := range h.Panics {
		c.Violation("panic", "transaction pool with listeners: "+strings.SplitN(pmsg, "\n", 2)[0], map[string]any{"stack": pmsg, "listeners": ls.describe()})
	}
	if len(h.Panics) > 0 {
		return
	}
	c.Eval(1)
	for _, o := range h.Ops {
		if o.Output.(bool) {
			c.Violation("pool-nil-entry", "Pool.Transactions returned a nil entry while AddToPool calls with listeners were running", nil)
			break
		}
	}
	got := setOfVTs(ts.PendingInPool())
	ids := make([]int, 0, len(want))
	for id := range want {
		ids = append(ids, int(id))
	}
	if got.Err != "" || got.Set != idSet(ids) {
		c.Violation("pool-content", fmt.Sprintf("pool holds {%s}%s, expected {%s}", got.Set, got.Err, idSet(ids)), map[string]any{"listeners": ls.describe()})
		return
	}
	ls.account(c, calls, total, transaction.Future, false, nil)
	c.Count("notify_pool_workloads", 1)
	c.Count("notify_pool_addtopool_calls", total)
	c.Distinct(fmt.Sprintf("poolnotify|%d|%d|%s", clients, n, spec.sig()))
}

// c34NotifyGroups registers the floors and case groups of the notifier variant (called by TestVerifC34).
func c34NotifyGroups(r *vcommon.Run) {
	r.Floor("notify_push_calls_with_listener_registered", 500)
	r.Floor("notify_statuses_delivered", 100)
	r.Floor("notify_free_during_push_workload", 10)
	r.Floor("notify_free_overlaps_a_push_call", 3)
	r.Floor("notify_dropped_on_full_channel", 10)
	r.Floor("notify_lin_histories", 20)
	r.Floor("notify_race_workloads", 10)
	r.Floor("notify_pool_workloads", 5)

	r.Fixed("corpus-notify", notifyCorpusLen, func(c *vcommon.Case) {
		p, timed := notifyCorpus(c.Idx)
		runPQPlan(c, p, timed)
	})
	r.Fixed("corpus-notify-pool", 4, poolNotifyWorkload)
	r.Cases("lin-notify", r.Scale(90), func(c *vcommon.Case) { runPQPlan(c, genNotifyPlan(c.R, 64, true), true) })
	r.Cases("race-notify", r.Scale(40), func(c *vcommon.Case) {
		if c.Idx%4 == 3 {
			poolNotifyWorkload(c)
			return
		}
		runPQPlan(c, genNotifyPlan(c.R, 96, false), false)
	})
}
