//go:build verif

package inmemory

// Injected by /verif (engine conc, property C35) through go's -overlay; never
// part of the repository tree.

import (
	lrucache "github.com/ChainSafe/gossamer/lib/utils/lru-cache"
)

// VerifNewTrieCache is NewTrieInMemoryCache with a caller-chosen byte budget
// of the value cache (the production constructor fixes it at 2 MiB); it goes
// through the package's own newLruCache.
func VerifNewTrieCache(valueBytes int64) *TrieInMemoryCache {
	return &TrieInMemoryCache{
		nodeCache:  lrucache.NewLRUCache[string, []byte](defaultNodeCacheMaxElements),
		valueCache: newLruCache(valueBytes),
	}
}

// VerifValueSync waits until the value cache's worker has applied every
// pending insertion / deletion (and the evictions they trigger) and returns
// the cache's own byte accounting and item count. No sleeping involved.
func (tc *TrieInMemoryCache) VerifValueSync() (size int64, items int) {
	tc.valueCache.lru.SyncUpdates()
	return tc.valueCache.lru.GetSize(), tc.valueCache.lru.ItemCount()
}

// VerifValueStop stops the value cache's worker goroutine (end of a case).
func (tc *TrieInMemoryCache) VerifValueStop() { tc.valueCache.lru.Stop() }
