//go:build verif

package transaction

// Injected by /verif (engine conc, property C34) through go's -overlay; never
// part of the repository tree.

import (
	"fmt"
	"math/rand/v2"
	"runtime"
	"sync/atomic"
	"time"
)

// verifHoldNs: when > 0 every verifYield call sleeps that long (group timerpop of C34: keeps the poller of
// PopWithTimer between its ticker wake-up and the delivery of its result while the caller's timer expires).
var verifHoldNs atomic.Int64

// VerifSetHold sets the sleep applied at every instrumented map / heap access (0 = off).
func VerifSetHold(d time.Duration) { verifHoldNs.Store(int64(d)) }

// VerifSetPollInterval shortens the polling interval of PopWithTimer (configuration only).
func (spq *PriorityQueue) VerifSetPollInterval(d time.Duration) { spq.pollInterval = d }

// verifYieldPct: see the twin file in lib/utils/lru-cache (plain variable on
// purpose, written only while no worker runs).
var verifYieldPct int

// VerifSetYield sets the probability (percent) with which verifYield
// reschedules the calling goroutine.
func VerifSetYield(pct int) { verifYieldPct = pct }

// verifYield is inserted at build time (engine.json "instrument") in front of
// the map / heap accesses of a COPY of priority_queue.go.
func verifYield() {
	if h := verifHoldNs.Load(); h > 0 {
		time.Sleep(time.Duration(h))
	}
	p := verifYieldPct
	if p <= 0 {
		return
	}
	x := int(rand.Uint32() % 100)
	switch {
	case x < p:
		runtime.Gosched()
	case x < p+p/8:
		time.Sleep(5 * time.Microsecond)
	}
}

// VerifCheck inspects the queue under its own mutex and returns "" when the
// heap and the membership map agree: same size, every item registered under
// its hash, index fields correct, heap order (parent not after child) holds.
func (spq *PriorityQueue) VerifCheck() string {
	spq.Lock()
	defer spq.Unlock()
	if len(spq.pq) != len(spq.txs) {
		return fmt.Sprintf("heap length %d != membership map size %d", len(spq.pq), len(spq.txs))
	}
	for i, it := range spq.pq {
		if it == nil {
			return fmt.Sprintf("nil item at heap index %d", i)
		}
		if it.index != i {
			return fmt.Sprintf("item at heap index %d records index %d", i, it.index)
		}
		if spq.txs[it.hash] != it {
			return fmt.Sprintf("item at heap index %d is not the map entry of its hash", i)
		}
		if i > 0 && spq.pq.Less(i, (i-1)/2) {
			return fmt.Sprintf("heap order broken between index %d and its parent %d", i, (i-1)/2)
		}
	}
	return ""
}
