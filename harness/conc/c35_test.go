//go:build verif

package conc

import (
	"encoding/binary"
	"fmt"
	"strings"
	"sync/atomic"
	"testing"
	"time"

	"github.com/anishathalye/porcupine"

	"github.com/ChainSafe/gossamer/dot/network/ratelimiters"
	"github.com/ChainSafe/gossamer/lib/common"
	lrucache "github.com/ChainSafe/gossamer/lib/utils/lru-cache"
	"github.com/ChainSafe/gossamer/pkg/trie/cache/inmemory"
	"github.com/ChainSafe/gossamer/zz_verif/vcommon"
)

// ---------------------------------------------------------------------------
// client-boundary adapters: the three instantiations used in production

type lruAPI interface {
	Name() string
	Cap() int
	Get(k int) int
	Put(k, v int)
	Check() string // "" = structure consistent (or not inspectable)
	Order() []int  // keys most recently used first; nil = not inspectable
}

type intLRU struct {
	c *lrucache.LRUCache[int, int]
	n int
}

func (a intLRU) Name() string  { return "LRUCache[int,int]" }
func (a intLRU) Cap() int      { return a.n }
func (a intLRU) Get(k int) int { return a.c.Get(k) }
func (a intLRU) Put(k, v int)  { a.c.Put(k, v) }
func (a intLRU) Check() string { return a.c.VerifCheck() }
func (a intLRU) Order() []int  { return append([]int{}, a.c.VerifOrder()...) }

// hashLRU is the instantiation of dot/sync (seenBlockSyncRequests) and, with
// other values, of the sliding-window rate limiter.
type hashLRU struct {
	c *lrucache.LRUCache[common.Hash, uint]
	n int
}

func hashKey(k int) common.Hash { return common.Hash{0: byte(k), 1: byte(k >> 8), 31: 0x5a} }

func (a hashLRU) Name() string  { return "LRUCache[common.Hash,uint]" }
func (a hashLRU) Cap() int      { return a.n }
func (a hashLRU) Get(k int) int { return int(a.c.Get(hashKey(k))) }
func (a hashLRU) Put(k, v int)  { a.c.Put(hashKey(k), uint(v)) }
func (a hashLRU) Check() string { return a.c.VerifCheck() }
func (a hashLRU) Order() []int {
	ks := []int{}
	for _, h := range a.c.VerifOrder() {
		ks = append(ks, int(h[0])|int(h[1])<<8)
	}
	return ks
}

// trieLRU is the trie node cache (pkg/trie/cache/inmemory), capacity fixed by the package.
type trieLRU struct{ c *inmemory.TrieInMemoryCache }

const trieNodeCap = 10000 // defaultNodeCacheMaxElements

func (a trieLRU) Name() string { return "inmemory.TrieInMemoryCache(node cache)" }
func (a trieLRU) Cap() int     { return trieNodeCap }
func (a trieLRU) Get(k int) int {
	b := a.c.GetNode([]byte{byte(k), byte(k >> 8), 'n'})
	switch len(b) {
	case 0:
		return 0
	case 8:
		return int(binary.LittleEndian.Uint64(b))
	}
	return -1
}
func (a trieLRU) Put(k, v int) {
	a.c.SetNode([]byte{byte(k), byte(k >> 8), 'n'}, binary.LittleEndian.AppendUint64(nil, uint64(v)))
}
func (a trieLRU) Check() string { return "" }
func (a trieLRU) Order() []int  { return nil }

func newLRU(kind, capacity int) lruAPI {
	switch kind {
	case 1:
		return hashLRU{lrucache.NewLRUCache[common.Hash, uint](uint(capacity)), capacity}
	case 2:
		return trieLRU{inmemory.NewTrieInMemoryCache()}
	case 3, 4: // value cache (c35_ext3_test.go); capacity = number of entries the budget must hold
		return newValLRU(kind, capacity)
	}
	return intLRU{lrucache.NewLRUCache[int, int](uint(capacity)), capacity}
}

func lruDo(api lruAPI, in lruIn) step {
	return func() (interface{}, interface{}) {
		if in.Put {
			api.Put(in.K, in.V)
			return in, lruOut{}
		}
		return in, lruOut{V: api.Get(in.K)}
	}
}

func sameInts(a, b []int) bool {
	if len(a) != len(b) {
		return false
	}
	for i := range a {
		if a[i] != b[i] {
			return false
		}
	}
	return true
}

// ---------------------------------------------------------------------------
// sequential part

// lruSequential runs ins on a fresh cache next to SeqLRU; returns false on a violation.
func lruSequential(c *vcommon.Case, kind, capacity int, ins []lruIn, count bool) bool {
	api := newLRU(kind, capacity)
	defer stopLRU(api)
	st := lruState{Cap: api.Cap()}
	outs := make([]lruOut, 0, len(ins))
	fail := func(class, msg string) bool {
		tr := make([]string, len(outs))
		for i := range outs {
			tr[i] = descLRU(ins[i], outs[i])
		}
		c.Violation(class, fmt.Sprintf("%s cap=%d: %s", api.Name(), api.Cap(), msg),
			map[string]any{"target": api.Name(), "capacity": api.Cap(), "ops": tr, "model_state_before_last_op": descLRUState(st)})
		return false
	}
	for i, in := range ins {
		_, o := lruDo(api, in)()
		out := o.(lruOut)
		outs = append(outs, out)
		if count {
			pos := -1
			for j := range st.E {
				if st.E[j].K == in.K {
					pos = j
				}
			}
			switch {
			case !in.Put && pos < 0:
				c.Count("seq_get_miss", 1)
			case !in.Put && pos == 0:
				c.Count("seq_get_hit_front", 1)
			case !in.Put && pos == len(st.E)-1 && len(st.E) == st.Cap:
				c.Count("seq_get_refresh_saves_eviction_candidate", 1)
			case !in.Put:
				c.Count("seq_get_refresh", 1)
			case pos >= 0 && len(st.E) == st.Cap:
				c.Count("seq_put_update_in_full_cache", 1)
			case pos >= 0:
				c.Count("seq_put_update", 1)
			case len(st.E) == st.Cap:
				c.Count("seq_put_evicts", 1)
			default:
				c.Count("seq_put_grows", 1)
			}
		}
		ok, nst := lruStep(st, in, out)
		if !ok {
			return fail("sequential-model", fmt.Sprintf("step %d %s is not what an LRU map in state %s answers", i, descLRU(in, out), descLRUState(st)))
		}
		st = nst
		if ord := api.Order(); ord != nil && !sameInts(ord, st.keys()) {
			return fail("recency-order", fmt.Sprintf("after step %d %s the recency list is %v, the model has %v", i, descLRU(in, out), ord, st.keys()))
		}
	}
	if msg := api.Check(); msg != "" {
		return fail("structure", msg)
	}
	return true
}

// the 6-letter alphabet of the exhaustive part: get(k0..k2), put(k0..k2, fresh value)
func exhOp(letter, pos int) lruIn {
	if letter < 3 {
		return lruIn{K: letter}
	}
	return lruIn{Put: true, K: letter - 3, V: pos + 1}
}

var lruCorpus = []struct {
	kind, capacity int
	ops            []lruIn
}{
	// get refreshes recency: k0 survives, k1 is evicted
	{0, 2, []lruIn{{true, 0, 1}, {true, 1, 2}, {false, 0, 0}, {true, 2, 3}, {false, 1, 0}, {false, 0, 0}, {false, 2, 0}}},
	// without the get k0 is the victim
	{0, 2, []lruIn{{true, 0, 1}, {true, 1, 2}, {true, 2, 3}, {false, 0, 0}, {false, 1, 0}, {false, 2, 0}}},
	// update of a present key in a full cache evicts nothing and refreshes it
	{0, 2, []lruIn{{true, 0, 1}, {true, 1, 2}, {true, 0, 3}, {false, 1, 0}, {true, 2, 4}, {false, 0, 0}, {false, 1, 0}}},
	// capacity 1
	{0, 1, []lruIn{{false, 0, 0}, {true, 0, 1}, {false, 0, 0}, {true, 1, 2}, {false, 0, 0}, {false, 1, 0}, {true, 1, 3}, {false, 1, 0}}},
	// a miss does not disturb recency
	{1, 3, []lruIn{{true, 0, 1}, {true, 1, 2}, {true, 2, 3}, {false, 9, 0}, {true, 3, 4}, {false, 0, 0}, {false, 1, 0}}},
	// capacity 8 filled, every second key read, four new keys: the unread ones go
	{1, 8, []lruIn{{true, 0, 1}, {true, 1, 2}, {true, 2, 3}, {true, 3, 4}, {true, 4, 5}, {true, 5, 6}, {true, 6, 7}, {true, 7, 8},
		{false, 0, 0}, {false, 2, 0}, {false, 4, 0}, {false, 6, 0}, {true, 8, 9}, {true, 9, 10}, {true, 10, 11}, {true, 11, 12},
		{false, 1, 0}, {false, 3, 0}, {false, 5, 0}, {false, 7, 0}, {false, 0, 0}, {false, 2, 0}, {false, 4, 0}, {false, 6, 0}}},
	{2, 0, []lruIn{{false, 1, 0}, {true, 1, 7}, {false, 1, 0}, {true, 1, 8}, {false, 1, 0}, {true, 2, 9}, {false, 2, 0}, {false, 1, 0}}},
}

// ---------------------------------------------------------------------------
// concurrent part

type lruPlan struct {
	kind, capacity, keys int
	prefill              []lruIn
	progs                [][]lruIn
	yield, procs         int
}

func genLRUPlan(r *vcommon.Rand, maxTotal int, search bool) lruPlan {
	p := lruPlan{kind: vcommon.Pick(r, []int{0, 0, 1, 1, 2}), yield: vcommon.Pick(r, []int{0, 20, 50, 80}), procs: vcommon.Pick(r, []int{0, 0, 2, 3, 4, 8})}
	p.capacity = vcommon.Pick(r, []int{1, 2, 2, 3, 3, 4, 5, 8})
	p.keys = p.capacity + r.Range(0, 2)
	if p.kind == 2 {
		p.capacity = trieNodeCap
		p.keys = r.Range(2, 5)
	}
	clients := r.Range(3, 8)
	per := boundPer(clients, r.Range(2, 10), maxTotal, search)
	if !search { // race-detector workload: longer programs, no search afterwards
		per = boundPer(clients, 3*per, maxTotal, false)
	}
	getPct := vcommon.Pick(r, []int{40, 60, 75, 90})
	for k, n := 0, r.Intn(p.keys+1); k < n; k++ {
		p.prefill = append(p.prefill, lruIn{Put: true, K: k, V: 0x640000 | (k + 1)})
	}
	for ci := 0; ci < clients; ci++ {
		var prog []lruIn
		for i := 0; i < per; i++ {
			k := r.Intn(p.keys)
			if r.Chance(getPct, 100) {
				prog = append(prog, lruIn{K: k})
			} else {
				prog = append(prog, lruIn{Put: true, K: k, V: (ci+1)<<16 | (i + 1)})
			}
		}
		p.progs = append(p.progs, prog)
	}
	return p
}

// lruReaders is the minimal workload of the repaired defect: a full cache and
// clients that only read (Get used to move the list element under the READ lock).
func lruReaders(kind, capacity, clients, rounds int) lruPlan {
	p := lruPlan{kind: kind, capacity: capacity, keys: capacity, yield: 50}
	for k := 0; k < capacity; k++ {
		p.prefill = append(p.prefill, lruIn{Put: true, K: k, V: 0x640000 | (k + 1)})
	}
	for ci := 0; ci < clients; ci++ {
		var prog []lruIn
		for i := 0; i < rounds; i++ {
			prog = append(prog, lruIn{K: (ci + i) % capacity})
		}
		p.progs = append(p.progs, prog)
	}
	return p
}

func runLRUPlan(c *vcommon.Case, p lruPlan, timed bool) {
	for attempt := 0; attempt < maxAttempts; attempt++ {
		if runLRUPlanOnce(c, p, timed, attempt) != porcupine.Unknown {
			return
		}
	}
}

// runLRUPlanOnce executes the plan once; porcupine.Unknown asks for another execution.
func runLRUPlanOnce(c *vcommon.Case, p lruPlan, timed bool, attempt int) porcupine.CheckResult {
	api := newLRU(p.kind, p.capacity)
	defer stopLRU(api)
	model := lruModel(api.Cap())
	var clk atomic.Int64
	pre := make([]step, len(p.prefill))
	for i, in := range p.prefill {
		pre[i] = lruDo(api, in)
	}
	hist := seqOps(len(p.progs), pre, &clk)
	progs := make([][]step, len(p.progs))
	total := 0
	for i := range p.progs {
		for _, in := range p.progs[i] {
			progs[i] = append(progs[i], lruDo(api, in))
			total++
		}
	}
	lrucache.VerifSetYield(p.yield)
	var h history
	withProcs(p.procs, func() { h = runClients(progs, &clk, timed) })
	lrucache.VerifSetYield(0)
	if h.Hung {
		c.Inconclusive(fmt.Sprintf("%s: clients still running after %s", api.Name(), joinTimeout))
		return porcupine.Ok
	}
	for _, pmsg := range h.Panics {
		c.Violation("panic", api.Name()+": "+strings.SplitN(pmsg, "\n", 2)[0], map[string]any{"stack": pmsg})
	}
	if len(h.Panics) > 0 {
		return porcupine.Ok
	}
	full := append(append([]porcupine.Operation{}, hist...), h.Ops...)
	c.Eval(1)
	if msg := api.Check(); msg != "" {
		c.Count("structure_broken", 1)
		c.Violation("structure", fmt.Sprintf("%s cap=%d after the concurrent part: %s", api.Name(), api.Cap(), msg),
			map[string]any{"history": render(full, model.DescribeOperation), "timed": timed})
		return porcupine.Ok
	}
	c.Count("structure_checked", 1)
	// probe every key sequentially (recorded): the final content is part of the history
	var probe []step
	for k := 0; k < p.keys; k++ {
		probe = append(probe, lruDo(api, lruIn{K: k}))
	}
	pops := seqOps(len(p.progs), probe, &clk)

	// direct accounting, independent of the search
	puts := map[int]map[int]bool{}
	lastBy := map[int]map[int]int{} // key -> client -> last value put by that client
	for _, o := range full {
		if in := o.Input.(lruIn); in.Put {
			if puts[in.K] == nil {
				puts[in.K], lastBy[in.K] = map[int]bool{}, map[int]int{}
			}
			puts[in.K][in.V] = true
			lastBy[in.K][o.ClientId] = in.V
		}
	}
	present := 0
	c.Eval(1)
	for _, o := range append(append([]porcupine.Operation{}, full...), pops...) {
		in, out := o.Input.(lruIn), o.Output.(lruOut)
		if in.Put {
			c.Count("conc_put", 1)
			continue
		}
		c.Count("conc_get", 1)
		if out.V == 0 {
			c.Count("conc_get_miss", 1)
			continue
		}
		if !puts[in.K][out.V] {
			c.Violation("phantom-value", fmt.Sprintf("%s: get(k%d) returned %x which was never put under that key", api.Name(), in.K, out.V),
				map[string]any{"history": render(append(full, pops...), model.DescribeOperation)})
			return porcupine.Ok
		}
	}
	for _, o := range pops {
		in, out := o.Input.(lruIn), o.Output.(lruOut)
		if out.V != 0 {
			present++
		}
		if p.keys <= api.Cap() && len(puts[in.K]) > 0 { // nothing can ever be evicted
			ok := false
			for _, v := range lastBy[in.K] {
				ok = ok || v == out.V
			}
			if !ok {
				c.Violation("lost-entry", fmt.Sprintf("%s cap=%d with only %d keys: final get(k%d) returned %x, not the last value put by any client",
					api.Name(), api.Cap(), p.keys, in.K, out.V), map[string]any{"history": render(append(full, pops...), model.DescribeOperation)})
				return porcupine.Ok
			}
			c.Count("final_value_checked_no_eviction", 1)
		}
	}
	if present > api.Cap() {
		c.Violation("over-capacity", fmt.Sprintf("%s cap=%d holds %d keys at the end", api.Name(), api.Cap(), present), nil)
		return porcupine.Ok
	}
	if p.keys > api.Cap() {
		c.Count("conc_histories_with_eviction_pressure", 1)
	}
	if !timed {
		c.Count("race_workload_histories", 1)
		c.Count("race_workload_ops", total)
		if p.kind >= 3 {
			c.Count("vc_race_workload_histories", 1)
			c.Count("vc_race_workload_ops", total)
		}
	} else {
		ov := overlapPairs(h.Ops)
		c.Count("lin_histories", 1)
		c.Count("lin_ops", len(full)+len(pops))
		c.Count("lin_overlapping_pairs", ov)
		if ov > 0 {
			c.Count("lin_histories_with_overlap", 1)
		}
		if p.kind >= 3 {
			c.Count("vc_lin_histories", 1)
			if ov > 0 {
				c.Count("vc_lin_histories_with_overlap", 1)
			}
		}
		if res := decide(c, fmt.Sprintf("%s cap=%d", api.Name(), api.Cap()), model, append(full, pops...),
			map[string]any{"yield_pct": p.yield, "gomaxprocs": p.procs, "capacity": api.Cap(), "keys": p.keys}, attempt); res == porcupine.Unknown {
			return res
		}
	}
	var sb strings.Builder
	fmt.Fprintf(&sb, "%d|%d|%d|", p.kind, p.capacity, p.keys)
	for _, ln := range render(h.Ops, func(in, out interface{}) string {
		if in.(lruIn).Put {
			return fmt.Sprintf("p%d", in.(lruIn).K)
		}
		return fmt.Sprintf("g%d", in.(lruIn).K)
	}) {
		sb.WriteString(ln[:strings.Index(ln, " ")])
		sb.WriteString(ln[strings.LastIndex(ln, " "):])
	}
	c.Distinct(sb.String())
	if timed {
		r := render(append(full, pops...), model.DescribeOperation)
		if len(r) > 14 {
			r = append(r[:14], fmt.Sprintf("... %d more", len(r)-14))
		}
		c.Sample(map[string]any{"target": api.Name(), "capacity": api.Cap(), "clients": len(p.progs), "history": r})
	}
	return porcupine.Ok
}

// seenRequests replays dot/sync's access pattern: count := Get(h); Put(h, count+1)
// by several peers' handlers at once, on the production instantiation.
func seenRequests(c *vcommon.Case, timed bool) {
	capacity := vcommon.Pick(c.R, []int{1, 2, 3, 100})
	keys := c.R.Range(1, 3)
	if capacity < 100 {
		keys = capacity + c.R.Range(0, 1)
	}
	api := newLRU(1, capacity)
	model := lruModel(capacity)
	clients, rounds := c.R.Range(3, 6), c.R.Range(1, 4)
	for rounds > 1 && boundPer(clients, 2*rounds, 40, true) < 2*rounds {
		rounds--
	}
	progs := make([][]step, clients)
	for ci := range progs {
		for i := 0; i < rounds; i++ {
			k := c.R.Intn(keys)
			var seen int
			progs[ci] = append(progs[ci],
				func() (interface{}, interface{}) { seen = api.Get(k); return lruIn{K: k}, lruOut{V: seen} },
				func() (interface{}, interface{}) {
					api.Put(k, seen+1)
					return lruIn{Put: true, K: k, V: seen + 1}, lruOut{}
				})
		}
	}
	var clk atomic.Int64
	lrucache.VerifSetYield(vcommon.Pick(c.R, []int{0, 50}))
	h := runClients(progs, &clk, timed)
	lrucache.VerifSetYield(0)
	if h.Hung {
		c.Inconclusive("seenBlockSyncRequests pattern: clients still running")
		return
	}
	for _, pmsg := range h.Panics {
		c.Violation("panic", "seenBlockSyncRequests pattern: "+strings.SplitN(pmsg, "\n", 2)[0], map[string]any{"stack": pmsg})
	}
	if len(h.Panics) > 0 {
		return
	}
	c.Eval(1)
	if msg := api.Check(); msg != "" {
		c.Violation("structure", "seenBlockSyncRequests pattern: "+msg, map[string]any{"history": render(h.Ops, model.DescribeOperation)})
		return
	}
	var probe []step
	for k := 0; k < keys; k++ {
		probe = append(probe, lruDo(api, lruIn{K: k}))
	}
	pops := seqOps(clients, probe, &clk)
	for _, o := range pops { // a counter never exceeds the number of increments issued
		if v := o.Output.(lruOut).V; v > clients*rounds {
			c.Violation("phantom-value", fmt.Sprintf("request counter %d after only %d increments", v, clients*rounds), nil)
			return
		}
	}
	c.Count("user_seen_requests_histories", 1)
	if timed {
		decide(c, "dot/sync get-then-put pattern on LRUCache[common.Hash,uint]", model, append(h.Ops, pops...), map[string]any{"capacity": capacity}, maxAttempts-1)
	}
}

// rateLimiter drives dot/network/ratelimiters.SlidingWindowRateLimiter (its
// own mutex serialises the cache) with a window far longer than the run.
func rateLimiter(c *vcommon.Case) {
	maxReqs := uint32(c.R.Range(1, 6))
	rl := ratelimiters.NewSlidingWindowRateLimiter(maxReqs, time.Hour)
	ids := c.R.Range(1, 4)
	clients := c.R.Range(3, 6)
	adds := make([]int, ids)
	progs := make([][]step, clients)
	type res struct {
		id       int
		exceeded bool
	}
	for ci := range progs {
		for i, n := 0, c.R.Range(3, 12); i < n; i++ {
			id := c.R.Intn(ids)
			if c.R.Chance(2, 3) {
				adds[id]++
				progs[ci] = append(progs[ci], func() (interface{}, interface{}) { rl.AddRequest(hashKey(id)); return nil, res{id: -1} })
			} else {
				progs[ci] = append(progs[ci], func() (interface{}, interface{}) { return nil, res{id, rl.IsLimitExceeded(hashKey(id))} })
			}
		}
	}
	var clk atomic.Int64
	h := runClients(progs, &clk, false)
	if h.Hung {
		c.Inconclusive("rate limiter: clients still running")
		return
	}
	for _, pmsg := range h.Panics {
		c.Violation("panic", "rate limiter: "+strings.SplitN(pmsg, "\n", 2)[0], map[string]any{"stack": pmsg})
	}
	c.Eval(1)
	for _, o := range h.Ops {
		if r := o.Output.(res); r.id >= 0 && r.exceeded && adds[r.id] <= int(maxReqs) {
			c.Violation("limiter", fmt.Sprintf("limit %d reported exceeded for an id with only %d requests in total", maxReqs, adds[r.id]), nil)
			return
		}
	}
	for id := 0; id < ids; id++ {
		if got, want := rl.IsLimitExceeded(hashKey(id)), adds[id] > int(maxReqs); got != want {
			c.Violation("limiter", fmt.Sprintf("after %d requests (limit %d, window 1h) IsLimitExceeded=%v", adds[id], maxReqs, got), nil)
			return
		}
	}
	c.Count("user_rate_limiter_workloads", 1)
}

func lruSelfTest(c *vcommon.Case) bool {
	put := func(k, v int) lruIn { return lruIn{Put: true, K: k, V: v} }
	get := func(k int) lruIn { return lruIn{K: k} }
	legal := [][]porcupine.Operation{
		{op(0, 1, 2, put(0, 1), lruOut{}), op(0, 3, 4, put(1, 2), lruOut{}), op(1, 5, 6, get(0), lruOut{1}), op(0, 7, 8, put(2, 3), lruOut{}),
			op(1, 9, 10, get(1), lruOut{0}), op(1, 11, 12, get(0), lruOut{1})},
		// the get overlaps the evicting put: it may also come second and miss
		{op(0, 1, 2, put(0, 1), lruOut{}), op(0, 3, 4, put(1, 2), lruOut{}), op(1, 5, 8, get(0), lruOut{0}), op(0, 6, 7, put(2, 3), lruOut{}),
			op(1, 9, 10, get(1), lruOut{2}), op(1, 11, 12, get(2), lruOut{3})},
		// ... or first, and then k1 is the victim
		{op(0, 1, 2, put(0, 1), lruOut{}), op(0, 3, 4, put(1, 2), lruOut{}), op(1, 5, 8, get(0), lruOut{1}), op(0, 6, 7, put(2, 3), lruOut{}),
			op(1, 9, 10, get(0), lruOut{1}), op(1, 11, 12, get(1), lruOut{0})},
	}
	illegal := [][]porcupine.Operation{
		// same as the overlapping legal one, but the get strictly precedes the put: a miss is impossible
		{op(0, 1, 2, put(0, 1), lruOut{}), op(0, 3, 4, put(1, 2), lruOut{}), op(1, 5, 6, get(0), lruOut{0}), op(0, 7, 8, put(2, 3), lruOut{})},
		// the overlapping get hit, yet both old keys survive the eviction
		{op(0, 1, 2, put(0, 1), lruOut{}), op(0, 3, 4, put(1, 2), lruOut{}), op(1, 5, 8, get(0), lruOut{1}), op(0, 6, 7, put(2, 3), lruOut{}),
			op(1, 9, 10, get(0), lruOut{1}), op(1, 11, 12, get(1), lruOut{2})},
		// refreshed key evicted
		{op(0, 1, 2, put(0, 1), lruOut{}), op(0, 3, 4, put(1, 2), lruOut{}), op(1, 5, 6, get(0), lruOut{1}), op(0, 7, 8, put(2, 3), lruOut{}),
			op(1, 9, 10, get(0), lruOut{0})},
		// nothing evicted from a full cache
		{op(0, 1, 2, put(0, 1), lruOut{}), op(0, 3, 4, put(1, 2), lruOut{}), op(0, 5, 6, put(2, 3), lruOut{}),
			op(1, 7, 8, get(0), lruOut{1}), op(1, 9, 10, get(1), lruOut{2}), op(1, 11, 12, get(2), lruOut{3})},
		// stale value
		{op(0, 1, 2, put(0, 1), lruOut{}), op(0, 3, 4, put(0, 2), lruOut{}), op(1, 5, 6, get(0), lruOut{1})},
		// miss on a certainly present key
		{op(0, 1, 2, put(0, 1), lruOut{}), op(1, 3, 4, get(0), lruOut{0})},
	}
	return selfTest(c, "SeqLRU", lruModel(2), legal, illegal)
}

func TestVerifC35(t *testing.T) {
	r := vcommon.Start(t, "C35")
	defer r.Finish()
	r.Floor("exhaustive_sequences", 3*279936)
	r.Floor("seq_put_evicts", 1000)
	r.Floor("seq_get_refresh_saves_eviction_candidate", 1000)
	r.Floor("seq_put_update_in_full_cache", 1000)
	r.Floor("seq_random_capacity_4_to_8", 50)
	r.Floor("lin_histories_with_overlap", 20)
	r.Floor("conc_histories_with_eviction_pressure", 20)
	r.Floor("race_workload_histories", 10)
	r.Floor("structure_checked", 50)
	c35Ext3Floors(r)

	good := true
	r.Fixed("selftest", r.Shards, func(c *vcommon.Case) { good = lruSelfTest(c) })
	if !good && r.OnlyCase == "" {
		return
	}

	r.Fixed("corpus", len(lruCorpus), func(c *vcommon.Case) {
		e := lruCorpus[c.Idx]
		if lruSequential(c, e.kind, e.capacity, e.ops, true) {
			c.Count("corpus_sequences", 1)
		}
	})
	// the trie node cache really evicts at its fixed capacity
	r.Fixed("corpus-trie-capacity", 1, func(c *vcommon.Case) {
		api := newLRU(2, 0)
		for k := 0; k < trieNodeCap; k++ {
			api.Put(k, k+1)
		}
		// k0 refreshed, one key more than the capacity: k1 is the victim
		steps := []struct{ in, want int }{{0, 1}, {-1, 0}, {1, 0}, {0, 1}, {trieNodeCap, 7}, {2, 3}, {trieNodeCap - 1, trieNodeCap}}
		for _, s := range steps {
			if s.in < 0 {
				api.Put(trieNodeCap, 7)
				continue
			}
			c.Eval(1)
			if got := api.Get(s.in); got != s.want {
				c.Violation("sequential-model", fmt.Sprintf("%s: after %d puts, get(k0), put(k%d): get(k%d) = %x, an LRU map of capacity %d answers %x",
					api.Name(), trieNodeCap, trieNodeCap, s.in, got, trieNodeCap, s.want), nil)
				return
			}
		}
		c.Count("corpus_sequences", 1)
	})
	// concurrent witness of the repaired Get defect: readers only, full cache
	r.Fixed("corpus-readers", 12, func(c *vcommon.Case) {
		p := lruReaders(c.Idx%2, 2+c.Idx%3, 4+c.Idx%3, 8)
		p.procs = []int{0, 2, 4, 8}[c.Idx%4]
		if c.Idx >= 6 {
			p = lruReaders(c.Idx%2, 3, 6, 60)
		}
		runLRUPlan(c, p, c.Idx < 6)
	})

	// exhaustive: every get/put sequence of length 7 (hence every shorter one as
	// a prefix) over 3 keys, capacities 1..3; case = (capacity, first two letters)
	r.Fixed("exhaustive", 3*36, func(c *vcommon.Case) {
		capacity := 1 + c.Idx/36
		l0, l1 := (c.Idx%36)/6, c.Idx%6
		ins := make([]lruIn, 7)
		ins[0], ins[1] = exhOp(l0, 0), exhOp(l1, 1)
		n := 0
		for code := 0; code < 6*6*6*6*6; code++ {
			x := code
			for pos := 2; pos < 7; pos++ {
				ins[pos] = exhOp(x%6, pos)
				x /= 6
			}
			if !lruSequential(c, 0, capacity, ins, code%64 == 0) {
				return
			}
			n++
		}
		c.Eval(n * 7)
		c.Count("exhaustive_sequences", n)
		c.Distinct(fmt.Sprintf("exh|%d|%d|%d", capacity, l0, l1))
	})

	r.Cases("seq", r.Scale(400), func(c *vcommon.Case) {
		kind := c.R.Intn(3)
		capacity := c.R.Range(1, 8)
		keys := capacity + c.R.Range(0, 3)
		if kind == 2 {
			keys = c.R.Range(1, 6)
		}
		n := c.R.Range(10, 120)
		ins := make([]lruIn, n)
		var sb strings.Builder
		for i := range ins {
			ins[i] = lruIn{Put: c.R.Chance(45, 100), K: c.R.Intn(keys), V: i + 1}
			if c.R.Chance(1, 30) {
				ins[i].K = keys + 5 // never put
				ins[i].Put = false
			}
			fmt.Fprintf(&sb, "%v%d", ins[i].Put, ins[i].K)
		}
		if lruSequential(c, kind, capacity, ins, true) {
			c.Eval(n)
			c.Count("seq_random_sequences", 1)
			if kind != 2 && capacity >= 4 {
				c.Count("seq_random_capacity_4_to_8", 1)
			}
			c.Distinct(fmt.Sprintf("seq|%d|%d|%s", kind, capacity, sb.String()))
		}
	})

	r.Cases("lin", r.Scale(300), func(c *vcommon.Case) {
		if c.Idx%6 == 5 {
			seenRequests(c, true)
			return
		}
		runLRUPlan(c, genLRUPlan(c.R, 36, true), true)
	})

	// race-detector workload: no shared clock between the clients
	r.Cases("race", r.Scale(80), func(c *vcommon.Case) {
		switch c.Idx % 5 {
		case 0:
			p := lruReaders(c.R.Intn(2), c.R.Range(2, 4), c.R.Range(3, 8), c.R.Range(20, 80))
			p.procs = vcommon.Pick(c.R, []int{0, 2, 4})
			runLRUPlan(c, p, false)
		case 1:
			seenRequests(c, false)
		case 2:
			rateLimiter(c)
		default:
			runLRUPlan(c, genLRUPlan(c.R, 160, false), false)
		}
	})

	c35Ext3Groups(r)
}
