//go:build verif

package conc

// Goroutine-state hang monitor of the C34 notifier variant ("no operation
// blocks forever"), after harness/state zz_verif_c26_hang_test.go: a stuck
// operation is decided from goroutine STATES, never from a clock.
//
// runClientsWatched is runClients plus a watcher. When the clients have not
// joined after a short grace wait the watcher samples all goroutine stacks:
//
//	deadlock  <=>  on two consecutive samples (scheduler yields + a pause apart) with the SAME signature
//	  (a) at least one client of the case has not finished, and every unfinished client is parked in
//	      chan send / sync.(RW)Mutex.(R)Lock / sync.WaitGroup.Wait (semacquire) below a frame of dot/state or lib/transaction;
//	  (b) every other goroutine of the process with a frame of dot/state or lib/transaction (the fan-out senders of
//	      notifyStatus, pollers of PopWithTimer, ...) is parked in one of these states too - nothing inside the code
//	      under test is running, runnable, sleeping or waiting for a timer;
//	  (c) every status-channel consumer of the case has exited, or is itself parked on a lock inside dot/state
//	      (FreeStatusNotifierChannel waiting for notifierLock), or is idle in a receive on its own (hence empty)
//	      channel - no consumer is running, runnable or sleeping, i.e. no consumer can ever drain anything.
//
// The harness is the only user of the TransactionState of a case, so under (a)-(c) nobody exists that could wake
// any of the parked goroutines. A consumer that is merely slow is seen sleeping/runnable and is waited for; expiry
// of the generous wait without the evidence above is INCONCLUSIVE, never a violation. After a deadlock verdict the
// parked goroutines leak (they are remembered and ignored by later samples).

import (
	"fmt"
	"runtime"
	"runtime/debug"
	"sort"
	"strings"
	"sync"
	"sync/atomic"
	"time"

	"github.com/anishathalye/porcupine"

	"github.com/ChainSafe/gossamer/lib/transaction"
)

const (
	hangGrace   = 250 * time.Millisecond // the clients of a case normally join within milliseconds
	hangGap     = 40 * time.Millisecond  // pause between two stack samples (plus hangYields scheduler yields)
	hangYields  = 64
	hangPkgDot  = "github.com/ChainSafe/gossamer/dot/state."
	hangPkgLibT = "github.com/ChainSafe/gossamer/lib/transaction."
)

var (
	hangLeakMu sync.Mutex
	hangLeaked = map[string]bool{} // goroutine ids abandoned after a deadlock verdict
)

// setPQYield sets the yield probability of the instrumented priority queue. After a deadlock verdict goroutines
// of the abandoned case stay parked for ever without ever synchronising with the harness again, so the race
// detector would see their earlier plain reads of the yield variable as unordered with any later write: the
// variable is left alone for the rest of the process (the violation is already recorded).
func setPQYield(pct int) {
	if !hangAbandoned {
		transaction.VerifSetYield(pct)
	}
}

var hangAbandoned bool // harness goroutine only

func goID() string {
	buf := make([]byte, 64)
	n := runtime.Stack(buf, false)
	f := strings.Fields(string(buf[:n]))
	if len(f) > 1 {
		return f[1]
	}
	return "?"
}

// hangWatch is what the watcher needs to know about the case.
type hangWatch struct {
	start     chan struct{}   // closed by runClientsWatched when the clients are released (consumers may wait on it)
	consumers func() []string // goroutine ids of the status-channel consumers of the case
}

type gInfo struct {
	id, state string
	inCode    string // first frame inside dot/state or lib/transaction ("" = none)
	top       string
	stack     string
}

func hangParked(state string) bool {
	for _, p := range []string{"chan send", "sync.Mutex.Lock", "sync.RWMutex.Lock", "sync.RWMutex.RLock", "semacquire", "sync.WaitGroup.Wait"} {
		if strings.HasPrefix(state, p) {
			return true
		}
	}
	return false
}

func hangIdleReceive(state string) bool {
	return strings.HasPrefix(state, "chan receive") || strings.HasPrefix(state, "select")
}

func sampleGoroutines() map[string]gInfo {
	buf := make([]byte, 1<<20)
	for {
		n := runtime.Stack(buf, true)
		if n < len(buf) {
			buf = buf[:n]
			break
		}
		buf = make([]byte, 2*len(buf))
	}
	out := map[string]gInfo{}
	for _, blk := range strings.Split(string(buf), "\n\n") {
		if !strings.HasPrefix(blk, "goroutine ") {
			continue
		}
		lines := strings.Split(blk, "\n")
		f := strings.Fields(lines[0])
		if len(f) < 3 {
			continue
		}
		g := gInfo{id: f[1], stack: blk}
		st := lines[0]
		if i := strings.IndexByte(st, '['); i >= 0 {
			st = st[i+1:]
		}
		if i := strings.IndexAny(st, ",]"); i >= 0 {
			st = st[:i]
		}
		g.state = st
		for i := 1; i < len(lines); i++ {
			ln := lines[i]
			if strings.HasPrefix(ln, "created by ") {
				break
			}
			if strings.HasPrefix(ln, "\t") {
				continue
			}
			if g.top == "" {
				g.top = ln
			}
			if g.inCode == "" && (strings.HasPrefix(ln, hangPkgDot) || strings.HasPrefix(ln, hangPkgLibT)) {
				fn := ln
				if j := strings.LastIndexByte(fn, '('); j > 0 {
					fn = fn[:j]
				}
				g.inCode = fn
			}
		}
		out[g.id] = g
	}
	return out
}

// hangJudge evaluates (a)-(c) on one sample. It returns a signature ("" = no deadlock evidence) and a description.
func hangJudge(gs map[string]gInfo, self string, clients []string, finished func(i int) bool, consumers []string) (sig string, descr []string) {
	hangLeakMu.Lock()
	defer hangLeakMu.Unlock()
	role := map[string]string{}
	unfinished := 0
	for i, id := range clients {
		if finished(i) {
			continue
		}
		unfinished++
		role[id] = fmt.Sprintf("client %d", i)
		g, ok := gs[id]
		if !ok || !hangParked(g.state) || g.inCode == "" {
			return "", nil
		}
	}
	if unfinished == 0 {
		return "", nil
	}
	for _, id := range consumers {
		g, ok := gs[id]
		if !ok {
			continue // exited
		}
		role[id] = "consumer"
		switch {
		case hangParked(g.state) && g.inCode != "":
		case hangIdleReceive(g.state) && g.inCode == "":
		default:
			return "", nil // running / runnable / sleeping: it may still drain
		}
	}
	var ids []string
	for id, g := range gs {
		if id == self || hangLeaked[id] {
			continue
		}
		if g.inCode == "" && role[id] == "" {
			continue
		}
		if g.inCode != "" && !hangParked(g.state) {
			return "", nil // something inside the code under test can still move
		}
		ids = append(ids, id)
	}
	sort.Strings(ids)
	for _, id := range ids {
		g := gs[id]
		r := role[id]
		if r == "" {
			r = "spawned by the code under test"
		}
		descr = append(descr, fmt.Sprintf("goroutine %s (%s) [%s] in %s", id, r, g.state, g.inCode))
	}
	return strings.Join(descr, "\n"), descr
}

// runClientsWatched is runClients with the goroutine-state hang monitor. h.Deadlock != "" reports a deadlock
// verdict (h.Stacks holds the parked goroutines), h.Hung an expired wait without that evidence.
func runClientsWatched(progs [][]step, clk *atomic.Int64, timed bool, w *hangWatch) history {
	var h history
	per := make([][]porcupine.Operation, len(progs))
	pan := make([]string, len(progs))
	gids := make([]string, len(progs))
	fin := make([]atomic.Bool, len(progs))
	var ready, wg sync.WaitGroup
	for g := range progs {
		wg.Add(1)
		ready.Add(1)
		go func(g int) {
			defer wg.Done()
			defer fin[g].Store(true)
			defer func() {
				if p := recover(); p != nil {
					st := string(debug.Stack())
					if len(st) > 3000 {
						st = st[:3000]
					}
					pan[g] = fmt.Sprintf("client %d: %v\n%s", g, p, st)
				}
			}()
			ops := make([]porcupine.Operation, 0, len(progs[g]))
			defer func() { per[g] = ops }()
			gids[g] = goID()
			ready.Done()
			<-w.start
			for _, f := range progs[g] {
				var call, ret int64
				if timed {
					call = clk.Add(1)
				}
				in, out := f()
				if timed {
					ret = clk.Add(1)
				}
				ops = append(ops, porcupine.Operation{ClientId: g, Input: in, Output: out, Call: call, Return: ret})
			}
		}(g)
	}
	ready.Wait()
	self := goID()
	close(w.start)
	done := make(chan struct{})
	go func() { wg.Wait(); close(done) }()
	collect := func() history {
		for g := range per {
			h.Ops = append(h.Ops, per[g]...)
			if pan[g] != "" {
				h.Panics = append(h.Panics, pan[g])
			}
		}
		return h
	}
	grace := time.NewTimer(hangGrace)
	select {
	case <-done:
		grace.Stop()
		return collect()
	case <-grace.C:
	}
	h.Sampled = true
	maxSamples := int(joinTimeout / hangGap)
	lastSig := ""
	for i := 0; i < maxSamples; i++ {
		for y := 0; y < hangYields; y++ {
			runtime.Gosched()
		}
		select {
		case <-done:
			return collect()
		case <-time.After(hangGap):
		}
		gs := sampleGoroutines()
		sig, descr := hangJudge(gs, self, gids, func(i int) bool { return fin[i].Load() }, w.consumers())
		if sig == "" || sig != lastSig {
			lastSig = sig
			continue
		}
		select {
		case <-done:
			return collect()
		default:
		}
		// verdict: remember everything that stays parked for ever
		hangAbandoned = true
		hangLeakMu.Lock()
		for id, g := range gs {
			if g.inCode != "" {
				hangLeaked[id] = true
			}
		}
		for _, id := range w.consumers() {
			hangLeaked[id] = true
		}
		hangLeakMu.Unlock()
		h.Deadlock = strings.Join(descr, "; ")
		var sb strings.Builder
		for _, id := range append(append([]string{}, gids...), w.consumers()...) {
			if g, ok := gs[id]; ok && g.inCode != "" {
				st := g.stack
				if len(st) > 900 {
					st = st[:900]
				}
				sb.WriteString(st + "\n\n")
			}
		}
		h.Stacks = sb.String()
		if len(h.Stacks) > 6000 {
			h.Stacks = h.Stacks[:6000]
		}
		return h
	}
	h.Hung = true
	return h
}
