//go:build verif

package conc

import (
	"fmt"
	"os"
	"runtime"
	"runtime/debug"
	"sort"
	"strconv"
	"sync"
	"sync/atomic"
	"time"

	"github.com/anishathalye/porcupine"

	"github.com/ChainSafe/gossamer/zz_verif/vcommon"
)

// step is one client operation: it performs the call on the real structure
// and returns (input, output) in the vocabulary of the sequential model.
type step func() (in, out interface{})

// joinTimeout bounds how long a case waits for its workers. It is a safety
// net only: firing makes the case INCONCLUSIVE, never a violation.
var joinTimeout = envDuration("VERIF_CONC_JOIN_S", 180)

// porcupineTimeout bounds one linearizability search (Unknown => inconclusive).
var porcupineTimeout = envDuration("VERIF_CONC_PORCUPINE_S", 90)

func envDuration(name string, defSeconds int) time.Duration {
	if s := os.Getenv(name); s != "" {
		if v, err := strconv.Atoi(s); err == nil && v > 0 {
			return time.Duration(v) * time.Second
		}
	}
	return time.Duration(defSeconds) * time.Second
}

// history is what the clients saw.
type history struct {
	Ops    []porcupine.Operation
	Panics []string
	Hung   bool
	// set by runClientsWatched (hang.go) only
	Deadlock string // non-empty: goroutine-state deadlock verdict (description of the parked goroutines)
	Stacks   string
	Sampled  bool // the clients were slow enough for the watcher to sample goroutine states
}

// runClients executes progs[i] on goroutine i. With timed=true every
// operation gets a call and a return timestamp from ONE monotonic atomic
// counter taken at the client boundary (before the call is issued / after it
// returned), so "a.Return < b.Call" implies a really finished before b began.
// With timed=false nothing is shared between the workers after the start
// signal: this is the workload for the race detector (an atomic clock would
// add happens-before edges between operations and hide races).
func runClients(progs [][]step, clk *atomic.Int64, timed bool) history {
	var h history
	per := make([][]porcupine.Operation, len(progs))
	pan := make([]string, len(progs))
	start := make(chan struct{})
	var wg sync.WaitGroup
	for g := range progs {
		wg.Add(1)
		go func(g int) {
			defer wg.Done()
			defer func() {
				if p := recover(); p != nil {
					st := string(debug.Stack())
					if len(st) > 3000 {
						st = st[:3000]
					}
					pan[g] = fmt.Sprintf("client %d: %v\n%s", g, p, st)
				}
			}()
			ops := make([]porcupine.Operation, 0, len(progs[g]))
			defer func() { per[g] = ops }()
			<-start
			for _, f := range progs[g] {
				var call, ret int64
				if timed {
					call = clk.Add(1)
				}
				in, out := f()
				if timed {
					ret = clk.Add(1)
				}
				ops = append(ops, porcupine.Operation{ClientId: g, Input: in, Output: out, Call: call, Return: ret})
			}
		}(g)
	}
	close(start)
	done := make(chan struct{})
	go func() { wg.Wait(); close(done) }()
	select {
	case <-done:
	case <-time.After(joinTimeout):
		h.Hung = true
		return h
	}
	for g := range per {
		h.Ops = append(h.Ops, per[g]...)
		if pan[g] != "" {
			h.Panics = append(h.Panics, pan[g])
		}
	}
	return h
}

// seqOps runs steps one after the other on the calling goroutine and stamps
// them with the shared clock (prefill before / drain after the concurrent part).
func seqOps(client int, steps []step, clk *atomic.Int64) []porcupine.Operation {
	ops := make([]porcupine.Operation, 0, len(steps))
	for _, f := range steps {
		call := clk.Add(1)
		in, out := f()
		ret := clk.Add(1)
		ops = append(ops, porcupine.Operation{ClientId: client, Input: in, Output: out, Call: call, Return: ret})
	}
	return ops
}

// render prints a history for a witness, ordered by call time.
func render(ops []porcupine.Operation, desc func(in, out interface{}) string) []string {
	s := append([]porcupine.Operation(nil), ops...)
	sort.SliceStable(s, func(i, j int) bool { return s[i].Call < s[j].Call })
	out := make([]string, len(s))
	for i, o := range s {
		out[i] = fmt.Sprintf("c%d [%d,%d] %s", o.ClientId, o.Call, o.Return, desc(o.Input, o.Output))
	}
	if len(out) > 160 { // keep witnesses readable
		out = append(out[:160:160], fmt.Sprintf("... %d more operations", len(out)-160))
	}
	return out
}

// overlapPairs counts pairs of operations of different clients whose
// intervals intersect (how concurrent the recorded history really was).
func overlapPairs(ops []porcupine.Operation) int {
	n := 0
	for i := range ops {
		for j := i + 1; j < len(ops); j++ {
			if ops[i].ClientId != ops[j].ClientId && ops[i].Call < ops[j].Return && ops[j].Call < ops[i].Return {
				n++
			}
		}
	}
	return n
}

// maxAttempts: a plan whose recorded history porcupine cannot decide in time is
// executed again (new schedule, new history); only when every attempt stays
// undecided the case is INCONCLUSIVE. An undecided history is never evidence
// for either side.
const maxAttempts = 3

// decide runs porcupine on a recorded history and records the verdict:
// Ok -> counter, Illegal -> violation with the history as witness,
// Unknown (search timed out) -> retry (returned to the caller) and on the last
// attempt inconclusive, never a violation.
func decide(c *vcommon.Case, what string, model porcupine.Model, ops []porcupine.Operation, extra map[string]any, attempt int) porcupine.CheckResult {
	limit := porcupineTimeout
	if attempt < maxAttempts-1 && limit > 30*time.Second {
		limit = 30 * time.Second
	}
	res, _ := porcupine.CheckOperationsVerbose(model, ops, limit)
	c.Eval(1)
	switch res {
	case porcupine.Ok:
		c.Count("porcupine_ok", 1)
	case porcupine.Illegal:
		c.Count("porcupine_illegal", 1)
		w := map[string]any{"history": render(ops, model.DescribeOperation), "target": what}
		for k, v := range extra {
			w[k] = v
		}
		c.Violation("not-linearizable", fmt.Sprintf("%s: recorded history of %d operations has no linearization in the sequential model", what, len(ops)), w)
	default:
		if attempt < maxAttempts-1 {
			c.Count("porcupine_unknown_history_discarded_plan_rerun", 1)
			return res
		}
		c.Count("porcupine_unknown", 1)
		c.Inconclusive(fmt.Sprintf("%s: porcupine search exceeded %s on %d operations in each of %d executions of the plan", what, limit, len(ops), maxAttempts))
	}
	return res
}

// withProcs runs fn with GOMAXPROCS set to n (restored afterwards).
func withProcs(n int, fn func()) {
	if n <= 0 {
		fn()
		return
	}
	old := runtime.GOMAXPROCS(n)
	defer runtime.GOMAXPROCS(old)
	fn()
}

// selfTest feeds porcupine one legal and a few illegal hand-written histories
// per model. A failure means the oracle itself is broken: the whole check is
// inconclusive rather than alarming (or silently blind).
func selfTest(c *vcommon.Case, name string, model porcupine.Model, legal [][]porcupine.Operation, illegal [][]porcupine.Operation) bool {
	ok := true
	for i, h := range legal {
		if porcupine.CheckOperationsTimeout(model, h, porcupineTimeout) != porcupine.Ok {
			c.Inconclusive(fmt.Sprintf("oracle self-test: legal %s history %d rejected", name, i))
			ok = false
		}
	}
	for i, h := range illegal {
		if porcupine.CheckOperationsTimeout(model, h, porcupineTimeout) != porcupine.Illegal {
			c.Inconclusive(fmt.Sprintf("oracle self-test: illegal %s history %d accepted", name, i))
			ok = false
		}
	}
	if ok {
		c.Count("oracle_selftest_histories", len(legal)+len(illegal))
	}
	return ok
}

// op is a shorthand to write self-test histories.
func op(client int, call, ret int64, in, out interface{}) porcupine.Operation {
	return porcupine.Operation{ClientId: client, Input: in, Output: out, Call: call, Return: ret}
}

// searchBudget bounds the number of downsets (per+1)^clients of a generated
// concurrent history, which bounds porcupine's search however the operations
// overlap: many short histories instead of few long ones.
const searchBudget = 60000

// boundPer lowers the operations per client until the history respects
// maxTotal operations and the search budget (never below 2).
func boundPer(clients, per, maxTotal int, search bool) int {
	for per > 2 {
		n := 1
		for i := 0; i < clients && n <= searchBudget; i++ {
			n *= per + 1
		}
		if clients*per <= maxTotal && (n <= searchBudget || !search) {
			break
		}
		per--
	}
	return per
}
