//go:build verif

package conc

// Group timerpop of C34: PopWithTimer on an EMPTY queue (polling fallback) whose timer expires around the poll tick at
// which a concurrently pushed transaction becomes visible. The instrumented copy of priority_queue.go sleeps inside Pop
// (VerifSetHold), so the poller is regularly between "woke up" and "delivered its result" when the timer fires.
// Oracle (conservation at a quiescent point, a consequence of linearizability + "yielded at most once"): after
// PopWithTimer has returned and the pusher has finished, the one pushed transaction is either the result of PopWithTimer
// or still in the queue (drained by sequential Pops) - never both, never neither. No verdict depends on time; the
// timing only decides which of the two legal outcomes a round sees (both are counted and floored).

import (
	"fmt"
	"time"

	"github.com/ChainSafe/gossamer/lib/transaction"
	"github.com/ChainSafe/gossamer/zz_verif/vcommon"
)

func c34TimerPopGroups(r *vcommon.Run) {
	r.Floor("timerpop_rounds", 150)
	r.Floor("timerpop_result_is_the_transaction", 5)
	r.Floor("timerpop_result_is_timer_expired_tx_still_queued", 5)

	r.Cases("timerpop", r.Scale(40), func(c *vcommon.Case) {
		poll := vcommon.Pick(c.R, []time.Duration{500 * time.Microsecond, time.Millisecond, 2 * time.Millisecond})
		hold := time.Duration(c.R.Range(80, 600)) * time.Microsecond
		q := transaction.NewPriorityQueue()
		q.VerifSetPollInterval(poll)
		transaction.VerifSetHold(hold)
		defer transaction.VerifSetHold(0)
		rounds := c.R.Range(8, 16)
		c.Distinct(fmt.Sprintf("timerpop/poll=%v/hold=%dus/rounds=%d", poll, hold/time.Microsecond, rounds))
		for round := 0; round < rounds; round++ {
			id := uint32(0xc0)<<16 | uint32(c.Idx&0xff)<<8 | uint32(round+1)
			// timer expiry near the k-th poll tick (+ the hold of the poller's Pop)
			d := time.Duration(c.R.Range(1, 3))*poll + time.Duration(c.R.Range(-150, 700))*time.Microsecond
			if d < 200*time.Microsecond {
				d = 200 * time.Microsecond
			}
			// the push lands from two poll periods before the expiry to half a period after it
			pushAt := d - time.Duration(c.R.Range(-int(poll/2/time.Microsecond), int((2*poll+hold)/time.Microsecond)))*time.Microsecond
			if pushAt < 0 {
				pushAt = 0
			}
			pushed := make(chan pqOut, 1)
			timer := time.NewTimer(d)
			go func() {
				time.Sleep(pushAt)
				h, err := q.Push(vtOf(id, 7))
				pushed <- pushOut(h, extOf(id).Hash(), err)
			}()
			res := outOfVT(q.PopWithTimer(timer.C))
			timer.Stop()
			po := <-pushed
			c.Eval(1)
			c.Count("timerpop_rounds", 1)
			w := map[string]any{"round": round, "poll": poll.String(), "hold": hold.String(), "timer": d.String(), "push_at": pushAt.String(), "id": id,
				"pop_with_timer": fmt.Sprintf("%+v", res), "push": fmt.Sprintf("%+v", po)}
			if !po.OK {
				c.Violation("push-refused", fmt.Sprintf("the only push of transaction %d was refused: %+v", id, po), w)
				return
			}
			var drained []uint32
			for i := 0; i < 4; i++ {
				o := outOfVT(q.Pop())
				if !o.OK {
					break
				}
				drained = append(drained, o.ID)
			}
			w["drained_after_return"] = drained
			yields := len(drained)
			if res.OK {
				yields++
			}
			switch {
			case res.Err != "" || (res.OK && res.ID != id) || (len(drained) > 0 && drained[0] != id):
				c.Violation("foreign-transaction", fmt.Sprintf("a transaction other than the pushed %d was yielded", id), w)
				return
			case yields == 0:
				c.Violation("not-linearizable", fmt.Sprintf("transaction %d was pushed, PopWithTimer reported 'timer expired' and the queue is empty afterwards: "+
					"it was removed without being yielded to anyone", id), w)
				return
			case yields > 1:
				c.Violation("yielded-twice", fmt.Sprintf("transaction %d was yielded %d times", id, yields), w)
				return
			case res.OK:
				c.Count("timerpop_result_is_the_transaction", 1)
			default:
				c.Count("timerpop_result_is_timer_expired_tx_still_queued", 1)
			}
			if s := q.VerifCheck(); s != "" {
				c.Violation("structure", s, w)
				return
			}
		}
	})
}
