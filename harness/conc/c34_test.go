//go:build verif

package conc

import (
	"encoding/json"
	"errors"
	"fmt"
	"strings"
	"sync/atomic"
	"testing"
	"time"

	"github.com/anishathalye/porcupine"

	"github.com/ChainSafe/gossamer/dot/state"
	"github.com/ChainSafe/gossamer/dot/types"
	"github.com/ChainSafe/gossamer/lib/common"
	"github.com/ChainSafe/gossamer/lib/transaction"
	"github.com/ChainSafe/gossamer/zz_verif/vcommon"
)

// ---------------------------------------------------------------------------
// client-boundary adapters: the queue itself and dot/state.TransactionState

func extOf(id uint32) types.Extrinsic {
	return types.Extrinsic{byte(id), byte(id >> 8), byte(id >> 16), byte(id >> 24)}
}

func vtOf(id uint32, prio uint64) *transaction.ValidTransaction {
	return transaction.NewValidTransaction(extOf(id), &transaction.Validity{Priority: prio, Propagate: true})
}

func outOfVT(vt *transaction.ValidTransaction) pqOut {
	if vt == nil {
		return pqOut{}
	}
	if len(vt.Extrinsic) != 4 || vt.Validity == nil {
		return pqOut{Err: fmt.Sprintf("foreign transaction returned: ext=%x", []byte(vt.Extrinsic))}
	}
	e := vt.Extrinsic
	return pqOut{OK: true, ID: uint32(e[0]) | uint32(e[1])<<8 | uint32(e[2])<<16 | uint32(e[3])<<24, Prio: vt.Validity.Priority}
}

func setOfVTs(vts []*transaction.ValidTransaction) pqOut {
	ids := make([]int, 0, len(vts))
	for _, vt := range vts {
		o := outOfVT(vt)
		if !o.OK {
			return pqOut{Err: "pending list holds a nil/foreign transaction " + o.Err}
		}
		ids = append(ids, int(o.ID))
	}
	return pqOut{Set: idSet(ids)}
}

type pqAPI interface {
	Name() string
	Push(id uint32, prio uint64) pqOut
	Pop() pqOut
	PopTimer(d time.Duration) pqOut
	Peek() pqOut
	Remove(id uint32)
	Exists(id uint32) bool
	Len() (int, bool)
	Pending() pqOut
	Check() string
}

func pushOut(h common.Hash, want common.Hash, err error) pqOut {
	switch {
	case err == nil && h == want:
		return pqOut{OK: true}
	case err == nil:
		return pqOut{Err: "push returned a wrong hash"}
	case errors.Is(err, transaction.ErrTransactionExists):
		return pqOut{}
	}
	return pqOut{Err: "push: " + err.Error()}
}

type rawPQ struct{ q *transaction.PriorityQueue }

func (r rawPQ) Name() string { return "transaction.PriorityQueue" }
func (r rawPQ) Push(id uint32, prio uint64) pqOut {
	h, err := r.q.Push(vtOf(id, prio))
	return pushOut(h, extOf(id).Hash(), err)
}
func (r rawPQ) Pop() pqOut { return outOfVT(r.q.Pop()) }
func (r rawPQ) PopTimer(d time.Duration) pqOut {
	t := time.NewTimer(d)
	defer t.Stop()
	return outOfVT(r.q.PopWithTimer(t.C))
}
func (r rawPQ) Peek() pqOut           { return outOfVT(r.q.Peek()) }
func (r rawPQ) Remove(id uint32)      { r.q.RemoveExtrinsic(extOf(id)) }
func (r rawPQ) Exists(id uint32) bool { return r.q.Exists(extOf(id).Hash()) }
func (r rawPQ) Len() (int, bool)      { return r.q.Len(), true }
func (r rawPQ) Pending() pqOut        { return setOfVTs(r.q.Pending()) }
func (r rawPQ) Check() string         { return r.q.VerifCheck() }

type noTelemetry struct{}

func (noTelemetry) SendMessage(json.Marshaler) {}

// statePQ drives the queue through dot/state.TransactionState with an empty
// pool (the pool is a second, independent map; see NOTES.md).
type statePQ struct{ s *state.TransactionState }

func (r statePQ) Name() string { return "state.TransactionState" }
func (r statePQ) Push(id uint32, prio uint64) pqOut {
	h, err := r.s.Push(vtOf(id, prio))
	return pushOut(h, extOf(id).Hash(), err)
}
func (r statePQ) Pop() pqOut { return outOfVT(r.s.Pop()) }
func (r statePQ) PopTimer(d time.Duration) pqOut {
	t := time.NewTimer(d)
	defer t.Stop()
	return outOfVT(r.s.PopWithTimer(t.C))
}
func (r statePQ) Peek() pqOut           { return outOfVT(r.s.Peek()) }
func (r statePQ) Remove(id uint32)      { r.s.RemoveExtrinsic(extOf(id)) }
func (r statePQ) Exists(id uint32) bool { return r.s.Exists(extOf(id)) }
func (r statePQ) Len() (int, bool)      { return 0, false }
func (r statePQ) Pending() pqOut        { return setOfVTs(r.s.Pending()) }
func (r statePQ) Check() string         { return "" }

func newPQ(kind int) pqAPI {
	if kind == 1 {
		return statePQ{state.NewTransactionState(noTelemetry{})}
	}
	return rawPQ{transaction.NewPriorityQueue()}
}

// pqDo turns a model input into a step on api.
func pqDo(api pqAPI, in pqIn) step {
	return func() (interface{}, interface{}) {
		switch in.Kind {
		case pqPush:
			return in, api.Push(in.ID, in.Prio)
		case pqPop:
			if in.Prio != 0 { // Prio doubles as "use PopWithTimer, milliseconds"
				return pqIn{Kind: pqPop}, api.PopTimer(time.Duration(in.Prio) * time.Millisecond)
			}
			return in, api.Pop()
		case pqPeek:
			return in, api.Peek()
		case pqRemove:
			api.Remove(in.ID)
			return in, pqOut{}
		case pqExists:
			return in, pqOut{OK: api.Exists(in.ID)}
		case pqLen:
			if n, ok := api.Len(); ok {
				return in, pqOut{N: n}
			}
			return pqIn{Kind: pqPending}, api.Pending()
		default:
			return in, api.Pending()
		}
	}
}

// ---------------------------------------------------------------------------
// generators

var pqPrioSets = [][]uint64{
	{1, 2, 3},
	{5, 5, 5, 7},
	{0, 1},
	{0, 1 << 63, ^uint64(0)},
	{4},
	{1, 2, 3, 4, 5, 6, 7, 8},
}

type pqGen struct {
	r      *vcommon.Rand
	prios  []uint64
	known  []uint32 // every id some client may have pushed so far
	next   map[int]uint32
	dupPct int
	hot    []uint32 // when set, pushes draw from this small shared set (concurrent duplicates)
}

func newPQGen(r *vcommon.Rand) *pqGen {
	return &pqGen{r: r, prios: vcommon.Pick(r, pqPrioSets), next: map[int]uint32{}, dupPct: r.Range(5, 35)}
}

func (g *pqGen) fresh(client int) uint32 {
	if len(g.hot) > 0 {
		id := vcommon.Pick(g.r, g.hot)
		for _, k := range g.known {
			if k == id {
				return id
			}
		}
		g.known = append(g.known, id)
		return id
	}
	g.next[client]++
	id := uint32(client+1)<<16 | g.next[client]
	g.known = append(g.known, id)
	return id
}

func (g *pqGen) someID(client int) uint32 {
	if len(g.known) == 0 || g.r.Chance(1, 12) {
		return uint32(0xee)<<16 | uint32(g.r.Intn(4)) // never pushed
	}
	return vcommon.Pick(g.r, g.known)
}

// op draws one operation for client. weights: push pop peek remove exists len pending
func (g *pqGen) op(client int, w [7]int) pqIn {
	tot := 0
	for _, x := range w {
		tot += x
	}
	k, x := 0, g.r.Intn(tot)
	for x >= w[k] {
		x -= w[k]
		k++
	}
	switch pqKind(k) {
	case pqPush:
		id := uint32(0)
		if len(g.known) > 0 && g.r.Chance(g.dupPct, 100) {
			id = vcommon.Pick(g.r, g.known)
		} else {
			id = g.fresh(client)
		}
		return pqIn{Kind: pqPush, ID: id, Prio: vcommon.Pick(g.r, g.prios)}
	case pqRemove, pqExists:
		return pqIn{Kind: pqKind(k), ID: g.someID(client)}
	}
	return pqIn{Kind: pqKind(k)}
}

// ---------------------------------------------------------------------------
// sequential part: the real structure and SeqPQ step by step

func pqSequential(c *vcommon.Case, kind int, ins []pqIn) {
	api := newPQ(kind)
	var st pqState
	var trace []string
	popped := map[uint32]bool{}
	for i, in := range ins {
		i2, o := pqDo(api, in)()
		in, out := i2.(pqIn), o.(pqOut)
		trace = append(trace, descPQ(in, out))
		// corner-case accounting (from the model's point of view, before the step)
		switch in.Kind {
		case pqPush:
			switch {
			case st.find(in.ID) >= 0:
				c.Count("seq_dup_push_refused_expected", 1)
			case popped[in.ID]:
				c.Count("seq_repush_after_yield", 1)
			}
		case pqPop:
			if len(st) == 0 {
				c.Count("seq_pop_empty", 1)
			} else {
				popped[st[0].ID] = true
				if len(st) > 1 && st[1].Prio == st[0].Prio {
					c.Count("seq_pop_with_equal_priority_tie", 1)
				}
			}
		case pqRemove:
			switch p := st.find(in.ID); {
			case p < 0:
				c.Count("seq_remove_absent", 1)
			case p > 0 && p < len(st)-1:
				popped[in.ID] = true
				c.Count("seq_remove_middle", 1)
			default:
				popped[in.ID] = true
				c.Count("seq_remove_edge", 1)
			}
		case pqExists:
			if st.find(in.ID) >= 0 {
				c.Count("seq_exists_true_expected", 1)
			} else {
				c.Count("seq_exists_false_expected", 1)
			}
		}
		ok, nst := pqStep(st, in, out)
		c.Eval(1)
		if !ok {
			c.Violation("sequential-model", fmt.Sprintf("%s: step %d %s is not what a priority queue in state %s answers",
				api.Name(), i, descPQ(in, out), descPQState(st)),
				map[string]any{"target": api.Name(), "ops": trace, "model_state_before": descPQState(st)})
			return
		}
		st = nst
		if msg := api.Check(); msg != "" {
			c.Violation("structure", fmt.Sprintf("%s after step %d: %s", api.Name(), i, msg), map[string]any{"ops": trace})
			return
		}
	}
	// drain: the rest must come out exactly in model order, then nil
	for len(st) > 0 {
		out := api.Pop()
		c.Eval(1)
		ok, nst := pqStep(st, pqIn{Kind: pqPop}, out)
		trace = append(trace, "drain "+descPQ(pqIn{Kind: pqPop}, out))
		if !ok {
			c.Violation("sequential-model", fmt.Sprintf("%s: drain %s with model state %s", api.Name(), descPQ(pqIn{Kind: pqPop}, out), descPQState(st)),
				map[string]any{"target": api.Name(), "ops": trace})
			return
		}
		st = nst
	}
	if out := api.Pop(); out.OK || out.Err != "" {
		c.Violation("sequential-model", api.Name()+": pop on a drained queue returned a transaction", map[string]any{"ops": trace})
		return
	}
	c.Count("seq_sequences", 1)
	c.Count("seq_ops", len(ins))
	var sb strings.Builder
	for _, in := range ins {
		sb.WriteByte("PoKrel?"[in.Kind])
	}
	c.Distinct(fmt.Sprintf("seq|%d|%s", kind, sb.String()))
}

// fixed sequential corpus: one entry per behaviour the property names
var pqCorpus = [][]pqIn{
	// FIFO among equal priorities
	{{pqPush, 1, 5}, {pqPush, 2, 5}, {pqPush, 3, 5}, {pqPeek, 0, 0}, {pqPop, 0, 0}, {pqPop, 0, 0}, {pqPop, 0, 0}, {pqPop, 0, 0}},
	// highest priority first
	{{pqPush, 1, 1}, {pqPush, 2, 3}, {pqPush, 3, 2}, {pqPop, 0, 0}, {pqPop, 0, 0}, {pqPop, 0, 0}},
	// duplicate refused, also with another priority; the first one is yielded
	{{pqPush, 1, 1}, {pqPush, 1, 1}, {pqPush, 1, 9}, {pqLen, 0, 0}, {pqPop, 0, 0}, {pqPop, 0, 0}},
	// removal in the middle keeps FIFO of the others; re-push goes behind its class
	{{pqPush, 1, 4}, {pqPush, 2, 4}, {pqPush, 3, 4}, {pqPush, 4, 4}, {pqRemove, 2, 0}, {pqExists, 2, 0}, {pqPush, 2, 4},
		{pqPop, 0, 0}, {pqPop, 0, 0}, {pqPop, 0, 0}, {pqPop, 0, 0}},
	// empty queue
	{{pqPop, 0, 0}, {pqPeek, 0, 0}, {pqLen, 0, 0}, {pqPending, 0, 0}, {pqRemove, 7, 0}, {pqExists, 7, 0}},
	// yielded transaction may be pushed again, removed one too; each yielded once
	{{pqPush, 1, 2}, {pqPop, 0, 0}, {pqExists, 1, 0}, {pqPush, 1, 2}, {pqRemove, 1, 0}, {pqPush, 1, 2}, {pqPop, 0, 0}, {pqPop, 0, 0}},
	// ties after heap reshuffles: many equal priorities, removals, a higher one in between
	{{pqPush, 1, 1}, {pqPush, 2, 1}, {pqPush, 3, 1}, {pqPush, 4, 1}, {pqPush, 5, 1}, {pqPush, 6, 1}, {pqPush, 7, 1}, {pqPush, 8, 9},
		{pqRemove, 1, 0}, {pqRemove, 4, 0}, {pqPop, 0, 0}, {pqPop, 0, 0}, {pqPush, 9, 1}, {pqRemove, 7, 0}, {pqPending, 0, 0},
		{pqPop, 0, 0}, {pqPop, 0, 0}, {pqPop, 0, 0}, {pqPop, 0, 0}, {pqPop, 0, 0}},
	// extreme priorities
	{{pqPush, 1, 0}, {pqPush, 2, ^uint64(0)}, {pqPush, 3, 1 << 63}, {pqPush, 4, 0}, {pqPop, 0, 0}, {pqPop, 0, 0}, {pqPop, 0, 0}, {pqPop, 0, 0}},
	// PopWithTimer on an empty and on a non-empty queue
	{{pqPop, 0, 25}, {pqPush, 1, 1}, {pqPop, 0, 25}, {pqPop, 0, 25}},
}

// ---------------------------------------------------------------------------
// concurrent part

type pqPlan struct {
	kind    int
	prefill []pqIn
	progs   [][]pqIn
	yield   int
	procs   int
	notify  *notifySpec // c34_notify_test.go: status channels registered on the TransactionState (kind 1 only)
}

func genPQPlan(r *vcommon.Rand, maxTotal int, search bool) pqPlan {
	g := newPQGen(r)
	p := pqPlan{kind: r.Intn(2), yield: vcommon.Pick(r, []int{0, 20, 50, 80}), procs: vcommon.Pick(r, []int{0, 0, 2, 3, 4, 8})}
	clients := r.Range(3, 8)
	per := boundPer(clients, r.Range(3, 12), maxTotal, search)
	if !search { // race-detector workload: longer programs, no search afterwards
		per = boundPer(clients, 3*per, maxTotal, false)
	}
	hot := r.Chance(1, 5)
	for i, n := 0, r.Intn(5); i < n; i++ {
		p.prefill = append(p.prefill, pqIn{Kind: pqPush, ID: g.fresh(100), Prio: vcommon.Pick(r, g.prios)})
	}
	profiles := [][7]int{
		{35, 25, 10, 10, 10, 5, 5},
		{30, 10, 5, 5, 45, 3, 2}, // membership queries against pushes
		{45, 35, 5, 10, 5, 0, 0},
		{25, 15, 15, 25, 10, 5, 5},
	}
	w := vcommon.Pick(r, profiles)
	if hot { // every client pushes the same few transactions
		for i, n := 0, r.Range(1, 4); i < n; i++ {
			g.hot = append(g.hot, uint32(0xaa)<<16|uint32(i+1))
		}
		w = vcommon.Pick(r, [][7]int{{50, 30, 5, 5, 10, 0, 0}, {45, 25, 5, 15, 10, 0, 0}})
	}
	for cidx := 0; cidx < clients; cidx++ {
		var prog []pqIn
		for i := 0; i < per; i++ {
			prog = append(prog, g.op(cidx, w))
		}
		p.progs = append(p.progs, prog)
	}
	if r.Chance(1, 10) { // one client polls with PopWithTimer
		cidx := r.Intn(clients)
		p.progs[cidx][r.Intn(per)] = pqIn{Kind: pqPop, Prio: uint64(r.Range(1, 25))}
	}
	return p
}

func runPQPlan(c *vcommon.Case, p pqPlan, timed bool) {
	for attempt := 0; attempt < maxAttempts; attempt++ {
		if runPQPlanOnce(c, p, timed, attempt) != porcupine.Unknown {
			return
		}
	}
}

// runPQPlanOnce executes the plan once; porcupine.Unknown asks for another execution.
func runPQPlanOnce(c *vcommon.Case, p pqPlan, timed bool, attempt int) porcupine.CheckResult {
	api := newPQ(p.kind)
	var clk atomic.Int64
	var hist []porcupine.Operation
	pre := make([]step, len(p.prefill))
	for i, in := range p.prefill {
		pre[i] = pqDo(api, in)
	}
	hist = append(hist, seqOps(len(p.progs), pre, &clk)...)
	progs := make([][]step, len(p.progs))
	total := 0
	for i := range p.progs {
		for _, in := range p.progs[i] {
			progs[i] = append(progs[i], pqDo(api, in))
			total++
		}
	}
	var ls *listeners
	if p.notify != nil {
		ls = startListeners(api.(statePQ).s, p.notify, &clk, timed)
	}
	setPQYield(p.yield)
	var h history
	withProcs(p.procs, func() {
		if ls != nil {
			h = runClientsWatched(progs, &clk, timed, ls.watch())
		} else {
			h = runClients(progs, &clk, timed)
		}
	})
	setPQYield(0)
	if ls != nil && !ls.finish(c, api.Name(), h, func() map[string]any {
		return map[string]any{"prefill": p.prefill, "programs": p.progs, "yield_pct": p.yield, "gomaxprocs": p.procs, "timed": timed}
	}) {
		return porcupine.Ok
	}
	if h.Hung {
		c.Inconclusive(fmt.Sprintf("%s: clients still running after %s", api.Name(), joinTimeout))
		return porcupine.Ok
	}
	for _, pmsg := range h.Panics {
		c.Violation("panic", api.Name()+": "+strings.SplitN(pmsg, "\n", 2)[0], map[string]any{"stack": pmsg})
	}
	if len(h.Panics) > 0 {
		return porcupine.Ok
	}
	hist = append(hist, h.Ops...)
	if msg := api.Check(); msg != "" {
		c.Violation("structure", api.Name()+" after the concurrent part: "+msg, map[string]any{"history": render(hist, pqModel.DescribeOperation)})
		return porcupine.Ok
	}
	// drain sequentially (recorded, so the final content is checked too)
	var drain []step
	for i := 0; i < total+len(p.prefill)+1; i++ {
		drain = append(drain, pqDo(api, pqIn{Kind: pqPop}))
	}
	dops := seqOps(len(p.progs), drain, &clk)
	for i, o := range dops {
		if !o.Output.(pqOut).OK {
			dops = dops[:i+1]
			break
		}
	}
	hist = append(hist, dops...)

	// direct accounting, independent of the search: every transaction is
	// yielded at most as often as it was accepted
	acc, yld := map[uint32]int{}, map[uint32]int{}
	for _, o := range hist {
		in, out := o.Input.(pqIn), o.Output.(pqOut)
		switch {
		case out.Err != "":
			c.Violation("bad-result", api.Name()+": "+descPQ(in, out), map[string]any{"history": render(hist, pqModel.DescribeOperation)})
			return porcupine.Ok
		case in.Kind == pqPush && out.OK:
			acc[in.ID]++
		case in.Kind == pqPop && out.OK:
			yld[out.ID]++
		}
		c.Count("conc_op_"+pqKindName[in.Kind], 1)
		if in.Kind == pqPush && !out.OK {
			c.Count("conc_dup_push_refused", 1)
		}
		if in.Kind == pqExists && out.OK {
			c.Count("conc_exists_true", 1)
		}
	}
	c.Eval(1)
	for id, n := range yld {
		if n > acc[id] {
			c.Violation("yielded-twice", fmt.Sprintf("%s: tx %x accepted %d time(s) but yielded %d time(s)", api.Name(), id, acc[id], n),
				map[string]any{"history": render(hist, pqModel.DescribeOperation)})
			return porcupine.Ok
		}
	}
	if ls != nil {
		calls, totalCalls := map[uint32]int{}, 0
		for _, o := range h.Ops { // the listeners are registered after the prefill
			if in := o.Input.(pqIn); in.Kind == pqPush {
				calls[in.ID]++
				totalCalls++
			}
		}
		ls.account(c, calls, totalCalls, transaction.Ready, timed, h.Ops)
		if timed {
			c.Count("notify_lin_histories", 1)
		} else {
			c.Count("notify_race_workloads", 1)
		}
	}
	if !timed {
		c.Count("race_workload_histories", 1)
		c.Count("race_workload_ops", total)
		pqDrainOrder(c, api.Name(), p, hist, dops)
	} else {
		ov := overlapPairs(h.Ops)
		c.Count("lin_histories", 1)
		c.Count("lin_ops", len(hist))
		c.Count("lin_overlapping_pairs", ov)
		if ov > 0 {
			c.Count("lin_histories_with_overlap", 1)
		}
		for i := range h.Ops {
			for j := i + 1; j < len(h.Ops); j++ {
				a, b := h.Ops[i], h.Ops[j]
				ai, bi := a.Input.(pqIn), b.Input.(pqIn)
				if a.ClientId != b.ClientId && ai.Kind == pqPush && bi.Kind == pqPush && ai.ID == bi.ID && a.Call < b.Return && b.Call < a.Return {
					c.Count("lin_overlapping_pushes_of_same_tx", 1)
				}
			}
		}
		if res := decide(c, api.Name(), pqModel, hist, map[string]any{"yield_pct": p.yield, "gomaxprocs": p.procs}, attempt); res == porcupine.Unknown {
			return res
		}
	}
	// interleaving fingerprint: client ids in call order + kinds
	var sb strings.Builder
	fmt.Fprintf(&sb, "%d|", p.kind)
	if p.notify != nil {
		sb.WriteString(p.notify.sig())
	}
	for _, ln := range render(h.Ops, func(in, out interface{}) string { return pqKindName[in.(pqIn).Kind][:2] }) {
		sb.WriteString(ln[:strings.Index(ln, " ")])
		sb.WriteString(ln[strings.LastIndex(ln, " "):])
	}
	c.Distinct(sb.String())
	if timed {
		r := render(hist, pqModel.DescribeOperation)
		if len(r) > 14 {
			r = append(r[:14], fmt.Sprintf("... %d more", len(r)-14))
		}
		c.Sample(map[string]any{"target": api.Name(), "clients": len(p.progs), "history": r})
	}
	return porcupine.Ok
}

// pqDrainOrder is the order oracle of the untimed (race-detector) workload,
// where no intervals are known: the sequential drain after the clients joined
// must come out with non-increasing priority, and two transactions of equal
// priority pushed by the SAME client (each accepted exactly once, never the
// target of a removal) must come out in that client's program order.
func pqDrainOrder(c *vcommon.Case, name string, p pqPlan, hist, dops []porcupine.Operation) {
	accepted, removed := map[uint32]int{}, map[uint32]bool{}
	for _, o := range hist {
		in, out := o.Input.(pqIn), o.Output.(pqOut)
		if in.Kind == pqPush && out.OK {
			accepted[in.ID]++
		}
		if in.Kind == pqRemove {
			removed[in.ID] = true
		}
	}
	rank := map[uint32]int{} // program position of the push inside its client
	owner := map[uint32]int{}
	for ci, prog := range p.progs {
		for i, in := range prog {
			if in.Kind == pqPush {
				if _, dup := owner[in.ID]; dup {
					removed[in.ID] = true // pushed from several places: order unknown
				}
				owner[in.ID], rank[in.ID] = ci, i
			}
		}
	}
	for i, in := range p.prefill {
		owner[in.ID], rank[in.ID] = -1, i-1000
	}
	c.Eval(1)
	var prev *pqOut
	for i := range dops {
		out := dops[i].Output.(pqOut)
		if !out.OK {
			break
		}
		if prev != nil {
			bad := ""
			switch {
			case out.Prio > prev.Prio:
				bad = "priority increases in the drain"
			case out.Prio == prev.Prio && accepted[out.ID] == 1 && accepted[prev.ID] == 1 && !removed[out.ID] && !removed[prev.ID] &&
				((owner[out.ID] == owner[prev.ID] && rank[out.ID] < rank[prev.ID]) || (owner[out.ID] == -1 && owner[prev.ID] != -1)):
				bad = "equal priorities not in insertion order"
			}
			if bad != "" {
				c.Violation("drain-order", fmt.Sprintf("%s: %s: tx %x@%d yielded before tx %x@%d", name, bad, prev.ID, prev.Prio, out.ID, out.Prio),
					map[string]any{"history": render(hist, pqModel.DescribeOperation)})
				return
			}
			c.Count("race_workload_drain_pairs_checked", 1)
		}
		o := out
		prev = &o
	}
}

// pqExistsRace is the minimal workload of the repaired defect: membership
// queries running against pushes/pops of other clients (Exists used to read
// the map without the queue's mutex).
func pqExistsRace(kind, rounds int) pqPlan {
	p := pqPlan{kind: kind, yield: 50}
	var a, b, q1, q2 []pqIn
	for i := 1; i <= rounds; i++ {
		a = append(a, pqIn{Kind: pqPush, ID: uint32(1<<16 | i), Prio: uint64(i % 3)})
		b = append(b, pqIn{Kind: pqPush, ID: uint32(2<<16 | i), Prio: uint64(i % 2)}, pqIn{Kind: pqPop})
		q1 = append(q1, pqIn{Kind: pqExists, ID: uint32(1<<16 | i)})
		q2 = append(q2, pqIn{Kind: pqExists, ID: uint32(2<<16 | i)}, pqIn{Kind: pqExists, ID: uint32(1<<16 | (rounds - i + 1))})
	}
	p.progs = [][]pqIn{a, b, q1, q2}
	return p
}

func pqSelfTest(c *vcommon.Case) bool {
	push := func(id uint32, pr uint64) pqIn { return pqIn{Kind: pqPush, ID: id, Prio: pr} }
	acc, ref := pqOut{OK: true}, pqOut{}
	got := func(id uint32, pr uint64) pqOut { return pqOut{OK: true, ID: id, Prio: pr} }
	legal := [][]porcupine.Operation{
		{op(0, 1, 2, push(1, 5), acc), op(1, 3, 4, push(2, 5), acc), op(0, 5, 6, pqIn{Kind: pqPop}, got(1, 5)), op(0, 7, 8, pqIn{Kind: pqPop}, got(2, 5))},
		// overlapping pushes of equal priority may be ordered either way
		{op(0, 1, 4, push(1, 5), acc), op(1, 2, 3, push(2, 5), acc), op(0, 5, 6, pqIn{Kind: pqPop}, got(2, 5)), op(0, 7, 8, pqIn{Kind: pqPop}, got(1, 5))},
		{op(0, 1, 4, push(1, 5), acc), op(1, 2, 3, pqIn{Kind: pqExists, ID: 1}, pqOut{OK: true}), op(1, 5, 6, push(1, 7), ref)},
	}
	illegal := [][]porcupine.Operation{
		// lower priority yielded first
		{op(0, 1, 2, push(1, 1), acc), op(0, 3, 4, push(2, 9), acc), op(1, 5, 6, pqIn{Kind: pqPop}, got(1, 1))},
		// FIFO among equal priorities broken (pushes strictly ordered)
		{op(0, 1, 2, push(1, 5), acc), op(1, 3, 4, push(2, 5), acc), op(0, 5, 6, pqIn{Kind: pqPop}, got(2, 5))},
		// yielded twice
		{op(0, 1, 2, push(1, 5), acc), op(0, 3, 6, pqIn{Kind: pqPop}, got(1, 5)), op(1, 4, 5, pqIn{Kind: pqPop}, got(1, 5))},
		// duplicate accepted
		{op(0, 1, 2, push(1, 5), acc), op(1, 3, 4, push(1, 6), acc)},
		// membership query misses a transaction that is certainly queued
		{op(0, 1, 2, push(1, 5), acc), op(1, 3, 4, pqIn{Kind: pqExists, ID: 1}, pqOut{})},
		// removed transaction still yielded
		{op(0, 1, 2, push(1, 5), acc), op(0, 3, 4, pqIn{Kind: pqRemove, ID: 1}, pqOut{}), op(1, 5, 6, pqIn{Kind: pqPop}, got(1, 5))},
		// nil from a certainly non-empty queue
		{op(0, 1, 2, push(1, 5), acc), op(1, 3, 4, pqIn{Kind: pqPop}, pqOut{})},
	}
	return selfTest(c, "SeqPQ", pqModel, legal, illegal)
}

// poolWorkload hammers lib/transaction.Pool and the pool side of
// TransactionState (race detector + plain-map postconditions).
func poolWorkload(c *vcommon.Case) {
	ts := state.NewTransactionState(noTelemetry{})
	clients := c.R.Range(3, 6)
	n := c.R.Range(20, 60)
	progs := make([][]step, clients)
	type res struct {
		nilEntry bool
		n        int
	}
	for g := 0; g < clients; g++ {
		for i := 0; i < n; i++ {
			id := uint32(g+1)<<16 | uint32(i+1)
			switch (i + g) % 4 {
			case 0, 1:
				progs[g] = append(progs[g], func() (interface{}, interface{}) { ts.AddToPool(vtOf(id, 1)); return nil, res{} })
			case 2:
				progs[g] = append(progs[g], func() (interface{}, interface{}) {
					r := res{}
					for _, vt := range ts.Pending() {
						r.n++
						if vt == nil {
							r.nilEntry = true
						}
					}
					for _, vt := range ts.PendingInPool() {
						if vt == nil {
							r.nilEntry = true
						}
					}
					_ = ts.Exists(extOf(id - 1))
					return nil, r
				})
			default:
				progs[g] = append(progs[g], func() (interface{}, interface{}) {
					ts.RemoveExtrinsicFromPool(extOf(id - 3))
					ts.RemoveExtrinsic(extOf(id - 2))
					return nil, res{}
				})
			}
		}
	}
	var clk atomic.Int64
	h := runClients(progs, &clk, false)
	if h.Hung {
		c.Inconclusive("pool workload: clients still running")
		return
	}
	for _, pmsg := range h.Panics {
		c.Violation("panic", "transaction pool: "+strings.SplitN(pmsg, "\n", 2)[0], map[string]any{"stack": pmsg})
	}
	if len(h.Panics) > 0 {
		return
	}
	c.Eval(1)
	for _, o := range h.Ops {
		if o.Output.(res).nilEntry {
			c.Violation("pool-nil-entry", "Pool.Transactions returned a nil entry while inserts/removals were running", nil)
			break
		}
	}
	// sequential postcondition: what is left is exactly inserted minus removed
	want := map[uint32]bool{}
	for g := 0; g < clients; g++ {
		for i := 0; i < n; i++ {
			id := uint32(g+1)<<16 | uint32(i+1)
			switch (i + g) % 4 {
			case 0, 1:
				want[id] = true
			}
		}
	}
	// removals race with inserts of other indexes of the SAME client only in program order
	for g := 0; g < clients; g++ {
		for i := 0; i < n; i++ {
			id := uint32(g+1)<<16 | uint32(i+1)
			if (i+g)%4 == 3 {
				delete(want, id-3)
				delete(want, id-2)
			}
		}
	}
	got := setOfVTs(ts.PendingInPool())
	ids := make([]int, 0, len(want))
	for id := range want {
		ids = append(ids, int(id))
	}
	if got.Err != "" || got.Set != idSet(ids) {
		c.Violation("pool-content", fmt.Sprintf("pool holds {%s}%s, expected {%s}", got.Set, got.Err, idSet(ids)), nil)
	}
	c.Count("pool_workloads", 1)
	c.Count("pool_ops", clients*n)
}

func TestVerifC34(t *testing.T) {
	r := vcommon.Start(t, "C34")
	defer r.Finish()
	r.Floor("seq_dup_push_refused_expected", 50)
	r.Floor("seq_pop_with_equal_priority_tie", 50)
	r.Floor("seq_remove_middle", 20)
	r.Floor("seq_repush_after_yield", 20)
	r.Floor("lin_histories_with_overlap", 20)
	r.Floor("conc_dup_push_refused", 10)
	r.Floor("lin_overlapping_pushes_of_same_tx", 5)
	r.Floor("conc_op_exists", 50)
	r.Floor("race_workload_histories", 10)
	r.Floor("pool_workloads", 10)

	good := true
	r.Fixed("selftest", r.Shards, func(c *vcommon.Case) { good = pqSelfTest(c) })
	if !good && r.OnlyCase == "" {
		return
	}

	// seed-independent corpus: sequential witnesses on both targets, then the
	// concurrent witness of the repaired Exists defect
	r.Fixed("corpus", 2*len(pqCorpus), func(c *vcommon.Case) { pqSequential(c, c.Idx%2, pqCorpus[c.Idx/2]) })
	r.Fixed("corpus-exists-race", 8, func(c *vcommon.Case) {
		p := pqExistsRace(c.Idx%2, 12)
		p.procs = []int{0, 2, 4, 8}[c.Idx/2]
		runPQPlan(c, p, c.Idx%4 < 2)
	})

	// witness of the repaired Pool.Transactions defect: Pending()/PendingInPool()
	// while other clients insert into and remove from the pool
	r.Fixed("corpus-pool-race", 6, poolWorkload)

	r.Cases("seq", r.Scale(600), func(c *vcommon.Case) {
		g := newPQGen(c.R)
		n := c.R.Range(8, 60)
		w := vcommon.Pick(c.R, [][7]int{{40, 25, 8, 12, 8, 4, 3}, {30, 35, 5, 15, 10, 3, 2}, {50, 15, 5, 20, 5, 3, 2}})
		g.dupPct = c.R.Range(10, 50)
		ins := make([]pqIn, n)
		for i := range ins {
			ins[i] = g.op(c.R.Intn(3), w)
		}
		pqSequential(c, c.R.Intn(2), ins)
	})

	r.Cases("lin", r.Scale(260), func(c *vcommon.Case) { runPQPlan(c, genPQPlan(c.R, 64, true), true) })

	// race-detector workload: no shared clock between the clients
	r.Cases("race", r.Scale(60), func(c *vcommon.Case) {
		if c.Idx%3 == 2 {
			poolWorkload(c)
			return
		}
		p := genPQPlan(c.R, 96, false)
		if c.Idx%3 == 1 {
			p = pqExistsRace(c.R.Intn(2), c.R.Range(10, 40))
			p.procs = vcommon.Pick(c.R, []int{0, 2, 4})
		}
		runPQPlan(c, p, false)
	})

	// notifier variant (c34_notify_test.go): the same workloads with registered status channels
	c34NotifyGroups(r)

	// PopWithTimer's polling fallback against its timer (c34_timerpop_test.go)
	c34TimerPopGroups(r)
}
