//go:build verif

package conc

// C35 extension 3: (a) the sliding-window limiter with a window short enough
// for entries to expire between calls (groups limiter-window-corpus,
// limiter-window); (b) the value cache behind TrieInMemoryCache.GetValue /
// SetValue (groups vc-corpus, vc-seq, vc-lin, vc-race, vc-budget).

import (
	"encoding/binary"
	"fmt"
	"sort"
	"strings"
	"sync/atomic"
	"time"

	"github.com/ChainSafe/gossamer/dot/network/ratelimiters"
	"github.com/ChainSafe/gossamer/pkg/trie/cache/inmemory"
	"github.com/ChainSafe/gossamer/zz_verif/vcommon"
)

// ---------------------------------------------------------------------------
// (b) value cache adapter

const (
	vcOverhead     = 350             // per-entry overhead documented in maxbytes_lru_cache.go
	vcDefaultBytes = 2 * 1024 * 1024 // documented default budget of the value cache
	vcMaxEntry     = vcOverhead + 8 + 4*13
	vcNoEvict      = 1 << 30 // model capacity of a cache whose budget is never reached
)

// valLRU drives TrieInMemoryCache.GetValue / SetValue. Entries are 8 bytes
// (the value id) plus 0..52 bytes of padding derived from the id.
type valLRU struct {
	c    *inmemory.TrieInMemoryCache
	name string
}

func vcKey(k int) []byte { return []byte{byte(k), byte(k >> 8), 'v'} }

func vcEnc(v, pad int) []byte {
	b := make([]byte, 8+pad)
	binary.LittleEndian.PutUint64(b, uint64(v))
	for i := 8; i < len(b); i++ {
		b[i] = byte(v + i)
	}
	return b
}

// vcDec: 0 = miss, -1 = a value the harness never wrote.
func vcDec(b []byte) int {
	if len(b) == 0 {
		return 0
	}
	if len(b) < 8 {
		return -1
	}
	v := int(binary.LittleEndian.Uint64(b))
	for i := 8; i < len(b); i++ {
		if b[i] != byte(v+i) {
			return -1
		}
	}
	return v
}

func (a valLRU) Name() string  { return a.name }
func (a valLRU) Cap() int      { return vcNoEvict }
func (a valLRU) Get(k int) int { return vcDec(a.c.GetValue(vcKey(k))) }
func (a valLRU) Put(k, v int)  { a.c.SetValue(vcKey(k), vcEnc(v, (v%5)*13)) }
func (a valLRU) Check() string { return "" }
func (a valLRU) Order() []int  { return nil }
func (a valLRU) Stop()         { a.c.VerifValueStop() }

func newValLRU(kind, entries int) lruAPI {
	if kind == 3 {
		return valLRU{inmemory.NewTrieInMemoryCache(), "inmemory.TrieInMemoryCache(value cache, 2 MiB)"}
	}
	// budget = every entry ever set stays accountable even if the worker has
	// not yet processed a single replacement: the cache may never evict
	return valLRU{inmemory.VerifNewTrieCache(int64(entries) * vcMaxEntry), "inmemory.TrieInMemoryCache(value cache, budget = all sets)"}
}

// stopLRU ends the background worker of a value cache (no-op for the others).
func stopLRU(api lruAPI) {
	if s, ok := api.(interface{ Stop() }); ok {
		s.Stop()
	}
}

func countPuts(pre []lruIn, progs [][]lruIn) int {
	n := len(pre)
	for _, p := range progs {
		for _, in := range p {
			if in.Put {
				n++
			}
		}
	}
	return n + 1
}

func genVCPlan(r *vcommon.Rand, maxTotal int, search bool) lruPlan {
	p := genLRUPlan(r, maxTotal, search)
	p.kind = 3 + r.Intn(2)
	p.keys = r.Range(1, 5)
	p.prefill = nil
	for k, n := 0, r.Intn(p.keys+1); k < n; k++ {
		p.prefill = append(p.prefill, lruIn{Put: true, K: k, V: 0x640000 | (k + 1)})
	}
	for ci := range p.progs {
		for i := range p.progs[ci] {
			p.progs[ci][i].K = r.Intn(p.keys)
		}
	}
	p.capacity = countPuts(p.prefill, p.progs) // kind 4: number of entries the budget holds
	return p
}

// vcProbe reads every key after VerifValueSync and returns the documented
// byte cost of what is resident (len(value)+350 per entry) and the values.
func vcProbe(tc *inmemory.TrieInMemoryCache, keys int) (bytes int64, vals []int, ownSize int64) {
	ownSize, _ = tc.VerifValueSync()
	vals = make([]int, keys)
	for k := 0; k < keys; k++ {
		b := tc.GetValue(vcKey(k))
		vals[k] = vcDec(b)
		if len(b) > 0 {
			bytes += int64(len(b)) + vcOverhead
		}
	}
	return bytes, vals, ownSize
}

// vcBudget drives the value cache beyond its byte budget. Eviction there is
// asynchronous and batched (documented), so the oracle is: a read answers a
// miss or the last value set (sequential) / a value once set under that key
// (concurrent), and once the worker is idle the resident entries cost at
// most the budget. Everything else is counted.
func vcBudget(c *vcommon.Case, mode int, concurrent bool) {
	var tc *inmemory.TrieInMemoryCache
	var budget int64
	var keys, pad, nops int
	what := ""
	switch mode {
	case 0: // a handful of entries
		n := c.R.Range(2, 12)
		budget = int64(n)*(vcOverhead+8+26) + int64(c.R.Intn(300))
		tc, keys, pad, nops = inmemory.VerifNewTrieCache(budget), n+c.R.Range(1, 6), -1, c.R.Range(30, 120)
		what = fmt.Sprintf("budget %d bytes (about %d entries)", budget, n)
	case 1: // more entries than one eviction batch removes
		n := c.R.Range(520, 800)
		budget = int64(n) * (vcOverhead + 8)
		tc, keys, pad, nops = inmemory.VerifNewTrieCache(budget), n+c.R.Range(50, 300), 0, n+c.R.Range(100, 600)
		what = fmt.Sprintf("budget %d bytes (%d entries of 358 bytes)", budget, n)
	default: // the production constructor, 64 KiB values
		budget = vcDefaultBytes
		tc, keys, pad, nops = inmemory.NewTrieInMemoryCache(), c.R.Range(34, 44), 65536-8, c.R.Range(50, 90)
		what = "NewTrieInMemoryCache (2 MiB), 64 KiB values"
	}
	defer tc.VerifValueStop()
	padOf := func(v int) int {
		if pad < 0 {
			return (v % 5) * 13
		}
		return pad
	}
	last := make([]int, keys)          // sequential: last value set
	puts := make([]map[int]bool, keys) // every value set under the key
	trace := make([]string, 0, 40)     // tail of the operation log for a witness
	note := func(s string) {
		if len(trace) == 40 {
			trace = trace[1:]
		}
		trace = append(trace, s)
	}
	for k := range puts {
		puts[k] = map[int]bool{}
	}
	check := func(at string) bool {
		c.Eval(1)
		bytes, vals, own := vcProbe(tc, keys)
		resident, evicted := 0, 0
		for k, v := range vals {
			switch {
			case v == 0 && len(puts[k]) > 0:
				evicted++
			case v == 0:
			case !puts[k][v]:
				c.Violation("phantom-value", fmt.Sprintf("value cache, %s: %s GetValue(k%d) returned %x which was never set under that key", what, at, k, v), map[string]any{"last_ops": trace})
				return false
			case !concurrent && v != last[k]:
				c.Violation("vc-stale", fmt.Sprintf("value cache, %s: %s GetValue(k%d) returned %x, the last value set is %x", what, at, k, v, last[k]), map[string]any{"last_ops": trace})
				return false
			default:
				resident++
			}
		}
		if bytes > budget {
			c.Violation("vc-over-budget", fmt.Sprintf("value cache, %s: with the worker idle %d entries costing %d bytes (len+350 each) are resident, budget %d (cache's own accounting: %d)",
				what, resident, bytes, budget, own), map[string]any{"last_ops": trace})
			return false
		}
		c.Count("vc_budget_checks", 1)
		c.Count("vc_budget_evicted_entries", evicted)
		switch {
		case evicted > 0 && resident == 0:
			c.Count("vc_budget_check_cache_wiped_by_batch_eviction", 1)
		case evicted > 0:
			c.Count("vc_budget_check_partial_eviction", 1)
		}
		if own == bytes {
			c.Count("vc_budget_own_accounting_agrees", 1)
		}
		return true
	}
	seqNo := 0
	if !concurrent {
		for i := 0; i < nops; i++ {
			k := c.R.Intn(keys)
			if mode == 1 && i < keys { // fill in key order first
				k = i
			}
			if c.R.Chance(30, 100) && !(mode == 1 && i < keys) {
				v := vcDec(tc.GetValue(vcKey(k)))
				c.Eval(1)
				note(fmt.Sprintf("get(k%d) -> %x", k, v))
				switch {
				case v == 0 && last[k] != 0:
					c.Count("vc_budget_get_miss_after_eviction", 1)
				case v == 0:
				case v != last[k]:
					c.Violation("vc-stale", fmt.Sprintf("value cache, %s: GetValue(k%d) returned %x, the last value set is %x", what, k, v, last[k]), map[string]any{"last_ops": trace})
					return
				default:
					c.Count("vc_budget_get_hit", 1)
				}
			} else {
				seqNo++
				v := 0x10000 + seqNo
				tc.SetValue(vcKey(k), vcEnc(v, padOf(v)))
				last[k], puts[k][v] = v, true
				note(fmt.Sprintf("set(k%d,%x,%d bytes)", k, v, 8+padOf(v)))
			}
			if c.R.Chance(1, 25) && !check(fmt.Sprintf("after op %d", i)) {
				return
			}
		}
		if check("at the end") {
			c.Count("vc_budget_sequences", 1)
			c.Distinct(fmt.Sprintf("vcb|%d|%d|%d|%d", mode, budget, keys, nops))
		}
		return
	}
	clients := c.R.Range(3, 6)
	progs := make([][]step, clients)
	for ci := range progs {
		for i, n := 0, nops/clients+1; i < n; i++ {
			k := c.R.Intn(keys)
			if c.R.Chance(35, 100) {
				progs[ci] = append(progs[ci], func() (interface{}, interface{}) { return lruIn{K: k}, lruOut{V: vcDec(tc.GetValue(vcKey(k)))} })
			} else {
				v := (ci+1)<<20 | (i + 1)
				puts[k][v] = true
				p := padOf(v)
				progs[ci] = append(progs[ci], func() (interface{}, interface{}) {
					tc.SetValue(vcKey(k), vcEnc(v, p))
					return lruIn{Put: true, K: k, V: v}, lruOut{}
				})
			}
		}
	}
	var clk atomic.Int64
	var h history
	withProcs(vcommon.Pick(c.R, []int{0, 2, 4}), func() { h = runClients(progs, &clk, false) })
	if h.Hung {
		c.Inconclusive("value cache: clients still running")
		return
	}
	for _, pmsg := range h.Panics {
		c.Violation("panic", "value cache: "+strings.SplitN(pmsg, "\n", 2)[0], map[string]any{"stack": pmsg})
	}
	if len(h.Panics) > 0 {
		return
	}
	c.Eval(1)
	for _, o := range h.Ops {
		in, out := o.Input.(lruIn), o.Output.(lruOut)
		if !in.Put && out.V != 0 && !puts[in.K][out.V] {
			c.Violation("phantom-value", fmt.Sprintf("value cache, %s: concurrent GetValue(k%d) returned %x which was never set under that key", what, in.K, out.V), nil)
			return
		}
	}
	if check("after the concurrent part") {
		c.Count("vc_budget_concurrent_workloads", 1)
		c.Distinct(fmt.Sprintf("vcbc|%d|%d|%d|%d|%d", mode, budget, keys, nops, clients))
	}
}

// vcCorpus: hand-written value-cache scenarios.
func vcCorpus(c *vcommon.Case) {
	switch c.Idx {
	case 0, 1: // plain map behaviour below the budget, both constructors
		ops := []lruIn{{false, 0, 0}, {true, 0, 1}, {false, 0, 0}, {true, 0, 2}, {false, 0, 0}, {true, 1, 3}, {false, 1, 0}, {false, 0, 0}, {false, 7, 0},
			{true, 1, 4}, {true, 1, 5}, {false, 1, 0}, {true, 2, 6}, {false, 0, 0}, {false, 1, 0}, {false, 2, 0}}
		if lruSequential(c, 3+c.Idx, 8, ops, false) {
			c.Eval(len(ops))
			c.Count("vc_corpus_scenarios", 1)
		}
	case 2: // empty value, empty key
		tc := inmemory.NewTrieInMemoryCache()
		defer tc.VerifValueStop()
		tc.SetValue([]byte{}, []byte{9})
		tc.SetValue([]byte("k"), []byte{})
		c.Eval(2)
		if got := tc.GetValue([]byte{}); len(got) != 1 || got[0] != 9 {
			c.Violation("sequential-model", fmt.Sprintf("value cache: SetValue(empty key, 09) then GetValue(empty key) = %x", got), nil)
			return
		}
		if got := tc.GetValue([]byte("k")); len(got) != 0 {
			c.Violation("sequential-model", fmt.Sprintf("value cache: SetValue(k, empty) then GetValue(k) = %x", got), nil)
			return
		}
		if got := tc.GetNode([]byte("k")); got != nil { // the two caches are separate maps
			c.Violation("sequential-model", fmt.Sprintf("value cache: SetValue(k) is visible through GetNode(k): %x", got), nil)
			return
		}
		c.Count("vc_corpus_scenarios", 1)
	case 3: // 700 entries of 358 bytes fit exactly; one more starts a batch eviction
		const n = 700
		tc := inmemory.VerifNewTrieCache(n * (vcOverhead + 8))
		defer tc.VerifValueStop()
		for k := 0; k < n; k++ {
			tc.SetValue(vcKey(k), vcEnc(k+1, 0))
		}
		bytes, vals, _ := vcProbe(tc, n+1)
		c.Eval(1)
		for k := 0; k < n; k++ {
			if vals[k] != k+1 {
				c.Violation("lost-entry", fmt.Sprintf("value cache with a budget of exactly %d entries (358 bytes each): after %d sets GetValue(k%d) = %x", n, n, k, vals[k]),
					map[string]any{"resident_bytes": bytes})
				return
			}
		}
		for i := 0; i < 4; i++ { // would refresh k0 in an LRU
			tc.GetValue(vcKey(0))
		}
		tc.VerifValueSync()
		tc.SetValue(vcKey(n), vcEnc(n+1, 0))
		bytes, vals, _ = vcProbe(tc, n+1)
		c.Eval(1)
		if bytes > n*(vcOverhead+8) {
			c.Violation("vc-over-budget", fmt.Sprintf("value cache: %d bytes resident with the worker idle, budget %d", bytes, n*(vcOverhead+8)), nil)
			return
		}
		gone, oldest := 0, true
		for k := 1; k <= n; k++ {
			if vals[k] == 0 {
				gone++
				oldest = oldest && k <= 500
			} else if vals[k] != k+1 {
				c.Violation("vc-stale", fmt.Sprintf("value cache: GetValue(k%d) = %x, set was %x", k, vals[k], k+1), nil)
				return
			}
		}
		c.Count("vc_budget_evicted_entries", gone)
		if gone > 0 && oldest {
			c.Count("vc_corpus_batch_evicted_only_among_the_500_oldest", 1)
		}
		if vals[0] != 0 { // counted, not judged: the property names the node cache's recency rule
			c.Count("vc_corpus_get_refresh_kept_entry", 1)
		} else {
			c.Count("vc_corpus_get_refresh_not_honoured", 1)
		}
		c.Count("vc_corpus_scenarios", 1)
	case 4: // production budget: 2 MiB / (64 KiB + 350) = 31 entries
		tc := inmemory.NewTrieInMemoryCache()
		defer tc.VerifValueStop()
		for k := 0; k < 31; k++ {
			tc.SetValue(vcKey(k), vcEnc(k+1, 65536-8))
		}
		bytes, vals, _ := vcProbe(tc, 40)
		c.Eval(1)
		for k := 0; k < 31; k++ {
			if vals[k] != k+1 {
				c.Violation("lost-entry", fmt.Sprintf("NewTrieInMemoryCache value cache: 31 values of 64 KiB (%d bytes with overhead) are below 2 MiB, yet GetValue(k%d) = %x", 31*(65536+vcOverhead), k, vals[k]), nil)
				return
			}
		}
		for k := 31; k < 40; k++ {
			tc.SetValue(vcKey(k), vcEnc(k+1, 65536-8))
		}
		bytes, vals, _ = vcProbe(tc, 40)
		c.Eval(1)
		if bytes > vcDefaultBytes {
			c.Violation("vc-over-budget", fmt.Sprintf("NewTrieInMemoryCache value cache: %d bytes resident with the worker idle, budget %d", bytes, vcDefaultBytes), nil)
			return
		}
		for k, v := range vals {
			if v == 0 {
				c.Count("vc_budget_evicted_entries", 1)
			} else if v != k+1 {
				c.Violation("vc-stale", fmt.Sprintf("value cache: GetValue(k%d) = %x, set was %x", k, v, k+1), nil)
				return
			}
		}
		c.Count("vc_corpus_scenarios", 1)
	}
}

// ---------------------------------------------------------------------------
// (a) sliding-window limiter with a window that really elapses

type lwCall struct {
	Key       int
	Add       bool
	B, A      time.Duration // harness clock (monotonic, since the case began) read before the call / after the return
	Exceeded  bool          // window limiter's answer (queries)
	Twin      bool          // the 1 h twin's answer (queries)
	Seq       bool          // issued while no other call was running
	Low, High int           // queries: requests of this id certainly finished before / possibly begun before the call (by script position)
}

func (x lwCall) String() string {
	if x.Add {
		return fmt.Sprintf("[%v,%v] AddRequest(id%d)", x.B, x.A, x.Key)
	}
	return fmt.Sprintf("[%v,%v] IsLimitExceeded(id%d) -> %v (1h twin: %v)", x.B, x.A, x.Key, x.Exceeded, x.Twin)
}

// lwPhase: what runs concurrently, then whether the harness lets the window elapse.
type lwPhase struct {
	progs  [][]lwCall // Key/Add only
	expire bool
}

// limiterWindow runs the script on a limiter with window w and on a twin
// with a 1 h window. The limiter reads time.Now() itself, so the harness
// brackets every call with its own monotonic readings [B,A]: the timestamp an
// AddRequest stores and the "now" of a query lie inside their brackets. A
// request is CERTAINLY expired for a query when queryB-addA > w and CERTAINLY
// counted when it returned before the query began and queryA-addB <= w. The
// verdicts use only these certain bounds (they hold however slow the machine
// is: slowness widens brackets and turns verdicts into "ambiguous" counts);
// the harness lets the window elapse with time.Sleep(2w+1ms), which sleeps at
// least that long.
func limiterWindow(c *vcommon.Case, maxReqs int, w time.Duration, keys int, script []lwPhase) {
	rl := ratelimiters.NewSlidingWindowRateLimiter(uint32(maxReqs), w)
	twin := ratelimiters.NewSlidingWindowRateLimiter(uint32(maxReqs), time.Hour)
	t0 := time.Now()
	do := func(x lwCall) lwCall {
		id := hashKey(x.Key)
		if x.Add {
			x.B = time.Since(t0)
			rl.AddRequest(id)
			x.A = time.Since(t0)
			twin.AddRequest(id)
			return x
		}
		x.B = time.Since(t0)
		x.Exceeded = rl.IsLimitExceeded(id)
		x.A = time.Since(t0)
		x.Twin = twin.IsLimitExceeded(id)
		return x
	}
	var all []lwCall
	totalAdds := make([]int, keys)
	witness := func() map[string]any {
		s := append([]lwCall(nil), all...)
		sort.SliceStable(s, func(i, j int) bool { return s[i].B < s[j].B })
		out := make([]string, 0, len(s))
		for _, x := range s {
			out = append(out, x.String())
		}
		if len(out) > 120 {
			out = append([]string{fmt.Sprintf("... %d earlier calls", len(out)-120)}, out[len(out)-120:]...)
		}
		return map[string]any{"max_requests": maxReqs, "window": w.String(), "calls": out}
	}
	shape := fmt.Sprintf("lw|%d|%v|%d", maxReqs, w, keys)
	for pi, ph := range script {
		progs := make([][]step, len(ph.progs))
		before := append([]int(nil), totalAdds...)
		for g := range ph.progs {
			for _, x := range ph.progs[g] {
				if x.Add {
					totalAdds[x.Key]++
				}
			}
		}
		for g := range ph.progs {
			own := make([]int, keys) // requests issued earlier by the same client in this phase
			for _, x := range ph.progs[g] {
				x := x
				x.Seq = len(ph.progs) == 1
				x.Low, x.High = before[x.Key]+own[x.Key], totalAdds[x.Key]
				if x.Seq {
					x.High = x.Low
				}
				if x.Add {
					own[x.Key]++
				}
				progs[g] = append(progs[g], func() (interface{}, interface{}) { return nil, do(x) })
			}
		}
		var clk atomic.Int64
		h := runClients(progs, &clk, false)
		if h.Hung {
			c.Inconclusive("window limiter: clients still running")
			return
		}
		for _, pmsg := range h.Panics {
			c.Violation("panic", "window limiter: "+strings.SplitN(pmsg, "\n", 2)[0], map[string]any{"stack": pmsg})
		}
		if len(h.Panics) > 0 {
			return
		}
		for _, o := range h.Ops {
			all = append(all, o.Output.(lwCall))
		}
		if len(ph.progs) > 1 {
			c.Count("lw_concurrent_phases", 1)
		}
		if ph.expire {
			time.Sleep(2*w + time.Millisecond)
			c.Count("lw_window_elapsed_between_phases", 1)
		}
		for k := 0; k < keys; k++ { // sequential queries: nothing else is running
			all = append(all, do(lwCall{Key: k, Seq: true, Low: totalAdds[k], High: totalAdds[k]}))
		}
		shape += fmt.Sprintf("|%d:%d:%v", pi, len(ph.progs), ph.expire)
	}
	// offline verdicts
	adds := make([][]lwCall, keys)
	for _, x := range all {
		if x.Add {
			adds[x.Key] = append(adds[x.Key], x)
		}
	}
	for _, q := range all {
		if q.Add {
			continue
		}
		c.Eval(1)
		lower, upper, finished, begun, expired := 0, 0, 0, 0, 0
		for _, a := range adds[q.Key] {
			if a.B <= q.A {
				begun++
				if q.B-a.A > w {
					expired++
				} else {
					upper++
				}
			}
			if a.A < q.B {
				finished++
				if q.A-a.B <= w {
					lower++
				}
			}
		}
		c.Count("lw_queries", 1)
		c.Count("lw_requests_certainly_expired_at_a_query", expired)
		switch {
		case q.Exceeded && upper <= maxReqs:
			c.Violation("limiter-window", fmt.Sprintf("limit %d, window %v: IsLimitExceeded(id%d) at [%v,%v] = true although at most %d requests can lie inside the window (%d requests begun before, %d of them returned more than the window before the query began)",
				maxReqs, w, q.Key, q.B, q.A, upper, begun, expired), witness())
			return
		case !q.Exceeded && lower > maxReqs:
			c.Violation("limiter-window", fmt.Sprintf("limit %d, window %v: IsLimitExceeded(id%d) at [%v,%v] = false although %d requests returned before the query and are at most %v old at its end",
				maxReqs, w, q.Key, q.B, q.A, lower, w), witness())
			return
		case q.Exceeded:
			if lower > maxReqs {
				c.Count("lw_exceeded_with_enough_requests_certainly_inside_window", 1)
			} else {
				c.Count("lw_ambiguous_queries", 1)
			}
		case finished > maxReqs && upper <= maxReqs:
			c.Count("lw_expiry_proved_not_exceeded_after_more_than_max_requests", 1)
		case upper <= maxReqs:
			c.Count("lw_not_exceeded_few_requests", 1)
		default:
			c.Count("lw_ambiguous_queries", 1)
		}
		// 1 h twin: nothing expires, so the count is exact at quiet points and one-sided otherwise
		switch {
		case q.Twin && q.High <= maxReqs, !q.Twin && q.Low > maxReqs:
			c.Violation("limiter", fmt.Sprintf("limit %d, window 1h: IsLimitExceeded(id%d) = %v with at least %d / at most %d requests issued before it", maxReqs, q.Key, q.Twin, q.Low, q.High), witness())
			return
		case q.Seq:
			c.Count("lw_twin_exact_checks", 1)
		}
	}
	c.Count("lw_scripts", 1)
	c.Distinct(shape)
	if len(all) <= 40 {
		c.Sample(witness())
	}
}

func genLWScript(r *vcommon.Rand, keys, maxReqs int) []lwPhase {
	var script []lwPhase
	for p, n := 0, r.Range(3, 6); p < n; p++ {
		ph := lwPhase{expire: r.Chance(60, 100)}
		g := 1
		if r.Chance(1, 2) {
			g = r.Range(2, 4)
		}
		for i := 0; i < g; i++ {
			var prog []lwCall
			for j, m := 0, r.Range(1, (maxReqs+3)*2/g+1); j < m; j++ {
				prog = append(prog, lwCall{Key: r.Intn(keys), Add: r.Chance(3, 4)})
			}
			ph.progs = append(ph.progs, prog)
		}
		script = append(script, ph)
	}
	return script
}

func lwCorpus(c *vcommon.Case) {
	add := func(k int) lwCall { return lwCall{Key: k, Add: true} }
	q := func(k int) lwCall { return lwCall{Key: k} }
	w := []time.Duration{3 * time.Millisecond, 20 * time.Millisecond}[c.Idx%2]
	switch c.Idx / 2 {
	case 0: // over the limit, window elapses, under the limit again, then over it again
		limiterWindow(c, 2, w, 1, []lwPhase{
			{progs: [][]lwCall{{add(0), add(0), q(0), add(0), q(0)}}, expire: true},
			{progs: [][]lwCall{{q(0), add(0), add(0), q(0)}}, expire: false},
			{progs: [][]lwCall{{add(0), q(0)}}, expire: true},
			{progs: [][]lwCall{{q(0)}}, expire: false},
		})
	case 1: // two ids: only one is refilled after the window elapsed
		limiterWindow(c, 1, w, 2, []lwPhase{
			{progs: [][]lwCall{{add(0), add(1), add(0), add(1), q(0), q(1)}}, expire: true},
			{progs: [][]lwCall{{add(1), add(1), q(0), q(1)}}, expire: true},
			{progs: [][]lwCall{{add(0)}, {add(0)}, {add(0), q(1)}}, expire: false},
		})
	default: // limit 3 approached in three separated steps: never more than one request per window
		limiterWindow(c, 3, w, 1, []lwPhase{
			{progs: [][]lwCall{{add(0), add(0)}}, expire: true},
			{progs: [][]lwCall{{add(0), add(0)}}, expire: true},
			{progs: [][]lwCall{{add(0), add(0), q(0)}}, expire: true},
			{progs: [][]lwCall{{add(0), add(0), add(0), add(0)}}, expire: false},
		})
	}
}

// ---------------------------------------------------------------------------

func c35Ext3Floors(r *vcommon.Run) {
	r.Floor("lw_scripts", 30)
	r.Floor("lw_window_elapsed_between_phases", 60)
	r.Floor("lw_expiry_proved_not_exceeded_after_more_than_max_requests", 40)
	r.Floor("lw_exceeded_with_enough_requests_certainly_inside_window", 20)
	r.Floor("lw_requests_certainly_expired_at_a_query", 300)
	r.Floor("lw_twin_exact_checks", 200)
	r.Floor("lw_concurrent_phases", 30)
	r.Floor("vc_corpus_scenarios", 5)
	r.Floor("vc_seq_sequences", 100)
	r.Floor("vc_seq_get_after_update", 300)
	r.Floor("vc_lin_histories_with_overlap", 20)
	r.Floor("vc_race_workload_histories", 10)
	r.Floor("vc_budget_sequences", 30)
	r.Floor("vc_budget_concurrent_workloads", 8)
	r.Floor("vc_budget_checks", 100)
	r.Floor("vc_budget_evicted_entries", 500)
	r.Floor("vc_budget_get_hit", 100)
}

func c35Ext3Groups(r *vcommon.Run) {
	r.Fixed("limiter-window-corpus", 6, lwCorpus)
	r.Cases("limiter-window", r.Scale(60), func(c *vcommon.Case) {
		keys, maxReqs := c.R.Range(1, 3), c.R.Range(1, 4)
		w := vcommon.Pick(c.R, []time.Duration{3 * time.Millisecond, 6 * time.Millisecond, 20 * time.Millisecond})
		limiterWindow(c, maxReqs, w, keys, genLWScript(c.R, keys, maxReqs))
	})

	r.Fixed("vc-corpus", 5, vcCorpus)
	r.Cases("vc-seq", r.Scale(200), func(c *vcommon.Case) {
		kind, keys, n := 3+c.R.Intn(2), c.R.Range(1, 6), c.R.Range(10, 150)
		ins := make([]lruIn, n)
		var sb strings.Builder
		lastPut := map[int]bool{}
		afterUpdate := 0
		for i := range ins {
			ins[i] = lruIn{Put: c.R.Chance(45, 100), K: c.R.Intn(keys), V: i + 1}
			if c.R.Chance(1, 30) {
				ins[i] = lruIn{K: keys + 5} // never set
			}
			if ins[i].Put {
				lastPut[ins[i].K] = true
			} else if lastPut[ins[i].K] {
				afterUpdate++
				lastPut[ins[i].K] = false
			}
			fmt.Fprintf(&sb, "%v%d", ins[i].Put, ins[i].K)
		}
		if lruSequential(c, kind, n+1, ins, false) {
			c.Eval(n)
			c.Count("vc_seq_sequences", 1)
			c.Count("vc_seq_get_after_update", afterUpdate)
			c.Distinct(fmt.Sprintf("vcseq|%d|%s", kind, sb.String()))
		}
	})
	r.Cases("vc-lin", r.Scale(100), func(c *vcommon.Case) {
		runLRUPlan(c, genVCPlan(c.R, 36, true), true)
	})
	r.Cases("vc-race", r.Scale(40), func(c *vcommon.Case) {
		if c.Idx%4 == 3 {
			vcBudget(c, vcommon.Pick(c.R, []int{0, 0, 2}), true)
			return
		}
		runLRUPlan(c, genVCPlan(c.R, 160, false), false)
	})
	r.Cases("vc-budget", r.Scale(60), func(c *vcommon.Case) {
		vcBudget(c, vcommon.Pick(c.R, []int{0, 0, 0, 0, 1, 2}), false)
	})
}
