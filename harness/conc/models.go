//go:build verif

// Package conc holds the monitors of C34 (transaction priority queue) and C35
// (shared LRU cache): tiny sequential reference models, a client-boundary
// history recorder and the porcupine linearizability models built on them.
package conc

import (
	"fmt"
	"hash/fnv"
	"sort"
	"strings"

	"github.com/anishathalye/porcupine"
)

// ---------------------------------------------------------------------------
// SeqPQ: the sequential behaviour C34 states. Items are kept in yield order:
// priority descending, then insertion order. States are immutable (copy on
// write) because porcupine keeps and compares them.

type pqItem struct {
	ID   uint32
	Prio uint64
}

type pqState []pqItem

type pqKind uint8

const (
	pqPush pqKind = iota
	pqPop
	pqPeek
	pqRemove
	pqExists
	pqLen
	pqPending
)

var pqKindName = [...]string{"push", "pop", "peek", "remove", "exists", "len", "pending"}

type pqIn struct {
	Kind pqKind
	ID   uint32
	Prio uint64
}

// pqOut is what the client saw. Err carries an unexpected error text (always illegal).
type pqOut struct {
	OK   bool   // push: accepted; pop/peek: a transaction was returned; exists: membership
	ID   uint32 // pop/peek
	Prio uint64 // pop/peek
	N    int    // len
	Set  string // pending: sorted ids, comma separated
	Err  string
}

func (s pqState) find(id uint32) int {
	for i := range s {
		if s[i].ID == id {
			return i
		}
	}
	return -1
}

func (s pqState) ids() string {
	v := make([]int, len(s))
	for i := range s {
		v[i] = int(s[i].ID)
	}
	return idSet(v)
}

func idSet(v []int) string {
	sort.Ints(v)
	var sb strings.Builder
	for i, x := range v {
		if i > 0 {
			sb.WriteByte(',')
		}
		fmt.Fprintf(&sb, "%x", x)
	}
	return sb.String()
}

// pqStep is SeqPQ: it decides whether out is what a sequential queue in state
// s answers to in, and returns the next state.
func pqStep(s pqState, in pqIn, out pqOut) (bool, pqState) {
	if out.Err != "" {
		return false, s
	}
	switch in.Kind {
	case pqPush:
		if s.find(in.ID) >= 0 { // duplicates are refused
			return !out.OK, s
		}
		if !out.OK {
			return false, s
		}
		pos := len(s) // behind every item of priority >= the new one
		for i := range s {
			if s[i].Prio < in.Prio {
				pos = i
				break
			}
		}
		n := make(pqState, 0, len(s)+1)
		n = append(n, s[:pos]...)
		n = append(n, pqItem{in.ID, in.Prio})
		return true, append(n, s[pos:]...)
	case pqPop, pqPeek:
		if len(s) == 0 {
			return !out.OK, s
		}
		if !out.OK || out.ID != s[0].ID || out.Prio != s[0].Prio {
			return false, s
		}
		if in.Kind == pqPeek {
			return true, s
		}
		return true, s[1:]
	case pqRemove:
		i := s.find(in.ID)
		if i < 0 {
			return true, s
		}
		n := make(pqState, 0, len(s)-1)
		n = append(n, s[:i]...)
		return true, append(n, s[i+1:]...)
	case pqExists:
		return out.OK == (s.find(in.ID) >= 0), s
	case pqLen:
		return out.N == len(s), s
	case pqPending:
		return out.Set == s.ids(), s
	}
	return false, s
}

func descPQ(in pqIn, out pqOut) string {
	var sb strings.Builder
	switch in.Kind {
	case pqPush:
		fmt.Fprintf(&sb, "push(tx=%x,prio=%d)", in.ID, in.Prio)
	case pqRemove, pqExists:
		fmt.Fprintf(&sb, "%s(tx=%x)", pqKindName[in.Kind], in.ID)
	default:
		sb.WriteString(pqKindName[in.Kind] + "()")
	}
	sb.WriteString(" -> ")
	switch {
	case out.Err != "":
		sb.WriteString("ERROR " + out.Err)
	case in.Kind == pqPush:
		if out.OK {
			sb.WriteString("accepted")
		} else {
			sb.WriteString("refused(exists)")
		}
	case in.Kind == pqPop || in.Kind == pqPeek:
		if out.OK {
			fmt.Fprintf(&sb, "tx=%x prio=%d", out.ID, out.Prio)
		} else {
			sb.WriteString("nil")
		}
	case in.Kind == pqRemove:
		sb.WriteString("done")
	case in.Kind == pqExists:
		fmt.Fprintf(&sb, "%v", out.OK)
	case in.Kind == pqLen:
		fmt.Fprintf(&sb, "%d", out.N)
	case in.Kind == pqPending:
		sb.WriteString("{" + out.Set + "}")
	}
	return sb.String()
}

func descPQState(s pqState) string {
	var sb strings.Builder
	sb.WriteByte('[')
	for i, it := range s {
		if i > 0 {
			sb.WriteByte(' ')
		}
		fmt.Fprintf(&sb, "%x@%d", it.ID, it.Prio)
	}
	sb.WriteByte(']')
	return sb.String()
}

var pqModel = porcupine.Model{
	Init: func() interface{} { return pqState(nil) },
	Step: func(st, in, out interface{}) (bool, interface{}) {
		ok, n := pqStep(st.(pqState), in.(pqIn), out.(pqOut))
		return ok, n
	},
	Equal: func(a, b interface{}) bool {
		x, y := a.(pqState), b.(pqState)
		if len(x) != len(y) {
			return false
		}
		for i := range x {
			if x[i] != y[i] {
				return false
			}
		}
		return true
	},
	Hash: func(a interface{}) uint64 {
		h := fnv.New64a()
		var b [12]byte
		for _, it := range a.(pqState) {
			for i := 0; i < 4; i++ {
				b[i] = byte(it.ID >> (8 * i))
			}
			for i := 0; i < 8; i++ {
				b[4+i] = byte(it.Prio >> (8 * i))
			}
			_, _ = h.Write(b[:])
		}
		return h.Sum64()
	},
	DescribeOperation: func(in, out interface{}) string { return descPQ(in.(pqIn), out.(pqOut)) },
	DescribeState:     func(st interface{}) string { return descPQState(st.(pqState)) },
}

// ---------------------------------------------------------------------------
// SeqLRU: capacity-bounded map; get refreshes recency; put of a present key
// updates it and refreshes recency; put of a new key into a full cache evicts
// the least recently used entry. Entries are kept most recently used first.
// Value 0 means "absent" (the zero value LRUCache.Get returns on a miss);
// the workloads only put values >= 1.

type lruEnt struct{ K, V int }

type lruState struct {
	Cap int
	E   []lruEnt // most recently used first
}

type lruIn struct {
	Put  bool
	K, V int
}

type lruOut struct{ V int } // get: value seen (0 = miss); put: unused

func lruStep(s lruState, in lruIn, out lruOut) (bool, lruState) {
	pos := -1
	for i := range s.E {
		if s.E[i].K == in.K {
			pos = i
			break
		}
	}
	if !in.Put {
		if pos < 0 {
			return out.V == 0, s
		}
		if out.V != s.E[pos].V {
			return false, s
		}
		if pos == 0 {
			return true, s
		}
		n := make([]lruEnt, 0, len(s.E))
		n = append(n, s.E[pos])
		n = append(n, s.E[:pos]...)
		return true, lruState{s.Cap, append(n, s.E[pos+1:]...)}
	}
	n := make([]lruEnt, 0, len(s.E)+1)
	n = append(n, lruEnt{in.K, in.V})
	if pos >= 0 {
		n = append(n, s.E[:pos]...)
		return true, lruState{s.Cap, append(n, s.E[pos+1:]...)}
	}
	keep := s.E
	if len(keep) >= s.Cap {
		keep = keep[:s.Cap-1]
	}
	return true, lruState{s.Cap, append(n, keep...)}
}

func (s lruState) keys() []int {
	ks := make([]int, len(s.E))
	for i := range s.E {
		ks[i] = s.E[i].K
	}
	return ks
}

func descLRU(in lruIn, out lruOut) string {
	if in.Put {
		return fmt.Sprintf("put(k%d,%x)", in.K, in.V)
	}
	if out.V == 0 {
		return fmt.Sprintf("get(k%d) -> miss", in.K)
	}
	return fmt.Sprintf("get(k%d) -> %x", in.K, out.V)
}

func descLRUState(s lruState) string {
	var sb strings.Builder
	fmt.Fprintf(&sb, "cap%d[", s.Cap)
	for i, e := range s.E {
		if i > 0 {
			sb.WriteByte(' ')
		}
		fmt.Fprintf(&sb, "k%d=%x", e.K, e.V)
	}
	sb.WriteByte(']')
	return sb.String()
}

func lruModel(capacity int) porcupine.Model {
	return porcupine.Model{
		Init: func() interface{} { return lruState{Cap: capacity} },
		Step: func(st, in, out interface{}) (bool, interface{}) {
			ok, n := lruStep(st.(lruState), in.(lruIn), out.(lruOut))
			return ok, n
		},
		Equal: func(a, b interface{}) bool {
			x, y := a.(lruState), b.(lruState)
			if len(x.E) != len(y.E) {
				return false
			}
			for i := range x.E {
				if x.E[i] != y.E[i] {
					return false
				}
			}
			return true
		},
		Hash: func(a interface{}) uint64 {
			h := fnv.New64a()
			for _, e := range a.(lruState).E {
				fmt.Fprintf(h, "%d=%d;", e.K, e.V)
			}
			return h.Sum64()
		},
		DescribeOperation: func(in, out interface{}) string { return descLRU(in.(lruIn), out.(lruOut)) },
		DescribeState:     func(st interface{}) string { return descLRUState(st.(lruState)) },
	}
}
