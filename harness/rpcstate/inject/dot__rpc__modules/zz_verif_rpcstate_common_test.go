//go:build verif

package modules

// Scaffolding of engine `rpcstate` (state-building parts copied from engine
// `rpckeys`, c38_test.go / chain_test.go, under names of their own): one real
// chain state per case - in-memory database, real BlockState, two real
// InmemoryStorageStates over the same database (one sharing the trie cache the
// block import fills, one with an empty cache that reads from the database), a
// real core.Service on top - and chains of 2-5 blocks (plus a fork) whose
// states are generated together with their reference model: one vcommon.OrdMap
// per block for the main trie and one per child trie.

import (
	"bytes"
	"encoding/hex"
	"encoding/json"
	"fmt"
	"os"
	"sort"
	"strings"

	"github.com/ChainSafe/gossamer/dot/core"
	"github.com/ChainSafe/gossamer/dot/state"
	"github.com/ChainSafe/gossamer/dot/types"
	"github.com/ChainSafe/gossamer/internal/database"
	"github.com/ChainSafe/gossamer/internal/log"
	"github.com/ChainSafe/gossamer/lib/common"
	rtstorage "github.com/ChainSafe/gossamer/lib/runtime/storage"
	"github.com/ChainSafe/gossamer/pkg/trie"
	"github.com/ChainSafe/gossamer/pkg/trie/inmemory"
	"github.com/ChainSafe/gossamer/zz_verif/vcommon"
)

func init() {
	// proof.loadProof logs every node at Info level
	log.Patch(log.SetLevel(log.Critical))
}

type vrsNoTelemetry struct{}

func (vrsNoTelemetry) SendMessage(json.Marshaler) {}

type vrsEnv struct {
	db      database.Database
	bs      *state.BlockState
	cached  *state.InmemoryStorageState
	fromDB  *state.InmemoryStorageState
	core    *core.Service
	paths   []string
	sm      map[string]*StateModule
	cm      map[string]*ChildStateModule
	cleanup func()
}

func vrsNewEnv() (*vrsEnv, error) {
	base := os.Getenv("VERIF_TMP")
	if base == "" {
		base = os.TempDir()
	}
	dir, err := os.MkdirTemp(base, "rpcstate-")
	if err != nil {
		return nil, err
	}
	db, err := database.LoadDatabase(dir, true)
	if err != nil {
		return nil, err
	}
	tries := state.NewTries()
	tries.SetEmptyTrie()
	gh := types.NewHeader(common.Hash{}, trie.EmptyHash, trie.EmptyHash, 0, types.NewDigest())
	bs, err := state.NewBlockStateFromGenesis(db, tries, gh, vrsNoTelemetry{})
	if err != nil {
		return nil, err
	}
	cached, err := state.NewStorageState(db, bs, tries)
	if err != nil {
		return nil, err
	}
	fromDB, err := state.NewStorageState(db, bs, state.NewTries())
	if err != nil {
		return nil, err
	}
	// the production coreAPI: GetReadProofAt = BlockState.GetBlockStateRoot + StorageState.GenerateTrieProof
	svc, err := core.NewService(&core.Config{LogLvl: log.Critical, BlockState: bs, StorageState: cached})
	if err != nil {
		return nil, err
	}
	e := &vrsEnv{db: db, bs: bs, cached: cached, fromDB: fromDB, core: svc, paths: []string{"cached", "fromDB"},
		sm: map[string]*StateModule{
			"cached": NewStateModule(nil, cached, svc, bs),
			"fromDB": NewStateModule(nil, fromDB, svc, bs),
		},
		cm: map[string]*ChildStateModule{
			"cached": NewChildStateModule(cached, bs),
			"fromDB": NewChildStateModule(fromDB, bs),
		}}
	e.cleanup = func() { _ = db.Close(); _ = os.RemoveAll(dir) }
	return e, nil
}

func vrsHx(b []byte) string { return "0x" + hex.EncodeToString(b) }

// vrsReqHex renders a key for a request; now and then in upper case (the RPC decodes hex of either case).
func vrsReqHex(r *vcommon.Rand, b []byte) string {
	if r.Chance(1, 8) {
		return "0x" + strings.ToUpper(hex.EncodeToString(b))
	}
	return vrsHx(b)
}

func vrsHv(v []byte) string {
	if v == nil {
		return "nil(put as nil, stored as the empty value)"
	}
	if len(v) > 40 {
		return fmt.Sprintf("%s..(%d bytes)", vrsHx(v[:8]), len(v))
	}
	return vrsHx(v)
}

// ---------------------------------------------------------------------------
// scenario: blocks of operations on the main trie (Child = -1) and on child tries

type vrsOp struct {
	Child int // -1 = main trie, else index into Names
	Del   bool
	K, V  []byte
}

type vrsBlockSpec struct {
	Parent int // index into Blocks; -1 = on top of genesis (empty state)
	Ops    []vrsOp
	Drop   []int // child tries deleted as a whole in this block
}

type vrsScn struct {
	Version int
	Names   [][]byte
	Blocks  []vrsBlockSpec
}

func (s *vrsScn) witness() map[string]any {
	bl := make([]string, len(s.Blocks))
	for i, b := range s.Blocks {
		var ops []string
		for _, o := range b.Ops {
			where := "main"
			if o.Child >= 0 {
				where = "child " + vrsHx(s.Names[o.Child])
			}
			if o.Del {
				ops = append(ops, fmt.Sprintf("%s: delete %s", where, vrsHx(o.K)))
			} else {
				ops = append(ops, fmt.Sprintf("%s: %s=%s", where, vrsHx(o.K), vrsHv(o.V)))
			}
		}
		for _, d := range b.Drop {
			ops = append(ops, "delete child trie "+vrsHx(s.Names[d]))
		}
		bl[i] = fmt.Sprintf("block %d (parent %d): %v", i, b.Parent, ops)
	}
	return map[string]any{"trie_version": s.Version, "blocks": bl,
		"note": "every block state is built from its entries with Put / SetChild on a fresh InMemoryTrie and stored with StoreTrie; a child trie always holds the marker entry 0xc1||name = name"}
}

// vrsState is the reference model of one block state.
type vrsState struct {
	main     *vcommon.OrdMap            // main trie entries WITHOUT the child-root entries
	children map[string]*vcommon.OrdMap // child name -> entries (never an empty map)
}

func (s *vrsState) clone() *vrsState {
	o := &vrsState{main: s.main.Clone(), children: map[string]*vcommon.OrdMap{}}
	for n, m := range s.children {
		o.children[n] = m.Clone()
	}
	return o
}

func vrsMarker(name []byte) []byte { return append([]byte{0xc1}, name...) }

func vrsApply(parent *vrsState, s *vrsScn, b vrsBlockSpec) *vrsState {
	st := parent.clone()
	for _, o := range b.Ops {
		m := st.main
		if o.Child >= 0 {
			name := s.Names[o.Child]
			m = st.children[string(name)]
			if m == nil {
				if o.Del {
					continue
				}
				m = vcommon.NewOrdMap()
				m.Put(vrsMarker(name), append([]byte{}, name...))
				st.children[string(name)] = m
			}
		}
		if o.Del {
			m.Delete(o.K)
		} else {
			m.Put(o.K, o.V)
		}
	}
	for _, d := range b.Drop {
		delete(st.children, string(s.Names[d]))
	}
	return st
}

func vrsChildKey(name []byte) []byte {
	return append(append([]byte{}, inmemory.ChildStorageKeyPrefix...), name...)
}

func vrsLayout(v int) trie.TrieLayout {
	if v == 1 {
		return trie.V1
	}
	return trie.V0
}

// vrsBuild builds the real trie of a model state and the model of the full main trie (with the child-root entries,
// whose values come from the independent spec trie).
func vrsBuild(st *vrsState, version int) (*inmemory.InMemoryTrie, *vcommon.OrdMap, error) {
	tr := inmemory.NewEmptyTrie()
	tr.SetVersion(vrsLayout(version))
	full := st.main.Clone()
	ks, vs := st.main.Entries()
	for i := range ks {
		if err := tr.Put(ks[i], vs[i]); err != nil {
			return nil, nil, err
		}
	}
	names := make([]string, 0, len(st.children))
	for n := range st.children {
		names = append(names, n)
	}
	sort.Strings(names)
	for _, n := range names {
		cm := st.children[n]
		ct := inmemory.NewEmptyTrie()
		ct.SetVersion(vrsLayout(version))
		cks, cvs := cm.Entries()
		for i := range cks {
			if err := ct.Put(cks[i], cvs[i]); err != nil {
				return nil, nil, err
			}
		}
		if err := tr.SetChild([]byte(n), ct); err != nil {
			return nil, nil, err
		}
		root := vcommon.SpecRoot(cm, version)
		full.Put(vrsChildKey([]byte(n)), root[:])
	}
	return tr, full, nil
}

// vrsHolds: the in-memory trie IS the state the model describes (its own conformance is C01/C02/C03).
func vrsHolds(tr *inmemory.InMemoryTrie, full *vcommon.OrdMap, st *vrsState) bool {
	if !full.EqualMap(tr.Entries()) {
		return false
	}
	for _, k := range full.Keys() {
		if tr.Get(k) == nil {
			return false
		}
	}
	for n, cm := range st.children {
		ct, err := tr.GetChild([]byte(n))
		if err != nil || ct == nil || !cm.EqualMap(ct.Entries()) {
			return false
		}
	}
	return true
}

type vrsRt struct {
	idx    int
	hash   common.Hash
	root   common.Hash
	number uint
	st     *vrsState
	full   *vcommon.OrdMap
	parent *vrsRt
}

func (e *vrsEnv) importBlock(tr *inmemory.InMemoryTrie, parent common.Hash, number uint, slot uint64) (common.Hash, common.Hash, error) {
	root, err := tr.Hash()
	if err != nil {
		return common.Hash{}, root, err
	}
	if err := e.cached.StoreTrie(rtstorage.NewTrieState(tr), nil); err != nil {
		return common.Hash{}, root, err
	}
	digest := types.NewDigest()
	prd, err := types.NewBabeSecondaryPlainPreDigest(0, slot).ToPreRuntimeDigest()
	if err != nil {
		return common.Hash{}, root, err
	}
	if err := digest.Add(*prd); err != nil {
		return common.Hash{}, root, err
	}
	blk := &types.Block{
		Header: types.Header{ParentHash: parent, Number: number, StateRoot: root, Digest: digest},
		Body:   *types.NewBody([]types.Extrinsic{[]byte{}}),
	}
	if err := e.bs.AddBlock(blk); err != nil {
		return common.Hash{}, root, err
	}
	return blk.Header.Hash(), root, nil
}

// vrsImport builds and imports block i of the scenario; false = the case cannot be judged.
func vrsImport(c *vcommon.Case, e *vrsEnv, s *vrsScn, blocks []*vrsRt, i int, genesis common.Hash) bool {
	spec := s.Blocks[i]
	pst := &vrsState{main: vcommon.NewOrdMap(), children: map[string]*vcommon.OrdMap{}}
	phash, number := genesis, uint(1)
	var prt *vrsRt
	if spec.Parent >= 0 {
		prt = blocks[spec.Parent]
		if prt == nil {
			c.Inconclusive("scenario imports a block before its parent")
			return false
		}
		pst, phash, number = prt.st, prt.hash, prt.number+1
	}
	st := vrsApply(pst, s, spec)
	tr, full, err := vrsBuild(st, s.Version)
	if err != nil {
		c.Inconclusive("cannot build the block state: " + err.Error())
		return false
	}
	if !vrsHolds(tr, full, st) {
		c.Inconclusive("the in-memory trie does not hold the entries / child tries / child roots that were put into it (see C01, C02, C03)")
		return false
	}
	h, root, err := e.importBlock(tr, phash, number, uint64(1000+i))
	if err != nil {
		c.Inconclusive("cannot import block: " + err.Error())
		return false
	}
	blocks[i] = &vrsRt{idx: i, hash: h, root: root, number: number, st: st, full: full, parent: prt}
	c.Count("rpc_blocks_imported", 1)
	return true
}

// ---------------------------------------------------------------------------
// generators

var vrsAlphabets = [][]byte{
	{0x00, 0x01, 0x0f, 0x10, 0x11, 0x1f, 0xf0, 0xff},
	{0x10, 0x11, 0x1f, 0x12},
	{0x00, 0x10, 0x01},
	{0xa0, 0xab, 0xaf, 0xb0, 0x0a},
	{0x12, 0x34, 0x5a, 0x50, 0x35},
}

func vrsGenKey(r *vcommon.Rand, al []byte) []byte {
	n := r.Range(0, 4)
	if r.Chance(1, 14) {
		n = 0
	}
	if r.Chance(1, 16) {
		n = vcommon.Pick(r, []int{31, 32, 33})
	}
	k := make([]byte, n)
	for i := range k {
		k[i] = vcommon.Pick(r, al)
		if r.Chance(1, 25) {
			k[i] = byte(r.Intn(256))
		}
	}
	return k
}

// values around the 32/33-byte threshold (state version 1 stores values above 32 bytes by hash), tiny values
// (inlined nodes) and EMPTY values (the key exists; one in four put as nil)
func vrsGenVal(r *vcommon.Rand) []byte {
	switch r.Intn(8) {
	case 0:
		if r.Chance(1, 4) {
			return nil
		}
		return []byte{}
	case 1, 2:
		return r.Bytes(vcommon.Pick(r, []int{31, 32, 33, 34, 64}))
	case 3:
		return []byte{byte(r.Intn(256))}
	default:
		return r.Bytes(r.Range(1, 12))
	}
}

func vrsGenNonEmpty(r *vcommon.Rand) []byte {
	for {
		if v := vrsGenVal(r); len(v) > 0 {
			return v
		}
	}
}

func vrsGen(r *vcommon.Rand) *vrsScn {
	s := &vrsScn{Version: r.Intn(2)}
	al := vcommon.Pick(r, vrsAlphabets)
	for i, n := 0, r.Range(0, 2); i < n; i++ {
		s.Names = append(s.Names, []byte{'c', byte('0' + i)})
	}
	if r.Chance(1, 8) {
		s.Names = append(s.Names, []byte{}) // a child trie with the empty name
	}
	cur := &vrsState{main: vcommon.NewOrdMap(), children: map[string]*vcommon.OrdMap{}}
	states := []*vrsState{}
	mk := func(parent *vrsState, first bool) vrsBlockSpec {
		var b vrsBlockSpec
		nput := r.Range(1, 4)
		if first {
			nput = r.Range(3, 9)
		}
		for i := 0; i < nput; i++ {
			b.Ops = append(b.Ops, vrsOp{Child: -1, K: vrsGenKey(r, al), V: vrsGenVal(r)})
		}
		if keys := parent.main.Keys(); len(keys) > 0 {
			for i, n := 0, r.Range(0, 2); i < n; i++ { // deletes
				b.Ops = append(b.Ops, vrsOp{Child: -1, Del: true, K: append([]byte{}, vcommon.Pick(r, keys)...)})
			}
			for i, n := 0, r.Range(0, 2); i < n; i++ { // overwrites: the value of a key differs from block to block
				k := append([]byte{}, vcommon.Pick(r, keys)...)
				v := vrsGenVal(r)
				if old, _ := parent.main.Get(k); len(old) == 0 {
					v = vrsGenNonEmpty(r) // empty -> non-empty
				} else if r.Chance(1, 3) {
					v = []byte{} // non-empty -> empty
				}
				b.Ops = append(b.Ops, vrsOp{Child: -1, K: k, V: v})
			}
		}
		for ci, name := range s.Names {
			cm := parent.children[string(name)]
			if cm == nil && !first && !r.Chance(1, 2) {
				continue
			}
			if cm != nil && r.Chance(1, 10) {
				b.Drop = append(b.Drop, ci)
				continue
			}
			for i, n := 0, r.Range(1, 3); i < n; i++ {
				k := vrsGenKey(r, al)
				if mk := parent.main.Keys(); len(mk) > 0 && r.Chance(1, 3) {
					k = append([]byte{}, vcommon.Pick(r, mk)...) // the same key exists in the main trie with another value
				}
				if bytes.Equal(k, vrsMarker(name)) {
					continue
				}
				b.Ops = append(b.Ops, vrsOp{Child: ci, K: k, V: vrsGenVal(r)})
			}
			if cm != nil {
				var ck [][]byte
				for _, k := range cm.Keys() {
					if !bytes.Equal(k, vrsMarker(name)) {
						ck = append(ck, k)
					}
				}
				if len(ck) > 0 && r.Chance(1, 2) {
					b.Ops = append(b.Ops, vrsOp{Child: ci, Del: true, K: append([]byte{}, vcommon.Pick(r, ck)...)})
				}
				if len(ck) > 0 && r.Chance(1, 2) {
					k := append([]byte{}, vcommon.Pick(r, ck)...)
					v := vrsGenVal(r)
					if old, _ := cm.Get(k); len(old) == 0 {
						v = vrsGenNonEmpty(r)
					}
					b.Ops = append(b.Ops, vrsOp{Child: ci, K: k, V: v})
				}
			}
		}
		return b
	}
	n := r.Range(2, 5)
	for i := 0; i < n; i++ {
		b := mk(cur, i == 0)
		b.Parent = i - 1
		s.Blocks = append(s.Blocks, b)
		cur = vrsApply(cur, s, b)
		states = append(states, cur)
	}
	if r.Chance(1, 3) { // a fork of 1-2 blocks from an earlier block; it may or may not become the best chain
		a := r.Intn(n - 1)
		parent, pst := a, states[a]
		for j, m := 0, r.Range(1, 2); j < m; j++ {
			b := mk(pst, false)
			b.Parent = parent
			s.Blocks = append(s.Blocks, b)
			pst = vrsApply(pst, s, b)
			parent = len(s.Blocks) - 1
		}
	}
	return s
}

func vrsB(s string) []byte {
	out, err := hex.DecodeString(s)
	if err != nil {
		panic(err)
	}
	return out
}

func vrsRep(b byte, n int) []byte { return bytes.Repeat([]byte{b}, n) }

func vrsFixedScns() []*vrsScn {
	m := func(k string, v []byte) vrsOp { return vrsOp{Child: -1, K: vrsB(k), V: v} }
	d := func(k string) vrsOp { return vrsOp{Child: -1, Del: true, K: vrsB(k)} }
	ch := func(c int, k string, v []byte) vrsOp { return vrsOp{Child: c, K: vrsB(k), V: v} }
	cd := func(c int, k string) vrsOp { return vrsOp{Child: c, Del: true, K: vrsB(k)} }
	var out []*vrsScn
	for ver := 0; ver < 2; ver++ {
		out = append(out,
			// a key whose value changes block by block (non-empty -> empty -> 33 bytes -> deleted), values of 32 and 33
			// bytes, a key that is a prefix of another one holding the empty value, and a child trie that shares keys
			// with the main trie
			&vrsScn{Version: ver, Names: [][]byte{[]byte("c0"), []byte("c1")}, Blocks: []vrsBlockSpec{
				{Parent: -1, Ops: []vrsOp{m("ab", []byte{1}), m("abaa", vrsRep(2, 32)), m("abbb", vrsRep(3, 33)), m("cd01", []byte{4}), m("20", []byte{}),
					ch(0, "ab", []byte{0x11}), ch(0, "ee", vrsRep(5, 33)), ch(1, "ab", []byte{}), ch(1, "cd01", vrsRep(6, 32))}},
				{Parent: 0, Ops: []vrsOp{m("ab", []byte{}), m("cd01", nil), m("ff", vrsRep(7, 64)), ch(0, "ab", []byte{}), ch(1, "ab", []byte{0x12}), cd(1, "cd01")}},
				{Parent: 1, Ops: []vrsOp{m("ab", vrsRep(8, 33)), d("abaa"), m("20", []byte{9}), ch(0, "ee", []byte{}), ch(0, "ab", vrsRep(9, 34))}},
				{Parent: 2, Ops: []vrsOp{d("ab"), d("20"), m("cd01", []byte{0x0a})}, Drop: []int{1}},
				{Parent: 1, Ops: []vrsOp{m("ab", []byte{0x77}), m("abcc", []byte{}), ch(1, "ff", []byte{1})}}, // fork of block 1
			}},
			// the main trie of the first block is a single leaf; later one child-root leaf only; then empty values only
			&vrsScn{Version: ver, Names: [][]byte{[]byte("c0")}, Blocks: []vrsBlockSpec{
				{Parent: -1, Ops: []vrsOp{m("", vrsRep(1, 33))}},
				{Parent: 0, Ops: []vrsOp{d(""), ch(0, "01", vrsRep(2, 33))}},
				{Parent: 1, Ops: []vrsOp{m("", []byte{}), m("00", []byte{}), m("0000", nil), ch(0, "", []byte{}), ch(0, "01", []byte{})}},
			}},
		)
	}
	return out
}

// ---------------------------------------------------------------------------
// checker

type vrsChecker struct {
	c   *vcommon.Case
	e   *vrsEnv
	s   *vrsScn
	bad bool
	k2  bool // known finding C04-K2 already recorded for this case
	log []string
}

func (k *vrsChecker) note(f string, a ...any) {
	k.log = append(k.log, fmt.Sprintf(f, a...))
	if len(k.log) > 30 {
		k.log = k.log[len(k.log)-30:]
	}
}

func vrsEntries(m *vcommon.OrdMap) []string {
	ks, vs := m.Entries()
	out := make([]string, len(ks))
	for i := range ks {
		out[i] = vrsHx(ks[i]) + "=" + vrsHv(vs[i])
	}
	return out
}

func (k *vrsChecker) witness(blk *vrsRt, extra map[string]any) map[string]any {
	w := k.s.witness()
	w["executed"] = append([]string{}, k.log...)
	if blk != nil {
		w["block"] = fmt.Sprintf("block %d (number %d, hash %s, state root %s)", blk.idx, blk.number, blk.hash, blk.root)
		w["main_entries_of_that_block"] = vrsEntries(blk.full)
		ch := map[string]any{}
		for n, cm := range blk.st.children {
			ch[vrsHx([]byte(n))] = vrsEntries(cm)
		}
		w["child_tries_of_that_block"] = ch
	}
	for x, y := range extra {
		w[x] = y
	}
	return w
}

func (k *vrsChecker) viol(class, msg string, blk *vrsRt, extra map[string]any) {
	k.bad = true
	k.c.Violation(class, msg, k.witness(blk, extra))
}

func vrsLenClass(c *vcommon.Case, prefix string, version int, v []byte) {
	switch {
	case len(v) == 0:
		c.Count(prefix+"_empty_value", 1)
	case len(v) == 32:
		c.Count(prefix+"_value_of_32_bytes", 1)
	case len(v) == 33:
		c.Count(prefix+"_value_of_33_bytes", 1)
	}
	if version == 1 && len(v) > 32 {
		c.Count(prefix+"_v1_value_over_32_bytes_stored_by_hash", 1)
	}
}

// vrsProbes: every present key of the block's main trie and absent keys that matter: keys other blocks of the chain
// hold (not yet added / already deleted here), extensions, truncations and siblings of present keys.
func vrsProbes(r *vcommon.Rand, blk *vrsRt, all []*vrsRt, pick func(*vrsRt) *vcommon.OrdMap) (present, absent [][]byte, elsewhere map[string]bool) {
	m := pick(blk)
	elsewhere = map[string]bool{}
	seen := map[string]bool{}
	add := func(k []byte, other bool) {
		if _, ok := m.Get(k); ok || seen[string(k)] {
			return
		}
		seen[string(k)] = true
		absent = append(absent, append([]byte{}, k...))
		if other {
			elsewhere[string(k)] = true
		}
	}
	if m != nil {
		present = m.Keys()
	} else {
		m = vcommon.NewOrdMap()
	}
	for _, o := range all {
		if o == nil || o == blk {
			continue
		}
		if om := pick(o); om != nil {
			for _, k := range om.Keys() {
				add(k, true)
			}
		}
	}
	for i, k := range present {
		if i >= 6 {
			break
		}
		add(append(append([]byte{}, k...), 0x00), false)
		if len(k) > 0 {
			add(k[:len(k)-1], false)
			x := append([]byte{}, k...)
			x[len(x)-1] ^= 0x01
			add(x, false)
		}
	}
	add(r.Bytes(r.Range(1, 3)), false)
	return present, absent, elsewhere
}
