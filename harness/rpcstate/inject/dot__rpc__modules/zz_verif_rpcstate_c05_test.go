//go:build verif

package modules

// C05 at the RPC - state_getReadProof: StateModule.GetReadProof (hex layer) ->
// core.Service.GetReadProofAt (block -> state root, "no block = best block") ->
// InmemoryStorageState.GenerateTrieProof, on a real module / core service /
// storage state / block state with generated multi-block states.
//
// Oracle: membership in the vcommon.OrdMap of the state with the root the
// verifier uses (pkg/trie/inmemory/proof.Verify):
//
//	completeness  the proof returned for present keys of block B verifies every requested
//	              (k, v) of B against B's state root, and `At` is the block that was asked
//	              for (the best block when the block is omitted);
//	soundness     Verify(returned nodes, root of ANY block X of the chain, k, v) == nil only
//	              if (k, v) is in the model of X (absent keys, wrong values, values the key
//	              has in other blocks).

import (
	"fmt"
	"testing"

	"github.com/ChainSafe/gossamer/lib/common"
	"github.com/ChainSafe/gossamer/pkg/trie/inmemory/proof"
	"github.com/ChainSafe/gossamer/zz_verif/vcommon"
)

func vrsVerify(nodes [][]byte, root common.Hash, k, v []byte) (err error, panicked bool) {
	defer func() {
		if r := recover(); r != nil {
			err, panicked = fmt.Errorf("panic: %v", r), true
		}
	}()
	return proof.Verify(nodes, root[:], k, v), false
}

func (k *vrsChecker) vrsReadProof(blk *vrsRt, explicit bool, all []*vrsRt) {
	c, sm := k.c, k.e.sm["cached"]
	present := blk.full.Keys()
	if len(present) == 0 {
		return
	}
	_, absent, _ := vrsProbes(c.R, blk, all, func(b *vrsRt) *vcommon.OrdMap { return b.full })
	mode, suffix := "block omitted (head)", "_head_omitted"
	req := &StateGetReadProofRequest{}
	if explicit {
		mode, suffix = "explicit hash", "_explicit_block"
		req.Hash = blk.hash
	}
	// requested: 1-4 present keys (each block once with ALL its keys)
	var want [][]byte
	if c.R.Chance(1, 4) {
		want = present
	} else {
		perm, n := c.R.Perm(len(present)), c.R.Range(1, 4)
		for i := 0; i < len(perm) && i < n; i++ {
			want = append(want, present[perm[i]])
		}
	}
	for _, key := range want {
		req.Keys = append(req.Keys, vrsReqHex(c.R, key))
	}
	desc := fmt.Sprintf("GetReadProof(keys %v) of block %d at %s", req.Keys, blk.idx, mode)
	k.note("%s", desc)
	var res StateGetReadProofResponse
	err := sm.GetReadProof(nil, req, &res)
	c.Eval(1)
	c.Count("rpcproof_requests"+suffix, 1)
	if k.e.bs.BestBlockHash() != blk.hash {
		c.Count("rpcproof_requests_for_non_head_block", 1)
	}
	if err != nil {
		k.viol("rpcproof-completeness", desc+" failed for present keys: "+err.Error(), blk, nil)
		return
	}
	if res.At != blk.hash {
		k.viol("rpcproof-at", fmt.Sprintf("%s answered at = %s, the block asked for is %s", desc, res.At, blk.hash), blk, nil)
		return
	}
	nodes := make([][]byte, len(res.Proof))
	for i, h := range res.Proof {
		b, err := common.HexToBytes(h)
		if err != nil {
			k.viol("rpcproof-encoding", fmt.Sprintf("%s: proof node %d is not 0x-hex: %q", desc, i, h), blk, nil)
			return
		}
		nodes[i] = b
	}
	c.Count("rpcproof_nodes_returned", len(nodes))
	w := map[string]any{"request_keys": req.Keys, "proof": res.Proof}
	// completeness
	for _, key := range want {
		v, _ := blk.full.Get(key)
		c.Eval(2)
		c.Count("rpcproof_present_pairs_verified", 1)
		vrsLenClass(c, "rpcproof_pair", k.s.Version, v)
		if err, _ := vrsVerify(nodes, blk.root, key, v); err != nil {
			k.viol("rpcproof-completeness", fmt.Sprintf("%s: the returned proof does not verify (%s, %s) against that block's state root: %v", desc, vrsHx(key), vrsHv(v), err), blk, w)
			return
		}
		if err, _ := vrsVerify(nodes, blk.root, key, nil); err != nil {
			k.viol("rpcproof-completeness", fmt.Sprintf("%s: the returned proof does not verify membership of %s against that block's state root: %v", desc, vrsHx(key), err), blk, w)
			return
		}
	}
	// soundness: claims against every block's root
	type claim struct {
		k, v []byte
		kind string
	}
	var claims []claim
	for _, key := range absent {
		claims = append(claims, claim{key, nil, "absent key, membership"})
		for _, o := range all {
			if o == nil {
				continue
			}
			if ov, ok := o.full.Get(key); ok && len(ov) > 0 {
				claims = append(claims, claim{key, ov, "absent key with the value it has in another block"})
				break
			}
		}
	}
	for _, key := range want {
		v, _ := blk.full.Get(key)
		if len(v) > 0 {
			x := append([]byte{}, v...)
			x[len(x)-1] ^= 0x01
			claims = append(claims, claim{key, x, "present key, last value byte flipped"})
			h := vcommon.Blake256(v)
			claims = append(claims, claim{key, h[:], "present key, hash of the value"})
		} else {
			claims = append(claims, claim{key, []byte{0x00}, "present key with empty value, claimed 0x00"})
		}
		for _, o := range all {
			if o == nil || o == blk {
				continue
			}
			if ov, ok := o.full.Get(key); ok && len(ov) > 0 && string(ov) != string(v) {
				claims = append(claims, claim{key, ov, "present key with the value it has in another block"})
			}
		}
		claims = append(claims, claim{key, v, "requested pair"})
	}
	for _, x := range all {
		if x == nil {
			continue
		}
		for _, cl := range claims {
			err, panicked := vrsVerify(nodes, x.root, cl.k, cl.v)
			c.Eval(1)
			if panicked {
				c.Count("rpcproof_verify_panics_not_judged_here", 1)
				continue
			}
			if err != nil {
				c.Count("rpcproof_false_or_foreign_claims_rejected", 1)
				continue
			}
			mv, in := x.full.Get(cl.k)
			ok := in && (len(cl.v) == 0 || string(mv) == string(cl.v)) // empty value = membership query (verify.go)
			if x != blk {
				c.Count("rpcproof_claims_confirmed_under_another_blocks_root", 1)
			}
			if !ok {
				k.viol("rpcproof-soundness", fmt.Sprintf("%s: the returned nodes verify (%s, %s) [%s] against the state root of block %d, whose state has %s",
					desc, vrsHx(cl.k), vrsHv(cl.v), cl.kind, x.idx, map[bool]string{true: vrsHv(mv), false: "no such key"}[in]), x, w)
				return
			}
		}
	}
	// a request that names an absent key: no non-membership proofs in this API (Generate answers ErrKeyNotFound) -
	// counted; a proof that is returned must not confirm the key
	if len(absent) > 0 && c.R.Chance(1, 2) {
		ak := vcommon.Pick(c.R, absent)
		req2 := &StateGetReadProofRequest{Keys: append([]string{vrsHx(ak)}, req.Keys...), Hash: req.Hash}
		var res2 StateGetReadProofResponse
		err := sm.GetReadProof(nil, req2, &res2)
		c.Eval(1)
		if err != nil {
			c.Count("rpcproof_request_with_absent_key_answered_with_error", 1)
		} else {
			c.Count("rpcproof_request_with_absent_key_answered_with_proof", 1)
			n2 := make([][]byte, 0, len(res2.Proof))
			for _, h := range res2.Proof {
				if b, err := common.HexToBytes(h); err == nil {
					n2 = append(n2, b)
				}
			}
			if err, p := vrsVerify(n2, blk.root, ak, nil); err == nil && !p {
				k.viol("rpcproof-soundness", fmt.Sprintf("GetReadProof with absent key %s of block %d at %s: the returned nodes verify the absent key against that block's root", vrsHx(ak), blk.idx, mode), blk,
					map[string]any{"proof": res2.Proof})
				return
			}
		}
	}
	// a key that is not hex: an error, never a proof
	if c.R.Chance(1, 6) {
		var res3 StateGetReadProofResponse
		err := sm.GetReadProof(nil, &StateGetReadProofRequest{Keys: []string{"0xzz"}, Hash: req.Hash}, &res3)
		c.Eval(1)
		if err == nil {
			c.Count("rpcproof_malformed_key_answered_without_error", 1)
		} else {
			c.Count("rpcproof_malformed_key_answered_with_error", 1)
		}
	}
}

func vrsRunC05(c *vcommon.Case, s *vrsScn) {
	e, err := vrsNewEnv()
	if err != nil {
		c.Inconclusive("cannot build chain state: " + err.Error())
		return
	}
	defer e.cleanup()
	k := &vrsChecker{c: c, e: e, s: s}
	genesis := e.bs.BestBlockHash()
	blocks := make([]*vrsRt, len(s.Blocks))
	byHash := map[common.Hash]*vrsRt{}
	for i := range s.Blocks {
		if !vrsImport(c, e, s, blocks, i, genesis) {
			return
		}
		byHash[blocks[i].hash] = blocks[i]
		head := byHash[e.bs.BestBlockHash()]
		if head == nil {
			c.Inconclusive("best block is not one of the imported blocks")
			return
		}
		k.note("imported block %d (number %d, parent %d); best block is block %d", i, blocks[i].number, s.Blocks[i].Parent, head.idx)
		k.vrsReadProof(head, false, blocks)
		if !k.bad {
			k.vrsReadProof(blocks[i], true, blocks)
		}
		if i > 0 && !k.bad {
			k.vrsReadProof(blocks[c.R.Intn(i)], true, blocks)
		}
		if k.bad {
			return
		}
	}
	for _, b := range blocks {
		k.vrsReadProof(b, true, blocks)
		if k.bad {
			return
		}
	}
	k.vrsReadProof(byHash[e.bs.BestBlockHash()], false, blocks)
	if k.bad {
		return
	}
	sig := ""
	for _, b := range blocks {
		ks, vs := b.full.Entries()
		for i := range ks {
			sig += fmt.Sprintf("%x:%d|", ks[i], len(vs[i]))
		}
		sig += "/"
	}
	c.Distinct(fmt.Sprintf("rpcproof|v%d|b%d|%s", s.Version, len(s.Blocks), sig))
	if c.Idx < 2 {
		c.Sample(map[string]any{"chain": s.witness()["blocks"], "trie_version": s.Version, "executed_tail": k.log})
	}
}

func TestVerifC05Rpc(t *testing.T) {
	r := vcommon.Start(t, "C05")
	defer r.Finish()
	for name, n := range map[string]int{
		"rpcproof_requests_explicit_block":                     500,
		"rpcproof_requests_head_omitted":                       200,
		"rpcproof_requests_for_non_head_block":                 250,
		"rpcproof_present_pairs_verified":                      1500,
		"rpcproof_pair_empty_value":                            100,
		"rpcproof_pair_value_of_32_bytes":                      20,
		"rpcproof_pair_value_of_33_bytes":                      20,
		"rpcproof_pair_v1_value_over_32_bytes_stored_by_hash":  50,
		"rpcproof_false_or_foreign_claims_rejected":            5000,
		"rpcproof_request_with_absent_key_answered_with_error": 50,
	} {
		r.Floor(name, n)
	}
	fixed := vrsFixedScns()
	r.Fixed("rpcproof-corpus", len(fixed), func(c *vcommon.Case) { vrsRunC05(c, fixed[c.Idx]) })
	r.Cases("rpcproof", r.Scale(100), func(c *vcommon.Case) { vrsRunC05(c, vrsGen(c.R)) })
}
