//go:build verif

package modules

// C04 at the RPC readers - "Reading a single key directly from the database by
// root hash returns the same value as the in-memory state, and absent keys
// read as absent."
//
// Driven: StateModule.GetStorage / GetStorageHash / GetStorageSize /
// QueryStorageAt / QueryStorage and ChildStateModule.GetKeys / GetStorage /
// GetStorageHash / GetStorageSize on real modules over a real
// InmemoryStorageState + BlockState (hex decoding of the key, block hash ->
// state root with "no block = best block", value rendering, block -> root ->
// child trie by child storage key), on the trie-cache path and on a storage
// state that reads the database.
//
// Oracle: the vcommon.OrdMap of THE ADDRESSED BLOCK's state (main trie, child
// tries): a present key reads as its value (an existing EMPTY value is a value:
// "0x", size 0, hash of the empty string), an absent key reads as absent (the
// unset response / null).

import (
	"fmt"
	"sort"
	"strings"
	"testing"

	"github.com/ChainSafe/gossamer/lib/common"
	"github.com/ChainSafe/gossamer/zz_verif/vcommon"
)

// vrsValueAsHash is the deviation of known finding C04-K2: the value bytes themselves, right-aligned in 32 bytes
// (longer values keep their last 32 bytes).
func vrsValueAsHash(v []byte) string {
	if len(v) > 32 {
		v = v[len(v)-32:]
	}
	var h [32]byte
	copy(h[32-len(v):], v)
	return vrsHx(h[:])
}

func vrsHashHex(v []byte) string {
	h := vcommon.Blake256(v)
	return vrsHx(h[:])
}

// vrsMainReaders decides the four single-key readers of the state module for one (block, addressing mode, path).
func (k *vrsChecker) vrsMainReaders(path string, blk *vrsRt, addr *common.Hash, all []*vrsRt) {
	c, sm := k.c, k.e.sm[path]
	mode := "block omitted (head)"
	if addr != nil {
		mode = "explicit hash"
	}
	suffix := "_head_omitted"
	if addr != nil {
		suffix = "_explicit_block"
	}
	present, absent, elsewhere := vrsProbes(c.R, blk, all, func(b *vrsRt) *vcommon.OrdMap { return b.full })
	k.note("read block %d at %s through %s: %d present, %d absent keys", blk.idx, mode, path, len(present), len(absent))
	nonHead := addr != nil && k.e.bs.BestBlockHash() != blk.hash
	type probe struct {
		key  []byte
		val  []byte
		have bool
	}
	var probes []probe
	for _, key := range present {
		v, _ := blk.full.Get(key)
		probes = append(probes, probe{key, v, true})
	}
	for _, key := range absent {
		probes = append(probes, probe{key, nil, false})
	}
	for _, p := range probes {
		if k.bad {
			return
		}
		hexKey := vrsReqHex(c.R, p.key)
		ctx := func(method string) string {
			return fmt.Sprintf("%s(key %s) of block %d at %s through the %s storage state", method, hexKey, blk.idx, mode, path)
		}
		// --- state_getStorage
		var res StateStorageResponse
		err := sm.GetStorage(nil, &StateStorageRequest{Key: hexKey, Bhash: addr}, &res)
		c.Eval(1)
		c.Count("rpc_getstorage"+suffix, 1)
		c.Count("rpc_getstorage_through_"+path, 1)
		if nonHead {
			c.Count("rpc_getstorage_of_non_head_block", 1)
		}
		switch {
		case err != nil:
			k.viol("rpc-getstorage-error", ctx("GetStorage")+" failed: "+err.Error(), blk, nil)
			return
		case p.have && len(p.val) > 0:
			c.Count("rpc_getstorage_present", 1)
			vrsLenClass(c, "rpc_getstorage", k.s.Version, p.val)
			if string(res) != vrsHx(p.val) {
				k.viol("rpc-getstorage-value", fmt.Sprintf("%s = %q, that block's state has %s", ctx("GetStorage"), res, vrsHv(p.val)), blk, nil)
				return
			}
		case p.have:
			c.Count("rpc_getstorage_present_empty_value", 1)
			if string(res) != "0x" {
				msg := fmt.Sprintf("%s = %q (the answer for an absent key); that block's state HOLDS the key with the empty value", ctx("GetStorage"), res)
				if res == "" {
					k.viol("rpc-getstorage-empty-value-reported-absent", msg, blk, nil)
				} else {
					k.viol("rpc-getstorage-value", msg, blk, nil)
				}
				return
			}
		default:
			c.Count("rpc_getstorage_absent", 1)
			if elsewhere[string(p.key)] {
				c.Count("rpc_getstorage_absent_here_present_in_another_block", 1)
			}
			if res != "" {
				k.viol("rpc-getstorage-absent-read-value", fmt.Sprintf("%s = %q, that block's state does not hold the key", ctx("GetStorage"), res), blk, nil)
				return
			}
		}
		// --- state_getStorageHash
		var hres StateStorageHashResponse
		err = sm.GetStorageHash(nil, &StateStorageHashRequest{Key: hexKey, Bhash: addr}, &hres)
		c.Eval(1)
		c.Count("rpc_getstoragehash"+suffix, 1)
		switch {
		case err != nil:
			k.viol("rpc-getstoragehash-error", ctx("GetStorageHash")+" failed: "+err.Error(), blk, nil)
			return
		case p.have:
			c.Count("rpc_getstoragehash_present", 1)
			vrsLenClass(c, "rpc_getstoragehash", k.s.Version, p.val)
			if string(hres) != vrsHashHex(p.val) {
				k.viol("rpc-getstoragehash-value", fmt.Sprintf("%s = %s, BLAKE2b-256 of that block's value %s is %s", ctx("GetStorageHash"), hres, vrsHv(p.val), vrsHashHex(p.val)), blk, nil)
				return
			}
		default: // not judged: the property speaks of values; what the hash reader answers for an absent key is counted
			switch string(hres) {
			case "":
				c.Count("rpc_getstoragehash_absent_key_unset", 1)
			case vrsHashHex(nil):
				c.Count("rpc_getstoragehash_absent_key_answered_with_hash_of_empty_string", 1)
			default:
				k.viol("rpc-getstoragehash-absent-read-value", fmt.Sprintf("%s = %s, that block's state does not hold the key", ctx("GetStorageHash"), hres), blk, nil)
				return
			}
		}
		// --- state_getStorageSize
		var sres StateStorageSizeResponse
		err = sm.GetStorageSize(nil, &StateStorageSizeRequest{Key: hexKey, Bhash: addr}, &sres)
		c.Eval(1)
		c.Count("rpc_getstoragesize"+suffix, 1)
		switch {
		case err != nil:
			k.viol("rpc-getstoragesize-error", ctx("GetStorageSize")+" failed: "+err.Error(), blk, nil)
			return
		case p.have:
			c.Count("rpc_getstoragesize_present", 1)
			if uint64(sres) != uint64(len(p.val)) {
				k.viol("rpc-getstoragesize-value", fmt.Sprintf("%s = %d, that block's value %s has %d bytes", ctx("GetStorageSize"), sres, vrsHv(p.val), len(p.val)), blk, nil)
				return
			}
		default:
			c.Count("rpc_getstoragesize_absent", 1)
			if sres != 0 {
				k.viol("rpc-getstoragesize-absent-read-value", fmt.Sprintf("%s = %d, that block's state does not hold the key", ctx("GetStorageSize"), sres), blk, nil)
				return
			}
		}
	}
	// --- state_queryStorageAt: all probes in one request
	keys := make([]string, len(probes))
	for i, p := range probes {
		keys[i] = vrsReqHex(c.R, p.key)
	}
	req := &StateStorageQueryAtRequest{Keys: keys}
	want := k.e.bs.BestBlockHash()
	if addr != nil {
		req.At = *addr
		want = *addr
	}
	var qres []StorageChangeSetResponse
	err := sm.QueryStorageAt(nil, req, &qres)
	c.Eval(1)
	c.Count("rpc_querystorageat"+suffix, 1)
	if err != nil {
		k.viol("rpc-querystorageat-error", fmt.Sprintf("QueryStorageAt(%v) of block %d at %s through %s failed: %v", keys, blk.idx, mode, path, err), blk, nil)
		return
	}
	if len(qres) != 1 || qres[0].Block == nil || *qres[0].Block != want || len(qres[0].Changes) != len(keys) {
		k.viol("rpc-querystorageat-shape", fmt.Sprintf("QueryStorageAt of block %d at %s through %s: %d change sets / wrong block hash / %d keys asked", blk.idx, mode, path, len(qres), len(keys)), blk,
			map[string]any{"response": fmt.Sprintf("%+v", qres)})
		return
	}
	for i, ch := range qres[0].Changes {
		p := probes[i]
		got := "null"
		if ch[1] != nil {
			got = *ch[1]
		}
		exp := "null"
		if p.have {
			exp = vrsHx(p.val)
			c.Count("rpc_querystorageat_present", 1)
			if len(p.val) == 0 {
				c.Count("rpc_querystorageat_present_empty_value", 1)
			}
		} else {
			c.Count("rpc_querystorageat_absent", 1)
		}
		c.Eval(1)
		if ch[0] == nil || *ch[0] != keys[i] || got != exp {
			class := "rpc-querystorageat-value"
			if p.have && len(p.val) == 0 && got == "null" {
				class = "rpc-querystorageat-empty-value-reported-absent"
			}
			k.viol(class, fmt.Sprintf("QueryStorageAt key %s of block %d at %s through %s = %s, that block's state has %s", keys[i], blk.idx, mode, path, got, exp), blk, nil)
			return
		}
	}
}

// vrsChildReaders decides the child-state readers for one (block, addressing mode, path).
func (k *vrsChecker) vrsChildReaders(path string, blk *vrsRt, addr *common.Hash, all []*vrsRt) {
	c, cm := k.c, k.e.cm[path]
	mode, suffix := "block omitted (head)", "_head_omitted"
	if addr != nil {
		mode, suffix = "explicit hash", "_explicit_block"
	}
	for ci, name := range k.s.Names {
		if k.bad {
			return
		}
		model := blk.st.children[string(name)]
		pick := func(b *vrsRt) *vcommon.OrdMap { return b.st.children[string(k.s.Names[ci])] }
		present, absent, _ := vrsProbes(c.R, blk, all, pick)
		ctx := func(method string, key []byte) string {
			return fmt.Sprintf("childstate %s(child %s, key %s) of block %d at %s through the %s storage state", method, vrsHx(name), vrsHx(key), blk.idx, mode, path)
		}
		if model == nil {
			// the block's state has no such child trie: every reader has to answer "absent" (an error or the unset response)
			c.Count("rpc_child_reads_of_child_trie_absent_in_that_block", 1)
			for i, key := range absent {
				if i >= 4 {
					break
				}
				var res StateStorageResponse
				err := cm.GetStorage(nil, &ChildStateStorageRequest{ChildStorageKey: name, Key: key, Hash: addr}, &res)
				c.Eval(1)
				if err != nil {
					c.Count("rpc_child_absent_trie_answered_with_error", 1)
				} else if res != "" {
					k.viol("rpc-child-absent-read-value", fmt.Sprintf("%s = %q, that block's state has no such child trie", ctx("GetStorage", key), res), blk, nil)
					return
				}
			}
			var ks []string
			if err := cm.GetKeys(nil, &GetKeysRequest{Key: name, Hash: addr}, &ks); err == nil && len(ks) > 0 {
				k.viol("rpc-child-absent-read-value", fmt.Sprintf("childstate GetKeys(child %s) of block %d at %s through %s = %v, that block's state has no such child trie", vrsHx(name), blk.idx, mode, path, ks), blk, nil)
				return
			}
			continue
		}
		k.note("read child %s of block %d at %s through %s: %d present, %d absent keys", vrsHx(name), blk.idx, mode, path, len(present), len(absent))
		// --- childstate_getKeys
		prefixes := [][]byte{{}, {0xc1}}
		for _, key := range present {
			if len(key) > 0 && key[len(key)-1]&0x0f != 0 { // prefixes ending in a zero nibble: C02-K1 / C38-K1, not this property
				prefixes = append(prefixes, key, key[:1])
			}
		}
		for pi, p := range prefixes {
			if pi >= 5 || (len(p) > 0 && p[len(p)-1]&0x0f == 0) {
				continue
			}
			var got []string
			err := cm.GetKeys(nil, &GetKeysRequest{Key: name, Prefix: p, Hash: addr}, &got)
			c.Eval(1)
			c.Count("rpc_child_getkeys"+suffix, 1)
			if err != nil {
				k.viol("rpc-child-getkeys-error", fmt.Sprintf("childstate GetKeys(child %s, prefix %s) of block %d at %s through %s failed: %v", vrsHx(name), vrsHx(p), blk.idx, mode, path, err), blk, nil)
				return
			}
			var want []string
			for _, x := range model.KeysWithPrefix(p) {
				want = append(want, vrsHx(x))
			}
			if strings.Join(got, ",") == strings.Join(want, ",") {
				c.Count("rpc_child_getkeys_in_ascending_order", 1)
			}
			g2 := append([]string{}, got...)
			sort.Strings(g2)
			sort.Strings(want)
			if strings.Join(g2, ",") != strings.Join(want, ",") {
				k.viol("rpc-child-getkeys", fmt.Sprintf("childstate GetKeys(child %s, prefix %s) of block %d at %s through %s = %v, that block's child trie has %v", vrsHx(name), vrsHx(p), blk.idx, mode, path, got, want), blk, nil)
				return
			}
		}
		type probe struct {
			key, val []byte
			have     bool
		}
		var probes []probe
		for _, key := range present {
			v, _ := model.Get(key)
			probes = append(probes, probe{key, v, true})
		}
		for _, key := range absent {
			probes = append(probes, probe{key, nil, false})
		}
		for _, p := range probes {
			if k.bad {
				return
			}
			mainVal, inMain := blk.full.Get(p.key)
			differs := inMain && (!p.have || string(mainVal) != string(p.val))
			// --- childstate_getStorage
			var res StateStorageResponse
			err := cm.GetStorage(nil, &ChildStateStorageRequest{ChildStorageKey: name, Key: p.key, Hash: addr}, &res)
			c.Eval(1)
			c.Count("rpc_child_getstorage"+suffix, 1)
			c.Count("rpc_child_getstorage_through_"+path, 1)
			if differs {
				c.Count("rpc_child_getstorage_key_that_the_main_trie_holds_with_another_value", 1)
			}
			switch {
			case err != nil:
				k.viol("rpc-child-getstorage-error", ctx("GetStorage", p.key)+" failed: "+err.Error(), blk, nil)
				return
			case p.have && len(p.val) > 0:
				c.Count("rpc_child_getstorage_present", 1)
				vrsLenClass(c, "rpc_child_getstorage", k.s.Version, p.val)
				if string(res) != vrsHx(p.val) {
					k.viol("rpc-child-getstorage-value", fmt.Sprintf("%s = %q, that block's child trie has %s", ctx("GetStorage", p.key), res, vrsHv(p.val)), blk, nil)
					return
				}
			case p.have:
				c.Count("rpc_child_getstorage_present_empty_value", 1)
				if string(res) != "0x" {
					class := "rpc-child-getstorage-value"
					if res == "" {
						class = "rpc-child-getstorage-empty-value-reported-absent"
					}
					k.viol(class, fmt.Sprintf("%s = %q (the answer for an absent key); that block's child trie HOLDS the key with the empty value", ctx("GetStorage", p.key), res), blk, nil)
					return
				}
			default:
				c.Count("rpc_child_getstorage_absent", 1)
				if res != "" {
					k.viol("rpc-child-getstorage-absent-read-value", fmt.Sprintf("%s = %q, that block's child trie does not hold the key", ctx("GetStorage", p.key), res), blk, nil)
					return
				}
			}
			// --- childstate_getStorageSize
			var size uint64
			err = cm.GetStorageSize(nil, &GetChildStorageRequest{KeyChild: name, EntryKey: p.key, Hash: addr}, &size)
			c.Eval(1)
			c.Count("rpc_child_getstoragesize"+suffix, 1)
			switch {
			case err != nil:
				k.viol("rpc-child-getstoragesize-error", ctx("GetStorageSize", p.key)+" failed: "+err.Error(), blk, nil)
				return
			case p.have:
				c.Count("rpc_child_getstoragesize_present", 1)
				if size != uint64(len(p.val)) {
					k.viol("rpc-child-getstoragesize-value", fmt.Sprintf("%s = %d, that block's value %s has %d bytes", ctx("GetStorageSize", p.key), size, vrsHv(p.val), len(p.val)), blk, nil)
					return
				}
			case size != 0:
				k.viol("rpc-child-getstoragesize-absent-read-value", fmt.Sprintf("%s = %d, that block's child trie does not hold the key", ctx("GetStorageSize", p.key), size), blk, nil)
				return
			}
			// --- childstate_getStorageHash
			var hash string
			err = cm.GetStorageHash(nil, &GetStorageHash{KeyChild: name, EntryKey: p.key, Hash: addr}, &hash)
			c.Eval(1)
			c.Count("rpc_child_getstoragehash"+suffix, 1)
			switch {
			case err != nil:
				k.viol("rpc-child-getstoragehash-error", ctx("GetStorageHash", p.key)+" failed: "+err.Error(), blk, nil)
				return
			case p.have:
				c.Count("rpc_child_getstoragehash_present", 1)
				if hash != vrsHashHex(p.val) {
					msg := fmt.Sprintf("%s = %s, BLAKE2b-256 of that block's value %s is %s", ctx("GetStorageHash", p.key), hash, vrsHv(p.val), vrsHashHex(p.val))
					if hash != vrsValueAsHash(p.val) {
						k.viol("rpc-child-getstoragehash-value", msg, blk, nil)
						return
					}
					// known finding C04-K2, decided from the answer alone: it is exactly THAT block's value of THAT child
					// key, right-aligned in / cropped to 32 bytes (common.BytesToHash(value)) - not a hash of anything
					c.Count("rpc_child_getstoragehash_answered_with_the_value_bytes_instead_of_their_hash", 1)
					if !k.k2 {
						k.k2 = true
						c.Known("C04-K2", msg+"; the answer is the value itself right-aligned in / cropped to 32 bytes", k.witness(blk, nil))
					}
				}
			case hash != "":
				k.viol("rpc-child-getstoragehash-absent-read-value", fmt.Sprintf("%s = %s, that block's child trie does not hold the key", ctx("GetStorageHash", p.key), hash), blk, nil)
				return
			}
		}
	}
}

// vrsQueryRange decides state_queryStorage over the best chain from block `from` to the head (end block omitted) or
// to an explicit end: every change set names the canonical block of its number, and the value a key has at a block
// - the last change reported up to it - is the value of that block's state.
func (k *vrsChecker) vrsQueryRange(path string, chain []*vrsRt, from, to int, endOmitted bool, keys [][]byte) {
	c, sm := k.c, k.e.sm[path]
	hexKeys := make([]string, len(keys))
	for i, key := range keys {
		hexKeys[i] = vrsHx(key)
	}
	req := &StateStorageQueryRangeRequest{Keys: hexKeys, StartBlock: chain[from].hash}
	if !endOmitted {
		req.EndBlock = chain[to].hash
	}
	var res []StorageChangeSetResponse
	err := sm.QueryStorage(nil, req, &res)
	c.Eval(1)
	c.Count("rpc_querystorage_ranges", 1)
	if endOmitted {
		c.Count("rpc_querystorage_end_block_omitted", 1)
	}
	desc := fmt.Sprintf("QueryStorage(keys %v, from block %d to block %d, end omitted %v) through %s", hexKeys, chain[from].idx, chain[to].idx, endOmitted, path)
	k.note("%s", desc)
	if err != nil {
		k.viol("rpc-querystorage-error", desc+" failed: "+err.Error(), nil, nil)
		return
	}
	if len(res) != to-from+1 {
		k.viol("rpc-querystorage-shape", fmt.Sprintf("%s returned %d change sets for %d blocks", desc, len(res), to-from+1), nil, map[string]any{"response": fmt.Sprintf("%+v", res)})
		return
	}
	last := map[string]string{}
	for i, cs := range res {
		blk := chain[from+i]
		if cs.Block == nil || *cs.Block != blk.hash {
			k.viol("rpc-querystorage-shape", fmt.Sprintf("%s: change set %d is not for block %d (%s)", desc, i, blk.idx, blk.hash), blk, nil)
			return
		}
		for _, ch := range cs.Changes {
			if ch[0] == nil {
				k.viol("rpc-querystorage-shape", desc+": change without a key", blk, nil)
				return
			}
			if ch[1] == nil {
				last[*ch[0]] = "null"
			} else {
				last[*ch[0]] = *ch[1]
			}
			c.Count("rpc_querystorage_changes_reported", 1)
		}
		for j, key := range keys {
			exp := "null"
			if v, ok := blk.full.Get(key); ok {
				exp = vrsHx(v)
			}
			got, reported := last[hexKeys[j]]
			c.Eval(1)
			if !reported || got != exp {
				k.viol("rpc-querystorage-value", fmt.Sprintf("%s: at block %d key %s reads %q (last reported change), that block's state has %s", desc, blk.idx, hexKeys[j], got, exp), blk,
					map[string]any{"response_change_sets": len(res)})
				return
			}
		}
	}
}

func vrsRunC04(c *vcommon.Case, s *vrsScn) {
	e, err := vrsNewEnv()
	if err != nil {
		c.Inconclusive("cannot build chain state: " + err.Error())
		return
	}
	defer e.cleanup()
	k := &vrsChecker{c: c, e: e, s: s}
	genesis := e.bs.BestBlockHash()
	blocks := make([]*vrsRt, len(s.Blocks))
	byHash := map[common.Hash]*vrsRt{}
	headOf := func() *vrsRt { return byHash[e.bs.BestBlockHash()] }
	view := func(blk *vrsRt, explicit bool) {
		var addr *common.Hash
		if explicit {
			h := blk.hash
			addr = &h
		}
		for _, path := range e.paths {
			if k.bad {
				return
			}
			// main readers first: on the fromDB storage state they read the database key by key (GetFromDB) until a
			// child reader loads and caches the whole trie of that root
			k.vrsMainReaders(path, blk, addr, blocks)
			if !k.bad {
				k.vrsChildReaders(path, blk, addr, blocks)
			}
		}
	}
	for i := range s.Blocks {
		if !vrsImport(c, e, s, blocks, i, genesis) {
			return
		}
		byHash[blocks[i].hash] = blocks[i]
		head := headOf()
		if head == nil {
			c.Inconclusive("best block is not one of the imported blocks")
			return
		}
		k.note("imported block %d (number %d, parent %d); best block is block %d", i, blocks[i].number, s.Blocks[i].Parent, head.idx)
		view(head, false)
		view(blocks[i], true)
		if i > 0 && !k.bad {
			view(blocks[c.R.Intn(i)], true) // an older block again after a newer one
		}
		if k.bad {
			return
		}
	}
	// every block once more, oldest first, after the whole chain is there; then the head
	for _, b := range blocks {
		view(b, true)
		if k.bad {
			return
		}
	}
	head := headOf()
	view(head, false)
	if k.bad {
		return
	}
	// the best chain, for the range query
	var chain []*vrsRt
	for b := head; b != nil; b = b.parent {
		chain = append([]*vrsRt{b}, chain...)
	}
	union := vcommon.NewOrdMap()
	for _, b := range chain {
		for _, key := range b.full.Keys() {
			union.Put(key, nil)
		}
	}
	keys := union.Keys()
	if len(keys) > 10 {
		keys = keys[:10]
	}
	keys = append(append([][]byte{}, keys...), []byte{0xde, 0xad}) // never present
	for _, path := range e.paths {
		k.vrsQueryRange(path, chain, 0, len(chain)-1, true, keys)
		if k.bad {
			return
		}
		from := c.R.Intn(len(chain))
		to := c.R.Range(from, len(chain)-1)
		k.vrsQueryRange(path, chain, from, to, false, keys)
		if k.bad {
			return
		}
	}
	nfork, nchild, nempty := 0, 0, 0
	for i, b := range s.Blocks {
		if b.Parent != i-1 {
			nfork++
		}
	}
	sig := ""
	for _, b := range blocks {
		nchild += len(b.st.children)
		ks, vs := b.full.Entries()
		for i := range ks {
			if len(vs[i]) == 0 {
				nempty++
			}
			sig += fmt.Sprintf("%x:%d|", ks[i], len(vs[i]))
		}
		sig += "/"
	}
	if head != blocks[len(blocks)-1] {
		c.Count("rpc_chains_whose_head_is_not_the_last_imported_block", 1)
	}
	c.Distinct(fmt.Sprintf("rpc|v%d|b%d|f%d|c%d|e%d|%s", s.Version, len(s.Blocks), nfork, nchild, nempty, sig))
	if c.Idx < 2 {
		c.Sample(map[string]any{"chain": s.witness()["blocks"], "trie_version": s.Version, "executed_tail": k.log})
	}
}

func TestVerifC04Rpc(t *testing.T) {
	r := vcommon.Start(t, "C04")
	defer r.Finish()
	for name, n := range map[string]int{
		"rpc_blocks_imported":                                                  200,
		"rpc_getstorage_explicit_block":                                        2000,
		"rpc_getstorage_head_omitted":                                          1000,
		"rpc_getstorage_of_non_head_block":                                     1000,
		"rpc_getstorage_through_cached":                                        1500,
		"rpc_getstorage_through_fromDB":                                        1500,
		"rpc_getstorage_present":                                               1500,
		"rpc_getstorage_present_empty_value":                                   150,
		"rpc_getstorage_absent":                                                1000,
		"rpc_getstorage_absent_here_present_in_another_block":                  300,
		"rpc_getstorage_value_of_32_bytes":                                     30,
		"rpc_getstorage_value_of_33_bytes":                                     30,
		"rpc_getstorage_v1_value_over_32_bytes_stored_by_hash":                 60,
		"rpc_getstoragehash_explicit_block":                                    2000,
		"rpc_getstoragehash_head_omitted":                                      1000,
		"rpc_getstoragehash_present":                                           1500,
		"rpc_getstoragehash_empty_value":                                       150,
		"rpc_getstoragesize_explicit_block":                                    2000,
		"rpc_getstoragesize_head_omitted":                                      1000,
		"rpc_getstoragesize_present":                                           1500,
		"rpc_querystorageat_explicit_block":                                    300,
		"rpc_querystorageat_head_omitted":                                      150,
		"rpc_querystorageat_present_empty_value":                               150,
		"rpc_querystorageat_absent":                                            1000,
		"rpc_querystorage_ranges":                                              100,
		"rpc_querystorage_end_block_omitted":                                   50,
		"rpc_querystorage_changes_reported":                                    500,
		"rpc_child_getkeys_explicit_block":                                     300,
		"rpc_child_getkeys_head_omitted":                                       150,
		"rpc_child_getstorage_explicit_block":                                  1000,
		"rpc_child_getstorage_head_omitted":                                    500,
		"rpc_child_getstorage_through_cached":                                  700,
		"rpc_child_getstorage_through_fromDB":                                  700,
		"rpc_child_getstorage_present":                                         700,
		"rpc_child_getstorage_present_empty_value":                             80,
		"rpc_child_getstorage_absent":                                          500,
		"rpc_child_getstorage_key_that_the_main_trie_holds_with_another_value": 150,
		"rpc_child_getstorage_v1_value_over_32_bytes_stored_by_hash":           20,
		"rpc_child_getstoragesize_present":                                     700,
		"rpc_child_getstoragehash_present":                                     700,
		"rpc_child_reads_of_child_trie_absent_in_that_block":                   50,
	} {
		r.Floor(name, n)
	}
	fixed := vrsFixedScns()
	r.Fixed("rpc-corpus", len(fixed), func(c *vcommon.Case) { vrsRunC04(c, fixed[c.Idx]) })
	r.Cases("rpc", r.Scale(100), func(c *vcommon.Case) { vrsRunC04(c, vrsGen(c.R)) })
}
