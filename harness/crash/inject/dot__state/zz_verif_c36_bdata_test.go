//go:build verif

package state

// C36 extension: the writes dot/sync's blockImporter makes around an import besides StoreTrie / AddBlock.
//
//   - blockImporter.processBlockData: a BlockData that came WITHOUT a justification falls through to
//     BlockState.CompareAndSetBlockData(&blockData) after handleBlock (Has + SetReceipt, Has + SetMessageQueue: two
//     separate top-level Puts under block/"rcp"+hash and block/"mqp"+hash); a BlockData WITHOUT a header (only
//     receipt / message queue asked for) goes straight to CompareAndSetBlockData, possibly for a block that has been
//     finalised meanwhile ("late" block data).
//   - StoreTrie(ts, &header) with a header: GetChangedNodeHashes + pruner.StoreJournalRecord before WriteDirty.  The
//     only pruner of this tree is pruner.ArchiveNode whose StoreJournalRecord is a no-op, so no journal write can
//     occur; the harness counts what the store_trie span really wrote (store_trie_writes_beyond_the_dirty_batch
//     stays 0 unless a tree adds a journalling pruner, whose writes would then be enumerated like all others).
//
// What a block carries is a function of its hash (no draw from the case PRNG, so the scenarios are the ones the
// check had before): receipt present 3/4, message queue present 3/4, delivered late (header-less BlockData that
// arrives ahead of the first child's import) 1/2.  The oracle is unchanged: receipts and message queues are not read
// by Service.Start nor named by the property, so what is decided at the new crash points is that the restart still
// succeeds with the finalised head / chain / state / finality / authority data intact (and, for late data written
// next to the header and body of a finalised block, that those are still the block's).

import (
	"bytes"
	"fmt"

	"github.com/ChainSafe/gossamer/dot/types"
)

var (
	vc36ReceiptKeyPrefix      = append([]byte(blockPrefix), receiptPrefix...)
	vc36MessageQueueKeyPrefix = append([]byte(blockPrefix), messageQueuePrefix...)
)

// vc36WriteClass names the new kinds of top-level writes ("" for everything the check already had).
func vc36WriteClass(w vc36Write) string {
	if w.kind != "put" || len(w.ops) != 1 {
		return ""
	}
	switch k := w.ops[0].key; {
	case bytes.HasPrefix(k, vc36ReceiptKeyPrefix):
		return "receipt"
	case bytes.HasPrefix(k, vc36MessageQueueKeyPrefix):
		return "message_queue"
	}
	return ""
}

// vc36BlockDataOf derives the receipt / message queue a block is delivered with from its hash.
func vc36BlockDataOf(b *vc36Block) (bd *types.BlockData, late bool) {
	h := b.hash
	bd = &types.BlockData{Hash: h}
	if h[0]%4 != 0 {
		rc := append([]byte("receipt:"), h[3:3+1+int(h[4]%20)]...)
		bd.Receipt = &rc
	}
	if h[1]%4 != 0 {
		mq := append([]byte("msgqueue:"), h[8:8+1+int(h[5]%20)]...)
		bd.MessageQueue = &mq
	}
	return bd, h[2]%2 == 0
}

// deliverBlockData is blockImporter.processBlockData's tail: BlockState.CompareAndSetBlockData.  late = the
// header-less BlockData of an already imported block (b may be finalised by now).
func (run *vc36Run) deliverBlockData(b *vc36Block, late bool) {
	if b == nil || b.idx < 0 || run.liveErr != "" {
		return // sync never asks for the genesis block
	}
	bd, isLate := vc36BlockDataOf(b)
	if isLate != late {
		return
	}
	if run.bdDelivered == nil {
		run.bdDelivered = map[int]bool{}
	}
	if run.bdDelivered[b.idx] {
		return
	}
	run.bdDelivered[b.idx] = true
	s := run.svc
	name := "block_data"
	if late {
		name = "block_data_late"
	}
	hadR, _ := s.Block.HasReceipt(b.hash)
	hadM, _ := s.Block.HasMessageQueue(b.hash)
	inDB, _ := s.Block.HasHeaderInDatabase(b.hash)
	before := run.rec.n()
	end := run.rec.span(name)
	err := s.Block.CompareAndSetBlockData(bd)
	end()
	if err != nil {
		run.liveErr = fmt.Sprintf("live CompareAndSetBlockData(block %d): %v", b.idx, err)
		return
	}
	wrote := run.rec.n() - before
	run.count("blockdata_calls", 1)
	run.count("blockdata_writes", wrote)
	if late {
		run.count("blockdata_calls_late_headerless", 1)
		if inDB && wrote > 0 {
			// the puts land next to the persisted header / body of a block finalised meanwhile (or left behind
			// by a half-done finalisation)
			run.count("blockdata_late_writes_for_block_persisted_in_database", wrote)
		}
	}
	if bd.Receipt != nil {
		if hadR {
			run.count("blockdata_receipt_already_in_database_skipped", 1) // re-delivery after a crash
		} else {
			run.count("blockdata_receipt_written", 1)
		}
	}
	if bd.MessageQueue != nil {
		if hadM {
			run.count("blockdata_message_queue_already_in_database_skipped", 1)
		} else {
			run.count("blockdata_message_queue_written", 1)
		}
	}
	if bd.Receipt != nil && bd.MessageQueue != nil && hadR && !hadM {
		// the crash fell between SetReceipt and SetMessageQueue; the re-delivery completes the pair
		run.count("blockdata_half_written_pair_completed", 1)
	}
	if bd.Receipt == nil && bd.MessageQueue == nil {
		run.count("blockdata_calls_with_nothing_to_set", 1)
	}
}

// countStoreTrie records what StoreTrie(ts, &header) wrote: writes [before, now) of the log.
func (run *vc36Run) countStoreTrie(before int) {
	n := run.rec.n() - before
	run.count("store_trie_with_header_calls", 1)
	run.count("store_trie_writes", n)
	if n > 1 {
		run.count("store_trie_writes_beyond_the_dirty_batch", n-1) // journal records, if a pruner wrote any
	}
}

// countBlockDataCrashPoint classifies crash point k of log lg for the evidence (prefix "" first crash, "pair_second_"
// second crash of a two-phase pair).
func vc36CountBlockDataCrashPoint(run *vc36Run, prefix string, lg []vc36Write, k int) {
	c := run.c
	if k < len(lg) {
		if cl := vc36WriteClass(lg[k]); cl != "" {
			c.Count(prefix+"crash_first_lost_write_is_"+cl, 1)
		}
	}
	if k > 0 && k <= len(lg) {
		if cl := vc36WriteClass(lg[k-1]); cl != "" {
			c.Count(prefix+"crash_last_durable_write_is_"+cl, 1)
			if k < len(lg) && cl == "receipt" && vc36WriteClass(lg[k]) == "message_queue" &&
				bytes.Equal(lg[k-1].ops[0].key[len(vc36ReceiptKeyPrefix):], lg[k].ops[0].key[len(vc36MessageQueueKeyPrefix):]) {
				c.Count(prefix+"crash_between_receipt_and_message_queue_of_a_block", 1)
			}
		}
	}
}
