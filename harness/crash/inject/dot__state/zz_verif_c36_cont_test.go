//go:build verif

package state

// C36, two-phase crash scenarios ("recover, then continue"):
//
//	phase 1   the scenario's live run, crash after k writes            (log[0,k))
//	restart   the real Service.Start on that database
//	continue  the SAME scenario is driven on the restarted node the way a node goes on after a recovery: blocks
//	          that the restarted node does not know (unfinalised blocks live in memory only) are imported again,
//	          the same targets are finalised again, the remaining steps follow; its writes are recorded
//	phase 2   crash after j writes of the continuation                  (log[0,k) + cont[0,j))
//	restart   Service.Start again, the same oracle as for a single crash (finality baseline and authority lists
//	          are those of the continued node)
//
// j = len(cont) is "a later restart after the node recovered and went on", the case a single crash-then-check
// pass can never see (e.g. a re-finalisation that trusts what a half-done finalisation left behind).

import (
	"fmt"
	"sort"

	"github.com/ChainSafe/gossamer/dot/digest"
	"github.com/ChainSafe/gossamer/internal/database"
	"github.com/ChainSafe/gossamer/zz_verif/vcommon"
)

// vc36PairPlan says which first crash points k of a scenario are continued and how many second crash points j
// are restarted per continuation.
type vc36PairPlan struct {
	allK, allJ bool
	ks         map[int]bool // first crash points to continue when !allK
	nJ         int          // sampled second crash points per continuation, besides j = len(cont)
	rnd        *vcommon.Rand
	complete   bool // every wanted k was continued and every wanted j restarted
}

func (pp *vc36PairPlan) wants(k int) bool { return pp.allK || pp.ks[k] }

// insideSpan lists the log positions strictly inside a span of the given name.
func (run *vc36Run) insideSpan(name string) []int {
	var out []int
	seen := map[int]bool{}
	for _, sp := range run.rec.ranges {
		if sp.name != name {
			continue
		}
		for k := sp.start + 1; k < sp.end; k++ {
			if !seen[k] {
				seen[k] = true
				out = append(out, k)
			}
		}
	}
	sort.Ints(out)
	return out
}

// vc36SampleInts draws up to n distinct elements of xs into set.
func vc36SampleInts(r *vcommon.Rand, xs []int, n int, set map[int]bool) {
	if len(xs) == 0 {
		return
	}
	for _, i := range r.Perm(len(xs)) {
		if n <= 0 {
			return
		}
		if !set[xs[i]] {
			set[xs[i]] = true
			n--
		}
	}
}

// newPairPlan is the budget of the two-phase family for this scenario.
//
//	plan.Pairs "all"           every k, every j, in both tiers (small fixed scenarios)
//	plan.Pairs "all-thorough"  thorough: every k, every j; quick: like a sampled scenario
//	otherwise                  map store: every k; Pebble: k sampled (half of the sample inside SetFinalisedHash,
//	                           where a half-done operation leaves most behind; the complete log always);
//	                           per k: j = len(cont) and nJ sampled j (half of them inside the continuation's
//	                           SetFinalisedHash calls)
func (run *vc36Run) newPairPlan(thorough bool) *vc36PairPlan {
	if run.truncated {
		return nil
	}
	pp := &vc36PairPlan{rnd: run.c.R.Fork(), complete: true}
	if run.plan.Pairs == "all" || (thorough && run.plan.Pairs == "all-thorough") {
		pp.allK, pp.allJ = true, true
		return pp
	}
	pebble := run.plan.Backend == "pebble"
	nK := 1 << 30 // map store: every first crash point is continued, in both tiers
	pp.nJ = 2
	switch {
	case !thorough && !pebble:
		pp.nJ = 4
	case !thorough && pebble:
		nK = 8
	case thorough && pebble:
		nK = 12
	}
	lg := run.rec.log
	pp.ks = map[int]bool{len(lg): true}
	vc36SampleInts(pp.rnd, run.insideSpan("set_finalised_hash"), nK/2, pp.ks)
	all := make([]int, 0, len(lg)-run.initEnd+1)
	for k := run.initEnd; k <= len(lg); k++ {
		all = append(all, k)
	}
	vc36SampleInts(pp.rnd, all, nK+1-len(pp.ks), pp.ks)
	if len(pp.ks) == len(all) {
		pp.allK = true
	}
	return pp
}

// onChainOf reports whether a is head or one of its ancestors.
func (run *vc36Run) onChainOf(a, head *vc36Block) bool {
	for x := head; ; x = run.parentOf(x.idx) {
		if x == a {
			return true
		}
		if x.idx < 0 {
			return false
		}
	}
}

// continueFrom restarts a node on db (= writes [0,k) of the first run) and drives the scenario on it.  It returns
// the continuation (its recorder holds the writes made since the restart, Service.Start's included), or nil.
func (run *vc36Run) continueFrom(k int, db database.Database, r *vcommon.Rand) *vc36Run {
	c := run.c
	rec := newVC36RecDB(db)
	rs := &Service{db: rec, isMemDB: true, genesisBABEConfig: run.cfg, Telemetry: vc36NoTelemetry{}, closeCh: make(chan interface{})}
	end := rec.span("restart")
	err := rs.Start()
	end()
	c.Count("cont_restart_writes", rec.n()) // what Service.Start itself writes (they would be crash points too)
	if err != nil {
		c.Inconclusive(fmt.Sprintf("scenario %s k=%d: the restart to continue from failed although the checked restart did not: %v", run.plan.Name, k, err))
		return nil
	}
	round, setID, err := rs.Block.GetHighestRoundAndSetID()
	if err != nil {
		c.Inconclusive(fmt.Sprintf("scenario %s k=%d: continuation cannot read the finalised round: %v", run.plan.Name, k, err))
		return nil
	}
	hh, err := rs.Block.GetHighestFinalisedHash()
	head := run.byHash[hh]
	if err != nil || head == nil {
		c.Inconclusive(fmt.Sprintf("scenario %s k=%d: continuation cannot read the finalised head: %v", run.plan.Name, k, err))
		return nil
	}
	cont := &vc36Run{
		plan: run.plan, c: c, rec: rec, svc: rs, cfg: run.cfg, imp: digest.NewBlockImportHandler(rs.Epoch, rs.Grandpa),
		genesis: run.genesis, blocks: run.blocks, byHash: run.byHash,
		authBySet: map[uint64][]byte{}, have: map[int]bool{}, phase2: true,
		// lib/grandpa goes on with the next round of the set the head was finalised in (a new set restarts at 1)
		round: round, roundSet: setID, finRound: round, finSet: setID, finHead: head,
	}
	for b := head; b.idx >= 0; b = run.parentOf(b.idx) {
		cont.have[b.idx] = true // the finalised chain is what the restarted node knows
	}
	cont.quiescent("restart")
	note := func(format string, a ...any) {
		if len(cont.contSteps) < 40 {
			cont.contSteps = append(cont.contSteps, fmt.Sprintf(format, a...))
		}
	}
	note("restart: finalised head #%d (round %d, set %d)", head.number, round, setID)

	for si, st := range run.plan.Steps {
		pending := cont.pendingHandler
		cont.pendingHandler = nil
		b := run.blocks[st.Block]
		did := false
		switch {
		case b == nil:
			note("step %d %s(%d): skipped, block never built", si, st.Kind, st.Block)
		case st.Kind == "import" && cont.have[st.Block]:
			cont.count("import_skipped_block_known", 1)
		case st.Kind == "import":
			// a syncing node is only offered descendants of its finalised head whose parent it has
			if parent := run.parentOf(st.Block); !cont.known(parent) || !run.onChainOf(cont.finHead, parent) {
				cont.count("import_skipped_not_on_finalised_head", 1)
				note("step %d import(%d): skipped, not a descendant of the finalised head", si, st.Block)
				break
			}
			cont.importBlock(st.Block, r)
			note("step %d import(%d) #%d", si, st.Block, b.number)
			did = true
		case st.Kind == "finalise" && run.onChainOf(b, cont.finHead):
			cont.count("finalise_skipped_already_finalised", 1)
		case st.Kind == "finalise":
			if !cont.have[st.Block] || !run.onChainOf(cont.finHead, b) {
				cont.count("finalise_skipped_block_unknown", 1)
				note("step %d finalise(%d): skipped, block unknown to the restarted node", si, st.Block)
				break
			}
			cont.finalise(st.Block, st.Sync, st.Defer, r)
			note("step %d finalise(%d) #%d round %d set %d", si, st.Block, b.number, cont.round, cont.roundSet)
			did = true
		}
		if did && cont.liveErr == "" {
			cont.quiescent(fmt.Sprintf("continuation step %d %s(%d)", si, st.Kind, st.Block))
		}
		for _, pb := range pending {
			if cont.liveErr == "" {
				cont.digestHandler(pb)
				cont.quiescent(fmt.Sprintf("continuation: deferred digest handler of block %d after step %d", pb.idx, si))
			}
		}
		if cont.liveErr != "" {
			break
		}
	}
	if cont.liveErr == "" {
		for _, pb := range cont.pendingHandler {
			cont.digestHandler(pb)
			cont.quiescent(fmt.Sprintf("continuation: deferred digest handler of block %d at the end", pb.idx))
		}
	}
	if cont.liveErr != "" {
		// The restarted node could not go on.  The property speaks about the restart, not about what follows, so
		// this is not a violation; it leaves the two-phase family of this k undecided beyond the writes made.
		c.Count("cont_live_run_failed", 1)
		c.Inconclusive(fmt.Sprintf("scenario %s k=%d: continuation on the restarted node failed: %s", run.plan.Name, k, cont.liveErr))
		note("FAILED: %s", cont.liveErr)
	}
	return cont
}

// continueAndEnumerate runs the continuation from first crash point k and restarts on the prefixes of its writes.
func (run *vc36Run) continueAndEnumerate(k int, memAtK *vc36MemDB, pp *vc36PairPlan, kdesc string) {
	c := run.c
	db, err := run.materialise(k, memAtK, nil)
	if err != nil {
		c.Inconclusive(err.Error())
		pp.complete = false
		return
	}
	cont := run.continueFrom(k, db, pp.rnd.Fork())
	_ = db.Close()
	if cont == nil {
		pp.complete = false
		return
	}
	clog := cont.rec.log
	total := len(clog) + 1
	c.Count("crash_first_points_continued", 1)
	c.Count("crash_pairs_total", total)
	c.Count("cont_writes", len(clog))
	firstSpans := run.spansAt(k)
	for _, name := range firstSpans {
		c.Count("crash_first_points_continued_inside_"+name, 1)
	}
	first, last := run.quies[len(run.quies)-1], cont.quies[len(cont.quies)-1]
	if last.curSetID != first.curSetID {
		c.Count("cont_final_current_set_differs_from_first_run", 1) // e.g. a forced change applied twice, a pending change forgotten
	}
	if last.headNumber < first.headNumber {
		c.Count("cont_final_head_number_below_first_run", 1)
	}

	// second crash points
	var js []int
	if pp.allJ {
		for j := 0; j <= len(clog); j++ {
			js = append(js, j)
		}
	} else {
		set := map[int]bool{len(clog): true}
		vc36SampleInts(pp.rnd, cont.insideSpan("set_finalised_hash"), (pp.nJ+1)/2, set)
		all := make([]int, len(clog)+1)
		for j := range all {
			all[j] = j
		}
		vc36SampleInts(pp.rnd, all, pp.nJ+1-len(set), set)
		for j := range set {
			js = append(js, j)
		}
		sort.Ints(js)
	}

	var cur *vc36MemDB
	if memAtK != nil {
		cur = memAtK.clone()
	}
	applied := 0
	for _, j := range js {
		var db2 database.Database
		if cur != nil {
			for ; applied < j; applied++ {
				cur.apply(clog[applied].ops)
			}
			db2 = cur.clone()
		} else if db2, err = run.materialise(k, nil, clog[:j]); err != nil {
			c.Inconclusive(err.Error())
			pp.complete = false
			return
		}
		o := &vc36Oracle{
			run: run, prefix: "continued/", cnt: "pair_",
			where: fmt.Sprintf("[%s k=%d/%d, continued, j=%d/%d]", run.plan.Name, k, len(run.rec.log), j, len(clog)),
			base:  cont.baseline(j), authBySet: cont.authBySet,
			witness: func(extra map[string]any) map[string]any {
				w := run.witness(k, extra)
				w["continuation"] = cont.contSteps
				w["continuation_log_len"] = len(clog)
				w["second_crash_after_continuation_writes"] = j
				w["second_inside_operations"] = cont.spansAt(j)
				w["second_last_quiescent"] = cont.baseline(j).after
				if j > 0 {
					w["second_last_durable_write"] = vc36DescribeWrite(clog[j-1])
				}
				if j < len(clog) {
					w["second_first_lost_write"] = vc36DescribeWrite(clog[j])
				}
				return w
			},
		}
		o.check(db2)
		_ = db2.Close()

		c.Count("crash_pairs_restarted", 1)
		c.Count("crash_pairs_backend_"+run.plan.Backend, 1)
		sp := cont.spansAt(j)
		for _, name := range sp {
			c.Count("pair_second_crash_inside_"+name, 1)
		}
		vc36CountBlockDataCrashPoint(run, "pair_second_", clog, j)
		kind, off := "end", 0
		if j < len(clog) {
			kind = clog[j].kind
			if cl := vc36WriteClass(clog[j]); cl != "" {
				kind = cl
			}
		} else {
			c.Count("pair_second_restart_after_complete_continuation", 1)
		}
		for _, r := range cont.rec.ranges {
			if r.start < j && j < r.end && (off == 0 || j-r.start < off) {
				off = j - r.start
			}
		}
		c.Distinct(fmt.Sprintf("%s|%s||%v|%d|%s", run.plan.shape(), kdesc, sp, off, kind))
	}
	if pp.allJ && len(js) != total {
		pp.complete = false
	}
}
