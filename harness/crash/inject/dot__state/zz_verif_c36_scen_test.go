//go:build verif

package state

// C36 scenarios: plans (shape of a block tree, where the GRANDPA / BABE
// consensus digests fall, when blocks are finalised) and their execution
// against the real dot/state code over the recording database.
//
// The live run mirrors what the node does:
//   - genesis:   Service.Initialise minus the wasm runtime (the BABE
//     configuration is given instead of being read from the runtime);
//   - import:    dot/core handleBlock = StoreTrie, AddBlock,
//     digest.BlockImportHandler.HandleDigests, ApplyForcedChanges;
//   - finalise:  lib/grandpa finalise = SetJustification, SetPrevotes,
//     SetPrecommits, SetFinalisedHash, SetLatestRound  (or dot/sync's
//     SetFinalisedHash, SetJustification), followed by the body of
//     digest.Handler.handleBlockFinalisation = FinalizeBABENextEpochData,
//     FinalizeBABENextConfigData, ApplyScheduledChanges (run synchronously
//     here; in the node it is a goroutine fed by the finalisation notifier).

import (
	"encoding/json"
	"errors"
	"fmt"
	"strings"

	"github.com/ChainSafe/gossamer/dot/digest"
	"github.com/ChainSafe/gossamer/dot/types"
	"github.com/ChainSafe/gossamer/internal/database"
	"github.com/ChainSafe/gossamer/lib/common"
	"github.com/ChainSafe/gossamer/lib/genesis"
	rtstorage "github.com/ChainSafe/gossamer/lib/runtime/storage"
	"github.com/ChainSafe/gossamer/pkg/scale"
	inmemory_trie "github.com/ChainSafe/gossamer/pkg/trie/inmemory"
	"github.com/ChainSafe/gossamer/zz_verif/vcommon"
)

type vc36NoTelemetry struct{}

func (vc36NoTelemetry) SendMessage(json.Marshaler) {}

// ---------------------------------------------------------------------------
// plans

type vc36Change struct {
	Delay uint32 `json:"delay"`
	NAuth int    `json:"n_auth"`
}

type vc36BlockPlan struct {
	Parent     int         `json:"parent"` // index into Blocks, -1 = genesis
	Puts       int         `json:"puts"`
	Dels       int         `json:"dels"`
	Exts       int         `json:"exts"`
	Sched      *vc36Change `json:"scheduled_change,omitempty"`
	Forced     *vc36Change `json:"forced_change,omitempty"`
	NextEpoch  bool        `json:"next_epoch_data,omitempty"`
	NextConfig bool        `json:"next_config_data,omitempty"`
}

type vc36Step struct {
	Kind  string `json:"kind"` // "import" | "finalise"
	Block int    `json:"block"`
	Sync  bool   `json:"sync_style,omitempty"` // finalise the way dot/sync does (justified block) instead of lib/grandpa
	// Defer: the finalisation digest handler (a goroutine in the node) runs only after the NEXT step has completed,
	// so its writes land behind the writes of that step.
	Defer bool `json:"defer_digest_handler,omitempty"`
}

type vc36Plan struct {
	Name        string          `json:"name"`
	Backend     string          `json:"backend"` // "map" | "pebble"
	GenesisAuth int             `json:"genesis_auth"`
	GenesisKeys int             `json:"genesis_keys"`
	EpochLen    uint64          `json:"epoch_len"`
	Blocks      []vc36BlockPlan `json:"blocks"`
	Steps       []vc36Step      `json:"steps"`
	// Pairs "all": the two-phase family (crash k, restart, continue, crash j, restart) of this scenario is
	// enumerated completely in every tier; otherwise it is sampled (see vc36PairBudget).
	Pairs string `json:"pairs,omitempty"`
}

func (p *vc36Plan) number(i int) uint {
	n := uint(1)
	for p.Blocks[i].Parent >= 0 {
		i = p.Blocks[i].Parent
		n++
	}
	return n
}

// shape is the structural fingerprint of a plan (no contents).
func (p *vc36Plan) shape() string {
	var sb strings.Builder
	fmt.Fprintf(&sb, "%s|g%d|e%d|", p.Backend, p.GenesisAuth, p.EpochLen)
	for _, b := range p.Blocks {
		fmt.Fprintf(&sb, "%d", b.Parent)
		if b.Sched != nil {
			fmt.Fprintf(&sb, "s%d", b.Sched.Delay)
		}
		if b.Forced != nil {
			fmt.Fprintf(&sb, "f%d", b.Forced.Delay)
		}
		if b.NextEpoch {
			sb.WriteByte('e')
		}
		if b.NextConfig {
			sb.WriteByte('c')
		}
		sb.WriteByte(',')
	}
	sb.WriteByte('|')
	for _, s := range p.Steps {
		fmt.Fprintf(&sb, "%c%d", s.Kind[0], s.Block)
		if s.Sync {
			sb.WriteByte('y')
		}
		if s.Defer {
			sb.WriteByte('d')
		}
	}
	return sb.String()
}

func vc36Chain(n int) []vc36BlockPlan {
	bs := make([]vc36BlockPlan, n)
	for i := range bs {
		bs[i] = vc36BlockPlan{Parent: i - 1, Puts: 3, Dels: i % 2, Exts: i % 3}
	}
	return bs
}

// vc36FixedPlans is the seed-independent corpus.  The first two are the
// minimal witnesses of the defect fixed on branch fix-crash (current set id
// persisted before its authorities / activation block).
func vc36FixedPlans() []*vc36Plan {
	var out []*vc36Plan

	// F0: one block announcing a scheduled change with delay 0, finalised.
	p := &vc36Plan{Name: "min-scheduled", Backend: "map", GenesisAuth: 1, GenesisKeys: 2, EpochLen: 10, Blocks: vc36Chain(1), Pairs: "all"}
	p.Blocks[0].Sched = &vc36Change{Delay: 0, NAuth: 2}
	p.Steps = []vc36Step{{Kind: "import", Block: 0}, {Kind: "finalise", Block: 0}}
	out = append(out, p)

	// F1: one block announcing a forced change with delay 0 (applied at import), finalised.
	p = &vc36Plan{Name: "min-forced", Backend: "map", GenesisAuth: 1, GenesisKeys: 2, EpochLen: 10, Blocks: vc36Chain(1), Pairs: "all"}
	p.Blocks[0].Forced = &vc36Change{Delay: 0, NAuth: 2}
	p.Steps = []vc36Step{{Kind: "import", Block: 0}, {Kind: "finalise", Block: 0}}
	out = append(out, p)

	// F2: 5-block chain, a 2-block fork at height 2, scheduled change (b1, delay 1) applied when b2.. is
	// finalised, forced change (b3, delay 1) applied at the import of b4, epoch data digests, finalise twice more.
	mk := func(name, backend string) *vc36Plan {
		p := &vc36Plan{Name: name, Backend: backend, GenesisAuth: 3, GenesisKeys: 6, EpochLen: 2, Blocks: vc36Chain(5)}
		if backend == "map" {
			p.Pairs = "all-thorough"
		}
		p.Blocks = append(p.Blocks,
			vc36BlockPlan{Parent: 0, Puts: 2, Dels: 1, Exts: 1}, // 5: fork at height 2
			vc36BlockPlan{Parent: 5, Puts: 1, Exts: 0})          // 6: fork at height 3
		p.Blocks[0].NextEpoch = true
		p.Blocks[0].NextConfig = true
		p.Blocks[1].Sched = &vc36Change{Delay: 1, NAuth: 2}
		p.Blocks[2].NextEpoch = true
		p.Blocks[3].Forced = &vc36Change{Delay: 1, NAuth: 4}
		p.Blocks[4].NextEpoch = true
		p.Steps = []vc36Step{
			{Kind: "import", Block: 0}, {Kind: "import", Block: 1}, {Kind: "import", Block: 5},
			{Kind: "finalise", Block: 0},
			{Kind: "import", Block: 2}, {Kind: "import", Block: 6},
			{Kind: "finalise", Block: 2},
			{Kind: "import", Block: 3}, {Kind: "import", Block: 4},
			{Kind: "finalise", Block: 3, Sync: true},
			{Kind: "finalise", Block: 4},
		}
		return p
	}
	out = append(out, mk("fork-sched-forced", "map"))

	// F3: two scheduled changes one after the other, finalisation jumps over several blocks at once.
	p = &vc36Plan{Name: "two-scheduled-jump", Backend: "map", GenesisAuth: 2, GenesisKeys: 4, EpochLen: 3, Blocks: vc36Chain(6), Pairs: "all-thorough"}
	p.Blocks = append(p.Blocks, vc36BlockPlan{Parent: 2, Puts: 2, Exts: 2}) // 6: fork at height 4
	p.Blocks[0].NextEpoch = true
	p.Blocks[0].Sched = &vc36Change{Delay: 0, NAuth: 1}
	p.Blocks[2].Sched = &vc36Change{Delay: 2, NAuth: 3}
	p.Blocks[3].NextEpoch = true
	p.Blocks[3].NextConfig = true
	p.Steps = []vc36Step{
		{Kind: "import", Block: 0}, {Kind: "finalise", Block: 0},
		{Kind: "import", Block: 1}, {Kind: "import", Block: 2}, {Kind: "import", Block: 3}, {Kind: "import", Block: 6},
		{Kind: "import", Block: 4}, {Kind: "finalise", Block: 4},
		{Kind: "import", Block: 5}, {Kind: "finalise", Block: 5, Sync: true},
	}
	out = append(out, p)

	// F4: the F2 shape over a real in-memory Pebble (live run and every restart).
	out = append(out, mk("fork-sched-forced-pebble", "pebble"))

	// F5: forced change with a delay while a scheduled change is pending on a fork.
	p = &vc36Plan{Name: "forced-delay-fork-sched", Backend: "map", GenesisAuth: 2, GenesisKeys: 3, EpochLen: 4, Blocks: vc36Chain(4), Pairs: "all-thorough"}
	p.Blocks = append(p.Blocks, vc36BlockPlan{Parent: 0, Puts: 2, Exts: 1, Sched: &vc36Change{Delay: 5, NAuth: 2}}) // 4: fork
	p.Blocks[0].NextEpoch = true
	p.Blocks[1].Forced = &vc36Change{Delay: 2, NAuth: 3}
	p.Steps = []vc36Step{
		{Kind: "import", Block: 0}, {Kind: "import", Block: 4}, {Kind: "import", Block: 1},
		{Kind: "finalise", Block: 0},
		{Kind: "import", Block: 2}, {Kind: "import", Block: 3},
		{Kind: "finalise", Block: 2}, {Kind: "finalise", Block: 3},
	}
	out = append(out, p)

	// F6: the finalisation digest handler lags one step behind (its writes interleave with the next import /
	// finalisation), scheduled change delay 0 on b0 and forced change delay 0 on b2.
	p = &vc36Plan{Name: "deferred-digest-handler", Backend: "map", GenesisAuth: 2, GenesisKeys: 3, EpochLen: 2, Blocks: vc36Chain(4), Pairs: "all-thorough"}
	p.Blocks[0].NextEpoch = true
	p.Blocks[0].Sched = &vc36Change{Delay: 0, NAuth: 3}
	p.Blocks[2].NextEpoch = true
	p.Blocks[2].Forced = &vc36Change{Delay: 0, NAuth: 2}
	p.Steps = []vc36Step{
		{Kind: "import", Block: 0}, {Kind: "finalise", Block: 0, Defer: true},
		{Kind: "import", Block: 1}, {Kind: "finalise", Block: 1, Defer: true},
		{Kind: "import", Block: 2}, {Kind: "import", Block: 3},
		{Kind: "finalise", Block: 3, Defer: true},
	}
	out = append(out, p)

	// F7: the minimal shape of "a re-finalisation meets what a half-done finalisation left behind": three blocks,
	// one finalisation jumping over all of them (three header/body/arrival-time groups, then the number index
	// batch, then the two head pointers), one more block finalised dot/sync style.  Every (k, j) pair is enumerated.
	p = &vc36Plan{Name: "jump-refinalise", Backend: "map", GenesisAuth: 2, GenesisKeys: 3, EpochLen: 10, Blocks: vc36Chain(4), Pairs: "all"}
	p.Steps = []vc36Step{
		{Kind: "import", Block: 0}, {Kind: "import", Block: 1}, {Kind: "import", Block: 2},
		{Kind: "finalise", Block: 2},
		{Kind: "import", Block: 3}, {Kind: "finalise", Block: 3, Sync: true},
	}
	out = append(out, p)
	return out
}

// vc36RandomPlan draws a plan: a main chain of mainLen blocks, forks hanging
// off it, consensus digests and finalisation points at PRNG-chosen places.
func vc36RandomPlan(r *vcommon.Rand, thorough bool, idx int) *vc36Plan {
	mainLen := r.Range(3, 6)
	if thorough {
		mainLen = r.Range(3, 9)
	}
	p := &vc36Plan{
		Name: fmt.Sprintf("rand-%d", idx), Backend: "map",
		GenesisAuth: r.Range(1, 4), GenesisKeys: r.Range(0, 8), EpochLen: uint64(r.Range(2, 4)),
	}
	if thorough && r.Chance(1, 12) {
		p.Backend = "pebble"
	}
	for i := 0; i < mainLen; i++ {
		p.Blocks = append(p.Blocks, vc36BlockPlan{Parent: i - 1, Puts: r.Range(0, 5), Dels: r.Range(0, 2), Exts: r.Range(0, 3)})
	}
	// consensus digests on the main chain
	nChanges := r.Range(1, 3)
	for j := 0; j < nChanges; j++ {
		i := r.Intn(mainLen)
		ch := &vc36Change{Delay: uint32(r.Range(0, 2)), NAuth: r.Range(1, 4)}
		if r.Chance(2, 5) {
			p.Blocks[i].Forced = ch
		} else {
			p.Blocks[i].Sched = ch
		}
	}
	for i := 0; i < mainLen; i++ {
		if uint64(i)%p.EpochLen == 0 || r.Chance(1, 6) {
			p.Blocks[i].NextEpoch = true
		}
		if r.Chance(1, 5) {
			p.Blocks[i].NextConfig = true
		}
	}
	// forks: each hangs off a main-chain block (or genesis) and has 1..2 blocks
	type fork struct{ first, last, base int }
	var forks []fork
	nForks := r.Range(0, 2)
	if thorough {
		nForks = r.Range(0, 3)
	}
	for j := 0; j < nForks; j++ {
		base := r.Range(-1, mainLen-2)
		first := len(p.Blocks)
		parent := base
		for l := 0; l < r.Range(1, 2); l++ {
			b := vc36BlockPlan{Parent: parent, Puts: r.Range(0, 3), Dels: r.Range(0, 1), Exts: r.Range(0, 2)}
			if r.Chance(1, 4) {
				b.Sched = &vc36Change{Delay: uint32(r.Range(0, 3)), NAuth: r.Range(1, 3)}
			}
			if r.Chance(1, 6) {
				b.NextEpoch = true
			}
			p.Blocks = append(p.Blocks, b)
			parent = len(p.Blocks) - 1
		}
		forks = append(forks, fork{first: first, last: len(p.Blocks) - 1, base: base})
	}
	// steps: import the main chain in order; fork blocks are imported right after their base (while the base is
	// not yet finalised-over); finalisation points fall on imported main-chain blocks.
	lastFin := -1
	for i := 0; i < mainLen; i++ {
		p.Steps = append(p.Steps, vc36Step{Kind: "import", Block: i})
		for _, f := range forks {
			// a fork off main block `base` is imported after main block base+1, so both branches coexist
			if f.base+1 == i {
				for b := f.first; b <= f.last; b++ {
					p.Steps = append(p.Steps, vc36Step{Kind: "import", Block: b})
				}
			}
		}
		if i == mainLen-1 || r.Chance(2, 5) {
			tgt := r.Range(lastFin+1, i)
			p.Steps = append(p.Steps, vc36Step{Kind: "finalise", Block: tgt, Sync: r.Chance(1, 4), Defer: r.Chance(1, 4)})
			lastFin = tgt
			if tgt < i && (i == mainLen-1 || r.Chance(1, 2)) {
				p.Steps = append(p.Steps, vc36Step{Kind: "finalise", Block: i, Sync: r.Chance(1, 4)})
				lastFin = i
			}
		}
	}
	return p
}

// ---------------------------------------------------------------------------
// live run

type vc36Block struct {
	idx       int // plan index, -1 = genesis
	number    uint
	header    *types.Header
	body      *types.Body
	hash      common.Hash
	headerEnc []byte
	bodyEnc   []byte
	state     *vcommon.OrdMap
	// the storage changes of the block relative to its parent, in the order they were applied (a re-import after
	// a restart replays them on the parent's state)
	dels [][]byte
	puts [][2][]byte
}

type vc36Quiescent struct {
	at         int // log length when the step had completed
	after      string
	round      uint64
	setID      uint64
	headHash   common.Hash
	headNumber uint
	curSetID   uint64
}

type vc36Run struct {
	plan *vc36Plan
	c    *vcommon.Case
	rec  *vc36RecDB
	svc  *Service
	cfg  *types.BabeConfiguration
	imp  *digest.BlockImportHandler

	genesis *vc36Block
	blocks  []*vc36Block
	byHash  map[common.Hash]*vc36Block

	initEnd   int
	quies     []vc36Quiescent
	authBySet map[uint64][]byte // set id -> encoded voters as seen by the running node
	round     uint64
	roundSet  uint64
	liveErr   string

	// what the script has finalised so far (independent of what the database says)
	finRound, finSet uint64
	finHead          *vc36Block
	pendingHandler   []*vc36Block // finalised blocks whose digest handler run is deferred
	truncated        bool         // the live run stopped early (a driving call failed)

	// have: plan index -> the running node knows the block (imported in this process, or on the finalised chain
	// it restarted from).  Unfinalised blocks live in memory only, so this is per process, not per scenario.
	have map[int]bool
	// phase2: this run is the continuation of the scenario on a node restarted from a crash prefix of the first
	// run (blocks, byHash, genesis, cfg are shared with it; counters get the prefix "cont_")
	phase2 bool
	// bdDelivered: plan index -> this process has handed the block's receipt / message queue to
	// CompareAndSetBlockData (zz_verif_c36_bdata_test.go)
	bdDelivered map[int]bool
	contSteps   []string // what the continuation did / skipped, for witnesses
}

func (run *vc36Run) count(name string, n int) {
	if run.phase2 {
		name = "cont_" + name
	}
	run.c.Count(name, n)
}

func (run *vc36Run) known(b *vc36Block) bool {
	return b != nil && (b.idx < 0 || run.have[b.idx])
}

var vc36KeyAlphabet = []byte{0x00, 0x01, 0x10, 0x11, 0xab, 0xff}

func vc36Key(r *vcommon.Rand) []byte {
	if r.Chance(1, 8) {
		return r.Bytes(32)
	}
	n := r.Range(1, 6)
	k := make([]byte, n)
	for i := range k {
		k[i] = vcommon.Pick(r, vc36KeyAlphabet)
	}
	return k
}

func vc36Value(r *vcommon.Rand) []byte {
	switch r.Intn(4) {
	case 0:
		return r.Bytes(r.Range(33, 80))
	case 1:
		return r.Bytes(32)
	}
	return r.Bytes(r.Range(1, 31))
}

func vc36Voters(r *vcommon.Rand, n int) []types.GrandpaAuthoritiesRaw {
	out := make([]types.GrandpaAuthoritiesRaw, n)
	for i := range out {
		copy(out[i].Key[:], r.Bytes(32))
		out[i].ID = uint64(r.Range(1, 5))
	}
	return out
}

func vc36OpenBackend(backend string) (database.Database, error) {
	if backend == "pebble" {
		return database.NewPebble("vc36", true)
	}
	return newVC36MemDB(), nil
}

// vc36Init replicates Service.Initialise (minus the wasm runtime) on run.rec.
func (run *vc36Run) init(r *vcommon.Rand) error {
	p := run.plan
	gt := inmemory_trie.NewEmptyTrie()
	model := vcommon.NewOrdMap()
	for i := 0; i < p.GenesisKeys; i++ {
		k, v := vc36Key(r), vc36Value(r)
		if err := gt.Put(k, v); err != nil {
			return err
		}
		model.Put(k, v)
	}
	voters, err := types.NewGrandpaVotersFromAuthoritiesRaw(vc36Voters(r, p.GenesisAuth))
	if err != nil {
		return err
	}
	encVoters, err := types.EncodeGrandpaVoters(voters)
	if err != nil {
		return err
	}
	authKey := common.MustHexToBytes(genesis.GrandpaAuthoritiesKeyHex)
	authVal := append([]byte{1}, encVoters...)
	if err := gt.Put(authKey, authVal); err != nil {
		return err
	}
	model.Put(authKey, authVal)

	header := types.NewHeader(common.Hash{}, gt.MustHash(), common.Hash{}, 0, types.NewDigest())

	babeAuths := make([]types.AuthorityRaw, 2)
	for i := range babeAuths {
		copy(babeAuths[i].Key[:], r.Bytes(32))
		babeAuths[i].Weight = 1
	}
	run.cfg = &types.BabeConfiguration{
		SlotDuration: 6000, EpochLength: p.EpochLen, C1: 1, C2: 4,
		GenesisAuthorities: babeAuths, SecondarySlots: 1,
	}

	db := run.rec
	s := &Service{db: db, isMemDB: true, genesisBABEConfig: run.cfg, Telemetry: vc36NoTelemetry{}, closeCh: make(chan interface{})}

	// --- Service.Initialise from here on
	if err = gt.WriteDirty(database.NewTable(db, storagePrefix)); err != nil {
		return fmt.Errorf("failed to write genesis trie to database: %w", err)
	}
	s.Base = NewBaseState(db)
	if err = s.storeInitialValues(&genesis.Data{Name: "vc36", ID: "vc36", ChainType: "Local", ProtocolID: "vc36"}, gt); err != nil {
		return fmt.Errorf("failed to write genesis values to database: %w", err)
	}
	tries := NewTries()
	tries.SetTrie(gt)
	blockState, err := NewBlockStateFromGenesis(db, tries, header, s.Telemetry)
	if err != nil {
		return fmt.Errorf("failed to create block state from genesis: %w", err)
	}
	storageState, err := NewStorageState(db, blockState, tries)
	if err != nil {
		return err
	}
	epochState, err := NewEpochStateFromGenesis(db, blockState, run.cfg)
	if err != nil {
		return fmt.Errorf("failed to create epoch state: %w", err)
	}
	grandpaAuths, err := loadGrandpaAuthorities(gt)
	if err != nil {
		return fmt.Errorf("failed to load grandpa authorities: %w", err)
	}
	grandpaState, err := NewGrandpaStateFromGenesis(db, blockState, grandpaAuths, s.Telemetry)
	if err != nil {
		return fmt.Errorf("failed to create grandpa state: %w", err)
	}
	s.Storage, s.Block, s.Epoch, s.Grandpa, s.Slot = storageState, blockState, epochState, grandpaState, NewSlotState(db)
	// --- end of Initialise

	run.svc = s
	run.imp = digest.NewBlockImportHandler(epochState, grandpaState)
	run.initEnd = run.rec.n()

	henc, err := scale.Marshal(*header)
	if err != nil {
		return err
	}
	benc, _ := scale.Marshal(*types.NewBody([]types.Extrinsic{}))
	run.genesis = &vc36Block{idx: -1, number: 0, header: header, hash: header.Hash(), headerEnc: henc, bodyEnc: benc, state: model}
	run.byHash = map[common.Hash]*vc36Block{run.genesis.hash: run.genesis}
	run.blocks = make([]*vc36Block, len(p.Blocks))
	run.authBySet = map[uint64][]byte{}
	run.have = map[int]bool{}
	run.finHead = run.genesis
	run.quiescent("init")
	return nil
}

func (run *vc36Run) quiescent(after string) {
	// Reads of the running node are tolerant: if the live node cannot read its own head or set any more,
	// the restart on the prefix ending here (k = this point) will show it and is what decides.
	bs := run.svc.Block
	cur := uint64(0)
	if len(run.quies) > 0 {
		cur = run.quies[len(run.quies)-1].curSetID
	}
	if id, err := run.svc.Grandpa.GetCurrentSetID(); err != nil {
		run.count("live_read_error_current_set_id", 1)
	} else {
		cur = id
		if auths, err := run.svc.Grandpa.GetAuthorities(cur); err != nil {
			run.count("live_read_error_authorities", 1)
		} else if enc, err := types.EncodeGrandpaVoters(auths); err == nil {
			if _, seen := run.authBySet[cur]; !seen {
				run.authBySet[cur] = enc
			}
		}
	}
	round, setID, err := bs.GetHighestRoundAndSetID()
	head, err2 := bs.GetHighestFinalisedHeader()
	if err != nil || err2 != nil {
		run.count("live_read_error_finalised_head", 1)
	} else if round != run.finRound || setID != run.finSet || head.Hash() != run.finHead.hash {
		// the running node itself does not report what the script just finalised
		run.count("live_finalised_head_differs_from_script", 1)
	}
	run.quies = append(run.quies, vc36Quiescent{
		at: run.rec.n(), after: after, round: run.finRound, setID: run.finSet,
		headHash: run.finHead.hash, headNumber: run.finHead.number, curSetID: cur,
	})
}

func (run *vc36Run) parentOf(i int) *vc36Block {
	if run.plan.Blocks[i].Parent < 0 {
		return run.genesis
	}
	return run.blocks[run.plan.Blocks[i].Parent]
}

func vc36ConsensusDigest(engine types.ConsensusEngineID, vdt any) (types.ConsensusDigest, error) {
	enc, err := scale.Marshal(vdt)
	if err != nil {
		return types.ConsensusDigest{}, err
	}
	return types.ConsensusDigest{ConsensusEngineID: engine, Data: enc}, nil
}

// buildBlock draws the contents of block i (storage changes on the parent's state ts, digests, extrinsics) from
// the case PRNG and registers the block with the scenario.  It returns nil after setting run.liveErr.
func (run *vc36Run) buildBlock(i int, parent *vc36Block, ts *rtstorage.TrieState, r *vcommon.Rand) *vc36Block {
	c, s, bp := run.c, run.svc, run.plan.Blocks[i]
	number := parent.number + 1
	var dels [][]byte
	var puts [][2][]byte
	model := parent.state.Clone()
	for j := 0; j < bp.Dels && model.Len() > 1; j++ {
		k := vcommon.Pick(r, model.Keys())
		if len(k) > 8 && len(k) != 32 { // never the GRANDPA authorities key
			continue
		}
		k = append([]byte{}, k...)
		if err := ts.Delete(k); err != nil {
			run.liveErr = "live TrieState.Delete: " + err.Error()
			return nil
		}
		model.Delete(k)
		dels = append(dels, k)
	}
	for j := 0; j < bp.Puts; j++ {
		k, v := vc36Key(r), vc36Value(r)
		if err := ts.Put(k, v); err != nil {
			run.liveErr = "live TrieState.Put: " + err.Error()
			return nil
		}
		model.Put(k, v)
		puts = append(puts, [2][]byte{k, v})
	}
	root := ts.Trie().MustHash()
	if spec := vcommon.SpecRoot(model, 0); common.Hash(spec) == root {
		c.Count("block_state_root_equals_spec_root", 1)
	} else {
		c.Count("block_state_root_differs_from_spec_root", 1) // trie properties are C01..C06's business
	}

	dg := types.NewDigest()
	pre, err := types.NewBabeSecondaryPlainPreDigest(uint32(i+1), 1000+uint64(number)).ToPreRuntimeDigest()
	if err != nil {
		run.liveErr = "predigest: " + err.Error()
		return nil
	}
	_ = dg.Add(*pre)
	if bp.NextEpoch {
		auths := make([]types.AuthorityRaw, r.Range(1, 3))
		for j := range auths {
			copy(auths[j].Key[:], r.Bytes(32))
			auths[j].Weight = 1
		}
		ned := types.NextEpochData{Authorities: auths}
		copy(ned.Randomness[:], r.Bytes(32))
		v := types.NewBabeConsensusDigest()
		_ = v.SetValue(ned)
		cd, err := vc36ConsensusDigest(types.BabeEngineID, v)
		if err != nil {
			run.liveErr = "next epoch digest: " + err.Error()
			return nil
		}
		_ = dg.Add(cd)
	}
	if bp.NextConfig {
		ver := types.NewVersionedNextConfigData()
		_ = ver.SetValue(types.NextConfigDataV1{C1: uint64(r.Range(1, 3)), C2: 4, SecondarySlots: byte(r.Intn(3))})
		v := types.NewBabeConsensusDigest()
		_ = v.SetValue(ver)
		cd, err := vc36ConsensusDigest(types.BabeEngineID, v)
		if err != nil {
			run.liveErr = "next config digest: " + err.Error()
			return nil
		}
		_ = dg.Add(cd)
	}
	if bp.Sched != nil {
		v := types.NewGrandpaConsensusDigest()
		_ = v.SetValue(types.GrandpaScheduledChange{Auths: vc36Voters(r, bp.Sched.NAuth), Delay: bp.Sched.Delay})
		cd, err := vc36ConsensusDigest(types.GrandpaEngineID, v)
		if err != nil {
			run.liveErr = "scheduled change digest: " + err.Error()
			return nil
		}
		_ = dg.Add(cd)
	}
	if bp.Forced != nil {
		fin, err := s.Block.GetHighestFinalisedHeader()
		if err != nil {
			run.liveErr = "live GetHighestFinalisedHeader: " + err.Error()
			return nil
		}
		v := types.NewGrandpaConsensusDigest()
		_ = v.SetValue(types.GrandpaForcedChange{BestFinalizedBlock: uint32(fin.Number), Auths: vc36Voters(r, bp.Forced.NAuth), Delay: bp.Forced.Delay})
		cd, err := vc36ConsensusDigest(types.GrandpaEngineID, v)
		if err != nil {
			run.liveErr = "forced change digest: " + err.Error()
			return nil
		}
		_ = dg.Add(cd)
	}

	exts := make([]types.Extrinsic, bp.Exts)
	for j := range exts {
		exts[j] = r.Bytes(r.Range(1, 40))
	}
	body := types.NewBody(exts)
	var extRoot common.Hash
	copy(extRoot[:], r.Bytes(32))
	header := types.NewHeader(parent.hash, root, extRoot, number, dg)

	henc, err := scale.Marshal(*header)
	if err != nil {
		run.liveErr = "encode header: " + err.Error()
		return nil
	}
	benc, err := scale.Marshal(*body)
	if err != nil {
		run.liveErr = "encode body: " + err.Error()
		return nil
	}
	b := &vc36Block{idx: i, number: number, header: header, body: body, hash: header.Hash(), headerEnc: henc, bodyEnc: benc,
		state: model, dels: dels, puts: puts}
	run.blocks[i] = b
	run.byHash[b.hash] = b
	return b
}

// importBlock imports block i the way dot/core does.  The first time (run.blocks[i] == nil) the block is built on
// its parent's state from the case PRNG; a later import of the same block (the continuation of the scenario on a
// restarted node, where the unfinalised blocks of the first process are gone) replays the recorded block.
func (run *vc36Run) importBlock(i int, r *vcommon.Rand) {
	s, bp := run.svc, run.plan.Blocks[i]
	parent := run.parentOf(i)
	if !run.known(parent) {
		run.liveErr = fmt.Sprintf("plan error: block %d imported before its parent", i)
		return
	}

	ts, err := s.Storage.TrieState(&parent.header.StateRoot)
	if err != nil {
		run.liveErr = fmt.Sprintf("live TrieState(parent of %d): %v", i, err)
		return
	}
	b := run.blocks[i]
	if b != nil {
		// --- replay of an already built block
		for _, k := range b.dels {
			if err := ts.Delete(k); err != nil {
				run.liveErr = "live TrieState.Delete: " + err.Error()
				return
			}
		}
		for _, kv := range b.puts {
			if err := ts.Put(kv[0], kv[1]); err != nil {
				run.liveErr = "live TrieState.Put: " + err.Error()
				return
			}
		}
		if root := ts.Trie().MustHash(); root != b.header.StateRoot {
			run.liveErr = fmt.Sprintf("re-import of block %d: executing it on the parent state gives root %s, header says %s", i, root, b.header.StateRoot)
			return
		}
		if has, _ := s.Block.HasHeaderInDatabase(b.hash); has {
			// a crash inside an earlier finalisation left the header of this (not finalised) block behind;
			// dot/sync's blockImporter.importBlock would skip such a block (observed only)
			run.count("reimport_header_already_in_database", 1)
		}
		run.count("blocks_reimported", 1)
	} else {
		b = run.buildBlock(i, parent, ts, r)
		if b == nil {
			return
		}
	}
	header := b.header
	block := &types.Block{Header: *header, Body: *b.body}

	setBefore, _ := s.Grandpa.GetCurrentSetID()

	// --- dot/sync blockImporter.processBlockData: a header-less BlockData (receipt / message queue only) of the
	// parent arrives ahead of this block and goes straight to CompareAndSetBlockData (the parent may be finalised
	// by now); see zz_verif_c36_bdata_test.go
	run.deliverBlockData(parent, true)
	if run.liveErr != "" {
		return
	}

	// --- dot/core Service.handleBlock
	logBefore := run.rec.n()
	end := run.rec.span("store_trie")
	err = s.Storage.StoreTrie(ts, header)
	end()
	run.countStoreTrie(logBefore)
	if err != nil {
		run.liveErr = fmt.Sprintf("live StoreTrie(block %d): %v", i, err)
		return
	}
	if err = s.Block.AddBlock(block); err != nil {
		run.liveErr = fmt.Sprintf("live AddBlock(block %d): %v", i, err)
		return
	}
	end = run.rec.span("handle_digests")
	err = run.imp.HandleDigests(header)
	end()
	if err != nil {
		// the node fails the import here (block stays in the block tree); keep going like the next import would
		run.count("live_handle_digests_error", 1)
		run.count("live_handle_digests_error/"+vc36ErrClass(err), 1)
	} else {
		end = run.rec.span("apply_forced")
		err = s.Grandpa.ApplyForcedChanges(header)
		end()
		if err != nil {
			run.count("live_apply_forced_error", 1)
			run.count("live_apply_forced_error/"+vc36ErrClass(err), 1)
		}
	}
	// --- end of handleBlock (runtime / code substitution handling writes nothing here)
	run.have[i] = true
	// --- dot/sync blockImporter.processBlockData after handleBlock, block without a justification:
	// CompareAndSetBlockData(&blockData) = SetReceipt, SetMessageQueue (two separate top-level puts)
	run.deliverBlockData(b, false)
	if run.liveErr != "" {
		return
	}
	for j := range run.blocks {
		if j != i && run.have[j] && run.plan.Blocks[j].Parent == bp.Parent {
			run.count("fork_points_imported", 1) // a sibling of an already imported block
			break
		}
	}
	run.count("blocks_imported", 1)
	if setAfter, _ := s.Grandpa.GetCurrentSetID(); setAfter != setBefore {
		run.count("set_changes_forced_applied", 1)
	}
}

func (run *vc36Run) finalise(i int, syncStyle, deferHandler bool, r *vcommon.Rand) {
	s := run.svc
	b := run.blocks[i]
	if !run.known(b) {
		run.liveErr = fmt.Sprintf("plan error: finalise of block %d before its import", i)
		return
	}
	setID, err := s.Grandpa.GetCurrentSetID()
	if err != nil {
		run.liveErr = "live GetCurrentSetID: " + err.Error()
		return
	}
	if setID != run.roundSet {
		run.roundSet, run.round = setID, 0 // lib/grandpa: rounds restart with a new set
	}
	run.round++
	round := run.round

	end := run.rec.span("finalise")
	endJ := func() {}
	if !syncStyle {
		// --- lib/grandpa Service.finalise
		endJ = run.rec.span("votes_and_justification")
		err = s.Block.SetJustification(b.hash, r.Bytes(r.Range(8, 60)))
		if err == nil {
			err = s.Grandpa.SetPrevotes(round, setID, []types.GrandpaSignedVote{{Vote: types.GrandpaVote{Hash: b.hash, Number: uint32(b.number)}}})
		}
		if err == nil {
			err = s.Grandpa.SetPrecommits(round, setID, []types.GrandpaSignedVote{{Vote: types.GrandpaVote{Hash: b.hash, Number: uint32(b.number)}}})
		}
		endJ()
		if err != nil {
			end()
			run.liveErr = "live votes/justification: " + err.Error()
			return
		}
	}
	endF := run.rec.span("set_finalised_hash")
	err = s.Block.SetFinalisedHash(b.hash, round, setID)
	endF()
	if err != nil {
		end()
		run.liveErr = fmt.Sprintf("live SetFinalisedHash(block %d, round %d, set %d): %v", i, round, setID, err)
		return
	}
	if !syncStyle {
		err = s.Grandpa.SetLatestRound(round)
	} else {
		// --- dot/sync blockImporter.processBlockData
		err = s.Block.SetJustification(b.hash, r.Bytes(r.Range(8, 60)))
	}
	if err != nil {
		end()
		run.liveErr = "live post-finalise write: " + err.Error()
		return
	}
	end()
	run.count("finalisations", 1)
	run.finRound, run.finSet, run.finHead = round, setID, b
	if deferHandler {
		run.pendingHandler = append(run.pendingHandler, b)
		run.count("digest_handler_runs_deferred", 1)
		return
	}
	run.digestHandler(b)
}

func vc36ErrClass(err error) string {
	switch {
	case errors.Is(err, errUnfinalizedAncestor):
		return "unfinalized_ancestor"
	case errors.Is(err, errPendingScheduledChanges):
		return "pending_scheduled_changes"
	case errors.Is(err, errAlreadyHasForcedChange):
		return "already_has_forced_change"
	case errors.Is(err, errDuplicateHashes):
		return "duplicate_hashes"
	case errors.Is(err, database.ErrNotFound):
		return "not_found"
	}
	return "other"
}

// digestHandler is the body of dot/digest Handler.handleBlockFinalisation for one
// finalisation notification (errors are only logged there).
func (run *vc36Run) digestHandler(b *vc36Block) {
	s := run.svc
	setID, _ := s.Grandpa.GetCurrentSetID()
	endE := run.rec.span("finalize_epoch_data")
	if err := s.Epoch.FinalizeBABENextEpochData(b.header); err != nil {
		run.count("live_finalize_next_epoch_error", 1)
	}
	if err := s.Epoch.FinalizeBABENextConfigData(b.header); err != nil {
		run.count("live_finalize_next_config_error", 1)
	}
	endE()
	endS := run.rec.span("apply_scheduled")
	err := s.Grandpa.ApplyScheduledChanges(b.header)
	endS()
	if err != nil {
		run.count("live_apply_scheduled_error", 1)
		run.count("live_apply_scheduled_error/"+vc36ErrClass(err), 1)
	}
	if setAfter, _ := s.Grandpa.GetCurrentSetID(); setAfter != setID {
		run.count("set_changes_scheduled_applied", 1)
	}
}

// execute runs the whole plan; returns false when the live run itself failed
// (then nothing can be said about crash points).
func (run *vc36Run) execute(r *vcommon.Rand) bool {
	if err := run.init(r); err != nil {
		run.liveErr = "init: " + err.Error()
	}
	if run.liveErr != "" {
		return false
	}
	for si, st := range run.plan.Steps {
		pending := run.pendingHandler
		run.pendingHandler = nil
		switch st.Kind {
		case "import":
			run.importBlock(st.Block, r)
		case "finalise":
			run.finalise(st.Block, st.Sync, st.Defer, r)
		}
		if run.liveErr == "" {
			run.quiescent(fmt.Sprintf("step %d %s(%d)", si, st.Kind, st.Block))
		}
		for _, b := range pending {
			if run.liveErr == "" {
				run.digestHandler(b)
				run.quiescent(fmt.Sprintf("deferred digest handler of block %d after step %d", b.idx, si))
			}
		}
		if run.liveErr != "" {
			return false
		}
	}
	for _, b := range run.pendingHandler {
		run.digestHandler(b)
		run.quiescent(fmt.Sprintf("deferred digest handler of block %d at the end", b.idx))
	}
	return run.liveErr == ""
}
