//go:build verif

package state

// C36 fault-enumeration plumbing: an in-memory database.Database, a recording
// wrapper that logs every durable write in order, and the materialisation of a
// crash-truncated database from a prefix of that log.
//
// Unit of durability (the property's stated assumption): every top-level
// Put/Del is ONE write, every Batch.Flush is ONE atomic group; the store keeps
// the order.  database.Table / tableBatch (the real code) sit on top of this,
// so the keys seen here are the full, table-prefixed keys.

import (
	"bytes"
	"sort"
	"sync"

	"github.com/ChainSafe/gossamer/internal/database"
)

type vc36Op struct {
	del bool
	key []byte
	val []byte
}

// vc36Write is one durable unit: kind "put" / "del" (one op) or "batch" (an
// atomic group of ops, possibly mixing puts and deletes).
type vc36Write struct {
	kind string
	ops  []vc36Op
}

// ---------------------------------------------------------------------------
// plain in-memory store

type vc36MemDB struct {
	mu sync.RWMutex
	m  map[string][]byte
}

var _ database.Database = (*vc36MemDB)(nil)

func newVC36MemDB() *vc36MemDB { return &vc36MemDB{m: map[string][]byte{}} }

func (d *vc36MemDB) Path() string { return "vc36-mem" }

func (d *vc36MemDB) Get(key []byte) ([]byte, error) {
	d.mu.RLock()
	defer d.mu.RUnlock()
	v, ok := d.m[string(key)]
	if !ok {
		return nil, database.ErrNotFound
	}
	return append([]byte{}, v...), nil
}

func (d *vc36MemDB) Has(key []byte) (bool, error) {
	d.mu.RLock()
	defer d.mu.RUnlock()
	_, ok := d.m[string(key)]
	return ok, nil
}

func (d *vc36MemDB) Put(key, value []byte) error {
	d.mu.Lock()
	d.m[string(key)] = append([]byte{}, value...)
	d.mu.Unlock()
	return nil
}

func (d *vc36MemDB) Del(key []byte) error {
	d.mu.Lock()
	delete(d.m, string(key))
	d.mu.Unlock()
	return nil
}

func (d *vc36MemDB) Flush() error { return nil }
func (d *vc36MemDB) Close() error { return nil }

func (d *vc36MemDB) apply(ops []vc36Op) {
	d.mu.Lock()
	for _, o := range ops {
		if o.del {
			delete(d.m, string(o.key))
		} else {
			d.m[string(o.key)] = append([]byte{}, o.val...)
		}
	}
	d.mu.Unlock()
}

func (d *vc36MemDB) NewBatch() database.Batch { return &vc36MemBatch{db: d} }

type vc36MemBatch struct {
	db  *vc36MemDB
	ops []vc36Op
}

func (b *vc36MemBatch) Put(key, value []byte) error {
	b.ops = append(b.ops, vc36Op{key: append([]byte{}, key...), val: append([]byte{}, value...)})
	return nil
}

func (b *vc36MemBatch) Del(key []byte) error {
	b.ops = append(b.ops, vc36Op{del: true, key: append([]byte{}, key...)})
	return nil
}

func (b *vc36MemBatch) Flush() error {
	b.db.apply(b.ops)
	b.ops = nil
	return nil
}
func (b *vc36MemBatch) ValueSize() int { return len(b.ops) }
func (b *vc36MemBatch) Reset()         { b.ops = nil }
func (b *vc36MemBatch) Close() error   { return nil }

// iterator over a sorted snapshot, pebble conventions: unpositioned at
// creation, Next() from the unpositioned state moves to the first entry,
// Key() returns the full key.
type vc36MemIter struct {
	keys [][]byte
	vals [][]byte
	pos  int
}

func (d *vc36MemDB) iter(lower, upper []byte) *vc36MemIter {
	d.mu.RLock()
	defer d.mu.RUnlock()
	it := &vc36MemIter{pos: -1}
	for k := range d.m {
		kb := []byte(k)
		if lower != nil && bytes.Compare(kb, lower) < 0 {
			continue
		}
		if upper != nil && bytes.Compare(kb, upper) >= 0 {
			continue
		}
		it.keys = append(it.keys, kb)
	}
	sort.Slice(it.keys, func(i, j int) bool { return bytes.Compare(it.keys[i], it.keys[j]) < 0 })
	for _, k := range it.keys {
		it.vals = append(it.vals, append([]byte{}, d.m[string(k)]...))
	}
	return it
}

func vc36UpperBound(p []byte) []byte {
	end := append([]byte{}, p...)
	for i := len(end) - 1; i >= 0; i-- {
		end[i]++
		if end[i] != 0 {
			return end[:i+1]
		}
	}
	return nil
}

func (d *vc36MemDB) NewIterator() (database.Iterator, error) { return d.iter(nil, nil), nil }
func (d *vc36MemDB) NewPrefixIterator(prefix []byte) (database.Iterator, error) {
	return d.iter(append([]byte{}, prefix...), vc36UpperBound(prefix)), nil
}

func (it *vc36MemIter) Valid() bool { return it.pos >= 0 && it.pos < len(it.keys) }
func (it *vc36MemIter) Next() bool {
	if it.pos < len(it.keys) {
		it.pos++
	}
	return it.Valid()
}
func (it *vc36MemIter) First() bool { it.pos = 0; return it.Valid() }
func (it *vc36MemIter) SeekGE(key []byte) bool {
	it.pos = sort.Search(len(it.keys), func(i int) bool { return bytes.Compare(it.keys[i], key) >= 0 })
	return it.Valid()
}
func (it *vc36MemIter) Key() []byte {
	if !it.Valid() {
		return nil
	}
	return it.keys[it.pos]
}
func (it *vc36MemIter) Value() []byte {
	if !it.Valid() {
		return nil
	}
	return it.vals[it.pos]
}
func (it *vc36MemIter) Release()     {}
func (it *vc36MemIter) Close() error { return nil }

// ---------------------------------------------------------------------------
// recording wrapper (works over any database.Database, e.g. the map store or a
// real in-memory Pebble)

type vc36Range struct {
	name       string
	start, end int // log indexes: writes [start,end) were made inside the range
}

type vc36RecDB struct {
	inner database.Database

	mu         sync.Mutex
	log        []vc36Write
	ranges     []vc36Range
	dbFlushes  int
	emptyBatch int
}

var _ database.Database = (*vc36RecDB)(nil)

func newVC36RecDB(inner database.Database) *vc36RecDB { return &vc36RecDB{inner: inner} }

func (r *vc36RecDB) n() int {
	r.mu.Lock()
	defer r.mu.Unlock()
	return len(r.log)
}

// span opens a named range of the log; the returned func closes it.
func (r *vc36RecDB) span(name string) func() {
	start := r.n()
	return func() {
		end := r.n()
		r.mu.Lock()
		r.ranges = append(r.ranges, vc36Range{name: name, start: start, end: end})
		r.mu.Unlock()
	}
}

func (r *vc36RecDB) Path() string                            { return r.inner.Path() }
func (r *vc36RecDB) Get(key []byte) ([]byte, error)          { return r.inner.Get(key) }
func (r *vc36RecDB) Has(key []byte) (bool, error)            { return r.inner.Has(key) }
func (r *vc36RecDB) Close() error                            { return r.inner.Close() }
func (r *vc36RecDB) NewIterator() (database.Iterator, error) { return r.inner.NewIterator() }
func (r *vc36RecDB) NewPrefixIterator(p []byte) (database.Iterator, error) {
	return r.inner.NewPrefixIterator(p)
}

func (r *vc36RecDB) Put(key, value []byte) error {
	if err := r.inner.Put(key, value); err != nil {
		return err
	}
	r.mu.Lock()
	r.log = append(r.log, vc36Write{kind: "put", ops: []vc36Op{{key: append([]byte{}, key...), val: append([]byte{}, value...)}}})
	r.mu.Unlock()
	return nil
}

func (r *vc36RecDB) Del(key []byte) error {
	if err := r.inner.Del(key); err != nil {
		return err
	}
	r.mu.Lock()
	r.log = append(r.log, vc36Write{kind: "del", ops: []vc36Op{{del: true, key: append([]byte{}, key...)}}})
	r.mu.Unlock()
	return nil
}

// Flush of the database itself makes nothing newly visible (it only forces the
// memtable out); it is not a write of the log.
func (r *vc36RecDB) Flush() error {
	r.mu.Lock()
	r.dbFlushes++
	r.mu.Unlock()
	return r.inner.Flush()
}

func (r *vc36RecDB) NewBatch() database.Batch {
	return &vc36RecBatch{rec: r, inner: r.inner.NewBatch()}
}

type vc36RecBatch struct {
	rec   *vc36RecDB
	inner database.Batch
	ops   []vc36Op
}

func (b *vc36RecBatch) Put(key, value []byte) error {
	if err := b.inner.Put(key, value); err != nil {
		return err
	}
	b.ops = append(b.ops, vc36Op{key: append([]byte{}, key...), val: append([]byte{}, value...)})
	return nil
}

func (b *vc36RecBatch) Del(key []byte) error {
	if err := b.inner.Del(key); err != nil {
		return err
	}
	b.ops = append(b.ops, vc36Op{del: true, key: append([]byte{}, key...)})
	return nil
}

func (b *vc36RecBatch) Flush() error {
	if err := b.inner.Flush(); err != nil {
		return err
	}
	b.rec.mu.Lock()
	if len(b.ops) == 0 {
		b.rec.emptyBatch++
	} else {
		b.rec.log = append(b.rec.log, vc36Write{kind: "batch", ops: b.ops})
	}
	b.rec.mu.Unlock()
	b.ops = nil
	return nil
}
func (b *vc36RecBatch) ValueSize() int { return b.inner.ValueSize() }
func (b *vc36RecBatch) Reset()         { b.ops = nil; b.inner.Reset() }
func (b *vc36RecBatch) Close() error   { return b.inner.Close() }

// ---------------------------------------------------------------------------
// crash materialisation

// vc36ApplyWrite replays one logged write into db, keeping groups atomic.
func vc36ApplyWrite(db database.Database, w vc36Write) error {
	if md, ok := db.(*vc36MemDB); ok {
		md.apply(w.ops)
		return nil
	}
	if w.kind != "batch" {
		o := w.ops[0]
		if o.del {
			return db.Del(o.key)
		}
		return db.Put(o.key, o.val)
	}
	b := db.NewBatch()
	for _, o := range w.ops {
		var err error
		if o.del {
			err = b.Del(o.key)
		} else {
			err = b.Put(o.key, o.val)
		}
		if err != nil {
			return err
		}
	}
	if err := b.Flush(); err != nil {
		return err
	}
	return b.Close()
}

// clone returns an independent copy of a map store.
func (d *vc36MemDB) clone() *vc36MemDB {
	d.mu.RLock()
	defer d.mu.RUnlock()
	n := &vc36MemDB{m: make(map[string][]byte, len(d.m))}
	for k, v := range d.m {
		n.m[k] = v // values are never mutated in place (Put copies)
	}
	return n
}
