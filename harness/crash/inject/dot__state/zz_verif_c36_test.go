//go:build verif

package state

// C36 "chain state survives a crash at any write" — fault enumeration.
//
// For every scenario: record the ordered log of durable writes of the live
// run, then for EVERY prefix length k (from the last write of the genesis
// initialisation up to the whole log) build a database holding exactly the
// writes [0,k) and run the node's restart path on it (state.Service.Start).
// The oracle is the property text:
//   - start succeeds;
//   - the finalised head's header, body and state are readable (and are the
//     header/body/state of the block with that hash: bytes vs the scenario's
//     record, state vs a vcommon.OrdMap of that block);
//   - every finalised block below the head (down to genesis) has its header,
//     its body and its entry in the persistent number -> hash index, the head
//     has its index entry too;
//   - (set id, round) of the finalised head is not older than at the last
//     quiescent point (completed step) at or before k;
//   - s = GetCurrentSetID() has GetAuthorities(s) and GetSetIDChange(s).
//
// Second family (zz_verif_c36_cont_test.go): from the restart at k the scenario
// is continued on the restarted node, the continuation's writes are recorded
// and the databases [0,k)+cont[0,j) are restarted and judged the same way.

import (
	"bytes"
	"fmt"
	"sort"
	"strconv"
	"testing"

	"github.com/ChainSafe/gossamer/dot/types"
	"github.com/ChainSafe/gossamer/internal/database"
	"github.com/ChainSafe/gossamer/internal/log"
	"github.com/ChainSafe/gossamer/lib/common"
	"github.com/ChainSafe/gossamer/pkg/scale"
	inmemory_trie "github.com/ChainSafe/gossamer/pkg/trie/inmemory"
	"github.com/ChainSafe/gossamer/zz_verif/vcommon"
)

func vc36KeyString(k []byte) string {
	return strconv.QuoteToASCII(string(k))
}

func vc36DescribeWrite(w vc36Write) map[string]any {
	m := map[string]any{"kind": w.kind, "ops": len(w.ops)}
	var ks []string
	for i, o := range w.ops {
		if i >= 6 {
			ks = append(ks, "...")
			break
		}
		s := vc36KeyString(o.key)
		if o.del {
			s = "DEL " + s
		}
		ks = append(ks, s)
	}
	m["keys"] = ks
	return m
}

// spansAt returns the names of the spans that k falls strictly inside
// (start < k < end: some but not all writes of the operation are durable).
func (run *vc36Run) spansAt(k int) []string {
	var out []string
	for _, sp := range run.rec.ranges {
		if sp.start < k && k < sp.end {
			out = append(out, sp.name)
		}
	}
	sort.Strings(out)
	return out
}

func (run *vc36Run) baseline(k int) vc36Quiescent {
	q := run.quies[0]
	for _, x := range run.quies {
		if x.at <= k {
			q = x
		}
	}
	return q
}

func (run *vc36Run) witness(k int, extra map[string]any) map[string]any {
	lg := run.rec.log
	w := map[string]any{
		"scenario": run.plan, "crash_after_writes": k, "log_len": len(lg), "init_writes": run.initEnd,
		"inside_operations": run.spansAt(k), "last_quiescent": run.baseline(k).after,
	}
	if k > 0 && k <= len(lg) {
		w["last_durable_write"] = vc36DescribeWrite(lg[k-1])
	}
	if k < len(lg) {
		w["first_lost_write"] = vc36DescribeWrite(lg[k])
	}
	for a, b := range extra {
		w[a] = b
	}
	return w
}

// vc36Oracle is what ONE restart is judged against: the scenario (blocks and their models), the finality
// baseline, and per set id the authority list read by the node that wrote the database.
type vc36Oracle struct {
	run       *vc36Run
	prefix    string // violation class prefix: "" (crash), "no-crash/" (complete log), "continued/" (restart after recover-and-continue)
	where     string // "[scenario k=..]" for messages
	cnt       string // counter prefix ("" single crash, "pair_" second restart of a two-phase pair)
	base      vc36Quiescent
	authBySet map[uint64][]byte
	witness   func(extra map[string]any) map[string]any
}

// check runs the restart path (the real Service.Start) on db and decides; it reports whether the restart was clean
// (no violation recorded).
func (o *vc36Oracle) check(db database.Database) bool {
	run, c, base := o.run, o.run.c, o.base
	clean := true
	viol := func(class, msg string, extra map[string]any) {
		clean = false
		c.Violation(o.prefix+class, o.where+" "+msg, o.witness(extra))
	}

	// --- restart: the real Service.Start over the crash-truncated database
	rs := &Service{db: db, isMemDB: true, genesisBABEConfig: run.cfg, Telemetry: vc36NoTelemetry{}, closeCh: make(chan interface{})}
	c.Eval(1)
	if err := rs.Start(); err != nil {
		viol("restart-fails", "Service.Start: "+err.Error(), nil)
		return false
	}

	// --- finalised head: header
	c.Eval(1)
	round, setID, err := rs.Block.GetHighestRoundAndSetID()
	if err != nil {
		viol("head-unreadable", "GetHighestRoundAndSetID: "+err.Error(), nil)
		return false
	}
	headHash, err := rs.Block.GetHighestFinalisedHash()
	if err != nil {
		viol("head-unreadable", "GetHighestFinalisedHash: "+err.Error(), nil)
		return false
	}
	head, err := rs.Block.GetHighestFinalisedHeader()
	if err != nil {
		viol("header-unreadable", "GetHighestFinalisedHeader: "+err.Error(), map[string]any{"head": headHash.String()})
		return false
	}
	if rs.Block.lastFinalised != headHash || rs.Block.BestBlockHash() != headHash {
		viol("restart-head-mismatch", fmt.Sprintf("restarted block state starts from %s / best %s, the database's highest finalised block is %s",
			rs.Block.lastFinalised, rs.Block.BestBlockHash(), headHash), nil)
	}
	want := run.byHash[headHash]
	if want == nil {
		viol("head-unknown", "finalised head "+headHash.String()+" is not a block of the scenario", nil)
		return false
	}
	info := map[string]any{"head": headHash.String(), "head_number": want.number, "round": round, "set_id": setID}
	if henc, err := scale.Marshal(*head); err != nil || !bytes.Equal(henc, want.headerEnc) || head.Hash() != headHash {
		viol("header-differs", fmt.Sprintf("header of finalised head differs from the imported one (err=%v)", err), info)
	}

	// --- body
	c.Eval(1)
	if body, err := rs.Block.GetBlockBody(headHash); err != nil {
		viol("body-unreadable", "GetBlockBody(finalised head): "+err.Error(), info)
	} else if benc, err := scale.Marshal(*body); err != nil || !bytes.Equal(benc, want.bodyEnc) {
		viol("body-differs", fmt.Sprintf("body of finalised head differs from the imported one (err=%v)", err), info)
	}
	if blk, err := rs.Block.GetBlockByHash(headHash); err != nil || blk == nil {
		viol("block-unreadable", fmt.Sprintf("GetBlockByHash(finalised head): %v", err), info)
	}

	// --- state (Start already loaded the trie at head.StateRoot; read it back both ways)
	c.Eval(1)
	root := head.StateRoot
	tr, err := rs.Storage.LoadFromDB(root)
	if err != nil {
		viol("state-unreadable", "LoadFromDB(finalised state root): "+err.Error(), info)
	} else {
		entries := tr.(*inmemory_trie.InMemoryTrie).Entries()
		ks, vs := want.state.Entries()
		bad := ""
		if len(entries) != len(ks) {
			bad = fmt.Sprintf("state has %d entries, the block's state has %d", len(entries), len(ks))
		}
		for i, key := range ks {
			if bad != "" {
				break
			}
			if got, ok := entries[string(key)]; !ok || !bytes.Equal(got, vs[i]) {
				bad = fmt.Sprintf("state[%s] = %s, want %s", vcommon.Hex(key), vcommon.Hex(got), vcommon.Hex(vs[i]))
				break
			}
			got, err := rs.Storage.GetStorage(&root, key)
			if err != nil || !bytes.Equal(got, vs[i]) {
				bad = fmt.Sprintf("GetStorage(%s) = %s err=%v, want %s", vcommon.Hex(key), vcommon.Hex(got), err, vcommon.Hex(vs[i]))
				break
			}
			// the lazy single-key path; its correctness on intact databases is C04's subject
			// (it fails on inlined branch children even without any crash), so it is observed only
			got, err = inmemory_trie.GetFromDB(rs.Storage.db, root, key)
			if err != nil || !bytes.Equal(got, vs[i]) {
				c.Count(o.cnt+"state_getfromdb_mismatch_observed_only", 1)
			}
		}
		c.Count(o.cnt+"state_entries_compared", len(ks))
		if bad != "" {
			viol("state-differs", bad, info)
		}
	}

	// --- the finalised chain below the head: every block from the head down to genesis has its header, its body
	// and its entry in the persistent number -> hash index (what GetHashByNumber / GetBlockByNumber read for
	// numbers below the block-tree root).  The head's own index entry is read from the table directly, because
	// BlockState.GetHashByNumber answers the root's number from memory.
	c.Eval(1)
	for b := want; ; b = run.parentOf(b.idx) {
		binfo := map[string]any{"head": headHash.String(), "head_number": want.number, "block": b.hash.String(), "block_number": b.number}
		who := fmt.Sprintf("finalised block #%d (head is #%d)", b.number, want.number)
		cls := "chain-"
		if b == want {
			cls, who = "head-", "finalised head"
		}
		raw, err := rs.Block.db.Get(headerHashKey(uint64(b.number)))
		if err != nil {
			viol(cls+"number-index-missing", fmt.Sprintf("%s: no number->hash entry for %d: %v", who, b.number, err), binfo)
		} else if common.NewHash(raw) != b.hash {
			viol(cls+"number-index-differs", fmt.Sprintf("%s: number->hash entry for %d is %s", who, b.number, common.NewHash(raw)), binfo)
		}
		c.Count(o.cnt+"chain_blocks_checked", 1)
		if b != want {
			c.Count(o.cnt+"chain_blocks_below_head_checked", 1)
			if hdr, err := rs.Block.GetHeader(b.hash); err != nil {
				viol("chain-header-unreadable", fmt.Sprintf("%s: GetHeader: %v", who, err), binfo)
			} else if henc, err := scale.Marshal(*hdr); err != nil || !bytes.Equal(henc, b.headerEnc) {
				viol("chain-header-differs", fmt.Sprintf("%s: header differs from the imported one (err=%v)", who, err), binfo)
			}
			if body, err := rs.Block.GetBlockBody(b.hash); err != nil {
				viol("chain-body-unreadable", fmt.Sprintf("%s: GetBlockBody: %v", who, err), binfo)
			} else if benc, err := scale.Marshal(*body); err != nil || !bytes.Equal(benc, b.bodyEnc) {
				viol("chain-body-differs", fmt.Sprintf("%s: body differs from the imported one (err=%v)", who, err), binfo)
			}
			if h, err := rs.Block.GetHashByNumber(b.number); err != nil || h != b.hash {
				viol("chain-by-number-unreadable", fmt.Sprintf("%s: GetHashByNumber(%d) = %s, %v", who, b.number, h, err), binfo)
			} else if blk, err := rs.Block.GetBlockByNumber(b.number); err != nil || blk == nil || blk.Header.Hash() != b.hash {
				viol("chain-by-number-unreadable", fmt.Sprintf("%s: GetBlockByNumber(%d): %v", who, b.number, err), binfo)
			}
			if _, err := rs.Block.GetArrivalTime(b.hash); err != nil {
				c.Count(o.cnt+"chain_arrival_time_unreadable_observed_only", 1) // not stated by the property
			}
		}
		if b.idx < 0 {
			break
		}
	}

	// --- not older than before
	c.Eval(1)
	if setID < base.setID || (setID == base.setID && round < base.round) {
		viol("finality-regressed", fmt.Sprintf("restart sees finalised (round %d, set %d); before the crash (after %q) it was (round %d, set %d)",
			round, setID, base.after, base.round, base.setID), info)
	}
	if want.number < base.headNumber {
		c.Count(o.cnt+"restart_head_number_below_last_quiescent", 1) // not stated by the property; observed only
	}
	if headHash != base.headHash {
		c.Count(o.cnt+"restart_head_is_newer_than_last_quiescent", 1)
	}

	// --- current GRANDPA set
	c.Eval(1)
	cur, err := rs.Grandpa.GetCurrentSetID()
	if err != nil {
		viol("set-id-unreadable", "GetCurrentSetID: "+err.Error(), info)
		return false
	}
	info["current_set_id"] = cur
	auths, err := rs.Grandpa.GetAuthorities(cur)
	if err != nil {
		viol("authorities-missing", fmt.Sprintf("current set id %d has no authority list: %v", cur, err), info)
	} else if enc, err := types.EncodeGrandpaVoters(auths); err != nil {
		viol("authorities-missing", fmt.Sprintf("authority list of set %d not encodable: %v", cur, err), info)
	} else if live, ok := o.authBySet[cur]; !ok {
		viol("authorities-differ", fmt.Sprintf("current set id %d was never the running node's current set", cur), info)
	} else if !bytes.Equal(enc, live) {
		viol("authorities-differ", fmt.Sprintf("authority list of set %d differs from the one the running node used", cur), info)
	}
	if _, err := rs.Grandpa.GetSetIDChange(cur); err != nil {
		viol("activation-block-missing", fmt.Sprintf("current set id %d has no set-id-change block: %v", cur, err), info)
	}
	if cur < base.curSetID {
		c.Count(o.cnt+"restart_current_set_below_last_quiescent", 1)
	}
	// what lib/grandpa's NewService reads next (observed, not decided)
	if _, err := rs.Grandpa.GetLatestRound(); err != nil {
		c.Count(o.cnt+"restart_latest_round_unreadable", 1)
	}
	if _, err := rs.Block.GetFinalisedHeader(0, 0); err != nil {
		c.Count(o.cnt+"restart_finalised_0_0_unreadable", 1)
	}
	if _, err := rs.Epoch.GetCurrentEpoch(); err != nil {
		c.Count(o.cnt+"restart_current_epoch_unreadable", 1)
	}
	return clean
}

// checkCrashPoint restarts on db (= writes [0,k) of the first run) and decides.
func (run *vc36Run) checkCrashPoint(k int, db database.Database) bool {
	o := &vc36Oracle{
		run: run, where: fmt.Sprintf("[%s k=%d/%d]", run.plan.Name, k, len(run.rec.log)),
		base: run.baseline(k), authBySet: run.authBySet,
		witness: func(extra map[string]any) map[string]any { return run.witness(k, extra) },
	}
	if k == len(run.rec.log) {
		o.prefix = "no-crash/" // the complete log: not a crash effect
	}
	return o.check(db)
}

// materialise builds a database holding the writes [0,k) of the first run followed by extra.  memAtK, when given,
// already holds [0,k) in a map store and is cloned.
func (run *vc36Run) materialise(k int, memAtK *vc36MemDB, extra []vc36Write) (database.Database, error) {
	if memAtK != nil {
		db := memAtK.clone()
		for _, w := range extra {
			db.apply(w.ops)
		}
		return db, nil
	}
	pdb, err := database.NewPebble("vc36-crash", true)
	if err != nil {
		return nil, fmt.Errorf("cannot open in-memory pebble: %w", err)
	}
	for _, ws := range [][]vc36Write{run.rec.log[:k], extra} {
		for _, w := range ws {
			if err := vc36ApplyWrite(pdb, w); err != nil {
				_ = pdb.Close()
				return nil, fmt.Errorf("cannot materialise prefix: %w", err)
			}
		}
	}
	return pdb, nil
}

// enumerate restarts on every prefix of the log from the end of genesis
// initialisation to the complete log; for the crash points chosen by the pair
// budget it then runs the two-phase family (see zz_verif_c36_cont_test.go).
func (run *vc36Run) enumerate(thorough bool) {
	c, lg := run.c, run.rec.log
	if run.truncated {
		// the failing step left no quiescent point: enumerate up to the end of the log anyway, the baseline
		// stays that of the last completed step
		c.Count("scenarios_enumerated_after_live_failure", 1)
	}
	total := len(lg) - run.initEnd + 1
	c.Count("crash_points_total", total)
	restarted := 0
	pairs := run.newPairPlan(thorough)

	var memCur *vc36MemDB
	if run.plan.Backend != "pebble" {
		memCur = newVC36MemDB()
		for _, w := range lg[:run.initEnd] {
			memCur.apply(w.ops)
		}
	}
	for k := run.initEnd; k <= len(lg); k++ {
		if memCur != nil && k > run.initEnd {
			memCur.apply(lg[k-1].ops)
		}
		// the restart gets its own copy: anything it writes cannot leak into k+1
		db, err := run.materialise(k, memCur, nil)
		if err != nil {
			c.Inconclusive(err.Error())
			return
		}
		clean := run.checkCrashPoint(k, db)
		_ = db.Close()
		restarted++

		// classification of the crash point (evidence)
		c.Count("crash_points_restarted", 1)
		c.Count("crash_points_backend_"+run.plan.Backend, 1)
		sp := run.spansAt(k)
		if len(sp) == 0 {
			c.Count("crash_between_operations", 1)
		}
		for _, name := range sp {
			c.Count("crash_inside_"+name, 1)
		}
		vc36CountBlockDataCrashPoint(run, "", lg, k)
		kind, off := "end", 0
		if k < len(lg) {
			kind = lg[k].kind
			if cl := vc36WriteClass(lg[k]); cl != "" {
				kind = cl
			}
		}
		for _, r := range run.rec.ranges {
			if r.start < k && k < r.end && (off == 0 || k-r.start < off) {
				off = k - r.start
			}
		}
		c.Distinct(fmt.Sprintf("%s|%v|%d|%s", run.plan.shape(), sp, off, kind))

		// --- two-phase family: recover from k, continue, crash again at j, restart
		switch {
		case pairs == nil:
		case !pairs.wants(k):
			c.Count("crash_first_points_not_continued", 1)
		case !clean:
			c.Count("crash_first_points_not_continued_after_violation", 1) // the first restart is already refuted
			pairs.complete = false
		default:
			run.continueAndEnumerate(k, memCur, pairs, fmt.Sprintf("%v|%d|%s", sp, off, kind))
		}
	}
	if restarted != total {
		c.Inconclusive(fmt.Sprintf("scenario %s: only %d of %d crash points restarted", run.plan.Name, restarted, total))
	} else {
		c.Count("scenarios_exhaustively_enumerated", 1)
	}
	if pairs != nil && pairs.complete && pairs.allK && pairs.allJ {
		c.Count("scenarios_pairs_exhaustively_enumerated", 1)
	}
}

func vc36RunScenario(c *vcommon.Case, p *vc36Plan, thorough bool) {
	inner, err := vc36OpenBackend(p.Backend)
	if err != nil {
		c.Inconclusive("cannot open backend: " + err.Error())
		return
	}
	defer inner.Close()
	run := &vc36Run{plan: p, c: c, rec: newVC36RecDB(inner)}
	if !run.execute(c.R) {
		// A driving call (StoreTrie, AddBlock, SetFinalisedHash, ...) failed in the live run: the scenario is
		// not the one planned, so the case is inconclusive; the writes made so far are still a legitimate log
		// whose prefixes are enumerated below (up to the last completed step) when genesis init got through.
		c.Inconclusive(fmt.Sprintf("scenario %s: live run failed: %s", p.Name, run.liveErr))
		c.Count("scenarios_live_run_failed", 1)
		if run.svc == nil || len(run.quies) == 0 {
			return
		}
		run.truncated = true
	}
	lg := run.rec.log
	nb, nd, npt, bdel, bops := 0, 0, 0, 0, 0
	for _, w := range lg[run.initEnd:] {
		switch w.kind {
		case "put":
			npt++
		case "del":
			nd++
		case "batch":
			nb++
			bops += len(w.ops)
			for _, o := range w.ops {
				if o.del {
					bdel++
					break
				}
			}
		}
	}
	c.Count("scenarios", 1)
	c.Count("writes_put", npt)
	c.Count("writes_del", nd)
	c.Count("writes_batch", nb)
	c.Count("writes_batch_ops", bops)
	c.Count("writes_batch_with_delete", bdel)
	c.Count("writes_genesis_init_excluded", run.initEnd)
	c.Count("empty_batch_flushes", run.rec.emptyBatch)
	c.Count("grandpa_sets_seen", len(run.authBySet))

	run.enumerate(thorough)

	last := run.quies[len(run.quies)-1]
	c.Sample(map[string]any{
		"scenario": p.Name, "backend": p.Backend, "blocks": len(p.Blocks), "steps": len(p.Steps),
		"writes_total": len(lg), "writes_genesis_init": run.initEnd, "crash_points": len(lg) - run.initEnd + 1,
		"kinds": map[string]int{"put": npt, "del": nd, "batch": nb},
		"final": map[string]any{"finalised_number": last.headNumber, "round": last.round, "set_id": last.setID, "current_set_id": last.curSetID},
	})
}

func TestVerifC36(t *testing.T) {
	r := vcommon.Start(t, "C36")
	defer r.Finish()
	logger.Patch(log.SetLevel(log.Critical))

	r.Floor("crash_points_restarted", 1000)
	r.Floor("digest_handler_runs_deferred", 3)
	r.Floor("scenarios_exhaustively_enumerated", 6)
	r.Floor("crash_inside_apply_scheduled", 4)
	r.Floor("crash_inside_apply_forced", 4)
	r.Floor("crash_inside_set_finalised_hash", 30)
	r.Floor("crash_inside_finalize_epoch_data", 2)
	r.Floor("crash_inside_votes_and_justification", 6)
	r.Floor("crash_between_operations", 30)
	r.Floor("set_changes_scheduled_applied", 3)
	r.Floor("set_changes_forced_applied", 3)
	r.Floor("fork_points_imported", 3)
	r.Floor("writes_batch", 20)
	r.Floor("writes_put", 100)
	r.Floor("writes_batch_with_delete", 1)
	r.Floor("crash_points_backend_pebble", 50)
	// the finalised chain below the head
	r.Floor("chain_blocks_below_head_checked", 1000)
	// two-phase family (recover, continue, crash again)
	r.Floor("crash_pairs_restarted", 2000)
	r.Floor("scenarios_pairs_exhaustively_enumerated", 3)
	r.Floor("crash_first_points_continued_inside_set_finalised_hash", 100)
	r.Floor("pair_second_restart_after_complete_continuation", 200)
	r.Floor("pair_second_crash_inside_set_finalised_hash", 100)
	r.Floor("cont_reimport_header_already_in_database", 50) // a re-import met the header a half-done finalisation left behind
	r.Floor("cont_finalisations", 200)
	r.Floor("crash_pairs_backend_pebble", 10)
	// dot/sync's block data writes around an import (zz_verif_c36_bdata_test.go)
	r.Floor("store_trie_with_header_calls", 60)
	r.Floor("blockdata_calls", 60)
	r.Floor("blockdata_calls_late_headerless", 25)
	r.Floor("blockdata_late_writes_for_block_persisted_in_database", 8) // late receipt / message queue of a block finalised meanwhile
	r.Floor("blockdata_receipt_written", 40)
	r.Floor("blockdata_message_queue_written", 40)
	r.Floor("crash_first_lost_write_is_receipt", 40)
	r.Floor("crash_first_lost_write_is_message_queue", 40)
	r.Floor("crash_between_receipt_and_message_queue_of_a_block", 30)
	r.Floor("crash_inside_block_data", 15)
	r.Floor("crash_inside_block_data_late", 12)
	r.Floor("cont_blockdata_half_written_pair_completed", 30) // the re-delivery after such a crash wrote the missing half
	r.Floor("cont_blockdata_receipt_already_in_database_skipped", 500)
	r.Floor("cont_blockdata_late_writes_for_block_persisted_in_database", 200)
	r.Floor("pair_second_crash_first_lost_write_is_receipt", 40)
	r.Floor("pair_second_crash_first_lost_write_is_message_queue", 40)
	r.Floor("pair_second_crash_between_receipt_and_message_queue_of_a_block", 20)

	fixed := vc36FixedPlans()
	r.Fixed("fixed", len(fixed), func(c *vcommon.Case) { vc36RunScenario(c, fixed[c.Idx], r.Thorough()) })

	r.Cases("rand", r.Scale(30), func(c *vcommon.Case) {
		vc36RunScenario(c, vc36RandomPlan(c.R, r.Thorough(), c.Idx), r.Thorough())
	})
}
