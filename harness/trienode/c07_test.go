//go:build verif

package trienode

import (
	"bytes"
	"fmt"
	"io"
	"runtime"
	"runtime/debug"
	"strings"
	"testing"

	"github.com/ChainSafe/gossamer/internal/primitives/core/hash"
	"github.com/ChainSafe/gossamer/pkg/trie/node"
	"github.com/ChainSafe/gossamer/pkg/trie/triedb"
	"github.com/ChainSafe/gossamer/pkg/trie/triedb/codec"
	"github.com/ChainSafe/gossamer/pkg/trie/triedb/nibbles"
	"github.com/ChainSafe/gossamer/zz_verif/vcommon"
)

// ---------------------------------------------------------------------------
// abstract node: what a trie node IS, independent of both implementations

type aChild struct {
	Hash   []byte // 32-byte reference, or
	Inline *aNode // a node whose encoding is shorter than 32 bytes
}

type aNode struct {
	Branch   bool
	PK       []byte // partial key, one nibble per byte
	HasValue bool   // always true for leaves
	Hashed   bool   // the node stores BLAKE2b-256(Value) instead of Value (state version 1)
	Value    []byte
	Children [16]*aChild
}

func (a *aNode) bitmap() uint16 {
	var b uint16
	for i, c := range a.Children {
		if c != nil {
			b |= 1 << uint(i)
		}
	}
	return b
}

// specEncode is the encoding of the specification (vcommon primitives only).
func specEncode(a *aNode) []byte {
	var enc []byte
	switch {
	case !a.Branch && a.Hashed:
		enc = vcommon.SpecHeader(0x20, 5, len(a.PK))
	case !a.Branch:
		enc = vcommon.SpecHeader(0x40, 6, len(a.PK))
	case !a.HasValue:
		enc = vcommon.SpecHeader(0x80, 6, len(a.PK))
	case a.Hashed:
		enc = vcommon.SpecHeader(0x10, 4, len(a.PK))
	default:
		enc = vcommon.SpecHeader(0xC0, 6, len(a.PK))
	}
	enc = append(enc, vcommon.SpecPartial(a.PK)...)
	if a.Branch {
		bm := a.bitmap()
		enc = append(enc, byte(bm), byte(bm>>8))
	}
	if a.HasValue {
		if a.Hashed {
			h := vcommon.Blake256(a.Value)
			enc = append(enc, h[:]...)
		} else {
			enc = append(enc, vcommon.ScaleBytes(a.Value)...)
		}
	}
	if a.Branch {
		for _, c := range a.Children {
			switch {
			case c == nil:
			case c.Inline != nil:
				enc = append(enc, vcommon.ScaleBytes(specEncode(c.Inline))...)
			default:
				enc = append(enc, vcommon.ScaleBytes(c.Hash)...)
			}
		}
	}
	return enc
}

func pkClass(n int) string {
	switch {
	case n == 0:
		return "0"
	case n < 15:
		return "<15"
	case n < 31:
		return "<31"
	case n < 62:
		return "<62"
	case n <= 64:
		return fmt.Sprint(n)
	case n < 63+255:
		return "<318"
	case n <= 63+256:
		return fmt.Sprint(n)
	case n < 65534:
		return "<65534"
	}
	return fmt.Sprint(n)
}

func (a *aNode) signature() string {
	v := "none"
	if a.HasValue {
		v = fmt.Sprintf("inl%d", min(len(a.Value), 40))
		if a.Hashed {
			v = "hashed"
		}
	}
	inl := 0
	for _, c := range a.Children {
		if c != nil && c.Inline != nil {
			inl++
		}
	}
	return fmt.Sprintf("b%v|pk%s|odd%d|v%s|bm%04x|inl%d", a.Branch, pkClass(len(a.PK)), len(a.PK)%2, v, a.bitmap(), inl)
}

// ---------------------------------------------------------------------------
// real encoders

func toNode(a *aNode) *node.Node {
	n := &node.Node{PartialKey: append([]byte{}, a.PK...), Dirty: true}
	if a.HasValue {
		n.StorageValue = append([]byte{}, a.Value...)
		n.MustBeHashed = a.Hashed
	}
	if a.Branch {
		n.Children = make([]*node.Node, node.ChildrenCapacity)
		for i, c := range a.Children {
			switch {
			case c == nil:
			case c.Inline != nil:
				n.Children[i] = toNode(c.Inline)
			default:
				n.Children[i] = &node.Node{MerkleValue: append([]byte{}, c.Hash...)}
			}
		}
	}
	return n
}

// codecEncode encodes through the triedb encoders (NewEncodedLeaf /
// NewEncodedBranch), the partial key going through nibbles.Nibbles.Right()
// exactly as newEncodedNode does. junk adds a garbage half-byte / leading
// bytes that the offset must hide.
func codecEncode(a *aNode, junk byte) ([]byte, error) {
	packed := vcommon.SpecPartial(a.PK)
	var nb nibbles.Nibbles
	switch {
	case len(a.PK)%2 == 1:
		packed[0] |= junk << 4
		nb = nibbles.NewNibbles(packed, 1)
	case junk&1 == 1:
		nb = nibbles.NewNibbles(append([]byte{junk}, packed...), 2)
	default:
		nb = nibbles.NewNibbles(packed, 0)
	}
	var value codec.EncodedValue
	if a.HasValue {
		if a.Hashed {
			h := vcommon.Blake256(a.Value)
			value = codec.HashedValue[hash.H256]{Hash: hash.H256(h[:])}
		} else {
			value = codec.InlineValue(append([]byte{}, a.Value...))
		}
	}
	buf := bytes.NewBuffer(nil)
	if !a.Branch {
		err := triedb.NewEncodedLeaf(nb.Right(), nb.Len(), value, buf)
		return buf.Bytes(), err
	}
	var children [codec.ChildrenCapacity]triedb.ChildReference
	for i, c := range a.Children {
		switch {
		case c == nil:
		case c.Inline != nil:
			e, err := codecEncode(c.Inline, junk)
			if err != nil {
				return nil, err
			}
			children[i] = triedb.InlineChildReference(e)
		default:
			children[i] = triedb.HashChildReference[hash.H256]{Hash: hash.H256(c.Hash)}
		}
	}
	err := triedb.NewEncodedBranch(nb.Right(), nb.Len(), children, value, buf)
	return buf.Bytes(), err
}

// ---------------------------------------------------------------------------
// equivalence of a decoded node with the abstract node (strict, independent)

func diffNode(a *aNode, d *node.Node, path string) string {
	if d == nil {
		return path + ": decoded to the empty node"
	}
	isBranch := d.Kind() == node.Branch
	if isBranch != a.Branch {
		return fmt.Sprintf("%s: kind %s, want branch=%v", path, d.Kind(), a.Branch)
	}
	if !bytes.Equal(d.PartialKey, a.PK) {
		return fmt.Sprintf("%s: partial key of %d nibbles %s, want %d nibbles %s", path, len(d.PartialKey), short(d.PartialKey), len(a.PK), short(a.PK))
	}
	switch {
	case !a.HasValue:
		if d.StorageValue != nil || d.IsHashedValue {
			return fmt.Sprintf("%s: value %s hashed=%v, want no value", path, short(d.StorageValue), d.IsHashedValue)
		}
	case a.Hashed:
		h := vcommon.Blake256(a.Value)
		if !d.IsHashedValue || !bytes.Equal(d.StorageValue, h[:]) {
			return fmt.Sprintf("%s: value %s hashed=%v, want hashed value %s", path, short(d.StorageValue), d.IsHashedValue, short(h[:]))
		}
	default:
		if d.IsHashedValue || d.StorageValue == nil || !bytes.Equal(d.StorageValue, a.Value) {
			return fmt.Sprintf("%s: value %s hashed=%v, want inline value %s", path, short(d.StorageValue), d.IsHashedValue, short(a.Value))
		}
	}
	if !a.Branch {
		return ""
	}
	if len(d.Children) != 16 {
		return fmt.Sprintf("%s: %d children slots", path, len(d.Children))
	}
	for i, c := range a.Children {
		dc := d.Children[i]
		switch {
		case c == nil:
			if dc != nil {
				return fmt.Sprintf("%s: unexpected child %d", path, i)
			}
		case dc == nil:
			return fmt.Sprintf("%s: child %d missing", path, i)
		case c.Inline != nil:
			if s := diffNode(c.Inline, dc, fmt.Sprintf("%s/%x", path, i)); s != "" {
				return s
			}
		default:
			if !bytes.Equal(dc.MerkleValue, c.Hash) || dc.Children != nil || dc.StorageValue != nil {
				return fmt.Sprintf("%s: child %d reference %s, want hash %s", path, i, short(dc.MerkleValue), short(c.Hash))
			}
		}
	}
	return ""
}

func nibblesOf(n nibbles.Nibbles) []byte {
	out := make([]byte, n.Len())
	for i := range out {
		out[i] = n.At(uint(i))
	}
	return out
}

func isZero(b []byte) bool {
	for _, x := range b {
		if x != 0 {
			return false
		}
	}
	return true
}

func diffCodecValue(a *aNode, v codec.EncodedValue, path string) string {
	switch {
	case !a.HasValue:
		if v != nil {
			return fmt.Sprintf("%s: value %T, want none", path, v)
		}
	case a.Hashed:
		h := vcommon.Blake256(a.Value)
		hv, ok := v.(codec.HashedValue[hash.H256])
		if !ok || !bytes.Equal(hv.Hash.Bytes(), h[:]) {
			return fmt.Sprintf("%s: value %T %v, want hashed value %s", path, v, v, short(h[:]))
		}
	default:
		iv, ok := v.(codec.InlineValue)
		if !ok || !bytes.Equal(iv, a.Value) {
			return fmt.Sprintf("%s: value %T %v, want inline value %s", path, v, v, short(a.Value))
		}
	}
	return ""
}

// diffCodec compares codec.Decode's result; inline children stay raw bytes
// in this codec and are compared with wantInline (the bytes handed to the
// encoder), then decoded and compared recursively.
func diffCodec(a *aNode, d codec.EncodedNode, junk byte, path string) string {
	switch n := d.(type) {
	case codec.Leaf:
		if a.Branch {
			return path + ": decoded a leaf, want a branch"
		}
		if pk := nibblesOf(n.PartialKey); !bytes.Equal(pk, a.PK) {
			return fmt.Sprintf("%s: partial key of %d nibbles %s, want %d nibbles %s", path, len(pk), short(pk), len(a.PK), short(a.PK))
		}
		return diffCodecValue(a, n.Value, path)
	case codec.Branch:
		if !a.Branch {
			return path + ": decoded a branch, want a leaf"
		}
		if pk := nibblesOf(n.PartialKey); !bytes.Equal(pk, a.PK) {
			return fmt.Sprintf("%s: partial key of %d nibbles %s, want %d nibbles %s", path, len(pk), short(pk), len(a.PK), short(a.PK))
		}
		if s := diffCodecValue(a, n.Value, path); s != "" {
			return s
		}
		for i, c := range a.Children {
			dc := n.Children[i]
			switch {
			case c == nil:
				if dc != nil {
					return fmt.Sprintf("%s: unexpected child %d", path, i)
				}
			case dc == nil:
				return fmt.Sprintf("%s: child %d missing", path, i)
			case c.Inline != nil:
				raw, ok := dc.(codec.InlineNode)
				want, _ := codecEncode(c.Inline, junk)
				if !ok || !bytes.Equal(raw, want) {
					return fmt.Sprintf("%s: child %d is %T %v, want inline %s", path, i, dc, dc, short(want))
				}
				sub, err := codec.Decode[hash.H256](bytes.NewReader(raw))
				if err != nil {
					return fmt.Sprintf("%s: inline child %d does not decode: %v", path, i, err)
				}
				if s := diffCodec(c.Inline, sub, junk, fmt.Sprintf("%s/%x", path, i)); s != "" {
					return s
				}
			default:
				hn, ok := dc.(codec.HashedNode[hash.H256])
				if !ok || !bytes.Equal(hn.Hash.Bytes(), c.Hash) {
					return fmt.Sprintf("%s: child %d is %T %v, want hash %s", path, i, dc, dc, short(c.Hash))
				}
			}
		}
		return ""
	case codec.Empty:
		return path + ": decoded to the empty node"
	}
	return fmt.Sprintf("%s: decoded %T", path, d)
}

func short(b []byte) string {
	if len(b) <= 48 {
		return vcommon.Hex(b)
	}
	return fmt.Sprintf("%s..%s(%d bytes)", vcommon.Hex(b[:20]), vcommon.Hex(b[len(b)-8:])[2:], len(b))
}

// ---------------------------------------------------------------------------
// guarded decoder calls: panic capture + allocation budget

const (
	allocPerByte = 64
	allocSlack   = 64 << 10 // the partial-key buffer (u16 nibbles: <= 32 KiB + <= 64 KiB of nibbles) is legitimate
)

func allocBudget(n int) uint64 { return uint64(allocPerByte*n + allocSlack) }

type guarded struct {
	panicked any
	stack    string
	alloc    uint64
}

func guard(f func()) (g guarded) {
	var ms runtime.MemStats
	runtime.ReadMemStats(&ms)
	before := ms.TotalAlloc
	func() {
		defer func() {
			if p := recover(); p != nil {
				g.panicked = p
				st := string(debug.Stack())
				if i := strings.Index(st, "panic("); i > 0 {
					st = st[i:]
				}
				if len(st) > 2500 {
					st = st[:2500]
				}
				g.stack = st
			}
		}()
		f()
	}()
	runtime.ReadMemStats(&ms)
	g.alloc = ms.TotalAlloc - before
	return g
}

// oneByteReader hands out one byte per Read call: a legal io.Reader.
type oneByteReader struct{ r io.Reader }

func (o oneByteReader) Read(p []byte) (int, error) {
	if len(p) == 0 {
		return 0, nil
	}
	return o.r.Read(p[:1])
}

// decodeBoth runs both decoders on in under the monitors and returns what
// they produced. kind says which reader feeds node.Decode.
func decodeBoth(c *vcommon.Case, in []byte, origin string, readerKind int) (nd *node.Node, nerr error, cd codec.EncodedNode, cerr error, bad bool) {
	w := func() map[string]any {
		return map[string]any{"input": vcommon.Hex(in), "len": len(in), "origin": origin}
	}
	run := func(name string, f func()) {
		g := guard(f)
		c.Eval(2)
		if g.panicked != nil {
			ww := w()
			ww["stack"] = g.stack
			ww["decoder"] = name
			c.Violation("panic", fmt.Sprintf("%s panics on %s (%s): %v", name, short(in), origin, g.panicked), ww)
			bad = true
			return
		}
		if g.alloc > allocBudget(len(in)) {
			// confirm: the measurement includes whatever the runtime allocated meanwhile
			m := g.alloc
			for i := 0; i < 2 && m > allocBudget(len(in)); i++ {
				if g2 := guard(f); g2.alloc < m {
					m = g2.alloc
				}
			}
			if m > allocBudget(len(in)) {
				ww := w()
				ww["decoder"] = name
				ww["allocated"] = m
				ww["budget"] = allocBudget(len(in))
				c.Violation("alloc", fmt.Sprintf("%s allocates %d bytes for a %d-byte input %s (%s), budget %d", name, m, len(in), short(in), origin, allocBudget(len(in))), ww)
				bad = true
			}
			g.alloc = m
		}
		switch b := allocBudget(len(in)); {
		case g.alloc*2 > b:
			c.Count("alloc_above_50pct_of_budget", 1)
		case g.alloc*10 > b:
			c.Count("alloc_above_10pct_of_budget", 1)
		}
	}
	run("node.Decode", func() {
		var r io.Reader = bytes.NewReader(in)
		switch readerKind {
		case 1:
			r = bytes.NewBuffer(append([]byte{}, in...))
		case 2:
			r = oneByteReader{bytes.NewReader(in)}
		}
		nd, nerr = node.Decode(r)
	})
	run("codec.Decode", func() {
		var r io.Reader = bytes.NewReader(in)
		if readerKind == 1 {
			r = bytes.NewBuffer(append([]byte{}, in...))
		}
		cd, cerr = codec.Decode[hash.H256](r)
	})
	return
}

// merkleSig is a structural signature of a decoded node.Node; children are
// identified by their Merkle value (what a parent stores about them).
func merkleSig(n *node.Node) (string, bool) {
	if n == nil {
		return "empty", true
	}
	var sb strings.Builder
	fmt.Fprintf(&sb, "%s|%x|", n.Kind(), n.PartialKey)
	if n.StorageValue == nil {
		sb.WriteString("novalue")
	} else {
		fmt.Fprintf(&sb, "%v:%x", n.IsHashedValue, n.StorageValue)
	}
	reencodable := !n.IsHashedValue
	for i, ch := range n.Children {
		if ch == nil {
			continue
		}
		if hasHashedValue(ch) {
			reencodable = false
			fmt.Fprintf(&sb, "|%x=?", i)
			continue
		}
		mv, err := ch.CalculateMerkleValue()
		if err != nil {
			return "", false
		}
		fmt.Fprintf(&sb, "|%x=%x", i, mv)
	}
	return sb.String(), reencodable
}

func hasHashedValue(n *node.Node) bool {
	if n == nil {
		return false
	}
	if n.IsHashedValue {
		return true
	}
	for _, c := range n.Children {
		if hasHashedValue(c) {
			return true
		}
	}
	return false
}

func codecSig(d codec.EncodedNode) (sig string, zeroHash bool) {
	var sb strings.Builder
	val := func(v codec.EncodedValue) {
		switch x := v.(type) {
		case nil:
			sb.WriteString("|novalue")
		case codec.InlineValue:
			fmt.Fprintf(&sb, "|inline:%x", []byte(x))
		case codec.HashedValue[hash.H256]:
			if len(x.Hash.Bytes()) != 32 {
				zeroHash = true
			}
			fmt.Fprintf(&sb, "|hashed:%x", x.Hash.Bytes())
		default:
			fmt.Fprintf(&sb, "|%T", v)
		}
	}
	switch n := d.(type) {
	case codec.Empty:
		return "empty", false
	case codec.Leaf:
		fmt.Fprintf(&sb, "leaf|%x", nibblesOf(n.PartialKey))
		val(n.Value)
	case codec.Branch:
		fmt.Fprintf(&sb, "branch|%x", nibblesOf(n.PartialKey))
		val(n.Value)
		for i, c := range n.Children {
			switch x := c.(type) {
			case nil:
			case codec.InlineNode:
				fmt.Fprintf(&sb, "|%x=i:%x", i, []byte(x))
			case codec.HashedNode[hash.H256]:
				if len(x.Hash.Bytes()) != 32 {
					zeroHash = true
				}
				fmt.Fprintf(&sb, "|%x=h:%x", i, x.Hash.Bytes())
			}
		}
	default:
		fmt.Fprintf(&sb, "%T", d)
	}
	return sb.String(), zeroHash
}

func codecReencode(d codec.EncodedNode) ([]byte, error) {
	buf := bytes.NewBuffer(nil)
	switch n := d.(type) {
	case codec.Empty:
		return []byte{0}, nil
	case codec.Leaf:
		err := triedb.NewEncodedLeaf(n.PartialKey.Right(), n.PartialKey.Len(), n.Value, buf)
		return buf.Bytes(), err
	case codec.Branch:
		var children [codec.ChildrenCapacity]triedb.ChildReference
		for i, c := range n.Children {
			switch x := c.(type) {
			case codec.InlineNode:
				children[i] = triedb.InlineChildReference(x)
			case codec.HashedNode[hash.H256]:
				children[i] = triedb.HashChildReference[hash.H256]{Hash: x.Hash}
			}
		}
		err := triedb.NewEncodedBranch(n.PartialKey.Right(), n.PartialKey.Len(), children, n.Value, buf)
		return buf.Bytes(), err
	}
	return nil, fmt.Errorf("unexpected %T", d)
}

func headerClass(b byte) string {
	switch {
	case b == 0:
		return "empty"
	case b == 1:
		return "compact"
	case b < 0x10:
		return "reserved"
	case b < 0x20:
		return "branch-hashed"
	case b < 0x40:
		return "leaf-hashed"
	case b < 0x80:
		return "leaf"
	case b < 0xc0:
		return "branch"
	}
	return "branch-value"
}

func lenClass(n int) string {
	switch {
	case n <= 2:
		return fmt.Sprint(n)
	case n < 8:
		return "<8"
	case n < 34:
		return "<34"
	case n < 100:
		return "<100"
	case n < 600:
		return "<600"
	}
	return "big"
}

// probe is the robustness monitor for one hostile byte string.
func probe(c *vcommon.Case, in []byte, origin string, readerKind int) {
	c.Count("hostile_inputs", 1)
	nd, nerr, cd, cerr, bad := decodeBoth(c, in, origin, readerKind)
	if bad {
		return
	}
	no, co := "err", "err"
	if nerr == nil {
		no = "ok"
		c.Count("node_decode_ok", 1)
	} else {
		c.Count("node_decode_err", 1)
	}
	if cerr == nil {
		co = "ok"
		c.Count("codec_decode_ok", 1)
	} else {
		c.Count("codec_decode_err", 1)
	}
	if no != co {
		c.Count("decoders_disagree_on_acceptance", 1) // not stated by the property: observed only
	}
	if len(in) >= 2 {
		c.Distinct(fmt.Sprintf("hostile|%s|%s|%s|%s", no, co, headerClass(in[0]), lenClass(len(in))))
	}
	w := func() map[string]any {
		return map[string]any{"input": vcommon.Hex(in), "len": len(in), "origin": origin}
	}
	// every decoded node is a node: it must survive its own encode/decode
	if nerr == nil && nd != nil {
		before, reenc := merkleSig(nd)
		if !reenc {
			c.Count("node_reencode_skipped_hashed_value", 1) // convention: the raw value must be loaded first
		} else {
			g := guard(func() {
				buf := bytes.NewBuffer(nil)
				if err := nd.Encode(buf); err != nil {
					c.Count("node_reencode_error", 1)
					return
				}
				d2, err := node.Decode(bytes.NewReader(buf.Bytes()))
				c.Eval(1)
				c.Count("node_reencode_checked", 1)
				if err != nil {
					ww := w()
					ww["reencoded"] = vcommon.Hex(buf.Bytes())
					c.Violation("reencode", fmt.Sprintf("node.Decode accepts %s (%s) but rejects the re-encoding %s of the node it produced: %v", short(in), origin, short(buf.Bytes()), err), ww)
					return
				}
				after, _ := merkleSig(d2)
				if after != before {
					ww := w()
					ww["reencoded"] = vcommon.Hex(buf.Bytes())
					ww["first"], ww["second"] = before, after
					c.Violation("reencode", fmt.Sprintf("node decoded from %s (%s) does not survive encode/decode", short(in), origin), ww)
				}
			})
			if g.panicked != nil {
				ww := w()
				ww["stack"] = g.stack
				c.Violation("panic", fmt.Sprintf("re-encoding the node decoded from %s panics: %v", short(in), g.panicked), ww)
			}
		}
	}
	if cerr == nil && cd != nil {
		before, zero := codecSig(cd)
		if zero {
			c.Count("codec_zero_hash_ambiguous", 1) // H256("") stands for 32 zero bytes: not comparable
			return
		}
		g := guard(func() {
			enc, err := codecReencode(cd)
			if err != nil {
				c.Count("codec_reencode_error", 1)
				return
			}
			d2, err := codec.Decode[hash.H256](bytes.NewReader(enc))
			c.Eval(1)
			c.Count("codec_reencode_checked", 1)
			if err != nil {
				ww := w()
				ww["reencoded"] = vcommon.Hex(enc)
				c.Violation("reencode", fmt.Sprintf("codec.Decode accepts %s (%s) but rejects the re-encoding %s of the node it produced: %v", short(in), origin, short(enc), err), ww)
				return
			}
			after, _ := codecSig(d2)
			if after != before {
				ww := w()
				ww["reencoded"] = vcommon.Hex(enc)
				ww["first"], ww["second"] = before, after
				c.Violation("reencode", fmt.Sprintf("codec node decoded from %s (%s) does not survive encode/decode", short(in), origin), ww)
			}
		})
		if g.panicked != nil {
			ww := w()
			ww["stack"] = g.stack
			c.Violation("panic", fmt.Sprintf("re-encoding the codec node decoded from %s panics: %v", short(in), g.panicked), ww)
		}
	}
}

// ---------------------------------------------------------------------------
// round trip monitor for one abstract node

func roundTrip(c *vcommon.Case, a *aNode, junk byte) (encodings [][]byte) {
	spec := specEncode(a)
	c.Count("roundtrip_nodes", 1)
	c.Count("roundtrip_pk_"+pkClass(len(a.PK)), 1)
	if a.Hashed {
		c.Count("roundtrip_hashed_value", 1)
	}
	if a.Branch {
		if a.HasValue {
			c.Count("roundtrip_branch_with_value", 1)
		} else {
			c.Count("roundtrip_branch_without_value", 1)
		}
		for _, ch := range a.Children {
			if ch != nil && ch.Inline != nil {
				c.Count("roundtrip_inline_children", 1)
			} else if ch != nil {
				c.Count("roundtrip_hashed_children", 1)
			}
		}
	} else {
		c.Count("roundtrip_leaves", 1)
	}
	c.Distinct("rt|" + a.signature())
	w := func(enc []byte) map[string]any {
		return map[string]any{"node": a.signature(), "partial_key_nibbles": len(a.PK), "partial_key": short(a.PK), "value": short(a.Value),
			"value_hashed": a.Hashed, "encoding": short(enc), "encoding_len": len(enc), "spec_encoding": short(spec)}
	}

	// --- pkg/trie/node
	g := guard(func() {
		n := toNode(a)
		buf := bytes.NewBuffer(nil)
		if err := n.Encode(buf); err != nil {
			c.Violation("encode-error", fmt.Sprintf("node.Encode(%s): %v", a.signature(), err), w(nil))
			return
		}
		enc := append([]byte{}, buf.Bytes()...)
		encodings = append(encodings, enc)
		if bytes.Equal(enc, spec) {
			c.Count("node_encoding_equals_spec", 1)
		} else {
			c.Count("node_encoding_differs_from_spec", 1) // C01's subject; observed here, not judged
		}
		for kind := 0; kind < 2; kind++ {
			var r io.Reader = bytes.NewReader(enc)
			if kind == 1 {
				r = bytes.NewBuffer(append([]byte{}, enc...))
			}
			d, err := node.Decode(r)
			c.Eval(1)
			if err != nil {
				c.Violation("roundtrip", fmt.Sprintf("node.Decode(node.Encode(%s)) fails: %v", a.signature(), err), w(enc))
				return
			}
			if s := diffNode(a, d, "node"); s != "" {
				c.Violation("roundtrip", fmt.Sprintf("node.Decode(node.Encode(%s)) is not equivalent: %s", a.signature(), s), w(enc))
				return
			}
		}
	})
	if g.panicked != nil {
		ww := w(nil)
		ww["stack"] = g.stack
		c.Violation("panic", fmt.Sprintf("node encode/decode of %s panics: %v", a.signature(), g.panicked), ww)
	}

	// --- pkg/trie/triedb (+codec)
	g = guard(func() {
		enc, err := codecEncode(a, junk)
		if err != nil {
			c.Violation("encode-error", fmt.Sprintf("triedb encoder (%s): %v", a.signature(), err), w(nil))
			return
		}
		enc = append([]byte{}, enc...)
		encodings = append(encodings, enc)
		if bytes.Equal(enc, spec) {
			c.Count("codec_encoding_equals_spec", 1)
		} else {
			c.Count("codec_encoding_differs_from_spec", 1)
		}
		d, err := codec.Decode[hash.H256](bytes.NewReader(enc))
		c.Eval(1)
		if err != nil {
			c.Violation("roundtrip", fmt.Sprintf("codec.Decode(triedb encoding of %s) fails: %v", a.signature(), err), w(enc))
			return
		}
		if s := diffCodec(a, d, junk, "codec"); s != "" {
			c.Violation("roundtrip", fmt.Sprintf("codec.Decode(triedb encoding of %s) is not equivalent: %s", a.signature(), s), w(enc))
		}
	})
	if g.panicked != nil {
		ww := w(nil)
		ww["stack"] = g.stack
		c.Violation("panic", fmt.Sprintf("triedb encode / codec decode of %s panics: %v", a.signature(), g.panicked), ww)
	}
	c.Sample(map[string]any{"node": a.signature(), "encoding": short(spec), "encoding_len": len(spec)})
	return encodings
}

// ---------------------------------------------------------------------------
// generators

var pkLengths = []int{0, 1, 2, 3, 14, 15, 16, 30, 31, 32, 33, 61, 62, 63, 64, 65, 126, 127, 128, 63 + 254, 63 + 255, 63 + 256, 63 + 257,
	63 + 509, 63 + 510, 63 + 511, 1000, 4096, 65534, 65535}

func randNibbles(r *vcommon.Rand, n int) []byte {
	b := r.Bytes(n)
	for i := range b {
		b[i] &= 0x0f
	}
	return b
}

func genValueBytes(r *vcommon.Rand) []byte {
	switch r.Intn(8) {
	case 0:
		return []byte{}
	case 1:
		return r.Bytes(vcommon.Pick(r, []int{1, 31, 32, 33, 63, 64, 65}))
	case 2:
		return r.Bytes(r.Range(16383, 16385)) // compact mode boundary 2^14
	default:
		return r.Bytes(r.Range(0, 80))
	}
}

func genInlineChild(r *vcommon.Rand, depth int) *aNode {
	a := &aNode{PK: randNibbles(r, r.Range(0, 5)), HasValue: true, Value: r.Bytes(r.Range(0, 6))}
	if depth < 2 && r.Chance(1, 4) {
		a.Branch = true
		a.HasValue = r.Bool()
		a.PK = randNibbles(r, r.Range(0, 2))
		a.Value = r.Bytes(r.Range(0, 2))
		a.Children[r.Intn(16)] = &aChild{Inline: genInlineChild(r, depth+1)}
	}
	if !a.HasValue {
		a.Value = nil
	}
	return a
}

func genNode(r *vcommon.Rand, pkLen int) *aNode {
	a := &aNode{PK: randNibbles(r, pkLen)}
	a.Branch = r.Bool()
	switch {
	case !a.Branch:
		a.HasValue = true
	default:
		a.HasValue = r.Chance(2, 3)
	}
	if a.HasValue {
		a.Value = genValueBytes(r)
		if r.Chance(1, 3) {
			a.Hashed = true
			a.Value = r.Bytes(r.Range(33, 120))
		}
	}
	if a.Branch {
		var bm uint16
		switch r.Intn(6) {
		case 0:
			bm = 1 << uint(r.Intn(16))
		case 1:
			bm = 1<<uint(r.Intn(16)) | 1<<uint(r.Intn(16))
		case 2:
			bm = 0xffff
		case 3:
			bm = 0x8001
		default:
			bm = uint16(r.Uint64())
		}
		if bm == 0 {
			bm = 0x0100
		}
		for i := 0; i < 16; i++ {
			if bm>>uint(i)&1 == 0 {
				continue
			}
			if r.Chance(1, 3) {
				in := genInlineChild(r, 0)
				if len(specEncode(in)) < 32 {
					a.Children[i] = &aChild{Inline: in}
					continue
				}
			}
			a.Children[i] = &aChild{Hash: r.Bytes(32)}
		}
	}
	return a
}

func compact(n uint64) []byte { return vcommon.CompactLen(n) }

func cat(parts ...[]byte) []byte {
	var out []byte
	for _, p := range parts {
		out = append(out, p...)
	}
	return out
}

// tail grammar for a header byte ------------------------------------------------

func lengthContinuations() [][]byte {
	ff := func(n int) []byte { return bytes.Repeat([]byte{0xff}, n) }
	return [][]byte{
		{}, {0x00}, {0x01}, {0x05}, {0xfe}, {0xff}, {0xff, 0x00}, {0xff, 0x01}, {0xff, 0xff, 0x05},
		cat(ff(255), []byte{0x00}), cat(ff(256), []byte{0x00}), cat(ff(256), []byte{0xb0}), cat(ff(256), []byte{0xc0}), cat(ff(256), []byte{0xc1}),
		cat(ff(256), []byte{0xfe}), ff(257), ff(258), ff(600),
	}
}

func valueFragments(r *vcommon.Rand) [][]byte {
	return [][]byte{
		{}, {0x00}, {0x04}, {0x04, 0xaa}, cat(compact(31), r.Bytes(31)), cat(compact(32), r.Bytes(32)), cat(compact(33), r.Bytes(33)),
		cat(compact(32), r.Bytes(31)), cat(compact(64), r.Bytes(10)),
		{0x01}, {0x01, 0x00}, {0x05, 0x00, 0xaa}, {0x02}, {0x02, 0x00, 0x00}, {0x06, 0x00, 0x00, 0x00, 0xaa}, {0x03}, {0x03, 0x00, 0x00, 0x00, 0x40},
		cat(compact(1<<14), r.Bytes(8)), cat(compact(1<<18), r.Bytes(8)), cat(compact(1<<24), r.Bytes(8)), cat(compact(1<<28), r.Bytes(3)),
		cat(compact(1<<30-1), r.Bytes(3)), {0x03, 0x00, 0x00, 0x00, 0x40, 0xaa}, {0x03, 0xff, 0xff, 0xff, 0x7f},
		{0x07, 0x00, 0x00, 0x00, 0x00, 0x01}, {0x0b, 1, 2, 3, 4, 5, 6}, {0x13, 1, 2, 3, 4, 5, 6, 7, 8}, {0xff}, cat([]byte{0xff}, r.Bytes(70)),
		r.Bytes(32), r.Bytes(31), r.Bytes(33),
	}
}

func childFragments(r *vcommon.Rand) [][]byte {
	inl := func(b ...byte) []byte { return vcommon.ScaleBytes(b) }
	nestedEmpty := []byte{0x80, 0x01, 0x00, 0x04, 0x00}             // branch whose inlined child is the empty node
	nested2 := cat([]byte{0x80, 0x02, 0x00}, inl(nestedEmpty...))   // ... one level deeper
	nested3 := cat([]byte{0xc0, 0x00, 0x80, 0x00}, inl(nested2...)) // branch+value, child at index 15
	return [][]byte{
		{}, {0x00}, inl(0x00), inl(0x01), inl(0x02), inl(0x40), inl(0x41, 0x0a, 0x00), inl(0x41, 0x0a, 0x04, 0xbb), inl(0x41, 0x0a), inl(0x7f), inl(0x80),
		inl(0x80, 0x00, 0x00), inl(0x80, 0x01), inl(0xc0, 0x00, 0x00), inl(0x20), inl(0x10, 0x01, 0x00), inl(nestedEmpty...), inl(nested2...), inl(nested3...),
		inl(r.Bytes(31)...), vcommon.ScaleBytes(r.Bytes(32)), vcommon.ScaleBytes(make([]byte, 32)), vcommon.ScaleBytes(r.Bytes(33)), vcommon.ScaleBytes(r.Bytes(64)),
		vcommon.ScaleBytes(r.Bytes(255)), cat(compact(32), r.Bytes(31)), cat(compact(1<<20), r.Bytes(5)), cat(compact(1<<28), r.Bytes(5)),
		{0x03, 0xff, 0xff, 0xff, 0xff, 0x00}, {0x01}, {0xff},
	}
}

func bitmapFragments() [][]byte {
	return [][]byte{{}, {0x00}, {0x01}, {0x00, 0x00}, {0x01, 0x00}, {0x03, 0x00}, {0x00, 0x80}, {0x01, 0x80}, {0xff, 0xff}, {0x10, 0x01}}
}

// craftedFor returns hostile inputs that start with header byte h.
func craftedFor(r *vcommon.Rand, h byte, n int) [][]byte {
	var out [][]byte
	class := headerClass(h)
	var lenBits uint
	switch class {
	case "leaf", "branch", "branch-value":
		lenBits = 6
	case "leaf-hashed":
		lenBits = 5
	case "branch-hashed":
		lenBits = 4
	}
	mask := byte(1<<lenBits - 1)
	conts := [][]byte{{}}
	saturated := lenBits > 0 && h&mask == mask
	if saturated {
		conts = lengthContinuations()
	}
	vals, kids, bms := valueFragments(r), childFragments(r), bitmapFragments()
	for i := 0; i < n; i++ {
		cont := vcommon.Pick(r, conts)
		// partial key length implied by header + continuation
		L := int(h & mask)
		if saturated {
			for _, b := range cont {
				L += int(b)
			}
		}
		if L > 70000 {
			L = 70000
		}
		need := (L + 1) / 2
		var key []byte
		switch r.Intn(6) {
		case 0:
			key = r.Bytes(max(need-1, 0)) // one byte short
		case 1:
			key = nil
		default:
			key = r.Bytes(need)
		}
		in := cat([]byte{h}, cont, key)
		isBranch := strings.HasPrefix(class, "branch")
		var bm []byte
		if isBranch {
			bm = vcommon.Pick(r, bms)
			in = append(in, bm...)
		}
		switch class {
		case "leaf", "branch-value":
			in = append(in, vcommon.Pick(r, vals)...)
		case "leaf-hashed", "branch-hashed":
			in = append(in, r.Bytes(vcommon.Pick(r, []int{0, 1, 31, 32, 32, 32, 33}))...)
		default:
			if r.Chance(1, 4) {
				in = append(in, vcommon.Pick(r, vals)...)
			}
		}
		if isBranch && len(bm) == 2 {
			cnt := 0
			for b := uint16(bm[0]) | uint16(bm[1])<<8; b != 0; b &= b - 1 {
				cnt++
			}
			if r.Chance(1, 5) {
				cnt-- // one child short
			}
			for j := 0; j < cnt; j++ {
				in = append(in, vcommon.Pick(r, kids)...)
			}
		} else if r.Chance(1, 3) {
			in = append(in, vcommon.Pick(r, kids)...)
		}
		if r.Chance(1, 10) {
			in = append(in, r.Bytes(r.Range(1, 5))...) // trailing garbage
		}
		out = append(out, in)
	}
	return out
}

// the fixed regression corpus of hostile inputs: minimal witnesses first
func hostileCorpus() [][]byte {
	ff := func(n int) []byte { return bytes.Repeat([]byte{0xff}, n) }
	return [][]byte{
		{0x01},                               // compact-encoding variant: both decoders panicked
		{0x01, 0x00, 0x00},                   //
		{0x80, 0x01, 0x00, 0x04, 0x00},       // branch with an inlined EMPTY child: node.Decode nil dereference
		{0xc0, 0x01, 0x00, 0x00, 0x04, 0x00}, // same under a branch with value
		{0x80, 0x01, 0x00, 0x04, 0x01},       // inlined child with the compact-variant header
		{0x80, 0x01, 0x00, 0x14, 0x80, 0x01, 0x00, 0x04, 0x00}, // nested
		{0x40, 0x03, 0xff, 0xff, 0xff, 0xff},                   // leaf value declaring 2^32-1 bytes
		{0x40, 0x02, 0x00, 0x00, 0x40},                         // leaf value declaring 2^28 bytes
		{0x40, 0xfe, 0xff, 0xff, 0xff, 0xaa},                   // 2^30-1
		{0x80, 0x01, 0x00, 0x02, 0x00, 0x00, 0x40},             // child reference declaring 2^28 bytes
		{0xc0, 0x00, 0x00, 0x02, 0x00, 0x00, 0x40},             // branch value declaring 2^28 bytes
		{0x40, 0x07, 0, 0, 0, 0, 1},                            // length 2^32 (big-integer compact mode)
		{0x00}, {}, {0x40}, {0x41}, {0x7f}, {0x7f, 0xff}, {0x80}, {0x80, 0x00}, {0x80, 0x01}, {0x20}, {0x10}, {0x1f}, {0x3f},
		cat([]byte{0x7f}, ff(256), []byte{0xc0}),                            // declares 65535 nibbles, no key bytes
		cat([]byte{0x7f}, ff(256), []byte{0xc1}),                            // 65536: overflow
		cat([]byte{0x7f}, ff(257)),                                          //
		cat([]byte{0x3f}, ff(256), []byte{0xe0}),                            // leaf-hashed 31+65504
		cat([]byte{0x1f}, ff(256), []byte{0xf0}),                            // branch-hashed 15+65520
		cat([]byte{0x1f}, ff(256), []byte{0xf1}),                            // overflow by one
		cat([]byte{0x80, 0xff, 0xff}, bytes.Repeat([]byte{0x04, 0x00}, 16)), // 16 inlined empty children
		cat([]byte{0x80, 0x01, 0x00, 0x80}, make([]byte, 32)),               // all-zero child hash
		cat([]byte{0x20}, make([]byte, 32)),                                 // all-zero hashed value
		cat([]byte{0x80, 0x01, 0x00, 0x84}, bytes.Repeat([]byte{7}, 33)),    // 33-byte child reference
		cat([]byte{0xba}, bytes.Repeat([]byte{0x11}, 29), []byte{0x00}),     // branch, 58 nibbles, bitmap cut after one byte
		cat([]byte{0x80, 0x01, 0x00}, vcommon.ScaleBytes(cat([]byte{0xba}, bytes.Repeat([]byte{0x11}, 29), []byte{0x00}))), // ... as an inlined child (31 bytes)
	}
}

// ---------------------------------------------------------------------------

func TestVerifC07(t *testing.T) {
	r := vcommon.Start(t, "C07")
	defer r.Finish()
	if err := vcommon.SpecSelfCheck(); err != nil {
		r.Cases("selfcheck", 1, func(c *vcommon.Case) { c.Inconclusive("reference model self-check failed: " + err.Error()) })
		return
	}
	r.Floor("roundtrip_nodes", 1000)
	r.Floor("roundtrip_leaves", 300)
	r.Floor("roundtrip_branch_with_value", 150)
	r.Floor("roundtrip_branch_without_value", 100)
	r.Floor("roundtrip_hashed_value", 200)
	r.Floor("roundtrip_inline_children", 300)
	r.Floor("roundtrip_hashed_children", 1000)
	for _, n := range []int{0, 62, 63, 64, 63 + 254, 63 + 255, 63 + 256, 65534, 65535} {
		r.Floor("roundtrip_pk_"+pkClass(n), 8)
	}
	r.Floor("hostile_inputs", 100000)
	r.Floor("hostile_1_and_2_byte_strings", 65792)
	r.Floor("hostile_header_bytes_crafted", 256)
	r.Floor("hostile_truncations", 5000)
	r.Floor("hostile_bitflips", 5000)
	r.Floor("node_decode_ok", 2000)
	r.Floor("codec_decode_ok", 2000)
	r.Floor("node_reencode_checked", 1000)
	r.Floor("codec_reencode_checked", 1000)

	// --- A. round trip -----------------------------------------------------
	// fixed: every partial-key length class x every node kind
	type fixedRT struct {
		pk   int
		kind int
	}
	var frt []fixedRT
	for _, l := range pkLengths {
		for k := 0; k < 5; k++ {
			frt = append(frt, fixedRT{l, k})
		}
	}
	r.Fixed("rt-fixed", len(frt), func(c *vcommon.Case) {
		f := frt[c.Idx]
		a := &aNode{PK: randNibbles(c.R, f.pk)}
		switch f.kind {
		case 0: // leaf
			a.HasValue, a.Value = true, c.R.Bytes(c.R.Range(0, 40))
		case 1: // leaf, hashed value
			a.HasValue, a.Hashed, a.Value = true, true, c.R.Bytes(40)
		case 2: // branch without value
			a.Branch = true
		case 3: // branch with value
			a.Branch, a.HasValue, a.Value = true, true, c.R.Bytes(c.R.Range(0, 33))
		case 4: // branch with hashed value
			a.Branch, a.HasValue, a.Hashed, a.Value = true, true, true, c.R.Bytes(50)
		}
		if a.Branch {
			a.Children[c.R.Intn(16)] = &aChild{Hash: c.R.Bytes(32)}
			a.Children[c.R.Intn(16)] = &aChild{Inline: &aNode{PK: []byte{0xa}, HasValue: true, Value: []byte{1, 2}}}
		}
		roundTrip(c, a, byte(c.R.Intn(16)))
	})
	r.Cases("rt", r.Scale(1500), func(c *vcommon.Case) {
		var l int
		switch c.R.Intn(4) {
		case 0:
			l = vcommon.Pick(c.R, pkLengths)
		case 1:
			l = c.R.Range(0, 70)
		case 2:
			l = 63 + 255*c.R.Range(0, 3) + c.R.Range(-2, 2)
		default:
			l = c.R.Range(0, 700)
		}
		if c.R.Chance(1, 200) {
			l = c.R.Range(60000, 65535)
		}
		roundTrip(c, genNode(c.R, max(l, 0)), byte(c.R.Intn(16)))
	})

	// --- B. hostile input --------------------------------------------------
	corpus := hostileCorpus()
	r.Fixed("hostile-corpus", len(corpus), func(c *vcommon.Case) {
		for k := 0; k < 3; k++ {
			probe(c, corpus[c.Idx], "corpus", k)
		}
	})
	// exhaustive: all strings of length 1 and 2 (one case per first byte)
	r.Fixed("bytes12", 256, func(c *vcommon.Case) {
		b0 := byte(c.Idx)
		probe(c, []byte{b0}, "exhaustive-1", 0)
		c.Count("hostile_1_and_2_byte_strings", 1)
		for b1 := 0; b1 < 256; b1++ {
			probe(c, []byte{b0, byte(b1)}, "exhaustive-2", 0)
			c.Count("hostile_1_and_2_byte_strings", 1)
		}
	})
	// every header byte x crafted tails (fixed PRNG stream per header byte)
	r.Fixed("header-tails", 256, func(c *vcommon.Case) {
		c.Count("hostile_header_bytes_crafted", 1)
		for i, in := range craftedFor(c.R, byte(c.Idx), 160) {
			probe(c, in, "crafted", i%3)
		}
	})
	r.Cases("header-tails-seeded", r.Scale(256), func(c *vcommon.Case) {
		for i, in := range craftedFor(c.R, byte(c.Idx%256), 60) {
			probe(c, in, "crafted-seeded", i%3)
		}
	})
	// truncations, bit flips, splices of valid encodings
	r.Cases("mutate", r.Scale(220), func(c *vcommon.Case) {
		l := c.R.Range(0, 40)
		if c.R.Chance(1, 5) {
			l = vcommon.Pick(c.R, []int{62, 63, 64, 63 + 255, 63 + 256, 700})
		}
		a := genNode(c.R, l)
		if c.R.Chance(1, 2) && len(a.Value) > 200 {
			a.Value = a.Value[:40]
		}
		encs := [][]byte{specEncode(a)}
		if e, err := codecEncode(a, 0); err == nil && !bytes.Equal(e, encs[0]) {
			encs = append(encs, e)
		}
		for _, enc := range encs {
			// every truncation (sampled for long encodings, always around the ends)
			step := 1
			if len(enc) > 300 {
				step = len(enc) / 150
			}
			for n := 0; n < len(enc); n++ {
				if n%step != 0 && n > 40 && n < len(enc)-40 {
					continue
				}
				probe(c, enc[:n], "truncation", n%3)
				c.Count("hostile_truncations", 1)
			}
			// single-bit flips
			bits := len(enc) * 8
			for k := 0; k < bits; k++ {
				if bits > 600 && k >= 160 && !c.R.Chance(300, bits) {
					continue
				}
				m := append([]byte{}, enc...)
				m[k/8] ^= 1 << uint(k%8)
				probe(c, m, "bitflip", k%3)
				c.Count("hostile_bitflips", 1)
			}
			// splices: delete / insert / overwrite a short run
			for k := 0; k < 24 && len(enc) > 0; k++ {
				m := append([]byte{}, enc...)
				p := c.R.Intn(len(m))
				switch c.R.Intn(3) {
				case 0:
					q := min(len(m), p+c.R.Range(1, 4))
					m = append(m[:p], m[q:]...)
				case 1:
					m = cat(m[:p], c.R.Bytes(c.R.Range(1, 4)), m[p:])
				default:
					copy(m[p:], c.R.Bytes(c.R.Range(1, 4)))
				}
				probe(c, m, "splice", k%3)
				c.Count("hostile_splices", 1)
			}
		}
	})
	// random strings
	r.Cases("random", r.Scale(200), func(c *vcommon.Case) {
		for k := 0; k < 100; k++ {
			var in []byte
			switch c.R.Intn(4) {
			case 0:
				in = c.R.Bytes(3)
			case 1:
				in = c.R.Bytes(c.R.Range(3, 40))
			case 2:
				in = c.R.Bytes(c.R.Range(40, 600))
			default: // a plausible header in front of noise
				in = cat([]byte{vcommon.Pick(c.R, []byte{0x40, 0x41, 0x42, 0x7e, 0x7f, 0x80, 0x81, 0xbf, 0xc0, 0xc1, 0xff, 0x20, 0x21, 0x3f, 0x10, 0x11, 0x1f})},
					c.R.Bytes(c.R.Range(0, 80)))
			}
			probe(c, in, "random", k%3)
			c.Count("hostile_random", 1)
		}
	})
}
