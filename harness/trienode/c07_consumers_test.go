//go:build verif

package trienode

import (
	"bytes"
	"errors"
	"fmt"
	"sort"
	"strings"
	"testing"

	"github.com/ChainSafe/gossamer/internal/database"
	"github.com/ChainSafe/gossamer/internal/log"
	"github.com/ChainSafe/gossamer/internal/primitives/core/hash"
	"github.com/ChainSafe/gossamer/internal/primitives/runtime"
	"github.com/ChainSafe/gossamer/lib/common"
	"github.com/ChainSafe/gossamer/pkg/trie/inmemory"
	"github.com/ChainSafe/gossamer/pkg/trie/inmemory/proof"
	"github.com/ChainSafe/gossamer/pkg/trie/triedb"
	"github.com/ChainSafe/gossamer/zz_verif/vcommon"
)

// C07, second half of the statement seen from the CONSUMERS of the decoders:
// "proof nodes and database contents are external input". The code above
// node.Decode / codec.Decode walks whatever the decoders hand back:
//
//	inmemory.InMemoryTrie.Load -> loadNode -> loadStorageValue      (pkg/trie/inmemory/database.go)
//	inmemory.GetFromDB -> getFromDBAtNode                           (same file)
//	proof.Verify -> buildTrie -> loadProof                          (pkg/trie/inmemory/proof/verify.go)
//	triedb.NewTrieDB(root, db).Get / Put (+Hash = commit) on top    (pkg/trie/triedb)
//
// A WORLD is a content-addressed store (hash(bytes) -> bytes, nothing else)
// holding a valid trie built by harness code from vcommon's spec primitives,
// in which 1-2 positions are made hostile: the node stored there is a bit
// flip / truncation / extension / splice of the valid encoding, a string of
// C07's hostile corpus or grammar, the empty node, a node that is missing,
// a child reference of an illegal length, malformed bytes inlined into a
// valid parent, a link to a foreign subtree, a state-v1 value that is
// missing, a child-trie root entry that is garbage. All ancestors of a
// hostile position are valid and re-hashed, so the walk reaches it.
//
// Oracle (property text): every call returns (a result or an error); a
// recovered panic is a violation; so is an allocation above the budget; a call
// that does not return is reported by the driver watchdog (hang_is_violation).
// What the calls return on hostile content is NOT judged. On the honest world
// (same tree, no hostility) the three consumers must reproduce the content:
// that validates the world builder, it is counted, not judged here (C04-C06).

func init() {
	// proof.loadProof logs every node at Info level
	log.Patch(log.SetLevel(log.Critical))
}

// ---------------------------------------------------------------------------
// content-addressed store

var errHNotFound = errors.New("pebble: not found")

// hstore serves value v under every key whose last 32 bytes are
// BLAKE2b-256(v): that is the node table of the in-memory trie (key = hash),
// its state-v1 value entries (key = partial key || value hash) and triedb's
// prefixed keys (key = nibble prefix || hash) at once. A missing key reads as
// an error (pebble) or as (nil, nil) (pkg/trie/db.MemoryDB): both conventions
// exist in the repository.
type hstore struct {
	data         map[string][]byte
	missingIsNil bool
	gets         int
	seen         map[string]bool // hashes that were asked for
}

func newHStore(missingIsNil bool) *hstore {
	return &hstore{data: map[string][]byte{}, missingIsNil: missingIsNil, seen: map[string]bool{}}
}

func suffix32(k []byte) string {
	if len(k) > 32 {
		k = k[len(k)-32:]
	}
	return string(k)
}

func (s *hstore) put(v []byte) []byte {
	h := vcommon.Blake256(v)
	s.data[string(h[:])] = append([]byte{}, v...)
	return h[:]
}

func (s *hstore) Get(key []byte) ([]byte, error) {
	s.gets++
	k := suffix32(key)
	s.seen[k] = true
	if v, ok := s.data[k]; ok {
		return append([]byte{}, v...), nil
	}
	if s.missingIsNil {
		return nil, nil
	}
	return nil, errHNotFound
}

// Put is what a commit of TrieDB / WriteDirty does: the key ends with the hash of the value.
func (s *hstore) Put(key, value []byte) error {
	s.data[suffix32(key)] = append([]byte{}, value...)
	return nil
}
func (s *hstore) Del(key []byte) error     { return nil } // archive: nothing is pruned
func (s *hstore) Flush() error             { return nil }
func (s *hstore) NewBatch() database.Batch { return &hbatch{s: s} }

func (s *hstore) totalBytes() int {
	n := 0
	for _, v := range s.data {
		n += len(v)
	}
	return n
}

func (s *hstore) values() [][]byte {
	ks := make([]string, 0, len(s.data))
	for k := range s.data {
		ks = append(ks, k)
	}
	sort.Strings(ks)
	out := make([][]byte, 0, len(ks))
	for _, k := range ks {
		out = append(out, s.data[k])
	}
	return out
}

func (s *hstore) dump() map[string]string {
	out := map[string]string{}
	for k, v := range s.data {
		out[vcommon.Hex([]byte(k))] = vcommon.Hex(v)
	}
	return out
}

func (s *hstore) clone() *hstore {
	n := newHStore(s.missingIsNil)
	for k, v := range s.data {
		n.data[k] = v
	}
	return n
}

type hbatch struct {
	s   *hstore
	ops [][2][]byte
}

func (b *hbatch) Put(k, v []byte) error {
	b.ops = append(b.ops, [2][]byte{append([]byte{}, k...), append([]byte{}, v...)})
	return nil
}
func (b *hbatch) Del(k []byte) error { return nil }
func (b *hbatch) Flush() error {
	for _, op := range b.ops {
		_ = b.s.Put(op[0], op[1])
	}
	b.ops = nil
	return nil
}
func (b *hbatch) Close() error   { b.ops = nil; return nil }
func (b *hbatch) Reset()         { b.ops = nil }
func (b *hbatch) ValueSize() int { return len(b.ops) }

// ---------------------------------------------------------------------------
// world: a tree of nodes that the harness encodes itself (spec primitives)

type hMut struct {
	kind string
	seed uint64
	repl []byte // replacement bytes for kind "replace"
}

type hNode struct {
	branch    bool
	pk        []byte // nibbles
	hasValue  bool
	value     []byte
	kids      [16]*hKid
	mut       *hMut // the encoding is mutated before it is stored / referenced
	forceHash bool  // referenced by hash even when the (mutated) encoding is shorter than 32 bytes
	drop      bool  // referenced but NOT stored
	dropValue bool  // state v1: the hashed value is not stored
}

// hKid is a child slot. node is the honest child (nil: the slot is empty in
// the honest world); raw / alt only exist in the hostile rendering.
type hKid struct {
	node *hNode
	raw  []byte // hostile: the child reference payload, verbatim
	alt  *hNode // hostile: another subtree linked here
}

type hPos struct {
	n      *hNode
	parent *hNode
	idx    int
	path   []byte // nibbles consumed before n's partial key (includes the child index)
}

type hWorld struct {
	ver     int
	root    *hNode
	pos     []hPos
	keys    [][]byte // honest content
	vals    [][]byte
	probes  [][]byte // keys that lead into the hostile positions
	desc    []string
	kinds   []string
	hostile bool // encode with the mutations switched on
	st      *hstore
	victims map[string]bool // hashes under which hostile bytes are stored
	extra   [][]byte        // further hostile strings stored under their own hash (hostile rendering)
}

// present says whether the slot holds a child in the current rendering.
func (w *hWorld) present(k *hKid) bool {
	return k != nil && (k.node != nil || (w.hostile && (k.raw != nil || k.alt != nil)))
}

func nibblesToKey(nib []byte) []byte {
	out := make([]byte, len(nib)/2)
	for i := range out {
		out[i] = nib[2*i]<<4 | nib[2*i+1]&0x0f
	}
	return out
}

var hValueLens = []int{0, 1, 1, 2, 3, 5, 8, 20, 31, 32, 33, 40, 64}

func (w *hWorld) genValue(r *vcommon.Rand) []byte {
	n := vcommon.Pick(r, hValueLens)
	if n == 0 {
		return []byte{}
	}
	return r.Bytes(n)
}

// genTree builds a valid subtree whose keys all have an even number of nibbles.
func (w *hWorld) genTree(r *vcommon.Rand, path []byte, level, maxLevel int, parent *hNode, idx int) *hNode {
	n := &hNode{}
	w.pos = append(w.pos, hPos{n: n, parent: parent, idx: idx, path: append([]byte{}, path...)})
	even := func(l int) int { // a partial key length that makes the key end on a byte boundary
		if (len(path)+l)%2 == 1 {
			l++
		}
		return l
	}
	if level >= maxLevel || (level > 0 && r.Chance(2, 5)) {
		l := even(vcommon.Pick(r, []int{0, 1, 2, 3, 4, 6, 9}))
		if r.Chance(1, 25) {
			l = even(vcommon.Pick(r, []int{62, 63, 64, 70}))
		}
		n.pk = randNibbles(r, l)
		n.hasValue, n.value = true, w.genValue(r)
		w.addKey(path, n)
		return n
	}
	n.branch = true
	n.pk = randNibbles(r, vcommon.Pick(r, []int{0, 0, 1, 2, 3}))
	if r.Chance(1, 3) {
		n.pk = randNibbles(r, even(len(n.pk)))
		n.hasValue, n.value = true, w.genValue(r)
		w.addKey(path, n)
	}
	nk := r.Range(2, 4)
	if r.Chance(1, 12) {
		nk = 16
	}
	for _, i := range r.Perm(16)[:nk] {
		sub := append(append(append([]byte{}, path...), n.pk...), byte(i))
		n.kids[i] = &hKid{node: w.genTree(r, sub, level+1, maxLevel, n, i)}
	}
	return n
}

func (w *hWorld) addKey(path []byte, n *hNode) {
	full := append(append([]byte{}, path...), n.pk...)
	if len(full)%2 == 0 {
		w.keys = append(w.keys, nibblesToKey(full))
		w.vals = append(w.vals, n.value)
	}
}

func applyMut(m *hMut, e []byte) []byte {
	r := vcommon.NewRand(m.seed)
	out := append([]byte{}, e...)
	switch m.kind {
	case "bitflip":
		for i, n := 0, r.Range(1, 3); i < n && len(out) > 0; i++ {
			k := r.Intn(len(out) * 8)
			if r.Chance(1, 3) { // the header / length bytes are the interesting ones
				k = r.Intn(min(len(out), 4) * 8)
			}
			out[k/8] ^= 1 << uint(k%8)
		}
	case "truncate":
		if len(out) > 0 {
			out = out[:r.Intn(len(out))]
		}
	case "extend":
		out = append(out, r.Bytes(r.Range(1, 4))...)
	case "splice":
		if len(out) > 0 {
			p := r.Intn(len(out))
			switch r.Intn(3) {
			case 0:
				q := min(len(out), p+r.Range(1, 4))
				out = append(out[:p], out[q:]...)
			case 1:
				out = cat(out[:p], r.Bytes(r.Range(1, 4)), out[p:])
			default:
				copy(out[p:], r.Bytes(r.Range(1, 4)))
			}
		}
	case "replace":
		out = append([]byte{}, m.repl...)
	}
	return out
}

func (w *hWorld) encode(n *hNode) []byte {
	hashed := w.ver == 1 && n.hasValue && len(n.value) > 32
	var e []byte
	switch {
	case !n.branch && hashed:
		e = vcommon.SpecHeader(0x20, 5, len(n.pk))
	case !n.branch:
		e = vcommon.SpecHeader(0x40, 6, len(n.pk))
	case !n.hasValue:
		e = vcommon.SpecHeader(0x80, 6, len(n.pk))
	case hashed:
		e = vcommon.SpecHeader(0x10, 4, len(n.pk))
	default:
		e = vcommon.SpecHeader(0xC0, 6, len(n.pk))
	}
	e = append(e, vcommon.SpecPartial(n.pk)...)
	if n.branch {
		var bm uint16
		for i, k := range n.kids {
			if w.present(k) {
				bm |= 1 << uint(i)
			}
		}
		e = append(e, byte(bm), byte(bm>>8))
	}
	if n.hasValue {
		if hashed {
			h := vcommon.Blake256(n.value)
			e = append(e, h[:]...)
			if !(w.hostile && n.dropValue) {
				w.st.put(n.value)
			}
		} else {
			e = append(e, vcommon.ScaleBytes(n.value)...)
		}
	}
	if n.branch {
		for _, k := range n.kids {
			if w.present(k) {
				e = append(e, vcommon.ScaleBytes(w.ref(k))...)
			}
		}
	}
	return e
}

func (w *hWorld) ref(k *hKid) []byte {
	if w.hostile && k.raw != nil {
		return k.raw
	}
	if w.hostile && k.alt != nil {
		return w.store(k.alt, false)
	}
	return w.store(k.node, false)
}

// store renders n and returns what a parent writes about it.
func (w *hWorld) store(n *hNode, isRoot bool) []byte {
	e := w.encode(n)
	mutated := false
	if w.hostile && n.mut != nil {
		e = applyMut(n.mut, e)
		mutated = true
	}
	if len(e) < 32 && !isRoot && !(w.hostile && n.forceHash) {
		return e // inlined
	}
	h := vcommon.Blake256(e)
	if !(w.hostile && n.drop) {
		w.st.put(e)
		if mutated {
			w.victims[string(h[:])] = true
		}
	}
	return h[:]
}

// render encodes the world into a fresh store and returns the root hash.
func (w *hWorld) render(hostile, missingIsNil bool) (root []byte) {
	w.hostile = hostile
	w.st = newHStore(missingIsNil)
	w.victims = map[string]bool{}
	if hostile {
		for _, x := range w.extra {
			h := w.st.put(x)
			w.victims[string(h)] = true
		}
	}
	return w.store(w.root, true)
}

// ---------------------------------------------------------------------------
// hostility

var hostileKinds = []string{"bitflip", "truncate", "extend", "splice", "corpus", "crafted", "random", "empty-node", "empty-node-junk",
	"missing", "raw-ref", "inline-malformed", "foreign-subtree", "value-missing", "child-root-garbage"}

var smallHostile = [][]byte{
	{0x00}, {0x01}, {0x02}, {0x0f}, {0x40}, {0x41}, {0x41, 0x0a}, {0x7f}, {0x7f, 0xff}, {0x80}, {0x80, 0x00}, {0x80, 0x01}, {0x80, 0x00, 0x00}, {0xc0, 0x00, 0x00}, {0x20}, {0x10, 0x01, 0x00},
	{0x80, 0x01, 0x00, 0x04, 0x00}, {0x80, 0x01, 0x00, 0x04, 0x01}, {0x80, 0x01, 0x00, 0x14, 0x80, 0x01, 0x00, 0x04, 0x00}, {0x00, 0xaa}, {0x00, 0x00},
	{0x40, 0x03, 0xff, 0xff, 0xff, 0xff}, {0x40, 0x02, 0x00, 0x00, 0x40}, {0x80, 0x01, 0x00, 0x02, 0x00, 0x00, 0x40}, {0x80, 0xff, 0xff}, {0x42, 0xaa}, {0x20, 1, 2, 3},
}

// makeHostile turns 1-2 positions of the world hostile.
func (w *hWorld) makeHostile(r *vcommon.Rand, forceKind string) {
	n := 1
	if forceKind == "" && r.Chance(3, 10) {
		n = 2
	}
	for v := 0; v < n; v++ {
		kind := forceKind
		if kind == "" {
			kind = vcommon.Pick(r, hostileKinds)
		}
		p := vcommon.Pick(r, w.pos)
		if r.Chance(1, 8) {
			p = w.pos[0] // the root
		}
		isRoot := p.parent == nil
		where := fmt.Sprintf("node at nibble path %x", p.path)
		if isRoot {
			where = "root node"
		}
		switch kind {
		case "bitflip", "truncate", "extend", "splice":
			p.n.mut = &hMut{kind: kind, seed: r.Uint64()}
			p.n.forceHash = r.Bool()
		case "corpus":
			p.n.mut = &hMut{kind: "replace", repl: vcommon.Pick(r, hostileCorpus())}
			p.n.forceHash = r.Chance(3, 4)
		case "crafted":
			p.n.mut = &hMut{kind: "replace", repl: craftedFor(r, byte(r.Intn(256)), 1)[0]}
			p.n.forceHash = r.Chance(3, 4)
		case "random":
			p.n.mut = &hMut{kind: "replace", repl: r.Bytes(vcommon.Pick(r, []int{1, 2, 3, 8, 31, 32, 33, 40, 100}))}
			p.n.forceHash = r.Chance(3, 4)
		case "empty-node": // stored under BLAKE2b(0x00) and referenced by that hash
			p.n.mut = &hMut{kind: "replace", repl: []byte{0x00}}
			p.n.forceHash = true
		case "empty-node-junk": // decodes to the empty node but does not hash to the empty root
			p.n.mut = &hMut{kind: "replace", repl: cat([]byte{0x00}, r.Bytes(r.Range(1, 3)))}
			p.n.forceHash = true
		case "missing":
			p.n.drop, p.n.forceHash = true, true
		case "value-missing":
			// a position with a value larger than 32 bytes, if there is one
			for _, i := range r.Perm(len(w.pos)) {
				if q := w.pos[i]; q.n.hasValue && len(q.n.value) > 32 {
					p = q
					break
				}
			}
			p.n.dropValue = true
			where = fmt.Sprintf("node at nibble path %x", p.path)
		case "raw-ref", "inline-malformed", "foreign-subtree", "child-root-garbage":
			// these live in a child slot of a branch
			var branches []hPos
			for _, q := range w.pos {
				if q.n.branch {
					branches = append(branches, q)
				}
			}
			if len(branches) == 0 {
				p.n.mut = &hMut{kind: "truncate", seed: r.Uint64()}
				kind = "truncate"
				break
			}
			b := vcommon.Pick(r, branches)
			idx := r.Intn(16)
			var raw []byte
			var foreign *hNode
			switch kind {
			case "raw-ref":
				raw = r.Bytes(vcommon.Pick(r, []int{32, 33, 34, 40, 64, 100})) // a dangling hash or an over-long reference
			case "inline-malformed":
				raw = vcommon.Pick(r, smallHostile)
				if r.Chance(1, 3) {
					if e := craftedFor(r, byte(r.Intn(256)), 1)[0]; len(e) < 32 {
						raw = e
					}
				}
			case "foreign-subtree":
				f := &hWorld{ver: w.ver}
				foreign = f.genTree(r, nil, 1, 2, nil, -1) // keys of this subtree do not fit the depth it is linked at
			}
			sub := append(append(append([]byte{}, b.path...), b.n.pk...), byte(idx))
			where = fmt.Sprintf("child slot %x of the branch at nibble path %x", idx, b.path)
			switch kind {
			case "foreign-subtree":
				b.n.kids[idx] = &hKid{node: kidNode(b.n.kids[idx]), alt: foreign}
			case "child-root-garbage":
				// leaf  :child_storage:default:<x>  ->  garbage where a 32-byte child root belongs
				full := vcommon.KeyToNibbles(append(append([]byte{}, inmemory.ChildStorageKeyPrefix...), byte('c'), byte('0'+v)))
				var val []byte
				switch r.Intn(5) {
				case 0:
					val = []byte{}
				case 1:
					val = r.Bytes(r.Range(1, 31))
				case 2:
					val = r.Bytes(32) // no such child trie in the database
				case 3:
					val = r.Bytes(r.Range(33, 48))
				default: // the "child trie" is a hostile node stored under its own hash
					x := vcommon.Pick(r, smallHostile)
					w.extra = append(w.extra, x)
					h := vcommon.Blake256(x)
					val = h[:]
				}
				// hang the leaf below the root: root must be a branch with an empty partial key
				root := w.pos[0].n
				if !root.branch || len(root.pk) != 0 {
					p.n.mut = &hMut{kind: "truncate", seed: r.Uint64()}
					kind = "truncate"
					where = fmt.Sprintf("node at nibble path %x", p.path)
					break
				}
				b, idx = w.pos[0], int(full[0])
				root.kids[idx] = &hKid{node: kidNode(root.kids[idx]), alt: &hNode{pk: full[1:], hasValue: true, value: val}}
				sub = full
				where = "leaf :child_storage:default:c" + string(rune('0'+v)) + " = " + vcommon.Hex(val)
			default:
				b.n.kids[idx] = &hKid{raw: raw, node: kidNode(b.n.kids[idx])}
			}
			p = hPos{n: &hNode{}, parent: b.n, idx: idx, path: sub}
		}
		w.kinds = append(w.kinds, kind)
		w.desc = append(w.desc, kind+" @ "+where)
		// keys that walk into the hostile position
		base := append(append([]byte{}, p.path...), p.n.pk...)
		for _, ext := range [][]byte{nil, randNibbles(r, 1), randNibbles(r, 2), randNibbles(r, 3)} {
			k := append(append([]byte{}, base...), ext...)
			if len(k)%2 == 1 {
				k = append(k, byte(r.Intn(16)))
			}
			w.probes = append(w.probes, nibblesToKey(k))
		}
		if len(p.path)%2 == 0 {
			w.probes = append(w.probes, nibblesToKey(p.path))
		}
	}
}

func kidNode(k *hKid) *hNode {
	if k == nil {
		return nil
	}
	return k.node
}

// ---------------------------------------------------------------------------
// the monitor around one consumer call

// Allocation budget of a consumer call, per byte of everything the call can
// possibly read (the whole store + the key): the consumers build Go structures
// per node they touch (node.Node + 16 child slots + readers + decoders: a few
// hundred bytes for a branch whose encoding may be 5 bytes) and every call has
// a fixed cost of ~35 KiB (hasher / buffer pools, maps). Measured on the
// repaired tree (seeds 1-3, 20260921): no call above 20 % of this budget;
// largest absolute 490 KiB (Put+Hash over a 33 KiB store, budget 4.3 MiB).
const (
	consAllocPerByte = 128
	consAllocSlack   = 128 << 10
)

// allocPeak: largest allocation seen per consumer and the budget of that call (diagnostics, printed with -test.v).
var allocPeak = map[string][2]uint64{}

func consBudget(storeBytes, keyLen int) uint64 {
	return uint64(consAllocPerByte*(storeBytes+keyLen) + consAllocSlack)
}

const maxKeysPerWorld = 10

type consCall struct {
	c      *vcommon.Case
	w      *hWorld
	root   []byte
	phase  string // "honest" | "hostile"
	budget uint64
}

func (cc *consCall) witness(consumer string, key []byte) map[string]any {
	return map[string]any{"consumer": consumer, "key": vcommon.Hex(key), "root": vcommon.Hex(cc.root), "state_version": cc.w.ver,
		"hostility": cc.w.desc, "world": cc.phase, "missing_key_reads_as_nil": cc.w.st.missingIsNil, "store": cc.w.st.dump()}
}

// run executes f under the panic / allocation monitor. ok=false: f did not return normally.
func (cc *consCall) run(consumer string, key []byte, f func()) (ok bool) {
	c := cc.c
	g := guard(f)
	c.Eval(2)
	c.Count("consumer_calls", 1)
	if g.panicked != nil {
		w := cc.witness(consumer, key)
		w["stack"] = g.stack
		c.Violation("consumer-panic", fmt.Sprintf("%s panics on a %s world (%s): %v", consumer, cc.phase, strings.Join(cc.w.desc, "; "), g.panicked), w)
		return false
	}
	if g.alloc > cc.budget {
		m := g.alloc
		for i := 0; i < 2 && m > cc.budget; i++ {
			if g2 := guard(f); g2.panicked == nil && g2.alloc < m {
				m = g2.alloc
			}
		}
		if m > cc.budget {
			w := cc.witness(consumer, key)
			w["allocated"], w["budget"] = m, cc.budget
			c.Violation("consumer-alloc", fmt.Sprintf("%s allocates %d bytes on a %s world of %d stored bytes, budget %d", consumer, m, cc.phase, cc.w.st.totalBytes(), cc.budget), w)
			return false
		}
		g.alloc = m
	}
	if p := allocPeak[consumer]; p[1] == 0 || g.alloc*p[1] > p[0]*cc.budget { // largest share of its budget
		allocPeak[consumer] = [2]uint64{g.alloc, cc.budget}
	}
	switch {
	case g.alloc*2 > cc.budget:
		c.Count("consumer_alloc_above_50pct_of_budget", 1)
	case g.alloc*10 > cc.budget:
		c.Count("consumer_alloc_above_10pct_of_budget", 1)
	}
	return true
}

func h256(b []byte) hash.H256 { return hash.H256(string(b)) }

// drive runs the consumers over the current rendering of the world.
// honest=true additionally compares what they return with the content.
func drive(c *vcommon.Case, w *hWorld, root []byte, honest bool) (sig string) {
	phase := "hostile"
	if honest {
		phase = "honest"
	}
	st := w.st
	cc := &consCall{c: c, w: w, root: root, phase: phase, budget: consBudget(st.totalBytes(), 64)}
	mismatch := func(what string) {
		c.Count("note_honest_world_mismatch", 1)
		c.Sample(map[string]any{"honest_world_mismatch": what, "root": vcommon.Hex(root), "version": w.ver})
	}
	keys, vals := w.keys, w.vals
	if len(keys) > maxKeysPerWorld { // a random subset (the probes below are the keys that matter on the hostile world)
		var ks, vs [][]byte
		for _, i := range c.R.Perm(len(keys))[:maxKeysPerWorld] {
			ks, vs = append(ks, keys[i]), append(vs, vals[i])
		}
		keys, vals = ks, vs
	}
	var probes [][]byte
	if !honest {
		probes = w.probes
	}
	reached := func(name string, before map[string]bool) {
		for h := range w.victims {
			if st.seen[h] && !before[h] {
				c.Count("consumer_"+name+"_fetched_hostile_node", 1)
				return
			}
		}
	}
	// every consumer starts with an empty access log
	snapshotSeen := func() map[string]bool {
		st.seen = map[string]bool{}
		return nil
	}
	var out []string

	// --- A. InMemoryTrie.Load -------------------------------------------------
	var loaded *inmemory.InMemoryTrie
	var lerr error
	seen0 := snapshotSeen()
	okA := cc.run("InMemoryTrie.Load", nil, func() {
		loaded = inmemory.NewTrie(nil, st)
		lerr = loaded.Load(st, common.BytesToHash(root))
	})
	c.Count("consumer_load_calls", 1)
	reached("load", seen0)
	switch {
	case !okA:
		out = append(out, "load:bad")
	case lerr != nil:
		c.Count("consumer_load_"+phase+"_err", 1)
		out = append(out, "load:err")
	default:
		c.Count("consumer_load_"+phase+"_ok", 1)
		out = append(out, "load:ok")
		// what Load handed back is used like any trie; a panic here is counted, not judged
		g := guard(func() {
			_, _ = loaded.Hash()
			ents := loaded.Entries()
			for _, k := range keys {
				_ = loaded.Get(k)
			}
			if honest {
				if len(ents) != len(w.keys) {
					mismatch(fmt.Sprintf("Load: %d entries, content has %d", len(ents), len(w.keys)))
				}
				for i, k := range keys {
					if v, ok := ents[string(k)]; !ok || !bytes.Equal(v, vals[i]) {
						mismatch("Load: entry " + vcommon.Hex(k))
						break
					}
				}
			}
		})
		if g.panicked != nil {
			c.Count("note_panic_using_the_trie_load_returned", 1)
			c.Sample(map[string]any{"note": "Hash/Entries/Get on the trie that Load returned panics", "panic": fmt.Sprint(g.panicked), "hostility": w.desc, "root": vcommon.Hex(root)})
		}
	}
	if honest && okA && lerr != nil {
		mismatch("Load: " + lerr.Error())
	}

	// --- B. GetFromDB -------------------------------------------------------------
	nerr, nval, nnil := 0, 0, 0
	seen0 = snapshotSeen()
	for i, k := range append(append([][]byte{}, keys...), probes...) {
		var v []byte
		var err error
		if !cc.run("inmemory.GetFromDB", k, func() { v, err = inmemory.GetFromDB(st, common.BytesToHash(root), k) }) {
			out = append(out, "get:bad")
			break
		}
		c.Count("consumer_getfromdb_calls", 1)
		switch {
		case err != nil:
			nerr++
		case v == nil:
			nnil++
		default:
			nval++
		}
		if honest && (err != nil || v == nil || !bytes.Equal(v, vals[i])) {
			mismatch(fmt.Sprintf("GetFromDB(%s)=%s err=%v", vcommon.Hex(k), short(v), err))
		}
	}
	reached("getfromdb", seen0)
	c.Count("consumer_getfromdb_"+phase+"_err", nerr)
	c.Count("consumer_getfromdb_"+phase+"_value", nval)
	c.Count("consumer_getfromdb_"+phase+"_absent", nnil)
	out = append(out, fmt.Sprintf("get:%v/%v/%v", nerr > 0, nval > 0, nnil > 0))

	// --- C. proof.Verify: the whole store is the proof ------------------------------------
	nodes := st.values()
	perm := c.R.Perm(len(nodes))
	shuffled := make([][]byte, len(nodes))
	for i, j := range perm {
		shuffled[i] = nodes[j]
	}
	if !honest && c.R.Chance(1, 4) && len(shuffled) > 0 {
		shuffled = append(shuffled, shuffled[0], []byte{}, []byte{0x00}) // duplicates, an empty string, the empty node
	}
	verr, vok := 0, 0
	type claim struct{ k, v []byte }
	var claims []claim
	for i, k := range keys {
		claims = append(claims, claim{k, vals[i]})
	}
	for _, k := range probes {
		claims = append(claims, claim{k, nil})
	}
	for i, cl := range claims {
		var err error
		if !cc.run("proof.Verify", cl.k, func() { err = proof.Verify(shuffled, root, cl.k, cl.v) }) {
			out = append(out, "verify:bad")
			break
		}
		c.Count("consumer_verify_calls", 1)
		if err != nil {
			verr++
		} else {
			vok++
		}
		if honest && err != nil && i < len(keys) {
			mismatch(fmt.Sprintf("Verify(%s): %v", vcommon.Hex(cl.k), err))
		}
	}
	c.Count("consumer_verify_"+phase+"_err", verr)
	c.Count("consumer_verify_"+phase+"_ok", vok)
	out = append(out, fmt.Sprintf("verify:%v/%v", verr > 0, vok > 0))

	// --- D. TrieDB over the store: Get, then Put (+ Hash = commit) on top -------------------
	tnil, tval := 0, 0
	seen0 = snapshotSeen()
	var tr *tdb
	if cc.run("triedb.NewTrieDB", nil, func() {
		tr = triedb.NewTrieDB[hash.H256, runtime.BlakeTwo256](h256(root), st)
		tr.SetVersion(layout(w.ver))
	}) {
		for i, k := range append(append([][]byte{}, keys...), probes...) {
			var v []byte
			if !cc.run("TrieDB.Get", k, func() { v = tr.Get(k) }) {
				out = append(out, "tget:bad")
				break
			}
			c.Count("consumer_triedb_get_calls", 1)
			if v == nil {
				tnil++
			} else {
				tval++
			}
			if honest && !bytes.Equal(v, vals[i]) {
				mismatch(fmt.Sprintf("TrieDB.Get(%s)=%s", vcommon.Hex(k), short(v)))
			}
		}
	}
	reached("triedb_get", seen0)
	c.Count("consumer_triedb_get_"+phase+"_nil", tnil)
	c.Count("consumer_triedb_get_"+phase+"_value", tval)
	out = append(out, fmt.Sprintf("tget:%v/%v", tnil > 0, tval > 0))

	// Put on top: the walk down to the insertion point decodes stored nodes (lookupNode / getNodeOrLookup),
	// Hash() commits. The store is written to: done last, on a copy.
	putKeys := append([][]byte{}, probes...)
	if len(keys) > 0 {
		putKeys = append(putKeys, vcommon.Pick(c.R, keys), vcommon.Pick(c.R, keys))
	}
	perr, pok := 0, 0
	seen0 = snapshotSeen()
	for _, k := range putKeys {
		val := c.R.Bytes(vcommon.Pick(c.R, []int{0, 1, 5, 32, 33, 40}))
		cp := st.clone()
		cp.seen = st.seen
		var err1, err2 error
		okP := cc.run("TrieDB.Put+Hash", k, func() {
			t2 := triedb.NewTrieDB[hash.H256, runtime.BlakeTwo256](h256(root), cp)
			t2.SetVersion(layout(w.ver))
			err1 = t2.Put(k, val)
			if err1 == nil {
				_, err2 = t2.Hash()
			}
		})
		if !okP {
			out = append(out, "tput:bad")
			break
		}
		c.Count("consumer_triedb_put_calls", 1)
		if err1 != nil || err2 != nil {
			perr++
		} else {
			pok++
		}
	}
	reached("triedb_put", seen0)
	c.Count("consumer_triedb_put_"+phase+"_err", perr)
	c.Count("consumer_triedb_put_"+phase+"_ok", pok)
	out = append(out, fmt.Sprintf("tput:%v/%v", perr > 0, pok > 0))
	return strings.Join(out, ",")
}

// runWorld: honest rendering first (validates the builder), then the hostile one.
func runWorld(c *vcommon.Case, w *hWorld, r *vcommon.Rand) {
	missingIsNil := r.Chance(1, 3)
	root := w.render(false, missingIsNil)
	before := c.Failed()
	drive(c, w, root, true)
	if !before && c.Failed() {
		return
	}
	c.Count("consumer_worlds_honest", 1)
	c.Count(fmt.Sprintf("consumer_worlds_v%d", w.ver), 1)
	nodesHonest := len(w.st.data)

	root = w.render(true, missingIsNil)
	c.Count("consumer_worlds_hostile", 1)
	for _, k := range w.kinds {
		c.Count("hostile_kind_"+k, 1)
	}
	if len(w.victims) > 0 {
		c.Count("consumer_worlds_with_stored_hostile_node", 1)
	}
	if missingIsNil {
		c.Count("consumer_worlds_missing_key_reads_nil", 1)
	}
	sig := drive(c, w, root, false)
	c.Distinct(fmt.Sprintf("cons|v%d|%s|%s", w.ver, strings.Join(w.kinds, "+"), sig))
	c.Sample(map[string]any{"group": "consumers", "hostility": w.desc, "honest_nodes": nodesHonest, "keys": len(w.keys), "version": w.ver, "outcomes": sig})
}

func genWorld(r *vcommon.Rand, ver int) *hWorld {
	w := &hWorld{ver: ver}
	maxLevel := r.Range(1, 3)
	w.root = w.genTree(r, nil, 0, maxLevel, nil, -1)
	return w
}

// fixed worlds: the minimal witnesses (seed independent). The tree is
//
//	root branch, pk "", children 1 -> leaf(pk 2, value 0xaa), 3 -> VICTIM, 7 -> leaf(pk 8 + 62 nibbles, 40-byte value)
//
// and the victim position (key 0x3b) holds what the entry says.
type fixedWorld struct {
	name  string
	where string // "child-hash" | "child-inline" | "root" | "missing" | "raw-ref" | "child-root"
	bytes []byte
}

var consumerCorpus = []fixedWorld{
	{"child hash -> stored empty node", "child-hash", []byte{0x00}},
	{"child hash -> empty node + trailing byte", "child-hash", []byte{0x00, 0xaa}},
	{"root = empty node + trailing byte", "root", []byte{0x00, 0xaa}},
	{"child hash -> compact-variant header", "child-hash", []byte{0x01}},
	{"root = compact-variant header", "root", []byte{0x01, 0x00}},
	{"child hash -> branch with an inlined empty child", "child-hash", []byte{0x80, 0x01, 0x00, 0x04, 0x00}},
	{"child hash -> truncated leaf", "child-hash", []byte{0x41}},
	{"child hash -> leaf declaring 2^32-1 value bytes", "child-hash", []byte{0x40, 0x03, 0xff, 0xff, 0xff, 0xff}},
	{"child hash -> hashed leaf, value absent from the store", "child-hash", cat([]byte{0x21, 0x0b}, bytes.Repeat([]byte{0x5a}, 32))},
	{"root = hashed leaf, value absent from the store", "root", cat([]byte{0x22, 0x3b}, bytes.Repeat([]byte{0x5a}, 32))},
	{"child hash -> branch whose only child hash is missing", "child-hash", cat([]byte{0x81, 0x0b, 0x01, 0x00, 0x80}, bytes.Repeat([]byte{0x77}, 32))},
	{"child hash -> branch, child reference of 33 bytes", "child-hash", cat([]byte{0x81, 0x0b, 0x01, 0x00, 0x84}, bytes.Repeat([]byte{0x77}, 33))},
	{"child hash -> branch without children and without value", "child-hash", []byte{0x81, 0x0b, 0x00, 0x00}},
	{"inlined child: empty node", "child-inline", []byte{0x00}},
	{"inlined child: compact-variant header", "child-inline", []byte{0x01}},
	{"inlined child: branch with an inlined empty child", "child-inline", []byte{0x80, 0x01, 0x00, 0x04, 0x00}},
	{"inlined child: branch, bitmap cut", "child-inline", []byte{0x80, 0x01}},
	{"inlined child: hashed leaf cut short", "child-inline", []byte{0x21, 0x0b, 1, 2, 3}},
	{"child hash missing", "missing", nil},
	{"child reference of 33 bytes", "raw-ref", bytes.Repeat([]byte{0x77}, 33)},
	{"child reference of 40 bytes", "raw-ref", bytes.Repeat([]byte{0x77}, 40)},
	{"child-trie root entry: empty value", "child-root", []byte{}},
	{"child-trie root entry: 5 bytes", "child-root", []byte{1, 2, 3, 4, 5}},
	{"child-trie root entry: no such trie", "child-root", bytes.Repeat([]byte{0x66}, 32)},
	{"child-trie root entry: 40 bytes", "child-root", bytes.Repeat([]byte{0x66}, 40)},
	{"child-trie root entry -> stored empty node + trailing byte", "child-root", nil},
	{"child-trie root entry -> stored compact-variant header", "child-root", []byte{0xff}},
}

func fixedWorldOf(f fixedWorld, ver int) *hWorld {
	w := &hWorld{ver: ver}
	long := append([]byte{8}, bytes.Repeat([]byte{0xc}, 62)...)
	victim := &hNode{pk: []byte{0xb}, hasValue: true, value: bytes.Repeat([]byte{0xbb}, 36)}
	root := &hNode{branch: true}
	root.kids[1] = &hKid{node: &hNode{pk: []byte{2}, hasValue: true, value: []byte{0xaa}}}
	root.kids[3] = &hKid{node: victim}
	root.kids[7] = &hKid{node: &hNode{pk: long, hasValue: true, value: bytes.Repeat([]byte{0xcc}, 40)}}
	w.root = root
	w.pos = []hPos{{n: root, idx: -1}, {n: victim, parent: root, idx: 3, path: []byte{3}}}
	w.keys = [][]byte{{0x12}, {0x3b}, nibblesToKey(append([]byte{7}, long...))}
	w.vals = [][]byte{{0xaa}, victim.value, bytes.Repeat([]byte{0xcc}, 40)}
	w.probes = [][]byte{{0x3b}, {0x3b, 0x00}, {0x3b, 0x01, 0x23}, {0x30}, {}, {0x3a}}
	w.kinds = []string{"fixed:" + f.where}
	w.desc = []string{f.name + ": " + vcommon.Hex(f.bytes)}
	switch f.where {
	case "child-hash":
		victim.mut, victim.forceHash = &hMut{kind: "replace", repl: f.bytes}, true
	case "child-inline":
		root.kids[3].raw = f.bytes
	case "root":
		root.mut = &hMut{kind: "replace", repl: f.bytes}
	case "missing":
		victim.drop = true
	case "raw-ref":
		root.kids[3].raw = f.bytes
	case "child-root":
		val := f.bytes
		switch {
		case val == nil:
			w.extra = append(w.extra, []byte{0x00, 0xaa})
			h := vcommon.Blake256([]byte{0x00, 0xaa})
			val = h[:]
		case len(val) == 1 && val[0] == 0xff:
			w.extra = append(w.extra, []byte{0x01})
			h := vcommon.Blake256([]byte{0x01})
			val = h[:]
		}
		full := vcommon.KeyToNibbles(append(append([]byte{}, inmemory.ChildStorageKeyPrefix...), 'c', '0'))
		root.kids[full[0]] = &hKid{node: kidNode(root.kids[full[0]]), alt: &hNode{pk: full[1:], hasValue: true, value: val}}
		w.probes = append(w.probes, nibblesToKey(full))
		w.desc = []string{f.name + ": value " + vcommon.Hex(val)}
	}
	return w
}

// TestVerifC07Consumers drives the code ABOVE the decoders with hostile
// database / proof content. It decides the same property as TestVerifC07 (the
// engine's run pattern matches both; the driver merges counters and floors).
func TestVerifC07Consumers(t *testing.T) {
	r := vcommon.Start(t, "C07")
	defer r.Finish()
	if err := vcommon.SpecSelfCheck(); err != nil {
		r.Cases("consumers-selfcheck", 1, func(c *vcommon.Case) { c.Inconclusive("reference model self-check failed: " + err.Error()) })
		return
	}
	r.Floor("consumer_worlds_honest", 1000)
	r.Floor("consumer_worlds_hostile", 1000)
	r.Floor("consumer_worlds_v0", 300)
	r.Floor("consumer_worlds_v1", 300)
	r.Floor("consumer_worlds_missing_key_reads_nil", 200)
	r.Floor("consumer_worlds_with_stored_hostile_node", 400)
	for _, k := range hostileKinds {
		r.Floor("hostile_kind_"+k, 30)
	}
	r.Floor("consumer_load_calls", 2000)
	r.Floor("consumer_load_hostile_err", 400)
	r.Floor("consumer_load_hostile_ok", 50)
	r.Floor("consumer_load_honest_ok", 1000)
	r.Floor("consumer_getfromdb_calls", 10000)
	r.Floor("consumer_getfromdb_hostile_err", 500)
	r.Floor("consumer_getfromdb_honest_value", 3000)
	r.Floor("consumer_verify_calls", 10000)
	r.Floor("consumer_verify_hostile_err", 1000)
	r.Floor("consumer_verify_honest_ok", 3000)
	r.Floor("consumer_triedb_get_calls", 10000)
	r.Floor("consumer_triedb_get_honest_value", 3000)
	r.Floor("consumer_triedb_put_calls", 5000)
	r.Floor("consumer_triedb_put_hostile_err", 200)
	r.Floor("consumer_triedb_put_honest_ok", 1000)
	r.Floor("consumer_load_fetched_hostile_node", 300)
	r.Floor("consumer_getfromdb_fetched_hostile_node", 300)
	r.Floor("consumer_triedb_get_fetched_hostile_node", 300)
	r.Floor("consumer_triedb_put_fetched_hostile_node", 300)

	r.Fixed("consumers-corpus", 2*len(consumerCorpus), func(c *vcommon.Case) {
		w := fixedWorldOf(consumerCorpus[c.Idx/2], c.Idx%2)
		runWorld(c, w, c.R)
	})
	// every hostility kind at least a few times whatever the seed
	r.Fixed("consumers-kinds", 4*len(hostileKinds), func(c *vcommon.Case) {
		w := genWorld(c.R, c.Idx%2)
		w.makeHostile(c.R, hostileKinds[c.Idx/4])
		runWorld(c, w, c.R)
	})
	r.Cases("consumers", r.Scale(1400), func(c *vcommon.Case) {
		w := genWorld(c.R, c.R.Intn(2))
		w.makeHostile(c.R, "")
		runWorld(c, w, c.R)
	})
	for k, v := range allocPeak {
		t.Logf("allocation peak of %s: %d bytes (budget of that call %d)", k, v[0], v[1])
	}
}
