//go:build verif

package trienode

import (
	"bytes"
	"encoding/hex"
	"fmt"
	"runtime/debug"
	"testing"

	"github.com/ChainSafe/gossamer/internal/primitives/core/hash"
	"github.com/ChainSafe/gossamer/internal/primitives/runtime"
	"github.com/ChainSafe/gossamer/pkg/trie"
	"github.com/ChainSafe/gossamer/pkg/trie/triedb"
	"github.com/ChainSafe/gossamer/zz_verif/vcommon"
)

type tdb = triedb.TrieDB[hash.H256, runtime.BlakeTwo256]

// ---------------------------------------------------------------------------
// history description (fixed corpus and generated cases share it)

type c06op struct {
	Kind string // put | del | commit | reopen
	Key  []byte
	Val  []byte
}

func (o c06op) String() string {
	switch o.Kind {
	case "put":
		return fmt.Sprintf("put %s = [%d]%s", vcommon.Hex(o.Key), len(o.Val), vcommon.Hex(o.Val))
	case "del":
		return "del " + vcommon.Hex(o.Key)
	}
	return o.Kind
}

type c06hist struct {
	Name         string
	Version      int
	WriteThrough bool
	Ops          []c06op
	Probes       [][]byte // extra keys read from the fresh instance
}

func opsStrings(ops []c06op) []string {
	out := make([]string, len(ops))
	for i, o := range ops {
		out[i] = o.String()
	}
	return out
}

// branchPoints is the number of internal nodes of the compressed radix trie
// of the key set: the distinct longest common prefixes of adjacent keys.
func branchPoints(m *vcommon.OrdMap) (branches int, withValue int, maxPartial int) {
	ks := m.Keys()
	set := map[string]bool{}
	var nibs [][]byte
	for _, k := range ks {
		nibs = append(nibs, vcommon.KeyToNibbles(k))
	}
	present := map[string]bool{}
	for _, n := range nibs {
		present[string(n)] = true
	}
	for i := 0; i+1 < len(nibs); i++ {
		a, b := nibs[i], nibs[i+1]
		l := 0
		for l < len(a) && l < len(b) && a[l] == b[l] {
			l++
		}
		set[string(a[:l])] = true
	}
	for p := range set {
		if present[p] {
			withValue++
		}
	}
	// longest partial key of a leaf: key length minus (longest LCP with a neighbour + 1)
	for i, n := range nibs {
		best := -1
		for _, j := range []int{i - 1, i + 1} {
			if j < 0 || j >= len(nibs) {
				continue
			}
			o := nibs[j]
			l := 0
			for l < len(n) && l < len(o) && n[l] == o[l] {
				l++
			}
			if l > best {
				best = l
			}
		}
		p := len(n) - best - 1
		if best < 0 {
			p = len(n)
		}
		if p > maxPartial {
			maxPartial = p
		}
	}
	return len(set), withValue, maxPartial
}

func layout(v int) trie.TrieLayout {
	if v == 1 {
		return trie.V1
	}
	return trie.V0
}

// readBack opens a FRESH TrieDB at root and compares Get with the model on
// every key of keys. Returns false after recording a violation.
func readBack(c *vcommon.Case, st *Store, root hash.H256, version int, model *vcommon.OrdMap, keys [][]byte,
	w map[string]any, when string) bool {
	fresh := triedb.NewTrieDB[hash.H256, runtime.BlakeTwo256](root, st)
	fresh.SetVersion(layout(version))
	ok := true
	for _, k := range keys {
		want, present := model.Get(k)
		got := fresh.Get(k)
		c.Eval(1)
		switch {
		case present && len(want) == 0:
			// an empty value and "absent" are both nil/empty through Get: ambiguous by API
			c.Count("read_empty_value_ambiguous", 1)
			if len(got) != 0 {
				c.Violation("read-present", fmt.Sprintf("%s: fresh Get(%s)=%s, model has the empty value", when, vcommon.Hex(k), vcommon.Hex(got)), w)
				ok = false
			}
		case present:
			c.Count("read_present", 1)
			if len(want) > 32 && version == 1 {
				c.Count("read_hashed_value", 1)
			}
			if !bytes.Equal(got, want) {
				c.Violation("read-present", fmt.Sprintf("%s: fresh Get(%s)=%s want [%d]%s", when, vcommon.Hex(k), vcommon.Hex(got), len(want), vcommon.Hex(want)),
					withKV(w, "key", vcommon.Hex(k)))
				ok = false
			}
		default:
			c.Count("read_absent", 1)
			if got != nil {
				c.Violation("read-absent", fmt.Sprintf("%s: fresh Get(%s)=%s but the key is absent", when, vcommon.Hex(k), vcommon.Hex(got)),
					withKV(w, "key", vcommon.Hex(k)))
				ok = false
			}
		}
		if !ok {
			return false
		}
	}
	return true
}

func withKV(w map[string]any, k string, v any) map[string]any {
	n := make(map[string]any, len(w)+1)
	for a, b := range w {
		n[a] = b
	}
	n[k] = v
	return n
}

// runHistory is the monitor: real TrieDB and OrdMap in lock-step.
func runHistory(c *vcommon.Case, h *c06hist) {
	st := NewStore(h.WriteThrough)
	model := vcommon.NewOrdMap()
	t := triedb.NewEmptyTrieDB[hash.H256, runtime.BlakeTwo256](st)
	t.SetVersion(layout(h.Version))

	w := map[string]any{"name": h.Name, "version": h.Version, "write_through": h.WriteThrough}
	done := 0
	wit := func() map[string]any {
		return withKV(w, "ops", opsStrings(h.Ops[:done]))
	}

	// every key ever mentioned + probes
	seen := map[string]bool{}
	var universe [][]byte
	addU := func(k []byte) {
		if !seen[string(k)] {
			seen[string(k)] = true
			universe = append(universe, append([]byte{}, k...))
		}
	}
	for _, o := range h.Ops {
		if o.Kind == "put" || o.Kind == "del" {
			addU(o.Key)
		}
	}
	for _, p := range h.Probes {
		addU(p)
	}

	reopened, deletedPresent, atEnd := false, false, false
	sinceCommit := 0

	// a panic inside the engine is a violation; attach the history to it
	defer func() {
		if p := recover(); p != nil {
			st := string(debug.Stack())
			if len(st) > 5000 {
				st = st[:5000]
			}
			ww := wit()
			ww["stack"] = st
			at := "end"
			if !atEnd && done >= 1 && done <= len(h.Ops) {
				at = h.Ops[done-1].String()
			}
			c.Violation("panic", fmt.Sprintf("panic at op %d (%s): %v", done-1, at, p), ww)
		}
	}()

	// The engine is called the way a client calls it: one long-lived buffer
	// per key, reused for every operation on that key and never modified by
	// the harness. The model and the witness use pristine copies. An engine
	// that writes into the caller's key makes every later operation with that
	// key a different operation than the one the caller issued.
	callerBuf := map[string][]byte{}
	callerKey := func(k []byte) []byte {
		b, ok := callerBuf[string(k)]
		if !ok {
			b = append(make([]byte, 0, len(k)), k...)
			callerBuf[string(k)] = b
		}
		return b
	}
	keysIntact := func(when string) bool {
		c.Eval(1)
		for pristine, b := range callerBuf {
			if string(b) != pristine {
				ww := wit()
				ww["key"] = vcommon.Hex([]byte(pristine))
				ww["key_after"] = vcommon.Hex(b)
				c.Violation("caller-key-mutated", fmt.Sprintf("%s rewrote the caller's key buffer %s into %s", when,
					vcommon.Hex([]byte(pristine)), vcommon.Hex(b)), ww)
				return false
			}
		}
		return true
	}

	checkRoot := func(when string) (hash.H256, bool) {
		got, err := t.Hash()
		c.Eval(1)
		c.Count("root_checks", 1)
		if sinceCommit > 0 {
			c.Count("commits_with_changes", 1)
		}
		sinceCommit = 0
		if err != nil {
			c.Violation("hash-error", fmt.Sprintf("%s: Hash() error: %v", when, err), wit())
			return got, false
		}
		if !keysIntact(when + ": Hash()") {
			return got, false
		}
		want := vcommon.SpecRoot(model, h.Version)
		if !bytes.Equal(got.Bytes(), want[:]) {
			ks, vs := model.Entries()
			var mm []string
			for i := range ks {
				mm = append(mm, fmt.Sprintf("%s=[%d]%s", vcommon.Hex(ks[i]), len(vs[i]), vcommon.Hex(vs[i])))
			}
			ww := wit()
			ww["model"] = mm
			ww["got_root"] = vcommon.Hex(got.Bytes())
			ww["spec_root"] = vcommon.Hex(want[:])
			c.Violation("root", fmt.Sprintf("%s: TrieDB.Hash()=%s spec root=%s (v%d, %d keys)", when,
				vcommon.Hex(got.Bytes()), vcommon.Hex(want[:]), h.Version, model.Len()), ww)
			return got, false
		}
		return got, true
	}

	for i, o := range h.Ops {
		done = i + 1
		switch o.Kind {
		case "put":
			old, had := model.Get(o.Key)
			if had && bytes.Equal(old, o.Val) {
				c.Count("put_same_value", 1)
			} else if had {
				c.Count("put_overwrite", 1)
			}
			if h.Version == 1 {
				switch len(o.Val) {
				case 31:
					c.Count("v1_value_len_31", 1)
				case 32:
					c.Count("v1_value_len_32", 1)
				case 33:
					c.Count("v1_value_len_33", 1)
				}
				if had && (len(old) > 32) != (len(o.Val) > 32) {
					c.Count("v1_value_crosses_threshold", 1)
				}
			}
			if len(o.Val) == 0 {
				c.Count("put_empty_value", 1)
			}
			c.Count("puts", 1)
			if reopened {
				c.Count("put_after_reopen", 1)
			}
			kb := callerKey(o.Key)
			if err := t.Put(kb, append([]byte{}, o.Val...)); err != nil {
				c.Violation("op-error", fmt.Sprintf("Put(%s) error: %v", vcommon.Hex(o.Key), err), wit())
				return
			}
			if !keysIntact(fmt.Sprintf("Put(%s)", vcommon.Hex(o.Key))) {
				return
			}
			model.Put(o.Key, o.Val)
			sinceCommit++
		case "del":
			b0, _, _ := branchPoints(model)
			_, had := model.Get(o.Key)
			if err := t.Delete(callerKey(o.Key)); err != nil {
				c.Violation("op-error", fmt.Sprintf("Delete(%s) error: %v", vcommon.Hex(o.Key), err), wit())
				return
			}
			if !keysIntact(fmt.Sprintf("Delete(%s)", vcommon.Hex(o.Key))) {
				return
			}
			model.Delete(o.Key)
			sinceCommit++
			if had {
				deletedPresent = true
				c.Count("delete_present", 1)
				b1, _, _ := branchPoints(model)
				if b1 < b0 {
					c.Count("delete_merges_branch", 1)
					if reopened {
						c.Count("delete_merges_after_reopen", 1)
					}
				}
				if model.Len() == 0 {
					c.Count("delete_to_empty", 1)
				}
			} else {
				c.Count("delete_absent", 1)
				if len(model.KeysWithPrefix(o.Key)) > 0 {
					c.Count("delete_absent_prefix_of_present", 1)
				}
			}
		case "commit":
			if _, ok := checkRoot(fmt.Sprintf("commit after op %d", i)); !ok {
				return
			}
		case "reopen":
			root, ok := checkRoot(fmt.Sprintf("reopen after op %d", i))
			if !ok {
				return
			}
			if !readBack(c, st, root, h.Version, model, universe, wit(), fmt.Sprintf("reopen after op %d", i)) {
				return
			}
			t = triedb.NewTrieDB[hash.H256, runtime.BlakeTwo256](root, st)
			t.SetVersion(layout(h.Version))
			reopened = true
			c.Count("reopens", 1)
		}
	}
	done, atEnd = len(h.Ops), true
	root, ok := checkRoot("end")
	if !ok {
		return
	}
	if !readBack(c, st, root, h.Version, model, universe, wit(), "end") {
		return
	}
	// second Hash() without changes must be stable
	if again, err := t.Hash(); err != nil || again != root {
		c.Violation("root-unstable", fmt.Sprintf("second Hash()=%s err=%v, first %s", vcommon.Hex(again.Bytes()), err, vcommon.Hex(root.Bytes())), wit())
		return
	}

	br, bv, mp := branchPoints(model)
	c.Count("final_branches", br)
	if bv > 0 {
		c.Count("final_branch_with_value", 1)
	}
	if mp >= 63 {
		c.Count("final_partial_key_ge_63", 1)
	}
	if mp >= 318 {
		c.Count("final_partial_key_ge_318", 1)
	}
	if model.Len() == 0 {
		c.Count("final_empty", 1)
	}
	if st.DroppedBatches > 0 {
		c.Count("store_dropped_batches", st.DroppedBatches)
	}
	c.Count("histories_v"+fmt.Sprint(h.Version), 1)
	if model.Len() >= 2 || deletedPresent {
		c.Distinct(fmt.Sprintf("v%d|%x", h.Version, root.Bytes()))
	}
	c.Sample(map[string]any{"name": h.Name, "version": h.Version, "ops": len(h.Ops), "final_keys": model.Len(),
		"branches": br, "root": vcommon.Hex(root.Bytes()), "store_entries": st.Len(), "first_ops": opsStrings(h.Ops[:min(len(h.Ops), 6)])})
}

// ---------------------------------------------------------------------------
// generators

func hx(s string) []byte {
	b, err := hex.DecodeString(s)
	if err != nil {
		panic(err)
	}
	return b
}

func genAlphabet(r *vcommon.Rand) [][]byte {
	var keys [][]byte
	add := func(k []byte) { keys = append(keys, append([]byte{}, k...)) }
	fam := r.Intn(6)
	// every alphabet gets a few short keys over few nibbles so that prefixes collide
	nibs := [][]byte{{0x0, 0x1, 0xf}, {0x1, 0x2}, {0x0, 0xa, 0xb}, {0x3, 0x4, 0x5, 0xf}}[r.Intn(4)]
	mkByte := func() byte { return vcommon.Pick(r, nibs)<<4 | vcommon.Pick(r, nibs) }
	short := func(n int) []byte {
		b := make([]byte, n)
		for i := range b {
			b[i] = mkByte()
		}
		return b
	}
	nShort := r.Range(2, 10)
	for i := 0; i < nShort; i++ {
		add(short(r.Range(0, 3)))
	}
	switch fam {
	case 0: // prefix chains
		k := short(1)
		for i := 0; i < r.Range(2, 6); i++ {
			add(k)
			k = append(k, mkByte())
		}
	case 1: // long keys crossing the 63-nibble header boundary
		base := r.Bytes(70)
		p := short(r.Range(0, 2))
		L := append(append([]byte{}, p...), base...)
		for _, n := range []int{32, 33, 34, 40, 64, 65, 70} {
			if n+len(p) <= len(L) && r.Chance(2, 3) {
				add(L[:len(p)+n])
			}
		}
		x := append([]byte{}, L...)
		x[len(x)-1] ^= 0x01
		add(x)
		y := append([]byte{}, L...)
		y[len(p)] ^= 0x10
		add(y)
		add(L)
	case 2: // one very long key (partial key >= 63+255 nibbles) and neighbours
		L := r.Bytes(r.Range(160, 200))
		add(L)
		x := append([]byte{}, L...)
		x[len(x)-1] ^= 0x0f
		add(x)
		if r.Bool() {
			y := append([]byte{}, L...)
			y[0] ^= 0x80
			add(y)
		}
		add(L[:1])
	case 3: // hash-like 32-byte keys, some sharing 16-byte prefixes (child-trie like)
		pre := r.Bytes(16)
		for i := 0; i < r.Range(3, 8); i++ {
			if r.Bool() {
				add(append(append([]byte{}, pre...), r.Bytes(16)...))
			} else {
				add(r.Bytes(32))
			}
		}
	case 4: // dense: all 1-byte keys over the nibble alphabet
		for _, a := range nibs {
			for _, b := range nibs {
				add([]byte{a<<4 | b})
			}
		}
	default:
	}
	if r.Chance(1, 3) {
		add([]byte{})
	}
	return keys
}

var c06ValueLens = []int{0, 1, 2, 5, 31, 32, 33, 34, 64, 100}

func genValue(r *vcommon.Rand, pool *[][]byte) []byte {
	if len(*pool) > 0 && r.Chance(1, 6) { // the same value under several keys
		return vcommon.Pick(r, *pool)
	}
	var n int
	switch r.Intn(10) {
	case 0, 1, 2, 3, 4, 5:
		n = vcommon.Pick(r, c06ValueLens)
	case 6:
		n = r.Range(28, 36)
	default:
		n = r.Range(0, 80)
	}
	v := r.Bytes(n)
	if r.Chance(1, 8) { // low-entropy
		for i := range v {
			v[i] = 0
		}
	}
	*pool = append(*pool, v)
	return v
}

func derivedProbes(keys [][]byte) [][]byte {
	var out [][]byte
	for _, k := range keys {
		if len(k) > 0 {
			out = append(out, k[:len(k)-1])
			x := append([]byte{}, k...)
			x[len(x)-1] ^= 0x01
			out = append(out, x)
			y := append([]byte{}, k...)
			y[len(y)-1] ^= 0x10
			out = append(out, y)
		}
		out = append(out, append(append([]byte{}, k...), 0x00))
		out = append(out, append(append([]byte{}, k...), 0x10))
	}
	out = append(out, []byte{})
	return out
}

func genHistory(r *vcommon.Rand) *c06hist {
	h := &c06hist{Name: "gen", Version: r.Intn(2), WriteThrough: r.Chance(1, 3)}
	keys := genAlphabet(r)
	probes := derivedProbes(keys)
	h.Probes = probes
	var pool [][]byte
	n := r.Range(1, 120)
	if r.Chance(1, 4) {
		n = r.Range(1, 12)
	}
	policy := r.Intn(4) // 0 never, 1 every op, 2 random 1/5, 3 random 1/20
	reopenP := []int{0, 3, 10, 25}[r.Intn(4)]
	delP := []int{10, 30, 50}[r.Intn(3)]
	model := map[string][]byte{}
	for i := 0; i < n; i++ {
		x := r.Intn(100)
		switch {
		case x < delP:
			var k []byte
			switch {
			case r.Chance(1, 8):
				k = vcommon.Pick(r, probes) // mostly absent: prefixes / neighbours of alphabet keys
			default:
				k = vcommon.Pick(r, keys)
			}
			h.Ops = append(h.Ops, c06op{Kind: "del", Key: k})
			delete(model, string(k))
		default:
			k := vcommon.Pick(r, keys)
			var v []byte
			if old, ok := model[string(k)]; ok && r.Chance(1, 10) {
				v = old
			} else {
				v = genValue(r, &pool)
			}
			h.Ops = append(h.Ops, c06op{Kind: "put", Key: k, Val: v})
			model[string(k)] = v
		}
		switch policy {
		case 1:
			h.Ops = append(h.Ops, c06op{Kind: "commit"})
		case 2:
			if r.Chance(1, 5) {
				h.Ops = append(h.Ops, c06op{Kind: "commit"})
			}
		case 3:
			if r.Chance(1, 20) {
				h.Ops = append(h.Ops, c06op{Kind: "commit"})
			}
		}
		if reopenP > 0 && r.Chance(reopenP, 100) {
			h.Ops = append(h.Ops, c06op{Kind: "reopen"})
		}
	}
	// tail: frequently drain the trie after a reopen so that merges happen on persisted nodes
	if r.Chance(1, 3) {
		h.Ops = append(h.Ops, c06op{Kind: "reopen"})
		perm := r.Perm(len(keys))
		stop := r.Range(0, len(keys))
		for i, pi := range perm {
			if i >= len(keys)-stop {
				break
			}
			h.Ops = append(h.Ops, c06op{Kind: "del", Key: keys[pi]})
			if r.Chance(1, 4) {
				h.Ops = append(h.Ops, c06op{Kind: "commit"})
			}
		}
	}
	return h
}

// ---------------------------------------------------------------------------
// fixed regression corpus

func rep(b byte, n int) []byte { return bytes.Repeat([]byte{b}, n) }

func c06Corpus() []*c06hist {
	var out []*c06hist
	put := func(k string, v []byte) c06op { return c06op{Kind: "put", Key: hx(k), Val: v} }
	del := func(k string) c06op { return c06op{Kind: "del", Key: hx(k)} }
	commit, reopen := c06op{Kind: "commit"}, c06op{Kind: "reopen"}
	for v := 0; v < 2; v++ {
		for _, wt := range []bool{false, true} {
			add := func(name string, ops ...c06op) {
				var keys [][]byte
				for _, o := range ops {
					if o.Key != nil {
						keys = append(keys, o.Key)
					}
				}
				out = append(out, &c06hist{Name: name, Version: v, WriteThrough: wt, Ops: ops, Probes: derivedProbes(keys)})
			}
			add("empty")
			add("empty-commit-reopen", commit, reopen)
			// minimal witness of the NewValue threshold defect: one 32-byte value (V1)
			add("single-32-byte-value", put("aa", rep(7, 32)))
			add("single-31-byte-value", put("aa", rep(7, 31)))
			add("single-33-byte-value", put("aa", rep(7, 33)))
			add("threshold-walk", put("aa", rep(1, 31)), commit, put("aa", rep(1, 32)), commit, put("aa", rep(1, 33)), commit,
				put("aa", rep(1, 32)), reopen, put("aa", rep(1, 33)), reopen, del("aa"))
			add("branch-value-32", put("12", rep(2, 32)), put("1234", rep(3, 32)), put("1235", rep(4, 33)), reopen,
				del("1234"), commit, del("1235"))
			// delete of an absent key that ends exactly where a child branch with a partial key starts
			add("delete-absent-above-branch-partial", put("1000", []byte{1}), put("1abc", []byte{2}), put("1abc01", []byte{3}),
				put("1abc02", []byte{4}), commit, del("1a"), commit, reopen, del("1a"))
			add("delete-absent-above-branch-partial-uncommitted", put("1000", []byte{1}), put("1abc", []byte{2}), put("1abc01", []byte{3}),
				put("1abc02", []byte{4}), del("1a"))
			add("delete-absent-prefix-of-leaf", put("123456", []byte{1}), del("12"), del("1234"), del("12345678"), commit, reopen, del("12"))
			// merges after reopen, hashed values shared by several keys
			add("merge-after-reopen", put("0100", rep(9, 40)), put("0101", rep(9, 40)), put("0111", rep(9, 40)), put("01", rep(9, 40)),
				reopen, del("0101"), commit, del("0100"), reopen, del("01"), reopen, del("0111"))
			add("same-hashed-value-many-keys", put("aa00", rep(5, 64)), put("aa01", rep(5, 64)), put("ab", rep(5, 64)), commit,
				del("aa00"), commit, reopen, put("aa00", rep(5, 64)), del("aa01"), del("ab"))
			add("overwrite-same-after-reopen", put("aa", rep(5, 64)), put("ab", rep(6, 10)), reopen, put("aa", rep(5, 64)), put("ab", rep(6, 10)), commit)
			add("replace-and-restore-before-commit", put("aa", rep(5, 64)), put("ab", rep(6, 64)), reopen, put("aa", rep(8, 64)), put("aa", rep(5, 64)), commit,
				del("ab"), put("ab", rep(6, 64)))
			add("empty-key", put("", rep(1, 5)), put("00", rep(2, 33)), reopen, del(""), reopen, put("", rep(3, 33)), del("00"))
			add("empty-value", put("aa", []byte{}), put("aabb", []byte{}), reopen, del("aa"))
			long := hex.EncodeToString(append(hx("ab"), rep(0x11, 69)...))
			long2 := hex.EncodeToString(append(append(hx("ab"), rep(0x11, 68)...), 0x12))
			add("long-partial-keys", put(long, rep(1, 33)), commit, put(long2, rep(2, 32)), reopen, put(long[:66], rep(3, 31)), reopen,
				del(long2), reopen, del(long[:66]))
			vlong := hex.EncodeToString(rep(0x77, 160))
			vlong2 := hex.EncodeToString(append(rep(0x77, 159), 0x78))
			add("very-long-partial-key", put(vlong, rep(1, 40)), reopen, put(vlong2, rep(2, 40)), reopen, del(vlong), reopen, del(vlong2))
			// database keys were built by appending the node hash to a sub-slice of the caller's key
			add("put-40-byte-key-on-empty-trie", put(hex.EncodeToString(rep(0xab, 40)), rep(1, 3)))
			add("long-keys-sharing-32-byte-prefix", put(hex.EncodeToString(rep(0xcd, 32)), rep(1, 67)), commit,
				put(hex.EncodeToString(append(rep(0xcd, 32), rep(0xee, 38)...)), rep(2, 55)), commit,
				del(hex.EncodeToString(rep(0xcd, 32))), commit, put(hex.EncodeToString(rep(0xcd, 32)), rep(1, 67)))
			// node keys aliased the caller's key and were shifted in place
			add("leaf-split-shifts-key", put("1101", []byte{}), put("0f", rep(3, 47)), put("0f00", rep(4, 31)), put("0f00", rep(5, 1)),
				put("001111", rep(6, 2)), commit, reopen)
			add("branch-merge-shifts-key", put("2212", rep(1, 5)), put("11", rep(2, 38)), put("112121", rep(3, 2)), put("11", rep(4, 5)),
				put("2212", rep(5, 33)), put("222222", rep(6, 29)), del("11"), commit, reopen)
			add("sixteen-children", func() []c06op {
				var ops []c06op
				for i := 0; i < 16; i++ {
					ops = append(ops, put(fmt.Sprintf("%x0", i), rep(byte(i), 30+i%5)))
				}
				ops = append(ops, reopen)
				for i := 0; i < 16; i += 2 {
					ops = append(ops, del(fmt.Sprintf("%x0", i)))
				}
				ops = append(ops, reopen)
				for i := 1; i < 16; i += 2 {
					ops = append(ops, del(fmt.Sprintf("%x0", i)), commit)
				}
				return ops
			}()...)
		}
	}
	return out
}

func TestVerifC06(t *testing.T) {
	r := vcommon.Start(t, "C06")
	defer r.Finish()
	if err := vcommon.SpecSelfCheck(); err != nil {
		r.Cases("selfcheck", 1, func(c *vcommon.Case) { c.Inconclusive("reference model self-check failed: " + err.Error()) })
		return
	}
	r.Floor("root_checks", 1000)
	r.Floor("read_present", 1000)
	r.Floor("read_absent", 1000)
	r.Floor("read_hashed_value", 50)
	r.Floor("v1_value_len_31", 5)
	r.Floor("v1_value_len_32", 5)
	r.Floor("v1_value_len_33", 5)
	r.Floor("reopens", 100)
	r.Floor("delete_merges_branch", 50)
	r.Floor("delete_merges_after_reopen", 20)
	r.Floor("delete_to_empty", 5)
	r.Floor("delete_absent_prefix_of_present", 10)
	r.Floor("final_branch_with_value", 20)
	r.Floor("final_partial_key_ge_63", 10)
	r.Floor("final_partial_key_ge_318", 3)
	r.Floor("put_same_value", 20)
	r.Floor("histories_v0", 100)
	r.Floor("histories_v1", 100)

	corpus := c06Corpus()
	r.Fixed("corpus", len(corpus), func(c *vcommon.Case) { runHistory(c, corpus[c.Idx]) })
	r.Cases("hist", r.Scale(2500), func(c *vcommon.Case) { runHistory(c, genHistory(c.R)) })
}
